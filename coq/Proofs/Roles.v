(* Proofs/Roles.v — C11: invariants of the PSET v2 role state machine (Model/Roles.v).

   All full (the code after the fix: commits listed in Model/Roles.v):
     over every start packet built by [init] and every operation list: counts_match, no_duplicate_outpoints,
       kinds_compatible, reachable_roundtrips (operation lists whose caller-written flags are three bits and
       whose generator scalars are fresh — shown necessary for the flags);
     from ANY state and for ANY operation: modifiable_respected, locktime_is_max_of_selected_kind,
       multi_part_ops_atomic, finalized_inputs_frozen (multi-part operations and finalizers).
   The counterexamples of the earlier runs are Examples that now behave; corpus/hist.txt replays them. *)
From Coq Require Import List NArith ZArith Bool Lia.
From Coq Require Import ZifyBool ZifyN ZifyNat.
From GE Require Import Model.Roles.
Import ListNotations.
Import R11.
Open Scope N_scope.

(* ---------- generic list facts ---------- *)
Lemma length_set_nth {A} : forall n (x : A) l, length (set_nth n x l) = length l.
Proof. intros n x l; revert n; induction l as [|h t IH]; intros [|n]; cbn; auto. Qed.

Lemma nth_set_nth_eq {A} : forall n (x y : A) l, nth_error l n = Some y -> nth_error (set_nth n x l) n = Some x.
Proof. intros n x y l; revert n; induction l as [|h t IH]; intros [|n] H; cbn in *; try discriminate; auto. Qed.

Lemma nth_set_nth_neq {A} : forall n m (x : A) l, n <> m -> nth_error (set_nth n x l) m = nth_error l m.
Proof.
  intros n m x l; revert n m; induction l as [|h t IH]; intros [|n] [|m] H; cbn; auto; try congruence.
Qed.

Lemma set_nth_same {A} : forall n (x : A) l, nth_error l n = Some x -> set_nth n x l = l.
Proof. intros n x l; revert n; induction l as [|h t IH]; intros [|n] H; cbn in *; try discriminate; auto.
  - congruence.
  - f_equal; auto.
Qed.

Lemma NoDup_snoc {A} : forall (l : list A) x, NoDup l -> ~ In x l -> NoDup (l ++ [x]).
Proof.
  induction l as [|h t IH]; intros x Hnd Hin; cbn.
  - constructor; [intros []|constructor].
  - inversion Hnd as [|h' t' Hh Ht]; subst. constructor.
    + intro Hc; apply in_app_or in Hc as [Hc|[Hc|[]]]; [auto|subst; apply Hin; left; auto].
    + apply IH; auto. intro Hc; apply Hin; right; auto.
Qed.

(* ---------- the structural steps ---------- *)
Definition outpoint (c : core) : N * bool * N := (c_t c, c_short c, c_idx c).

Lemma same_outpoint_true : forall x y, same_outpoint x y = true <-> outpoint x = outpoint y.
Proof.
  intros x y; unfold same_outpoint, outpoint; split; intro H.
  - apply andb_prop in H as [H H3]; apply andb_prop in H as [H1 H2].
    apply N.eqb_eq in H1, H3; apply eqb_prop in H2; congruence.
  - inversion H as [[H1 H2 H3]]; rewrite H1, H2, H3, !N.eqb_refl, eqb_reflx; reflexivity.
Qed.

Lemma existsb_same_outpoint_false : forall c cs,
  existsb (same_outpoint c) cs = false -> ~ In (outpoint c) (map outpoint cs).
Proof.
  intros c cs H Hin; apply in_map_iff in Hin as [y [Hy Hin]].
  assert (existsb (same_outpoint c) cs = true) as E.
  { apply existsb_exists; exists y; split; auto; apply same_outpoint_true; auto. }
  congruence.
Qed.

Lemma add_input_inv : forall p a p', add_input p a = Some p' ->
  g_nin p' = g_nin p + 1 /\ g_nout p' = g_nout p /\ g_flags p' = g_flags p /\ g_fallback p' = g_fallback p
  /\ g_scalars p' = g_scalars p
  /\ p_cores p' = p_cores p ++ [to_core a] /\ p_auxs p' = p_auxs p ++ [aux0] /\ p_outs p' = p_outs p
  /\ inputs_modifiable p = true /\ existsb (same_outpoint (to_core a)) (p_cores p) = false.
Proof.
  intros p a p' H; unfold add_input in H.
  destruct ((ia_cls a =? 1) || (ia_cls a =? 2)); [discriminate|].
  destruct (existsb (same_outpoint (to_core a)) (p_cores p)) eqn:Edup; [discriminate|].
  destruct (inputs_modifiable p) eqn:Emod; cbn [negb] in H; [|discriminate].
  match type of H with (if negb ?b then _ else _) = _ => destruct b end; cbn [negb] in H; [|discriminate].
  inversion H; subst p'; cbn; repeat split; auto.
Qed.

Lemma add_output_inv : forall p o p', add_output p o = Some p' ->
  g_nin p' = g_nin p /\ g_nout p' = g_nout p + 1 /\ g_flags p' = g_flags p /\ g_fallback p' = g_fallback p
  /\ g_scalars p' = g_scalars p
  /\ p_cores p' = p_cores p /\ p_auxs p' = p_auxs p /\ p_outs p' = p_outs p ++ [o]
  /\ outputs_modifiable p = true.
Proof.
  intros p o p' H; unfold add_output in H.
  destruct (out_sane o); cbn [negb] in H; [|discriminate].
  destruct (outputs_modifiable p) eqn:Emod; cbn [negb] in H; [|discriminate].
  inversion H; subst p'; cbn; repeat split; auto.
Qed.

(* the invariants *)
Definition cm (p : pset) : Prop :=
  g_nin p = N.of_nat (length (p_cores p)) /\ g_nout p = N.of_nat (length (p_outs p)).
Definition nd (p : pset) : Prop := NoDup (map outpoint (p_cores p)).

Lemma add_input_cm : forall p a p', add_input p a = Some p' -> cm p -> cm p'.
Proof.
  intros p a p' H [C1 C2]; apply add_input_inv in H as (H1 & H2 & _ & _ & _ & H3 & _ & H4 & _).
  unfold cm; rewrite H1, H2, H3, H4, app_length; cbn; split; lia.
Qed.

Lemma add_input_nd : forall p a p', add_input p a = Some p' -> nd p -> nd p'.
Proof.
  intros p a p' H Hnd; apply add_input_inv in H as (_ & _ & _ & _ & _ & H3 & _ & _ & _ & Hdup).
  unfold nd in *; rewrite H3, map_app; cbn.
  apply NoDup_snoc; auto. apply existsb_same_outpoint_false; auto.
Qed.


Lemma add_inputs_inv : forall l p p', add_inputs p l = Some p' ->
  g_nin p' = g_nin p + N.of_nat (length l) /\ g_nout p' = g_nout p /\ g_flags p' = g_flags p
  /\ g_fallback p' = g_fallback p /\ g_scalars p' = g_scalars p
  /\ p_cores p' = p_cores p ++ map to_core l /\ p_auxs p' = p_auxs p ++ repeat aux0 (length l)
  /\ p_outs p' = p_outs p /\ (l <> [] -> inputs_modifiable p = true).
Proof.
  induction l as [|a l IH]; intros p p' H; cbn in H.
  - inversion H; subst; cbn; rewrite !app_nil_r, N.add_0_r; repeat split; auto; congruence.
  - destruct (add_input p a) as [p1|] eqn:E1; [|discriminate].
    apply add_input_inv in E1 as (A1 & A2 & A3 & A4 & A5 & A6 & A7 & A8 & A9 & _).
    apply IH in H as (B1 & B2 & B3 & B4 & B5 & B6 & B7 & B8 & _).
    rewrite B1, B2, B3, B4, B5, B6, B7, B8, A1, A2, A3, A4, A5, A6, A7, A8; cbn [length map repeat].
    rewrite <- !app_assoc; cbn [app]. repeat split; auto; lia.
Qed.

Lemma add_inputs_cm : forall l p p', add_inputs p l = Some p' -> cm p -> cm p'.
Proof.
  induction l as [|a l IH]; intros p p' H C; cbn in H; [inversion H; subst; auto|].
  destruct (add_input p a) as [p1|] eqn:E1; [|discriminate]. eapply IH; eauto. eapply add_input_cm; eauto.
Qed.

Lemma add_inputs_nd : forall l p p', add_inputs p l = Some p' -> nd p -> nd p'.
Proof.
  induction l as [|a l IH]; intros p p' H C; cbn in H; [inversion H; subst; auto|].
  destruct (add_input p a) as [p1|] eqn:E1; [|discriminate]. eapply IH; eauto. eapply add_input_nd; eauto.
Qed.

Lemma add_outputs_inv : forall l p p', add_outputs p l = Some p' ->
  g_nin p' = g_nin p /\ g_nout p' = g_nout p + N.of_nat (length l) /\ g_flags p' = g_flags p
  /\ g_fallback p' = g_fallback p /\ g_scalars p' = g_scalars p
  /\ p_cores p' = p_cores p /\ p_auxs p' = p_auxs p /\ p_outs p' = p_outs p ++ l
  /\ (l <> [] -> outputs_modifiable p = true).
Proof.
  induction l as [|a l IH]; intros p p' H; cbn in H.
  - inversion H; subst; cbn; rewrite !app_nil_r, N.add_0_r; repeat split; auto; congruence.
  - destruct (add_output p a) as [p1|] eqn:E1; [|discriminate].
    apply add_output_inv in E1 as (A1 & A2 & A3 & A4 & A5 & A6 & A7 & A8 & A9).
    apply IH in H as (B1 & B2 & B3 & B4 & B5 & B6 & B7 & B8 & _).
    rewrite B1, B2, B3, B4, B5, B6, B7, B8, A1, A2, A3, A4, A5, A6, A7, A8; cbn [length].
    rewrite <- !app_assoc; cbn [app]. repeat split; auto; lia.
Qed.

Lemma add_outputs_cm : forall l p p', add_outputs p l = Some p' -> cm p -> cm p'.
Proof.
  intros l p p' H [C1 C2]; apply add_outputs_inv in H as (A1 & A2 & _ & _ & _ & A6 & _ & A8 & _).
  unfold cm; rewrite A1, A2, A6, A8, app_length; split; lia.
Qed.

(* ---------- the non-structural steps keep the skeleton ---------- *)
Lemma on_input_parts : forall p i g f auxs outs sc r,
  on_input p i g f = ((auxs, outs, sc), r) -> outs = p_outs p /\ sc = g_scalars p.
Proof.
  intros p i g f auxs outs sc r H; unfold on_input in H.
  destruct (in_index p i g) as [[[n c] a]|o]; [destruct (f c a) as [a' r']|]; inversion H; auto.
Qed.

Lemma on_output_parts : forall p i f auxs outs sc r,
  on_output p i f = ((auxs, outs, sc), r) -> length outs = length (p_outs p) /\ auxs = p_auxs p /\ sc = g_scalars p.
Proof.
  intros p i f auxs outs sc r H; unfold on_output in H.
  destruct (out_index p i) as [[n o]|o]; [destruct (f o) as [o' r']|]; inversion H; subst;
    rewrite ?length_set_nth; auto.
Qed.

Lemma blind_outs_len : forall a l outs outs' d, blind_outs a l outs = (outs', d) -> length outs' = length outs.
Proof.
  intros a l; induction l as [|[i c] l IH]; intros outs outs' d H; cbn in H.
  - inversion H; auto.
  - destruct (bl_last a && match l with [] => true | _ => false end && ((bl_gfail a =? 2) || (bl_gfail a =? 3))).
    + inversion H; auto.
    + destruct (nth_error outs (N.to_nat i)) as [o|]; [|inversion H; auto].
      apply IH in H; rewrite H, length_set_nth; auto.
Qed.

Lemma do_blind_len : forall p a auxs outs sc r, do_blind p a = ((auxs, outs, sc), r) -> length outs = length (p_outs p).
Proof.
  intros p a auxs outs sc r H; unfold do_blind in H.
  repeat match type of H with
  | (if ?b then _ else _) = _ => destruct b
  | (match ?x with _ => _ end) = _ => destruct x eqn:?
  | (let '(_, _) := ?x in _) = _ => destruct x eqn:?
  end; try (inversion H; subst; auto; fail);
  try (inversion H; subst; eapply blind_outs_len; eauto).
Qed.

Lemma staged_parts_len : forall p x auxs outs sc r,
  (forall a o s r', x = ((a, o, s), r') -> length o = length (p_outs p)) ->
  staged_parts p x = ((auxs, outs, sc), r) -> length outs = length (p_outs p).
Proof.
  intros p [[[a o] s0] r'] auxs outs sc r Hx H; unfold staged_parts in H; cbn [snd] in H.
  destruct r'; inversion H; subst; auto; eapply Hx; reflexivity.
Qed.

Lemma local_step_len : forall p o auxs outs sc r,
  local_step p o = ((auxs, outs, sc), r) -> length outs = length (p_outs p).
Proof.
  intro p.
  assert (forall i g f, forall a o s r', on_input p i g f = ((a, o, s), r') -> length o = length (p_outs p)) as Hon.
  { intros i g f a o s r' E; apply on_input_parts in E as [E _]; subst; reflexivity. }
  assert (forall i f, forall a o s r', on_output p i f = ((a, o, s), r') -> length o = length (p_outs p)) as Hout.
  { intros i f a o s r' E; apply on_output_parts in E as [E _]; exact E. }
  intros o auxs outs sc r H; destruct o; cbn [local_step] in H;
    try (eapply staged_parts_len in H; [exact H|apply Hon]);
    try (eapply staged_parts_len in H; [exact H|apply Hout]);
    try (apply on_input_parts in H as [H _]; subst; reflexivity);
    try (apply on_output_parts in H as [H _]; exact H);
    try (inversion H; subst; reflexivity).
  - (* sign *) destruct (in_index p i true) as [[[n c] a]|o]; [|inversion H; subst; reflexivity].
    eapply staged_parts_len in H; [exact H|apply Hon].
  - eapply do_blind_len; eauto.
  - (* finalize *)
    destruct ((i <? 0)%Z || (Z.of_nat (length (p_auxs p)) <=? i)%Z); [inversion H; subst; reflexivity|].
    destruct (nth_error (p_cores p) (Z.to_nat i)); [|inversion H; subst; reflexivity].
    destruct (nth_error (p_auxs p) (Z.to_nat i)); [|inversion H; subst; reflexivity].
    destruct (finalize_local c a); inversion H; subst; reflexivity.
  - destruct ((i <? 0)%Z || (Z.of_nat (length (p_auxs p)) <=? i)%Z); [inversion H; subst; reflexivity|].
    destruct (nth_error (p_cores p) (Z.to_nat i)); [|inversion H; subst; reflexivity].
    destruct (nth_error (p_auxs p) (Z.to_nat i)); [|inversion H; subst; reflexivity].
    destruct (maybe_finalize_local c a); inversion H; subst; reflexivity.
  - destruct (finalize_loop finalize_local (p_cores p) 0 (length (p_cores p)) (p_auxs p) (p_outs p) (g_scalars p)).
    eapply staged_parts_len in H; [exact H|]. intros a0 o0 s0 r0 E; inversion E; reflexivity.
  - destruct (finalize_loop maybe_finalize_local (p_cores p) 0 (length (p_cores p)) (p_auxs p) (p_outs p) (g_scalars p)).
    inversion H; subst; reflexivity.
Qed.

Definition same_skel (p p' : pset) : Prop :=
  g_nin p' = g_nin p /\ g_nout p' = g_nout p /\ g_flags p' = g_flags p /\ g_fallback p' = g_fallback p
  /\ p_cores p' = p_cores p /\ length (p_outs p') = length (p_outs p).

Lemma same_skel_refl : forall p, same_skel p p.
Proof. intro p; unfold same_skel; repeat split; auto. Qed.

Lemma same_skel_upd : forall p auxs outs sc, length outs = length (p_outs p) -> same_skel p (upd p auxs outs sc).
Proof. intros; unfold same_skel, upd; cbn; repeat split; auto. Qed.

(* how one step relates the packet before and after *)
Inductive step_rel (p p' : pset) : Prop :=
| SR_same : same_skel p p' -> step_rel p p'
| SR_flags : forall f, p' = set_flags p f -> step_rel p p'
| SR_ins : forall l, add_inputs p l = Some p' -> step_rel p p'
| SR_outs : forall p1 p2 l, same_skel p p1 -> add_outputs p1 l = Some p2 -> same_skel p2 p' -> step_rel p p'.

Lemma local_step_rel : forall p o,
  step_rel p (let '((auxs, outs, sc), r) := local_step p o in (upd p auxs outs sc)).
Proof.
  intros p o; destruct (local_step p o) as [[[auxs outs] sc] r] eqn:E.
  apply SR_same, same_skel_upd. eapply local_step_len; eauto.
Qed.

Lemma step_rel_holds : forall p o, step_rel p (fst (step p o)).
Proof.
  intros p o.
  assert (forall o', step p o' = (let '((auxs, outs, sc), r) := local_step p o' in (upd p auxs outs sc, r)) ->
          step_rel p (fst (step p o'))) as Hloc.
  { intros o' E; rewrite E. pose proof (local_step_rel p o') as H.
    destruct (local_step p o') as [[[auxs outs] sc] r]; exact H. }
  destruct o; try (apply Hloc; reflexivity).
  - (* setmod *) cbn. eapply SR_flags; reflexivity.
  - (* AddInputs *) cbn [step].
    destruct (negb (forallb (fun a => ia_cls a =? 0) l)); [apply SR_same, same_skel_refl|].
    destruct (add_inputs p l) as [p'|] eqn:E; [|apply SR_same, same_skel_refl].
    unfold publish; destruct (sanity p'); cbn [fst]; [eapply SR_ins; eauto|apply SR_same, same_skel_refl].
  - (* AddOutputs *) cbn [step].
    destruct (negb (forallb outarg_valid l)); [apply SR_same, same_skel_refl|].
    destruct (add_outputs p (map to_outp l)) as [p'|] eqn:E; [|apply SR_same, same_skel_refl].
    unfold publish; destruct (sanity p'); cbn [fst]; [|apply SR_same, same_skel_refl].
    eapply SR_outs; [apply same_skel_refl|eauto|apply same_skel_refl].
  - (* AddInIssuance *) cbn [step]; unfold do_issue.
    destruct (negb (issue_validate a)); [apply SR_same, same_skel_refl|].
    destruct (p_cores p) eqn:Ecs; [apply SR_same, same_skel_refl|].
    destruct (in_index p i true) as [[[n c0] ax]|o]; [|apply SR_same, same_skel_refl].
    destruct (a_entropy ax); [apply SR_same, same_skel_refl|].
    destruct (finalized ax); [apply SR_same, same_skel_refl|].
    destruct (c_short c0); [apply SR_same, same_skel_refl|].
    match goal with |- context[add_outputs ?p1 ?l] => destruct (add_outputs p1 l) as [p2|] eqn:E end.
    + unfold publish; destruct (sanity p2); cbn [fst]; [|apply SR_same, same_skel_refl].
      eapply SR_outs; [|eauto|apply same_skel_refl]. apply same_skel_upd; reflexivity.
    + apply SR_same, same_skel_refl.
  - (* AddInReissuance *) cbn [step]; unfold do_reissue.
    destruct (in_index p i true) as [[[n c0] ax]|o]; [|apply SR_same, same_skel_refl].
    destruct (a_entropy ax); [apply SR_same, same_skel_refl|].
    destruct (negb (reissue_validate a)); [apply SR_same, same_skel_refl|].
    destruct (finalized ax); [apply SR_same, same_skel_refl|].
    match goal with |- context[add_outputs ?p1 ?l] => destruct (add_outputs p1 l) as [p2|] eqn:E end.
    + unfold publish.
      match goal with |- context[sanity ?q] => destruct (sanity q) end; cbn [fst]; [|apply SR_same, same_skel_refl].
      eapply SR_outs; [apply same_skel_refl|eauto|]. apply same_skel_upd; reflexivity.
    + apply SR_same, same_skel_refl.
Qed.

(* ---------- invariants over one step ---------- *)
Lemma same_skel_cm : forall p p', same_skel p p' -> cm p -> cm p'.
Proof. intros p p' (A1 & A2 & _ & _ & A5 & A6) [C1 C2]; unfold cm; rewrite A1, A2, A5, A6; auto. Qed.

Lemma same_skel_nd : forall p p', same_skel p p' -> nd p -> nd p'.
Proof. intros p p' (_ & _ & _ & _ & A5 & _) H; unfold nd in *; rewrite A5; auto. Qed.

Lemma step_cm : forall p o, cm p -> cm (fst (step p o)).
Proof.
  intros p o C; destruct (step_rel_holds p o) as [H|f H|l H|p1 p2 l H1 H2 H3].
  - eapply same_skel_cm; eauto.
  - rewrite H; exact C.
  - eapply add_inputs_cm; eauto.
  - eapply same_skel_cm; eauto. eapply add_outputs_cm; eauto. eapply same_skel_cm; eauto.
Qed.

Lemma step_nd : forall p o, nd p -> nd (fst (step p o)).
Proof.
  intros p o C; destruct (step_rel_holds p o) as [H|f H|l H|p1 p2 l H1 H2 H3].
  - eapply same_skel_nd; eauto.
  - rewrite H; exact C.
  - eapply add_inputs_nd; eauto.
  - eapply same_skel_nd; eauto.
    apply add_outputs_inv in H2 as (_ & _ & _ & _ & _ & A6 & _). unfold nd; rewrite A6.
    eapply same_skel_nd; eauto.
Qed.

(* ---------- the creator ---------- *)
Lemma new_ins_inv : forall l p p', new_ins p l = Some p' ->
  forallb (fun a => ia_cls a =? 0) l = true /\ add_inputs p l = Some p'.
Proof.
  induction l as [|a l IH]; intros p p' H; cbn in H; cbn [forallb add_inputs]; [auto|].
  destruct (ia_cls a =? 0); cbn [negb] in H; [|discriminate].
  destruct (add_input p a) as [p1|]; [|discriminate]. apply IH in H as [H1 H2]. rewrite H1; auto.
Qed.

Lemma new_outs_inv : forall l p p', new_outs p l = IOk p' ->
  forallb outarg_valid l = true /\ add_outputs p (map to_outp l) = Some p'.
Proof.
  induction l as [|a l IH]; intros p p' H; cbn in H; cbn [forallb map add_outputs].
  - inversion H; auto.
  - destruct (outarg_valid a); cbn [negb] in H; [|discriminate].
    destruct (add_output p (to_outp a)) as [p1|] eqn:E; [|discriminate]. apply IH in H as [H1 H2]. rewrite H1; auto.
Qed.

Lemma init_inv : forall ins outs fb p0, init ins outs fb = IOk p0 ->
  forallb (fun a => ia_cls a =? 0) ins = true /\ forallb outarg_valid outs = true /\
  exists p, add_inputs (empty_pset fb) ins = Some p /\ add_outputs p (map to_outp outs) = Some p0.
Proof.
  intros ins outs fb p0 H; unfold init in H.
  destruct (new_ins (empty_pset fb) ins) as [p|] eqn:E; [|discriminate].
  apply new_ins_inv in E as [E1 E2]. apply new_outs_inv in H as [H1 H2]. repeat split; auto. exists p; auto.
Qed.

Lemma init_cm : forall ins outs fb p0, init ins outs fb = IOk p0 -> cm p0.
Proof.
  intros ins outs fb p0 H. apply init_inv in H as (_ & _ & p & E & H). eapply add_outputs_cm; eauto. eapply add_inputs_cm; eauto.
  unfold cm; cbn; auto.
Qed.

Lemma init_nd : forall ins outs fb p0, init ins outs fb = IOk p0 -> nd p0.
Proof.
  intros ins outs fb p0 H. apply init_inv in H as (_ & _ & p & E & H).
  apply add_outputs_inv in H as (_ & _ & _ & _ & _ & A6 & _). unfold nd; rewrite A6.
  eapply add_inputs_nd; eauto. unfold nd; cbn; constructor.
Qed.

Lemma run_inv : forall (P : pset -> Prop), (forall p o, P p -> P (fst (step p o))) ->
  forall ops p, P p -> P (run p ops).
Proof.
  intros P Hs; induction ops as [|o ops IH]; intros p Hp; cbn; auto. apply IH, Hs, Hp.
Qed.

(* ===== C11 clause 1: the declared counts are the actual numbers ===== *)
Theorem counts_match : forall ins outs fb p0 ops, init ins outs fb = IOk p0 ->
  let p := run p0 ops in
  g_nin p = N.of_nat (length (p_cores p)) /\ g_nout p = N.of_nat (length (p_outs p)).
Proof. intros ins outs fb p0 ops H. apply (run_inv cm step_cm). eapply init_cm; eauto. Qed.

(* ===== C11 clause 2: no two inputs spend the same outpoint ===== *)
Theorem no_duplicate_outpoints : forall ins outs fb p0 ops, init ins outs fb = IOk p0 ->
  NoDup (map outpoint (p_cores (run p0 ops))).
Proof. intros ins outs fb p0 ops H. apply (run_inv nd step_nd). eapply init_nd; eauto. Qed.

(* ===== C11 clause 3: nothing is added once the matching modifiable flag is clear (any state, any operation) ===== *)
Theorem modifiable_respected : forall p o,
  (inputs_modifiable p = false -> p_cores (fst (step p o)) = p_cores p)
  /\ (outputs_modifiable p = false -> length (p_outs (fst (step p o))) = length (p_outs p)).
Proof.
  intros p o; destruct (step_rel_holds p o) as [H|f H|l H|p1 p2 l H1 H2 H3]; split; intro Hm.
  - destruct H as (_ & _ & _ & _ & A5 & _); auto.
  - destruct H as (_ & _ & _ & _ & _ & A6); auto.
  - rewrite H; reflexivity.
  - rewrite H; reflexivity.
  - apply add_inputs_inv in H as (_ & _ & _ & _ & _ & A6 & _ & _ & A9).
    destruct l as [|a l]; [rewrite A6; cbn; apply app_nil_r|]. rewrite A9 in Hm; [discriminate|congruence].
  - apply add_inputs_inv in H as (_ & _ & _ & _ & _ & _ & _ & A8 & _). rewrite A8; reflexivity.
  - destruct H1 as (_ & _ & _ & _ & B5 & _), H3 as (_ & _ & _ & _ & C5 & _).
    apply add_outputs_inv in H2 as (_ & _ & _ & _ & _ & A6 & _). congruence.
  - destruct H1 as (_ & _ & B3 & _ & _ & B6), H3 as (_ & _ & _ & _ & _ & C6).
    apply add_outputs_inv in H2 as (_ & _ & _ & _ & _ & _ & _ & A8 & A9).
    destruct l as [|a l].
    + rewrite C6, A8, app_nil_r; auto.
    + unfold outputs_modifiable in *. rewrite B3 in A9. rewrite A9 in Hm; [discriminate|congruence].
Qed.

(* ===== C11 clause 4: the transaction locktime ===== *)
Lemma fold_max_pos : forall (f : core -> N) cs m,
  (0 <? fold_left (fun m c => N.max m (f c)) cs m) = (0 <? m) || existsb (fun c => negb (f c =? 0)) cs.
Proof.
  intros f; induction cs as [|c cs IH]; intro m; cbn [fold_left existsb].
  - rewrite orb_false_r; reflexivity.
  - rewrite IH. destruct (f c =? 0) eqn:E; cbn [negb].
    + apply N.eqb_eq in E; rewrite E, N.max_0_r; reflexivity.
    + apply N.eqb_neq in E. assert ((0 <? N.max m (f c)) = true) as -> by (apply N.ltb_lt; lia).
      rewrite orb_true_r; reflexivity.
Qed.

Lemma time_without_height : forall cs,
  existsb (fun c => negb (c_time c =? 0)) cs = true ->
  existsb (fun c => negb (c_height c =? 0)) cs = false -> existsb time_only cs = true.
Proof.
  induction cs as [|c cs IH]; cbn [existsb]; intros Ht Hh; [discriminate|].
  apply orb_false_elim in Hh as [Hh1 Hh2]. unfold time_only at 1.
  destruct (c_time c =? 0); cbn [negb] in *.
  - cbn. apply IH; auto.
  - apply negb_false_iff in Hh1; rewrite Hh1; reflexivity.
Qed.

Lemma time_only_seen_eq : forall cs,
  existsb (fun c => (0 <? c_time c) && (c_height c =? 0)) cs = existsb time_only cs.
Proof.
  induction cs as [|c cs IH]; cbn [existsb]; auto. rewrite IH. f_equal. unfold time_only. f_equal.
  destruct (c_time c =? 0) eqn:E; [apply N.eqb_eq in E; rewrite E; reflexivity|].
  apply N.eqb_neq in E. apply N.ltb_lt. lia.
Qed.

(* Locktime() is the largest required locktime of the kind BIP-370 selects, else the fallback: every packet *)
Theorem locktime_is_max_of_selected_kind : forall p, locktime p = spec_locktime p.
Proof.
  intros p; unfold locktime, spec_locktime, max_height, max_time.
  rewrite !fold_max_pos, time_only_seen_eq; cbn [N.ltb N.compare orb].
  destruct (existsb time_only (p_cores p)) eqn:ET; cbn [negb andb].
  - rewrite andb_false_r.
    assert (existsb (fun c => negb (c_time c =? 0)) (p_cores p) = true) as ->; [|reflexivity].
    apply existsb_exists in ET as [c [Hin Hc']]. apply existsb_exists; exists c; split; auto.
    unfold time_only in Hc'; apply andb_prop in Hc' as [H _]; exact H.
  - rewrite andb_true_r.
    destruct (existsb (fun c => negb (c_height c =? 0)) (p_cores p)) eqn:EH; [reflexivity|].
    destruct (existsb (fun c => negb (c_time c =? 0)) (p_cores p)) eqn:ETT; [|reflexivity].
    rewrite (time_without_height _ ETT EH) in ET; discriminate.
Qed.

Definition mk_in (t idx height time : N) : inarg :=
  {| ia_cls := 0; ia_t := t; ia_idx := idx; ia_seq := 0; ia_height := height; ia_time := time |}.

(* the old counterexample (before fix 3710385 Locktime() answered 100): a time-only input 600000000 and an
   input with both (500000005, 100) *)
Example locktime_time_only_next_to_both :
  exists p0, init [mk_in 0 0 0 600000000; mk_in 1 0 100 500000005] [] None = IOk p0 /\ locktime p0 = 600000000.
Proof. eexists; split; vm_compute; reflexivity. Qed.

(* ===== C11: multi-part operations are all-or-nothing ===== *)
Lemma upd_same : forall p, upd p (p_auxs p) (p_outs p) (g_scalars p) = p.
Proof. destruct p; reflexivity. Qed.

Lemma staged_parts_not_ok : forall p x parts r, staged_parts p x = (parts, r) -> r <> Ok ->
  parts = (p_auxs p, p_outs p, g_scalars p).
Proof.
  intros p [parts0 r0] parts r H Hr; unfold staged_parts in H; cbn [snd] in H.
  destruct r0; inversion H; subst; auto; congruence.
Qed.

Lemma outcome_eq_dec : forall a b : outcome, {a = b} + {a <> b}.
Proof. decide equality. Qed.

Lemma publish_err : forall p q, snd (publish p q) = Err -> fst (publish p q) = p.
Proof. intros p q; unfold publish; destruct (sanity q); cbn; [discriminate|reflexivity]. Qed.

Definition issue_plain : issue_args :=
  {| is_prec := 0; is_contract := 0; is_aamt := 1000; is_tamt := 0; is_aaddr := 1; is_taddr := 0; is_blinded := false |}.

(* the blinder's reads (NewBlinder, validateBlindingArgs) no longer write: fix 7d6e201 *)
Lemma get_utxo_same : forall c a u a', get_utxo c a = GuSome u a' -> a' = a.
Proof.
  intros c a u a' H; unfold get_utxo in H.
  destruct (a_w a); [inversion H; reflexivity|].
  destruct (negb (a_nw a)); [discriminate|].
  destruct (nth_error prevouts (N.to_nat (N.min (c_idx c) 1000))); [|discriminate].
  inversion H; reflexivity.
Qed.

Definition bres_auxs (b : bres) : list aux := match b with BGo x => x | BStop x _ => x end.

Lemma owned_validate_same : forall p owned auxs, bres_auxs (owned_validate p auxs owned) = auxs.
Proof.
  intros p; induction owned as [|i rest IH]; intros auxs; cbn [owned_validate]; [reflexivity|].
  destruct (Z.of_N (g_nin p) - 1 <? Z.of_N i)%Z; [reflexivity|].
  destruct (nth_error (p_cores p) (N.to_nat i)) as [c|]; [|reflexivity].
  destruct (nth_error auxs (N.to_nat i)) as [a|] eqn:Ea; [|reflexivity].
  destruct (get_utxo c a) as [| |u a'] eqn:Eg; [reflexivity|reflexivity|].
  apply get_utxo_same in Eg; subst a'. rewrite (set_nth_same _ _ _ Ea). apply IH.
Qed.

Lemma prevout_loop_same : forall owned cs n auxs, bres_auxs (prevout_loop cs n auxs owned) = auxs.
Proof.
  intros owned; induction cs as [|c cs IH]; intros n auxs; cbn [prevout_loop]; [reflexivity|].
  destruct (existsb (fun i => i =? N.of_nat n) owned); [apply IH|].
  destruct (nth_error auxs n) as [a|] eqn:Ea; [|reflexivity].
  destruct (get_utxo c a) as [| |u a'] eqn:Eg; [reflexivity|reflexivity|].
  apply get_utxo_same in Eg; subst a'. rewrite (set_nth_same _ _ _ Ea). apply IH.
Qed.

Lemma do_blind_not_ok : forall p a parts r, do_blind p a = (parts, r) -> r <> Ok ->
  parts = (p_auxs p, p_outs p, g_scalars p).
Proof.
  intros p a parts r H Hr; unfold do_blind in H.
  destruct (negb (sanity p)); [inversion H; auto|].
  destruct (negb (needs_blinding p)); [inversion H; auto|].
  destruct (bl_owned a) as [|o0 orest] eqn:Eo; [inversion H; auto|]. rewrite <- Eo in H.
  pose proof (owned_validate_same p (bl_owned a) (p_auxs p)) as F1.
  destruct (owned_validate p (p_auxs p) (bl_owned a)) as [auxs1|auxs1 o1]; cbn [bres_auxs] in F1; subst auxs1;
    [|inversion H; subst; auto].
  destruct (is_fully_blinded p); [inversion H; subst; congruence|].
  match type of H with (if ?b then _ else _) = _ => destruct b end; [inversion H; subst; auto|].
  destruct (negb (outargs_validate p (bl_last a) (sort_by_idx (bl_outs a)))); [inversion H; subst; auto|].
  pose proof (prevout_loop_same (bl_owned a) (p_cores p) 0 (p_auxs p)) as F2.
  destruct (prevout_loop (p_cores p) 0 (p_auxs p) (bl_owned a)) as [auxs2|auxs2 o2]; cbn [bres_auxs] in F2; subst auxs2;
    [|inversion H; subst; auto].
  destruct (negb (outargs_proofs p a (sort_by_idx (bl_outs a)))); [inversion H; subst; auto|].
  destruct (bl_gfail a =? 1); [inversion H; subst; auto|].
  destruct (sort_by_idx (bl_outs a)) as [|x0 xs] eqn:Es; [inversion H; subst; auto|]. rewrite <- Es in H.
  destruct (blind_outs a (sort_by_idx (bl_outs a)) (p_outs p)) as [outs' done].
  destruct (negb done); [inversion H; subst; auto|].
  match type of H with (if ?b then _ else _) = _ => destruct b end; inversion H; subst; auto. congruence.
Qed.

(* when a multi-part operation returns an error the packet is unchanged: any packet, every multi-part operation *)
Theorem multi_part_ops_atomic : forall p o,
  snd (step p o) = Err -> is_multi_part o = true -> fst (step p o) = p.
Proof.
  intros p o He Hm.
  assert (forall o', step p o' = (let '((auxs, outs, sc), r) := local_step p o' in (upd p auxs outs sc, r)) ->
          (forall parts r, local_step p o' = (parts, r) -> r <> Ok -> parts = (p_auxs p, p_outs p, g_scalars p)) ->
          snd (step p o') = Err -> fst (step p o') = p) as Hloc.
  { intros o' E Hp. rewrite E. destruct (local_step p o') as [[[auxs outs] sc] r] eqn:E'. cbn [fst snd]. intro Hr.
    assert ((auxs, outs, sc) = (p_auxs p, p_outs p, g_scalars p)) as Hq by (eapply Hp; [reflexivity|congruence]).
    inversion Hq; subst. apply upd_same. }
  destruct o; try discriminate.
  - (* AddInputs *) cbn [step] in *.
    destruct (negb (forallb (fun a => ia_cls a =? 0) l)); [reflexivity|].
    destruct (add_inputs p l) as [p'|]; [|reflexivity]. apply publish_err; exact He.
  - cbn [step] in *.
    destruct (negb (forallb outarg_valid l)); [reflexivity|].
    destruct (add_outputs p (map to_outp l)) as [p'|]; [|reflexivity]. apply publish_err; exact He.
  - (* issue *) cbn [step] in *; unfold do_issue in *. revert He.
    destruct (negb (issue_validate a)); [reflexivity|].
    destruct (p_cores p) eqn:Ecs; [reflexivity|].
    destruct (in_index p i true) as [[[n c0] ax]|o]; [|reflexivity].
    destruct (a_entropy ax); [reflexivity|].
    destruct (finalized ax); [reflexivity|].
    destruct (c_short c0); [reflexivity|].
    match goal with |- context[add_outputs ?p1 ?l] => destruct (add_outputs p1 l) as [p2|] eqn:E end; [|reflexivity].
    apply publish_err.
  - (* reissue *) cbn [step] in *; unfold do_reissue in *. revert He.
    destruct (in_index p i true) as [[[n c0] ax]|o]; [|reflexivity].
    destruct (a_entropy ax); [reflexivity|].
    destruct (negb (reissue_validate a)); [reflexivity|].
    destruct (finalized ax); [reflexivity|].
    match goal with |- context[add_outputs ?p1 ?l] => destruct (add_outputs p1 l) as [p2|] eqn:E end; [|reflexivity].
    apply publish_err.
  - (* sign *) apply Hloc; [reflexivity| |exact He]. cbn [local_step]. intros parts r.
    destruct (in_index p i true) as [[[n c0] ax]|o]; [apply staged_parts_not_ok|].
    intros H _; inversion H; reflexivity.
  - apply Hloc; [reflexivity| |exact He]. cbn [local_step]. intros parts r. apply staged_parts_not_ok.
  - apply Hloc; [reflexivity| |exact He]. cbn [local_step]. intros parts r. apply staged_parts_not_ok.
  - (* blinder *) apply Hloc; [reflexivity| |exact He]. cbn [local_step]. intros parts r. apply do_blind_not_ok.
  - (* FinalizeAll *) apply Hloc; [reflexivity| |exact He]. cbn [local_step]. intros parts r.
    destruct (finalize_loop finalize_local (p_cores p) 0 (length (p_cores p)) (p_auxs p) (p_outs p) (g_scalars p)).
    apply staged_parts_not_ok.
Qed.

(* the old counterexample of the blinder (Input.GetUtxo wrote the range proof; fix 7d6e201): non-witness utxo and a
   utxo range proof on the owned input, surjection proof refused by the validator — nothing is left behind now *)
Definition blind_refused : blind_args :=
  {| bl_last := true; bl_owned := [0]; bl_iss := []; bl_outs := [(0, 0)]; bl_surj := false; bl_basset := true;
     bl_range := true; bl_bvalue := true; bl_gfail := 0; bl_scalar := 7 |}.

Example blinder_refused_leaves_nothing :
  exists p0, init [{| ia_cls := 0; ia_t := 0; ia_idx := 0; ia_seq := 0; ia_height := 0; ia_time := 0 |}]
                  [{| oa_cls := 0; oa_amount := 1000; oa_script := Some (SWpkh 1); oa_bk := 1; oa_bidx := 0 |}] None = IOk p0 /\
    let p := run p0 [ONwUtxo 0%Z 0; OUtxoRp 0%Z true] in step p (OBlind blind_refused) = (p, Err).
Proof. eexists; split; [vm_compute; reflexivity|]. vm_compute. reflexivity. Qed.

(* the old counterexample of atomicity (shallow Copy): outputs locked, AddInIssuance fails — and now leaves nothing *)
Example issue_with_outputs_locked :
  exists p0, init [{| ia_cls := 0; ia_t := 0; ia_idx := 0; ia_seq := 0; ia_height := 0; ia_time := 0 |}] [] None = IOk p0 /\
    step (run p0 [OSetMod (Some 1)]) (OIssue 0%Z issue_plain) = (run p0 [OSetMod (Some 1)], Err).
Proof. eexists; split; vm_compute; reflexivity. Qed.

(* ===== C11: an already finalized input is never altered ===== *)
Lemma in_index_inl : forall p i g n c a, in_index p i g = inl (n, c, a) ->
  nth_error (p_cores p) n = Some c /\ nth_error (p_auxs p) n = Some a.
Proof.
  intros p i g n c a H; unfold in_index in H.
  destruct (i <? 0)%Z; [destruct g; discriminate|].
  destruct (Z.of_N (g_nin p) - 1 <? i)%Z; [discriminate|].
  destruct (nth_error (p_cores p) (Z.to_nat i)) eqn:E1; [|discriminate].
  destruct (nth_error (p_auxs p) (Z.to_nat i)) eqn:E2; [|discriminate].
  inversion H; subst; auto.
Qed.

Definition keeps_finalized (f : core -> aux -> aux * lres) : Prop :=
  forall c a, finalized a = true -> fst (f c a) = a.

Lemma set_nth_frozen : forall (f : core -> aux -> aux * lres) c m x n a auxs,
  keeps_finalized f -> nth_error auxs m = Some x -> nth_error auxs n = Some a -> finalized a = true ->
  nth_error (set_nth m (fst (f c x)) auxs) n = Some a.
Proof.
  intros f c m x n a auxs Hk Hm Hn Hf. destruct (Nat.eq_dec m n) as [->|Hne].
  - assert (x = a) as -> by congruence. rewrite (Hk c a Hf). eapply nth_set_nth_eq; eauto.
  - rewrite nth_set_nth_neq; auto.
Qed.

Lemma on_input_frozen : forall p i g f auxs outs sc r n a,
  keeps_finalized f -> on_input p i g f = ((auxs, outs, sc), r) ->
  nth_error (p_auxs p) n = Some a -> finalized a = true -> nth_error auxs n = Some a.
Proof.
  intros p i g f auxs outs sc r n a Hk H Hn Hf; unfold on_input in H.
  destruct (in_index p i g) as [[[m c] x]|o] eqn:E; [|inversion H; subst; auto].
  apply in_index_inl in E as [_ Hm].
  pose proof (set_nth_frozen f c m x n a (p_auxs p) Hk Hm Hn Hf) as Hr.
  destruct (f c x) as [a' r']; inversion H; subst; exact Hr.
Qed.

Lemma finalize_local_keeps : keeps_finalized finalize_local.
Proof.
  intros c a H; unfold finalize_local, finalize_taproot, finalize_witness, finalize_nonwitness; rewrite H.
  destruct (a_w a), (is_taproot a), (a_nw a); reflexivity.
Qed.

Lemma maybe_finalize_local_keeps : keeps_finalized maybe_finalize_local.
Proof. intros c a H; unfold maybe_finalize_local; rewrite H; reflexivity. Qed.

Lemma finalize_loop_frozen : forall f, keeps_finalized f ->
  forall fuel cs n auxs outs sc auxs' r m a,
  finalize_loop f cs n fuel auxs outs sc = (auxs', r) ->
  nth_error auxs m = Some a -> finalized a = true -> nth_error auxs' m = Some a.
Proof.
  intros f Hk; induction fuel as [|fuel IH]; intros cs n auxs outs sc auxs' r m a H Hm Hf; cbn in H.
  - destruct cs; inversion H; subst; auto.
  - destruct cs as [|c cs]; [inversion H; subst; auto|]. cbn [finalize_loop] in H. revert H.
    destruct (nth_error auxs n) as [x|] eqn:En; [|intro H; inversion H; subst; auto].
    pose proof (set_nth_frozen f c n x m a auxs Hk En Hm Hf) as Hr.
    destruct (f c x) as [a' r'] eqn:Ef. cbn [fst] in Hr.
    destruct (finish r' (sanity_parts (set_nth n a' auxs) outs sc)); intro H.
    + eapply IH; eauto.
    + inversion H; subst; auto.
    + inversion H; subst; auto.
Qed.

(* the operations for which the claim holds; AddInIssuance, AddInReissuance and the blinder are missing *)
(* the blinder's issuance writes skip finalized inputs (fix e4278d0) *)
Lemma existsb_false_In {A} : forall (f : A -> bool) l y, existsb f l = false -> In y l -> f y = false.
Proof.
  intros f l y H Hin. destruct (f y) eqn:E; auto.
  assert (existsb f l = true) by (apply existsb_exists; exists y; auto). congruence.
Qed.

Lemma fold_iss_frozen : forall (iss : list (N * N)) l m (x : aux),
  (forall y, In y iss -> N.to_nat (fst y) <> m) -> nth_error l m = Some x ->
  nth_error (fold_left (fun l y =>
               match nth_error l (N.to_nat (fst y)) with
               | Some ax => set_nth (N.to_nat (fst y))
                              (set_a_issbad (snd y =? 2) (set_a_issblind (negb (snd y =? 0)) ax)) l
               | None => l end) iss l) m = Some x.
Proof.
  induction iss as [|y iss IH]; intros l m x Hne Hm; cbn [fold_left]; auto.
  apply IH; [intros z Hz; apply Hne; right; auto|].
  destruct (nth_error l (N.to_nat (fst y))); auto.
  rewrite nth_set_nth_neq; auto. apply Hne; left; auto.
Qed.

Lemma do_blind_frozen : forall p a auxs outs sc r m x, do_blind p a = ((auxs, outs, sc), r) ->
  nth_error (p_auxs p) m = Some x -> finalized x = true -> nth_error auxs m = Some x.
Proof.
  intros p a auxs outs sc r m x H Hm Hf.
  destruct (outcome_eq_dec r Ok) as [->|Hr].
  2:{ apply do_blind_not_ok in H; auto. inversion H; subst; auto. }
  unfold do_blind in H.
  destruct (negb (sanity p)); [inversion H|].
  destruct (negb (needs_blinding p)); [inversion H|].
  destruct (bl_owned a) as [|o0 orest] eqn:Eo; [inversion H|]. rewrite <- Eo in H.
  pose proof (owned_validate_same p (bl_owned a) (p_auxs p)) as F1.
  destruct (owned_validate p (p_auxs p) (bl_owned a)) as [auxs1|auxs1 o1]; cbn [bres_auxs] in F1; subst auxs1;
    [|inversion H; subst; auto].
  destruct (is_fully_blinded p); [inversion H; subst; auto|].
  match type of H with (if ?b then _ else _) = _ => destruct b eqn:Eg end; [inversion H|].
  destruct (negb (outargs_validate p (bl_last a) (sort_by_idx (bl_outs a)))); [inversion H|].
  pose proof (prevout_loop_same (bl_owned a) (p_cores p) 0 (p_auxs p)) as F2.
  destruct (prevout_loop (p_cores p) 0 (p_auxs p) (bl_owned a)) as [auxs2|auxs2 o2]; cbn [bres_auxs] in F2; subst auxs2;
    [|inversion H; subst; auto].
  destruct (negb (outargs_proofs p a (sort_by_idx (bl_outs a)))); [inversion H|].
  destruct (bl_gfail a =? 1); [inversion H|].
  destruct (sort_by_idx (bl_outs a)) as [|x0 xs] eqn:Es; [inversion H|]. rewrite <- Es in H.
  destruct (blind_outs a (sort_by_idx (bl_outs a)) (p_outs p)) as [outs' done].
  destruct (negb done); [inversion H|].
  match type of H with (if ?b then _ else _) = _ => destruct b end; inversion H; subst; auto.
  apply fold_iss_frozen; auto.
  intros y Hy Heq. subst m.
  pose proof (existsb_false_In _ _ _ Eg Hy) as Hq. cbv beta in Hq. rewrite Hm, Hf in Hq.
  rewrite orb_true_r in Hq. discriminate.
Qed.

(* the multi-part operations, the finalizers (and the caller's flag change) *)
Definition frozen_scope (o : op) : bool :=
  is_multi_part o || match o with OFinalize _ | OMaybeFinalize _ | OMaybeFinalizeAll | OSetMod _ => true | _ => false end.

(* ===== an already finalized input is never altered: any packet, every multi-part operation and every finalizer ===== *)
Theorem finalized_inputs_frozen : forall p o n a,
  frozen_scope o = true -> nth_error (p_auxs p) n = Some a -> finalized a = true ->
  nth_error (p_auxs (fst (step p o))) n = Some a.
Proof.
  intros p o n a Hsc Hn Hf; destruct o; try discriminate; cbn [step].
  - cbn; auto.
  - destruct (negb (forallb (fun a0 => ia_cls a0 =? 0) l)); [auto|].
    destruct (add_inputs p l) as [p'|] eqn:E; [|auto]. unfold publish; destruct (sanity p'); cbn [fst]; [|auto].
    apply add_inputs_inv in E as (_ & _ & _ & _ & _ & _ & A7 & _). rewrite A7.
    rewrite nth_error_app1; auto. apply nth_error_Some; congruence.
  - destruct (negb (forallb outarg_valid l)); [auto|].
    destruct (add_outputs p (map to_outp l)) as [p'|] eqn:E; [|auto]. unfold publish; destruct (sanity p'); cbn [fst]; [|auto].
    apply add_outputs_inv in E as (_ & _ & _ & _ & _ & _ & A7 & _). rewrite A7; auto.
  - (* issue *) unfold do_issue.
    destruct (negb (issue_validate a0)); [auto|].
    destruct (p_cores p) eqn:Ecs; [auto|].
    destruct (in_index p i true) as [[[m c0] ax]|o] eqn:Ei; [|auto].
    destruct (a_entropy ax); [auto|].
    destruct (finalized ax) eqn:Efin; [auto|].
    destruct (c_short c0); [auto|].
    apply in_index_inl in Ei as [_ Hax].
    match goal with |- context[add_outputs ?p1 ?l] => destruct (add_outputs p1 l) as [p2|] eqn:E end; [|auto].
    unfold publish; destruct (sanity p2); cbn [fst]; [|auto].
    apply add_outputs_inv in E as (_ & _ & _ & _ & _ & _ & A7 & _). rewrite A7. cbn [upd p_auxs].
    rewrite nth_set_nth_neq; auto. intro Heq; subst m. congruence.
  - (* reissue *) unfold do_reissue.
    destruct (in_index p i true) as [[[m c0] ax]|o] eqn:Ei; [|auto].
    destruct (a_entropy ax); [auto|].
    destruct (negb (reissue_validate a0)); [auto|].
    destruct (finalized ax) eqn:Efin; [auto|].
    apply in_index_inl in Ei as [_ Hax].
    match goal with |- context[add_outputs ?p1 ?l] => destruct (add_outputs p1 l) as [p2|] eqn:E end; [|auto].
    unfold publish. match goal with |- context[sanity ?q] => destruct (sanity q) end; cbn [fst]; [|auto].
    apply add_outputs_inv in E as (_ & _ & _ & _ & _ & _ & A7 & _). cbn [upd p_auxs]. rewrite A7.
    rewrite nth_set_nth_neq; auto. intro Heq; subst m. congruence.
  - (* sign *) cbn [local_step].
    destruct (in_index p i true) as [[[m c] x]|o] eqn:E; [|cbn; auto].
    match goal with |- context[on_input p i true ?f] => destruct (on_input p i true f) as [[[auxs outs] sc] r] eqn:Eo end.
    unfold staged_parts; cbn [snd]. destruct r; cbn; auto. eapply on_input_frozen; eauto.
    intros c0 a0 H0; unfold sign_local; rewrite H0; reflexivity.
  - cbn [local_step].
    match goal with |- context[on_input p i true ?f] => destruct (on_input p i true f) as [[[auxs outs] sc] r] eqn:Eo end.
    unfold staged_parts; cbn [snd]. destruct r; cbn; auto. eapply on_input_frozen; eauto. intros c0 a0 H0; cbn beta; rewrite H0; reflexivity.
  - cbn [local_step].
    match goal with |- context[on_input p i true ?f] => destruct (on_input p i true f) as [[[auxs outs] sc] r] eqn:Eo end.
    unfold staged_parts; cbn [snd]. destruct r; cbn; auto. eapply on_input_frozen; eauto. intros c0 a0 H0; cbn beta; rewrite H0; reflexivity.
  - (* blinder *) cbn [local_step].
    destruct (do_blind p a0) as [[[auxs outs] sc] r] eqn:E. cbn. eapply do_blind_frozen; eauto.
  - (* finalize *) cbn [local_step].
    destruct ((i <? 0)%Z || (Z.of_nat (length (p_auxs p)) <=? i)%Z); [cbn; auto|].
    destruct (nth_error (p_cores p) (Z.to_nat i)) as [c|]; [|cbn; auto].
    destruct (nth_error (p_auxs p) (Z.to_nat i)) as [x|] eqn:Ex; [|cbn; auto].
    pose proof (set_nth_frozen finalize_local c (Z.to_nat i) x n a (p_auxs p) finalize_local_keeps Ex Hn Hf) as Hr.
    destruct (finalize_local c x) as [a' r']; cbn; exact Hr.
  - cbn [local_step].
    destruct ((i <? 0)%Z || (Z.of_nat (length (p_auxs p)) <=? i)%Z); [cbn; auto|].
    destruct (nth_error (p_cores p) (Z.to_nat i)) as [c|]; [|cbn; auto].
    destruct (nth_error (p_auxs p) (Z.to_nat i)) as [x|] eqn:Ex; [|cbn; auto].
    pose proof (set_nth_frozen maybe_finalize_local c (Z.to_nat i) x n a (p_auxs p) maybe_finalize_local_keeps Ex Hn Hf) as Hr.
    destruct (maybe_finalize_local c x) as [a' r']; cbn; exact Hr.
  - cbn [local_step].
    destruct (finalize_loop finalize_local (p_cores p) 0 (length (p_cores p)) (p_auxs p) (p_outs p) (g_scalars p)) as [auxs r] eqn:E.
    unfold staged_parts; cbn [snd]. destruct r; cbn; auto. eapply finalize_loop_frozen; eauto. apply finalize_local_keeps.
  - cbn [local_step].
    destruct (finalize_loop maybe_finalize_local (p_cores p) 0 (length (p_cores p)) (p_auxs p) (p_outs p) (g_scalars p)) as [auxs r] eqn:E.
    cbn. eapply finalize_loop_frozen; eauto. apply maybe_finalize_local_keeps.
Qed.

(* the old counterexample (before fix e4278d0 AddInIssuance accepted a finalized input and altered it): now refused *)
Example issue_on_finalized_input_refused :
  exists p0, init [mk_in 0 0 0 0] [] None = IOk p0 /\
    let p := run p0 [OWUtxo 0%Z (Some {| u_script := SWpkh 0; u_conf := false |}); OSign 0%Z true 1 (Some 0) None None; OFinalize 0%Z] in
    step p (OIssue 0%Z issue_plain) = (p, Err).
Proof. eexists; split; [vm_compute; reflexivity|]. vm_compute. reflexivity. Qed.

(* ===== C11: the packet serialises and re-parses to itself ===== *)
(* Two things are not decided by the library: the caller may write any bit set into Global.TxModifiable (the
   parser accepts 0..7), and the scalar a non-last blinder publishes comes from its generator (the parser rejects
   a scalar that occurs twice). The theorem takes operation lists in which the caller's flags are three bits and
   the generator's scalars are fresh.
   (Until fix a3c85bd a third condition was needed: the blinder wrote an issuance value commitment of any length
   and a nonce commitment that is not a curve point; it refuses both now — Examples below.) *)
Definition op_ok (p : pset) (o : op) : Prop :=
  match o with
  | OSetMod (Some f) => f < 8
  | OBlind a => bl_last a = true \/ existsb (fun y => y =? bl_scalar a) (g_scalars p) = false
  | _ => True
  end.
Fixpoint good_run (p : pset) (ops : list op) : Prop :=
  match ops with [] => True | o :: r => op_ok p o /\ good_run (fst (step p o)) r end.

Definition flags_ok (p : pset) : bool := match g_flags p with None => true | Some f => f <? 8 end.

Record J (p : pset) : Prop := {
  J_sane : sanity p = true; J_cm : cm p; J_flags : flags_ok p = true; J_sc : nodup_n (g_scalars p) = true;
  J_cores : forallb core_reparses (p_cores p) = true; J_auxs : forallb aux_reparses (p_auxs p) = true;
  J_outs : forallb out_reparses (p_outs p) = true }.

Lemma J_rt : forall p, J p -> rt p = true.
Proof.
  intros p [H1 [C1 C2] H3 H4 H5 H6 H7]. unfold rt, flags_ok in *.
  rewrite H1, H4, H5, H6, H7, C1, C2, !N.eqb_refl, H3. reflexivity.
Qed.

Lemma forallb_set_nth {A} : forall (P : A -> bool) n x l, forallb P l = true -> P x = true -> forallb P (set_nth n x l) = true.
Proof.
  intros P n x l; revert n; induction l as [|h t IH]; intros [|n] Hl Hx; cbn in *; auto;
    apply andb_prop in Hl as [H1 H2]; rewrite ?Hx, ?H1; cbn; auto.
Qed.

Lemma forallb_nth {A} : forall (P : A -> bool) l n x, forallb P l = true -> nth_error l n = Some x -> P x = true.
Proof.
  intros P l; induction l as [|h t IH]; intros [|n] x Hl Hn; cbn in *; try discriminate;
    apply andb_prop in Hl as [H1 H2]; [inversion Hn; subst; auto|eauto].
Qed.

Lemma nodup_n_snoc : forall l s, nodup_n l = true -> existsb (fun y => y =? s) l = false -> nodup_n (l ++ [s]) = true.
Proof.
  induction l as [|x l IH]; intros s Hn He; cbn in *; auto.
  apply andb_prop in Hn as [H1 H2]. apply orb_false_elim in He as [E1 E2].
  rewrite existsb_app; cbn. rewrite (N.eqb_sym s x), E1, orb_false_r. rewrite H1; cbn. apply IH; auto.
Qed.

(* what aux_reparses looks at *)
Definition tapview (a : aux) := (a_tapss a, a_tapbip32 a, a_issbad a).
Lemma aux_reparses_tapview : forall a b, tapview a = tapview b -> aux_reparses a = aux_reparses b.
Proof. intros a b H; unfold tapview in H; inversion H as [[H1 H2 H3]]; unfold aux_reparses; rewrite H1, H2, H3; reflexivity. Qed.

Definition keeps_rp (f : core -> aux -> aux * lres) : Prop :=
  forall c a, aux_reparses a = true -> aux_reparses (fst (f c a)) = true.
Definition lok_same (f : core -> aux -> aux * lres) : Prop := forall c a a', f c a = (a', LOk) -> a' = a.

(* case analysis on every match, innermost scrutinee first *)
Ltac crush_matches :=
  repeat (match goal with
  | |- context[match ?x with _ => _ end] =>
      lazymatch x with
      | context[match _ with _ => _ end] => fail
      | _ => destruct x
      end
  end; cbv beta iota).

Ltac tv := let c := fresh in let a := fresh in let H := fresh in
  intros c a H; erewrite aux_reparses_tapview; [exact H|]; cbv beta; crush_matches; reflexivity.

Ltac lok := let c := fresh in let a := fresh in let a' := fresh in let H := fresh in
  intros c a a' H; cbv beta in H;
  repeat match type of H with context[match ?x with _ => _ end] => destruct x end;
  try (inversion H; reflexivity); try discriminate.

(* one input written through on_input *)
Lemma on_input_J : forall p i g f auxs outs sc r, on_input p i g f = ((auxs, outs, sc), r) -> keeps_rp f ->
  forallb aux_reparses (p_auxs p) = true ->
  forallb aux_reparses auxs = true /\ outs = p_outs p /\ sc = g_scalars p.
Proof.
  intros p i g f auxs outs sc r H Hk Ha; unfold on_input in H.
  destruct (in_index p i g) as [[[n c] a]|o] eqn:E; [|inversion H; subst; auto].
  apply in_index_inl in E as [_ Hn]. pose proof (Hk c a (forallb_nth _ _ _ _ Ha Hn)) as Hx.
  destruct (f c a) as [a' r']; inversion H; subst. repeat split. apply forallb_set_nth; auto.
Qed.

Lemma on_input_sane : forall p i g f auxs outs sc, on_input p i g f = ((auxs, outs, sc), Ok) -> lok_same f ->
  sanity p = true -> sanity_parts auxs outs sc = true.
Proof.
  intros p i g f auxs outs sc H Hl Hs; unfold on_input in H.
  destruct (in_index p i g) as [[[n c] a]|o] eqn:E; [|inversion H; subst; exact Hs].
  apply in_index_inl in E as [_ Hn].
  destruct (f c a) as [a' r'] eqn:Ef. inversion H as [[H1 H2 H3 H4]]. destruct r'; cbn [finish] in H4.
  - destruct (sanity_parts (set_nth n a' (p_auxs p)) (p_outs p) (g_scalars p)); [reflexivity|discriminate].
  - apply Hl in Ef; subst a'. rewrite (set_nth_same _ _ _ Hn). exact Hs.
  - discriminate.
  - discriminate.
Qed.

Lemma on_output_J : forall p i f auxs outs sc r, on_output p i f = ((auxs, outs, sc), r) ->
  (forall o, out_reparses (fst (f o)) = out_reparses o) -> forallb out_reparses (p_outs p) = true ->
  forallb out_reparses outs = true /\ auxs = p_auxs p /\ sc = g_scalars p.
Proof.
  intros p i f auxs outs sc r H Hk Ha; unfold on_output in H.
  destruct (out_index p i) as [[n o]|o0] eqn:E; [|inversion H; subst; auto].
  unfold out_index in E. destruct (i <? 0)%Z; [discriminate|]. destruct (Z.of_N (g_nout p) - 1 <? i)%Z; [discriminate|].
  destruct (nth_error (p_outs p) (Z.to_nat i)) as [o1|] eqn:En; [|discriminate]. inversion E; subst.
  pose proof (Hk o) as Hx. rewrite (forallb_nth _ _ _ _ Ha En) in Hx.
  destruct (f o) as [o' r']; inversion H; subst. repeat split. apply forallb_set_nth; auto.
Qed.

Lemma on_output_sane : forall p i f auxs outs sc, on_output p i f = ((auxs, outs, sc), Ok) ->
  (forall o o', f o = (o', LOk) -> o' = o) -> sanity p = true -> sanity_parts auxs outs sc = true.
Proof.
  intros p i f auxs outs sc H Hl Hs; unfold on_output in H.
  destruct (out_index p i) as [[n o]|o0] eqn:E; [|inversion H; subst; exact Hs].
  destruct (f o) as [o' r'] eqn:Ef. inversion H as [[H1 H2 H3 H4]]. destruct r'; cbn [finish] in H4.
  - destruct (sanity_parts (p_auxs p) (set_nth n o' (p_outs p)) (g_scalars p)); [reflexivity|discriminate].
  - apply Hl in Ef; subst o'.
    unfold out_index in E. destruct (i <? 0)%Z; [discriminate|]. destruct (Z.of_N (g_nout p) - 1 <? i)%Z; [discriminate|].
    destruct (nth_error (p_outs p) (Z.to_nat i)) as [o1|] eqn:En; [|discriminate]. inversion E; subst.
    rewrite (set_nth_same _ _ _ En). exact Hs.
  - discriminate.
  - discriminate.
Qed.

(* J of a packet that differs from p in the written parts only *)
Lemma J_upd : forall p auxs outs sc, J p -> sanity_parts auxs outs sc = true -> length outs = length (p_outs p) ->
  nodup_n sc = true -> forallb aux_reparses auxs = true -> forallb out_reparses outs = true -> J (upd p auxs outs sc).
Proof.
  intros p auxs outs sc [H1 [C1 C2] H3 H4 H5 H6 H7] Hs Hl Hn Ha Ho.
  constructor; cbn; auto. split; cbn; [exact C1|rewrite Hl; exact C2].
Qed.

Lemma J_same : forall p, J p -> J (upd p (p_auxs p) (p_outs p) (g_scalars p)).
Proof. intros p H; rewrite upd_same; exact H. Qed.

(* the finalizers keep an input sane and do not touch what the parser looks at *)
Ltac crush_hyp H :=
  repeat (match type of H with
  | context[match ?x with _ => _ end] =>
      lazymatch x with
      | context[match _ with _ => _ end] => fail
      | _ => destruct x
      end
  end; cbv beta iota in H).

Lemma finalize_witness_shape : forall a a', finalize_witness a = Some a' -> exists b, a' = set_a_fsw true (set_a_fss b a).
Proof. intros a a' H; unfold finalize_witness in H; crush_hyp H; try discriminate; inversion H; eexists; reflexivity. Qed.
Lemma finalize_nonwitness_shape : forall a a', finalize_nonwitness a = Some a' -> a' = set_a_fss true a.
Proof. intros a a' H; unfold finalize_nonwitness in H; crush_hyp H; try discriminate; inversion H; reflexivity. Qed.
Lemma finalize_taproot_shape : forall a a', finalize_taproot a = Some a' -> a' = set_a_fsw true a.
Proof. intros a a' H; unfold finalize_taproot in H; crush_hyp H; try discriminate; inversion H; reflexivity. Qed.

Lemma in_sane_fsw : forall a u, a_w a = Some u -> in_sane a = true -> in_sane (set_a_fsw true a) = true.
Proof. intros a u Hw H; destruct a; cbn in *; subst; exact H. Qed.
Lemma in_sane_fss : forall a b, in_sane (set_a_fss b a) = in_sane a.
Proof. intros a b; destruct a; reflexivity. Qed.
Lemma in_sane_psigs : forall a l, in_sane (set_a_psigs l a) = in_sane a.
Proof. intros a l; destruct a; reflexivity. Qed.

(* the result of finalize_local on an input: the input itself, or final scripts set (and partial signatures dropped) *)
Lemma finalize_local_shape : forall c a,
  fst (finalize_local c a) = a
  \/ (exists u, a_w a = Some u /\ fst (finalize_local c a) = set_a_fsw true a)
  \/ (exists u b, a_w a = Some u /\ fst (finalize_local c a) = set_a_psigs [] (set_a_fsw true (set_a_fss b a)))
  \/ fst (finalize_local c a) = set_a_psigs [] (set_a_fss true a).
Proof.
  intros c a; unfold finalize_local. destruct (a_w a) as [u|] eqn:Ew.
  - destruct (is_taproot a).
    + destruct (finalize_taproot a) as [a'|] eqn:E; [|left; reflexivity].
      apply finalize_taproot_shape in E; subst. right; left; exists u; split; [reflexivity|reflexivity].
    + destruct (finalize_witness a) as [a'|] eqn:E; [|left; reflexivity].
      apply finalize_witness_shape in E as [b E]; subst. right; right; left; exists u, b; split; [reflexivity|reflexivity].
  - destruct (a_nw a); [|left; reflexivity].
    destruct (finalize_nonwitness a) as [a'|] eqn:E; [|left; reflexivity].
    apply finalize_nonwitness_shape in E; subst. right; right; right; reflexivity.
Qed.

Lemma finalize_local_sane : forall c a, in_sane a = true -> in_sane (fst (finalize_local c a)) = true.
Proof.
  intros c a H. destruct (finalize_local_shape c a) as [E|[[u [Hw E]]|[[u [b [Hw E]]]|E]]]; rewrite E.
  - exact H.
  - eapply in_sane_fsw; eauto.
  - rewrite in_sane_psigs. eapply in_sane_fsw; [|rewrite in_sane_fss; exact H]. destruct a; exact Hw.
  - rewrite in_sane_psigs, in_sane_fss; exact H.
Qed.

Lemma finalize_local_rp : forall c a, aux_reparses (fst (finalize_local c a)) = aux_reparses a.
Proof.
  intros c a. destruct (finalize_local_shape c a) as [E|[[u [Hw E]]|[[u [b [Hw E]]]|E]]]; rewrite E;
    destruct a; reflexivity.
Qed.

Lemma maybe_finalize_local_sane : forall c a, in_sane a = true -> in_sane (fst (maybe_finalize_local c a)) = true.
Proof.
  intros c a H; unfold maybe_finalize_local. destruct (finalized a); [exact H|].
  destruct (is_finalizable c a) as [[|]|]; auto. apply finalize_local_sane; auto.
Qed.
Lemma maybe_finalize_local_rp : forall c a, aux_reparses (fst (maybe_finalize_local c a)) = aux_reparses a.
Proof.
  intros c a; unfold maybe_finalize_local. destruct (finalized a); [reflexivity|].
  destruct (is_finalizable c a) as [[|]|]; auto. apply finalize_local_rp.
Qed.

(* the loop of FinalizeAll / MaybeFinalizeAll *)
Lemma finalize_loop_inv : forall (f : core -> aux -> aux * lres) (P : aux -> bool),
  (forall c a, P a = true -> P (fst (f c a)) = true) ->
  forall fuel cs n auxs outs sc auxs' r, finalize_loop f cs n fuel auxs outs sc = (auxs', r) ->
  forallb P auxs = true -> forallb P auxs' = true.
Proof.
  intros f P Hf; induction fuel as [|fuel IH]; intros cs n auxs outs sc auxs' r H Hp; cbn in H.
  - destruct cs; inversion H; subst; auto.
  - destruct cs as [|c cs]; [inversion H; subst; auto|]. cbn [finalize_loop] in H. revert H.
    destruct (nth_error auxs n) as [x|] eqn:En; [|intro H; inversion H; subst; auto].
    pose proof (Hf c x (forallb_nth _ _ _ _ Hp En)) as Hx.
    destruct (f c x) as [a' r'] eqn:Ef. cbn [fst] in Hx.
    assert (forallb P (set_nth n a' auxs) = true) as Hs by (apply forallb_set_nth; auto).
    destruct (finish r' (sanity_parts (set_nth n a' auxs) outs sc)); intro H.
    + exact (IH _ _ _ _ _ _ _ H Hs).
    + inversion H; subst; exact Hs.
    + inversion H; subst; exact Hs.
Qed.

Lemma sanity_parts_auxs : forall auxs auxs' outs sc, sanity_parts auxs outs sc = true ->
  forallb in_sane auxs' = true -> sanity_parts auxs' outs sc = true.
Proof.
  intros auxs auxs' outs sc H H'; unfold sanity_parts in *.
  apply andb_prop in H as [H1 H3]; apply andb_prop in H1 as [_ H2]. rewrite H', H2, H3; reflexivity.
Qed.
Lemma sanity_parts_in_sane : forall auxs outs sc, sanity_parts auxs outs sc = true -> forallb in_sane auxs = true.
Proof. intros auxs outs sc H; unfold sanity_parts in H. apply andb_prop in H as [H1 _]; apply andb_prop in H1 as [H1 _]; exact H1. Qed.

Lemma staged_fst_J : forall p x, J p ->
  (forall auxs outs sc, x = ((auxs, outs, sc), Ok) -> J (upd p auxs outs sc)) ->
  J (fst (let '((auxs, outs, sc), r) := staged_parts p x in (upd p auxs outs sc, r))).
Proof.
  intros p [[[a o] s0] r] Hj Hok; unfold staged_parts; cbn [snd]. destruct r; cbn [fst].
  - apply Hok; reflexivity.
  - apply J_same; auto.
  - apply J_same; auto.
Qed.

Lemma on_input_staged_J : forall p i g f, J p -> keeps_rp f -> lok_same f ->
  J (fst (let '((auxs, outs, sc), r) := staged_parts p (on_input p i g f) in (upd p auxs outs sc, r))).
Proof.
  intros p i g f Hj Hk Hl. apply staged_fst_J; auto. intros auxs outs sc E.
  destruct (on_input_J _ _ _ _ _ _ _ _ E Hk (J_auxs _ Hj)) as (A1 & A2 & A3).
  pose proof (on_input_sane _ _ _ _ _ _ _ E Hl (J_sane _ Hj)) as A4. subst outs sc.
  apply J_upd; auto; [apply (J_sc _ Hj)|apply (J_outs _ Hj)].
Qed.

Lemma on_output_staged_J : forall p i f, J p -> (forall o, out_reparses (fst (f o)) = out_reparses o) ->
  (forall o o', f o = (o', LOk) -> o' = o) ->
  J (fst (let '((auxs, outs, sc), r) := staged_parts p (on_output p i f) in (upd p auxs outs sc, r))).
Proof.
  intros p i f Hj Hk Hl. apply staged_fst_J; auto. intros auxs outs sc E.
  destruct (on_output_J _ _ _ _ _ _ _ E Hk (J_outs _ Hj)) as (A1 & A2 & A3).
  pose proof (on_output_sane _ _ _ _ _ _ E Hl (J_sane _ Hj)) as A4.
  apply on_output_parts in E as (L & _ & _). subst auxs sc.
  apply J_upd; auto; [apply (J_sc _ Hj)|apply (J_auxs _ Hj)].
Qed.

Lemma forallb_repeat {A} : forall (f : A -> bool) x n, f x = true -> forallb f (repeat x n) = true.
Proof. intros f x n H; induction n; cbn; auto. rewrite H; auto. Qed.
Lemma existsb_map_false {A B} : forall (f : B -> bool) (g : A -> B) l,
  (forall a, f (g a) = false) -> existsb f (map g l) = false.
Proof. intros f g l H; induction l; cbn; auto. rewrite H; auto. Qed.

(* the structural operations *)
Lemma add_inputs_J : forall l p p', add_inputs p l = Some p' -> forallb (fun a => ia_cls a =? 0) l = true ->
  sanity p' = true -> J p -> J p'.
Proof.
  intros l p p' H Hv Hs Hj. pose proof (add_inputs_cm _ _ _ H (J_cm _ Hj)) as Hcm.
  apply add_inputs_inv in H as (A1 & A2 & A3 & A4 & A5 & A6 & A7 & A8 & _).
  constructor; auto.
  - unfold flags_ok; rewrite A3; apply (J_flags _ Hj).
  - rewrite A5; apply (J_sc _ Hj).
  - rewrite A6, forallb_app, (J_cores _ Hj); cbn [andb].
    clear -Hv. induction l as [|a l IH]; cbn in *; auto. apply andb_prop in Hv as [H1 H2].
    unfold core_reparses, to_core; cbn. apply N.eqb_eq in H1; rewrite H1; cbn. auto.
  - rewrite A7, forallb_app, (J_auxs _ Hj); cbn [andb]. apply forallb_repeat; reflexivity.
  - rewrite A8; apply (J_outs _ Hj).
Qed.

Lemma add_outputs_J : forall l p p', add_outputs p l = Some p' -> forallb out_reparses l = true ->
  sanity p' = true -> J p -> J p'.
Proof.
  intros l p p' H Hv Hs Hj. pose proof (add_outputs_cm _ _ _ H (J_cm _ Hj)) as Hcm.
  apply add_outputs_inv in H as (A1 & A2 & A3 & A4 & A5 & A6 & A7 & A8 & _).
  constructor; auto.
  - unfold flags_ok; rewrite A3; apply (J_flags _ Hj).
  - rewrite A5; apply (J_sc _ Hj).
  - rewrite A6; apply (J_cores _ Hj).
  - rewrite A7; apply (J_auxs _ Hj).
  - rewrite A8, forallb_app, (J_outs _ Hj), Hv; reflexivity.
Qed.

Lemma to_outp_reparses : forall l, forallb outarg_valid l = true -> forallb out_reparses (map to_outp l) = true.
Proof.
  induction l as [|a l IH]; cbn; intro H; auto. apply andb_prop in H as [H1 H2]. rewrite IH; auto.
  unfold outarg_valid in H1. apply andb_prop in H1 as [H1 H3]; apply andb_prop in H1 as [H1 _].
  unfold out_reparses, to_outp; cbn. rewrite H1, H3; reflexivity.
Qed.

Lemma mk_out_reparses : forall v addr b, out_reparses (mk_out v addr b) = true.
Proof. intros v addr b; unfold out_reparses, mk_out, addr_bk; cbn. destruct (addr =? 2); reflexivity. Qed.

(* the blinder *)
Lemma fold_iss_rp : forall (iss : list (N * N)) l, forallb (fun x => negb (snd x =? 2)) iss = true ->
  forallb aux_reparses l = true ->
  forallb aux_reparses (fold_left (fun l y =>
               match nth_error l (N.to_nat (fst y)) with
               | Some ax => set_nth (N.to_nat (fst y))
                              (set_a_issbad (snd y =? 2) (set_a_issblind (negb (snd y =? 0)) ax)) l
               | None => l end) iss l) = true.
Proof.
  induction iss as [|y iss IH]; intros l Hw H; cbn [fold_left]; auto. cbn in Hw. apply andb_prop in Hw as [W1 W2].
  apply IH; auto.
  destruct (nth_error l (N.to_nat (fst y))) as [ax|] eqn:E; auto.
  apply forallb_set_nth; auto. pose proof (forallb_nth _ _ _ _ H E) as Hx.
  apply negb_true_iff in W1. rewrite W1. destruct ax; unfold aux_reparses in *; cbn in *.
  apply andb_prop in Hx as [Hx _]. rewrite Hx; reflexivity.
Qed.

Lemma insert_by_idx_forallb : forall (P : N * N -> bool) x l, P x = true -> forallb P l = true -> forallb P (insert_by_idx x l) = true.
Proof.
  intros P x l Hx; induction l as [|y l IH]; intro H; cbn in *; [rewrite Hx; auto|].
  apply andb_prop in H as [H1 H2]. destruct (fst x <? fst y); cbn; rewrite ?Hx, ?H1, ?H2; auto.
Qed.
Lemma sort_by_idx_forallb : forall (P : N * N -> bool) l, forallb P l = true -> forallb P (sort_by_idx l) = true.
Proof.
  intros P l H; unfold sort_by_idx.
  assert (forall acc, forallb P acc = true -> forallb P (fold_left (fun acc x => insert_by_idx x acc) l acc) = true) as G.
  { induction l as [|x l IH]; intros acc Ha; cbn; auto. cbn in H; apply andb_prop in H as [H1 H2].
    apply IH; auto. apply insert_by_idx_forallb; auto. }
  apply G; reflexivity.
Qed.

Lemma blind_outs_rp : forall a l outs outs' d, blind_outs a l outs = (outs', d) ->
  forallb (fun x => negb (snd x =? 3)) l = true ->
  forallb out_reparses outs = true -> forallb out_reparses outs' = true.
Proof.
  intros a l; induction l as [|[i c] l IH]; intros outs outs' d H Hw Ho; cbn in H.
  - inversion H; subst; auto.
  - cbn in Hw. apply andb_prop in Hw as [W1 W2]. apply negb_true_iff in W1.
    destruct (bl_last a && match l with [] => true | _ => false end && ((bl_gfail a =? 2) || (bl_gfail a =? 3))).
    + inversion H; subst; auto.
    + destruct (nth_error outs (N.to_nat i)) as [o|] eqn:E; [|inversion H; subst; auto].
      eapply IH; eauto. apply forallb_set_nth; auto.
      pose proof (forallb_nth _ _ _ _ Ho E) as Hx. rewrite W1. destruct o; unfold out_reparses in *; cbn in *.
      apply andb_prop in Hx as [Hx _]. rewrite Hx; reflexivity.
Qed.

Lemma outargs_validate_cls : forall p last l, outargs_validate p last l = true ->
  forallb (fun x => negb (snd x =? 3)) l = true.
Proof.
  intros p last; induction l as [|[i c] l IH]; intro H; cbn in *; auto.
  destruct (Z.of_N (g_nout p) - 1 <? Z.of_N i)%Z; [discriminate|].
  destruct (nth_error (p_outs p) (N.to_nat i)); [|discriminate].
  destruct (negb (needs_blinding_o o)); [discriminate|].
  destruct (c =? 1); [discriminate|]. destruct (c =? 3); [discriminate|]. cbn [negb andb].
  match type of H with (if ?b then _ else _) = _ => destruct b end; [discriminate|]. auto.
Qed.

Lemma do_blind_J : forall p a, J p -> op_ok p (OBlind a) ->
  J (fst (let '((auxs, outs, sc), r) := do_blind p a in (upd p auxs outs sc, r))).
Proof.
  intros p a Hj Hok. destruct (do_blind p a) as [[[auxs outs] sc] r] eqn:H. cbn [fst].
  destruct (outcome_eq_dec r Ok) as [->|Hr].
  2:{ apply do_blind_not_ok in H; auto. inversion H; subst. apply J_same; auto. }
  pose proof (do_blind_len _ _ _ _ _ _ H) as Hlen.
  unfold do_blind in H.
  destruct (negb (sanity p)); [inversion H|].
  destruct (negb (needs_blinding p)); [inversion H|].
  destruct (bl_owned a) as [|o0 orest] eqn:Eo; [inversion H|]. rewrite <- Eo in H.
  pose proof (owned_validate_same p (bl_owned a) (p_auxs p)) as F1.
  destruct (owned_validate p (p_auxs p) (bl_owned a)) as [auxs1|auxs1 o1]; cbn [bres_auxs] in F1; subst auxs1;
    [|inversion H; subst; apply J_same; auto].
  destruct (is_fully_blinded p); [inversion H; subst; apply J_same; auto|].
  match type of H with (if ?b then _ else _) = _ => destruct b eqn:Eg end; [inversion H|].
  destruct (outargs_validate p (bl_last a) (sort_by_idx (bl_outs a))) eqn:Ev; cbn [negb] in H; [|inversion H].
  pose proof (prevout_loop_same (bl_owned a) (p_cores p) 0 (p_auxs p)) as F2.
  destruct (prevout_loop (p_cores p) 0 (p_auxs p) (bl_owned a)) as [auxs2|auxs2 o2]; cbn [bres_auxs] in F2; subst auxs2;
    [|inversion H; subst; apply J_same; auto].
  destruct (negb (outargs_proofs p a (sort_by_idx (bl_outs a)))); [inversion H|].
  destruct (bl_gfail a =? 1); [inversion H|].
  destruct (sort_by_idx (bl_outs a)) as [|x0 xs] eqn:Es; [inversion H|]. rewrite <- Es in H.
  destruct (blind_outs a (sort_by_idx (bl_outs a)) (p_outs p)) as [outs' done] eqn:Eb.
  destruct (negb done); [inversion H|].
  match type of H with (if ?b then _ else _) = _ => destruct b eqn:Esan end; inversion H; subst.
  apply J_upd; auto.
  - cbn in Hok. destruct (bl_last a); [reflexivity|]. destruct Hok as [Hok|Hok]; [discriminate|].
    apply nodup_n_snoc; auto. apply (J_sc _ Hj).
  - apply fold_iss_rp; [|apply (J_auxs _ Hj)].
    (* the guard refused every class-2 entry *)
    apply forallb_forall; intros y Hy. pose proof (existsb_false_In _ _ _ Eg Hy) as Hq. cbv beta in Hq.
    apply orb_false_elim in Hq as [_ Hq]. rewrite Hq; reflexivity.
  - eapply blind_outs_rp; [exact Eb| |apply (J_outs _ Hj)]. rewrite Es. exact (outargs_validate_cls _ _ _ Ev).
Qed.

(* the signer's work on one input *)
Lemma sign_local_rp : forall rsane bl sigok h k rs ws, keeps_rp (sign_local rsane bl sigok h k rs ws).
Proof.
  intros rsane bl sigok h k rs ws c a H. erewrite aux_reparses_tapview; [exact H|].
  unfold sign_local, add_psig, nw_to_w. cbv zeta. crush_matches; reflexivity.
Qed.

Lemma sign_local_lok : forall rsane bl sigok h k rs ws, lok_same (sign_local rsane bl sigok h k rs ws).
Proof.
  intros rsane bl sigok h k rs ws c a a' H. unfold sign_local in H.
  destruct (finalized a); [inversion H; reflexivity|].
  exfalso. unfold add_psig, nw_to_w in H. cbv zeta in H. crush_hyp H; inversion H.
Qed.

Ltac tv2 := let c := fresh in let a := fresh in let H := fresh in
  intros c a H; erewrite aux_reparses_tapview; [exact H|]; cbv beta zeta; crush_matches; reflexivity.
Ltac lok2 := let c := fresh in let a := fresh in let a' := fresh in let H := fresh in
  intros c a a' H; cbv beta zeta in H; crush_hyp H; try (inversion H; reflexivity); try discriminate.

(* ----- one step keeps J ----- *)
Lemma step_J : forall p o, J p -> op_ok p o -> J (fst (step p o)).
Proof.
  intros p o Hj Hok; destruct o; cbn [step local_step].
  - (* setmod *) cbn. destruct Hj as [H1 H2 H3 H4 H5 H6 H7]. constructor; auto.
    unfold flags_ok; cbn. destruct f; auto. cbn in Hok. apply N.ltb_lt; exact Hok.
  - (* AddInputs *)
    destruct (forallb (fun a => ia_cls a =? 0) l) eqn:Ev; cbn [negb]; [|exact Hj].
    destruct (add_inputs p l) as [p'|] eqn:E; [|exact Hj].
    unfold publish; destruct (sanity p') eqn:Es; cbn [fst]; [|exact Hj]. eapply add_inputs_J; eauto.
  - (* AddOutputs *)
    destruct (forallb outarg_valid l) eqn:Ev; cbn [negb]; [|exact Hj].
    destruct (add_outputs p (map to_outp l)) as [p'|] eqn:E; [|exact Hj].
    unfold publish; destruct (sanity p') eqn:Es; cbn [fst]; [|exact Hj].
    eapply add_outputs_J; eauto. apply to_outp_reparses; auto.
  - apply on_input_staged_J; auto; [tv2|lok2].
  - apply on_input_staged_J; auto; [tv2|lok2].
  - apply on_input_staged_J; auto; [tv2|lok2].
  - apply on_input_staged_J; auto; [tv2|lok2].
  - apply on_input_staged_J; auto; [tv2|lok2].
  - apply on_input_staged_J; auto; [tv2|lok2].
  - apply on_input_staged_J; auto; [tv2|lok2].
  - apply on_input_staged_J; auto; [unfold get_utxo; tv2|unfold get_utxo; lok2].
  - apply on_input_staged_J; auto; [unfold get_utxo; tv2|unfold get_utxo; lok2].
  - (* issue *) unfold do_issue.
    destruct (negb (issue_validate a)); [exact Hj|].
    destruct (p_cores p) eqn:Ecs; [exact Hj|].
    destruct (in_index p i true) as [[[n c0] ax]|o] eqn:Ei; [|exact Hj].
    destruct (a_entropy ax); [exact Hj|]. destruct (finalized ax); [exact Hj|]. destruct (c_short c0); [exact Hj|].
    apply in_index_inl in Ei as [_ Hax].
    match goal with |- context[add_outputs ?p1 ?l] => destruct (add_outputs p1 l) as [p2|] eqn:E end; [|exact Hj].
    unfold publish; destruct (sanity p2) eqn:Es; cbn [fst]; [|exact Hj].
    eapply add_outputs_J; [exact E| |exact Es|].
    + destruct (0 <? is_tamt a); unfold forallb; rewrite !mk_out_reparses; reflexivity.
    + destruct Hj as [H1 H2 H3 H4 H5 H6 H7]. constructor; cbn [upd g_nin g_nout g_flags g_fallback g_scalars p_cores p_auxs p_outs]; auto.
      * unfold sanity; cbn [upd g_scalars p_auxs p_outs]. eapply sanity_parts_auxs; [exact H1|].
        apply forallb_set_nth; [apply (sanity_parts_in_sane _ _ _ H1)|].
        pose proof (forallb_nth _ _ _ _ (sanity_parts_in_sane _ _ _ H1) Hax) as Hx. destruct ax; exact Hx.
      * apply forallb_set_nth; auto. pose proof (forallb_nth _ _ _ _ H6 Hax) as Hx. destruct ax; exact Hx.
  - (* reissue *) unfold do_reissue.
    destruct (in_index p i true) as [[[n c0] ax]|o] eqn:Ei; [|exact Hj].
    destruct (a_entropy ax); [exact Hj|]. destruct (negb (reissue_validate a)); [exact Hj|]. destruct (finalized ax); [exact Hj|].
    apply in_index_inl in Ei as [_ Hax].
    match goal with |- context[add_outputs ?p1 ?l] => destruct (add_outputs p1 l) as [p2|] eqn:E end; [|exact Hj].
    unfold publish. match goal with |- context[sanity ?q] => destruct (sanity q) eqn:Es end; cbn [fst]; [|exact Hj].
    pose proof (add_outputs_cm _ _ _ E (J_cm _ Hj)) as [C1 C2].
    apply add_outputs_inv in E as (A1 & A2 & A3 & A4 & A5 & A6 & A7 & A8 & _).
    constructor; cbn [upd g_nin g_nout g_flags g_fallback g_scalars p_cores p_auxs p_outs]; auto.
    + split; cbn; auto.
    + unfold flags_ok; cbn; rewrite A3; apply (J_flags _ Hj).
    + rewrite A5; apply (J_sc _ Hj).
    + rewrite A6; apply (J_cores _ Hj).
    + rewrite A7. apply forallb_set_nth; [apply (J_auxs _ Hj)|].
      pose proof (forallb_nth _ _ _ _ (J_auxs _ Hj) Hax) as Hx. destruct ax; exact Hx.
    + rewrite A8, forallb_app, (J_outs _ Hj); unfold forallb. rewrite !mk_out_reparses; reflexivity.
  - apply on_input_staged_J; auto; [tv2|lok2].
  - apply on_input_staged_J; auto; [tv2|lok2].
  - apply on_input_staged_J; auto; [tv2|lok2].
  - (* tap bip32: a second derivation for the same key is refused *)
    apply on_input_staged_J; auto; [|lok2].
    intros c a H; cbv beta. destruct (existsb (fun x => tb_key x =? tb_key d) (a_tapbip32 a)) eqn:E; cbn [fst]; [exact H|].
    unfold aux_reparses in *; cbn. apply andb_prop in H as [H1 H4]; apply andb_prop in H1 as [H1 H3].
    rewrite H1, H4, andb_true_r; cbn [andb].
    rewrite map_app; cbn. apply nodup_n_snoc; auto.
    rewrite <- E. clear. induction (a_tapbip32 a) as [|x l IH]; cbn; auto. rewrite IH; reflexivity.
  - apply on_output_staged_J; [exact Hj| |].
    + intro o; cbv beta; crush_matches; try reflexivity; destruct o; reflexivity.
    + intros o o' H; cbv beta in H; crush_hyp H; inversion H; reflexivity.
  - apply on_output_staged_J; [exact Hj|intro o; destruct o; reflexivity|intros o o' H; inversion H].
  - apply on_output_staged_J; [exact Hj|intro o; destruct o; reflexivity|intros o o' H; inversion H].
  - (* sign *) destruct (in_index p i true) as [[[n c0] ax]|o]; [|apply J_same; auto].
    apply on_input_staged_J; auto; [apply sign_local_rp|apply sign_local_lok].
  - apply on_input_staged_J; auto; [tv2|lok2].
  - (* tapscript signature: the parser's checks are applied before the write *)
    apply on_input_staged_J; auto; [|lok2].
    intros c a H; cbv beta. destruct (finalized a); [exact H|]. destruct (0 <? a_tapkeysig a); [exact H|].
    destruct ((ts_pklen s =? 32) && (ts_lhlen s =? 32)) eqn:E1; cbn [negb]; [|exact H].
    destruct (siglen_ok (ts_siglen s)); cbn [negb]; [|exact H].
    destruct (existsb (fun x => (ts_pk x =? ts_pk s) && (ts_leaf x =? ts_leaf s)) (a_tapss a)) eqn:E2; cbn [fst]; [exact H|].
    unfold aux_reparses in *; cbn. apply andb_prop in H as [H1 H4]; apply andb_prop in H1 as [H1 H3]; apply andb_prop in H1 as [H1 H2].
    rewrite H3, H4, !andb_true_r. apply andb_prop in E1 as [P1 P2]. apply N.eqb_eq in P1, P2.
    rewrite forallb_app, H1; cbn. rewrite P1, P2; cbn.
    rewrite map_app; cbn.
    clear -H2 E2. induction (a_tapss a) as [|x l IH]; cbn in *; auto.
    apply andb_prop in H2 as [Q1 Q2]. apply orb_false_elim in E2 as [R1 R2].
    rewrite existsb_app; cbn. rewrite (N.eqb_sym (ts_pk s)), (N.eqb_sym (ts_leaf s)), R1, orb_false_r, Q1; cbn. auto.
  - (* blinder *) apply do_blind_J; auto.
  - (* Finalize, on the live packet *)
    destruct ((i <? 0)%Z || (Z.of_nat (length (p_auxs p)) <=? i)%Z); [apply J_same; auto|].
    destruct (nth_error (p_cores p) (Z.to_nat i)) as [c|]; [|apply J_same; auto].
    destruct (nth_error (p_auxs p) (Z.to_nat i)) as [x|] eqn:Ex; [|apply J_same; auto].
    pose proof (finalize_local_sane c x) as S1. pose proof (finalize_local_rp c x) as S2.
    destruct (finalize_local c x) as [a' r']; cbn [fst] in *.
    apply J_upd; auto; [| apply (J_sc _ Hj) | | apply (J_outs _ Hj)].
    + eapply sanity_parts_auxs; [apply (J_sane _ Hj)|]. apply forallb_set_nth; [apply (sanity_parts_in_sane _ _ _ (J_sane _ Hj))|].
      apply S1. exact (forallb_nth _ _ _ _ (sanity_parts_in_sane _ _ _ (J_sane _ Hj)) Ex).
    + apply forallb_set_nth; [apply (J_auxs _ Hj)|]. rewrite S2. exact (forallb_nth _ _ _ _ (J_auxs _ Hj) Ex).
  - destruct ((i <? 0)%Z || (Z.of_nat (length (p_auxs p)) <=? i)%Z); [apply J_same; auto|].
    destruct (nth_error (p_cores p) (Z.to_nat i)) as [c|]; [|apply J_same; auto].
    destruct (nth_error (p_auxs p) (Z.to_nat i)) as [x|] eqn:Ex; [|apply J_same; auto].
    pose proof (maybe_finalize_local_sane c x) as S1. pose proof (maybe_finalize_local_rp c x) as S2.
    destruct (maybe_finalize_local c x) as [a' r']; cbn [fst] in *.
    apply J_upd; auto; [| apply (J_sc _ Hj) | | apply (J_outs _ Hj)].
    + eapply sanity_parts_auxs; [apply (J_sane _ Hj)|]. apply forallb_set_nth; [apply (sanity_parts_in_sane _ _ _ (J_sane _ Hj))|].
      apply S1. exact (forallb_nth _ _ _ _ (sanity_parts_in_sane _ _ _ (J_sane _ Hj)) Ex).
    + apply forallb_set_nth; [apply (J_auxs _ Hj)|]. rewrite S2. exact (forallb_nth _ _ _ _ (J_auxs _ Hj) Ex).
  - (* FinalizeAll *)
    destruct (finalize_loop finalize_local (p_cores p) 0 (length (p_cores p)) (p_auxs p) (p_outs p) (g_scalars p)) as [auxs r] eqn:E.
    apply staged_fst_J; auto. intros auxs0 outs0 sc0 E0; inversion E0; subst.
    apply J_upd; auto; [| apply (J_sc _ Hj) | | apply (J_outs _ Hj)].
    + eapply sanity_parts_auxs; [apply (J_sane _ Hj)|].
      eapply (finalize_loop_inv finalize_local in_sane finalize_local_sane); eauto. apply (sanity_parts_in_sane _ _ _ (J_sane _ Hj)).
    + eapply (finalize_loop_inv finalize_local aux_reparses); eauto; [|apply (J_auxs _ Hj)].
      intros c a H; rewrite finalize_local_rp; exact H.
  - destruct (finalize_loop maybe_finalize_local (p_cores p) 0 (length (p_cores p)) (p_auxs p) (p_outs p) (g_scalars p)) as [auxs r] eqn:E.
    cbn [fst]. apply J_upd; auto; [| apply (J_sc _ Hj) | | apply (J_outs _ Hj)].
    + eapply sanity_parts_auxs; [apply (J_sane _ Hj)|].
      eapply (finalize_loop_inv maybe_finalize_local in_sane maybe_finalize_local_sane); eauto. apply (sanity_parts_in_sane _ _ _ (J_sane _ Hj)).
    + eapply (finalize_loop_inv maybe_finalize_local aux_reparses); eauto; [|apply (J_auxs _ Hj)].
      intros c a H; rewrite maybe_finalize_local_rp; exact H.
Qed.

Lemma init_J : forall ins outs fb p0, init ins outs fb = IOk p0 -> J p0.
Proof.
  intros ins outs fb p0 H. apply init_inv in H as (V1 & V2 & p & E & H).
  assert (J (empty_pset fb)) as J0 by (constructor; try reflexivity; split; reflexivity).
  assert (sanity p = true) as Sp.
  { pose proof E as E'. apply add_inputs_inv in E' as (_ & _ & _ & _ & A5 & _ & A7 & A8 & _).
    unfold sanity, sanity_parts. rewrite A5, A7, A8; cbn. rewrite forallb_repeat; reflexivity. }
  pose proof (add_inputs_J _ _ _ E V1 Sp J0) as Jp.
  assert (sanity p0 = true) as Sp0.
  { pose proof H as H'. apply add_outputs_inv in H' as (_ & _ & _ & _ & A5 & _ & A7 & A8 & _).
    pose proof E as E'. apply add_inputs_inv in E' as (_ & _ & _ & _ & B5 & _ & _ & B8 & _). cbn in B5, B8.
    unfold sanity, sanity_parts. rewrite A5, A7, A8, B5, B8; cbn [app].
    rewrite (sanity_parts_in_sane _ _ _ Sp). cbn [andb].
    assert (existsb o_blinded (map to_outp outs) = false) as -> by (apply existsb_map_false; reflexivity).
    cbn [andb negb]. rewrite andb_true_r.
    clear -V2. induction outs as [|a l IH]; cbn in *; auto. apply andb_prop in V2 as [Q1 Q2]. rewrite IH, andb_true_r; auto.
    unfold outarg_valid in Q1. apply andb_prop in Q1 as [Q1 _]; apply andb_prop in Q1 as [Q1 _].
    unfold out_sane, to_outp; cbn. rewrite Q1; reflexivity. }
  eapply add_outputs_J; eauto. apply to_outp_reparses; auto.
Qed.

Lemma good_run_J : forall ops p, J p -> good_run p ops -> J (run p ops).
Proof.
  induction ops as [|o ops IH]; intros p Hj Hg; cbn in *; auto. destruct Hg as [H1 H2]. apply IH; auto. apply step_J; auto.
Qed.

(* ===== after any operation history the packet serialises and re-parses to itself ===== *)
Theorem reachable_roundtrips : forall ins outs fb p0 ops,
  init ins outs fb = IOk p0 -> good_run p0 ops -> rt (run p0 ops) = true.
Proof. intros ins outs fb p0 ops H Hg. apply J_rt. apply good_run_J; auto. eapply init_J; eauto. Qed.

(* the pre-fix counterexamples (before fix a3c85bd these calls returned no error and left a packet the parser refuses):
   a 5-byte issuance value commitment for an input without issuance value, a nonce commitment that is not a point *)
Definition blind_one (iss : list (N * N)) (ocls : N) : blind_args :=
  {| bl_last := true; bl_owned := [0]; bl_iss := iss; bl_outs := [(0, ocls)]; bl_surj := true; bl_basset := true;
     bl_range := true; bl_bvalue := true; bl_gfail := 0; bl_scalar := 9 |}.
Definition one_conf_out : list outarg :=
  [{| oa_cls := 0; oa_amount := 1000; oa_script := Some (SWpkh 1); oa_bk := 1; oa_bidx := 0 |}].

Example blinder_refuses_malformed_commitments :
  exists p0, init [mk_in 0 0 0 0] one_conf_out None = IOk p0 /\
    let p := run p0 [OWUtxo 0%Z (Some {| u_script := SWpkh 0; u_conf := false |})] in
    step p (OBlind (blind_one [(0, 2)] 0)) = (p, Err) /\ step p (OBlind (blind_one [] 3)) = (p, Err)
    /\ snd (step p (OBlind (blind_one [(0, 1)] 0))) = Ok.
Proof. eexists; split; [vm_compute; reflexivity|]. vm_compute. auto. Qed.

(* the side condition on the caller's flags is needed: a bit set above 7 is written and refused by the parser *)
Theorem reachable_roundtrips_needs_three_bit_flags :
  exists p0, init [] [] None = IOk p0 /\ rt (fst (step p0 (OSetMod (Some 8)))) = false.
Proof. eexists; split; vm_compute; reflexivity. Qed.

(* the old counterexamples now behave: a failed AddInWitnessScript leaves nothing (fix 0ac2234); New refuses a 31-byte
   txid (fix cc83b33); 253 inputs and both locktimes round-trip (fixes 1bba04e, c50dc2e) *)
Example roundtrip_regressions :
  (exists p0, init [mk_in 0 0 0 0] [] None = IOk p0 /\ step p0 (OWScript 0%Z (Some (SMs 2))) = (p0, Err))
  /\ init [{| ia_cls := 3; ia_t := 0; ia_idx := 0; ia_seq := 0; ia_height := 0; ia_time := 0 |}] [] None = IErr
  /\ (exists p0, init [] [] None = IOk p0 /\
     rt (fst (step p0 (OAddInputs (map (fun k => mk_in 0 (N.of_nat k) 0 0) (seq 0 253))))) = true)
  /\ (exists p0, init [mk_in 0 0 100 500000005; mk_in 1 0 100 0] [] None = IOk p0 /\ rt p0 = true).
Proof.
  split; [eexists; split; [vm_compute; reflexivity|]; vm_compute; reflexivity|].
  split; [vm_compute; reflexivity|].
  split; eexists; (split; [vm_compute; reflexivity|]); vm_compute; reflexivity.
Qed.

(* ---------- the hypotheses of the theorems are satisfiable: a packet with two inputs and an output,
   signed, finalized, with a failed operation in the middle ---------- *)
Definition ex_ins := [mk_in 0 0 0 0; mk_in 1 0 0 0].
Definition ex_outs := [{| oa_cls := 0; oa_amount := 1000; oa_script := Some (SWpkh 1); oa_bk := 0; oa_bidx := 0 |}].
Definition ex_ops :=
  [OWUtxo 0%Z (Some {| u_script := SWpkh 0; u_conf := false |}); OAddInputs [mk_in 0 0 0 0] (* duplicate: fails *);
   OSign 0%Z true 1 (Some 0) None None; OFinalize 0%Z; OAddInputs [mk_in 2 1 0 0]].

Example ex_init_ok : exists p0, init ex_ins ex_outs (Some 77) = IOk p0 /\ g_nin (run p0 ex_ops) = 3
  /\ ia_cls (mk_in 0 0 0 0) = 0 /\ locktime (run p0 ex_ops) = 77.
Proof. eexists; split; [vm_compute; reflexivity|]. repeat split; vm_compute; reflexivity. Qed.

Example ex_finalized : exists p0 a, init ex_ins ex_outs None = IOk p0 /\
  nth_error (p_auxs (run p0 ex_ops)) 0 = Some a /\ finalized a = true /\ frozen_scope OFinalizeAll = true.
Proof. do 2 eexists; split; [vm_compute; reflexivity|]. repeat split; vm_compute; reflexivity. Qed.

Example ex_failed_add : exists p0, init ex_ins ex_outs None = IOk p0 /\
  snd (step p0 (OAddInputs [mk_in 0 0 0 0])) = Err /\ sanity (fst (step p0 (OAddInputs [mk_in 0 0 0 0]))) = true
  /\ inputs_modifiable (fst (step p0 (OSetMod (Some 2)))) = false.
Proof. eexists; split; [vm_compute; reflexivity|]. repeat split; vm_compute; reflexivity. Qed.

(* ===== the kind selection is well defined: no time-only input next to a height-only one ===== *)
Definition kc (p : pset) : Prop :=
  forall x y, In x (p_cores p) -> In y (p_cores p) -> time_only x = true -> height_only y = true -> False.

Lemma lock_loop_ok : forall cs auxs t h sigs r ct ch,
  (ct = 0 -> t = 0) -> (ch = 0 -> h = 0) -> lock_loop cs auxs t h sigs = Some r ->
  forall e, In e cs -> (time_only e = true -> ct <> 0) /\ (height_only e = true -> ch <> 0).
Proof.
  induction cs as [|c cs IH]; intros auxs t h sigs r ct ch Ht Hh H e Hin; [destruct Hin|].
  cbn [lock_loop] in H. unfold time_only, height_only.
  destruct (c_time c =? 0) eqn:E1; destruct (c_height c =? 0) eqn:E2; cbn [negb andb] in H.
  - (* neither *) destruct Hin as [<-|Hin]; [rewrite E1, E2; cbn; split; discriminate|].
    exact (IH _ _ _ _ _ ct ch Ht Hh H e Hin).
  - (* height only *)
    destruct (h =? 0) eqn:E3; [discriminate|]. apply N.eqb_neq in E3.
    destruct Hin as [<-|Hin].
    + rewrite E1, E2; cbn; split; [discriminate|]. intros _ Hc; apply E3; auto.
    + refine (IH _ _ _ _ _ ct ch _ _ H e Hin).
      * intros _; reflexivity.
      * intro Hc; exfalso; apply E3; auto.
  - (* time only *)
    destruct (t =? 0) eqn:E3; [discriminate|]. apply N.eqb_neq in E3. cbn [N.eqb] in H.
    destruct Hin as [<-|Hin].
    + rewrite E1, E2; cbn; split; [|discriminate]. intros _ Hc; apply E3; auto.
    + refine (IH _ _ _ _ _ ct ch _ _ H e Hin).
      * intro Hc; exfalso; apply E3; auto.
      * intros _; reflexivity.
  - (* both *)
    destruct Hin as [<-|Hin]; [rewrite E1, E2; cbn; split; discriminate|].
    refine (IH _ _ _ _ _ ct ch _ _ H e Hin).
    + intro Hc. rewrite (Ht Hc); reflexivity.
    + intro Hc. rewrite (Hh Hc); reflexivity.
Qed.

Lemma add_input_kc : forall p a p', add_input p a = Some p' -> kc p -> kc p'.
Proof.
  intros p a p' H K. pose proof H as H0. apply add_input_inv in H0 as (_ & _ & _ & _ & _ & A6 & _).
  unfold add_input in H.
  destruct ((ia_cls a =? 1) || (ia_cls a =? 2)); [discriminate|].
  destruct (existsb (same_outpoint (to_core a)) (p_cores p)); [discriminate|].
  destruct (negb (inputs_modifiable p)); [discriminate|].
  set (c := to_core a) in *.
  assert (forall e, In e (p_cores p) -> (time_only e = true -> height_only c = false) /\ (height_only e = true -> time_only c = false)) as Hnew.
  { intros e He. unfold time_only at 2, height_only at 1.
    destruct (negb (c_height c =? 0) || negb (c_time c =? 0)) eqn:Eany.
    - destruct (lock_loop (p_cores p) (p_auxs p) (c_time c) (c_height c) false) as [r|] eqn:EL; [|discriminate].
      destruct (lock_loop_ok _ _ _ _ _ _ (c_time c) (c_height c) (fun x => x) (fun x => x) EL e He) as [L1 L2].
      split; intro Hk.
      + apply L1 in Hk. apply N.eqb_neq in Hk; rewrite Hk; reflexivity.
      + apply L2 in Hk. apply N.eqb_neq in Hk; rewrite Hk, andb_false_r; reflexivity.
    - apply orb_false_elim in Eany as [Ea Eb]. apply negb_false_iff in Ea, Eb. rewrite Ea, Eb; cbn; split; reflexivity. }
  unfold kc; rewrite A6. intros x y Hx Hy Tx Hy'.
  apply in_app_or in Hx as [Hx|[<-|[]]]; apply in_app_or in Hy as [Hy|[<-|[]]].
  - eapply K; eauto.
  - destruct (Hnew x Hx) as [L _]. rewrite (L Tx) in Hy'; discriminate.
  - destruct (Hnew y Hy) as [_ L]. rewrite (L Hy') in Tx; discriminate.
  - unfold time_only, height_only in *. destruct (c_time c =? 0); cbn in *; congruence.
Qed.

Lemma add_inputs_kc : forall l p p', add_inputs p l = Some p' -> kc p -> kc p'.
Proof.
  induction l as [|a l IH]; intros p p' H C; cbn in H; [inversion H; subst; auto|].
  destruct (add_input p a) as [p1|] eqn:E1; [|discriminate]. eapply IH; eauto. eapply add_input_kc; eauto.
Qed.

Lemma cores_kc : forall p p', p_cores p' = p_cores p -> kc p -> kc p'.
Proof. intros p p' H K; unfold kc in *; rewrite H; exact K. Qed.

Lemma step_kc : forall p o, kc p -> kc (fst (step p o)).
Proof.
  intros p o C; destruct (step_rel_holds p o) as [H|f H|l H|p1 p2 l H1 H2 H3].
  - destruct H as (_ & _ & _ & _ & A5 & _). eapply cores_kc; eauto.
  - rewrite H; exact C.
  - eapply add_inputs_kc; eauto.
  - destruct H1 as (_ & _ & _ & _ & B5 & _), H3 as (_ & _ & _ & _ & C5 & _).
    apply add_outputs_inv in H2 as (_ & _ & _ & _ & _ & A6 & _). eapply cores_kc; [|exact C]. congruence.
Qed.

Theorem kinds_compatible : forall ins outs fb p0 ops, init ins outs fb = IOk p0 ->
  forall x y, In x (p_cores (run p0 ops)) -> In y (p_cores (run p0 ops)) ->
  time_only x = true -> height_only y = true -> False.
Proof.
  intros ins outs fb p0 ops H. apply (run_inv kc step_kc).
  apply init_inv in H as (_ & _ & p & E & H). apply add_outputs_inv in H as (_ & _ & _ & _ & _ & A6 & _).
  eapply cores_kc; [exact A6|]. eapply add_inputs_kc; eauto. intros x y [].
Qed.

(* ===== partial signatures commit to the locktime: adding inputs never moves it under them ===== *)
Definition has_psig (a : aux) : bool := negb (match a_psigs a with [] => true | _ => false end).
(* the inputs as addInput walks them: creation-time part and written part side by side *)
Fixpoint any_psigs (cs : list core) (auxs : list aux) : bool :=
  match cs with [] => false | _ :: cs' => has_psig (hd aux0 auxs) || any_psigs cs' (tl auxs) end.
Definition signed (p : pset) : bool := any_psigs (p_cores p) (p_auxs p).

Lemma fold_max_init : forall (g : core -> N) cs m,
  fold_left (fun m c => N.max m (g c)) cs m = N.max m (fold_left (fun m c => N.max m (g c)) cs 0).
Proof.
  intros g; induction cs as [|c cs IH]; intro m; cbn [fold_left]; [lia|].
  rewrite IH, (IH (N.max 0 (g c))). lia.
Qed.
Lemma max_time_cons : forall c cs, max_time (c :: cs) = N.max (c_time c) (max_time cs).
Proof. intros; unfold max_time; cbn [fold_left]. rewrite fold_max_init. lia. Qed.
Lemma max_height_cons : forall c cs, max_height (c :: cs) = N.max (c_height c) (max_height cs).
Proof. intros; unfold max_height; cbn [fold_left]. rewrite fold_max_init. lia. Qed.
Lemma max_time_snoc : forall cs c, max_time (cs ++ [c]) = N.max (max_time cs) (c_time c).
Proof. intros; unfold max_time; rewrite fold_left_app; reflexivity. Qed.
Lemma max_height_snoc : forall cs c, max_height (cs ++ [c]) = N.max (max_height cs) (c_height c).
Proof. intros; unfold max_height; rewrite fold_left_app; reflexivity. Qed.

Lemma lock_loop_sigs : forall cs auxs t h s r, lock_loop cs auxs t h s = Some r -> snd r = s || any_psigs cs auxs.
Proof.
  induction cs as [|c cs IH]; intros auxs t h s r H; cbn [lock_loop any_psigs] in *.
  - inversion H; cbn; rewrite orb_false_r; reflexivity.
  - repeat match type of H with (if ?b then _ else _) = _ => destruct b; [discriminate|] end.
    apply IH in H. rewrite H. unfold has_psig. rewrite orb_assoc; reflexivity.
Qed.

(* once the height (time) candidate is zero, a height-only (time-only) input stops the loop *)
Lemma lock_loop_h0 : forall cs auxs t s r, lock_loop cs auxs t 0 s = Some r -> existsb height_only cs = false.
Proof.
  induction cs as [|c cs IH]; intros auxs t s r H; cbn [lock_loop existsb] in *; auto.
  unfold height_only at 1. destruct (c_time c =? 0) eqn:E1; destruct (c_height c =? 0) eqn:E2; cbn [negb andb orb] in *;
    try discriminate; cbn [N.eqb] in H;
    repeat match type of H with (if ?b then _ else _) = _ => destruct b; [discriminate|] end; eapply IH; eauto.
Qed.
Lemma lock_loop_t0 : forall cs auxs h s r, lock_loop cs auxs 0 h s = Some r -> existsb time_only cs = false.
Proof.
  induction cs as [|c cs IH]; intros auxs h s r H; cbn [lock_loop existsb] in *; auto.
  unfold time_only at 1. destruct (c_time c =? 0) eqn:E1; destruct (c_height c =? 0) eqn:E2; cbn [negb andb orb] in *;
    try discriminate; cbn [N.eqb] in H;
    repeat match type of H with (if ?b then _ else _) = _ => destruct b; [discriminate|] end; eapply IH; eauto.
Qed.

(* the candidates the loop ends with *)
Definition T_end (cs : list core) (t : N) : N :=
  if t =? 0 then 0 else if existsb height_only cs then 0 else N.max t (max_time cs).
Definition H_end (cs : list core) (h : N) : N :=
  if h =? 0 then 0 else if existsb time_only cs then 0 else N.max h (max_height cs).

Lemma lock_loop_vals : forall cs auxs t h s t' h' s', lock_loop cs auxs t h s = Some (t', h', s') ->
  t' = T_end cs t /\ h' = H_end cs h.
Proof.
  induction cs as [|c cs IH]; intros auxs t h s t' h' s' H.
  - cbn in H; inversion H; subst. unfold T_end, H_end; cbn. split.
    + destruct (t' =? 0) eqn:E; [apply N.eqb_eq in E; auto|unfold max_time; cbn; lia].
    + destruct (h' =? 0) eqn:E; [apply N.eqb_eq in E; auto|unfold max_height; cbn; lia].
  - cbn [lock_loop] in H. unfold T_end, H_end. cbn [existsb]. rewrite max_time_cons, max_height_cons.
    unfold time_only at 1, height_only at 1.
    destruct (c_time c =? 0) eqn:E1; destruct (c_height c =? 0) eqn:E2; cbn [negb andb orb] in *.
    + (* neither *) apply N.eqb_eq in E1, E2. apply IH in H as [A B]. unfold T_end, H_end in A, B. rewrite A, B, E1, E2.
      split; [destruct (t =? 0); auto; destruct (existsb height_only cs); auto; lia
             |destruct (h =? 0); auto; destruct (existsb time_only cs); auto; lia].
    + (* height only *) destruct (h =? 0) eqn:E3; [discriminate|]. cbn [negb andb] in H.
      apply N.eqb_eq in E1. apply N.eqb_neq in E2, E3.
      apply IH in H as [A B]. unfold T_end, H_end in A, B. cbn [N.eqb] in A. rewrite A, B.
      split; [destruct (t =? 0); reflexivity|].
      assert ((N.max h (c_height c) =? 0) = false) as -> by (apply N.eqb_neq; lia).
      destruct (existsb time_only cs); auto. lia.
    + (* time only *) destruct (t =? 0) eqn:E3; [discriminate|]. cbn [N.eqb negb andb] in H.
      apply N.eqb_eq in E2. apply N.eqb_neq in E1, E3.
      apply IH in H as [A B]. unfold T_end, H_end in A, B. cbn [N.eqb] in B. rewrite A, B.
      split; [|destruct (h =? 0); reflexivity].
      assert ((N.max t (c_time c) =? 0) = false) as -> by (apply N.eqb_neq; lia).
      destruct (existsb height_only cs); auto. lia.
    + (* both *) apply N.eqb_neq in E1, E2.
      apply IH in H as [A B]. unfold T_end, H_end in A, B. rewrite A, B. split.
      * destruct (t =? 0) eqn:E3; cbn [negb].
        { apply N.eqb_eq in E3; subst; reflexivity. }
        apply N.eqb_neq in E3. assert ((N.max t (c_time c) =? 0) = false) as -> by (apply N.eqb_neq; lia).
        destruct (existsb height_only cs); auto. lia.
      * destruct (h =? 0) eqn:E3; cbn [negb].
        { apply N.eqb_eq in E3; subst; reflexivity. }
        apply N.eqb_neq in E3. assert ((N.max h (c_height c) =? 0) = false) as -> by (apply N.eqb_neq; lia).
        destruct (existsb time_only cs); auto. lia.
Qed.

(* a loop that succeeds never met a time-only and a height-only input *)
Lemma lock_loop_excl : forall cs auxs t h s r, lock_loop cs auxs t h s = Some r ->
  existsb time_only cs = true -> existsb height_only cs = true -> False.
Proof.
  induction cs as [|c cs IH]; intros auxs t h s r H HT HH; [discriminate|].
  cbn [lock_loop existsb] in *. unfold time_only at 1 in HT. unfold height_only at 1 in HH.
  destruct (c_time c =? 0) eqn:E1; destruct (c_height c =? 0) eqn:E2; cbn [negb andb orb] in *.
  - eapply IH; eauto.
  - destruct (h =? 0); [discriminate|]. cbn [negb andb] in H. apply lock_loop_t0 in H. congruence.
  - destruct (t =? 0); [discriminate|]. cbn [N.eqb negb andb] in H. apply lock_loop_h0 in H. congruence.
  - eapply IH; eauto.
Qed.

Lemma spec_locktime_snoc : forall p p' c, p_cores p' = p_cores p ++ [c] -> g_fallback p' = g_fallback p ->
  spec_locktime p' =
  (if existsb time_only (p_cores p) || time_only c then N.max (max_time (p_cores p)) (c_time c)
   else if existsb (fun c => negb (c_height c =? 0)) (p_cores p) || negb (c_height c =? 0)
        then N.max (max_height (p_cores p)) (c_height c) else fallback_or_0 p).
Proof.
  intros p p' c Hc Hf; unfold spec_locktime, fallback_or_0. rewrite Hc, Hf, !existsb_app, max_time_snoc, max_height_snoc.
  cbn [existsb]. rewrite !orb_false_r. reflexivity.
Qed.

Lemma height_only_has_height : forall cs, existsb height_only cs = true -> existsb (fun c => negb (c_height c =? 0)) cs = true.
Proof.
  intros cs H; apply existsb_exists in H as [e [Hin He]]. apply existsb_exists; exists e; split; auto.
  unfold height_only in He; apply andb_prop in He as [_ He]; exact He.
Qed.

(* one input: under partial signatures the locktime stays where it is *)
Lemma add_input_signed_locktime : forall p a p', add_input p a = Some p' -> signed p = true -> locktime p' = locktime p.
Proof.
  intros p a p' H Hs. pose proof H as H0.
  apply add_input_inv in H0 as (_ & _ & _ & A4 & _ & A6 & _).
  rewrite (locktime_is_max_of_selected_kind p'), (spec_locktime_snoc p p' (to_core a) A6 A4).
  unfold add_input in H.
  destruct ((ia_cls a =? 1) || (ia_cls a =? 2)); [discriminate|].
  destruct (existsb (same_outpoint (to_core a)) (p_cores p)); [discriminate|].
  destruct (negb (inputs_modifiable p)); [discriminate|].
  set (c := to_core a) in *.
  destruct (negb (c_height c =? 0) || negb (c_time c =? 0)) eqn:Eany.
  2:{ (* no required locktime on the new input *)
      apply orb_false_elim in Eany as [Ea Eb]. apply negb_false_iff in Ea, Eb. apply N.eqb_eq in Ea, Eb.
      rewrite (locktime_is_max_of_selected_kind p). unfold spec_locktime, time_only. rewrite Ea, Eb; cbn [N.eqb negb andb].
      rewrite !orb_false_r, !N.max_0_r. reflexivity. }
  destruct (lock_loop (p_cores p) (p_auxs p) (c_time c) (c_height c) false) as [[[t' h'] s']|] eqn:EL; [|discriminate].
  pose proof (lock_loop_sigs _ _ _ _ _ _ EL) as Hsig. cbn in Hsig. unfold signed in Hs. rewrite Hs in Hsig. subst s'.
  destruct (lock_loop_vals _ _ _ _ _ _ _ _ EL) as [Ht Hh].
  assert (forall e, In e (p_cores p) -> (time_only e = true -> c_time c <> 0) /\ (height_only e = true -> c_height c <> 0)) as Hok
    by (eapply lock_loop_ok; eauto).
  (* the guard: signatures present, so the old locktime is the candidate *)
  match type of H with (if negb ?g then _ else _) = _ => destruct g eqn:Eg end; cbn [negb] in H; [|discriminate].
  cbn [andb] in Eg. apply negb_true_iff, negb_false_iff, N.eqb_eq in Eg. rewrite Eg. clear H Eg.
  subst t' h'. unfold T_end, H_end, time_only at 2.
  destruct (existsb time_only (p_cores p)) eqn:TO; destruct (existsb height_only (p_cores p)) eqn:HO.
  - exfalso; eapply lock_loop_excl; eauto.
  - (* a time-only input exists: the new one has a time lock *)
    apply existsb_exists in TO as [e [Hin He]]. destruct (Hok e Hin) as [Q _]. specialize (Q He).
    apply N.eqb_neq in Q. rewrite Q. cbn [orb negb].
    destruct (c_height c =? 0); cbn [negb andb].
    + assert ((N.max (c_time c) (max_time (p_cores p)) =? 0) = false) as -> by (apply N.eqb_neq; apply N.eqb_neq in Q; lia).
      cbn [negb N.eqb]. lia.
    + assert ((N.max (c_time c) (max_time (p_cores p)) =? 0) = false) as -> by (apply N.eqb_neq; apply N.eqb_neq in Q; lia).
      cbn [negb N.eqb]. lia.
  - (* a height-only input exists: the new one has a height lock, so it is not time-only *)
    pose proof (height_only_has_height _ HO) as HH.
    apply existsb_exists in HO as [e [Hin He]]. destruct (Hok e Hin) as [_ Q]. specialize (Q He).
    apply N.eqb_neq in Q. rewrite Q, HH. cbn [orb negb andb]. rewrite andb_false_r. cbn [orb].
    assert ((N.max (c_height c) (max_height (p_cores p)) =? 0) = false) as -> by (apply N.eqb_neq; apply N.eqb_neq in Q; lia).
    cbn [negb N.eqb]. lia.
  - (* neither kind is forced by the packet *)
    cbn [orb]. destruct (c_height c =? 0) eqn:Eh; destruct (c_time c =? 0) eqn:Et; cbn [negb andb orb] in *; try discriminate.
    + (* time only new input *)
      assert ((N.max (c_time c) (max_time (p_cores p)) =? 0) = false) as -> by (apply N.eqb_neq; apply N.eqb_neq in Et; lia).
      cbn [negb N.eqb]. lia.
    + (* height only new input *)
      rewrite orb_true_r.
      assert ((N.max (c_height c) (max_height (p_cores p)) =? 0) = false) as -> by (apply N.eqb_neq; apply N.eqb_neq in Eh; lia).
      cbn [negb N.eqb]. lia.
    + rewrite orb_true_r.
      assert ((N.max (c_height c) (max_height (p_cores p)) =? 0) = false) as -> by (apply N.eqb_neq; apply N.eqb_neq in Eh; lia).
      cbn [negb N.eqb]. lia.
Qed.

Lemma any_psigs_nil : forall cs, any_psigs cs [] = false.
Proof. induction cs as [|c cs IH]; cbn; auto. Qed.
Lemma any_psigs_app : forall cs auxs cs2 l2, any_psigs cs auxs = true -> any_psigs (cs ++ cs2) (auxs ++ l2) = true.
Proof.
  induction cs as [|c cs IH]; intros auxs cs2 l2 H; cbn in H; [discriminate|].
  destruct auxs as [|x xs]; [cbn in H; rewrite any_psigs_nil in H; discriminate|].
  cbn in *. apply orb_prop in H as [H|H]; [rewrite H; reflexivity|]. rewrite (IH _ _ _ H), orb_true_r; reflexivity.
Qed.

Lemma add_inputs_signed_locktime : forall l p p', add_inputs p l = Some p' -> signed p = true ->
  locktime p' = locktime p /\ signed p' = true.
Proof.
  induction l as [|a l IH]; intros p p' H Hs; cbn in H; [inversion H; subst; auto|].
  destruct (add_input p a) as [p1|] eqn:E; [|discriminate].
  pose proof (add_input_signed_locktime _ _ _ E Hs) as L1.
  assert (signed p1 = true) as S1.
  { apply add_input_inv in E as (_ & _ & _ & _ & _ & A6 & A7 & _). unfold signed in *. rewrite A6, A7. apply any_psigs_app; auto. }
  destruct (IH _ _ H S1) as [L2 S2]. split; [congruence|auto].
Qed.

(* ===== AddInputs never moves the locktime of a packet that carries partial signatures: any packet, any arguments ===== *)
Theorem signed_locktime_fixed : forall p l, signed p = true -> locktime (fst (step p (OAddInputs l))) = locktime p.
Proof.
  intros p l Hs; cbn [step].
  destruct (negb (forallb (fun a => ia_cls a =? 0) l)); [reflexivity|].
  destruct (add_inputs p l) as [p'|] eqn:E; [|reflexivity].
  unfold publish; destruct (sanity p'); cbn [fst]; [|reflexivity].
  apply (add_inputs_signed_locktime _ _ _ E Hs).
Qed.

(* the shape of seeded change p: a signed input without required locktime, then an input with a height lock: refused *)
Example signed_then_height_lock_refused :
  exists p0, init [mk_in 0 0 0 0] [] None = IOk p0 /\
    let p := run p0 [OWUtxo 0%Z (Some {| u_script := SWpkh 0; u_conf := false |}); OSign 0%Z true 1 (Some 0) None None] in
    signed p = true /\ step p (OAddInputs [mk_in 1 0 120 0]) = (p, Err) /\ snd (step p (OAddInputs [mk_in 1 0 0 0])) = Ok.
Proof. eexists; split; [vm_compute; reflexivity|]. vm_compute. auto. Qed.
