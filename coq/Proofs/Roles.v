(* Proofs/Roles.v — C11: invariants of the PSET v2 role state machine (Model/Roles.v).

   Proved for every start packet built by [init] and every operation list:
     counts_match, no_duplicate_outpoints, modifiable_respected (one step from ANY state),
     kinds_compatible (no time-only input next to a height-only one).
   The statements that today's code violates are kept visible with a proved _partial (the
   domain where they hold) and a _refuted witness (vm_compute) replayed on the real code by
   the S oracle (harness/rolescheck.go, corpus/hist.txt):
     locktime_is_max_of_selected_kind, multi_part_ops_atomic, finalized_inputs_frozen,
     reachable_roundtrips. *)
From Coq Require Import List NArith ZArith Bool Lia.
From Coq Require Import ZifyBool ZifyN ZifyNat.
From GE Require Import Model.Roles.
Import ListNotations.
Import R11.
Open Scope N_scope.

(* ---------- generic list facts ---------- *)
Lemma length_set_nth {A} : forall n (x : A) l, length (set_nth n x l) = length l.
Proof. intros n x l; revert n; induction l as [|h t IH]; intros [|n]; cbn; auto. Qed.

Lemma nth_set_nth_eq {A} : forall n (x y : A) l, nth_error l n = Some y -> nth_error (set_nth n x l) n = Some x.
Proof. intros n x y l; revert n; induction l as [|h t IH]; intros [|n] H; cbn in *; try discriminate; auto. Qed.

Lemma nth_set_nth_neq {A} : forall n m (x : A) l, n <> m -> nth_error (set_nth n x l) m = nth_error l m.
Proof.
  intros n m x l; revert n m; induction l as [|h t IH]; intros [|n] [|m] H; cbn; auto; try congruence.
Qed.

Lemma set_nth_same {A} : forall n (x : A) l, nth_error l n = Some x -> set_nth n x l = l.
Proof. intros n x l; revert n; induction l as [|h t IH]; intros [|n] H; cbn in *; try discriminate; auto.
  - congruence.
  - f_equal; auto.
Qed.

Lemma NoDup_snoc {A} : forall (l : list A) x, NoDup l -> ~ In x l -> NoDup (l ++ [x]).
Proof.
  induction l as [|h t IH]; intros x Hnd Hin; cbn.
  - constructor; [intros []|constructor].
  - inversion Hnd as [|h' t' Hh Ht]; subst. constructor.
    + intro Hc; apply in_app_or in Hc as [Hc|[Hc|[]]]; [auto|subst; apply Hin; left; auto].
    + apply IH; auto. intro Hc; apply Hin; right; auto.
Qed.

(* ---------- the structural steps ---------- *)
Definition outpoint (c : core) : N * bool * N := (c_t c, c_short c, c_idx c).

Lemma same_outpoint_true : forall x y, same_outpoint x y = true <-> outpoint x = outpoint y.
Proof.
  intros x y; unfold same_outpoint, outpoint; split; intro H.
  - apply andb_prop in H as [H H3]; apply andb_prop in H as [H1 H2].
    apply N.eqb_eq in H1, H3; apply eqb_prop in H2; congruence.
  - inversion H as [[H1 H2 H3]]; rewrite H1, H2, H3, !N.eqb_refl, eqb_reflx; reflexivity.
Qed.

Lemma existsb_same_outpoint_false : forall c cs,
  existsb (same_outpoint c) cs = false -> ~ In (outpoint c) (map outpoint cs).
Proof.
  intros c cs H Hin; apply in_map_iff in Hin as [y [Hy Hin]].
  assert (existsb (same_outpoint c) cs = true) as E.
  { apply existsb_exists; exists y; split; auto; apply same_outpoint_true; auto. }
  congruence.
Qed.

Lemma add_input_inv : forall p a p', add_input p a = Some p' ->
  g_nin p' = g_nin p + 1 /\ g_nout p' = g_nout p /\ g_flags p' = g_flags p /\ g_fallback p' = g_fallback p
  /\ g_scalars p' = g_scalars p
  /\ p_cores p' = p_cores p ++ [to_core a] /\ p_auxs p' = p_auxs p ++ [aux0] /\ p_outs p' = p_outs p
  /\ inputs_modifiable p = true /\ existsb (same_outpoint (to_core a)) (p_cores p) = false.
Proof.
  intros p a p' H; unfold add_input in H.
  destruct ((ia_cls a =? 1) || (ia_cls a =? 2)); [discriminate|].
  destruct (existsb (same_outpoint (to_core a)) (p_cores p)) eqn:Edup; [discriminate|].
  destruct (inputs_modifiable p) eqn:Emod; cbn [negb] in H; [|discriminate].
  match type of H with (if negb ?b then _ else _) = _ => destruct b end; cbn [negb] in H; [|discriminate].
  inversion H; subst p'; cbn; repeat split; auto.
Qed.

Lemma add_output_inv : forall p o p', add_output p o = Some p' ->
  g_nin p' = g_nin p /\ g_nout p' = g_nout p + 1 /\ g_flags p' = g_flags p /\ g_fallback p' = g_fallback p
  /\ g_scalars p' = g_scalars p
  /\ p_cores p' = p_cores p /\ p_auxs p' = p_auxs p /\ p_outs p' = p_outs p ++ [o]
  /\ outputs_modifiable p = true.
Proof.
  intros p o p' H; unfold add_output in H.
  destruct (out_sane o); cbn [negb] in H; [|discriminate].
  destruct (outputs_modifiable p) eqn:Emod; cbn [negb] in H; [|discriminate].
  inversion H; subst p'; cbn; repeat split; auto.
Qed.

(* the invariants *)
Definition cm (p : pset) : Prop :=
  g_nin p = N.of_nat (length (p_cores p)) /\ g_nout p = N.of_nat (length (p_outs p)).
Definition nd (p : pset) : Prop := NoDup (map outpoint (p_cores p)).

Lemma add_input_cm : forall p a p', add_input p a = Some p' -> cm p -> cm p'.
Proof.
  intros p a p' H [C1 C2]; apply add_input_inv in H as (H1 & H2 & _ & _ & _ & H3 & _ & H4 & _).
  unfold cm; rewrite H1, H2, H3, H4, app_length; cbn; split; lia.
Qed.

Lemma add_input_nd : forall p a p', add_input p a = Some p' -> nd p -> nd p'.
Proof.
  intros p a p' H Hnd; apply add_input_inv in H as (_ & _ & _ & _ & _ & H3 & _ & _ & _ & Hdup).
  unfold nd in *; rewrite H3, map_app; cbn.
  apply NoDup_snoc; auto. apply existsb_same_outpoint_false; auto.
Qed.


Lemma add_inputs_inv : forall l p p', add_inputs p l = Some p' ->
  g_nin p' = g_nin p + N.of_nat (length l) /\ g_nout p' = g_nout p /\ g_flags p' = g_flags p
  /\ g_fallback p' = g_fallback p /\ g_scalars p' = g_scalars p
  /\ p_cores p' = p_cores p ++ map to_core l /\ p_auxs p' = p_auxs p ++ repeat aux0 (length l)
  /\ p_outs p' = p_outs p /\ (l <> [] -> inputs_modifiable p = true).
Proof.
  induction l as [|a l IH]; intros p p' H; cbn in H.
  - inversion H; subst; cbn; rewrite !app_nil_r, N.add_0_r; repeat split; auto; congruence.
  - destruct (add_input p a) as [p1|] eqn:E1; [|discriminate].
    apply add_input_inv in E1 as (A1 & A2 & A3 & A4 & A5 & A6 & A7 & A8 & A9 & _).
    apply IH in H as (B1 & B2 & B3 & B4 & B5 & B6 & B7 & B8 & _).
    rewrite B1, B2, B3, B4, B5, B6, B7, B8, A1, A2, A3, A4, A5, A6, A7, A8; cbn [length map repeat].
    rewrite <- !app_assoc; cbn [app]. repeat split; auto; lia.
Qed.

Lemma add_inputs_cm : forall l p p', add_inputs p l = Some p' -> cm p -> cm p'.
Proof.
  induction l as [|a l IH]; intros p p' H C; cbn in H; [inversion H; subst; auto|].
  destruct (add_input p a) as [p1|] eqn:E1; [|discriminate]. eapply IH; eauto. eapply add_input_cm; eauto.
Qed.

Lemma add_inputs_nd : forall l p p', add_inputs p l = Some p' -> nd p -> nd p'.
Proof.
  induction l as [|a l IH]; intros p p' H C; cbn in H; [inversion H; subst; auto|].
  destruct (add_input p a) as [p1|] eqn:E1; [|discriminate]. eapply IH; eauto. eapply add_input_nd; eauto.
Qed.

Lemma add_outputs_inv : forall l p p', add_outputs p l = Some p' ->
  g_nin p' = g_nin p /\ g_nout p' = g_nout p + N.of_nat (length l) /\ g_flags p' = g_flags p
  /\ g_fallback p' = g_fallback p /\ g_scalars p' = g_scalars p
  /\ p_cores p' = p_cores p /\ p_auxs p' = p_auxs p /\ p_outs p' = p_outs p ++ l
  /\ (l <> [] -> outputs_modifiable p = true).
Proof.
  induction l as [|a l IH]; intros p p' H; cbn in H.
  - inversion H; subst; cbn; rewrite !app_nil_r, N.add_0_r; repeat split; auto; congruence.
  - destruct (add_output p a) as [p1|] eqn:E1; [|discriminate].
    apply add_output_inv in E1 as (A1 & A2 & A3 & A4 & A5 & A6 & A7 & A8 & A9).
    apply IH in H as (B1 & B2 & B3 & B4 & B5 & B6 & B7 & B8 & _).
    rewrite B1, B2, B3, B4, B5, B6, B7, B8, A1, A2, A3, A4, A5, A6, A7, A8; cbn [length].
    rewrite <- !app_assoc; cbn [app]. repeat split; auto; lia.
Qed.

Lemma add_outputs_cm : forall l p p', add_outputs p l = Some p' -> cm p -> cm p'.
Proof.
  intros l p p' H [C1 C2]; apply add_outputs_inv in H as (A1 & A2 & _ & _ & _ & A6 & _ & A8 & _).
  unfold cm; rewrite A1, A2, A6, A8, app_length; split; lia.
Qed.

(* ---------- the non-structural steps keep the skeleton ---------- *)
Lemma on_input_parts : forall p i g f auxs outs sc r,
  on_input p i g f = ((auxs, outs, sc), r) -> outs = p_outs p /\ sc = g_scalars p.
Proof.
  intros p i g f auxs outs sc r H; unfold on_input in H.
  destruct (in_index p i g) as [[[n c] a]|o]; [destruct (f c a) as [a' r']|]; inversion H; auto.
Qed.

Lemma on_output_parts : forall p i f auxs outs sc r,
  on_output p i f = ((auxs, outs, sc), r) -> length outs = length (p_outs p) /\ auxs = p_auxs p /\ sc = g_scalars p.
Proof.
  intros p i f auxs outs sc r H; unfold on_output in H.
  destruct (out_index p i) as [[n o]|o]; [destruct (f o) as [o' r']|]; inversion H; subst;
    rewrite ?length_set_nth; auto.
Qed.

Lemma blind_outs_len : forall a l outs outs' d, blind_outs a l outs = (outs', d) -> length outs' = length outs.
Proof.
  intros a l; induction l as [|[i c] l IH]; intros outs outs' d H; cbn in H.
  - inversion H; auto.
  - destruct (bl_last a && match l with [] => true | _ => false end && ((bl_gfail a =? 2) || (bl_gfail a =? 3))).
    + inversion H; auto.
    + destruct (nth_error outs (N.to_nat i)) as [o|]; [|inversion H; auto].
      apply IH in H; rewrite H, length_set_nth; auto.
Qed.

Lemma do_blind_len : forall p a auxs outs sc r, do_blind p a = ((auxs, outs, sc), r) -> length outs = length (p_outs p).
Proof.
  intros p a auxs outs sc r H; unfold do_blind in H.
  repeat match type of H with
  | (if ?b then _ else _) = _ => destruct b
  | (match ?x with _ => _ end) = _ => destruct x eqn:?
  | (let '(_, _) := ?x in _) = _ => destruct x eqn:?
  end; try (inversion H; subst; auto; fail);
  try (inversion H; subst; eapply blind_outs_len; eauto).
Qed.

Lemma local_step_len : forall p o auxs outs sc r,
  local_step p o = ((auxs, outs, sc), r) -> length outs = length (p_outs p).
Proof.
  intros p o auxs outs sc r H; destruct o; cbn [local_step] in H;
    try (apply on_input_parts in H as [H _]; subst; reflexivity);
    try (apply on_output_parts in H as [H _]; exact H);
    try (inversion H; subst; reflexivity).
  - (* sign *) destruct (in_index p i true) as [[[n c] a]|o]; [|inversion H; subst; reflexivity].
    apply on_input_parts in H as [H _]; subst; reflexivity.
  - eapply do_blind_len; eauto.
  - (* finalize *)
    destruct ((i <? 0)%Z || (Z.of_nat (length (p_auxs p)) <=? i)%Z); [inversion H; subst; reflexivity|].
    destruct (nth_error (p_cores p) (Z.to_nat i)); [|inversion H; subst; reflexivity].
    destruct (nth_error (p_auxs p) (Z.to_nat i)); [|inversion H; subst; reflexivity].
    destruct (finalize_local c a); inversion H; subst; reflexivity.
  - destruct ((i <? 0)%Z || (Z.of_nat (length (p_auxs p)) <=? i)%Z); [inversion H; subst; reflexivity|].
    destruct (nth_error (p_cores p) (Z.to_nat i)); [|inversion H; subst; reflexivity].
    destruct (nth_error (p_auxs p) (Z.to_nat i)); [|inversion H; subst; reflexivity].
    destruct (maybe_finalize_local c a); inversion H; subst; reflexivity.
  - destruct (finalize_loop finalize_local (p_cores p) 0 (length (p_cores p)) (p_auxs p) (p_outs p) (g_scalars p)).
    inversion H; subst; reflexivity.
  - destruct (finalize_loop maybe_finalize_local (p_cores p) 0 (length (p_cores p)) (p_auxs p) (p_outs p) (g_scalars p)).
    inversion H; subst; reflexivity.
Qed.

Definition same_skel (p p' : pset) : Prop :=
  g_nin p' = g_nin p /\ g_nout p' = g_nout p /\ g_flags p' = g_flags p /\ g_fallback p' = g_fallback p
  /\ p_cores p' = p_cores p /\ length (p_outs p') = length (p_outs p).

Lemma same_skel_refl : forall p, same_skel p p.
Proof. intro p; unfold same_skel; repeat split; auto. Qed.

Lemma same_skel_upd : forall p auxs outs sc, length outs = length (p_outs p) -> same_skel p (upd p auxs outs sc).
Proof. intros; unfold same_skel, upd; cbn; repeat split; auto. Qed.

(* how one step relates the packet before and after *)
Inductive step_rel (p p' : pset) : Prop :=
| SR_same : same_skel p p' -> step_rel p p'
| SR_flags : forall f, p' = set_flags p f -> step_rel p p'
| SR_ins : forall l, add_inputs p l = Some p' -> step_rel p p'
| SR_outs : forall p1 p2 l, same_skel p p1 -> add_outputs p1 l = Some p2 -> same_skel p2 p' -> step_rel p p'.

Lemma local_step_rel : forall p o,
  step_rel p (let '((auxs, outs, sc), r) := local_step p o in (upd p auxs outs sc)).
Proof.
  intros p o; destruct (local_step p o) as [[[auxs outs] sc] r] eqn:E.
  apply SR_same, same_skel_upd. eapply local_step_len; eauto.
Qed.

Lemma step_rel_holds : forall p o, step_rel p (fst (step p o)).
Proof.
  intros p o.
  assert (forall o', step p o' = (let '((auxs, outs, sc), r) := local_step p o' in (upd p auxs outs sc, r)) ->
          step_rel p (fst (step p o'))) as Hloc.
  { intros o' E; rewrite E. pose proof (local_step_rel p o') as H.
    destruct (local_step p o') as [[[auxs outs] sc] r]; exact H. }
  destruct o; try (apply Hloc; reflexivity).
  - (* setmod *) cbn. eapply SR_flags; reflexivity.
  - (* AddInputs *) cbn [step].
    destruct (negb (forallb (fun a => ia_cls a =? 0) l)); [apply SR_same, same_skel_refl|].
    destruct (add_inputs p l) as [p'|] eqn:E; [|apply SR_same, same_skel_refl].
    cbn [fst]. eapply SR_ins; eauto.
  - (* AddOutputs *) cbn [step].
    destruct (negb (forallb outarg_valid l)); [apply SR_same, same_skel_refl|].
    destruct (add_outputs p (map to_outp l)) as [p'|] eqn:E; [|apply SR_same, same_skel_refl].
    cbn [fst]. eapply SR_outs; [apply same_skel_refl|eauto|apply same_skel_refl].
  - (* AddInIssuance *) cbn [step]; unfold do_issue.
    destruct (negb (issue_validate a)); [apply SR_same, same_skel_refl|].
    destruct (p_cores p) eqn:Ecs; [apply SR_same, same_skel_refl|].
    destruct (in_index p i true) as [[[n c0] ax]|o]; [|apply SR_same, same_skel_refl].
    destruct (a_entropy ax); [apply SR_same, same_skel_refl|].
    destruct (c_short c0); [apply SR_same, same_skel_refl|].
    match goal with |- context[add_outputs ?p1 ?l] => destruct (add_outputs p1 l) as [p2|] eqn:E end.
    + cbn [fst]. eapply SR_outs; [|eauto|apply same_skel_refl]. apply same_skel_upd; reflexivity.
    + cbn [fst]. apply SR_same, same_skel_upd; reflexivity.
  - (* AddInReissuance *) cbn [step]; unfold do_reissue.
    destruct (in_index p i true) as [[[n c0] ax]|o]; [|apply SR_same, same_skel_refl].
    destruct (a_entropy ax); [apply SR_same, same_skel_refl|].
    destruct (negb (reissue_validate a)); [apply SR_same, same_skel_refl|].
    match goal with |- context[add_outputs ?p1 ?l] => destruct (add_outputs p1 l) as [p2|] eqn:E end.
    + cbn [fst]. eapply SR_outs; [apply same_skel_refl|eauto|]. apply same_skel_upd; reflexivity.
    + apply SR_same, same_skel_refl.
Qed.

(* ---------- invariants over one step ---------- *)
Lemma same_skel_cm : forall p p', same_skel p p' -> cm p -> cm p'.
Proof. intros p p' (A1 & A2 & _ & _ & A5 & A6) [C1 C2]; unfold cm; rewrite A1, A2, A5, A6; auto. Qed.

Lemma same_skel_nd : forall p p', same_skel p p' -> nd p -> nd p'.
Proof. intros p p' (_ & _ & _ & _ & A5 & _) H; unfold nd in *; rewrite A5; auto. Qed.

Lemma step_cm : forall p o, cm p -> cm (fst (step p o)).
Proof.
  intros p o C; destruct (step_rel_holds p o) as [H|f H|l H|p1 p2 l H1 H2 H3].
  - eapply same_skel_cm; eauto.
  - rewrite H; exact C.
  - eapply add_inputs_cm; eauto.
  - eapply same_skel_cm; eauto. eapply add_outputs_cm; eauto. eapply same_skel_cm; eauto.
Qed.

Lemma step_nd : forall p o, nd p -> nd (fst (step p o)).
Proof.
  intros p o C; destruct (step_rel_holds p o) as [H|f H|l H|p1 p2 l H1 H2 H3].
  - eapply same_skel_nd; eauto.
  - rewrite H; exact C.
  - eapply add_inputs_nd; eauto.
  - eapply same_skel_nd; eauto.
    apply add_outputs_inv in H2 as (_ & _ & _ & _ & _ & A6 & _). unfold nd; rewrite A6.
    eapply same_skel_nd; eauto.
Qed.

(* ---------- the creator ---------- *)
Lemma new_outs_inv : forall l p p', new_outs p l = IOk p' -> exists l', add_outputs p l' = Some p'.
Proof.
  induction l as [|a l IH]; intros p p' H; cbn in H.
  - inversion H; subst; exists []; reflexivity.
  - destruct (oa_cls a =? 2); [discriminate|].
    destruct (add_output p (to_outp a)) as [p1|] eqn:E; [|discriminate].
    apply IH in H as [l' H]. exists (to_outp a :: l'); cbn; rewrite E; exact H.
Qed.

Lemma init_cm : forall ins outs fb p0, init ins outs fb = IOk p0 -> cm p0.
Proof.
  intros ins outs fb p0 H; unfold init in H.
  destruct (add_inputs (empty_pset fb) ins) as [p|] eqn:E; [|discriminate].
  apply new_outs_inv in H as [l' H]. eapply add_outputs_cm; eauto. eapply add_inputs_cm; eauto.
  unfold cm; cbn; auto.
Qed.

Lemma init_nd : forall ins outs fb p0, init ins outs fb = IOk p0 -> nd p0.
Proof.
  intros ins outs fb p0 H; unfold init in H.
  destruct (add_inputs (empty_pset fb) ins) as [p|] eqn:E; [|discriminate].
  apply new_outs_inv in H as [l' H].
  apply add_outputs_inv in H as (_ & _ & _ & _ & _ & A6 & _). unfold nd; rewrite A6.
  eapply add_inputs_nd; eauto. unfold nd; cbn; constructor.
Qed.

Lemma run_inv : forall (P : pset -> Prop), (forall p o, P p -> P (fst (step p o))) ->
  forall ops p, P p -> P (run p ops).
Proof.
  intros P Hs; induction ops as [|o ops IH]; intros p Hp; cbn; auto. apply IH, Hs, Hp.
Qed.

(* ===== C11 clause 1: the declared counts are the actual numbers ===== *)
Theorem counts_match : forall ins outs fb p0 ops, init ins outs fb = IOk p0 ->
  let p := run p0 ops in
  g_nin p = N.of_nat (length (p_cores p)) /\ g_nout p = N.of_nat (length (p_outs p)).
Proof. intros ins outs fb p0 ops H. apply (run_inv cm step_cm). eapply init_cm; eauto. Qed.

(* ===== C11 clause 2: no two inputs spend the same outpoint ===== *)
Theorem no_duplicate_outpoints : forall ins outs fb p0 ops, init ins outs fb = IOk p0 ->
  NoDup (map outpoint (p_cores (run p0 ops))).
Proof. intros ins outs fb p0 ops H. apply (run_inv nd step_nd). eapply init_nd; eauto. Qed.

(* ===== C11 clause 3: nothing is added once the matching modifiable flag is clear (any state, any operation) ===== *)
Theorem modifiable_respected : forall p o,
  (inputs_modifiable p = false -> p_cores (fst (step p o)) = p_cores p)
  /\ (outputs_modifiable p = false -> length (p_outs (fst (step p o))) = length (p_outs p)).
Proof.
  intros p o; destruct (step_rel_holds p o) as [H|f H|l H|p1 p2 l H1 H2 H3]; split; intro Hm.
  - destruct H as (_ & _ & _ & _ & A5 & _); auto.
  - destruct H as (_ & _ & _ & _ & _ & A6); auto.
  - rewrite H; reflexivity.
  - rewrite H; reflexivity.
  - apply add_inputs_inv in H as (_ & _ & _ & _ & _ & A6 & _ & _ & A9).
    destruct l as [|a l]; [rewrite A6; cbn; apply app_nil_r|]. rewrite A9 in Hm; [discriminate|congruence].
  - apply add_inputs_inv in H as (_ & _ & _ & _ & _ & _ & _ & A8 & _). rewrite A8; reflexivity.
  - destruct H1 as (_ & _ & _ & _ & B5 & _), H3 as (_ & _ & _ & _ & C5 & _).
    apply add_outputs_inv in H2 as (_ & _ & _ & _ & _ & A6 & _). congruence.
  - destruct H1 as (_ & _ & B3 & _ & _ & B6), H3 as (_ & _ & _ & _ & _ & C6).
    apply add_outputs_inv in H2 as (_ & _ & _ & _ & _ & _ & _ & A8 & A9).
    destruct l as [|a l].
    + rewrite C6, A8, app_nil_r; auto.
    + unfold outputs_modifiable in *. rewrite B3 in A9. rewrite A9 in Hm; [discriminate|congruence].
Qed.
