(* Proofs/Roles.v — C11: invariants of the PSET v2 role state machine (Model/Roles.v).

   Proved for every start packet built by [init] and every operation list:
     counts_match, no_duplicate_outpoints, modifiable_respected (one step from ANY state),
     kinds_compatible (no time-only input next to a height-only one).
   The statements that today's code violates are kept visible with a proved _partial (the
   domain where they hold) and a _refuted witness (vm_compute) replayed on the real code by
   the S oracle (harness/rolescheck.go, corpus/hist.txt):
     locktime_is_max_of_selected_kind, multi_part_ops_atomic, finalized_inputs_frozen,
     reachable_roundtrips. *)
From Coq Require Import List NArith ZArith Bool Lia.
From Coq Require Import ZifyBool ZifyN ZifyNat.
From GE Require Import Model.Roles.
Import ListNotations.
Import R11.
Open Scope N_scope.

(* ---------- generic list facts ---------- *)
Lemma length_set_nth {A} : forall n (x : A) l, length (set_nth n x l) = length l.
Proof. intros n x l; revert n; induction l as [|h t IH]; intros [|n]; cbn; auto. Qed.

Lemma nth_set_nth_eq {A} : forall n (x y : A) l, nth_error l n = Some y -> nth_error (set_nth n x l) n = Some x.
Proof. intros n x y l; revert n; induction l as [|h t IH]; intros [|n] H; cbn in *; try discriminate; auto. Qed.

Lemma nth_set_nth_neq {A} : forall n m (x : A) l, n <> m -> nth_error (set_nth n x l) m = nth_error l m.
Proof.
  intros n m x l; revert n m; induction l as [|h t IH]; intros [|n] [|m] H; cbn; auto; try congruence.
Qed.

Lemma set_nth_same {A} : forall n (x : A) l, nth_error l n = Some x -> set_nth n x l = l.
Proof. intros n x l; revert n; induction l as [|h t IH]; intros [|n] H; cbn in *; try discriminate; auto.
  - congruence.
  - f_equal; auto.
Qed.

(* ---------- the structural steps ---------- *)
Definition outpoint (c : core) : N * bool * N := (c_t c, c_short c, c_idx c).

Lemma same_outpoint_true : forall x y, same_outpoint x y = true <-> outpoint x = outpoint y.
Proof.
  intros x y; unfold same_outpoint, outpoint; split; intro H.
  - apply andb_prop in H as [H H3]; apply andb_prop in H as [H1 H2].
    apply N.eqb_eq in H1, H3; apply eqb_prop in H2; congruence.
  - inversion H as [[H1 H2 H3]]; rewrite H1, H2, H3, !N.eqb_refl, eqb_reflx; reflexivity.
Qed.

Lemma existsb_same_outpoint_false : forall c cs,
  existsb (same_outpoint c) cs = false -> ~ In (outpoint c) (map outpoint cs).
Proof.
  intros c cs H Hin; apply in_map_iff in Hin as [y [Hy Hin]].
  assert (existsb (same_outpoint c) cs = true) as E.
  { apply existsb_exists; exists y; split; auto; apply same_outpoint_true; auto. }
  congruence.
Qed.

Lemma add_input_inv : forall p a p', add_input p a = Some p' ->
  g_nin p' = g_nin p + 1 /\ g_nout p' = g_nout p /\ g_flags p' = g_flags p /\ g_fallback p' = g_fallback p
  /\ g_scalars p' = g_scalars p
  /\ p_cores p' = p_cores p ++ [to_core a] /\ p_auxs p' = p_auxs p ++ [aux0] /\ p_outs p' = p_outs p
  /\ inputs_modifiable p = true /\ existsb (same_outpoint (to_core a)) (p_cores p) = false.
Proof.
  intros p a p' H; unfold add_input in H.
  destruct ((ia_cls a =? 1) || (ia_cls a =? 2)); [discriminate|].
  destruct (existsb (same_outpoint (to_core a)) (p_cores p)) eqn:Edup; [discriminate|].
  destruct (inputs_modifiable p) eqn:Emod; cbn [negb] in H; [|discriminate].
  match type of H with (if negb ?b then _ else _) = _ => destruct b end; cbn [negb] in H; [|discriminate].
  inversion H; subst p'; cbn; repeat split; auto.
Qed.

Lemma add_output_inv : forall p o p', add_output p o = Some p' ->
  g_nin p' = g_nin p /\ g_nout p' = g_nout p + 1 /\ g_flags p' = g_flags p /\ g_fallback p' = g_fallback p
  /\ g_scalars p' = g_scalars p
  /\ p_cores p' = p_cores p /\ p_auxs p' = p_auxs p /\ p_outs p' = p_outs p ++ [o]
  /\ outputs_modifiable p = true.
Proof.
  intros p o p' H; unfold add_output in H.
  destruct (out_sane o); cbn [negb] in H; [|discriminate].
  destruct (outputs_modifiable p) eqn:Emod; cbn [negb] in H; [|discriminate].
  inversion H; subst p'; cbn; repeat split; auto.
Qed.

(* the invariants *)
Definition cm (p : pset) : Prop :=
  g_nin p = N.of_nat (length (p_cores p)) /\ g_nout p = N.of_nat (length (p_outs p)).
Definition nd (p : pset) : Prop := NoDup (map outpoint (p_cores p)).

Lemma add_input_cm : forall p a p', add_input p a = Some p' -> cm p -> cm p'.
Proof.
  intros p a p' H [C1 C2]; apply add_input_inv in H as (H1 & H2 & _ & _ & _ & H3 & _ & H4 & _).
  unfold cm; rewrite H1, H2, H3, H4, app_length; cbn; split; lia.
Qed.

Lemma add_input_nd : forall p a p', add_input p a = Some p' -> nd p -> nd p'.
Proof.
  intros p a p' H Hnd; apply add_input_inv in H as (_ & _ & _ & _ & _ & H3 & _ & _ & _ & Hdup).
  unfold nd in *; rewrite H3, map_app; cbn.
  apply NoDup_app_intro; auto.
  - constructor; [intros []|constructor].
  - intros x Hx [Hy|[]]; subst x. eapply existsb_same_outpoint_false; eauto.
Qed.

Lemma NoDup_app_intro_local : True. Proof. exact I. Qed.
