(* Proofs/Decoders.v — decoder-level facts for the transaction and block parsers (C12):
   acceptance is stable under extension of the input (so no strict prefix of an accepted
   complete encoding is itself accepted as complete), every length field is checked against
   the bytes that are actually there before anything is taken, and what is accepted is never
   larger than the input it was read from. *)
From GE Require Import Lib.Bytes Lib.Varint Model.Tx Model.Block Proofs.TxCodec Proofs.BlockCodec.
From Coq Require Import ZifyBool ZifyN ZifyNat.
Open Scope N_scope.

(* a parser is extension-stable: success on bs implies the same value on bs ++ s, rest extended by s *)
Definition stable {A} (p : parser A) : Prop :=
  forall bs a r s, p bs = Some (a, r) -> p (bs ++ s) = Some (a, r ++ s).

Lemma stable_ret {A} (a : A) : stable (ret a).
Proof. intros bs x r s H. unfold ret in *. inversion H; subst. reflexivity. Qed.

Lemma stable_bind {A B} (p : parser A) (f : A -> parser B) :
  stable p -> (forall a, stable (f a)) -> stable (bind p f).
Proof.
  intros Hp Hf bs b r s H. unfold bind in *. destruct (p bs) as [[a r1]|] eqn:E; [|discriminate].
  rewrite (Hp _ _ _ s E). apply Hf. exact H.
Qed.

Lemma stable_take n : stable (take n).
Proof.
  intros bs a r s H. apply take_inv in H as [-> L]. rewrite <- app_assoc. apply take_app_n. exact L.
Qed.

Lemma stable_takeN n : stable (takeN n).
Proof.
  intros bs a r s H. apply takeN_inv in H as [-> L]. rewrite <- app_assoc. rewrite <- L. apply takeN_app.
Qed.

Lemma stable_p_u8 : stable p_u8.
Proof. intros [|b bs] a r s H; [discriminate|]. cbn in *. inversion H; subst. reflexivity. Qed.

Lemma stable_p_le n : stable (p_le n).
Proof.
  intros bs a r s H. unfold p_le in *. destruct (take n bs) as [[x r1]|] eqn:E; [|discriminate].
  rewrite (stable_take n _ _ _ s E). inversion H; subst. reflexivity.
Qed.

Lemma stable_p_varint : stable p_varint.
Proof.
  intros bs a r s H. apply p_varint_inv in H as [-> Hv]. rewrite <- app_assoc. apply p_varint_app. exact Hv.
Qed.

Lemma stable_p_var_slice : stable p_var_slice.
Proof. apply stable_bind; [apply stable_p_varint | intro; apply stable_takeN]. Qed.

Lemma stable_p_count {A} (p : parser A) : stable p ->
  forall fuel fuel' n bs l r s, (fuel <= fuel')%nat ->
  p_count p fuel n bs = Some (l, r) -> p_count p fuel' n (bs ++ s) = Some (l, r ++ s).
Proof.
  intros Hp. induction fuel as [|f IH]; intros fuel' n bs l r s Hf H; cbn [p_count] in H.
  - destruct (N.eqb_spec n 0) as [->|]; [|discriminate]. inversion H; subst. destruct fuel'; reflexivity.
  - destruct fuel' as [|f']; [lia|]. cbn [p_count]. destruct (N.eqb_spec n 0). { inversion H; subst. reflexivity. }
    destruct (p bs) as [[a r1]|] eqn:E; [|discriminate]. rewrite (Hp _ _ _ s E).
    destruct (p_count p f (N.pred n) r1) as [[l1 r2]|] eqn:C; [|discriminate].
    rewrite (IH f' (N.pred n) r1 l1 r2 s) by (try lia; exact C). inversion H; subst. reflexivity.
Qed.

Lemma stable_p_list {A} (p : parser A) n : stable p -> stable (p_list p n).
Proof.
  intros Hp bs l r s H. unfold p_list in *. apply (stable_p_count p Hp (length bs)); [rewrite app_length; lia | exact H].
Qed.

Lemma stable_p_vector : stable p_vector.
Proof. apply stable_bind; [apply stable_p_varint | intro; apply stable_p_list; apply stable_p_var_slice]. Qed.

Lemma stable_of_inv {A} (p : parser A) (e : A -> bytes) (Q : A -> Prop) :
  (forall bs a r, p bs = Some (a, r) -> bs = e a ++ r /\ Q a) ->
  (forall a r, Q a -> p (e a ++ r) = Some (a, r)) -> stable p.
Proof.
  intros Hinv Happ bs a r s H. apply Hinv in H as [-> Qa]. rewrite <- app_assoc. apply Happ. exact Qa.
Qed.

Lemma stable_p_value : stable p_value.
Proof. apply (stable_of_inv p_value (fun x => x) (fun x => is_value x = true)); [apply p_value_inv | intros; apply p_value_app; assumption]. Qed.
Lemma stable_p_asset : stable p_asset.
Proof. apply (stable_of_inv p_asset (fun x => x) (fun x => is_asset x = true)); [apply p_asset_inv | intros; apply p_asset_app; assumption]. Qed.
Lemma stable_p_nonce : stable p_nonce.
Proof. apply (stable_of_inv p_nonce (fun x => x) (fun x => is_nonce x = true)); [apply p_nonce_inv | intros; apply p_nonce_app; assumption]. Qed.

Lemma stable_p_issuance : stable p_issuance.
Proof.
  unfold p_issuance. repeat (apply stable_bind; [first [apply stable_take | apply stable_p_value] | intro]). apply stable_ret.
Qed.

Lemma stable_p_in : stable p_in.
Proof.
  unfold p_in. apply stable_bind; [apply stable_take | intro h].
  apply stable_bind; [apply stable_p_le | intro idx]. apply stable_bind; [apply stable_p_var_slice | intro scr].
  apply stable_bind; [apply stable_p_le | intro sq].
  destruct (idx =? MinusOne); [apply stable_ret|].
  apply stable_bind; [|intro; apply stable_ret].
  destruct (N.testbit idx 31); [|apply stable_ret]. apply stable_bind; [apply stable_p_issuance | intro; apply stable_ret].
Qed.

Lemma stable_p_out : stable p_out.
Proof.
  unfold p_out. apply stable_bind; [apply stable_p_asset | intro]. apply stable_bind; [apply stable_p_value | intro].
  apply stable_bind; [apply stable_p_nonce | intro]. apply stable_bind; [apply stable_p_var_slice | intro]. apply stable_ret.
Qed.

Lemma stable_p_in_wit : stable p_in_wit.
Proof.
  unfold p_in_wit. apply stable_bind; [apply stable_p_var_slice | intro]. apply stable_bind; [apply stable_p_var_slice | intro].
  apply stable_bind; [apply stable_p_vector | intro]. apply stable_bind; [apply stable_p_vector | intro]. apply stable_ret.
Qed.

Lemma stable_p_out_wit : stable p_out_wit.
Proof. unfold p_out_wit. apply stable_bind; [apply stable_p_var_slice | intro]. apply stable_bind; [apply stable_p_var_slice | intro]. apply stable_ret. Qed.

Theorem stable_parse_tx : stable parse_tx.
Proof.
  unfold parse_tx. apply stable_bind; [apply stable_p_le | intro ver]. apply stable_bind; [apply stable_p_u8 | intro flag].
  apply stable_bind; [apply stable_p_varint | intro nin]. apply stable_bind; [apply stable_p_list, stable_p_in | intro ins].
  apply stable_bind; [apply stable_p_varint | intro nout]. apply stable_bind; [apply stable_p_list, stable_p_out | intro outs].
  apply stable_bind; [apply stable_p_le | intro lt].
  destruct (flag =? 1); [|apply stable_ret].
  apply stable_bind; [apply stable_p_list, stable_p_in_wit | intro]. apply stable_bind; [apply stable_p_list, stable_p_out_wit | intro].
  apply stable_ret.
Qed.

(* a transaction decoder never accepts a strict prefix of something it accepts completely *)
Theorem tx_no_strict_prefix bs t pre suf :
  parse_tx bs = Some (t, []) -> bs = pre ++ suf -> suf <> [] -> forall t' , parse_tx pre <> Some (t', []).
Proof.
  intros H -> Hs t' H'. pose proof (stable_parse_tx _ _ _ suf H') as E. rewrite H in E. inversion E; subst. cbn in *. congruence.
Qed.

(* in particular no strict prefix of a well-formed transaction's serialization is accepted at all
   with nothing left over, and a prefix that is accepted with a remainder re-creates the same bytes *)
Theorem tx_strict_prefix_rejected t pre suf : wf_tx t = true ->
  ser_full t = pre ++ suf -> suf <> [] -> parse_tx pre = None.
Proof.
  intros W E Hs. destruct (parse_tx pre) as [[t' r']|] eqn:P; [|reflexivity]. exfalso.
  pose proof (stable_parse_tx _ _ _ suf P) as S. rewrite <- E in S.
  pose proof (tx_parse_ser t [] W) as Q. rewrite app_nil_r in Q. rewrite Q in S. inversion S as [[A B]].
  symmetry in B. apply app_eq_nil in B as [_ B]. exact (Hs B).
Qed.

(* headers and blocks *)
Lemma stable_p_dparams : stable p_dparams.
Proof.
  apply (stable_of_inv p_dparams ser_dparams (fun p => wf_dparams p = true)); [apply p_dparams_inv | intros; apply p_dparams_app; assumption].
Qed.

Lemma stable_p_ext d : stable (p_ext d).
Proof.
  destruct d; cbn [p_ext].
  - apply stable_bind; [apply stable_p_dparams | intro]. apply stable_bind; [apply stable_p_dparams | intro].
    apply stable_bind; [apply stable_p_vector | intro]. apply stable_ret.
  - apply stable_bind; [apply stable_p_var_slice | intro]. apply stable_bind; [apply stable_p_var_slice | intro]. apply stable_ret.
Qed.

Theorem stable_parse_header : stable parse_header.
Proof.
  unfold parse_header. apply stable_bind; [apply stable_p_le | intro v].
  apply stable_bind; [apply stable_take | intro]. apply stable_bind; [apply stable_take | intro].
  apply stable_bind; [apply stable_p_le | intro]. apply stable_bind; [apply stable_p_le | intro].
  apply stable_bind; [apply stable_p_ext | intro]. apply stable_ret.
Qed.

Theorem stable_parse_block : stable parse_block.
Proof.
  unfold parse_block. apply stable_bind; [apply stable_parse_header | intro]. apply stable_bind; [apply stable_p_varint | intro].
  apply stable_bind; [apply stable_p_list, stable_parse_tx | intro]. apply stable_ret.
Qed.

Theorem block_strict_prefix_rejected b pre suf : wf_block b = true ->
  ser_block b = pre ++ suf -> suf <> [] -> parse_block pre = None.
Proof.
  intros W E Hs. destruct (parse_block pre) as [[b' r']|] eqn:P; [|reflexivity]. exfalso.
  pose proof (stable_parse_block _ _ _ suf P) as S. rewrite <- E in S.
  pose proof (block_parse_ser b [] W) as Q. rewrite app_nil_r in Q. rewrite Q in S. inversion S as [[A B]].
  symmetry in B. apply app_eq_nil in B as [_ B]. exact (Hs B).
Qed.

Theorem header_strict_prefix_rejected h pre suf : wf_header h = true ->
  ser_header false h = pre ++ suf -> suf <> [] -> parse_header pre = None.
Proof.
  intros W E Hs. destruct (parse_header pre) as [[h' r']|] eqn:P; [|reflexivity]. exfalso.
  pose proof (stable_parse_header _ _ _ suf P) as S. rewrite <- E in S.
  pose proof (header_parse_ser h [] W) as Q. rewrite app_nil_r in Q. rewrite Q in S. inversion S as [[A B]].
  symmetry in B. apply app_eq_nil in B as [_ B]. exact (Hs B).
Qed.

(* every length field is compared with the bytes actually present before anything is taken:
   a slice the decoder hands out is never longer than its input *)
Theorem takeN_bounded n bs x r : takeN n bs = Some (x, r) -> n <= lenN bs /\ lenN x = n.
Proof.
  intro H. apply takeN_inv in H as [-> L]. split; [rewrite lenN_app; unfold lenN in *; lia | exact L].
Qed.

(* what is accepted (with a canonical flag) occupies exactly the bytes consumed: the value a decoder
   returns is never larger than the input *)
Theorem tx_accepted_size bs t rest : parse_tx bs = Some (t, rest) -> canonical_flag t = true ->
  lenN (ser_full t) + lenN rest = lenN bs.
Proof. intros H C. rewrite <- (tx_ser_parse bs t rest H C), lenN_app. reflexivity. Qed.

Theorem header_accepted_size bs h rest : parse_header bs = Some (h, rest) ->
  lenN (ser_header false h) + lenN rest = lenN bs.
Proof. intro H. destruct (header_ser_parse bs h rest H) as [<- _]. rewrite lenN_app. reflexivity. Qed.
