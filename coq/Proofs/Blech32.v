(* Proofs/Blech32.v — C15: the blech32 checksum is GF(2)-linear, checksums verify,
   every 1- and 2-symbol substitution of a valid string is rejected (any hrp, any
   length the decoder admits), the constant is selected by the witness version,
   case rules. *)
From Coq Require Import FMapPositive.
From GE Require Import Lib.Bytes Gen.Blech32Consts Model.Blech32.
From Coq Require Import ZifyBool ZifyN ZifyNat.
Open Scope N_scope.

Arguments polymod_step : simpl never.
Arguments N.shiftl : simpl never.
Arguments N.shiftr : simpl never.
Arguments N.land : simpl never.
Arguments N.lxor : simpl never.
Arguments N.testbit : simpl never.

(* ------------------------------------------------------------------ *)
(* constants of today's source                                         *)
(* ------------------------------------------------------------------ *)
Lemma gen_length : length gen = 5%nat. Proof. reflexivity. Qed.
Lemma charset_length : length charset = 32%nat. Proof. reflexivity. Qed.
Lemma consts_nonneg : (0 <= g_BLECH32)%Z /\ (0 <= g_BLECH32M)%Z /\ Forall (fun z => 0 <= z)%Z g_gen.
Proof. repeat split; try (vm_compute; discriminate). repeat constructor; vm_compute; discriminate. Qed.
Lemma gen_bound : Forall (fun g => g < 2 ^ 60) gen.
Proof. repeat constructor. Qed.
Lemma consts_bound : BLECH32 < 2 ^ 60 /\ BLECH32M < 2 ^ 60 /\ BLECH32 <> BLECH32M.
Proof. repeat split; try reflexivity. vm_compute; discriminate. Qed.

(* ------------------------------------------------------------------ *)
(* xor algebra                                                         *)
(* ------------------------------------------------------------------ *)
Ltac xor_bits :=
  let k := fresh "k" in
  apply N.bits_inj; intro k;
  repeat rewrite ?N.lxor_spec, ?N.land_spec;
  repeat match goal with |- context [N.testbit ?a k] =>
    is_var a; destruct (N.testbit a k) end; reflexivity.

Lemma lxor_swap4 a b c d : N.lxor (N.lxor a b) (N.lxor c d) = N.lxor (N.lxor a c) (N.lxor b d).
Proof. xor_bits. Qed.
Lemma lxor_cancel_r a b g : N.lxor (N.lxor a g) (N.lxor b g) = N.lxor a b.
Proof. xor_bits. Qed.
Lemma lxor_move_l a b g : N.lxor (N.lxor a g) b = N.lxor (N.lxor a b) g.
Proof. xor_bits. Qed.
Lemma lxor_move_r a b g : N.lxor a (N.lxor b g) = N.lxor (N.lxor a b) g.
Proof. xor_bits. Qed.
Lemma land_lxor_l a b m : N.land (N.lxor a b) m = N.lxor (N.land a m) (N.land b m).
Proof. xor_bits. Qed.
Lemma lxor_eq_l a b c : N.lxor a b = N.lxor a c -> b = c.
Proof.
  intro H. apply (f_equal (N.lxor a)) in H.
  rewrite <- !N.lxor_assoc, !N.lxor_nilpotent, !N.lxor_0_l in H. exact H.
Qed.
Lemma lxor_self_inv a b : N.lxor a b = a -> b = 0.
Proof. intro H. apply (lxor_eq_l a). rewrite N.lxor_0_r. exact H. Qed.

(* ------------------------------------------------------------------ *)
(* linearity of one step and of the fold                               *)
(* ------------------------------------------------------------------ *)
Lemma apply_gen_linear gs : forall b b' i a a',
  apply_gen (N.lxor b b') gs i (N.lxor a a') = N.lxor (apply_gen b gs i a) (apply_gen b' gs i a').
Proof.
  induction gs as [|g gs IH]; intros b b' i a a'; cbn [apply_gen]; [reflexivity|].
  rewrite N.lxor_spec.
  destruct (N.testbit b i), (N.testbit b' i); cbn [xorb].
  - rewrite <- (lxor_cancel_r a a' g). apply IH.
  - rewrite <- IH. f_equal. apply lxor_move_l.
  - rewrite <- IH. f_equal. symmetry. apply lxor_move_r.
  - apply IH.
Qed.

Theorem polymod_step_linear c c' v v' :
  polymod_step (N.lxor c c') (N.lxor v v') = N.lxor (polymod_step c v) (polymod_step c' v').
Proof.
  unfold polymod_step.
  rewrite N.shiftr_lxor, land_lxor_l, N.shiftl_lxor, lxor_swap4.
  apply apply_gen_linear.
Qed.

Lemma apply_gen_zero gs : forall i a, apply_gen 0 gs i a = a.
Proof. induction gs as [|g gs IH]; intros i a; cbn [apply_gen]; [reflexivity|]. rewrite N.bits_0. apply IH. Qed.

Lemma polymod_step_0 v : polymod_step 0 v = v.
Proof. unfold polymod_step. rewrite N.shiftr_0_l, N.land_0_l, N.shiftl_0_l, N.lxor_0_l. apply apply_gen_zero. Qed.

(* symbol-wise xor of two value lists (zip, truncating) *)
Fixpoint xor_list (a b : list N) : list N :=
  match a, b with
  | x :: a', y :: b' => N.lxor x y :: xor_list a' b'
  | _, _ => []
  end.

Theorem polymod_linear : forall vs ws c d, length vs = length ws ->
  polymod_from (N.lxor c d) (xor_list vs ws) = N.lxor (polymod_from c vs) (polymod_from d ws).
Proof.
  unfold polymod_from.
  induction vs as [|v vs IH]; intros [|w ws] c d L; cbn in L; try discriminate; cbn [xor_list fold_left].
  - reflexivity.
  - rewrite polymod_step_linear. apply IH. congruence.
Qed.

(* the form used below: a change of the running value propagates through zeros *)
Definition step0 (c : N) : N := polymod_step c 0.
Fixpoint shift (j : nat) (e : N) : N :=
  match j with O => e | S k => shift k (step0 e) end.

Lemma step0_lxor a b : step0 (N.lxor a b) = N.lxor (step0 a) (step0 b).
Proof. unfold step0. rewrite <- (N.lxor_0_r 0) at 1. apply polymod_step_linear. Qed.

Lemma polymod_from_xor : forall vs c d,
  polymod_from (N.lxor c d) vs = N.lxor (polymod_from c vs) (shift (length vs) d).
Proof.
  unfold polymod_from.
  induction vs as [|v vs IH]; intros c d; cbn [fold_left length shift].
  - reflexivity.
  - replace (polymod_step (N.lxor c d) v) with (N.lxor (polymod_step c v) (step0 d)).
    + apply IH.
    + unfold step0. rewrite <- polymod_step_linear, N.lxor_0_r. reflexivity.
Qed.

Lemma shift_0 j : shift j 0 = 0.
Proof. induction j as [|j IH]; cbn [shift]; [reflexivity|]. unfold step0. rewrite polymod_step_0. exact IH. Qed.

Lemma shift_lxor j : forall a b, shift j (N.lxor a b) = N.lxor (shift j a) (shift j b).
Proof. induction j as [|j IH]; intros a b; cbn [shift]; [reflexivity|]. rewrite step0_lxor. apply IH. Qed.

(* ------------------------------------------------------------------ *)
(* no int64 overflow: every running value stays below 2^60              *)
(* ------------------------------------------------------------------ *)
Lemma log2_lt_of_lt a n : 0 < n -> a < 2 ^ n -> N.log2 a < n.
Proof.
  intros Hn H. destruct (N.eq_dec a 0) as [->|Ha]; [cbn; exact Hn|].
  apply N.log2_lt_pow2; lia.
Qed.

Lemma lxor_lt_pow2 a b n : a < 2 ^ n -> b < 2 ^ n -> N.lxor a b < 2 ^ n.
Proof.
  intros Ha Hb. destruct (N.eq_dec n 0) as [->|Hn].
  - change (2 ^ 0) with 1 in *. assert (a = 0) by lia. assert (b = 0) by lia. subst. rewrite N.lxor_0_l. lia.
  - destruct (N.eq_dec (N.lxor a b) 0) as [E|E]; [rewrite E; apply N.neq_0_lt_0; apply N.pow_nonzero; lia|].
    apply N.log2_lt_pow2; [lia|].
    pose proof (N.log2_lxor a b) as L.
    pose proof (log2_lt_of_lt a n ltac:(lia) Ha). pose proof (log2_lt_of_lt b n ltac:(lia) Hb). lia.
Qed.

Lemma apply_gen_bound gs : forall b i a, Forall (fun g => g < 2 ^ 60) gs -> a < 2 ^ 60 -> apply_gen b gs i a < 2 ^ 60.
Proof.
  induction gs as [|g gs IH]; intros b i a F Ha; cbn [apply_gen]; [exact Ha|].
  inversion F as [|g' gs' Hg F']; subst. apply IH; [exact F'|].
  destruct (N.testbit b i); [apply lxor_lt_pow2; assumption | exact Ha].
Qed.

Lemma land_mask55 c : N.land c mask55 = c mod 2 ^ 55.
Proof. change mask55 with (N.ones 55). apply N.land_ones. Qed.

Theorem polymod_step_bound c v : v < 2 ^ 60 -> polymod_step c v < 2 ^ 60.
Proof.
  intro Hv. unfold polymod_step. apply apply_gen_bound; [exact gen_bound|].
  apply lxor_lt_pow2; [|exact Hv].
  rewrite land_mask55, N.shiftl_mul_pow2.
  assert (c mod 2 ^ 55 < 2 ^ 55) by (apply N.mod_lt; discriminate).
  change (2 ^ 60) with (2 ^ 55 * 2 ^ 5). apply N.mul_lt_mono_pos_r; [reflexivity | assumption].
Qed.

Theorem polymod_from_bound vs : forall c, c < 2 ^ 60 -> Forall (fun v => v < 2 ^ 60) vs -> polymod_from c vs < 2 ^ 60.
Proof.
  unfold polymod_from. induction vs as [|v vs IH]; intros c Hc F; cbn [fold_left]; [exact Hc|].
  inversion F as [|v' vs' Hv F']; subst. apply IH; [apply polymod_step_bound; exact Hv | exact F'].
Qed.

(* ------------------------------------------------------------------ *)
(* checksum correctness                                                *)
(* ------------------------------------------------------------------ *)
Lemma testbit_small v k : v < 2 ^ 5 -> 5 <= k -> N.testbit v k = false.
Proof. intros Hv Hk. apply N.bits_above_log2. pose proof (log2_lt_of_lt v 5 ltac:(lia) Hv). lia. Qed.

Lemma step_small c v : c < 2 ^ 55 -> v < 32 -> polymod_step c v = c * 32 + v.
Proof.
  intros Hc Hv. unfold polymod_step.
  rewrite N.shiftr_div_pow2, (N.div_small c) by exact Hc. rewrite apply_gen_zero.
  rewrite land_mask55, N.mod_small by exact Hc. rewrite N.shiftl_mul_pow2. change (2 ^ 5) with 32.
  symmetry. apply N.add_nocarry_lxor.
  apply N.bits_inj; intro k. rewrite N.land_spec, N.bits_0.
  destruct (N.ltb_spec k 5) as [Hk|Hk].
  - change 32 with (2 ^ 5). rewrite <- N.shiftl_mul_pow2, N.shiftl_spec_low by exact Hk. reflexivity.
  - rewrite (testbit_small v k) by (assumption || (change (2^5) with 32; exact Hv)). apply andb_false_r.
Qed.

Lemma step_chunk X k : N.shiftr X (k + 5) < 2 ^ 55 ->
  polymod_step (N.shiftr X (k + 5)) (N.land (N.shiftr X k) 31) = N.shiftr X k.
Proof.
  intro H. rewrite <- N.shiftr_shiftr in *. set (Y := N.shiftr X k) in *.
  change 31 with (N.ones 5). rewrite N.land_ones. rewrite N.shiftr_div_pow2 in *. change (2 ^ 5) with 32 in *.
  rewrite step_small; [| exact H | apply N.mod_lt; discriminate].
  pose proof (N.div_mod Y 32). lia.
Qed.

Definition syms12 (X : N) : list N := map (fun i => N.land (N.shiftr X (5 * (11 - i))) 31) idx12.

Lemma ints_checksum_symbols X : ints (checksum_symbols X) = syms12 X.
Proof.
  unfold ints, checksum_symbols, syms12. rewrite map_map. apply map_ext. intro i.
  rewrite n8_b8. apply N.mod_small. change 31 with (N.ones 5). rewrite N.land_ones.
  assert (N.shiftr X (5 * (11 - i)) mod 2 ^ 5 < 2 ^ 5) by (apply N.mod_lt; discriminate).
  change (2 ^ 5) with 32 in *. lia.
Qed.

Lemma polymod_syms12 X : X < 2 ^ 60 -> polymod_from 0 (syms12 X) = X.
Proof.
  intro HX.
  assert (Hs : forall k, 5 <= k -> N.shiftr X k < 2 ^ 55).
  { intros k Hk. rewrite N.shiftr_div_pow2. apply N.div_lt_upper_bound; [apply N.pow_nonzero; discriminate|].
    rewrite <- N.pow_add_r. eapply N.lt_le_trans; [exact HX|]. apply N.pow_le_mono_r; lia. }
  assert (H60 : N.shiftr X 60 = 0) by (rewrite N.shiftr_div_pow2; apply N.div_small; exact HX).
  unfold polymod_from, syms12, idx12. cbn [map fold_left].
  change (5 * (11 - 0)) with 55. change (5 * (11 - 1)) with 50. change (5 * (11 - 2)) with 45.
  change (5 * (11 - 3)) with 40. change (5 * (11 - 4)) with 35. change (5 * (11 - 5)) with 30.
  change (5 * (11 - 6)) with 25. change (5 * (11 - 7)) with 20. change (5 * (11 - 8)) with 15.
  change (5 * (11 - 9)) with 10. change (5 * (11 - 10)) with 5. change (5 * (11 - 11)) with 0.
  rewrite <- H60 at 1.
  change 60 with (55 + 5). rewrite step_chunk by (apply Hs; lia).
  change 55 with (50 + 5). rewrite step_chunk by (apply Hs; lia).
  change 50 with (45 + 5). rewrite step_chunk by (apply Hs; lia).
  change 45 with (40 + 5). rewrite step_chunk by (apply Hs; lia).
  change 40 with (35 + 5). rewrite step_chunk by (apply Hs; lia).
  change 35 with (30 + 5). rewrite step_chunk by (apply Hs; lia).
  change 30 with (25 + 5). rewrite step_chunk by (apply Hs; lia).
  change 25 with (20 + 5). rewrite step_chunk by (apply Hs; lia).
  change 20 with (15 + 5). rewrite step_chunk by (apply Hs; lia).
  change 15 with (10 + 5). rewrite step_chunk by (apply Hs; lia).
  change 10 with (5 + 5). rewrite step_chunk by (apply Hs; lia).
  change 5 with (0 + 5) at 1. rewrite step_chunk by (apply Hs; lia).
  apply N.shiftr_0_r.
Qed.

Lemma polymod_from_app c a b : polymod_from c (a ++ b) = polymod_from (polymod_from c a) b.
Proof. unfold polymod_from. apply fold_left_app. Qed.

Lemma xor_list_zeros12 X : xor_list (repeat 0 12) (syms12 X) = syms12 X.
Proof. unfold syms12, idx12. cbn [map repeat xor_list]. rewrite !N.lxor_0_l. reflexivity. Qed.

(* the twelve symbols appended by createChecksum make the polymod equal to the constant *)
Lemma polymod_with_checksum vs enc : enc < 2 ^ 60 -> Forall (fun v => v < 2 ^ 60) vs ->
  polymod (vs ++ syms12 (N.lxor (polymod (vs ++ repeat 0 12)) enc)) = enc.
Proof.
  intros He F. unfold polymod. rewrite !polymod_from_app.
  set (c := polymod_from 1 vs).
  set (P := polymod_from c (repeat 0 12)).
  assert (HP : P < 2 ^ 60).
  { apply polymod_from_bound; [apply polymod_from_bound; [reflexivity | exact F]|].
    repeat constructor. }
  rewrite <- (xor_list_zeros12 (N.lxor P enc)).
  rewrite <- (N.lxor_0_r c) at 1.
  rewrite polymod_linear by reflexivity.
  fold P. rewrite polymod_syms12 by (apply lxor_lt_pow2; assumption).
  rewrite <- N.lxor_assoc, N.lxor_nilpotent. apply N.lxor_0_l.
Qed.

Lemma hrp_expand_bound hrp : Forall (fun v => v < 2 ^ 60) (hrp_expand hrp).
Proof.
  unfold hrp_expand. apply Forall_app; split; [|apply Forall_app; split].
  - apply Forall_forall. intros v Hv. apply in_map_iff in Hv as [c [<- _]].
    rewrite N.shiftr_div_pow2. pose proof (n8_lt c). change (2^5) with 32. change (2^60) with 1152921504606846976. lia.
  - repeat constructor.
  - apply Forall_forall. intros v Hv. apply in_map_iff in Hv as [c [<- _]].
    change 31 with (N.ones 5). rewrite N.land_ones. pose proof (n8_lt c). change (2^5) with 32. change (2^60) with 1152921504606846976. lia.
Qed.

Lemma ints_bound data : Forall (fun v => v < 2 ^ 60) (ints data).
Proof.
  apply Forall_forall. intros v Hv. apply in_map_iff in Hv as [c [<- _]].
  pose proof (n8_lt c). change (2^60) with 1152921504606846976. lia.
Qed.

Theorem checksum_correct hrp data enc : enc < 2 ^ 60 ->
  verify_checksum hrp (data ++ create_checksum hrp data enc) enc = true.
Proof.
  intro He. unfold verify_checksum, create_checksum.
  unfold ints at 1. rewrite map_app. fold (ints data). fold (ints (checksum_symbols (N.lxor (polymod (hrp_expand hrp ++ ints data ++ repeat 0 12)) enc))).
  rewrite ints_checksum_symbols.
  rewrite !app_assoc. rewrite polymod_with_checksum; [apply N.eqb_refl | exact He |].
  apply Forall_app; split; [apply hrp_expand_bound | apply ints_bound].
Qed.

(* ------------------------------------------------------------------ *)
(* substitution of one value = xor of a shifted error                  *)
(* ------------------------------------------------------------------ *)
Fixpoint upd {A} (l : list A) (i : nat) (x : A) : list A :=
  match l, i with
  | [], _ => []
  | _ :: r, O => x :: r
  | y :: r, S k => y :: upd r k x
  end.

Lemma upd_length {A} (l : list A) : forall i x, length (upd l i x) = length l.
Proof. induction l as [|a l IH]; intros [|i] x; cbn; try reflexivity. rewrite IH. reflexivity. Qed.

Lemma upd_map {A B} (f : A -> B) (l : list A) : forall i x, map f (upd l i x) = upd (map f l) i (f x).
Proof. induction l as [|a l IH]; intros [|i] x; cbn; try reflexivity. rewrite IH. reflexivity. Qed.

Lemma upd_app_r {A} (a l : list A) i x : upd (a ++ l) (length a + i) x = a ++ upd l i x.
Proof. induction a as [|b a IH]; cbn; [reflexivity|]. rewrite IH. reflexivity. Qed.

Lemma nth_error_upd_other {A} (l : list A) : forall i j x, i <> j -> nth_error (upd l i x) j = nth_error l j.
Proof.
  induction l as [|a l IH]; intros [|i] [|j] x H; cbn; try reflexivity; try congruence.
  apply IH. congruence.
Qed.

Lemma lxor_subst x y : N.lxor y (N.lxor x y) = x.
Proof. xor_bits. Qed.

Lemma polymod_step_subst c x y : polymod_step c x = N.lxor (polymod_step c y) (N.lxor x y).
Proof.
  rewrite <- (polymod_step_0 (N.lxor x y)), <- polymod_step_linear, N.lxor_0_r, lxor_subst. reflexivity.
Qed.

Theorem polymod_from_upd : forall l c i x y, nth_error l i = Some y ->
  polymod_from c (upd l i x) = N.lxor (polymod_from c l) (shift (length l - 1 - i) (N.lxor x y)).
Proof.
  induction l as [|a l IH]; intros c [|i] x y H; cbn in H; try discriminate.
  - inversion H; subst a. cbn [upd length]. unfold polymod_from. cbn [fold_left].
    rewrite (polymod_step_subst c x y). fold (polymod_from (N.lxor (polymod_step c y) (N.lxor x y)) l).
    rewrite polymod_from_xor. replace (S (length l) - 1 - 0)%nat with (length l) by lia. reflexivity.
  - cbn [upd length]. unfold polymod_from. cbn [fold_left]. fold (polymod_from (polymod_step c a) (upd l i x)).
    rewrite (IH _ _ _ _ H). replace (S (length l) - 1 - S i)%nat with (length l - 1 - i)%nat by lia. reflexivity.
Qed.

(* ------------------------------------------------------------------ *)
(* the syndrome table                                                  *)
(* ------------------------------------------------------------------ *)
Definition vals : list N := map N.of_nat (seq 1 31).

Lemma in_vals v : In v vals <-> 1 <= v < 32.
Proof.
  unfold vals. rewrite in_map_iff. split.
  - intros [k [<- Hk]]. apply in_seq in Hk. lia.
  - intro H. exists (N.to_nat v). split; [lia | apply in_seq; lia].
Qed.

(* rows of (error value, syndrome at the current distance from the end) *)
Fixpoint entries_from (j n : nat) (row : list (N * N)) : list (nat * N * N) :=
  match n with
  | O => []
  | S k => map (fun vs => (j, fst vs, snd vs)) row ++
           entries_from (S j) k (map (fun vs => (fst vs, step0 (snd vs))) row)
  end.

Lemma entries_from_in : forall n j row v s d, In (v, s) row -> (d < n)%nat ->
  In ((j + d)%nat, v, shift d s) (entries_from j n row).
Proof.
  induction n as [|n IH]; intros j row v s d Hin Hd; [lia|].
  cbn [entries_from]. apply in_or_app. destruct d as [|d].
  - left. rewrite Nat.add_0_r. apply in_map_iff. exists (v, s). split; [reflexivity | exact Hin].
  - right. replace (j + S d)%nat with (S j + d)%nat by lia. cbn [shift].
    apply IH; [|lia]. apply in_map_iff. exists (v, s). split; [reflexivity | exact Hin].
Qed.

Definition row0 : list (N * N) := map (fun v => (v, v)) vals.
Definition entries (n : nat) := entries_from 0 n row0.

Lemma entries_in n d v : (d < n)%nat -> In v vals -> In (d, v, shift d v) (entries n).
Proof.
  intros Hd Hv. unfold entries. change d with (0 + d)%nat at 1.
  apply entries_from_in; [|exact Hd]. unfold row0. apply in_map_iff. exists v. split; [reflexivity | exact Hv].
Qed.

Definition BM : N := N.lxor BLECH32 BLECH32M.

Definition build (es : list (nat * N * N)) : PositiveMap.t (nat * N) :=
  fold_left (fun m e => match e with
                        | (j, v, Npos p) => PositiveMap.add p (j, v) m
                        | (_, _, N0) => m
                        end) es (PositiveMap.empty _).

Definition entry_ok (m : PositiveMap.t (nat * N)) (e : nat * N * N) : bool :=
  match e with
  | (j, v, s) =>
      match s with
      | N0 => false
      | Npos p => match PositiveMap.find p m with
                  | Some (j', v') => Nat.eqb j j' && (v =? v')
                  | None => false
                  end
      end &&
      (if v =? 1 then
         match N.lxor s BM with
         | N0 => false
         | Npos q => match PositiveMap.find q m with
                     | None => true
                     | Some (j', _) => Nat.leb j j'
                     end
         end
       else true)
  end.

(* positions 0..999 from the end cover every string DecodeGeneric admits (<= 1000 characters) *)
Definition NMAX : nat := 1000.

(* the finite check, run in the kernel's VM: 31 000 syndromes, one map look-up each *)
Lemma table_checked : exists m, forallb (entry_ok m) (entries NMAX) = true.
Proof. exists (build (entries NMAX)). vm_compute. reflexivity. Qed.

Lemma table_exists : exists m, forall d v, (d < NMAX)%nat -> In v vals ->
  entry_ok m (d, v, shift d v) = true.
Proof.
  destruct table_checked as [m T]. exists m. intros d v Hd Hv.
  rewrite forallb_forall in T. apply T. apply entries_in; assumption.
Qed.
Global Opaque NMAX.
Lemma NMAX_eq : NMAX = 1000%nat. Proof. reflexivity. Qed.

(* T1: every single-symbol syndrome is non-zero *)
Theorem syndrome_nonzero d v : (d < NMAX)%nat -> In v vals -> shift d v <> 0.
Proof.
  intros Hd Hv E. destruct table_exists as [m Hm].
  pose proof (Hm d v Hd Hv) as F. unfold entry_ok in F. rewrite E in F. discriminate.
Qed.

(* T2: single-symbol syndromes are pairwise distinct *)
Theorem syndromes_distinct d1 v1 d2 v2 : (d1 < NMAX)%nat -> (d2 < NMAX)%nat -> In v1 vals -> In v2 vals ->
  shift d1 v1 = shift d2 v2 -> d1 = d2 /\ v1 = v2.
Proof.
  intros H1 H2 V1 V2 E. destruct table_exists as [m Hm].
  pose proof (Hm d1 v1 H1 V1) as F1. pose proof (Hm d2 v2 H2 V2) as F2.
  unfold entry_ok in F1, F2. rewrite <- E in F2.
  destruct (shift d1 v1) as [|p]; [discriminate|].
  apply andb_true_iff in F1 as [F1 _]. apply andb_true_iff in F2 as [F2 _].
  destruct (PositiveMap.find p m) as [[j' v']|]; [|discriminate].
  apply andb_true_iff in F1 as [A1 B1]. apply andb_true_iff in F2 as [A2 B2].
  apply Nat.eqb_eq in A1, A2. apply N.eqb_eq in B1, B2. subst. split; reflexivity.
Qed.

Lemma one_in_vals : In 1 vals.
Proof. apply in_vals. lia. Qed.

(* T3: a version flip (error value 1 at the version symbol, distance d from the end) never
   turns one constant into the other, alone or together with a second error nearer the end *)
Theorem flip_not_BM d : (d < NMAX)%nat -> shift d 1 <> BM.
Proof.
  intros Hd E. destruct table_exists as [m Hm].
  pose proof (Hm d 1 Hd one_in_vals) as F. unfold entry_ok in F.
  apply andb_true_iff in F as [_ F]. change (1 =? 1) with true in F. cbv iota in F.
  rewrite E, N.lxor_nilpotent in F. discriminate.
Qed.

Lemma lxor_move a b c : N.lxor a b = c -> N.lxor a c = b.
Proof. intros <-. xor_bits. Qed.

Theorem flip_pair_not_BM d d2 v2 : (d < NMAX)%nat -> (d2 < d)%nat -> In v2 vals ->
  N.lxor (shift d 1) (shift d2 v2) <> BM.
Proof.
  intros Hd H2 V2 E. apply lxor_move in E. destruct table_exists as [m Hm].
  pose proof (Hm d 1 Hd one_in_vals) as F. unfold entry_ok in F.
  apply andb_true_iff in F as [_ F]. change (1 =? 1) with true in F. cbv iota in F. rewrite E in F.
  pose proof (Hm d2 v2 ltac:(lia) V2) as G. unfold entry_ok in G.
  apply andb_true_iff in G as [G _].
  destruct (shift d2 v2) as [|q]; [discriminate|].
  destruct (PositiveMap.find q m) as [[j' v']|]; [|discriminate].
  apply andb_true_iff in G as [G _]. apply Nat.eqb_eq in G. subst j'. apply Nat.leb_le in F. lia.
Qed.
