(* Proofs/Blech32.v — C15: the blech32 checksum is GF(2)-linear, checksums verify,
   every 1- and 2-symbol substitution of a valid string is rejected (any hrp, any
   length the decoder admits), the constant is selected by the witness version,
   case rules. *)
From Coq Require Import FMapPositive.
From GE Require Import Lib.Bytes Gen.Blech32Consts Model.Blech32.
Import B32.
From Coq Require Import ZifyBool ZifyN ZifyNat.
Open Scope N_scope.

Arguments polymod_step : simpl never.
Arguments N.shiftl : simpl never.
Arguments N.shiftr : simpl never.
Arguments N.land : simpl never.
Arguments N.lxor : simpl never.
Arguments N.testbit : simpl never.

(* ------------------------------------------------------------------ *)
(* constants of today's source                                         *)
(* ------------------------------------------------------------------ *)
Lemma gen_length : length gen = 5%nat. Proof. reflexivity. Qed.
Lemma charset_length : length charset = 32%nat. Proof. reflexivity. Qed.
Lemma consts_nonneg : (0 <= g_BLECH32)%Z /\ (0 <= g_BLECH32M)%Z /\ Forall (fun z => 0 <= z)%Z g_gen.
Proof. repeat split; try (vm_compute; discriminate). repeat constructor; vm_compute; discriminate. Qed.
Lemma gen_bound : Forall (fun g => g < 2 ^ 60) gen.
Proof. repeat constructor. Qed.
Lemma consts_bound : BLECH32 < 2 ^ 60 /\ BLECH32M < 2 ^ 60 /\ BLECH32 <> BLECH32M.
Proof. repeat split; try reflexivity. vm_compute; discriminate. Qed.

(* ------------------------------------------------------------------ *)
(* xor algebra                                                         *)
(* ------------------------------------------------------------------ *)
Ltac xor_bits :=
  let k := fresh "k" in
  apply N.bits_inj; intro k;
  repeat rewrite ?N.lxor_spec, ?N.land_spec;
  repeat match goal with |- context [N.testbit ?a k] =>
    is_var a; destruct (N.testbit a k) end; reflexivity.

Lemma lxor_swap4 a b c d : N.lxor (N.lxor a b) (N.lxor c d) = N.lxor (N.lxor a c) (N.lxor b d).
Proof. xor_bits. Qed.
Lemma lxor_cancel_r a b g : N.lxor (N.lxor a g) (N.lxor b g) = N.lxor a b.
Proof. xor_bits. Qed.
Lemma lxor_move_l a b g : N.lxor (N.lxor a g) b = N.lxor (N.lxor a b) g.
Proof. xor_bits. Qed.
Lemma lxor_move_r a b g : N.lxor a (N.lxor b g) = N.lxor (N.lxor a b) g.
Proof. xor_bits. Qed.
Lemma land_lxor_l a b m : N.land (N.lxor a b) m = N.lxor (N.land a m) (N.land b m).
Proof. xor_bits. Qed.
Lemma lxor_eq_l a b c : N.lxor a b = N.lxor a c -> b = c.
Proof.
  intro H. apply (f_equal (N.lxor a)) in H.
  rewrite <- !N.lxor_assoc, !N.lxor_nilpotent, !N.lxor_0_l in H. exact H.
Qed.
Lemma lxor_self_inv a b : N.lxor a b = a -> b = 0.
Proof. intro H. apply (lxor_eq_l a). rewrite N.lxor_0_r. exact H. Qed.

(* ------------------------------------------------------------------ *)
(* linearity of one step and of the fold                               *)
(* ------------------------------------------------------------------ *)
Lemma apply_gen_linear gs : forall b b' i a a',
  apply_gen (N.lxor b b') gs i (N.lxor a a') = N.lxor (apply_gen b gs i a) (apply_gen b' gs i a').
Proof.
  induction gs as [|g gs IH]; intros b b' i a a'; cbn [apply_gen]; [reflexivity|].
  rewrite N.lxor_spec.
  destruct (N.testbit b i), (N.testbit b' i); cbn [xorb].
  - rewrite <- (lxor_cancel_r a a' g). apply IH.
  - rewrite <- IH. f_equal. apply lxor_move_l.
  - rewrite <- IH. f_equal. symmetry. apply lxor_move_r.
  - apply IH.
Qed.

Theorem polymod_step_linear c c' v v' :
  polymod_step (N.lxor c c') (N.lxor v v') = N.lxor (polymod_step c v) (polymod_step c' v').
Proof.
  unfold polymod_step.
  rewrite N.shiftr_lxor, land_lxor_l, N.shiftl_lxor, lxor_swap4.
  apply apply_gen_linear.
Qed.

Lemma apply_gen_zero gs : forall i a, apply_gen 0 gs i a = a.
Proof. induction gs as [|g gs IH]; intros i a; cbn [apply_gen]; [reflexivity|]. rewrite N.bits_0. apply IH. Qed.

Lemma polymod_step_0 v : polymod_step 0 v = v.
Proof. unfold polymod_step. rewrite N.shiftr_0_l, N.land_0_l, N.shiftl_0_l, N.lxor_0_l. apply apply_gen_zero. Qed.

(* symbol-wise xor of two value lists (zip, truncating) *)
Fixpoint xor_list (a b : list N) : list N :=
  match a, b with
  | x :: a', y :: b' => N.lxor x y :: xor_list a' b'
  | _, _ => []
  end.

Theorem polymod_linear : forall vs ws c d, length vs = length ws ->
  polymod_from (N.lxor c d) (xor_list vs ws) = N.lxor (polymod_from c vs) (polymod_from d ws).
Proof.
  unfold polymod_from.
  induction vs as [|v vs IH]; intros [|w ws] c d L; cbn in L; try discriminate; cbn [xor_list fold_left].
  - reflexivity.
  - rewrite polymod_step_linear. apply IH. congruence.
Qed.

(* the form used below: a change of the running value propagates through zeros *)
Definition step0 (c : N) : N := polymod_step c 0.
Fixpoint shift (j : nat) (e : N) : N :=
  match j with O => e | S k => shift k (step0 e) end.

Lemma step0_lxor a b : step0 (N.lxor a b) = N.lxor (step0 a) (step0 b).
Proof. unfold step0. rewrite <- (N.lxor_0_r 0) at 1. apply polymod_step_linear. Qed.

Lemma polymod_from_xor : forall vs c d,
  polymod_from (N.lxor c d) vs = N.lxor (polymod_from c vs) (shift (length vs) d).
Proof.
  unfold polymod_from.
  induction vs as [|v vs IH]; intros c d; cbn [fold_left length shift].
  - reflexivity.
  - replace (polymod_step (N.lxor c d) v) with (N.lxor (polymod_step c v) (step0 d)).
    + apply IH.
    + unfold step0. rewrite <- polymod_step_linear, N.lxor_0_r. reflexivity.
Qed.

Lemma shift_0 j : shift j 0 = 0.
Proof. induction j as [|j IH]; cbn [shift]; [reflexivity|]. unfold step0. rewrite polymod_step_0. exact IH. Qed.

Lemma shift_lxor j : forall a b, shift j (N.lxor a b) = N.lxor (shift j a) (shift j b).
Proof. induction j as [|j IH]; intros a b; cbn [shift]; [reflexivity|]. rewrite step0_lxor. apply IH. Qed.

(* ------------------------------------------------------------------ *)
(* no int64 overflow: every running value stays below 2^60              *)
(* ------------------------------------------------------------------ *)
Lemma log2_lt_of_lt a n : 0 < n -> a < 2 ^ n -> N.log2 a < n.
Proof.
  intros Hn H. destruct (N.eq_dec a 0) as [->|Ha]; [cbn; exact Hn|].
  apply N.log2_lt_pow2; lia.
Qed.

Lemma lxor_lt_pow2 a b n : a < 2 ^ n -> b < 2 ^ n -> N.lxor a b < 2 ^ n.
Proof.
  intros Ha Hb. destruct (N.eq_dec n 0) as [->|Hn].
  - change (2 ^ 0) with 1 in *. assert (a = 0) by lia. assert (b = 0) by lia. subst. rewrite N.lxor_0_l. lia.
  - destruct (N.eq_dec (N.lxor a b) 0) as [E|E]; [rewrite E; apply N.neq_0_lt_0; apply N.pow_nonzero; lia|].
    apply N.log2_lt_pow2; [lia|].
    pose proof (N.log2_lxor a b) as L.
    pose proof (log2_lt_of_lt a n ltac:(lia) Ha). pose proof (log2_lt_of_lt b n ltac:(lia) Hb). lia.
Qed.

Lemma apply_gen_bound gs : forall b i a, Forall (fun g => g < 2 ^ 60) gs -> a < 2 ^ 60 -> apply_gen b gs i a < 2 ^ 60.
Proof.
  induction gs as [|g gs IH]; intros b i a F Ha; cbn [apply_gen]; [exact Ha|].
  inversion F as [|g' gs' Hg F']; subst. apply IH; [exact F'|].
  destruct (N.testbit b i); [apply lxor_lt_pow2; assumption | exact Ha].
Qed.

Lemma land_mask55 c : N.land c mask55 = c mod 2 ^ 55.
Proof. change mask55 with (N.ones 55). apply N.land_ones. Qed.

Theorem polymod_step_bound c v : v < 2 ^ 60 -> polymod_step c v < 2 ^ 60.
Proof.
  intro Hv. unfold polymod_step. apply apply_gen_bound; [exact gen_bound|].
  apply lxor_lt_pow2; [|exact Hv].
  rewrite land_mask55, N.shiftl_mul_pow2.
  assert (c mod 2 ^ 55 < 2 ^ 55) by (apply N.mod_lt; discriminate).
  change (2 ^ 60) with (2 ^ 55 * 2 ^ 5). apply N.mul_lt_mono_pos_r; [reflexivity | assumption].
Qed.

Theorem polymod_from_bound vs : forall c, c < 2 ^ 60 -> Forall (fun v => v < 2 ^ 60) vs -> polymod_from c vs < 2 ^ 60.
Proof.
  unfold polymod_from. induction vs as [|v vs IH]; intros c Hc F; cbn [fold_left]; [exact Hc|].
  inversion F as [|v' vs' Hv F']; subst. apply IH; [apply polymod_step_bound; exact Hv | exact F'].
Qed.

(* ------------------------------------------------------------------ *)
(* checksum correctness                                                *)
(* ------------------------------------------------------------------ *)
Lemma testbit_small v k : v < 2 ^ 5 -> 5 <= k -> N.testbit v k = false.
Proof. intros Hv Hk. apply N.bits_above_log2. pose proof (log2_lt_of_lt v 5 ltac:(lia) Hv). lia. Qed.

Lemma step_small c v : c < 2 ^ 55 -> v < 32 -> polymod_step c v = c * 32 + v.
Proof.
  intros Hc Hv. unfold polymod_step.
  rewrite N.shiftr_div_pow2, (N.div_small c) by exact Hc. rewrite apply_gen_zero.
  rewrite land_mask55, N.mod_small by exact Hc. rewrite N.shiftl_mul_pow2. change (2 ^ 5) with 32.
  symmetry. apply N.add_nocarry_lxor.
  apply N.bits_inj; intro k. rewrite N.land_spec, N.bits_0.
  destruct (N.ltb_spec k 5) as [Hk|Hk].
  - change 32 with (2 ^ 5). rewrite <- N.shiftl_mul_pow2, N.shiftl_spec_low by exact Hk. reflexivity.
  - rewrite (testbit_small v k) by (assumption || (change (2^5) with 32; exact Hv)). apply andb_false_r.
Qed.

Lemma step_chunk X k : N.shiftr X (k + 5) < 2 ^ 55 ->
  polymod_step (N.shiftr X (k + 5)) (N.land (N.shiftr X k) 31) = N.shiftr X k.
Proof.
  intro H. rewrite <- N.shiftr_shiftr in *. set (Y := N.shiftr X k) in *.
  change 31 with (N.ones 5). rewrite N.land_ones. rewrite N.shiftr_div_pow2 in *. change (2 ^ 5) with 32 in *.
  rewrite step_small; [| exact H | apply N.mod_lt; discriminate].
  pose proof (N.div_mod Y 32). lia.
Qed.

Definition syms12 (X : N) : list N := map (fun i => N.land (N.shiftr X (5 * (11 - i))) 31) idx12.

Lemma ints_checksum_symbols X : ints (checksum_symbols X) = syms12 X.
Proof.
  unfold ints, checksum_symbols, syms12. rewrite map_map. apply map_ext. intro i.
  rewrite n8_b8. apply N.mod_small. change 31 with (N.ones 5). rewrite N.land_ones.
  assert (N.shiftr X (5 * (11 - i)) mod 2 ^ 5 < 2 ^ 5) by (apply N.mod_lt; discriminate).
  change (2 ^ 5) with 32 in *. lia.
Qed.

Lemma polymod_syms12 X : X < 2 ^ 60 -> polymod_from 0 (syms12 X) = X.
Proof.
  intro HX.
  assert (Hs : forall k, 5 <= k -> N.shiftr X k < 2 ^ 55).
  { intros k Hk. rewrite N.shiftr_div_pow2. apply N.div_lt_upper_bound; [apply N.pow_nonzero; discriminate|].
    rewrite <- N.pow_add_r. eapply N.lt_le_trans; [exact HX|]. apply N.pow_le_mono_r; lia. }
  assert (H60 : N.shiftr X 60 = 0) by (rewrite N.shiftr_div_pow2; apply N.div_small; exact HX).
  unfold polymod_from, syms12, idx12. cbn [map fold_left].
  change (5 * (11 - 0)) with 55. change (5 * (11 - 1)) with 50. change (5 * (11 - 2)) with 45.
  change (5 * (11 - 3)) with 40. change (5 * (11 - 4)) with 35. change (5 * (11 - 5)) with 30.
  change (5 * (11 - 6)) with 25. change (5 * (11 - 7)) with 20. change (5 * (11 - 8)) with 15.
  change (5 * (11 - 9)) with 10. change (5 * (11 - 10)) with 5. change (5 * (11 - 11)) with 0.
  rewrite <- H60 at 1.
  change 60 with (55 + 5). rewrite step_chunk by (apply Hs; lia).
  change 55 with (50 + 5). rewrite step_chunk by (apply Hs; lia).
  change 50 with (45 + 5). rewrite step_chunk by (apply Hs; lia).
  change 45 with (40 + 5). rewrite step_chunk by (apply Hs; lia).
  change 40 with (35 + 5). rewrite step_chunk by (apply Hs; lia).
  change 35 with (30 + 5). rewrite step_chunk by (apply Hs; lia).
  change 30 with (25 + 5). rewrite step_chunk by (apply Hs; lia).
  change 25 with (20 + 5). rewrite step_chunk by (apply Hs; lia).
  change 20 with (15 + 5). rewrite step_chunk by (apply Hs; lia).
  change 15 with (10 + 5). rewrite step_chunk by (apply Hs; lia).
  change 10 with (5 + 5). rewrite step_chunk by (apply Hs; lia).
  change 5 with (0 + 5) at 1. rewrite step_chunk by (apply Hs; lia).
  apply N.shiftr_0_r.
Qed.

Lemma polymod_from_app c a b : polymod_from c (a ++ b) = polymod_from (polymod_from c a) b.
Proof. unfold polymod_from. apply fold_left_app. Qed.

Lemma xor_list_zeros12 X : xor_list (repeat 0 12) (syms12 X) = syms12 X.
Proof. unfold syms12, idx12. cbn [map repeat xor_list]. rewrite !N.lxor_0_l. reflexivity. Qed.

(* the twelve symbols appended by createChecksum make the polymod equal to the constant *)
Lemma polymod_with_checksum vs enc : enc < 2 ^ 60 -> Forall (fun v => v < 2 ^ 60) vs ->
  polymod (vs ++ syms12 (N.lxor (polymod (vs ++ repeat 0 12)) enc)) = enc.
Proof.
  intros He F. unfold polymod. rewrite !polymod_from_app.
  set (c := polymod_from 1 vs).
  set (P := polymod_from c (repeat 0 12)).
  assert (HP : P < 2 ^ 60).
  { apply polymod_from_bound; [apply polymod_from_bound; [reflexivity | exact F]|].
    repeat constructor. }
  rewrite <- (xor_list_zeros12 (N.lxor P enc)).
  rewrite <- (N.lxor_0_r c) at 1.
  rewrite polymod_linear by reflexivity.
  fold P. rewrite polymod_syms12 by (apply lxor_lt_pow2; assumption).
  rewrite <- N.lxor_assoc, N.lxor_nilpotent. apply N.lxor_0_l.
Qed.

Lemma hrp_expand_bound hrp : Forall (fun v => v < 2 ^ 60) (hrp_expand hrp).
Proof.
  unfold hrp_expand. apply Forall_app; split; [|apply Forall_app; split].
  - apply Forall_forall. intros v Hv. apply in_map_iff in Hv as [c [<- _]].
    rewrite N.shiftr_div_pow2. pose proof (n8_lt c). change (2^5) with 32. change (2^60) with 1152921504606846976. lia.
  - repeat constructor.
  - apply Forall_forall. intros v Hv. apply in_map_iff in Hv as [c [<- _]].
    change 31 with (N.ones 5). rewrite N.land_ones. pose proof (n8_lt c). change (2^5) with 32. change (2^60) with 1152921504606846976. lia.
Qed.

Lemma ints_bound data : Forall (fun v => v < 2 ^ 60) (ints data).
Proof.
  apply Forall_forall. intros v Hv. apply in_map_iff in Hv as [c [<- _]].
  pose proof (n8_lt c). change (2^60) with 1152921504606846976. lia.
Qed.

Theorem checksum_correct hrp data enc : enc < 2 ^ 60 ->
  verify_checksum hrp (data ++ create_checksum hrp data enc) enc = true.
Proof.
  intro He. unfold verify_checksum, create_checksum.
  unfold ints at 1. rewrite map_app. fold (ints data). fold (ints (checksum_symbols (N.lxor (polymod (hrp_expand hrp ++ ints data ++ repeat 0 12)) enc))).
  rewrite ints_checksum_symbols.
  rewrite !app_assoc. rewrite polymod_with_checksum; [apply N.eqb_refl | exact He |].
  apply Forall_app; split; [apply hrp_expand_bound | apply ints_bound].
Qed.

(* ------------------------------------------------------------------ *)
(* substitution of one value = xor of a shifted error                  *)
(* ------------------------------------------------------------------ *)
Fixpoint upd {A} (l : list A) (i : nat) (x : A) : list A :=
  match l, i with
  | [], _ => []
  | _ :: r, O => x :: r
  | y :: r, S k => y :: upd r k x
  end.

Lemma upd_length {A} (l : list A) : forall i x, length (upd l i x) = length l.
Proof. induction l as [|a l IH]; intros [|i] x; cbn; try reflexivity. rewrite IH. reflexivity. Qed.

Lemma upd_map {A B} (f : A -> B) (l : list A) : forall i x, map f (upd l i x) = upd (map f l) i (f x).
Proof. induction l as [|a l IH]; intros [|i] x; cbn; try reflexivity. rewrite IH. reflexivity. Qed.

Lemma upd_app_r {A} (a l : list A) i x : upd (a ++ l) (length a + i) x = a ++ upd l i x.
Proof. induction a as [|b a IH]; cbn; [reflexivity|]. rewrite IH. reflexivity. Qed.

Lemma nth_error_upd_other {A} (l : list A) : forall i j x, i <> j -> nth_error (upd l i x) j = nth_error l j.
Proof.
  induction l as [|a l IH]; intros [|i] [|j] x H; cbn; try reflexivity; try congruence.
  apply IH. congruence.
Qed.

Lemma lxor_subst x y : N.lxor y (N.lxor x y) = x.
Proof. xor_bits. Qed.

Lemma polymod_step_subst c x y : polymod_step c x = N.lxor (polymod_step c y) (N.lxor x y).
Proof.
  rewrite <- (polymod_step_0 (N.lxor x y)), <- polymod_step_linear, N.lxor_0_r, lxor_subst. reflexivity.
Qed.

Theorem polymod_from_upd : forall l c i x y, nth_error l i = Some y ->
  polymod_from c (upd l i x) = N.lxor (polymod_from c l) (shift (length l - 1 - i) (N.lxor x y)).
Proof.
  induction l as [|a l IH]; intros c [|i] x y H; cbn in H; try discriminate.
  - inversion H; subst a. cbn [upd length]. unfold polymod_from. cbn [fold_left].
    rewrite (polymod_step_subst c x y). fold (polymod_from (N.lxor (polymod_step c y) (N.lxor x y)) l).
    rewrite polymod_from_xor. replace (S (length l) - 1 - 0)%nat with (length l) by lia. reflexivity.
  - cbn [upd length]. unfold polymod_from. cbn [fold_left]. fold (polymod_from (polymod_step c a) (upd l i x)).
    rewrite (IH _ _ _ _ H). replace (S (length l) - 1 - S i)%nat with (length l - 1 - i)%nat by lia. reflexivity.
Qed.

(* ------------------------------------------------------------------ *)
(* the syndrome table                                                  *)
(* ------------------------------------------------------------------ *)
Definition vals : list N := map N.of_nat (seq 1 31).

Lemma in_vals v : In v vals <-> 1 <= v < 32.
Proof.
  unfold vals. rewrite in_map_iff. split.
  - intros [k [<- Hk]]. apply in_seq in Hk. lia.
  - intro H. exists (N.to_nat v). split; [lia | apply in_seq; lia].
Qed.

(* rows of (error value, syndrome at the current distance from the end) *)
Fixpoint entries_from (j n : nat) (row : list (N * N)) : list (nat * N * N) :=
  match n with
  | O => []
  | S k => map (fun vs => (j, fst vs, snd vs)) row ++
           entries_from (S j) k (map (fun vs => (fst vs, step0 (snd vs))) row)
  end.

Lemma entries_from_in : forall n j row v s d, In (v, s) row -> (d < n)%nat ->
  In ((j + d)%nat, v, shift d s) (entries_from j n row).
Proof.
  induction n as [|n IH]; intros j row v s d Hin Hd; [lia|].
  cbn [entries_from]. apply in_or_app. destruct d as [|d].
  - left. rewrite Nat.add_0_r. apply in_map_iff. exists (v, s). split; [reflexivity | exact Hin].
  - right. replace (j + S d)%nat with (S j + d)%nat by lia. cbn [shift].
    apply IH; [|lia]. apply in_map_iff. exists (v, s). split; [reflexivity | exact Hin].
Qed.

Definition row0 : list (N * N) := map (fun v => (v, v)) vals.
Definition entries (n : nat) := entries_from 0 n row0.

Lemma entries_in n d v : (d < n)%nat -> In v vals -> In (d, v, shift d v) (entries n).
Proof.
  intros Hd Hv. unfold entries. change d with (0 + d)%nat at 1.
  apply entries_from_in; [|exact Hd]. unfold row0. apply in_map_iff. exists v. split; [reflexivity | exact Hv].
Qed.

Definition BM : N := N.lxor BLECH32 BLECH32M.

Definition build (es : list (nat * N * N)) : PositiveMap.t (nat * N) :=
  fold_left (fun m e => match e with
                        | (j, v, Npos p) => PositiveMap.add p (j, v) m
                        | (_, _, N0) => m
                        end) es (PositiveMap.empty _).

Definition entry_ok (m : PositiveMap.t (nat * N)) (e : nat * N * N) : bool :=
  match e with
  | (j, v, s) =>
      match s with
      | N0 => false
      | Npos p => match PositiveMap.find p m with
                  | Some (j', v') => Nat.eqb j j' && (v =? v')
                  | None => false
                  end
      end &&
      (if v =? 1 then
         match N.lxor s BM with
         | N0 => false
         | Npos q => match PositiveMap.find q m with
                     | None => true
                     | Some (j', _) => Nat.leb j j'
                     end
         end
       else true)
  end.

(* positions 0..999 from the end cover every string DecodeGeneric admits (<= 1000 characters) *)
Definition NMAX : nat := 1000.

(* the finite check, run in the kernel's VM: 31 000 syndromes, one map look-up each *)
Lemma table_checked : exists m, forallb (entry_ok m) (entries NMAX) = true.
Proof. exists (build (entries NMAX)). vm_compute. reflexivity. Qed.

Lemma table_exists : exists m, forall d v, (d < NMAX)%nat -> In v vals ->
  entry_ok m (d, v, shift d v) = true.
Proof.
  destruct table_checked as [m T]. exists m. intros d v Hd Hv.
  rewrite forallb_forall in T. apply T. apply entries_in; assumption.
Qed.
Global Opaque NMAX.
Lemma NMAX_eq : NMAX = 1000%nat. Proof. reflexivity. Qed.

(* T1: every single-symbol syndrome is non-zero *)
Theorem syndrome_nonzero d v : (d < NMAX)%nat -> In v vals -> shift d v <> 0.
Proof.
  intros Hd Hv E. destruct table_exists as [m Hm].
  pose proof (Hm d v Hd Hv) as F. unfold entry_ok in F. rewrite E in F. discriminate.
Qed.

(* T2: single-symbol syndromes are pairwise distinct *)
Theorem syndromes_distinct d1 v1 d2 v2 : (d1 < NMAX)%nat -> (d2 < NMAX)%nat -> In v1 vals -> In v2 vals ->
  shift d1 v1 = shift d2 v2 -> d1 = d2 /\ v1 = v2.
Proof.
  intros H1 H2 V1 V2 E. destruct table_exists as [m Hm].
  pose proof (Hm d1 v1 H1 V1) as F1. pose proof (Hm d2 v2 H2 V2) as F2.
  unfold entry_ok in F1, F2. rewrite <- E in F2.
  destruct (shift d1 v1) as [|p]; [discriminate|].
  apply andb_true_iff in F1 as [F1 _]. apply andb_true_iff in F2 as [F2 _].
  destruct (PositiveMap.find p m) as [[j' v']|]; [|discriminate].
  apply andb_true_iff in F1 as [A1 B1]. apply andb_true_iff in F2 as [A2 B2].
  apply Nat.eqb_eq in A1, A2. apply N.eqb_eq in B1, B2. subst. split; reflexivity.
Qed.

Lemma one_in_vals : In 1 vals.
Proof. apply in_vals. lia. Qed.

(* T3: a version flip (error value 1 at the version symbol, distance d from the end) never
   turns one constant into the other, alone or together with a second error nearer the end *)
Theorem flip_not_BM d : (d < NMAX)%nat -> shift d 1 <> BM.
Proof.
  intros Hd E. destruct table_exists as [m Hm].
  pose proof (Hm d 1 Hd one_in_vals) as F. unfold entry_ok in F.
  apply andb_true_iff in F as [_ F]. change (1 =? 1) with true in F. cbv iota in F.
  rewrite E, N.lxor_nilpotent in F. discriminate.
Qed.

Lemma lxor_move a b c : N.lxor a b = c -> N.lxor a c = b.
Proof. intros <-. xor_bits. Qed.

Theorem flip_pair_not_BM d d2 v2 : (d < NMAX)%nat -> (d2 < d)%nat -> In v2 vals ->
  N.lxor (shift d 1) (shift d2 v2) <> BM.
Proof.
  intros Hd H2 V2 E. apply lxor_move in E. destruct table_exists as [m Hm].
  pose proof (Hm d 1 Hd one_in_vals) as F. unfold entry_ok in F.
  apply andb_true_iff in F as [_ F]. change (1 =? 1) with true in F. cbv iota in F. rewrite E in F.
  pose proof (Hm d2 v2 ltac:(lia) V2) as G. unfold entry_ok in G.
  apply andb_true_iff in G as [G _].
  destruct (shift d2 v2) as [|q]; [discriminate|].
  destruct (PositiveMap.find q m) as [[j' v']|]; [|discriminate].
  apply andb_true_iff in G as [G _]. apply Nat.eqb_eq in G. subst j'. apply Nat.leb_le in F. lia.
Qed.

(* ------------------------------------------------------------------ *)
(* characters                                                          *)
(* ------------------------------------------------------------------ *)
Lemma charset_ok : forallb char_ok charset = true. Proof. reflexivity. Qed.
Lemma charset_lower : forallb (fun c => beqb (to_lower c) c) charset = true. Proof. reflexivity. Qed.
Lemma charset_no_sep : forallb (fun c => negb (beqb c sep)) charset = true. Proof. reflexivity. Qed.
Lemma charset_index :
  forallb (fun i => match nth_opt charset i with
                    | Some c => match index_of c charset 0 with Some j => i =? j | None => false end
                    | None => false
                    end) (map N.of_nat (seq 0 32)) = true.
Proof. reflexivity. Qed.

Lemma nth_opt_In {A} (l : list A) : forall i c, nth_opt l i = Some c -> In c l.
Proof.
  induction l as [|a l IH]; intros i c H; cbn in H; [discriminate|].
  destruct (i =? 0); [inversion H; left; reflexivity | right; eapply IH; exact H].
Qed.

Lemma nth_opt_lt {A} (l : list A) : forall i c, nth_opt l i = Some c -> i < N.of_nat (length l).
Proof.
  induction l as [|a l IH]; intros i c H; cbn [nth_opt] in H; [discriminate|].
  cbn [length]. destruct (N.eqb_spec i 0) as [->|Hi]; [lia|].
  apply IH in H. lia.
Qed.

Lemma charset_prop (P : byte -> bool) i c : forallb P charset = true -> nth_opt charset i = Some c -> P c = true.
Proof. intros F H. rewrite forallb_forall in F. apply F. eapply nth_opt_In; exact H. Qed.

Lemma charset_index_of i c : nth_opt charset i = Some c -> index_of c charset 0 = Some i.
Proof.
  intro H. pose proof (nth_opt_lt _ _ _ H) as L. rewrite charset_length in L.
  pose proof charset_index as F. rewrite forallb_forall in F.
  specialize (F i). rewrite H in F.
  assert (Hin : In i (map N.of_nat (seq 0 32))).
  { apply in_map_iff. exists (N.to_nat i). split; [lia | apply in_seq; lia]. }
  specialize (F Hin). destruct (index_of c charset 0) as [j|]; [|discriminate].
  apply N.eqb_eq in F. congruence.
Qed.

Lemma to_chars_facts : forall syms cs, to_chars syms = Some cs ->
  length cs = length syms /\ to_bytes cs = Some syms /\
  Forall (fun b => n8 b < 32) syms /\
  forallb char_ok cs = true /\ map to_lower cs = cs /\ Forall (fun c => beqb c sep = false) cs.
Proof.
  induction syms as [|b syms IH]; intros cs H; cbn [to_chars] in H.
  - inversion H; subst. cbn. repeat split; constructor.
  - destruct (nth_opt charset (n8 b)) as [c|] eqn:E; [|discriminate].
    destruct (to_chars syms) as [cs'|] eqn:E'; [|discriminate]. inversion H; subst cs.
    destruct (IH cs' eq_refl) as (L & TB & FB & OK & LO & NS).
    pose proof (nth_opt_lt _ _ _ E) as Lt. rewrite charset_length in Lt.
    repeat split.
    + cbn. rewrite L. reflexivity.
    + cbn [to_bytes]. rewrite (charset_index_of _ _ E), TB, b8_n8. reflexivity.
    + constructor; [change (N.of_nat 32) with 32 in Lt; exact Lt | exact FB].
    + cbn [forallb]. rewrite (charset_prop char_ok _ _ charset_ok E), OK. reflexivity.
    + cbn [map]. rewrite LO. f_equal. apply beqb_eq. exact (charset_prop _ _ _ charset_lower E).
    + constructor; [|exact NS]. pose proof (charset_prop _ _ _ charset_no_sep E) as Q. cbv beta in Q.
      destruct (beqb c sep); [discriminate | reflexivity].
Qed.

Lemma last_index_from_nosep c : forall s i acc, Forall (fun x => beqb x c = false) s ->
  last_index_from c s i acc = acc.
Proof.
  induction s as [|x s IH]; intros i acc F; cbn [last_index_from]; [reflexivity|].
  inversion F as [|x' s' Hx F']; subst. rewrite Hx. apply IH. exact F'.
Qed.

Lemma last_index_from_app c : forall a b i acc,
  last_index_from c (a ++ b) i acc = last_index_from c b (i + length a) (last_index_from c a i acc).
Proof.
  induction a as [|x a IH]; intros b i acc; cbn [app last_index_from length].
  - rewrite Nat.add_0_r. reflexivity.
  - rewrite IH. f_equal. lia.
Qed.

Lemma last_index_canon hrp cs : Forall (fun c => beqb c sep = false) cs ->
  last_index sep (hrp ++ sep :: cs) = Some (length hrp).
Proof.
  intro F. unfold last_index. rewrite last_index_from_app. cbn [last_index_from].
  replace (beqb sep sep) with true by reflexivity. apply last_index_from_nosep. exact F.
Qed.

(* ------------------------------------------------------------------ *)
(* Decode on strings of the form hrp ++ "1" ++ chars(symbols)          *)
(* ------------------------------------------------------------------ *)
Definition pre (hrp : bytes) (n : nat) : bool :=
  negb ((length hrp + 1 + n <? 8)%nat || (1000 <? length hrp + 1 + n)%nat) &&
  forallb char_ok hrp && negb ((length hrp <? 1)%nat || (n <? 12)%nat).

Definition decode_spec (hrp syms : bytes) : dres :=
  if negb (pre hrp (length syms)) then DErr else
  if (length syms =? 12)%nat then DErr else
  match syms with
  | [] => DErr
  | v :: _ =>
      match encoding_of_version v with
      | None => DErr
      | Some enc => if polymod (hrp_expand hrp ++ ints syms) =? enc
                    then DOk hrp (firstn (length syms - 12) syms) else DErr
      end
  end.

Lemma bytes_eqb_refl a : bytes_eqb a a = true.
Proof. apply bytes_eqb_eq. reflexivity. Qed.

Lemma decode_generic_canon hrp syms cs : to_chars syms = Some cs -> map to_lower hrp = hrp ->
  decode_generic (hrp ++ sep :: cs) =
    if negb (pre hrp (length syms)) then GErr
    else GOk hrp (firstn (length syms - 12) syms) (skipn (length syms - 12) syms).
Proof.
  intros TC LH. destruct (to_chars_facts _ _ TC) as (L & TB & FB & OK & LO & NS).
  unfold decode_generic, pre.
  assert (Len : length (hrp ++ sep :: cs) = (length hrp + 1 + length syms)%nat).
  { rewrite app_length. cbn [length]. rewrite L. lia. }
  rewrite Len.
  destruct ((length hrp + 1 + length syms <? 8)%nat || (1000 <? length hrp + 1 + length syms)%nat) eqn:E1;
    [reflexivity|].
  rewrite forallb_app. cbn [forallb]. rewrite OK. replace (char_ok sep) with true by reflexivity.
  rewrite andb_true_r. cbn [negb andb].
  destruct (forallb char_ok hrp) eqn:E2; [|reflexivity]. cbn [negb andb].
  assert (Low : map to_lower (hrp ++ sep :: cs) = hrp ++ sep :: cs).
  { rewrite map_app. cbn [map]. rewrite LH, LO. reflexivity. }
  rewrite Low, bytes_eqb_refl. cbn [negb andb].
  rewrite (last_index_canon hrp cs NS). rewrite Len.
  replace (length hrp + 1 + length syms <? length hrp + 13)%nat with (length syms <? 12)%nat
    by (destruct (Nat.ltb_spec (length syms) 12), (Nat.ltb_spec (length hrp + 1 + length syms) (length hrp + 13)); lia).
  destruct ((length hrp <? 1)%nat || (length syms <? 12)%nat) eqn:E3; [reflexivity|]. cbn [negb].
  rewrite firstn_app, Nat.sub_diag, firstn_all. cbn [firstn]. rewrite app_nil_r.
  replace (length hrp + 1)%nat with (length (hrp ++ [sep])) by (rewrite app_length; reflexivity).
  replace (hrp ++ sep :: cs) with ((hrp ++ [sep]) ++ cs) by (rewrite <- app_assoc; reflexivity).
  rewrite skipn_app, Nat.sub_diag, skipn_all. cbn [skipn app]. rewrite TB.
  apply orb_false_iff in E3 as [_ E3]. rewrite E3. reflexivity.
Qed.

Theorem decode_canon hrp syms cs : to_chars syms = Some cs -> map to_lower hrp = hrp ->
  decode (hrp ++ sep :: cs) = decode_spec hrp syms.
Proof.
  intros TC LH. unfold decode, decode_spec. rewrite (decode_generic_canon hrp syms cs TC LH).
  destruct (negb (pre hrp (length syms))) eqn:P; [reflexivity|].
  assert (L12 : (12 <= length syms)%nat).
  { unfold pre in P. apply negb_false_iff in P. apply andb_true_iff in P as [_ P].
    apply negb_true_iff, orb_false_iff in P as [_ P]. apply Nat.ltb_ge in P. exact P. }
  destruct (Nat.eqb_spec (length syms) 12) as [E|E].
  - rewrite E, Nat.sub_diag. reflexivity.
  - destruct syms as [|v r]; [cbn in L12; lia|].
    replace (length (v :: r) - 12)%nat with (S (length r - 12)) by (cbn [length] in *; lia).
    cbn [firstn]. destruct (encoding_of_version v) as [enc|]; [|reflexivity].
    unfold verify_checksum.
    replace ((v :: firstn (length r - 12) r) ++ skipn (S (length r - 12)) (v :: r)) with (v :: r); [reflexivity|].
    cbn [skipn app]. rewrite firstn_skipn. reflexivity.
Qed.

(* ------------------------------------------------------------------ *)
(* detection of one and two substituted symbols                        *)
(* ------------------------------------------------------------------ *)
Lemma lxor_in_vals a b : a < 32 -> b < 32 -> a <> b -> In (N.lxor a b) vals.
Proof.
  intros Ha Hb Hab. apply in_vals.
  assert (N.lxor a b < 2 ^ 5) by (apply lxor_lt_pow2; assumption).
  assert (N.lxor a b <> 0) by (intro E; apply N.lxor_eq in E; contradiction).
  change (2 ^ 5) with 32 in *. lia.
Qed.

Lemma encoding_inv v e : encoding_of_version v = Some e ->
  (n8 v = 0 /\ e = BLECH32) \/ (n8 v = 1 /\ e = BLECH32M).
Proof.
  unfold encoding_of_version. destruct (N.eqb_spec (n8 v) 0) as [E0|E0].
  - intro H; inversion H. left; split; [assumption | reflexivity].
  - destruct (N.eqb_spec (n8 v) 1) as [E1|E1]; [|discriminate].
    intro H; inversion H. right; split; [assumption | reflexivity].
Qed.

Lemma BM_sym : N.lxor BLECH32M BLECH32 = BM.
Proof. apply N.lxor_comm. Qed.

(* the rejection argument shared by all substitution theorems: the polymod of the
   changed string is the old one xor a syndrome S; S is non-zero, and differs from
   BLECH32 xor BLECH32M whenever the version symbol changed *)
Lemma reject_by_syndrome hrp hrp' v r v' r' data Sy :
  decode_spec hrp (v :: r) = DOk hrp data ->
  length r' = length r ->
  pre hrp' (length (v' :: r')) = true ->
  polymod (hrp_expand hrp' ++ ints (v' :: r')) = N.lxor (polymod (hrp_expand hrp ++ ints (v :: r))) Sy ->
  Sy <> 0 -> (n8 v <= 1 -> n8 v' <= 1 -> n8 v' <> n8 v -> Sy <> BM) ->
  decode_spec hrp' (v' :: r') = DErr.
Proof.
  intros D L P' PM S0 SBM. unfold decode_spec in *.
  rewrite P'. cbn [negb].
  destruct (negb (pre hrp (length (v :: r)))); [discriminate|].
  cbn [length] in *. rewrite L.
  destruct (S (length r) =? 12)%nat; [discriminate|].
  destruct (encoding_of_version v) as [e|] eqn:Ev; [|discriminate].
  destruct (N.eqb_spec (polymod (hrp_expand hrp ++ ints (v :: r))) e) as [Ee|Ee]; [|discriminate].
  destruct (encoding_of_version v') as [e'|] eqn:Ev'; [|reflexivity].
  rewrite PM, Ee.
  destruct (N.eqb_spec (N.lxor e Sy) e') as [Eq|Eq]; [exfalso|reflexivity].
  apply encoding_inv in Ev, Ev'.
  destruct Ev as [[Hv ->]|[Hv ->]], Ev' as [[Hv' ->]|[Hv' ->]].
  - apply lxor_self_inv in Eq. contradiction.
  - apply SBM; try lia. apply (lxor_eq_l BLECH32). rewrite Eq. unfold BM.
    rewrite <- N.lxor_assoc, N.lxor_nilpotent, N.lxor_0_l. reflexivity.
  - apply SBM; try lia. apply (lxor_eq_l BLECH32M). rewrite Eq, <- BM_sym. unfold BM.
    rewrite <- N.lxor_assoc, N.lxor_nilpotent, N.lxor_0_l. reflexivity.
  - apply lxor_self_inv in Eq. contradiction.
Qed.

Lemma pre_bound hrp n : pre hrp n = true -> (12 <= n /\ n < NMAX)%nat.
Proof.
  rewrite NMAX_eq. unfold pre. intro P. apply andb_true_iff in P as [P P3]. apply andb_true_iff in P as [P1 _].
  apply negb_true_iff, orb_false_iff in P1 as [_ P1]. apply Nat.ltb_ge in P1.
  apply negb_true_iff, orb_false_iff in P3 as [_ P3]. apply Nat.ltb_ge in P3. lia.
Qed.

Lemma decode_spec_ok_pre hrp syms data : decode_spec hrp syms = DOk hrp data ->
  pre hrp (length syms) = true /\ exists v r, syms = v :: r.
Proof.
  unfold decode_spec. destruct (pre hrp (length syms)); [|discriminate]. cbn [negb].
  destruct (length syms =? 12)%nat; [discriminate|]. destruct syms as [|v r]; [discriminate|].
  intros _. split; [reflexivity | exists v, r; reflexivity].
Qed.

Lemma polymod_upd hrp syms i x y : nth_error syms i = Some y ->
  polymod (hrp_expand hrp ++ ints (upd syms i x)) =
  N.lxor (polymod (hrp_expand hrp ++ ints syms)) (shift (length syms - 1 - i) (N.lxor (n8 x) (n8 y))).
Proof.
  intro H. unfold polymod. rewrite !polymod_from_app. unfold ints. rewrite upd_map.
  rewrite (polymod_from_upd _ _ i (n8 x) (n8 y)) by (rewrite nth_error_map, H; reflexivity).
  rewrite map_length. reflexivity.
Qed.

Lemma sym_lt syms i y : Forall (fun b => n8 b < 32) syms -> nth_error syms i = Some y -> n8 y < 32.
Proof. intros F H. rewrite Forall_forall in F. apply F. eapply nth_error_In; exact H. Qed.

Lemma to_chars_sym_lt syms cs : to_chars syms = Some cs -> Forall (fun b => n8 b < 32) syms.
Proof. intro H. apply to_chars_facts in H. tauto. Qed.

Lemma upd_hd {A} (v : A) r i x : i <> O -> exists r', upd (v :: r) i x = v :: r' /\ length r' = length r.
Proof. destruct i as [|i]; [congruence|]. intros _. exists (upd r i x). split; [reflexivity | apply upd_length]. Qed.

Lemma nth_error_upd_same {A} (l : list A) : forall i x, (i < length l)%nat -> nth_error (upd l i x) i = Some x.
Proof. induction l as [|a l IH]; intros [|i] x H; cbn in *; try lia; [reflexivity | apply IH; lia]. Qed.

Lemma lxor_01 a b : a <= 1 -> b <= 1 -> a <> b -> N.lxor a b = 1.
Proof.
  intros Ha Hb Hab. assert (Ca : a = 0 \/ a = 1) by lia. assert (Cb : b = 0 \/ b = 1) by lia.
  destruct Ca, Cb; subst; try congruence; reflexivity.
Qed.

(* ONE substituted symbol of the data part (version symbol, payload or checksum) *)
Theorem detects_one hrp syms cs data i x y cs' :
  map to_lower hrp = hrp -> to_chars syms = Some cs ->
  decode (hrp ++ sep :: cs) = DOk hrp data ->
  nth_error syms i = Some y -> x <> y -> to_chars (upd syms i x) = Some cs' ->
  decode (hrp ++ sep :: cs') = DErr.
Proof.
  intros LH TC D Hy Hxy TC'.
  rewrite (decode_canon _ _ _ TC LH) in D. rewrite (decode_canon _ _ _ TC' LH).
  destruct (decode_spec_ok_pre _ _ _ D) as [P [v [r ->]]].
  pose proof (pre_bound _ _ P) as [B12 BN].
  pose proof (to_chars_sym_lt _ _ TC) as F. pose proof (to_chars_sym_lt _ _ TC') as F'.
  assert (Hi : (i < length (v :: r))%nat) by (apply nth_error_Some; congruence).
  assert (Xlt : n8 x < 32) by (apply (sym_lt _ i x F'), nth_error_upd_same; exact Hi).
  pose proof (sym_lt _ _ _ F Hy) as Ylt.
  assert (Ne : n8 x <> n8 y) by (intro E; apply n8_inj in E; contradiction).
  pose proof (lxor_in_vals _ _ Xlt Ylt Ne) as V.
  pose proof (polymod_upd hrp (v :: r) i x y Hy) as PM.
  assert (S0 : shift (length (v :: r) - 1 - i) (N.lxor (n8 x) (n8 y)) <> 0)
    by (apply syndrome_nonzero; [lia | exact V]).
  destruct i as [|i].
  - (* the version symbol itself *)
    cbn [upd] in *. cbn [nth_error] in Hy. inversion Hy; subst y.
    eapply reject_by_syndrome; [exact D | reflexivity | exact P | exact PM | exact S0 |].
    intros Hv Hx Hne. rewrite (lxor_01 _ _ Hx Hv Hne). apply flip_not_BM. cbn [length] in *. lia.
  - cbn [upd] in *.
    eapply reject_by_syndrome; [exact D | apply upd_length | | exact PM | exact S0 |].
    + cbn [length] in *. rewrite upd_length. exact P.
    + intros _ _ Hne. congruence.
Qed.

Lemma pair_nonzero d1 d2 e1 e2 : (d1 < NMAX)%nat -> (d2 < NMAX)%nat -> d1 <> d2 -> In e1 vals -> In e2 vals ->
  N.lxor (shift d1 e1) (shift d2 e2) <> 0.
Proof.
  intros H1 H2 Hd V1 V2 E. apply N.lxor_eq in E.
  destruct (syndromes_distinct _ _ _ _ H1 H2 V1 V2 E) as [Ed _]. contradiction.
Qed.

(* TWO substituted symbols of the data part, at different positions *)
Theorem detects_two hrp syms cs data i1 x1 y1 i2 x2 y2 cs' :
  map to_lower hrp = hrp -> to_chars syms = Some cs ->
  decode (hrp ++ sep :: cs) = DOk hrp data ->
  i1 <> i2 ->
  nth_error syms i1 = Some y1 -> x1 <> y1 ->
  nth_error syms i2 = Some y2 -> x2 <> y2 ->
  to_chars (upd (upd syms i1 x1) i2 x2) = Some cs' ->
  decode (hrp ++ sep :: cs') = DErr.
Proof.
  intros LH TC D Hi12 Hy1 Hx1 Hy2 Hx2 TC'.
  rewrite (decode_canon _ _ _ TC LH) in D. rewrite (decode_canon _ _ _ TC' LH).
  destruct (decode_spec_ok_pre _ _ _ D) as [P [v [r ->]]].
  pose proof (pre_bound _ _ P) as [B12 BN].
  pose proof (to_chars_sym_lt _ _ TC) as F. pose proof (to_chars_sym_lt _ _ TC') as F'.
  assert (Hi1 : (i1 < length (v :: r))%nat) by (apply nth_error_Some; congruence).
  assert (Hi2 : (i2 < length (v :: r))%nat) by (apply nth_error_Some; congruence).
  assert (X2lt : n8 x2 < 32).
  { apply (sym_lt _ i2 x2 F'), nth_error_upd_same. rewrite upd_length. exact Hi2. }
  assert (X1lt : n8 x1 < 32).
  { apply (sym_lt _ i1 x1 F'). rewrite nth_error_upd_other by congruence. apply nth_error_upd_same. exact Hi1. }
  pose proof (sym_lt _ _ _ F Hy1) as Y1lt. pose proof (sym_lt _ _ _ F Hy2) as Y2lt.
  assert (Ne1 : n8 x1 <> n8 y1) by (intro E; apply n8_inj in E; contradiction).
  assert (Ne2 : n8 x2 <> n8 y2) by (intro E; apply n8_inj in E; contradiction).
  pose proof (lxor_in_vals _ _ X1lt Y1lt Ne1) as V1. pose proof (lxor_in_vals _ _ X2lt Y2lt Ne2) as V2.
  assert (Hy2' : nth_error (upd (v :: r) i1 x1) i2 = Some y2) by (rewrite nth_error_upd_other by exact Hi12; exact Hy2).
  pose proof (polymod_upd hrp (upd (v :: r) i1 x1) i2 x2 y2 Hy2') as PM2.
  rewrite (polymod_upd hrp (v :: r) i1 x1 y1 Hy1), upd_length, N.lxor_assoc in PM2.
  set (d1 := (length (v :: r) - 1 - i1)%nat) in *. set (d2 := (length (v :: r) - 1 - i2)%nat) in *.
  assert (D1 : (d1 < NMAX)%nat) by (unfold d1; lia). assert (D2 : (d2 < NMAX)%nat) by (unfold d2; lia).
  assert (D12 : d1 <> d2) by (unfold d1, d2; lia).
  pose proof (pair_nonzero d1 d2 _ _ D1 D2 D12 V1 V2) as S0.
  assert (L2 : length (upd (upd (v :: r) i1 x1) i2 x2) = length (v :: r)) by (rewrite !upd_length; reflexivity).
  destruct i1 as [|i1]; destruct i2 as [|i2]; try congruence.
  - (* first substitution hits the version symbol *)
    cbn [upd] in *. cbn [nth_error] in Hy1. inversion Hy1; subst y1.
    eapply reject_by_syndrome; [exact D | apply upd_length | | exact PM2 | exact S0 |].
    + cbn [length] in *. rewrite upd_length. exact P.
    + intros Hv Hx Hne. rewrite (lxor_01 _ _ Hx Hv Hne).
      apply flip_pair_not_BM; [exact D1 | clear -Hi1 Hi2; subst d1 d2; cbn [length] in *; lia | exact V2].
  - (* second substitution hits the version symbol *)
    cbn [upd] in *. cbn [nth_error] in Hy2. inversion Hy2; subst y2.
    eapply reject_by_syndrome; [exact D | apply upd_length | | exact PM2 | exact S0 |].
    + cbn [length] in *. rewrite upd_length. exact P.
    + intros Hv Hx Hne. rewrite (lxor_01 _ _ Hx Hv Hne), N.lxor_comm.
      apply flip_pair_not_BM; [exact D2 | clear -Hi1 Hi2; subst d1 d2; cbn [length] in *; lia | exact V1].
  - cbn [upd] in *.
    eapply reject_by_syndrome; [exact D | | | exact PM2 | exact S0 |].
    + rewrite !upd_length. reflexivity.
    + cbn [length] in *. rewrite !upd_length. exact P.
    + intros _ _ Hne. congruence.
Qed.

(* ------------------------------------------------------------------ *)
(* Encode / Decode agree; the constant is selected by the version      *)
(* ------------------------------------------------------------------ *)
Lemma nth_opt_some {A} (l : list A) : forall i, i < N.of_nat (length l) -> exists c, nth_opt l i = Some c.
Proof.
  induction l as [|a l IH]; intros i H; cbn [length] in H; [lia|]. cbn [nth_opt].
  destruct (N.eqb_spec i 0); [eexists; reflexivity|]. apply IH. lia.
Qed.

Lemma to_chars_total : forall syms, Forall (fun b => n8 b < 32) syms -> exists cs, to_chars syms = Some cs.
Proof.
  induction syms as [|b syms IH]; intro F; [exists []; reflexivity|].
  inversion F as [|b' s' Hb F']; subst. destruct (IH F') as [cs E].
  destruct (nth_opt_some charset (n8 b)) as [c Ec]; [rewrite charset_length; exact Hb|].
  exists (c :: cs). cbn [to_chars]. rewrite Ec, E. reflexivity.
Qed.

Lemma checksum_symbols_lt X : Forall (fun b => n8 b < 32) (checksum_symbols X).
Proof.
  unfold checksum_symbols. apply Forall_forall. intros b Hb. apply in_map_iff in Hb as [i [<- _]].
  rewrite n8_b8. change 31 with (N.ones 5). rewrite N.land_ones.
  assert (N.shiftr X (5 * (11 - i)) mod 2 ^ 5 < 2 ^ 5) by (apply N.mod_lt; discriminate).
  change (2 ^ 5) with 32 in *. lia.
Qed.

Lemma checksum_length hrp data enc : length (create_checksum hrp data enc) = 12%nat.
Proof. reflexivity. Qed.

Lemma polymod_data_checksum hrp data enc : enc < 2 ^ 60 ->
  polymod (hrp_expand hrp ++ ints (data ++ create_checksum hrp data enc)) = enc.
Proof.
  intro He. pose proof (checksum_correct hrp data enc He) as H. unfold verify_checksum in H.
  apply N.eqb_eq in H. exact H.
Qed.

(* Encode then Decode returns the data (version symbol 0 with BLECH32, 1 with BLECH32M) *)
Theorem encode_decode hrp v r e :
  map to_lower hrp = hrp -> pre hrp (length (v :: r) + 12) = true ->
  Forall (fun b => n8 b < 32) (v :: r) -> encoding_of_version v = Some e ->
  exists s, encode hrp (v :: r) e = Some s /\ decode s = DOk hrp (v :: r).
Proof.
  intros LH P F Ev. unfold encode.
  assert (He : e < 2 ^ 60) by (apply encoding_inv in Ev as [[_ ->]|[_ ->]]; apply consts_bound).
  destruct (to_chars_total ((v :: r) ++ create_checksum hrp (v :: r) e)) as [cs TC].
  { apply Forall_app; split; [exact F | apply checksum_symbols_lt]. }
  rewrite TC. eexists; split; [reflexivity|]. change (hrp ++ [sep] ++ cs) with (hrp ++ sep :: cs).
  rewrite (decode_canon _ _ _ TC LH). unfold decode_spec.
  rewrite app_length, checksum_length, P. cbn [negb].
  destruct (Nat.eqb_spec (length (v :: r) + 12) 12) as [E|_]; [cbn [length] in E; lia|].
  cbn [app]. rewrite Ev. change (v :: r ++ create_checksum hrp (v :: r) e) with ((v :: r) ++ create_checksum hrp (v :: r) e).
  rewrite polymod_data_checksum by exact He. rewrite N.eqb_refl.
  rewrite Nat.add_sub, <- (Nat.add_0_r (length (v :: r))), firstn_app_2. cbn [firstn]. rewrite app_nil_r. reflexivity.
Qed.

(* a checksum computed with the constant of the other version is never accepted *)
Theorem wrong_constant_rejected hrp v r e e' cs :
  map to_lower hrp = hrp ->
  encoding_of_version v = Some e -> (e' = BLECH32 \/ e' = BLECH32M) -> e' <> e ->
  to_chars ((v :: r) ++ create_checksum hrp (v :: r) e') = Some cs ->
  decode (hrp ++ sep :: cs) = DErr.
Proof.
  intros LH Ev He' Hne TC. rewrite (decode_canon _ _ _ TC LH). unfold decode_spec.
  destruct (negb (pre hrp _)); [reflexivity|].
  rewrite app_length, checksum_length.
  destruct (Nat.eqb_spec (length (v :: r) + 12) 12) as [E|_]; [cbn [length] in E; lia|].
  cbn [app]. rewrite Ev. change (v :: r ++ create_checksum hrp (v :: r) e') with ((v :: r) ++ create_checksum hrp (v :: r) e').
  rewrite polymod_data_checksum by (destruct He' as [-> | ->]; apply consts_bound).
  destruct (N.eqb_spec e' e); [contradiction | reflexivity].
Qed.

(* whatever Decode accepts starts with version 0 or 1 and its polymod is the constant of that version *)
Theorem constant_selected_by_version s hrp data : decode s = DOk hrp data ->
  exists v r chk, data = v :: r /\ length chk = 12%nat /\
    ((n8 v = 0 /\ polymod (hrp_expand hrp ++ ints (data ++ chk)) = BLECH32) \/
     (n8 v = 1 /\ polymod (hrp_expand hrp ++ ints (data ++ chk)) = BLECH32M)).
Proof.
  unfold decode. destruct (decode_generic s) as [h d c| |] eqn:G; try discriminate.
  destruct d as [|v r]; [discriminate|].
  destruct (encoding_of_version v) as [e|] eqn:Ev; [|discriminate].
  unfold verify_checksum. destruct (N.eqb_spec (polymod (hrp_expand h ++ ints ((v :: r) ++ c))) e) as [E|E]; [|discriminate].
  intro H; inversion H; subst h data. exists v, r, c. split; [reflexivity|]. split.
  - unfold decode_generic in G.
    repeat match type of G with (if ?b then _ else _) = _ => destruct b; [discriminate|] end.
    destruct (last_index sep (map to_lower s)) as [one|]; [|discriminate].
    repeat match type of G with (if ?b then _ else _) = _ => destruct b; [discriminate|] end.
    destruct (to_bytes _) as [dec|]; [|discriminate].
    destruct (Nat.ltb_spec (length dec) 12) as [L|L]; [discriminate|].
    inversion G. rewrite skipn_length. lia.
  - apply encoding_inv in Ev as [[Hv ->]|[Hv ->]]; [left | right]; split; assumption.
Qed.

(* ------------------------------------------------------------------ *)
(* case rules                                                          *)
(* ------------------------------------------------------------------ *)
Definition len_bad (s : bytes) : bool := ((length s <? 8) || (1000 <? length s))%nat.
Definition case_bad (s : bytes) : bool :=
  negb (bytes_eqb s (map to_lower s)) && negb (bytes_eqb s (map to_upper s)).
Definition dg_rest (lower : bytes) : gres :=
  match last_index sep lower with
  | None => GErr
  | Some one =>
      if ((one <? 1) || (length lower <? one + 13))%nat then GErr else
      match to_bytes (skipn (one + 1) lower) with
      | None => GErr
      | Some decoded =>
          if (length decoded <? 12)%nat then GPanic else
          GOk (firstn one lower) (firstn (length decoded - 12) decoded) (skipn (length decoded - 12) decoded)
      end
  end.

Lemma decode_generic_unfold s : decode_generic s =
  if len_bad s then GErr else if negb (forallb char_ok s) then GErr else
  if case_bad s then GErr else dg_rest (map to_lower s).
Proof. reflexivity. Qed.

Lemma to_lower_upper c : to_lower (to_upper c) = to_lower c. Proof. destruct c; reflexivity. Qed.
Lemma to_lower_idem c : to_lower (to_lower c) = to_lower c. Proof. destruct c; reflexivity. Qed.
Lemma to_upper_idem c : to_upper (to_upper c) = to_upper c. Proof. destruct c; reflexivity. Qed.
Lemma char_ok_upper c : char_ok (to_upper c) = char_ok c. Proof. destruct c; reflexivity. Qed.
Lemma char_ok_lower c : char_ok (to_lower c) = char_ok c. Proof. destruct c; reflexivity. Qed.

Lemma forallb_map {A B} (f : A -> B) (p : B -> bool) l : forallb p (map f l) = forallb (fun x => p (f x)) l.
Proof. induction l as [|a l IH]; cbn; [reflexivity | rewrite IH; reflexivity]. Qed.

Lemma forallb_ext' {A} (p q : A -> bool) l : (forall x, p x = q x) -> forallb p l = forallb q l.
Proof. intro H. induction l as [|a l IH]; cbn; [reflexivity | rewrite H, IH; reflexivity]. Qed.

Lemma decode_generic_lower s : decode_generic (map to_lower s) =
  if len_bad s then GErr else if negb (forallb char_ok s) then GErr else dg_rest (map to_lower s).
Proof.
  rewrite decode_generic_unfold. unfold len_bad, case_bad. rewrite map_length.
  rewrite forallb_map, (forallb_ext' _ char_ok s char_ok_lower).
  rewrite !map_map, (map_ext _ _ to_lower_idem), bytes_eqb_refl. reflexivity.
Qed.

Lemma decode_generic_upper s : decode_generic (map to_upper s) =
  if len_bad s then GErr else if negb (forallb char_ok s) then GErr else dg_rest (map to_lower s).
Proof.
  rewrite decode_generic_unfold. unfold len_bad, case_bad. rewrite map_length.
  rewrite forallb_map, (forallb_ext' _ char_ok s char_ok_upper).
  rewrite !map_map, (map_ext _ _ to_upper_idem), (map_ext _ _ to_lower_upper), bytes_eqb_refl, andb_false_r. reflexivity.
Qed.

(* the upper-case and the lower-case spelling of ANY string decode alike *)
Theorem case_insensitive s : decode (map to_upper s) = decode (map to_lower s).
Proof. unfold decode. rewrite decode_generic_upper, decode_generic_lower. reflexivity. Qed.

(* and an accepted string decodes like both of its single-case spellings *)
Theorem accepted_case_spellings s hrp data : decode s = DOk hrp data ->
  decode (map to_lower s) = DOk hrp data /\ decode (map to_upper s) = DOk hrp data.
Proof.
  intro H. rewrite case_insensitive. assert (E : decode (map to_lower s) = decode s); [|rewrite E; tauto].
  unfold decode in *. rewrite decode_generic_lower. rewrite decode_generic_unfold in *.
  destruct (len_bad s); [discriminate|]. destruct (negb (forallb char_ok s)); [discriminate|].
  destruct (case_bad s); [discriminate | reflexivity].
Qed.

Definition is_lower_letter (c : byte) : bool := (97 <=? n8 c) && (n8 c <=? 122).
Definition is_upper_letter (c : byte) : bool := (65 <=? n8 c) && (n8 c <=? 90).

Lemma map_fix_in {A} (f : A -> A) l : map f l = l -> forall x, In x l -> f x = x.
Proof.
  induction l as [|a l IH]; intros E x Hx; [destruct Hx|]. cbn [map] in E. inversion E as [[E1 E2]].
  destruct Hx as [<-|Hx]; [exact E1 | apply IH; assumption].
Qed.

Lemma upper_letter_moves c : is_upper_letter c = true -> to_lower c <> c.
Proof. destruct c; cbn; intro H; try discriminate H; discriminate. Qed.
Lemma lower_letter_moves c : is_lower_letter c = true -> to_upper c <> c.
Proof. destruct c; cbn; intro H; try discriminate H; discriminate. Qed.

(* any string containing both a lower-case and an upper-case letter is rejected *)
Theorem mixed_case_rejected s a b : In a s -> is_lower_letter a = true -> In b s -> is_upper_letter b = true ->
  decode s = DErr.
Proof.
  intros Ha La Hb Ub. unfold decode. rewrite decode_generic_unfold.
  destruct (len_bad s); [reflexivity|]. destruct (negb (forallb char_ok s)); [reflexivity|].
  assert (C : case_bad s = true); [|rewrite C; reflexivity].
  unfold case_bad. apply andb_true_iff; split; apply negb_true_iff.
  - destruct (bytes_eqb s (map to_lower s)) eqn:E; [|reflexivity]. apply bytes_eqb_eq in E.
    exfalso. apply (upper_letter_moves b Ub). apply (map_fix_in to_lower s); [symmetry; exact E | exact Hb].
  - destruct (bytes_eqb s (map to_upper s)) eqn:E; [|reflexivity]. apply bytes_eqb_eq in E.
    exfalso. apply (lower_letter_moves a La). apply (map_fix_in to_upper s); [symmetry; exact E | exact Ha].
Qed.

(* ------------------------------------------------------------------ *)
(* the hypotheses are satisfiable: a testnet address produced by the   *)
(* implementation (v0, 20-byte program, 33-byte blinding key)          *)
(* ------------------------------------------------------------------ *)
Definition ex_hrp : bytes := map b8 [116; 108; 113].   (* "tlq" *)
Definition ex_syms : bytes := map b8 [0; 23; 21; 22; 29; 15; 13; 5; 4; 11; 5; 0; 20; 12; 26; 31; 31; 6; 6; 30; 14; 15; 31; 8; 3; 31; 25; 22; 28; 14; 10; 26; 13; 13; 22; 2; 19; 30; 27; 25; 14; 24; 3; 1; 8; 31; 29; 18; 14; 21; 10; 19; 22; 5; 13; 19; 0; 14; 5; 3; 17; 2; 15; 4; 21; 29; 23; 12; 17; 23; 20; 12; 20; 22; 9; 29; 5; 21; 4; 20; 26; 16; 22; 1; 10; 18; 10; 22; 11; 8; 22; 30; 4; 0; 4; 21; 5; 13].
Definition ex_addr : option bytes := encode ex_hrp (firstn 86 ex_syms) BLECH32.

Example ex_valid : exists cs, to_chars ex_syms = Some cs /\ map to_lower ex_hrp = ex_hrp /\
  ex_addr = Some (ex_hrp ++ sep :: cs) /\
  decode (ex_hrp ++ sep :: cs) = DOk ex_hrp (firstn 86 ex_syms) /\
  nth_error ex_syms 5 = Some (b8 15) /\
  (exists cs', to_chars (upd ex_syms 5 (b8 22)) = Some cs' /\ decode (ex_hrp ++ sep :: cs') = DErr).
Proof.
  eexists. split; [vm_compute; reflexivity|]. split; [reflexivity|]. split; [vm_compute; reflexivity|].
  split; [vm_compute; reflexivity|]. split; [reflexivity|].
  eexists. split; vm_compute; reflexivity.
Qed.

(* ------------------------------------------------------------------ *)
(* every accepted string has the shape the substitution theorems use   *)
(* ------------------------------------------------------------------ *)
Lemma index_of_nth c : forall l k i, index_of c l k = Some i -> k <= i /\ nth_opt l (i - k) = Some c.
Proof.
  induction l as [|x l IH]; intros k i H; cbn [index_of] in H; [discriminate|].
  destruct (beqb x c) eqn:E.
  - inversion H; subst i. apply beqb_eq in E. subst x. split; [lia|]. rewrite N.sub_diag. reflexivity.
  - apply IH in H as [H1 H2]. split; [lia|]. cbn [nth_opt].
    destruct (N.eqb_spec (i - k) 0) as [Z|Z]; [lia|]. replace (i - k - 1) with (i - (k + 1)) by lia. exact H2.
Qed.

Lemma to_bytes_to_chars : forall cs dec, to_bytes cs = Some dec -> to_chars dec = Some cs.
Proof.
  induction cs as [|c cs IH]; intros dec H; cbn [to_bytes] in H.
  - inversion H. reflexivity.
  - destruct (index_of c charset 0) as [i|] eqn:E; [|discriminate].
    destruct (to_bytes cs) as [d|] eqn:E'; [|discriminate]. inversion H; subst dec.
    apply index_of_nth in E as [_ E]. rewrite N.sub_0_r in E.
    pose proof (nth_opt_lt _ _ _ E) as L. rewrite charset_length in L. change (N.of_nat 32) with 32 in L.
    cbn [to_chars]. rewrite n8_b8, N.mod_small by lia. rewrite E, (IH d eq_refl). reflexivity.
Qed.

Lemma last_index_from_some c : forall s i acc k, last_index_from c s i acc = Some k ->
  acc = Some k \/ ((i <= k)%nat /\ nth_error s (k - i) = Some c).
Proof.
  induction s as [|x s IH]; intros i acc k H; cbn [last_index_from] in H; [left; exact H|].
  apply IH in H as [H|[H1 H2]].
  - destruct (beqb x c) eqn:E; [|left; exact H].
    inversion H; subst k. right. split; [lia|]. rewrite Nat.sub_diag. apply beqb_eq in E. subst. reflexivity.
  - right. split; [lia|]. replace (k - i)%nat with (S (k - S i)) by lia. exact H2.
Qed.

Lemma split_at {A} (l : list A) : forall k c, nth_error l k = Some c -> l = firstn k l ++ c :: skipn (k + 1) l.
Proof.
  induction l as [|a l IH]; intros [|k] c H; cbn in H; try discriminate.
  - inversion H. reflexivity.
  - cbn [firstn skipn Nat.add app]. f_equal. apply IH. exact H.
Qed.

Theorem accepted_shape s hrp data : decode s = DOk hrp data ->
  exists syms cs, to_chars syms = Some cs /\ map to_lower s = hrp ++ sep :: cs /\
                  map to_lower hrp = hrp /\ data = firstn (length syms - 12) syms.
Proof.
  unfold decode. destruct (decode_generic s) as [h d c| |] eqn:G; try discriminate.
  destruct d as [|v r]; [discriminate|]. destruct (encoding_of_version v); [|discriminate].
  destruct (verify_checksum h ((v :: r) ++ c) n); [|discriminate].
  intro H; inversion H; subst h data. clear H.
  rewrite decode_generic_unfold in G.
  destruct (len_bad s); [discriminate|]. destruct (negb (forallb char_ok s)); [discriminate|].
  destruct (case_bad s); [discriminate|]. unfold dg_rest in G.
  set (lower := map to_lower s) in *.
  destruct (last_index sep lower) as [one|] eqn:LI; [|discriminate].
  destruct ((one <? 1)%nat || (length lower <? one + 13)%nat); [discriminate|].
  destruct (to_bytes (skipn (one + 1) lower)) as [dec|] eqn:TB; [|discriminate].
  destruct (length dec <? 12)%nat; [discriminate|]. inversion G as [[G1 G2 G3]].
  exists dec, (skipn (one + 1) lower). split; [apply to_bytes_to_chars; exact TB|]. split; [|split].
  - unfold last_index in LI. apply last_index_from_some in LI as [LI|[_ LI]]; [discriminate|].
    rewrite Nat.sub_0_r in LI. apply split_at. exact LI.
  - unfold lower. rewrite firstn_map, map_map. apply map_ext. apply to_lower_idem.
  - reflexivity.
Qed.

(* ------------------------------------------------------------------ *)
(* Decode then Encode: an accepted string re-encodes to its lower-case  *)
(* spelling (the twelve checksum symbols are determined by the rest)    *)
(* ------------------------------------------------------------------ *)
Fixpoint digits (k : nat) (X : N) : list N :=
  match k with O => [] | S k' => digits k' (X / 32) ++ [X mod 32] end.

Lemma digits_length k : forall X, length (digits k X) = k.
Proof. induction k as [|k IH]; intro X; cbn [digits]; [reflexivity|]. rewrite app_length, IH. cbn. lia. Qed.

Lemma pack_digits : forall l, (length l <= 12)%nat -> Forall (fun v => v < 32) l ->
  polymod_from 0 l < 32 ^ N.of_nat (length l) /\ digits (length l) (polymod_from 0 l) = l.
Proof.
  induction l as [|s l IH] using rev_ind; intros L F.
  - split; reflexivity.
  - rewrite app_length in *. cbn [length] in *. apply Forall_app in F as [F Fs]. inversion Fs as [|s' t Hs _]; subst.
    destruct (IH ltac:(lia) F) as [B D].
    rewrite polymod_from_app. unfold polymod_from at 1 3. cbn [fold_left].
    assert (B55 : polymod_from 0 l < 2 ^ 55).
    { eapply N.lt_le_trans; [exact B|]. change 32 with (2 ^ 5). rewrite <- N.pow_mul_r. apply N.pow_le_mono_r; lia. }
    rewrite step_small by assumption.
    replace (length l + 1)%nat with (S (length l)) by lia. split.
    + rewrite Nnat.Nat2N.inj_succ, N.pow_succ_r'. lia.
    + cbn [digits]. replace ((polymod_from 0 l * 32 + s) / 32) with (polymod_from 0 l) by lia.
      replace ((polymod_from 0 l * 32 + s) mod 32) with s by lia. rewrite D. reflexivity.
Qed.

Lemma syms12_digits X : syms12 X = digits 12 X.
Proof.
  unfold syms12, idx12. cbn [map digits app].
  repeat (f_equal; [change 31 with (N.ones 5); rewrite N.land_ones, N.shiftr_div_pow2, ?N.div_div by discriminate; reflexivity|]).
  f_equal. change (5 * (11 - 11)) with 0. rewrite N.shiftr_0_r. change 31 with (N.ones 5). apply N.land_ones.
Qed.

Lemma xor_list_zeros l : xor_list (repeat 0 (length l)) l = l.
Proof. induction l as [|a l IH]; cbn [length repeat xor_list]; [reflexivity|]. rewrite N.lxor_0_l, IH. reflexivity. Qed.

Lemma ints_inj a b : ints a = ints b -> a = b.
Proof.
  revert b; induction a as [|x a IH]; intros [|y b] H; cbn in H; try discriminate; [reflexivity|].
  inversion H as [[H1 H2]]. apply n8_inj in H1. apply IH in H2. congruence.
Qed.

Theorem checksum_unique hrp data chk e : length chk = 12%nat -> Forall (fun b => n8 b < 32) chk ->
  polymod (hrp_expand hrp ++ ints (data ++ chk)) = e -> create_checksum hrp data e = chk.
Proof.
  intros L F PM. unfold create_checksum. apply ints_inj. rewrite ints_checksum_symbols.
  assert (Fi : Forall (fun v => v < 32) (ints chk)).
  { unfold ints. apply Forall_forall. intros v Hv. apply in_map_iff in Hv as [b [<- Hb]].
    rewrite Forall_forall in F. apply F. exact Hb. }
  assert (Li : length (ints chk) = 12%nat) by (unfold ints; rewrite map_length; exact L).
  destruct (pack_digits (ints chk) ltac:(lia) Fi) as [_ D]. rewrite Li in D.
  rewrite syms12_digits, <- D. f_equal.
  unfold ints in PM at 1. rewrite map_app in PM. fold (ints data) in PM. fold (ints chk) in PM.
  unfold polymod in *. rewrite app_assoc, polymod_from_app in PM. rewrite !app_assoc, polymod_from_app.
  set (c := polymod_from 1 (hrp_expand hrp ++ ints data)) in *.
  rewrite <- (xor_list_zeros (ints chk)), Li in PM.
  rewrite <- (N.lxor_0_r c) in PM at 1. rewrite polymod_linear in PM by (rewrite Li; reflexivity).
  apply lxor_move. exact PM.
Qed.

Theorem decode_encode s hrp data : decode s = DOk hrp data ->
  exists v r e, data = v :: r /\ encoding_of_version v = Some e /\ encode hrp data e = Some (map to_lower s).
Proof.
  intro D. destruct (accepted_shape s hrp data D) as (syms & cs & TC & Sh & LH & Ed).
  apply accepted_case_spellings in D as [D _]. rewrite Sh, (decode_canon _ _ _ TC LH) in D.
  unfold decode_spec in D. destruct (pre hrp (length syms)) eqn:P; [|discriminate]. cbn [negb] in D.
  destruct (Nat.eqb_spec (length syms) 12) as [E12|N12]; [discriminate|].
  destruct syms as [|v r0] eqn:Es; [discriminate|]. rewrite <- Es in *.
  destruct (encoding_of_version v) as [e|] eqn:Ev; [|discriminate].
  destruct (N.eqb_spec (polymod (hrp_expand hrp ++ ints syms)) e) as [PM|]; [|discriminate].
  apply pre_bound in P as [B12 _].
  assert (Split : syms = data ++ skipn (length syms - 12) syms) by (rewrite Ed; symmetry; apply firstn_skipn).
  assert (Lc : length (skipn (length syms - 12) syms) = 12%nat) by (rewrite skipn_length; lia).
  assert (Fc : Forall (fun b => n8 b < 32) (skipn (length syms - 12) syms)).
  { pose proof (to_chars_sym_lt _ _ TC) as F. rewrite <- (firstn_skipn (length syms - 12) syms) in F.
    apply Forall_app in F. tauto. }
  rewrite Split in PM at 1.
  pose proof (checksum_unique hrp data _ e Lc Fc PM) as CU.
  assert (Dv : exists r, data = v :: r).
  { rewrite Ed, Es. replace (length (v :: r0) - 12)%nat with (S (length r0 - 12)) by (rewrite Es in *; cbn [length] in *; lia).
    cbn [firstn]. eexists; reflexivity. }
  destruct Dv as [r Dv]. exists v, r, e. split; [exact Dv|]. split; [exact Ev|].
  unfold encode. rewrite CU, <- Split, TC, Sh. reflexivity.
Qed.

Lemma decode_data_syms s hrp data : decode s = DOk hrp data -> Forall (fun b => n8 b < 32) data.
Proof.
  intro D. destruct (accepted_shape s hrp data D) as (syms & cs & TC & _ & _ & ->).
  pose proof (to_chars_sym_lt _ _ TC) as F. rewrite <- (firstn_skipn (length syms - 12) syms) in F.
  apply Forall_app in F. tauto.
Qed.

Lemma sep_lower x : beqb (to_lower x) sep = beqb x sep.
Proof. destruct x; reflexivity. Qed.

Lemma last_index_lower s : last_index sep (map to_lower s) = last_index sep s.
Proof.
  unfold last_index. generalize O (@None nat). induction s as [|x s IH]; intros i acc; cbn [map last_index_from]; [reflexivity|].
  rewrite sep_lower. apply IH.
Qed.
