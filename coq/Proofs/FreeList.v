(* Proofs/FreeList.v — the free-list protocol of internal/bufferutil under EVERY schedule.

   exclusive_ownership : at every point of every schedule a scratch buffer is owned by at
     most one goroutine and never both owned and on the free list;
   free_list_bounded   : the channel never holds more than its capacity;
   each_write_emits_its_own_value : the bytes a goroutine has written to its own stream
     are exactly the little-endian encodings of its own values, in program order, and
     every value a read returned is the decoding of the bytes that goroutine consumed.
   All by induction on the schedule (Lib/Sched.run_invariant), for any number of
   goroutines, any programs, any channel capacity.
   early_return_breaks_*: in the protocol that returns the buffer before its last use a
   schedule exists in which a goroutine emits / returns another goroutine's value. *)
From GE Require Import Lib.Bytes Lib.Sched Model.FreeList.
From Coq Require Import ZifyBool ZifyN ZifyNat.
Open Scope nat_scope.
Import FL.

(* ---------- list plumbing ---------- *)
Lemma length_set_nth {A} (l : list A) k x : length (set_nth l k x) = length l.
Proof. revert k; induction l as [|y t IH]; intros [|k]; cbn; auto. Qed.

Lemma nth_error_set_nth {A} (l : list A) k x j :
  nth_error (set_nth l k x) j = if Nat.eqb j k then (if k <? length l then Some x else None) else nth_error l j.
Proof.
  revert k j; induction l as [|y t IH]; intros k j.
  - cbn. destruct k, j; cbn; auto. destruct (Nat.eqb j k); auto.
  - destruct k, j; cbn [set_nth nth_error Nat.eqb length]; auto.
    rewrite IH. destruct (Nat.eqb j k); auto.
Qed.

Lemma nth_set_nth_same {A} (l : list A) k x d : k < length l -> nth k (set_nth l k x) d = x.
Proof. revert k; induction l as [|y t IH]; intros [|k] H; cbn in *; try lia; auto. apply IH; lia. Qed.

Lemma nth_set_nth_other {A} (l : list A) k j x d : j <> k -> nth j (set_nth l k x) d = nth j l d.
Proof. revert k j; induction l as [|y t IH]; intros [|k] [|j] H; cbn; auto; try lia. Qed.

Lemma map_set_nth {A B} (f : A -> B) (l : list A) k x : map f (set_nth l k x) = set_nth (map f l) k (f x).
Proof. revert k; induction l as [|y t IH]; intros [|k]; cbn; auto. f_equal. apply IH. Qed.

Lemma set_nth_same {A} (l : list A) k x : nth_error l k = Some x -> set_nth l k x = l.
Proof.
  revert k; induction l as [|y t IH]; intros [|k] H; cbn in *; try discriminate; auto.
  - inversion H; auto.
  - f_equal. apply IH; auto.
Qed.

(* ---------- ownership invariant (over: channel, number of buffers, who holds what) ---------- *)
Definition G (cap : nat) (ch : list nat) (nb : nat) (hs : list (option nat)) : Prop :=
  NoDup ch /\
  (forall i b, nth_error hs i = Some (Some b) -> ~ In b ch) /\
  (forall i j b, i <> j -> nth_error hs i = Some (Some b) -> nth_error hs j = Some (Some b) -> False) /\
  length ch <= cap /\
  (forall b, In b ch -> b < nb) /\
  (forall i b, nth_error hs i = Some (Some b) -> b < nb).

Inductive shape (cap : nat) (ch : list nat) (bs : list bytes) (ho : option nat)
                (ch' : list nat) (bs' : list bytes) (ho' : option nat) : Prop :=
  | sh_recv b : ch = b :: ch' -> bs' = bs -> ho = None -> ho' = Some b -> shape cap ch bs ho ch' bs' ho'
  | sh_alloc : ch = [] -> ch' = [] -> bs' = bs ++ [zeros8] -> ho = None -> ho' = Some (length bs) ->
               shape cap ch bs ho ch' bs' ho'
  | sh_local b x : ch' = ch -> ho = Some b -> ho' = Some b -> bs' = set_nth bs b x -> shape cap ch bs ho ch' bs' ho'
  | sh_return b : ho = Some b -> ho' = None -> bs' = bs -> ch' = send cap ch b -> shape cap ch bs ho ch' bs' ho'
  | sh_quiet : ch' = ch -> bs' = bs -> ho' = ho -> shape cap ch bs ho ch' bs' ho'.

Lemma recv_or_alloc_shape cap ch bs c bs' b : recv_or_alloc ch bs = (c, bs', b) ->
  shape cap ch bs None c bs' (Some b).
Proof.
  unfold recv_or_alloc. destruct ch as [|b0 r]; intros E; inversion E; subst.
  - apply sh_alloc; auto.
  - eapply sh_recv; eauto.
Qed.

Lemma tstep_shape cap ch bs t c bs' t' : tstep false cap ch bs t = (c, bs', t') ->
  shape cap ch bs (holds (t_pc t)) c bs' (holds (t_pc t')).
Proof.
  unfold tstep. destruct (t_pc t) as [|b n v|b n v|b n v|b n v|b n|b n ok x|b n x v|b n x] eqn:P.
  - destruct (t_todo t) as [|[n v|n] r].
    + intros E; inversion E; subst. rewrite P. apply sh_quiet; auto.
    + destruct (recv_or_alloc ch bs) as [[c0 bs0] b0] eqn:R. intros E; inversion E; subst.
      cbn [set_pc t_pc holds]. eapply recv_or_alloc_shape; eauto.
    + destruct (recv_or_alloc ch bs) as [[c0 bs0] b0] eqn:R. intros E; inversion E; subst.
      cbn [set_pc t_pc holds]. eapply recv_or_alloc_shape; eauto.
  - unfold bput. intros E; inversion E; subst. cbn [set_pc t_pc holds]. eapply sh_local; reflexivity.
  - intros E; inversion E; subst. cbn [set_pc set_out t_pc holds]. apply sh_quiet; auto.
  - intros E; inversion E; subst. cbn [finish t_pc holds]. eapply sh_return; eauto.
  - intros E; inversion E; subst. cbn [finish set_out t_pc holds]. apply sh_quiet; auto.
  - unfold bput. destruct (n <=? length (t_in t)); intros E; inversion E; subst; cbn [set_pc set_in t_pc holds];
      eapply sh_local; reflexivity.
  - destruct ok; intros E; inversion E; subst.
    + cbn [set_pc t_pc holds]. apply sh_quiet; auto.
    + cbn [add_res finish t_pc holds]. eapply sh_return; eauto.
  - intros E; inversion E; subst. cbn [add_res finish t_pc holds]. eapply sh_return; eauto.
  - intros E; inversion E; subst. cbn [add_res finish t_pc holds]. apply sh_quiet; auto.
Qed.

Lemma hs_lookup {A} (hs : list A) i ho' j x : nth_error (set_nth hs i ho') j = Some x ->
  (j = i /\ x = ho') \/ (j <> i /\ nth_error hs j = Some x).
Proof.
  rewrite nth_error_set_nth. destruct (Nat.eqb_spec j i) as [->|Hne].
  - destruct (i <? length hs); intros E; inversion E; auto.
  - auto.
Qed.

Lemma NoDup_app_one {A} (l : list A) x : NoDup l -> ~ In x l -> NoDup (l ++ [x]).
Proof.
  induction l as [|y t IH]; intros N H; cbn.
  - constructor; [intros []|constructor].
  - inversion N; subst. constructor.
    + intros Hin. apply in_app_or in Hin. destruct Hin as [Hin|[<-|[]]]; auto. apply H. left; auto.
    + apply IH; auto. intros Hin. apply H. right; auto.
Qed.

Ltac six := split; [|split; [|split; [|split; [|split]]]].

Lemma G_preserved cap ch bs hs i ho ch' bs' ho' :
  G cap ch (length bs) hs -> nth_error hs i = Some ho -> shape cap ch bs ho ch' bs' ho' ->
  G cap ch' (length bs') (set_nth hs i ho').
Proof.
  intros (G1 & G2 & G3 & G4 & G5 & G6) Hi S.
  destruct S as [b E1 E2 E3 E4 | E1 E2 E3 E4 E5 | b x E1 E2 E3 E4 | b E1 E2 E3 E4 | E1 E2 E3]; subst.
  - (* receive b *)
    inversion G1 as [|? ? Nb Nd]; subst. six.
    + exact Nd.
    + intros j c Hj. apply hs_lookup in Hj. destruct Hj as [[-> E]|[Hne Hj]].
      * inversion E; subst. exact Nb.
      * intros Hin. apply (G2 j c Hj). right; auto.
    + intros j k c Hjk Hj Hk. apply hs_lookup in Hj. apply hs_lookup in Hk.
      destruct Hj as [[-> Ej]|[Nj Hj]], Hk as [[-> Ek]|[Nk Hk]]; try congruence.
      * inversion Ej; subst. apply (G2 k _ Hk). left; auto.
      * inversion Ek; subst. apply (G2 j _ Hj). left; auto.
      * exact (G3 j k c Hjk Hj Hk).
    + cbn in G4. lia.
    + intros c Hc. apply G5. right; auto.
    + intros j c Hj. apply hs_lookup in Hj. destruct Hj as [[-> E]|[Hne Hj]].
      * inversion E; subst. apply G5. left; auto.
      * eapply G6; eauto.
  - (* allocate *)
    rewrite app_length. cbn [length]. six.
    + constructor.
    + intros j c Hj [].
    + intros j k c Hjk Hj Hk. apply hs_lookup in Hj. apply hs_lookup in Hk.
      destruct Hj as [[-> Ej]|[Nj Hj]], Hk as [[-> Ek]|[Nk Hk]]; try congruence.
      * inversion Ej; subst. specialize (G6 k _ Hk). lia.
      * inversion Ek; subst. specialize (G6 j _ Hj). lia.
      * exact (G3 j k c Hjk Hj Hk).
    + cbn; lia.
    + intros c [].
    + intros j c Hj. apply hs_lookup in Hj. destruct Hj as [[-> E]|[Hne Hj]].
      * inversion E; subst. lia.
      * specialize (G6 j c Hj). lia.
  - (* local write into the owned buffer *)
    rewrite length_set_nth. rewrite (set_nth_same hs i (Some b) Hi). six; auto.
  - (* return b *)
    assert (Nb : ~ In b ch) by (eapply G2; eauto).
    assert (Other : forall j c, j <> i -> nth_error hs j = Some (Some c) -> c <> b).
    { intros j c Hne Hj ->. exact (G3 j i b Hne Hj Hi). }
    unfold send. six.
    + destruct (length ch <? cap); auto. apply NoDup_app_one; auto.
    + intros j c Hj. apply hs_lookup in Hj. destruct Hj as [[-> E]|[Hne Hj]]; [discriminate|].
      destruct (length ch <? cap); [|eapply G2; eauto].
      intros Hin. apply in_app_or in Hin. destruct Hin as [Hin|[<-|[]]].
      * eapply G2; eauto.
      * eapply Other; eauto.
    + intros j k c Hjk Hj Hk. apply hs_lookup in Hj. apply hs_lookup in Hk.
      destruct Hj as [[-> Ej]|[Nj Hj]], Hk as [[-> Ek]|[Nk Hk]]; try discriminate. exact (G3 j k c Hjk Hj Hk).
    + destruct (length ch <? cap) eqn:E; auto. apply Nat.ltb_lt in E. rewrite app_length. cbn. lia.
    + intros c Hc. destruct (length ch <? cap); auto.
      apply in_app_or in Hc. destruct Hc as [Hc|[<-|[]]]; auto. eapply G6; eauto.
    + intros j c Hj. apply hs_lookup in Hj. destruct Hj as [[-> E]|[Hne Hj]]; [discriminate|]. eapply G6; eauto.
  - (* nothing shared touched *)
    rewrite (set_nth_same hs i ho Hi). six; auto.
Qed.

(* ---------- per-goroutine content invariant ---------- *)
Definition cur_op (p : pc) : option op :=
  match p with
  | Idle => None
  | PBorrowed _ n v | PFilled _ n v | PWritten _ n v | PReturned _ n v => Some (Put n v)
  | GBorrowed _ n | GRead _ n _ _ | GDecoded _ n _ _ | GReturned _ n _ => Some (Get n)
  end.
Definition res_ok (e : bytes * option N) : Prop :=
  match snd e with Some v => v = le_dec (fst e) | None => True end.

Definition T (bs : list bytes) (t : thread) : Prop :=
  t_done t ++ t_todo t = t_prog t /\
  match cur_op (t_pc t) with Some o => exists r, t_todo t = o :: r | None => True end /\
  Forall res_ok (t_res t) /\
  match t_pc t with
  | PWritten _ n v => t_out t = spec_out (t_done t ++ [Put n v])
  | PReturned _ _ _ | GReturned _ _ _ => False
  | PFilled b n v => t_out t = spec_out (t_done t) /\ firstn n (bget bs b) = le_enc n v
  | GRead b n true x => t_out t = spec_out (t_done t) /\ firstn n (bget bs b) = x
  | GDecoded b n x v => t_out t = spec_out (t_done t) /\ v = le_dec x
  | _ => t_out t = spec_out (t_done t)
  end.

Lemma spec_out_snoc d o : spec_out (d ++ [o]) = spec_out d ++ enc_op o.
Proof. unfold spec_out. rewrite map_app, concat_app. cbn. rewrite app_nil_r. reflexivity. Qed.

Lemma T_frame bs bs' t : T bs t ->
  (forall b, holds (t_pc t) = Some b -> bget bs' b = bget bs b) -> T bs' t.
Proof.
  intros (A & B & C & D) H. repeat split; auto.
  destruct (t_pc t) as [|b n v|b n v|b n v|b n v|b n|b n ok x|b n x v|b n x]; auto.
  - rewrite (H b eq_refl). exact D.
  - destruct ok; auto. rewrite (H b eq_refl). exact D.
Qed.

Lemma bget_bput_front bs b x n : b < length bs -> length x = n -> firstn n (bget (bput bs b x) b) = x.
Proof.
  intros Hb Hx. unfold bput, bget. rewrite nth_set_nth_same by auto.
  rewrite firstn_app, Hx, Nat.sub_diag. cbn [firstn]. rewrite app_nil_r. apply firstn_all2. lia.
Qed.

Lemma T_self cap ch bs t c bs' t' : T bs t ->
  (forall b, holds (t_pc t) = Some b -> b < length bs) ->
  tstep false cap ch bs t = (c, bs', t') -> T bs' t'.
Proof.
  intros (A & B & C & D) Hb. unfold tstep.
  destruct (t_pc t) as [|b n v|b n v|b n v|b n v|b n|b n ok x|b n x v|b n x] eqn:P; cbn [cur_op holds] in *.
  - destruct (t_todo t) as [|[n v|n] r] eqn:Q.
    + intros E; inversion E; subst. unfold T. rewrite P, Q. cbn [cur_op]. auto.
    + destruct (recv_or_alloc ch bs) as [[c0 bs0] b0]. intros E; inversion E; subst.
      unfold T. cbn [set_pc t_done t_todo t_prog t_pc t_res t_out cur_op]. rewrite Q. repeat split; eauto.
    + destruct (recv_or_alloc ch bs) as [[c0 bs0] b0]. intros E; inversion E; subst.
      unfold T. cbn [set_pc t_done t_todo t_prog t_pc t_res t_out cur_op]. rewrite Q. repeat split; eauto.
  - intros E; inversion E; subst. unfold T. cbn [set_pc t_done t_todo t_prog t_pc t_res t_out cur_op].
    repeat split; auto. apply bget_bput_front; [apply Hb; auto | apply le_enc_length].
  - intros E; inversion E; subst. destruct D as [D1 D2].
    unfold T. cbn [set_pc set_out t_done t_todo t_prog t_pc t_res t_out cur_op].
    repeat split; auto. rewrite spec_out_snoc, D1, D2. reflexivity.
  - intros E; inversion E; subst. destruct B as [r Q].
    unfold T. cbn [finish t_done t_todo t_prog t_pc t_res t_out cur_op]. rewrite Q. cbn [tl].
    repeat split; auto. rewrite <- A, Q, <- app_assoc. reflexivity.
  - destruct D.
  - destruct (n <=? length (t_in t)) eqn:L; intros E; inversion E; subst;
      unfold T; cbn [set_pc set_in t_done t_todo t_prog t_pc t_res t_out cur_op]; repeat split; auto.
    apply bget_bput_front; [apply Hb; auto|]. apply Nat.leb_le in L. rewrite firstn_length. lia.
  - destruct B as [r Q]. destruct ok; intros E; inversion E; subst.
    + destruct D as [D1 D2]. unfold T. cbn [set_pc t_done t_todo t_prog t_pc t_res t_out cur_op].
      repeat split; eauto. rewrite D2. reflexivity.
    + unfold T. cbn [add_res finish t_done t_todo t_prog t_pc t_res t_out cur_op]. rewrite Q. cbn [tl].
      repeat split; auto.
      * rewrite <- A, Q, <- app_assoc. reflexivity.
      * apply Forall_app. split; auto. constructor; [exact I|constructor].
      * rewrite spec_out_snoc. cbn [enc_op]. rewrite app_nil_r. exact D.
  - destruct B as [r Q]. destruct D as [D1 D2]. intros E; inversion E; subst.
    unfold T. cbn [add_res finish t_done t_todo t_prog t_pc t_res t_out cur_op]. rewrite Q. cbn [tl].
    repeat split; auto.
    + rewrite <- A, Q, <- app_assoc. reflexivity.
    + apply Forall_app. split; auto. constructor; [reflexivity|constructor].
    + rewrite spec_out_snoc. cbn [enc_op]. rewrite app_nil_r. exact D1.
  - destruct D.
Qed.

Lemma shape_bget cap ch bs ho ch' bs' ho' : shape cap ch bs ho ch' bs' ho' ->
  forall b, b < length bs -> Some b <> ho -> bget bs' b = bget bs b.
Proof.
  intros S b Hb Hne.
  destruct S as [b0 E1 E2 E3 E4 | E1 E2 E3 E4 E5 | b0 x E1 E2 E3 E4 | b0 E1 E2 E3 E4 | E1 E2 E3]; subst; auto.
  - unfold bget. apply app_nth1; auto.
  - unfold bget. apply nth_set_nth_other. congruence.
Qed.

(* ---------- the invariant of every reachable state ---------- *)
Definition hs_of (st : state) : list (option nat) := map (fun t => holds (t_pc t)) (threads st).
Definition Inv (cap : nat) (st : state) : Prop :=
  G cap (chan st) (length (bufs st)) (hs_of st) /\
  (forall i t, nth_error (threads st) i = Some t -> T (bufs st) t).

Lemma hs_of_nth st i t : nth_error (threads st) i = Some t -> nth_error (hs_of st) i = Some (holds (t_pc t)).
Proof. intros H. unfold hs_of. exact (map_nth_error (fun t => holds (t_pc t)) i (threads st) H). Qed.

Lemma step_preserves cap st i : Inv cap st -> Inv cap (step false cap st i).
Proof.
  intros [HG HT]. unfold step. destruct (nth_error (threads st) i) as [t|] eqn:Ni; [|split; auto].
  destruct (tstep false cap (chan st) (bufs st) t) as [[c bs'] t'] eqn:E.
  pose proof (tstep_shape _ _ _ _ _ _ _ E) as S.
  assert (Hi : nth_error (hs_of st) i = Some (holds (t_pc t))) by (apply hs_of_nth; auto).
  split.
  - unfold hs_of. cbn [chan bufs threads]. rewrite map_set_nth. eapply G_preserved; eauto.
  - cbn [chan bufs threads]. intros j tj Hj. apply hs_lookup in Hj.
    destruct HG as (G1 & G2 & G3 & G4 & G5 & G6).
    destruct Hj as [[-> ->]|[Hne Hj]].
    + eapply T_self; eauto. intros b Hb. apply (G6 i b). rewrite Hi, Hb. reflexivity.
    + eapply T_frame; eauto. intros b Hb.
      assert (Hjh : nth_error (hs_of st) j = Some (Some b)).
      { rewrite (hs_of_nth _ _ _ Hj), Hb. reflexivity. }
      eapply shape_bget; eauto.
      intros Heq. apply (G3 j i b Hne Hjh). rewrite Hi, <- Heq. reflexivity.
Qed.

Lemma init_inv cap progs : Inv cap (init progs).
Proof.
  unfold init, Inv, hs_of. cbn [chan bufs threads]. split.
  - rewrite map_map. cbn [new_thread t_pc holds]. six.
    + constructor.
    + intros i b H [].
    + intros i j b _ H _. apply nth_error_In in H. apply in_map_iff in H. destruct H as (? & ? & _). discriminate.
    + cbn; lia.
    + intros b [].
    + intros i b H. apply nth_error_In in H. apply in_map_iff in H. destruct H as (? & ? & _). discriminate.
  - intros i t H. apply nth_error_In in H. apply in_map_iff in H. destruct H as (p & <- & _).
    unfold T, new_thread. cbn. repeat split; auto.
Qed.

Theorem reachable_inv cap progs sch : Inv cap (run_sched false cap (init progs) sch).
Proof.
  unfold run_sched. apply (run_invariant state (step false cap) (Inv cap)).
  - intros s i. apply step_preserves.
  - apply init_inv.
Qed.

(* ---------- the theorems ---------- *)
(* a buffer is never held by two goroutines, nor held and on the free list, nor twice on the list *)
Theorem exclusive_ownership cap progs sch :
  let st := run_sched false cap (init progs) sch in
  NoDup (chan st) /\
  (forall i t b, nth_error (threads st) i = Some t -> holds (t_pc t) = Some b -> ~ In b (chan st)) /\
  (forall i j ti tj b, i <> j -> nth_error (threads st) i = Some ti -> nth_error (threads st) j = Some tj ->
     holds (t_pc ti) = Some b -> holds (t_pc tj) = Some b -> False).
Proof.
  intros st. destruct (reachable_inv cap progs sch) as [(G1 & G2 & G3 & _) _]. fold st in G1, G2, G3.
  split; [exact G1|]. split.
  - intros i t b Hi Hb. apply (G2 i b). rewrite (hs_of_nth _ _ _ Hi), Hb; reflexivity.
  - intros i j ti tj b Hne Hi Hj Hbi Hbj. apply (G3 i j b Hne).
    + rewrite (hs_of_nth _ _ _ Hi), Hbi; reflexivity.
    + rewrite (hs_of_nth _ _ _ Hj), Hbj; reflexivity.
Qed.

Theorem free_list_bounded cap progs sch : length (chan (run_sched false cap (init progs) sch)) <= cap.
Proof. destruct (reachable_inv cap progs sch) as [(_ & _ & _ & G4 & _) _]. exact G4. Qed.

(* program text is never lost: done ++ todo is the goroutine's own program *)
Lemma step_keeps_prog early cap st i : map t_prog (threads (step early cap st i)) = map t_prog (threads st).
Proof.
  unfold step. destruct (nth_error (threads st) i) as [t|] eqn:Ni; [|reflexivity].
  destruct (tstep early cap (chan st) (bufs st) t) as [[c bs'] t'] eqn:E. cbn [threads].
  rewrite map_set_nth. apply set_nth_same.
  assert (P : t_prog t' = t_prog t).
  { unfold tstep in E. destruct (t_pc t) as [|b n v|b n v|b n v|b n v|b n|b n ok x|b n x v|b n x].
    - destruct (t_todo t) as [|[n v|n] r]; [inversion E; auto| |];
        destruct (recv_or_alloc (chan st) (bufs st)) as [[c0 bs0] b0]; inversion E; auto.
    - inversion E; auto.
    - destruct early; inversion E; auto.
    - inversion E; auto.
    - inversion E; auto.
    - destruct (n <=? length (t_in t)); inversion E; auto.
    - destruct ok; [destruct early|]; inversion E; auto.
    - inversion E; auto.
    - inversion E; auto. }
  rewrite P. apply map_nth_error. exact Ni.
Qed.

Lemma run_keeps_prog early cap sch : forall st,
  map t_prog (threads (run_sched early cap st sch)) = map t_prog (threads st).
Proof.
  induction sch as [|i r IH]; intros st; [reflexivity|].
  unfold run_sched in *. rewrite run_cons, IH. apply step_keeps_prog.
Qed.

(* Under every schedule: what goroutine i has written to ITS stream is exactly the encoding of
   ITS OWN values in program order (a prefix of its program, plus possibly the operation in
   flight), and every value a read returned is the decoding of the bytes that goroutine consumed *)
Theorem each_write_emits_its_own_value cap progs sch i t :
  nth_error (threads (run_sched false cap (init progs) sch)) i = Some t ->
  (exists p, nth_error progs i = Some p /\ t_done t ++ t_todo t = fst p) /\
  (t_out t = spec_out (t_done t) \/
   exists n v r, t_todo t = Put n v :: r /\ t_out t = spec_out (t_done t ++ [Put n v])) /\
  Forall res_ok (t_res t).
Proof.
  intros Hi. destruct (reachable_inv cap progs sch) as [_ HT]. specialize (HT i t Hi).
  destruct HT as (A & B & C & D). split; [|split; [|exact C]].
  - pose proof (run_keeps_prog false cap sch (init progs)) as K.
    assert (Hp : nth_error (map t_prog (threads (run_sched false cap (init progs) sch))) i = Some (t_prog t))
      by (apply map_nth_error; auto).
    rewrite K in Hp. unfold init in Hp. cbn [threads] in Hp. rewrite map_map in Hp. cbn [new_thread t_prog] in Hp.
    destruct (nth_error progs i) as [p|] eqn:Np.
    + exists p. split; auto. erewrite map_nth_error in Hp by eauto. inversion Hp. congruence.
    + apply nth_error_None in Np. assert (Some (t_prog t) = None); [|discriminate].
      rewrite <- Hp. apply nth_error_None. rewrite map_length. exact Np.
  - destruct (t_pc t) as [|b n v|b n v|b n v|b n v|b n|b n ok x|b n x v|b n x]; cbn [cur_op] in B; auto;
      try (destruct D; auto; fail).
    + right. destruct B as [r Q]. exists n, v, r. auto.
    + destruct ok; [destruct D|]; auto.
Qed.

(* when a goroutine has finished its program its stream holds exactly its own values *)
Corollary finished_stream_is_own_encoding cap progs sch i t p :
  nth_error (threads (run_sched false cap (init progs) sch)) i = Some t ->
  nth_error progs i = Some p -> t_todo t = [] -> t_out t = spec_out (fst p).
Proof.
  intros Hi Hp Hd. destruct (each_write_emits_its_own_value cap progs sch i t Hi) as ((p' & Hp' & E) & O & _).
  rewrite Hp in Hp'. inversion Hp'; subst p'. rewrite Hd, app_nil_r in E. rewrite <- E.
  destruct O as [O|(n & v & r & Q & _)]; [exact O|]. rewrite Hd in Q. discriminate.
Qed.

(* ---------- the defective protocol: Return before the last use of the buffer ---------- *)
(* the shape of Uint16 returning the buffer before decoding it: goroutine 0 reads 0x1234 from its
   own stream, goroutine 1 writes 0xBEEF; under the schedule below goroutine 0 returns 0xBEEF *)
Example early_return_breaks_read_value :
  exists sch,
    let st := run_sched true flist_cap (init [([Get 2], [x34; x12]); ([Put 2 0xBEEF%N], [])]) sch in
    exists t, nth_error (threads st) 0 = Some t /\ t_res t = [([x34; x12], Some 0xBEEF%N)] /\
              le_dec [x34; x12] = 0x1234%N.
Proof. exists [0; 0; 0; 1; 1; 0]. vm_compute. eexists. repeat split. Qed.

(* the shape of PutUintN returning the buffer before w.Write: goroutine 0 emits goroutine 1's value *)
Example early_return_breaks_emitted_value :
  exists sch,
    let st := run_sched true flist_cap (init [([Put 2 0x1234%N], []); ([Put 2 0xBEEF%N], [])]) sch in
    exists t, nth_error (threads st) 0 = Some t /\ t_todo t = [] /\ t_out t = [xef; xbe] /\
              spec_out [Put 2 0x1234%N] = [x34; x12].
Proof. exists [0; 0; 0; 1; 1; 0]. vm_compute. eexists. repeat split. Qed.

(* the same schedules are harmless in the protocol as coded *)
Example same_schedule_correct_protocol :
  let st := run_sched false flist_cap (init [([Get 2], [x34; x12]); ([Put 2 0xBEEF%N], [])]) [0; 0; 0; 1; 1; 0; 1; 1] in
  map t_res (threads st) = [[([x34; x12], Some 0x1234%N)]; []] /\ map t_out (threads st) = [[]; [xef; xbe]] /\
  chan st = [0; 1] /\ length (bufs st) = 2.
Proof. vm_compute. repeat split. Qed.

Example invariant_hypotheses_satisfiable :
  let progs := [([Put 4 7%N; Get 1], [x09]); ([Put 8 1%N], [])] in
  Inv flist_cap (init progs) /\
  map t_out (threads (run_sched false flist_cap (init progs) [0;1;1;0;0;1;0;1;0;0;0;0])) =
    [[x07; x00; x00; x00]; [x01; x00; x00; x00; x00; x00; x00; x00]].
Proof. split; [apply init_inv|vm_compute; reflexivity]. Qed.
