(* Proofs/Blind.v — C05: the scalar bookkeeping of the blinders makes the value commitments balance.
   Part 1: arithmetic modulo the group order and the three scalar helpers. *)
From GE Require Import Lib.Bytes Model.Blind.
From Coq Require Import ZifyBool ZifyN ZifyNat Setoid Morphisms.
Open Scope Z_scope.

Lemma bl_n_pos : 0 < bl_n.
Proof. reflexivity. Qed.
Lemma bl_n_nz : bl_n <> 0.
Proof. discriminate. Qed.
Lemma bl_n_lt : (Z.to_N bl_n < 256 ^ N.of_nat 32)%N.
Proof. reflexivity. Qed.

(* congruence modulo n as a setoid *)
Definition eqn (a b : Z) : Prop := a mod bl_n = b mod bl_n.
#[global] Instance eqn_equiv : Equivalence eqn.
Proof. split; unfold eqn; [intro x | intros x y | intros x y z]; congruence. Qed.
#[global] Instance eqn_add : Proper (eqn ==> eqn ==> eqn) Z.add.
Proof. intros a b H c d H'. unfold eqn in *. rewrite (Z.add_mod a c), (Z.add_mod b d) by apply bl_n_nz. now rewrite H, H'. Qed.
#[global] Instance eqn_mul : Proper (eqn ==> eqn ==> eqn) Z.mul.
Proof. intros a b H c d H'. unfold eqn in *. rewrite (Z.mul_mod a c), (Z.mul_mod b d) by apply bl_n_nz. now rewrite H, H'. Qed.
#[global] Instance eqn_opp : Proper (eqn ==> eqn) Z.opp.
Proof.
  intros a b H. unfold eqn in *.
  replace (- a) with (-1 * a) by ring. replace (- b) with (-1 * b) by ring.
  rewrite (Z.mul_mod (-1) a), (Z.mul_mod (-1) b) by apply bl_n_nz. now rewrite H.
Qed.
#[global] Instance eqn_sub : Proper (eqn ==> eqn ==> eqn) Z.sub.
Proof. intros a b H c d H'. unfold Z.sub. now rewrite H, H'. Qed.
Lemma eqn_mod a : eqn (a mod bl_n) a.
Proof. unfold eqn. apply Z.mod_mod, bl_n_nz. Qed.
Lemma eqn_of_eq a b : a = b -> eqn a b.
Proof. intros ->; reflexivity. Qed.
Global Opaque eqn.

Ltac eqn_ring := apply eqn_of_eq; ring.

(* ---- encodings ---- *)
Lemma mod_range z : 0 <= z mod bl_n < bl_n.
Proof. apply Z.mod_pos_bound, bl_n_pos. Qed.

Lemma bl_sc_enc z : 0 <= z < bl_n -> bl_sc (bl_enc z) = z.
Proof.
  intros H. unfold bl_sc, bl_enc. rewrite be_dec_enc.
  - apply Z2N.id. lia.
  - pose proof bl_n_lt. assert (Z.to_N z < Z.to_N bl_n)%N by (apply Z2N.inj_lt; lia). lia.
Qed.
Lemma bl_sc_enc_mod z : bl_sc (bl_enc (z mod bl_n)) = z mod bl_n.
Proof. apply bl_sc_enc, mod_range. Qed.
Lemma bl_sc_nonneg b : 0 <= bl_sc b.
Proof. unfold bl_sc. lia. Qed.
Lemma bl_sc_zero32 : bl_sc bl_zero32 = 0.
Proof. reflexivity. Qed.

(* value of a possibly nil scalar *)
Definition bl_v (o : option bytes) : Z := match o with Some b => bl_sc b | None => 0 end.

Lemma negate_spec k r : bl_negate k = Some r -> eqn (bl_sc r) (- bl_sc k).
Proof.
  unfold bl_negate. destruct (bl_len32 k); [|discriminate]. intros [= <-].
  rewrite bl_sc_enc_mod. apply eqn_mod.
Qed.
Lemma tweak_add_spec k t r : bl_tweak_add k t = Some r -> eqn (bl_sc r) (bl_sc k + bl_sc t).
Proof.
  unfold bl_tweak_add. destruct (bl_len32 k && bl_len32 t); [|discriminate].
  destruct (bl_n <=? bl_sc t); [discriminate|].
  destruct ((bl_sc k + bl_sc t) mod bl_n =? 0); [discriminate|]. intros [= <-].
  rewrite bl_sc_enc_mod. apply eqn_mod.
Qed.
Lemma tweak_mul_spec k v r : bl_tweak_mul k v = Some r -> eqn (bl_sc r) (bl_sc k * v).
Proof.
  unfold bl_tweak_mul. destruct (bl_len32 k); [|discriminate]. destruct (v =? 0); [discriminate|].
  intros [= <-]. rewrite bl_sc_enc_mod. apply eqn_mod.
Qed.

(* CalculateScalarOffset computes value*assetBlinder + valueBlinder *)
Lemma calc_offset_spec v ab vb r : 0 <= v ->
  bl_calc_offset v ab vb = Some r -> eqn (bl_v r) (v * bl_v ab + bl_v vb).
Proof.
  intros Hv. unfold bl_calc_offset. destruct ab as [a|].
  - destruct (0 <? v) eqn:Hpos.
    + destruct (bl_tweak_mul a v) as [r1|] eqn:Hm; [|discriminate].
      apply tweak_mul_spec in Hm.
      destruct vb as [w|]; [|intros [= <-]; cbn [bl_v]; rewrite Hm; eqn_ring].
      destruct (bl_negate w) as [vn|] eqn:Hn; [|discriminate].
      apply negate_spec in Hn.
      destruct (bytes_eqb vn r1) eqn:He.
      * intros [= <-]. apply bytes_eqb_eq in He. subst vn. cbn [bl_v]. rewrite bl_sc_zero32.
        transitivity (bl_sc r1 + bl_sc w). { rewrite Hn. eqn_ring. } rewrite Hm. eqn_ring.
      * destruct (bl_tweak_add r1 w) as [r2|] eqn:Ha; [|discriminate]. intros [= <-].
        apply tweak_add_spec in Ha. cbn [bl_v]. rewrite Ha, Hm. eqn_ring.
    + intros [= <-]. assert (v = 0) by lia. subst v. cbn [bl_v]. eqn_ring.
  - intros [= <-]. cbn [bl_v]. eqn_ring.
Qed.

(* SubtractScalars *)
Lemma sub_spec a b r : bl_sub a b = Some r -> eqn (bl_v r) (bl_v a - bl_v b).
Proof.
  unfold bl_sub. destruct b as [bb|].
  - destruct (match a with Some aa => bytes_eqb aa bb | None => false end) eqn:He.
    { destruct a as [aa|]; [|discriminate]. apply bytes_eqb_eq in He. subst bb. intros [= <-].
      cbn [bl_v]. rewrite bl_sc_zero32. eqn_ring. }
    destruct (bl_negate bb) as [nb|] eqn:Hn; [|discriminate]. apply negate_spec in Hn.
    destruct a as [aa|].
    + destruct (bl_tweak_add aa nb) as [x|] eqn:Ha; [|discriminate]. intros [= <-].
      apply tweak_add_spec in Ha. cbn [bl_v]. rewrite Ha, Hn. eqn_ring.
    + intros [= <-]. cbn [bl_v]. rewrite Hn. eqn_ring.
  - intros [= <-]. cbn [bl_v]. eqn_ring.
Qed.

(* ComputeAndAddToScalarOffset *)
Lemma add_offset_spec s v ab vb r : 0 <= v ->
  bl_add_offset s v ab vb = Some r -> eqn (bl_v r) (bl_v s + (v * bl_v ab + bl_v vb)).
Proof.
  intros Hv. unfold bl_add_offset.
  assert (Hgen : match bl_calc_offset v ab vb with
          | None => None
          | Some so => match so with
              | None => Some s
              | Some o => match s with
                  | None => Some so
                  | Some ss => match bl_negate o with
                      | None => None
                      | Some nv => if bytes_eqb ss nv then Some (Some bl_zero32)
                                   else match bl_tweak_add ss o with None => None | Some r => Some (Some r) end
                      end end end end = Some r -> eqn (bl_v r) (bl_v s + (v * bl_v ab + bl_v vb))).
  { destruct (bl_calc_offset v ab vb) as [so|] eqn:Hc; [|discriminate].
    apply calc_offset_spec in Hc; [|exact Hv].
    destruct so as [o|].
    - destruct s as [ss|].
      + destruct (bl_negate o) as [nv|] eqn:Hn; [|discriminate]. apply negate_spec in Hn.
        destruct (bytes_eqb ss nv) eqn:He.
        * intros [= <-]. apply bytes_eqb_eq in He. subst nv. cbn [bl_v] in *. rewrite bl_sc_zero32.
          rewrite <- Hc. rewrite Hn. eqn_ring.
        * destruct (bl_tweak_add ss o) as [x|] eqn:Ha; [|discriminate]. intros [= <-].
          apply tweak_add_spec in Ha. cbn [bl_v] in *. rewrite Ha. rewrite Hc. reflexivity.
      + intros [= <-]. cbn [bl_v]. rewrite Hc. eqn_ring.
    - intros [= <-]. cbn [bl_v] in Hc. rewrite <- Hc. eqn_ring. }
  destruct ab as [a|]; [exact Hgen|]. destruct vb as [w|]; [exact Hgen|].
  intros [= <-]. cbn [bl_v]. eqn_ring.
Qed.

(* ================= Part 2: one psetv2 blinder ================= *)

Definition g3 (v : Z) (ab vb : option bytes) : Z := v * bl_v ab + bl_v vb.
Fixpoint sumZ (l : list Z) : Z := match l with [] => 0 | x :: t => x + sumZ t end.
Lemma sumZ_app a b : sumZ (a ++ b) = sumZ a + sumZ b.
Proof. induction a as [|x a IH]; cbn [sumZ app]; lia. Qed.

(* non-negative amounts (uint64 in the implementation) *)
Definition wf_pset (p : bl_pset) : Prop :=
  Forall (fun i => 0 <= bpi_issv i /\ 0 <= bpi_issk i) (bps_ins p) /\ Forall (fun o => 0 <= bpo_value o) (bps_outs p).
Definition wf_owned (l : list bl_owned) : Prop := Forall (fun o => 0 <= bow_value o) l.

Lemma bl_nth_In {A} (l : list A) i x : bl_nth l i = Some x -> In x l.
Proof. unfold bl_nth. destruct (i <? N.of_nat (length l))%N; [|discriminate]. apply nth_error_In. Qed.
Lemma bl_nth_nth_error {A} (l : list A) i x : bl_nth l i = Some x -> nth_error l (N.to_nat i) = Some x.
Proof. unfold bl_nth. destruct (i <? N.of_nat (length l))%N; [auto|discriminate]. Qed.

(* what calculateInputScalar adds for one owned input: its own blinders and, when the issuance
   arguments of that input are present, the issuance blinders (asset blinder zero) *)
Definition in_term (p : bl_pset) (iss : list bl_issarg) (o : bl_owned) : Z :=
  g3 (bow_value o) (bow_abf o) (bow_vbf o) +
  match bl_nth (bps_ins p) (bow_idx o) with
  | Some i =>
      if bl_has_issuance i then
        match find (fun a => (bia_idx a =? bow_idx o)%N) iss with
        | None => 0
        | Some a => bl_v (bl_or_zero (bia_vbf a)) + (if 0 <? bpi_issk i then bl_v (bl_or_zero (bia_tbf a)) else 0)
        end
      else 0
  | None => 0
  end.
Definition in_sum (p : bl_pset) (iss : list bl_issarg) (owned : list bl_owned) : Z :=
  sumZ (map (in_term p iss) owned).

Lemma input_scalar_spec p iss : wf_pset p -> forall owned s r, wf_owned owned ->
  bl_input_scalar p iss owned s = Some r -> eqn (bl_v r) (bl_v s + in_sum p iss owned).
Proof.
  intros [Hins _]. induction owned as [|o rest IH]; intros s r Hw.
  - cbn [bl_input_scalar]. intros [= <-]. unfold in_sum. cbn [map sumZ]. eqn_ring.
  - cbn [bl_input_scalar]. inversion Hw as [|? ? Ho Hrest]; subst.
    destruct (bl_add_offset s (bow_value o) (bow_abf o) (bow_vbf o)) as [s1|] eqn:H1; [|discriminate].
    apply add_offset_spec in H1; [|exact Ho].
    destruct (bl_nth (bps_ins p) (bow_idx o)) as [i|] eqn:Hi; [|discriminate].
    assert (Hwi : 0 <= bpi_issv i /\ 0 <= bpi_issk i).
    { apply bl_nth_In in Hi. rewrite Forall_forall in Hins. now apply Hins. }
    destruct Hwi as [Hv Hk].
    unfold in_sum. cbn [map sumZ]. fold (in_sum p iss rest). unfold in_term at 1. rewrite Hi. fold (g3 (bow_value o) (bow_abf o) (bow_vbf o)).
    destruct (bl_has_issuance i).
    + destruct (find (fun a => (bia_idx a =? bow_idx o)%N) iss) as [a|].
      * destruct (bl_add_offset s1 (bpi_issv i) (Some bl_zero32) (bl_or_zero (bia_vbf a))) as [s2|] eqn:H2; [|discriminate].
        apply add_offset_spec in H2; [|exact Hv].
        cbn [bl_v] in H2. rewrite bl_sc_zero32 in H2.
        destruct (0 <? bpi_issk i).
        -- destruct (bl_add_offset s2 (bpi_issk i) (Some bl_zero32) (bl_or_zero (bia_tbf a))) as [s3|] eqn:H3; [|discriminate].
           apply add_offset_spec in H3; [|exact Hk]. cbn [bl_v] in H3. rewrite bl_sc_zero32 in H3.
           intros Hr. apply IH in Hr; [|exact Hrest]. rewrite Hr, H3, H2, H1. unfold g3. eqn_ring.
        -- intros Hr. apply IH in Hr; [|exact Hrest]. rewrite Hr, H2, H1. unfold g3. eqn_ring.
      * intros Hr. apply IH in Hr; [|exact Hrest]. rewrite Hr, H1. unfold g3. eqn_ring.
    + intros Hr. apply IH in Hr; [|exact Hrest]. rewrite Hr, H1. unfold g3. eqn_ring.
Qed.

(* calculateOutputScalar: value of output a.Index times the asset blinder plus the value blinder *)
Definition out_term (outs : list bl_pout) (a : bl_outarg) : Z :=
  match bl_nth outs (boa_idx a) with Some o => g3 (bpo_value o) (boa_abf a) (boa_vbf a) | None => 0 end.
Definition out_sum (outs : list bl_pout) (args : list bl_outarg) : Z := sumZ (map (out_term outs) args).

Lemma output_sum_spec p : wf_pset p -> forall args s r,
  bl_output_sum p args s = Some r -> eqn (bl_v r) (bl_v s + out_sum (bps_outs p) args).
Proof.
  intros [_ Houts]. induction args as [|a rest IH]; intros s r.
  - cbn [bl_output_sum]. intros [= <-]. unfold out_sum. cbn [map sumZ]. eqn_ring.
  - cbn [bl_output_sum]. destruct (bl_nth (bps_outs p) (boa_idx a)) as [o|] eqn:Ho; [|discriminate].
    assert (Hv : 0 <= bpo_value o). { apply bl_nth_In in Ho. rewrite Forall_forall in Houts. now apply Houts. }
    destruct (bl_add_offset s (bpo_value o) (boa_abf a) (boa_vbf a)) as [s1|] eqn:H1; [|discriminate].
    apply add_offset_spec in H1; [|exact Hv]. intros Hr. apply IH in Hr.
    unfold out_sum. cbn [map sumZ]. fold (out_sum (bps_outs p) rest). unfold out_term at 1. rewrite Ho.
    rewrite Hr, H1. unfold g3. eqn_ring.
Qed.

(* the scalar a blinder publishes (non-last) or folds into its last value blinder (last) *)
Lemma output_scalar_spec p inS args last r : wf_pset p ->
  bl_output_scalar p inS args last = Some r ->
  eqn (bl_v r) (out_sum (bps_outs p) args - bl_v inS).
Proof.
  intros Hw. unfold bl_output_scalar.
  destruct (bl_output_sum p args None) as [s|] eqn:Hs; [|discriminate].
  apply output_sum_spec in Hs; [|exact Hw]. cbn [bl_v] in Hs.
  intros Hr. apply sub_spec in Hr. rewrite Hr, Hs. eqn_ring.
Qed.

Lemma sub_all_spec l : forall s r, bl_sub_all s l = Some r -> eqn (bl_v r) (bl_v s - sumZ (map bl_sc l)).
Proof.
  induction l as [|x t IH]; intros s r; cbn [bl_sub_all map sumZ].
  - intros [= <-]. eqn_ring.
  - destruct (bl_sub s (Some x)) as [s1|] eqn:H1; [|discriminate]. apply sub_spec in H1. cbn [bl_v] in H1.
    intros Hr. apply IH in Hr. rewrite Hr, H1. eqn_ring.
Qed.

(* calculateLastValueBlinder: provisional blinder - output scalar - every published scalar *)
Lemma last_vbf_spec p lastarg outS r :
  bl_last_vbf p lastarg outS = Some r ->
  eqn (bl_v r) (bl_v (boa_vbf lastarg) - bl_v outS - sumZ (map bl_sc (bps_scalars p))).
Proof.
  unfold bl_last_vbf. destruct (bl_sub (boa_vbf lastarg) outS) as [s|] eqn:H1; [|discriminate].
  apply sub_spec in H1. intros Hr. apply sub_all_spec in Hr. rewrite Hr, H1. reflexivity.
Qed.

(* ================= Part 3: the write-back and the ledger of G coefficients ================= *)

(* G coefficient of the commitment written on an output (0 while it is explicit) *)
Definition out_g (o : bl_pout) : Z :=
  match bpo_open o with Some (a, v) => bpo_value o * bl_sc a + bl_sc v | None => 0 end.
Definition ledger_out (outs : list bl_pout) : Z := sumZ (map out_g outs).
Definition scal_sum (p : bl_pset) : Z := sumZ (map bl_sc (bps_scalars p)).
(* what has been committed on outputs and not yet been accounted for by a published scalar *)
Definition ledger_D (p : bl_pset) : Z := ledger_out (bps_outs p) - scal_sum p.

Lemma upd_sum {A} (f : A -> Z) : forall l i x y, nth_error l i = Some y ->
  sumZ (map f (bl_upd l i x)) = sumZ (map f l) - f y + f x.
Proof.
  induction l as [|h t IH]; intros [|i] x y; cbn [nth_error bl_upd map sumZ]; try discriminate.
  - intros [= <-]. lia.
  - intros H. rewrite (IH _ _ _ H). lia.
Qed.
Lemma upd_map_same {A B} (f : A -> B) : forall l i x y, nth_error l i = Some y -> f x = f y ->
  map f (bl_upd l i x) = map f l.
Proof.
  induction l as [|h t IH]; intros [|i] x y; cbn [nth_error bl_upd map]; try discriminate.
  - intros [= <-] ->. reflexivity.
  - intros H E. now rewrite (IH _ _ _ H E).
Qed.
Lemma Forall_upd {A} (P : A -> Prop) : forall l i x, Forall P l -> P x -> Forall P (bl_upd l i x).
Proof.
  induction l as [|h t IH]; intros [|i] x Hl Hx; cbn [bl_upd]; auto; inversion Hl; subst; constructor; auto.
Qed.
Lemma bl_nth_map {A B} (f : A -> B) l i : bl_nth (map f l) i = option_map f (bl_nth l i).
Proof.
  unfold bl_nth. rewrite map_length. destruct (i <? N.of_nat (length l))%N; [|reflexivity].
  rewrite nth_error_map. reflexivity.
Qed.
Lemma bl_sc_ob o : bl_sc (bl_ob o) = bl_v o.
Proof. destruct o; reflexivity. Qed.

(* no output is blinded twice: every slot a blinder writes is still explicit when it writes it *)
Fixpoint fresh_outs (outs : list bl_pout) (args : list bl_outarg) (last : bool) (lv : bytes) : Prop :=
  match args with
  | [] => True
  | a :: rest =>
      let islast := last && match rest with [] => true | _ => false end in
      match bl_nth outs (boa_idx a) with Some o => bpo_open o = None | None => False end /\
      fresh_outs (bl_write_out outs (boa_idx a) (bl_ob (boa_abf a)) (if islast then lv else bl_ob (boa_vbf a))) rest last lv
  end.

(* what the write-back adds: like out_sum, but the last blinder's last output carries lv *)
Fixpoint wb_sum (vals : list Z) (args : list bl_outarg) (last : bool) (lv : bytes) : Z :=
  match args with
  | [] => 0
  | a :: rest =>
      let islast := last && match rest with [] => true | _ => false end in
      match bl_nth vals (boa_idx a) with
      | Some v => v * bl_v (boa_abf a) + (if islast then bl_sc lv else bl_v (boa_vbf a))
      | None => 0
      end + wb_sum vals rest last lv
  end.

Lemma write_out_vals outs idx a v : map bpo_value (bl_write_out outs idx a v) = map bpo_value outs.
Proof.
  unfold bl_write_out. destruct (bl_nth outs idx) as [o|] eqn:Ho; [|reflexivity].
  apply bl_nth_nth_error in Ho. now apply (upd_map_same bpo_value _ _ _ _ Ho).
Qed.

Lemma write_outs_ledger last lv : forall args outs, fresh_outs outs args last lv ->
  ledger_out (bl_write_outs outs args last lv) = ledger_out outs + wb_sum (map bpo_value outs) args last lv.
Proof.
  induction args as [|a rest IH]; intros outs Hf; cbn [bl_write_outs wb_sum fresh_outs] in *.
  - lia.
  - destruct Hf as [Hslot Hf]. destruct (bl_nth outs (boa_idx a)) as [o|] eqn:Ho; [|contradiction].
    rewrite (IH _ Hf). rewrite write_out_vals. rewrite bl_nth_map, Ho. cbn [option_map].
    unfold bl_write_out. rewrite Ho. unfold ledger_out at 1.
    rewrite (upd_sum out_g _ _ _ _ (bl_nth_nth_error _ _ _ Ho)). fold (ledger_out outs).
    unfold out_g at 1. rewrite Hslot. unfold out_g. cbn [bpo_open bpo_value].
    rewrite bl_sc_ob. destruct (last && match rest with [] => true | _ => false end); rewrite ?bl_sc_ob; lia.
Qed.

Definition out_term_v (vals : list Z) (a : bl_outarg) : Z :=
  match bl_nth vals (boa_idx a) with Some v => g3 v (boa_abf a) (boa_vbf a) | None => 0 end.
Lemma out_sum_vals outs args : out_sum outs args = sumZ (map (out_term_v (map bpo_value outs)) args).
Proof.
  unfold out_sum. f_equal. apply map_ext. intros a. unfold out_term, out_term_v. rewrite bl_nth_map.
  destruct (bl_nth outs (boa_idx a)); reflexivity.
Qed.

Lemma wb_sum_spec vals last lv : forall pre la,
  bl_nth vals (boa_idx la) <> None ->
  wb_sum vals (pre ++ [la]) last lv =
  sumZ (map (out_term_v vals) (pre ++ [la])) - (if last then bl_v (boa_vbf la) - bl_sc lv else 0).
Proof.
  induction pre as [|a pre IH]; intros la Hla.
  - cbn [app wb_sum map sumZ]. unfold out_term_v, g3. destruct (bl_nth vals (boa_idx la)); [|congruence].
    destruct last; cbn [andb]; lia.
  - cbn [app wb_sum map sumZ]. rewrite (IH la Hla).
    replace (match pre ++ [la] with [] => true | _ :: _ => false end) with false by (destruct pre; reflexivity).
    rewrite Bool.andb_false_r. unfold out_term_v at 2, g3. destruct (bl_nth vals (boa_idx a)); lia.
Qed.

Lemma is_fully_blinded_false p : bl_is_fully_blinded p = false.
Proof.
  unfold bl_is_fully_blinded, bl_needs_blinding.
  destruct (existsb (fun o => bl_out_needs o && negb (bl_out_full o)) (bps_outs p)); reflexivity.
Qed.

Lemma write_iss_wf ins a : Forall (fun i => 0 <= bpi_issv i /\ 0 <= bpi_issk i) ins ->
  Forall (fun i => 0 <= bpi_issv i /\ 0 <= bpi_issk i) (bl_write_iss ins a).
Proof.
  intros H. unfold bl_write_iss. destruct (bl_nth ins (bia_idx a)) as [i|] eqn:Hi; [|exact H].
  apply Forall_upd; [exact H|]. cbn [bpi_issv bpi_issk]. apply bl_nth_In in Hi. rewrite Forall_forall in H. now apply H.
Qed.
Lemma write_outs_wf last lv : forall args outs, Forall (fun o => 0 <= bpo_value o) outs ->
  Forall (fun o => 0 <= bpo_value o) (bl_write_outs outs args last lv).
Proof.
  induction args as [|a rest IH]; intros outs H; cbn [bl_write_outs]; [exact H|]. apply IH.
  unfold bl_write_out. destruct (bl_nth outs (boa_idx a)) as [o|] eqn:Ho; [|exact H].
  apply Forall_upd; [exact H|]. cbn [bpo_value]. apply bl_nth_In in Ho. rewrite Forall_forall in H. now apply H.
Qed.

(* one call of Blinder.blind *)
Lemma blind_step p owned iss args0 last vok s : wf_pset p -> wf_owned owned ->
  bl_blind p owned iss args0 last vok = BOk s ->
  fresh_outs (bps_outs p) (bl_sort args0) last (bl_ob (bso_lastvbf s)) ->
  wf_pset (bso_pset s) /\
  (last = true -> bps_scalars (bso_pset s) = []) /\
  eqn (ledger_D (bso_pset s)) (ledger_D p + in_sum p iss owned).
Proof.
  intros Hwf Hwo. unfold bl_blind. rewrite is_fully_blinded_false.
  destruct (negb (forallb (bl_issarg_ok p) iss)); [discriminate|].
  set (args := bl_sort args0).
  destruct (negb (forallb (bl_outarg_ok p) args)) eqn:Hok; [discriminate|].
  destruct (negb (bl_validate_args p owned args vok)); [discriminate|].
  destruct (bl_input_scalar p iss owned None) as [inS|] eqn:Hin; [|discriminate].
  destruct (bl_output_scalar p inS args last) as [outS|] eqn:Hout; [|discriminate].
  destruct (rev args) as [|lastarg rargs] eqn:Hrev; [discriminate|].
  destruct (if last then bl_last_vbf p lastarg outS else Some None) as [lv|] eqn:Hlv; [|discriminate].
  destruct (bl_sanity _); [|discriminate]. intros [= <-]. cbn [bso_pset bso_lastvbf]. intros Hfresh.
  apply input_scalar_spec in Hin; [|exact Hwf|exact Hwo]. cbn [bl_v] in Hin.
  apply output_scalar_spec in Hout; [|exact Hwf].
  assert (Hargs : args = rev rargs ++ [lastarg]).
  { rewrite <- (rev_involutive args), Hrev. reflexivity. }
  assert (Hla : bl_nth (map bpo_value (bps_outs p)) (boa_idx lastarg) <> None).
  { apply Bool.negb_false_iff in Hok. rewrite forallb_forall in Hok.
    assert (Hi : In lastarg args) by (rewrite Hargs; apply in_or_app; right; left; reflexivity).
    apply Hok in Hi. unfold bl_outarg_ok in Hi. rewrite bl_nth_map.
    destruct (bl_nth (bps_outs p) (boa_idx lastarg)); [discriminate|discriminate Hi]. }
  split; [|split].
  - destruct Hwf as [Hi Ho]. split; cbn [bps_ins bps_outs].
    + clear -Hi. revert Hi. generalize (bps_ins p). induction iss as [|a t IH]; intros l Hl; cbn [fold_left]; [exact Hl|].
      apply IH. now apply write_iss_wf.
    + now apply write_outs_wf.
  - intros ->. reflexivity.
  - unfold ledger_D, scal_sum. cbn [bps_outs bps_scalars].
    rewrite (write_outs_ledger _ _ _ _ Hfresh). rewrite Hargs at 1. rewrite (wb_sum_spec _ _ _ _ _ Hla).
    rewrite <- Hargs. rewrite <- out_sum_vals. rewrite bl_sc_ob.
    destruct last.
    + cbn [negb andb] in *. apply last_vbf_spec in Hlv. cbn [map sumZ]. rewrite Hlv, Hout, Hin.
      unfold scal_sum. eqn_ring.
    + injection Hlv as <-. cbn [bl_v]. rewrite map_app, sumZ_app. cbn [map sumZ]. rewrite bl_sc_ob.
      rewrite Hout, Hin. eqn_ring.
Qed.

(* ================= Part 4: any number of parties, any order ================= *)

Definition is_last {A} (rest : list A) : bool := match rest with [] => true | _ => false end.

(* what each party contributes to the ledger: its input scalar *)
Fixpoint run_contrib (p : bl_pset) (ps : list bl_party) : Z :=
  match ps with
  | [] => 0
  | pa :: rest =>
      match bl_party_step p pa (is_last rest) with
      | BOk s => in_sum p (bpa_iss pa) (bpa_owned pa) + run_contrib (bso_pset s) rest
      | _ => 0
      end
  end.
(* no output is blinded twice along the run, amounts are non-negative *)
Fixpoint run_fresh (p : bl_pset) (ps : list bl_party) : Prop :=
  match ps with
  | [] => True
  | pa :: rest =>
      match bl_party_step p pa (is_last rest) with
      | BOk s => fresh_outs (bps_outs p) (bl_sort (bpa_outs pa)) (is_last rest) (bl_ob (bso_lastvbf s)) /\
                 wf_owned (bpa_owned pa) /\ run_fresh (bso_pset s) rest
      | _ => True
      end
  end.

Lemma bl_run_unfold p pa rest :
  bl_run p (pa :: rest) =
  match bl_party_step p pa (is_last rest) with
  | BOk s => bl_run (bso_pset s) rest | BErr => BErr | BPanic => BPanic end.
Proof. reflexivity. Qed.

Theorem run_ledger : forall ps p pf, wf_pset p ->
  bl_run p ps = BOk pf -> run_fresh p ps ->
  eqn (ledger_D pf) (ledger_D p + run_contrib p ps) /\ (ps <> [] -> bps_scalars pf = []).
Proof.
  induction ps as [|pa rest IH]; intros p pf Hwf Hrun Hfr.
  - cbn in Hrun. injection Hrun as <-. split; [cbn [run_contrib]; eqn_ring | congruence].
  - rewrite bl_run_unfold in Hrun. cbn [run_contrib run_fresh] in *.
    destruct (bl_party_step p pa (is_last rest)) as [s| |] eqn:Hstep; try discriminate.
    destruct Hfr as (Hfresh & Hwo & Hfr).
    unfold bl_party_step in Hstep. destruct (negb (bl_new_blinder p (bpa_owned pa))); [discriminate|].
    destruct (blind_step _ _ _ _ _ _ _ Hwf Hwo Hstep Hfresh) as (Hwf' & Hnil & HD).
    destruct (IH _ _ Hwf' Hrun Hfr) as [HD' Hnil'].
    split.
    + rewrite HD', HD. eqn_ring.
    + intros _. destruct rest as [|pb rest'].
      * cbn in Hrun. injection Hrun as <-. now apply Hnil.
      * apply Hnil'. discriminate.
Qed.

(* ---- from the ledger to the transaction: commitments as linear forms ---- *)
Lemma lin_eqb_intro x y :
  eqn (snd x) (snd y) -> (forall a, bl_coef (fst x) a = bl_coef (fst y) a) -> bl_lin_eqb x y = true.
Proof.
  intros Hg Hc. unfold bl_lin_eqb. apply andb_true_intro. split.
  - apply Z.eqb_eq. exact Hg.
  - apply forallb_forall. intros a _. apply Z.eqb_eq. apply Hc.
Qed.
Lemma lin_sum_snd l : eqn (snd (bl_lin_sum l)) (sumZ (map snd l)).
Proof.
  induction l as [|x t IH]; cbn [bl_lin_sum fold_right map sumZ].
  - reflexivity.
  - unfold bl_lin_add. cbn [snd]. rewrite eqn_mod. fold (bl_lin_sum t). rewrite IH. reflexivity.
Qed.

(* the G coefficients on the input side: spent outputs and blinded issuance amounts *)
Fixpoint in_g (k : N) (ws : list bl_win) (pis : list bl_pin) : Z :=
  match ws, pis with
  | w :: ws', i :: pis' =>
      (bwi_value w * bl_sc (bwi_abf w) + bl_sc (bwi_vbf w)) +
      (if (bwi_iss w =? 0)%N then 0 else
         (if 0 <? bwi_issv w then bl_v (bpi_vopen i) else 0) + (if 0 <? bwi_isst w then bl_v (bpi_topen i) else 0)) +
      in_g (k + 1)%N ws' pis'
  | _, _ => 0
  end.
Lemma amount_snd a v o : eqn (snd (bl_amount a v o)) (bl_v o).
Proof. destruct o; cbn [bl_amount bl_commit bl_explicit snd bl_v]; [rewrite eqn_mod; eqn_ring | reflexivity]. Qed.
Lemma tx_in_g : forall ws pis k, eqn (sumZ (map snd (bl_tx_in k ws pis))) (in_g k ws pis).
Proof.
  induction ws as [|w ws IH]; intros [|i pis] k; cbn [bl_tx_in in_g map sumZ]; try reflexivity.
  rewrite map_app, sumZ_app. rewrite IH. unfold bl_in_commit, bl_commit. cbn [snd]. rewrite eqn_mod.
  destruct (bwi_iss w =? 0)%N; cbn [map sumZ].
  - eqn_ring.
  - rewrite map_app, sumZ_app.
    destruct (0 <? bwi_issv w); destruct (0 <? bwi_isst w); cbn [map sumZ]; rewrite ?amount_snd; eqn_ring.
Qed.
Lemma tx_out_g : forall wos pos, map bwo_value wos = map bpo_value pos ->
  eqn (sumZ (map snd (bl_tx_out wos pos))) (ledger_out pos).
Proof.
  induction wos as [|w wos IH]; intros [|o pos] Hv; cbn [bl_tx_out map sumZ] in *; try discriminate; try reflexivity.
  injection Hv as Hv1 Hv. unfold ledger_out. cbn [map sumZ]. fold (ledger_out pos). rewrite (IH _ Hv).
  unfold out_g. destruct (bpo_open o) as [[a v]|]; cbn [bl_commit bl_explicit snd].
  - rewrite eqn_mod, Hv1. reflexivity.
  - reflexivity.
Qed.

(* Balance of the final transaction.  Hypotheses: blinding succeeded for every party; no output is
   blinded twice; the amounts are conserved per asset (as Elements requires of the unblinded
   amounts); and the parties' input scalars account for the blinders of what is spent and issued
   (ownership is a partition of the confidential inputs, with their true openings). *)
Theorem v2_balance ps p0 pf ws wos :
  wf_pset p0 -> ps <> [] ->
  bl_run p0 ps = BOk pf -> run_fresh p0 ps ->
  map bwo_value wos = map bpo_value (bps_outs pf) ->
  (forall a, bl_coef (fst (bl_lin_sum (bl_tx_in 0%N ws (bps_ins pf)))) a =
             bl_coef (fst (bl_lin_sum (bl_tx_out wos (bps_outs pf)))) a) ->
  eqn (ledger_D p0 + run_contrib p0 ps) (in_g 0%N ws (bps_ins pf)) ->
  bl_balanced ws wos pf = true.
Proof.
  intros Hwf Hne Hrun Hfr Hvals Hcons Hown.
  destruct (run_ledger ps p0 pf Hwf Hrun Hfr) as [HD Hnil]. specialize (Hnil Hne).
  unfold bl_balanced. apply lin_eqb_intro; [|exact Hcons].
  rewrite !lin_sum_snd, tx_in_g, (tx_out_g _ _ Hvals). rewrite <- Hown, <- HD.
  unfold ledger_D, scal_sum. rewrite Hnil. cbn [map sumZ]. eqn_ring.
Qed.

(* ---- a concrete two-party exchange: party A (non-last) owns a confidential input ---- *)
Definition ex_b (z : Z) : bytes := bl_enc z.
Definition ex_p0 : bl_pset :=
  bmk_pset [bmk_pin true 0 0 None None; bmk_pin false 0 0 None None]
           [bmk_pout 60 true 0%N None; bmk_pout 40 true 1%N None; bmk_pout 10 false 0%N None] [].
Definition ex_A : bl_party :=
  bmk_party true true [bmk_owned 0%N 100 (Some (ex_b 5)) (Some (ex_b 7))] [] [bmk_outarg 0%N (Some (ex_b 11)) (Some (ex_b 13))].
Definition ex_B : bl_party :=
  bmk_party true true [bmk_owned 1%N 10 (Some bl_zero32) (Some bl_zero32)] [] [bmk_outarg 1%N (Some (ex_b 17)) (Some (ex_b 19))].
Definition ex_ws : list bl_win := [bmk_win 0%N 100 (ex_b 5) (ex_b 7) 0%N 0 0; bmk_win 0%N 10 bl_zero32 bl_zero32 0%N 0 0].
Definition ex_wos : list bl_wout := [bmk_wout 0%N 60; bmk_wout 0%N 40; bmk_wout 0%N 10].

Definition run_balanced (p : bl_pset) (ps : list bl_party) (ws : list bl_win) (wos : list bl_wout) : option bool :=
  match bl_run p ps with BOk pf => Some (bl_balanced ws wos pf) | _ => None end.

(* A blinds first (BlindNonLast) and owns the confidential input, B blinds last; 100 + 10 = 60 + 40 + 10.
   Before /repo db58bba the non-last party published its output sum without subtracting its input scalar
   and this exchange did not balance; it does now, in either order. *)
Example v2_two_parties_balance : run_balanced ex_p0 [ex_A; ex_B] ex_ws ex_wos = Some true.
Proof. vm_compute. reflexivity. Qed.
Example v2_two_parties_balance_swapped : run_balanced ex_p0 [ex_B; ex_A] ex_ws ex_wos = Some true.
Proof. vm_compute. reflexivity. Qed.

(* ================= Part 5: pset v0 — the final value blinding factor ================= *)

Fixpoint sum3 (vs : list Z) (gs fs : list bytes) : Z :=
  match vs, gs, fs with
  | v :: vs', g :: gs', f :: fs' => (v * bl_sc g + bl_sc f) + sum3 vs' gs' fs'
  | _, _, _ => 0
  end.
Fixpoint bsum_spec (vals : list Z) (gens facs : list bytes) (nin : nat) : Z :=
  match vals, gens with
  | v :: vals', g :: gens' =>
      let f := match facs with x :: _ => x | [] => bl_zero32 end in
      (match nin with O => 1 | S _ => -1 end) * (v * bl_sc g + bl_sc f) + bsum_spec vals' gens' (tl facs) (pred nin)
  | _, _ => 0
  end.

Lemma bsum_ok : forall vals gens facs nin acc s,
  b0_bsum vals gens facs nin acc = Some s -> eqn s (acc + bsum_spec vals gens facs nin).
Proof.
  induction vals as [|v vals IH]; intros gens facs nin acc s; cbn [b0_bsum bsum_spec].
  - intros [= <-]. eqn_ring.
  - destruct gens as [|g gens]; [intros [= <-]; eqn_ring|].
    set (f := match facs with x :: _ => x | [] => bl_zero32 end).
    destruct ((bl_n <=? bl_sc g) || (bl_n <=? bl_sc f)); [discriminate|].
    intros H. apply IH in H. rewrite H. rewrite eqn_mod.
    destruct nin; rewrite ?eqn_mod; eqn_ring.
Qed.

Lemma bsum_split : forall inV inG inF outV outG outF,
  length inG = length inV -> length inF = length inV ->
  bsum_spec (inV ++ outV) (inG ++ outG) (inF ++ outF) (length inV) = - sum3 inV inG inF + bsum_spec outV outG outF 0.
Proof.
  induction inV as [|v inV IH]; intros [|g inG] [|f inF] outV outG outF HG HF; cbn [length] in *; try discriminate.
  - cbn [app sum3]. lia.
  - cbn [app bsum_spec sum3 tl pred]. rewrite IH by lia. lia.
Qed.
Lemma bsum_out : forall outV outG outF x,
  length outG = length outV -> (length outF + 1)%nat = length outV ->
  bsum_spec outV outG outF 0 + bl_sc x = sum3 outV outG (outF ++ [x]).
Proof.
  induction outV as [|v outV IH]; intros [|g outG] outF x HG HF; cbn [length] in *; try lia.
  destruct outF as [|f outF].
  - destruct outV; [|cbn [length] in HF; lia]. destruct outG; [|discriminate].
    cbn [bsum_spec sum3 app tl pred]. rewrite bl_sc_zero32. lia.
  - cbn [bsum_spec sum3 app tl pred length] in *. rewrite <- (IH outG outF x) by lia. lia.
Qed.

(* generateOutputBlindingFactors: with the final factor appended, the G coefficients of the blinded
   outputs equal those of the inputs and pseudo inputs *)
Theorem v0_final_vbf_balances inV outV inG outG inF outF fv :
  length inG = length inV -> length inF = length inV ->
  b0_final_vbf inV outV inG outG inF outF = Some fv ->
  eqn (sum3 inV inG inF) (sum3 outV outG (outF ++ [fv])).
Proof.
  intros HG HF. unfold b0_final_vbf.
  destruct (negb _) eqn:Hc; [discriminate|].
  apply Bool.negb_false_iff, andb_prop in Hc. destruct Hc as [H1 H2].
  apply Nat.eqb_eq in H1. apply Nat.eqb_eq in H2. rewrite !app_length in *.
  destruct (b0_bsum _ _ _ _ 0) as [s|] eqn:Hs; [|discriminate]. intros [= <-].
  apply bsum_ok in Hs. rewrite bsum_split in Hs by assumption.
  rewrite <- (bsum_out outV outG outF) by lia.
  rewrite bl_sc_enc_mod, eqn_mod, Hs. eqn_ring.
Qed.

(* ---- the write-back of createBlindedOutputs ---- *)
Definition ex0_ins : list b0_in := [bmk_b0in 0%N 100 (ex_b 5) (ex_b 7) 0%N 0 0].
Definition ex0_outs : list b0_out := [bmk_b0out 0%N 30 false; bmk_b0out 0%N 60 false; bmk_b0out 0%N 10 true].
Definition ex0_rng : list bytes := map ex_b [21; 22; 23; 24; 25; 26; 27; 28].
Definition b0_run_balanced ins outs sel :=
  match b0_blind ins outs sel false true true ex0_rng with
  | BOk r => Some (b0_balanced ins outs r) | BErr => None | BPanic => Some false end.

(* both spendable outputs blinded (indexes 0,1) *)
Example v0_contiguous_balances : b0_run_balanced ex0_ins ex0_outs [0%N; 1%N] = Some true.
Proof. vm_compute. reflexivity. Qed.
(* only output 1 blinded, output 0 stays explicit: before /repo 65fe84b the write-back read the arrays
   with the output index and this request panicked; the positional write-back succeeds and balances *)
Example v0_noncontiguous_balances : b0_run_balanced ex0_ins ex0_outs [1%N] = Some true.
Proof. vm_compute. reflexivity. Qed.

(* ================= Part 6: which arguments the proofs are made with ================= *)

Definition all_owned (ins : list bl_tin) : list bool := map (fun _ => true) ins.
Definition no_issuance (i : bl_tin) : Prop := bti_hasiss i = false /\ bti_amount_set i = false /\ bti_token_set i = false.
(* the issuance fields of the transaction agree with what the generator assumes *)
Definition iss_consistent (i : bl_tin) : Prop :=
  bti_amount_set i = bti_hasiss i /\ bti_token_set i = (bti_hasiss i && negb (bti_reiss i)).

Lemma view_owned : forall ins, map (fun oi => bl_view_tag (fst oi) (snd oi)) (combine (all_owned ins) ins) = map bl_true_tag ins.
Proof. induction ins as [|i t IH]; cbn [all_owned map combine fst snd]; [reflexivity|]. unfold all_owned in IH. now rewrite IH. Qed.

(* the tag list handed to the prover equals the verifier's list when the party owns every input and
   only the last input carries an issuance *)
Lemma tags_agree pre l : Forall no_issuance pre -> iss_consistent l ->
  bl_tags_gen (all_owned (pre ++ [l])) (pre ++ [l]) = bl_tags_true (pre ++ [l]).
Proof.
  intros Hpre [Ha Ht]. unfold bl_tags_gen, bl_tags_true. rewrite view_owned.
  rewrite !flat_map_app, map_app. cbn [flat_map map]. rewrite !app_nil_r.
  assert (H1 : flat_map bl_iss_tags_gen pre = []).
  { induction Hpre as [|i t [Hi _] _ IH]; cbn [flat_map]; [reflexivity|]. unfold bl_iss_tags_gen at 1. now rewrite Hi, IH. }
  assert (H2 : flat_map (fun i => bl_true_tag i :: bl_iss_tags_true i) pre = map bl_true_tag pre).
  { clear H1. induction Hpre as [|i t (Hi & Hx & Hy) _ IH]; cbn [flat_map map]; [reflexivity|].
    unfold bl_iss_tags_true at 1. rewrite Hx, Hy. cbn [app]. now rewrite IH. }
  rewrite H1, H2. cbn [app]. rewrite <- app_assoc. cbn [app]. f_equal. f_equal.
  unfold bl_iss_tags_gen, bl_iss_tags_true. rewrite Ha, Ht.
  destruct (bti_hasiss l); [|reflexivity]. cbn [andb]. destruct (bti_reiss l); reflexivity.
Qed.

Section ProofsVerify.
  (* surjection and range proofs of libsecp256k1-zkp, with their completeness laws *)
  Variable sproof : Type.
  Variable surj_prove : list bl_tag -> bl_tag -> option sproof.
  Variable surj_verify : list bl_tag -> bl_tag -> sproof -> bool.
  Hypothesis surj_complete : forall tags out pf, surj_prove tags out = Some pf -> surj_verify tags out pf = true.

  Variable rproof : Type.
  (* sign: value, value blinder, asset tag, script (extra commit), nonce; verify: commitment, tag, script *)
  Variable range_sign : Z -> bytes -> bl_tag -> bytes -> bytes -> option rproof.
  Variable range_verify : bl_lin -> bl_tag -> bytes -> rproof -> bool.
  Hypothesis range_complete : forall asset v abf vbf script nonce pf,
    range_sign v vbf (bmk_tag asset abf) script nonce = Some pf ->
    range_verify (bl_commit (be_dec asset) v (bl_sc abf) (bl_sc vbf)) (bmk_tag asset abf) script pf = true.

  (* a surjection proof made by BlindOutputs verifies against the verifier's tags whenever the two
     tag lists coincide *)
  Theorem surjection_verifies own ins out pf :
    bl_tags_gen own ins = bl_tags_true ins ->
    surj_prove (bl_tags_gen own ins) out = Some pf -> surj_verify (bl_tags_true ins) out pf = true.
  Proof. intros <-. apply surj_complete. Qed.

  Corollary surjection_verifies_single_party pre l out pf :
    Forall no_issuance pre -> iss_consistent l ->
    surj_prove (bl_tags_gen (all_owned (pre ++ [l])) (pre ++ [l])) out = Some pf ->
    surj_verify (bl_tags_true (pre ++ [l])) out pf = true.
  Proof. intros Hp Hl. apply surjection_verifies. now apply tags_agree. Qed.

  (* the last output of the last blinder: LastValueCommitment(value, assetCommitment, lv) and
     LastValueRangeProof(value, asset, assetBlinder, commitment, lv, script, nonce) are made from the
     same value, tag and blinder, so the proof verifies against what is written *)
  Theorem range_proof_verifies asset v abf vbf script nonce pf :
    range_sign v vbf (bmk_tag asset abf) script nonce = Some pf ->
    range_verify (bl_commit (be_dec asset) v (bl_sc abf) (bl_sc vbf)) (bmk_tag asset abf) script pf = true.
  Proof. apply range_complete. Qed.
End ProofsVerify.

(* the hypothesis of surjection_verifies fails in the multi-party flow and for an issuance that is
   not on the last input *)
Definition ex_t (s : Z) (conf : bool) : bl_tin :=
  bmk_tin ((if conf then x0a else x01) :: ex_b s) (ex_b s) (if conf then ex_b 9 else bl_zero32)
          false false false false false [] [].
Theorem surjection_args_refuted_unowned :
  exists own ins, bl_tags_gen own ins <> bl_tags_true ins /\ bl_tags_val own ins = bl_tags_gen own ins.
Proof.
  exists [true; false], [ex_t 1 false; ex_t 2 false]. split; [|reflexivity].
  intro H. vm_compute in H. discriminate H.
Qed.
Definition ex_ti : bl_tin :=
  bmk_tin (x01 :: ex_b 1) (ex_b 1) bl_zero32 true false true true true (ex_b 3) (ex_b 4).
Theorem surjection_args_refuted_issuance_order :
  exists ins, Forall iss_consistent ins /\ bl_tags_gen (all_owned ins) ins <> bl_tags_true ins.
Proof.
  exists [ex_ti; ex_t 2 false]. split.
  - repeat constructor.
  - intro H. vm_compute in H. discriminate H.
Qed.
(* generator and validator build their lists differently: an issuance without inflation keys *)
Example generator_validator_disagree :
  let i := bmk_tin (x01 :: ex_b 1) (ex_b 1) bl_zero32 true false false true false (ex_b 3) (ex_b 4) in
  bl_tags_gen [true] [i] <> bl_tags_val [true] [i].
Proof. intro i. intro H. vm_compute in H. discriminate H. Qed.

(* ================= Part 7: exactly the requested outputs are blinded ================= *)

Lemma upd_length {A} : forall (l : list A) i x, length (bl_upd l i x) = length l.
Proof. induction l as [|h t IH]; intros [|i] x; cbn [bl_upd length]; auto. Qed.
Lemma nth_error_upd {A} : forall (l : list A) i x j,
  nth_error (bl_upd l i x) j = if ((i =? j) && (i <? length l))%nat then Some x else nth_error l j.
Proof.
  induction l as [|h t IH]; intros i x j.
  { destruct i, j; cbn [bl_upd nth_error length]; try reflexivity; now rewrite Bool.andb_false_r. }
  destruct i as [|i], j as [|j]; cbn [bl_upd nth_error length]; try reflexivity.
  rewrite IH. cbn [Nat.eqb]. destruct (i =? j)%nat; cbn [andb]; [|reflexivity].
  replace (S i <? S (length t))%nat with (i <? length t)%nat; [reflexivity|].
  destruct (i <? length t)%nat eqn:E; symmetry; [apply Nat.ltb_lt in E; apply Nat.ltb_lt; lia | apply Nat.ltb_ge in E; apply Nat.ltb_ge; lia].
Qed.
Lemma bl_nth_some_lt {A} (l : list A) i x : bl_nth l i = Some x -> (N.to_nat i < length l)%nat.
Proof. unfold bl_nth. destruct (i <? N.of_nat (length l))%N eqn:E; [|discriminate]. intros _. lia. Qed.
Lemma bl_nth_none {A} (l : list A) i : bl_nth l i = None -> (length l <= N.to_nat i)%nat.
Proof.
  unfold bl_nth. destruct (i <? N.of_nat (length l))%N eqn:E; [|intros _; lia].
  intros H. apply nth_error_None in H. exact H.
Qed.

Definition blinded_at (outs : list bl_pout) (j : nat) : bool :=
  match nth_error outs j with Some o => bl_out_full o | None => false end.
Definition asked_at (args : list bl_outarg) (j : nat) : bool := existsb (fun a => (N.to_nat (boa_idx a) =? j)%nat) args.

Lemma write_out_blinded outs idx a v j : (j < length outs)%nat ->
  blinded_at (bl_write_out outs idx a v) j = blinded_at outs j || (N.to_nat idx =? j)%nat.
Proof.
  intros Hj. unfold bl_write_out. destruct (bl_nth outs idx) as [o|] eqn:Ho.
  - unfold blinded_at. rewrite nth_error_upd. pose proof (bl_nth_some_lt _ _ _ Ho) as Hlt.
    destruct (N.to_nat idx =? j)%nat eqn:E.
    + apply Nat.ltb_lt in Hlt. rewrite Hlt. cbn [andb]. unfold bl_out_full. cbn [bpo_open]. now rewrite Bool.orb_true_r.
    + cbn [andb]. now rewrite Bool.orb_false_r.
  - apply bl_nth_none in Ho. destruct (N.to_nat idx =? j)%nat eqn:E; [apply Nat.eqb_eq in E; lia|]. now rewrite Bool.orb_false_r.
Qed.
Lemma write_out_length outs idx a v : length (bl_write_out outs idx a v) = length outs.
Proof. unfold bl_write_out. destruct (bl_nth outs idx); [apply upd_length|reflexivity]. Qed.

Lemma write_outs_blinded last lv : forall args outs j, (j < length outs)%nat ->
  blinded_at (bl_write_outs outs args last lv) j = blinded_at outs j || asked_at args j.
Proof.
  induction args as [|a rest IH]; intros outs j Hj; cbn [bl_write_outs asked_at existsb].
  - now rewrite Bool.orb_false_r.
  - rewrite IH by (rewrite write_out_length; exact Hj). rewrite write_out_blinded by exact Hj.
    fold (asked_at rest j). now rewrite Bool.orb_assoc.
Qed.
Lemma write_outs_length last lv : forall args outs, length (bl_write_outs outs args last lv) = length outs.
Proof. induction args as [|a rest IH]; intros outs; cbn [bl_write_outs]; [reflexivity|]. now rewrite IH, write_out_length. Qed.

(* one blinder: afterwards an output is blinded iff it was before or it was among the (sorted) arguments *)
Lemma blind_blinded p owned iss args0 last vok s j :
  bl_blind p owned iss args0 last vok = BOk s -> (j < length (bps_outs p))%nat ->
  length (bps_outs (bso_pset s)) = length (bps_outs p) /\
  blinded_at (bps_outs (bso_pset s)) j = blinded_at (bps_outs p) j || asked_at (bl_sort args0) j.
Proof.
  unfold bl_blind. rewrite is_fully_blinded_false.
  destruct (negb (forallb (bl_issarg_ok p) iss)); [discriminate|].
  destruct (negb (forallb (bl_outarg_ok p) (bl_sort args0))); [discriminate|].
  destruct (negb (bl_validate_args p owned (bl_sort args0) vok)); [discriminate|].
  destruct (bl_input_scalar p iss owned None); [|discriminate].
  destruct (bl_output_scalar p o (bl_sort args0) last); [|discriminate].
  destruct (rev (bl_sort args0)); [discriminate|].
  destruct (if last then bl_last_vbf p b o0 else Some None); [|discriminate].
  destruct (bl_sanity _); [|discriminate]. intros [= <-] Hj. cbn [bso_pset bps_outs].
  split; [apply write_outs_length | now apply write_outs_blinded].
Qed.

(* the whole exchange: the outputs blinded at the end are exactly those some party asked for *)
Theorem v2_blinded_exactly_requested : forall ps p pf j,
  bl_run p ps = BOk pf -> (j < length (bps_outs p))%nat ->
  blinded_at (bps_outs pf) j = blinded_at (bps_outs p) j || existsb (fun pa => asked_at (bl_sort (bpa_outs pa)) j) ps.
Proof.
  induction ps as [|pa rest IH]; intros p pf j Hrun Hj.
  - cbn in Hrun. injection Hrun as <-. cbn [existsb]. now rewrite Bool.orb_false_r.
  - rewrite bl_run_unfold in Hrun. destruct (bl_party_step p pa (is_last rest)) as [s| |] eqn:Hs; try discriminate.
    unfold bl_party_step in Hs. destruct (negb (bl_new_blinder p (bpa_owned pa))); [discriminate|].
    destruct (blind_blinded _ _ _ _ _ _ _ j Hs Hj) as [Hlen Hb].
    rewrite (IH _ _ j Hrun) by (rewrite Hlen; exact Hj). rewrite Hb. cbn [existsb]. now rewrite Bool.orb_assoc.
Qed.

(* pset v0: a successful write-back marks exactly the outputs it was given, whatever their indexes *)
Definition marked_at {A} (w : list (option A)) (j : nat) : bool :=
  match nth_error w j with Some (Some _) => true | _ => false end.
Definition sel_at (sel : list N) (j : nat) : bool := existsb (fun i => (N.to_nat i =? j)%nat) sel.
Lemma v0_writeback_marks : forall sel arr outs w j, b0_writeback sel arr outs = BOk w -> (j < length outs)%nat ->
  length w = length outs /\ marked_at w j = marked_at outs j || sel_at sel j.
Proof.
  induction sel as [|idx rest IH]; intros arr outs w j; cbn [b0_writeback sel_at existsb].
  - intros [= <-] _. now rewrite Bool.orb_false_r.
  - destruct arr as [|x arr']; [discriminate|].
    destruct (bl_nth outs idx) as [y|] eqn:Ho; [|discriminate]. intros Hw Hj.
    destruct (IH _ _ _ j Hw) as [Hlen Hm]; [rewrite upd_length; exact Hj|].
    rewrite upd_length in Hlen. split; [exact Hlen|]. rewrite Hm. unfold marked_at at 1. rewrite nth_error_upd.
    pose proof (bl_nth_some_lt _ _ _ Ho) as Hlt. apply Nat.ltb_lt in Hlt. rewrite Hlt, Bool.andb_true_r.
    fold (sel_at rest j). destruct (N.to_nat idx =? j)%nat; cbn [orb]; [now rewrite Bool.orb_true_r | reflexivity].
Qed.

Lemma existsb_ins f a : forall l, existsb f (b0_ins a l) = f a || existsb f l.
Proof.
  induction l as [|h t IH]; cbn [b0_ins existsb]; [reflexivity|].
  destruct (a <? h)%N; cbn [existsb]; [reflexivity|]. rewrite IH. now rewrite !Bool.orb_assoc, (Bool.orb_comm (f h)).
Qed.
Lemma existsb_sort f l : existsb f (b0_sort l) = existsb f l.
Proof. induction l as [|a t IH]; cbn [b0_sort fold_right existsb]; [reflexivity|]. fold (b0_sort t). now rewrite existsb_ins, IH. Qed.
Lemma existsb_filter {A} (f g : A -> bool) : forall l, existsb f (filter g l) = existsb (fun x => g x && f x) l.
Proof. induction l as [|a t IH]; cbn [filter existsb]; [reflexivity|]. destruct (g a); cbn [existsb andb]; now rewrite IH. Qed.
Lemma marked_start {A B} (outs : list B) j : marked_at (map (fun _ => @None A) outs) j = false.
Proof. unfold marked_at. rewrite nth_error_map. destruct (nth_error outs j); reflexivity. Qed.

Definition has_script (outs : list b0_out) (i : N) : bool :=
  match bl_nth outs i with Some o => negb (bo0_noscript o) | None => false end.

(* Blinder.Blind, any selection (contiguous or not, in any order): when it succeeds, output j carries
   commitments and proofs iff j was selected (and has a script: an empty-script output is never blinded) *)
Theorem v0_blinded_exactly_requested ins outs sel keys tokkey sok rng r j :
  b0_blind ins outs sel keys tokkey sok rng = BOk r -> (j < length outs)%nat ->
  marked_at (br0_outs r) j = existsb (fun i => has_script outs i && (N.to_nat i =? j)%nat) sel.
Proof.
  unfold b0_blind. destruct (b0_pseudo keys 0%N ins rng) as [[pseudo r1]|]; [|discriminate].
  destruct (negb (forallb _ (b0_sort sel))); [discriminate|].
  destruct (b0_draws (length sel) r1) as [[abfs r2]|]; [|discriminate].
  destruct (b0_draws (pred (length sel)) r2) as [[vbfs r3]|]; [|discriminate].
  destruct (b0_final_vbf _ _ _ _ _ _) as [fv|]; [|discriminate].
  destruct (b0_draws _ r3) as [[seeds r4]|]; [|discriminate].
  destruct (negb sok); [discriminate|].
  destruct (b0_writeback _ _ _) as [w| |] eqn:Hw; try discriminate.
  destruct (keys && negb tokkey && _); [discriminate|].
  intros [= <-] Hj. cbn [br0_outs].
  destruct (v0_writeback_marks _ _ _ _ j Hw) as [_ Hm]; [rewrite map_length; exact Hj|].
  rewrite Hm, marked_start. cbn [orb]. unfold sel_at. rewrite existsb_filter, existsb_sort. reflexivity.
Qed.

(* the hypotheses of v2_balance are satisfiable (two parties, the non-last one owns a confidential input) *)
Example v2_balance_hyps_sat : exists pf,
  bl_run ex_p0 [ex_A; ex_B] = BOk pf /\ wf_pset ex_p0 /\ run_fresh ex_p0 [ex_A; ex_B] /\
  map bwo_value ex_wos = map bpo_value (bps_outs pf) /\
  eqn (ledger_D ex_p0 + run_contrib ex_p0 [ex_A; ex_B]) (in_g 0%N ex_ws (bps_ins pf)).
Proof.
  Local Transparent eqn.
  eexists. split; [vm_compute; reflexivity|].
  split; [split; repeat constructor; cbn; lia|].
  split; [vm_compute; repeat split; repeat constructor; intro H; discriminate H|].
  split; [vm_compute; reflexivity|].
  unfold eqn. vm_compute. reflexivity.
Qed.

(* a token-only issuance (null asset amount): the library still lists the issued-asset tag, a verifier does not *)
Definition ex_tn : bl_tin :=
  bmk_tin (x01 :: ex_b 1) (ex_b 1) bl_zero32 true false true false true (ex_b 3) (ex_b 4).
Theorem surjection_args_refuted_null_amount :
  exists i, bl_tags_gen [true] [i] = bl_tags_val [true] [i] /\ bl_tags_gen [true] [i] <> bl_tags_true [i].
Proof.
  exists ex_tn. split; [reflexivity|]. intro H. vm_compute in H. discriminate H.
Qed.
