(* Proofs/Blind.v — C05: the scalar bookkeeping of the blinders makes the value commitments balance.
   Part 1: arithmetic modulo the group order and the three scalar helpers. *)
From GE Require Import Lib.Bytes Model.Blind.
From Coq Require Import ZifyBool ZifyN ZifyNat Setoid Morphisms.
Open Scope Z_scope.

Lemma bl_n_pos : 0 < bl_n.
Proof. reflexivity. Qed.
Lemma bl_n_nz : bl_n <> 0.
Proof. discriminate. Qed.
Lemma bl_n_lt : (Z.to_N bl_n < 256 ^ N.of_nat 32)%N.
Proof. reflexivity. Qed.

(* congruence modulo n as a setoid *)
Definition eqn (a b : Z) : Prop := a mod bl_n = b mod bl_n.
#[global] Instance eqn_equiv : Equivalence eqn.
Proof. split; unfold eqn; [intro x | intros x y | intros x y z]; congruence. Qed.
#[global] Instance eqn_add : Proper (eqn ==> eqn ==> eqn) Z.add.
Proof. intros a b H c d H'. unfold eqn in *. rewrite (Z.add_mod a c), (Z.add_mod b d) by apply bl_n_nz. now rewrite H, H'. Qed.
#[global] Instance eqn_mul : Proper (eqn ==> eqn ==> eqn) Z.mul.
Proof. intros a b H c d H'. unfold eqn in *. rewrite (Z.mul_mod a c), (Z.mul_mod b d) by apply bl_n_nz. now rewrite H, H'. Qed.
#[global] Instance eqn_opp : Proper (eqn ==> eqn) Z.opp.
Proof.
  intros a b H. unfold eqn in *.
  replace (- a) with (-1 * a) by ring. replace (- b) with (-1 * b) by ring.
  rewrite (Z.mul_mod (-1) a), (Z.mul_mod (-1) b) by apply bl_n_nz. now rewrite H.
Qed.
#[global] Instance eqn_sub : Proper (eqn ==> eqn ==> eqn) Z.sub.
Proof. intros a b H c d H'. unfold Z.sub. now rewrite H, H'. Qed.
Lemma eqn_mod a : eqn (a mod bl_n) a.
Proof. unfold eqn. apply Z.mod_mod, bl_n_nz. Qed.
Lemma eqn_of_eq a b : a = b -> eqn a b.
Proof. intros ->; reflexivity. Qed.
Global Opaque eqn.

Ltac eqn_ring := apply eqn_of_eq; ring.

(* ---- encodings ---- *)
Lemma mod_range z : 0 <= z mod bl_n < bl_n.
Proof. apply Z.mod_pos_bound, bl_n_pos. Qed.

Lemma bl_sc_enc z : 0 <= z < bl_n -> bl_sc (bl_enc z) = z.
Proof.
  intros H. unfold bl_sc, bl_enc. rewrite be_dec_enc.
  - apply Z2N.id. lia.
  - pose proof bl_n_lt. assert (Z.to_N z < Z.to_N bl_n)%N by (apply Z2N.inj_lt; lia). lia.
Qed.
Lemma bl_sc_enc_mod z : bl_sc (bl_enc (z mod bl_n)) = z mod bl_n.
Proof. apply bl_sc_enc, mod_range. Qed.
Lemma bl_sc_nonneg b : 0 <= bl_sc b.
Proof. unfold bl_sc. lia. Qed.
Lemma bl_sc_zero32 : bl_sc bl_zero32 = 0.
Proof. reflexivity. Qed.

(* value of a possibly nil scalar *)
Definition bl_v (o : option bytes) : Z := match o with Some b => bl_sc b | None => 0 end.

Lemma negate_spec k r : bl_negate k = Some r -> eqn (bl_sc r) (- bl_sc k).
Proof.
  unfold bl_negate. destruct (bl_len32 k); [|discriminate]. intros [= <-].
  rewrite bl_sc_enc_mod. apply eqn_mod.
Qed.
Lemma tweak_add_spec k t r : bl_tweak_add k t = Some r -> eqn (bl_sc r) (bl_sc k + bl_sc t).
Proof.
  unfold bl_tweak_add. destruct (bl_len32 k && bl_len32 t); [|discriminate].
  destruct (bl_n <=? bl_sc t); [discriminate|].
  destruct ((bl_sc k + bl_sc t) mod bl_n =? 0); [discriminate|]. intros [= <-].
  rewrite bl_sc_enc_mod. apply eqn_mod.
Qed.
Lemma tweak_mul_spec k v r : bl_tweak_mul k v = Some r -> eqn (bl_sc r) (bl_sc k * v).
Proof.
  unfold bl_tweak_mul. destruct (bl_len32 k); [|discriminate]. destruct (v =? 0); [discriminate|].
  intros [= <-]. rewrite bl_sc_enc_mod. apply eqn_mod.
Qed.

(* CalculateScalarOffset computes value*assetBlinder + valueBlinder *)
Lemma calc_offset_spec v ab vb r : 0 <= v ->
  bl_calc_offset v ab vb = Some r -> eqn (bl_v r) (v * bl_v ab + bl_v vb).
Proof.
  intros Hv. unfold bl_calc_offset. destruct ab as [a|].
  - destruct (0 <? v) eqn:Hpos.
    + destruct (bl_tweak_mul a v) as [r1|] eqn:Hm; [|discriminate].
      destruct vb as [w|]; [|discriminate].
      destruct (bl_negate w) as [vn|] eqn:Hn; [|discriminate].
      apply tweak_mul_spec in Hm. apply negate_spec in Hn.
      destruct (bytes_eqb vn r1) eqn:He.
      * intros [= <-]. apply bytes_eqb_eq in He. subst vn. cbn [bl_v]. rewrite bl_sc_zero32.
        transitivity (bl_sc r1 + bl_sc w). { rewrite Hn. eqn_ring. } rewrite Hm. eqn_ring.
      * destruct (bl_tweak_add r1 w) as [r2|] eqn:Ha; [|discriminate]. intros [= <-].
        apply tweak_add_spec in Ha. cbn [bl_v]. rewrite Ha, Hm. eqn_ring.
    + intros [= <-]. assert (v = 0) by lia. subst v. cbn [bl_v]. eqn_ring.
  - intros [= <-]. cbn [bl_v]. eqn_ring.
Qed.

(* SubtractScalars *)
Lemma sub_spec a b r : bl_sub a b = Some r -> eqn (bl_v r) (bl_v a - bl_v b).
Proof.
  unfold bl_sub. destruct b as [bb|].
  - destruct (bl_negate bb) as [nb|] eqn:Hn; [|discriminate]. apply negate_spec in Hn.
    destruct a as [aa|].
    + destruct (bl_tweak_add aa nb) as [x|] eqn:Ha; [|discriminate]. intros [= <-].
      apply tweak_add_spec in Ha. cbn [bl_v]. rewrite Ha, Hn. eqn_ring.
    + intros [= <-]. cbn [bl_v]. rewrite Hn. eqn_ring.
  - intros [= <-]. cbn [bl_v]. eqn_ring.
Qed.

(* ComputeAndAddToScalarOffset *)
Lemma add_offset_spec s v ab vb r : 0 <= v ->
  bl_add_offset s v ab vb = Some r -> eqn (bl_v r) (bl_v s + (v * bl_v ab + bl_v vb)).
Proof.
  intros Hv. unfold bl_add_offset.
  assert (Hgen : match bl_calc_offset v ab vb with
          | None => None
          | Some so => match s with
              | None => Some so
              | Some ss => match so with
                  | None => None
                  | Some o => match bl_negate o with
                      | None => None
                      | Some nv => if bytes_eqb ss nv then Some (Some bl_zero32)
                                   else match bl_tweak_add ss o with None => None | Some r => Some (Some r) end
                      end end end end = Some r -> eqn (bl_v r) (bl_v s + (v * bl_v ab + bl_v vb))).
  { destruct (bl_calc_offset v ab vb) as [so|] eqn:Hc; [|discriminate].
    apply calc_offset_spec in Hc; [|exact Hv].
    destruct s as [ss|].
    - destruct so as [o|]; [|discriminate].
      destruct (bl_negate o) as [nv|] eqn:Hn; [|discriminate]. apply negate_spec in Hn.
      destruct (bytes_eqb ss nv) eqn:He.
      + intros [= <-]. apply bytes_eqb_eq in He. subst nv. cbn [bl_v] in *. rewrite bl_sc_zero32.
        rewrite <- Hc. rewrite Hn. eqn_ring.
      + destruct (bl_tweak_add ss o) as [x|] eqn:Ha; [|discriminate]. intros [= <-].
        apply tweak_add_spec in Ha. cbn [bl_v] in *. rewrite Ha. rewrite Hc. reflexivity.
    - intros [= <-]. cbn [bl_v]. rewrite Hc. eqn_ring. }
  destruct ab as [a|]; [exact Hgen|]. destruct vb as [w|]; [exact Hgen|].
  intros [= <-]. cbn [bl_v]. eqn_ring.
Qed.

(* ================= Part 2: one psetv2 blinder ================= *)

Definition g3 (v : Z) (ab vb : option bytes) : Z := v * bl_v ab + bl_v vb.
Fixpoint sumZ (l : list Z) : Z := match l with [] => 0 | x :: t => x + sumZ t end.
Lemma sumZ_app a b : sumZ (a ++ b) = sumZ a + sumZ b.
Proof. induction a as [|x a IH]; cbn [sumZ app]; lia. Qed.

(* non-negative amounts (uint64 in the implementation) *)
Definition wf_pset (p : bl_pset) : Prop :=
  Forall (fun i => 0 <= bpi_issv i /\ 0 <= bpi_issk i) (bps_ins p) /\ Forall (fun o => 0 <= bpo_value o) (bps_outs p).
Definition wf_owned (l : list bl_owned) : Prop := Forall (fun o => 0 <= bow_value o) l.

Lemma bl_nth_In {A} (l : list A) i x : bl_nth l i = Some x -> In x l.
Proof. unfold bl_nth. destruct (i <? N.of_nat (length l))%N; [|discriminate]. apply nth_error_In. Qed.
Lemma bl_nth_nth_error {A} (l : list A) i x : bl_nth l i = Some x -> nth_error l (N.to_nat i) = Some x.
Proof. unfold bl_nth. destruct (i <? N.of_nat (length l))%N; [auto|discriminate]. Qed.

(* what calculateInputScalar adds for one owned input: its own blinders and, when the issuance
   arguments of that input are present, the issuance blinders (asset blinder zero) *)
Definition in_term (p : bl_pset) (iss : list bl_issarg) (o : bl_owned) : Z :=
  g3 (bow_value o) (bow_abf o) (bow_vbf o) +
  match bl_nth (bps_ins p) (bow_idx o) with
  | Some i =>
      if bl_has_issuance i then
        match find (fun a => (bia_idx a =? bow_idx o)%N) iss with
        | None => 0
        | Some a => bl_v (bl_or_zero (bia_vbf a)) + (if 0 <? bpi_issk i then bl_v (bl_or_zero (bia_tbf a)) else 0)
        end
      else 0
  | None => 0
  end.
Definition in_sum (p : bl_pset) (iss : list bl_issarg) (owned : list bl_owned) : Z :=
  sumZ (map (in_term p iss) owned).

Lemma input_scalar_spec p iss : wf_pset p -> forall owned s r, wf_owned owned ->
  bl_input_scalar p iss owned s = Some r -> eqn (bl_v r) (bl_v s + in_sum p iss owned).
Proof.
  intros [Hins _]. induction owned as [|o rest IH]; intros s r Hw.
  - cbn [bl_input_scalar]. intros [= <-]. unfold in_sum. cbn [map sumZ]. eqn_ring.
  - cbn [bl_input_scalar]. inversion Hw as [|? ? Ho Hrest]; subst.
    destruct (bl_add_offset s (bow_value o) (bow_abf o) (bow_vbf o)) as [s1|] eqn:H1; [|discriminate].
    apply add_offset_spec in H1; [|exact Ho].
    destruct (bl_nth (bps_ins p) (bow_idx o)) as [i|] eqn:Hi; [|discriminate].
    assert (Hwi : 0 <= bpi_issv i /\ 0 <= bpi_issk i).
    { apply bl_nth_In in Hi. rewrite Forall_forall in Hins. now apply Hins. }
    destruct Hwi as [Hv Hk].
    unfold in_sum. cbn [map sumZ]. fold (in_sum p iss rest). unfold in_term at 1. rewrite Hi. fold (g3 (bow_value o) (bow_abf o) (bow_vbf o)).
    destruct (bl_has_issuance i).
    + destruct (find (fun a => (bia_idx a =? bow_idx o)%N) iss) as [a|].
      * destruct (bl_add_offset s1 (bpi_issv i) (Some bl_zero32) (bl_or_zero (bia_vbf a))) as [s2|] eqn:H2; [|discriminate].
        apply add_offset_spec in H2; [|exact Hv].
        cbn [bl_v] in H2. rewrite bl_sc_zero32 in H2.
        destruct (0 <? bpi_issk i).
        -- destruct (bl_add_offset s2 (bpi_issk i) (Some bl_zero32) (bl_or_zero (bia_tbf a))) as [s3|] eqn:H3; [|discriminate].
           apply add_offset_spec in H3; [|exact Hk]. cbn [bl_v] in H3. rewrite bl_sc_zero32 in H3.
           intros Hr. apply IH in Hr; [|exact Hrest]. rewrite Hr, H3, H2, H1. unfold g3. eqn_ring.
        -- intros Hr. apply IH in Hr; [|exact Hrest]. rewrite Hr, H2, H1. unfold g3. eqn_ring.
      * intros Hr. apply IH in Hr; [|exact Hrest]. rewrite Hr, H1. unfold g3. eqn_ring.
    + intros Hr. apply IH in Hr; [|exact Hrest]. rewrite Hr, H1. unfold g3. eqn_ring.
Qed.

(* calculateOutputScalar: value of output a.Index times the asset blinder plus the value blinder *)
Definition out_term (outs : list bl_pout) (a : bl_outarg) : Z :=
  match bl_nth outs (boa_idx a) with Some o => g3 (bpo_value o) (boa_abf a) (boa_vbf a) | None => 0 end.
Definition out_sum (outs : list bl_pout) (args : list bl_outarg) : Z := sumZ (map (out_term outs) args).

Lemma output_sum_spec p : wf_pset p -> forall args s r,
  bl_output_sum p args s = Some r -> eqn (bl_v r) (bl_v s + out_sum (bps_outs p) args).
Proof.
  intros [_ Houts]. induction args as [|a rest IH]; intros s r.
  - cbn [bl_output_sum]. intros [= <-]. unfold out_sum. cbn [map sumZ]. eqn_ring.
  - cbn [bl_output_sum]. destruct (bl_nth (bps_outs p) (boa_idx a)) as [o|] eqn:Ho; [|discriminate].
    assert (Hv : 0 <= bpo_value o). { apply bl_nth_In in Ho. rewrite Forall_forall in Houts. now apply Houts. }
    destruct (bl_add_offset s (bpo_value o) (boa_abf a) (boa_vbf a)) as [s1|] eqn:H1; [|discriminate].
    apply add_offset_spec in H1; [|exact Hv]. intros Hr. apply IH in Hr.
    unfold out_sum. cbn [map sumZ]. fold (out_sum (bps_outs p) rest). unfold out_term at 1. rewrite Ho.
    rewrite Hr, H1. unfold g3. eqn_ring.
Qed.

(* the scalar a blinder publishes (non-last) or folds into its last value blinder (last) *)
Lemma output_scalar_spec fixp p inS args last r : wf_pset p ->
  bl_output_scalar fixp p inS args last = Some r ->
  eqn (bl_v r) (out_sum (bps_outs p) args - (if negb last && negb fixp then 0 else bl_v inS)).
Proof.
  intros Hw. unfold bl_output_scalar.
  destruct (bl_output_sum p args None) as [s|] eqn:Hs; [|discriminate].
  apply output_sum_spec in Hs; [|exact Hw]. cbn [bl_v] in Hs.
  destruct (negb last && negb fixp).
  - intros [= <-]. rewrite Hs. eqn_ring.
  - intros Hr. apply sub_spec in Hr. rewrite Hr, Hs. eqn_ring.
Qed.

Lemma sub_all_spec l : forall s r, bl_sub_all s l = Some r -> eqn (bl_v r) (bl_v s - sumZ (map bl_sc l)).
Proof.
  induction l as [|x t IH]; intros s r; cbn [bl_sub_all map sumZ].
  - intros [= <-]. eqn_ring.
  - destruct (bl_sub s (Some x)) as [s1|] eqn:H1; [|discriminate]. apply sub_spec in H1. cbn [bl_v] in H1.
    intros Hr. apply IH in Hr. rewrite Hr, H1. eqn_ring.
Qed.

(* calculateLastValueBlinder: provisional blinder - output scalar - every published scalar *)
Lemma last_vbf_spec p lastarg outS r :
  bl_last_vbf p lastarg outS = Some r ->
  eqn (bl_v r) (bl_v (boa_vbf lastarg) - bl_v outS - sumZ (map bl_sc (bps_scalars p))).
Proof.
  unfold bl_last_vbf. destruct (bl_sub (boa_vbf lastarg) outS) as [s|] eqn:H1; [|discriminate].
  apply sub_spec in H1. intros Hr. apply sub_all_spec in Hr. rewrite Hr, H1. reflexivity.
Qed.
