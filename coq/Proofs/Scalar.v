(* Proofs/Scalar.v — the blinding-scalar helpers compute exact arithmetic modulo n (C17). *)
From GE Require Import Lib.Bytes Model.Scalar.
From Coq Require Import ZifyBool ZifyN ZifyNat.
Open Scope Z_scope.

(* ---------- big-endian 32-byte encoding ---------- *)
Lemma be_enc_length n v : length (be_enc n v) = n.
Proof. unfold be_enc. rewrite rev_length. apply le_enc_length. Qed.

Lemma be_enc_dec bs : be_enc (length bs) (be_dec bs) = bs.
Proof.
  unfold be_enc, be_dec. rewrite <- (rev_length bs), le_enc_dec. apply rev_involutive.
Qed.

Definition two256 : Z := 2 ^ 256.

Lemma pow256_32 : (256 ^ N.of_nat 32)%N = Z.to_N two256.
Proof. vm_compute. reflexivity. Qed.

Lemma secp_n_lt : secp_n < two256.
Proof. vm_compute. reflexivity. Qed.
Lemma secp_n_pos : 0 < secp_n.
Proof. vm_compute. reflexivity. Qed.

Lemma enc32_length z : length (enc32 z) = 32%nat.
Proof. apply be_enc_length. Qed.

Lemma sc_enc32 z : 0 <= z < two256 -> sc (enc32 z) = z.
Proof.
  intro H. unfold sc, enc32. rewrite be_dec_enc.
  - apply Z2N.id. lia.
  - rewrite pow256_32. apply Z2N.inj_lt; lia.
Qed.

Lemma sc_nonneg b : 0 <= sc b.
Proof. unfold sc. lia. Qed.

Lemma enc32_sc b : length b = 32%nat -> enc32 (sc b) = b.
Proof.
  intro H. unfold enc32, sc. rewrite N2Z.id. rewrite <- H. apply be_enc_dec.
Qed.

Lemma sc_lt_two256 b : length b = 32%nat -> sc b < two256.
Proof.
  intro H. unfold sc, be_dec. pose proof (le_dec_bound (rev b)) as B.
  rewrite rev_length, H, pow256_32 in B.
  apply N2Z.inj_lt in B. rewrite Z2N.id in B by (vm_compute; discriminate). exact B.
Qed.

Lemma zero32_enc : zero32 = enc32 0.
Proof. vm_compute. reflexivity. Qed.

Lemma enc32_inj x y : 0 <= x < two256 -> 0 <= y < two256 -> enc32 x = enc32 y -> x = y.
Proof. intros Hx Hy E. rewrite <- (sc_enc32 x Hx), <- (sc_enc32 y Hy), E. reflexivity. Qed.

Lemma len32_true b : len32 b = true <-> length b = 32%nat.
Proof. unfold len32. apply Nat.eqb_eq. Qed.

(* ---------- the 32-byte big-endian form of a 64-bit amount ---------- *)
Lemma le_dec_app a b : le_dec (a ++ b) = (le_dec a + 256 ^ N.of_nat (length a) * le_dec b)%N.
Proof.
  induction a as [|x a IH]; cbn [app le_dec length].
  - change (N.of_nat 0) with 0%N. rewrite N.pow_0_r. lia.
  - rewrite IH, Nnat.Nat2N.inj_succ, N.pow_succ_r'. ring.
Qed.

Lemma le_dec_zeros k : le_dec (repeat x00 k) = 0%N.
Proof. induction k as [|k IH]; cbn [repeat le_dec]; [reflexivity | rewrite IH; reflexivity]. Qed.

Lemma rev_repeat {A} (x : A) k : rev (repeat x k) = repeat x k.
Proof.
  induction k as [|k IH]; [reflexivity|]. cbn [repeat rev]. rewrite IH.
  clear IH. induction k as [|k IH]; [reflexivity|]. cbn [repeat app]. rewrite IH. reflexivity.
Qed.

Lemma val32_length v : length (val32 v) = 32%nat.
Proof. unfold val32. rewrite app_length, repeat_length, be_enc_length. reflexivity. Qed.

Lemma sc_val32 v : (v < 2 ^ 64)%N -> sc (val32 v) = Z.of_N v.
Proof.
  intro H. unfold sc, val32, be_dec. rewrite rev_app_distr, rev_repeat, le_dec_app, le_dec_zeros.
  unfold be_enc. rewrite rev_involutive, le_dec_enc.
  - f_equal. lia.
  - exact H.
Qed.

(* ---------- the three libsecp calls on well-sized operands ---------- *)
Definition redn (z : Z) : Z := z mod secp_n.

Lemma redn_range z : 0 <= redn z < two256.
Proof.
  unfold redn. pose proof (Z.mod_pos_bound z secp_n secp_n_pos). pose proof secp_n_lt. lia.
Qed.
Lemma redn_lt z : 0 <= redn z < secp_n.
Proof. unfold redn. apply Z.mod_pos_bound. exact secp_n_pos. Qed.

Lemma ec_negate_32 k : length k = 32%nat -> ec_negate k = (true, enc32 (redn (- redn (sc k)))).
Proof. intro H. unfold ec_negate. apply len32_true in H. rewrite H. reflexivity. Qed.

Lemma ec_negate_not32 k : length k <> 32%nat -> fst (ec_negate k) = false.
Proof.
  intro H. unfold ec_negate. destruct (len32 k) eqn:E; [apply len32_true in E; contradiction | reflexivity].
Qed.

Lemma ec_tweak_mul_amount k v : length k = 32%nat -> (0 < v < 2 ^ 64)%N ->
  ec_tweak_mul k (val32 v) = (true, enc32 (redn (redn (sc k) * Z.of_N v))).
Proof.
  intros Hk Hv. unfold ec_tweak_mul.
  assert (L : len32 (val32 v) = true) by (apply len32_true, val32_length).
  apply len32_true in Hk. rewrite L, Hk. cbn [negb].
  rewrite sc_val32 by lia.
  assert (B : Z.of_N v < secp_n).
  { assert (Z.of_N v < 2 ^ 64) by lia. assert (2 ^ 64 < secp_n) by (vm_compute; reflexivity). lia. }
  destruct (Z.leb_spec secp_n (Z.of_N v)) as [C|_]; [lia|].
  destruct (Z.eqb_spec (Z.of_N v) 0) as [C|_]; [lia|]. reflexivity.
Qed.

Lemma ec_tweak_add_32 k t : length k = 32%nat -> length t = 32%nat -> sc t < secp_n ->
  ec_tweak_add k t =
  if redn (redn (sc k) + sc t) =? 0 then (false, zero32) else (true, enc32 (redn (redn (sc k) + sc t))).
Proof.
  intros Hk Ht B. unfold ec_tweak_add. apply len32_true in Hk, Ht. rewrite Hk, Ht. cbn [negb].
  destruct (Z.leb_spec secp_n (sc t)) as [C|_]; [lia|]. reflexivity.
Qed.

(* ---------- buffers ---------- *)
Lemma sinplace_local f d w :
  sinplace f (Some (mk_sbuf SLocal d)) w = (fst (f d), Some (mk_sbuf SLocal (snd (f d))), w).
Proof. reflexivity. Qed.

(* ---------- domain of the property ---------- *)
Definition okscalar (o : option bytes) : Prop :=
  match o with None => True | Some b => length b = 32%nat /\ sc b < secp_n end.
Definition sval (o : option bytes) : Z := match o with None => 0 | Some b => sc b end.
Definition dat (o : option sbuf) : option bytes := option_map sb_dat o.

Lemma okscalar_enc z : okscalar (Some (enc32 (redn z))).
Proof.
  unfold okscalar. split; [apply enc32_length|]. rewrite sc_enc32 by apply redn_range. apply redn_lt.
Qed.

(* modular arithmetic facts used below *)
Lemma redn_small z : 0 <= z < secp_n -> redn z = z.
Proof. intro H. unfold redn. apply Z.mod_small. exact H. Qed.
Lemma redn_add_l a b : redn (redn a + b) = redn (a + b).
Proof. unfold redn. apply Z.add_mod_idemp_l. pose proof secp_n_pos. lia. Qed.
Lemma redn_add_r a b : redn (a + redn b) = redn (a + b).
Proof. unfold redn. apply Z.add_mod_idemp_r. pose proof secp_n_pos. lia. Qed.
Lemma redn_mul_l a b : redn (redn a * b) = redn (a * b).
Proof. unfold redn. apply Z.mul_mod_idemp_l. pose proof secp_n_pos. lia. Qed.
Lemma redn_neg_eq a b : redn (- redn a) = redn b -> redn (b + a) = 0.
Proof.
  unfold redn. intro H. pose proof secp_n_pos as P.
  rewrite <- Z.add_mod_idemp_l, <- H, Z.add_mod_idemp_l by lia.
  rewrite <- Z.add_mod_idemp_r by lia.
  replace (- (a mod secp_n) + a mod secp_n) with 0 by lia. reflexivity.
Qed.
Lemma redn_sum_zero a b : redn (b + a) = 0 -> redn (- redn a) = redn b.
Proof.
  unfold redn. intro H. pose proof secp_n_pos as P.
  assert (E : (b mod secp_n) = ((b + a) + - (a mod secp_n)) mod secp_n).
  { rewrite <- Z.add_assoc. rewrite <- Z.add_mod_idemp_r by lia.
    rewrite <- (Z.add_mod_idemp_l a) by lia.
    replace (a mod secp_n + - (a mod secp_n)) with 0 by lia.
    rewrite Z.mod_0_l by lia. rewrite Z.add_0_r. reflexivity. }
  rewrite E. rewrite <- Z.add_mod_idemp_l by lia. rewrite H. reflexivity.
Qed.
Lemma redn_idem a : redn (redn a) = redn a.
Proof. unfold redn. apply Z.mod_mod. pose proof secp_n_pos. lia. Qed.

Lemma bytes_eqb_refl a : bytes_eqb a a = true.
Proof. apply bytes_eqb_eq. reflexivity. Qed.

(* ---------- CalculateScalarOffset in closed form ---------- *)
Definition calc_closed (v : N) (a b : option bytes) : soutcome :=
  match a with
  | None => SOOk b
  | Some x =>
      if (0 <? v)%N then
        match b with
        | None => SOErr
        | Some y => SOOk (Some (enc32 (redn (Z.of_N v * sc x + sc y))))
        end
      else SOOk b
  end.

Lemma calc_w_closed v A B w : (v < 2 ^ 64)%N -> okscalar (dat A) -> okscalar (dat B) ->
  snd (calc_offset_w v A B w) = w /\
  sout_of (fst (calc_offset_w v A B w)) = calc_closed v (dat A) (dat B).
Proof.
  intros Hv HA HB. unfold calc_offset_w, calc_closed.
  destruct A as [[oa a]|]; cbn [scopy dat option_map sb_dat] in *.
  2:{ split; [reflexivity|]. destruct B as [[ob b]|]; reflexivity. }
  destruct HA as [La Ba].
  destruct (N.ltb_spec 0 v) as [Hpos|Hz].
  2:{ split; [reflexivity|]. destruct B as [[ob b]|]; reflexivity. }
  rewrite sinplace_local. cbv beta. rewrite ec_tweak_mul_amount by (try assumption; lia).
  cbn [fst snd negb].
  destruct B as [[ob b]|]; cbn [scopy dat option_map sb_dat] in *.
  2:{ split; reflexivity. }
  destruct HB as [Lb Bb].
  rewrite sinplace_local, ec_negate_32 by assumption. cbn [fst snd negb].
  unfold sbuf_eqb. cbn [sdat sb_dat].
  pose proof (sc_nonneg a) as Pa.
  rewrite (redn_small (sc a)) by lia.
  destruct (bytes_eqb _ _) eqn:E.
  - split; [reflexivity|]. cbn [sout_of option_map szero_buf sb_dat fst].
    apply bytes_eqb_eq in E. apply enc32_inj in E; try apply redn_range.
    apply redn_neg_eq in E. rewrite (Z.mul_comm (Z.of_N v)), E, zero32_enc. reflexivity.
  - rewrite sinplace_local. cbv beta.
    rewrite ec_tweak_add_32; try assumption; [|apply enc32_length].
    rewrite sc_enc32 by apply redn_range. rewrite redn_idem, redn_add_l.
    destruct (Z.eqb_spec (redn (sc a * Z.of_N v + sc b)) 0) as [Z0|NZ].
    + exfalso. apply redn_sum_zero in Z0. rewrite Z0, bytes_eqb_refl in E. discriminate E.
    + cbn [fst snd negb sout_of option_map sb_dat]. split; [reflexivity|].
      rewrite (Z.mul_comm (Z.of_N v)). reflexivity.
Qed.

Lemma calc_closed_ok v a b o : okscalar a -> okscalar b -> calc_closed v a b = SOOk o -> okscalar o.
Proof.
  intros Ha Hb. unfold calc_closed. destruct a as [x|].
  - destruct (0 <? v)%N.
    + destruct b as [y|]; [|discriminate]. intro E. inversion E; subst. apply okscalar_enc.
    + intro E. inversion E; subst. exact Hb.
  - intro E. inversion E; subst. exact Hb.
Qed.

(* ---------- SubtractScalars in closed form ---------- *)
Definition sub_closed (a b : option bytes) : soutcome :=
  match b with
  | None => SOOk a
  | Some y =>
      match a with
      | None => SOOk (Some (enc32 (redn (- sc y))))
      | Some x => if redn (sc x - sc y) =? 0 then SOErr else SOOk (Some (enc32 (redn (sc x - sc y))))
      end
  end.

Lemma sub_w_closed A B w : okscalar (dat A) -> okscalar (dat B) ->
  snd (sub_scalars_w A B w) = w /\ sout_of (fst (sub_scalars_w A B w)) = sub_closed (dat A) (dat B).
Proof.
  intros HA HB. unfold sub_scalars_w, sub_closed.
  destruct B as [[ob b]|]; cbn [scopy dat option_map sb_dat] in *.
  2:{ split; [reflexivity|]. destruct A as [[oa a]|]; reflexivity. }
  destruct HB as [Lb Bb]. pose proof (sc_nonneg b) as Pb.
  rewrite sinplace_local, ec_negate_32 by assumption. cbn [fst snd negb].
  rewrite (redn_small (sc b)) by lia.
  destruct A as [[oa a]|]; cbn [scopy dat option_map sb_dat] in *.
  2:{ split; reflexivity. }
  destruct HA as [La Ba]. pose proof (sc_nonneg a) as Pa.
  rewrite sinplace_local. cbv beta. cbn [sdat sb_dat].
  rewrite ec_tweak_add_32; try assumption; try apply enc32_length.
  2:{ rewrite sc_enc32 by apply redn_range. apply redn_lt. }
  rewrite sc_enc32 by apply redn_range. rewrite redn_add_r, (redn_small (sc a)) by lia.
  rewrite Z.add_opp_r.
  destruct (redn (sc a - sc b) =? 0); split; reflexivity.
Qed.

(* ---------- ComputeAndAddToScalarOffset in closed form ---------- *)
Definition add_closed (s : option bytes) (v : N) (a b : option bytes) : soutcome :=
  match a, b with
  | None, None => SOOk s
  | _, _ =>
      match calc_closed v a b with
      | SOErr => SOErr
      | SOOk off =>
          match s with
          | None => SOOk off
          | Some x =>
              match off with
              | None => SOErr
              | Some o => SOOk (Some (enc32 (redn (sc x + sc o))))
              end
          end
      end
  end.

Lemma add_tail S off w : okscalar (dat S) -> okscalar (dat off) ->
  let nv := scopy off in
  let s := scopy S in
  let r :=
    match s with
    | None => (SOk off, w)
    | Some _ =>
        let '(ok, nv, w) := sinplace ec_negate nv w in
        if negb ok then (SErr, w) else
        if sbuf_eqb s nv then (SOk (Some szero_buf), w) else
        let '(ok, s, w) := sinplace (fun k => ec_tweak_add k (sdat off)) s w in
        if negb ok then (SErr, w) else (SOk s, w)
    end in
  snd r = w /\
  sout_of (fst r) =
    match dat S with
    | None => SOOk (dat off)
    | Some x => match dat off with None => SOErr | Some o => SOOk (Some (enc32 (redn (sc x + sc o)))) end
    end.
Proof.
  intros HS Ho. cbv zeta.
  destruct S as [[os x]|]; cbn [scopy dat option_map sb_dat] in *.
  2:{ split; reflexivity. }
  destruct HS as [Lx Bx]. pose proof (sc_nonneg x) as Px.
  destruct off as [[oo o]|]; cbn [scopy dat option_map sb_dat] in *.
  2:{ split; reflexivity. }
  destruct Ho as [Lo Bo]. pose proof (sc_nonneg o) as Po.
  rewrite sinplace_local, ec_negate_32 by assumption. cbn [fst snd negb].
  unfold sbuf_eqb. cbn [sdat sb_dat].
  destruct (bytes_eqb _ _) eqn:E.
  - split; [reflexivity|]. cbn [sout_of option_map szero_buf sb_dat fst].
    apply bytes_eqb_eq in E. apply (f_equal sc) in E. rewrite sc_enc32 in E by apply redn_range.
    assert (Z0 : redn (sc x + sc o) = 0).
    { apply redn_neg_eq. rewrite <- E. symmetry. apply redn_small. lia. }
    rewrite Z0, zero32_enc. reflexivity.
  - rewrite sinplace_local. cbv beta.
    rewrite ec_tweak_add_32 by assumption. rewrite redn_add_l.
    destruct (Z.eqb_spec (redn (sc x + sc o)) 0) as [Z0|NZ].
    + exfalso. apply redn_sum_zero in Z0. rewrite Z0, (redn_small (sc x)), enc32_sc, bytes_eqb_refl in E by (assumption || lia).
      discriminate E.
    + cbn [fst snd negb sout_of option_map sb_dat]. split; reflexivity.
Qed.

Lemma dat_scopy o : dat (scopy o) = dat o.
Proof. destruct o as [[? ?]|]; reflexivity. Qed.

Lemma add_w_closed S v A B w : (v < 2 ^ 64)%N -> okscalar (dat S) -> okscalar (dat A) -> okscalar (dat B) ->
  snd (add_offset_w S v A B w) = w /\
  sout_of (fst (add_offset_w S v A B w)) = add_closed (dat S) v (dat A) (dat B).
Proof.
  intros Hv HS HA HB.
  assert (G : forall A' B', dat A' = dat A -> dat B' = dat B ->
    let r := let '(r, w) := calc_offset_w v A' B' w in
      match r with
      | SErr => (SErr, w)
      | SOk scalarOffset =>
          match scopy S with
          | None => (SOk scalarOffset, w)
          | Some _ =>
              let nv := scopy scalarOffset in
              let '(ok, nv, w) := sinplace ec_negate nv w in
              if negb ok then (SErr, w) else
              if sbuf_eqb (scopy S) nv then (SOk (Some szero_buf), w) else
              let '(ok, s, w) := sinplace (fun k => ec_tweak_add k (sdat scalarOffset)) (scopy S) w in
              if negb ok then (SErr, w) else (SOk s, w)
          end
      end in
    snd r = w /\
    sout_of (fst r) =
      match calc_closed v (dat A) (dat B) with
      | SOErr => SOErr
      | SOOk off =>
          match dat S with
          | None => SOOk off
          | Some x => match off with None => SOErr | Some o => SOOk (Some (enc32 (redn (sc x + sc o)))) end
          end
      end).
  { intros A' B' EA EB. cbv zeta.
    destruct (calc_w_closed v A' B' w Hv) as [W C]; [rewrite EA; exact HA | rewrite EB; exact HB |].
    rewrite EA, EB in C.
    destruct (calc_offset_w v A' B' w) as [r w']. cbn [fst snd] in W, C. subst w'.
    destruct r as [off|]; cbn [sout_of] in C; rewrite <- C; [|split; reflexivity].
    fold (dat off).
    assert (Ho : okscalar (dat off)) by (apply (calc_closed_ok v (dat A) (dat B)); [exact HA | exact HB | symmetry; exact C]).
    exact (add_tail S off w HS Ho). }
  unfold add_offset_w, add_closed.
  destruct A as [[oa a]|], B as [[ob b]|]; cbn [scopy dat option_map sb_dat] in *.
  - apply (G (Some (mk_sbuf SLocal a)) (Some (mk_sbuf SLocal b))); reflexivity.
  - apply (G (Some (mk_sbuf SLocal a)) None); reflexivity.
  - apply (G None (Some (mk_sbuf SLocal b))); reflexivity.
  - split; [reflexivity|]. cbn [fst sout_of]. fold (dat (scopy S)). rewrite dat_scopy. reflexivity.
Qed.

(* ---------- no helper writes to memory it did not allocate: all inputs, no hypothesis ---------- *)
Lemma sinplace_none f w : sinplace f None w = (fst (f []), None, w).
Proof. reflexivity. Qed.

Ltac local_call :=
  rewrite ?sinplace_local, ?sinplace_none; cbv beta; cbn [sb_dat sb_own fst snd];
  match goal with
  | |- context [if negb (fst ?t) then _ else _] => let ok := fresh "ok" in let d := fresh "d" in
      destruct t as [ok d]; cbn [fst snd]; destruct ok; cbn [negb]; try reflexivity
  end.

Lemma calc_w_log v A B w : snd (calc_offset_w v A B w) = w.
Proof.
  unfold calc_offset_w.
  destruct A as [[oa a]|], B as [[ob b]|]; cbn [scopy]; try reflexivity;
    destruct (0 <? v)%N; try reflexivity; local_call.
  local_call. destruct (sbuf_eqb _ _); [reflexivity|]. local_call.
Qed.

Lemma sub_w_log A B w : snd (sub_scalars_w A B w) = w.
Proof.
  unfold sub_scalars_w.
  destruct A as [[oa a]|], B as [[ob b]|]; cbn [scopy]; try reflexivity; local_call.
  local_call.
Qed.

Lemma add_w_log S v A B w : snd (add_offset_w S v A B w) = w.
Proof.
  assert (G : forall A' B',
    snd (let '(r, w) := calc_offset_w v A' B' w in
      match r with
      | SErr => (SErr, w)
      | SOk scalarOffset =>
          match scopy S with
          | None => (SOk scalarOffset, w)
          | Some _ =>
              let nv := scopy scalarOffset in
              let '(ok, nv, w) := sinplace ec_negate nv w in
              if negb ok then (SErr, w) else
              if sbuf_eqb (scopy S) nv then (SOk (Some szero_buf), w) else
              let '(ok, s, w) := sinplace (fun k => ec_tweak_add k (sdat scalarOffset)) (scopy S) w in
              if negb ok then (SErr, w) else (SOk s, w)
          end
      end) = w).
  { intros A' B'. pose proof (calc_w_log v A' B' w) as W.
    destruct (calc_offset_w v A' B' w) as [r w']. cbn [snd] in W. subst w'.
    destruct r as [off|]; [|reflexivity].
    destruct S as [[os x]|]; cbn [scopy]; [|reflexivity]. cbv zeta.
    destruct off as [[oo o]|]; cbn [scopy]; local_call;
      (destruct (sbuf_eqb _ _); [reflexivity|]; local_call). }
  unfold add_offset_w.
  destruct A as [[oa a]|], B as [[ob b]|]; cbn [scopy]; try apply G. reflexivity.
Qed.

(* ---------- the exported functions ---------- *)
Lemma dat_sarg i o : dat (sarg i o) = o.
Proof. destruct o; reflexivity. Qed.

Theorem calc_offset_closed v ab vb : (v < 2 ^ 64)%N -> okscalar ab -> okscalar vb ->
  calc_offset v ab vb = calc_closed v ab vb.
Proof.
  intros Hv Ha Hb. unfold calc_offset, go_calc_offset.
  destruct (calc_w_closed v (sarg 0 ab) (sarg 1 vb) [] Hv) as [_ C]; rewrite ?dat_sarg; try assumption.
  rewrite !dat_sarg in C. exact C.
Qed.

Theorem sub_scalars_closed a b : okscalar a -> okscalar b -> sub_scalars a b = sub_closed a b.
Proof.
  intros Ha Hb. unfold sub_scalars, go_sub_scalars.
  destruct (sub_w_closed (sarg 0 a) (sarg 1 b) []) as [_ C]; rewrite ?dat_sarg; try assumption.
  rewrite !dat_sarg in C. exact C.
Qed.

Theorem add_offset_closed s v ab vb : (v < 2 ^ 64)%N -> okscalar s -> okscalar ab -> okscalar vb ->
  add_offset s v ab vb = add_closed s v ab vb.
Proof.
  intros Hv Hs Ha Hb. unfold add_offset, go_add_offset.
  destruct (add_w_closed (sarg 0 s) v (sarg 1 ab) (sarg 2 vb) [] Hv) as [_ C]; rewrite ?dat_sarg; try assumption.
  rewrite !dat_sarg in C. exact C.
Qed.

(* the property's arithmetic *)
Definition modn (z : Z) : Z := z mod secp_n.

Lemma sval_small o : okscalar o -> 0 <= sval o < secp_n.
Proof. destruct o as [b|]; cbn [okscalar sval]; [intros [_ B]; pose proof (sc_nonneg b); lia | pose proof secp_n_pos; lia]. Qed.

Lemma sval_enc z : sval (Some (enc32 (redn z))) = modn z.
Proof. cbn [sval]. rewrite sc_enc32 by apply redn_range. reflexivity. Qed.

(* CalculateScalarOffset: whenever it answers, the answer is value * ab + vb (mod n), nil counting as 0 *)
Theorem calc_offset_spec v ab vb r : (v < 2 ^ 64)%N -> okscalar ab -> okscalar vb ->
  calc_offset v ab vb = SOOk r ->
  okscalar r /\ sval r = modn (Z.of_N v * sval ab + sval vb).
Proof.
  intros Hv Ha Hb. rewrite calc_offset_closed by assumption. intro C.
  split; [exact (calc_closed_ok v ab vb r Ha Hb C)|].
  pose proof (sval_small vb Hb) as Sb. unfold calc_closed in C.
  destruct ab as [x|]; cbn [sval].
  - destruct (N.ltb_spec 0 v) as [P|Z0].
    + destruct vb as [y|]; [|discriminate]. inversion C; subst. apply sval_enc.
    + inversion C; subst. assert (v = 0%N) by lia. subst v.
      unfold modn. rewrite Z.mul_0_l, Z.add_0_l, Z.mod_small by lia. reflexivity.
  - inversion C; subst. unfold modn. rewrite Z.mul_0_r, Z.add_0_l, Z.mod_small by lia. reflexivity.
Qed.

(* ... and it refuses to answer exactly when the value is non-zero, the asset blinder is present
   and the value blinder is absent *)
Theorem calc_offset_error_iff v ab vb : (v < 2 ^ 64)%N -> okscalar ab -> okscalar vb ->
  (calc_offset v ab vb = SOErr <-> (0 < v)%N /\ ab <> None /\ vb = None).
Proof.
  intros Hv Ha Hb. rewrite calc_offset_closed by assumption. unfold calc_closed.
  destruct ab as [x|].
  - destruct (N.ltb_spec 0 v) as [P|Z0].
    + destruct vb as [y|].
      * split; [discriminate | intros (_ & _ & E); discriminate E].
      * split; [intros _; repeat split; [exact P | discriminate] | reflexivity].
    + split; [discriminate | intros (P & _); lia].
  - split; [discriminate | intros (_ & E & _); contradiction].
Qed.

(* FULL STATEMENT (what the property text asks for; false of the code, see calc_offset_total_refuted):
     forall v ab vb, v < 2^64 -> okscalar ab -> okscalar vb ->
       exists r, calc_offset v ab vb = SOOk r /\ sval r = modn (v * sval ab + sval vb).
   Proved outside the error region: *)
Theorem calc_offset_total_partial v ab vb : (v < 2 ^ 64)%N -> okscalar ab -> okscalar vb ->
  ~ ((0 < v)%N /\ ab <> None /\ vb = None) ->
  exists r, calc_offset v ab vb = SOOk r /\ okscalar r /\ sval r = modn (Z.of_N v * sval ab + sval vb).
Proof.
  intros Hv Ha Hb NE. destruct (calc_offset v ab vb) as [r|] eqn:E.
  - exists r. split; [reflexivity|]. exact (calc_offset_spec v ab vb r Hv Ha Hb E).
  - exfalso. apply NE. apply calc_offset_error_iff; assumption.
Qed.

Definition one32 : bytes := enc32 1.

Theorem calc_offset_total_refuted :
  exists v ab vb, (v < 2 ^ 64)%N /\ okscalar ab /\ okscalar vb /\ calc_offset v ab vb = SOErr.
Proof.
  exists 1%N, (Some one32), None. repeat split; try (vm_compute; reflexivity).
Qed.

(* SubtractScalars *)
Theorem sub_scalars_spec a b r : okscalar a -> okscalar b ->
  sub_scalars a b = SOOk r -> okscalar r /\ sval r = modn (sval a - sval b).
Proof.
  intros Ha Hb. rewrite sub_scalars_closed by assumption. unfold sub_closed.
  pose proof (sval_small a Ha) as Sa.
  destruct b as [y|].
  - destruct a as [x|].
    + destruct (redn (sc x - sc y) =? 0); [discriminate|]. intro C; inversion C; subst.
      split; [apply okscalar_enc | apply sval_enc].
    + intro C; inversion C; subst. split; [apply okscalar_enc|]. rewrite sval_enc. reflexivity.
  - intro C; inversion C; subst. split; [exact Ha|].
    cbn [sval]. unfold modn. rewrite Z.sub_0_r, Z.mod_small by lia. reflexivity.
Qed.

(* it refuses to answer exactly when both operands are present and equal (difference zero) *)
Theorem sub_scalars_error_iff a b : okscalar a -> okscalar b ->
  (sub_scalars a b = SOErr <-> a <> None /\ b <> None /\ sval a = sval b).
Proof.
  intros Ha Hb. rewrite sub_scalars_closed by assumption. unfold sub_closed.
  pose proof (sval_small a Ha) as Sa. pose proof (sval_small b Hb) as Sb.
  destruct b as [y|].
  - destruct a as [x|]; cbn [sval] in *.
    + destruct (Z.eqb_spec (redn (sc x - sc y)) 0) as [Z0|NZ].
      * split; [|reflexivity]. intros _. repeat split; try discriminate.
        unfold redn, secp_n in *. lia.
      * split; [discriminate|]. intros (_ & _ & E). exfalso. apply NZ.
        rewrite E, Z.sub_diag. reflexivity.
    + split; [discriminate | intros (E & _); contradiction].
  - split; [discriminate | intros (_ & E & _); contradiction].
Qed.

(* FULL STATEMENT (false of the code, see sub_scalars_total_refuted):
     forall a b, okscalar a -> okscalar b -> exists r, sub_scalars a b = SOOk r /\ sval r = modn (sval a - sval b). *)
Theorem sub_scalars_total_partial a b : okscalar a -> okscalar b ->
  ~ (a <> None /\ b <> None /\ sval a = sval b) ->
  exists r, sub_scalars a b = SOOk r /\ okscalar r /\ sval r = modn (sval a - sval b).
Proof.
  intros Ha Hb NE. destruct (sub_scalars a b) as [r|] eqn:E.
  - exists r. split; [reflexivity|]. exact (sub_scalars_spec a b r Ha Hb E).
  - exfalso. apply NE. apply sub_scalars_error_iff; assumption.
Qed.

Theorem sub_scalars_total_refuted :
  exists a b, okscalar a /\ okscalar b /\ sub_scalars a b = SOErr.
Proof.
  exists (Some one32), (Some one32). repeat split; try (vm_compute; reflexivity).
Qed.

(* ComputeAndAddToScalarOffset *)
Theorem add_offset_spec s v ab vb r : (v < 2 ^ 64)%N -> okscalar s -> okscalar ab -> okscalar vb ->
  add_offset s v ab vb = SOOk r ->
  okscalar r /\ sval r = modn (sval s + Z.of_N v * sval ab + sval vb).
Proof.
  intros Hv Hs Ha Hb. rewrite add_offset_closed by assumption. unfold add_closed.
  pose proof (sval_small s Hs) as Ss.
  assert (G : match calc_closed v ab vb with
              | SOErr => SOErr
              | SOOk off => match s with
                            | None => SOOk off
                            | Some x => match off with None => SOErr | Some o => SOOk (Some (enc32 (redn (sc x + sc o)))) end
                            end
              end = SOOk r -> okscalar r /\ sval r = modn (sval s + Z.of_N v * sval ab + sval vb)).
  { rewrite <- calc_offset_closed by assumption.
    destruct (calc_offset v ab vb) as [off|] eqn:E; [|discriminate].
    destruct (calc_offset_spec v ab vb off Hv Ha Hb E) as [Oo Vo].
    destruct s as [x|]; cbn [sval].
    - destruct off as [o|]; [|discriminate]. intro C; inversion C; subst.
      split; [apply okscalar_enc|]. rewrite sval_enc. cbn [sval] in Vo. rewrite Vo.
      unfold modn. rewrite Z.add_mod_idemp_r by (pose proof secp_n_pos; lia). f_equal. lia.
    - intro C; inversion C; subst. split; [exact Oo|]. rewrite Vo. f_equal. }
  destruct ab as [a|], vb as [b|]; try exact G.
  intro C; inversion C; subst. split; [exact Hs|]. cbn [sval]. unfold modn.
  rewrite Z.mul_0_r, !Z.add_0_r, Z.mod_small by lia. reflexivity.
Qed.

Theorem add_offset_error_iff s v ab vb : (v < 2 ^ 64)%N -> okscalar s -> okscalar ab -> okscalar vb ->
  (add_offset s v ab vb = SOErr <-> ab <> None /\ vb = None /\ ((0 < v)%N \/ s <> None)).
Proof.
  intros Hv Hs Ha Hb. rewrite add_offset_closed by assumption. unfold add_closed.
  destruct ab as [a|], vb as [b|]; unfold calc_closed.
  - destruct (0 <? v)%N; (destruct s; (split; [discriminate | intros (_ & E & _); discriminate E])).
  - destruct (N.ltb_spec 0 v) as [P|Z0].
    + split; [|reflexivity]. intros _. repeat split; [discriminate | left; exact P].
    + destruct s as [x|].
      * split; [|reflexivity]. intros _. repeat split; [discriminate | right; discriminate].
      * split; [discriminate|]. intros (_ & _ & [P|E]); [lia | contradiction].
  - destruct s; (split; [discriminate | intros (E & _); contradiction]).
  - split; [discriminate | intros (E & _); contradiction].
Qed.

(* FULL STATEMENT (false of the code, see add_offset_total_refuted):
     forall s v ab vb, v < 2^64 -> okscalar s -> okscalar ab -> okscalar vb ->
       exists r, add_offset s v ab vb = SOOk r /\ sval r = modn (sval s + v * sval ab + sval vb). *)
Theorem add_offset_total_partial s v ab vb : (v < 2 ^ 64)%N -> okscalar s -> okscalar ab -> okscalar vb ->
  ~ (ab <> None /\ vb = None /\ ((0 < v)%N \/ s <> None)) ->
  exists r, add_offset s v ab vb = SOOk r /\ okscalar r /\ sval r = modn (sval s + Z.of_N v * sval ab + sval vb).
Proof.
  intros Hv Hs Ha Hb NE. destruct (add_offset s v ab vb) as [r|] eqn:E.
  - exists r. split; [reflexivity|]. exact (add_offset_spec s v ab vb r Hv Hs Ha Hb E).
  - exfalso. apply NE. apply add_offset_error_iff; assumption.
Qed.

Theorem add_offset_total_refuted :
  exists s v ab vb, (v < 2 ^ 64)%N /\ okscalar s /\ okscalar ab /\ okscalar vb /\ add_offset s v ab vb = SOErr.
Proof.
  exists (Some one32), 0%N, (Some one32), None. repeat split; try (vm_compute; reflexivity).
Qed.

(* the arguments are never written: every input, every length, no hypothesis *)
Lemma sarg_after_nil i before : sarg_after i before [] = before.
Proof. reflexivity. Qed.

Theorem scalar_helpers_leave_arguments_alone :
  (forall v ab vb, snd (go_calc_offset v ab vb) = []) /\
  (forall a b, snd (go_sub_scalars a b) = []) /\
  (forall s v ab vb, snd (go_add_offset s v ab vb) = []).
Proof.
  repeat split; intros; [apply calc_w_log | apply sub_w_log | apply add_w_log].
Qed.

Corollary scalar_args_after s v ab vb i before :
  sarg_after i before (snd (go_calc_offset v ab vb)) = before /\
  sarg_after i before (snd (go_sub_scalars ab vb)) = before /\
  sarg_after i before (snd (go_add_offset s v ab vb)) = before.
Proof.
  destruct scalar_helpers_leave_arguments_alone as (A & B & C). rewrite A, B, C. repeat split.
Qed.

(* results that wrap to zero are returned as 32 zero bytes (examples inside the kernel) *)
Definition nm1 : bytes := enc32 (secp_n - 1).
Example calc_wraps_to_zero : calc_offset 1 (Some one32) (Some nm1) = SOOk (Some zero32).
Proof. vm_compute. reflexivity. Qed.
Example add_wraps_to_zero : add_offset (Some nm1) 0 None (Some one32) = SOOk (Some zero32).
Proof. vm_compute. reflexivity. Qed.
Example sub_wraps_around : sub_scalars (Some zero32) (Some one32) = SOOk (Some nm1).
Proof. vm_compute. reflexivity. Qed.
Example hyps_satisfiable : okscalar (Some nm1) /\ okscalar None /\ okscalar (Some zero32).
Proof. repeat split; vm_compute; reflexivity. Qed.
