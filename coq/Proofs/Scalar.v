(* Proofs/Scalar.v — the blinding-scalar helpers compute exact arithmetic modulo n (C17). *)
From GE Require Import Lib.Bytes Model.Scalar.
From Coq Require Import ZifyBool ZifyN ZifyNat.
Open Scope Z_scope.

(* ---------- big-endian 32-byte encoding ---------- *)
Lemma be_enc_length n v : length (be_enc n v) = n.
Proof. unfold be_enc. rewrite rev_length. apply le_enc_length. Qed.

Lemma be_enc_dec bs : be_enc (length bs) (be_dec bs) = bs.
Proof.
  unfold be_enc, be_dec. rewrite <- (rev_length bs), le_enc_dec. apply rev_involutive.
Qed.

Definition two256 : Z := 2 ^ 256.

Lemma pow256_32 : (256 ^ N.of_nat 32)%N = Z.to_N two256.
Proof. vm_compute. reflexivity. Qed.

Lemma secp_n_lt : secp_n < two256.
Proof. vm_compute. reflexivity. Qed.
Lemma secp_n_pos : 0 < secp_n.
Proof. vm_compute. reflexivity. Qed.

Lemma enc32_length z : length (enc32 z) = 32%nat.
Proof. apply be_enc_length. Qed.

Lemma sc_enc32 z : 0 <= z < two256 -> sc (enc32 z) = z.
Proof.
  intro H. unfold sc, enc32. rewrite be_dec_enc.
  - apply Z2N.id. lia.
  - rewrite pow256_32. apply Z2N.inj_lt; lia.
Qed.

Lemma sc_nonneg b : 0 <= sc b.
Proof. unfold sc. lia. Qed.

Lemma enc32_sc b : length b = 32%nat -> enc32 (sc b) = b.
Proof.
  intro H. unfold enc32, sc. rewrite N2Z.id. rewrite <- H. apply be_enc_dec.
Qed.

Lemma sc_lt_two256 b : length b = 32%nat -> sc b < two256.
Proof.
  intro H. unfold sc, be_dec. pose proof (le_dec_bound (rev b)) as B.
  rewrite rev_length, H, pow256_32 in B.
  apply N2Z.inj_lt in B. rewrite Z2N.id in B by (vm_compute; discriminate). exact B.
Qed.

Lemma zero32_enc : zero32 = enc32 0.
Proof. vm_compute. reflexivity. Qed.

Lemma enc32_inj x y : 0 <= x < two256 -> 0 <= y < two256 -> enc32 x = enc32 y -> x = y.
Proof. intros Hx Hy E. rewrite <- (sc_enc32 x Hx), <- (sc_enc32 y Hy), E. reflexivity. Qed.

Lemma len32_true b : len32 b = true <-> length b = 32%nat.
Proof. unfold len32. apply Nat.eqb_eq. Qed.

(* ---------- the 32-byte big-endian form of a 64-bit amount ---------- *)
Lemma le_dec_app a b : le_dec (a ++ b) = (le_dec a + 256 ^ N.of_nat (length a) * le_dec b)%N.
Proof.
  induction a as [|x a IH]; cbn [app le_dec length].
  - change (N.of_nat 0) with 0%N. rewrite N.pow_0_r. lia.
  - rewrite IH, Nnat.Nat2N.inj_succ, N.pow_succ_r'. ring.
Qed.

Lemma le_dec_zeros k : le_dec (repeat x00 k) = 0%N.
Proof. induction k as [|k IH]; cbn [repeat le_dec]; [reflexivity | rewrite IH; reflexivity]. Qed.

Lemma rev_repeat {A} (x : A) k : rev (repeat x k) = repeat x k.
Proof.
  induction k as [|k IH]; [reflexivity|]. cbn [repeat rev]. rewrite IH.
  clear IH. induction k as [|k IH]; [reflexivity|]. cbn [repeat app]. rewrite IH. reflexivity.
Qed.

Lemma val32_length v : length (val32 v) = 32%nat.
Proof. unfold val32. rewrite app_length, repeat_length, be_enc_length. reflexivity. Qed.

Lemma sc_val32 v : (v < 2 ^ 64)%N -> sc (val32 v) = Z.of_N v.
Proof.
  intro H. unfold sc, val32, be_dec. rewrite rev_app_distr, rev_repeat, le_dec_app, le_dec_zeros.
  unfold be_enc. rewrite rev_involutive, le_dec_enc.
  - f_equal. lia.
  - exact H.
Qed.

(* ---------- the three libsecp calls on well-sized operands ---------- *)
Definition redn (z : Z) : Z := z mod secp_n.

Lemma redn_range z : 0 <= redn z < two256.
Proof.
  unfold redn. pose proof (Z.mod_pos_bound z secp_n secp_n_pos). pose proof secp_n_lt. lia.
Qed.
Lemma redn_lt z : 0 <= redn z < secp_n.
Proof. unfold redn. apply Z.mod_pos_bound. exact secp_n_pos. Qed.

Lemma ec_negate_32 k : length k = 32%nat -> ec_negate k = (true, enc32 (redn (- redn (sc k)))).
Proof. intro H. unfold ec_negate. apply len32_true in H. rewrite H. reflexivity. Qed.

Lemma ec_negate_not32 k : length k <> 32%nat -> fst (ec_negate k) = false.
Proof.
  intro H. unfold ec_negate. destruct (len32 k) eqn:E; [apply len32_true in E; contradiction | reflexivity].
Qed.

Lemma ec_tweak_mul_amount k v : length k = 32%nat -> (0 < v < 2 ^ 64)%N ->
  ec_tweak_mul k (val32 v) = (true, enc32 (redn (redn (sc k) * Z.of_N v))).
Proof.
  intros Hk Hv. unfold ec_tweak_mul.
  assert (L : len32 (val32 v) = true) by (apply len32_true, val32_length).
  apply len32_true in Hk. rewrite L, Hk. cbn [negb].
  rewrite sc_val32 by lia.
  assert (B : Z.of_N v < secp_n).
  { assert (Z.of_N v < 2 ^ 64) by lia. assert (2 ^ 64 < secp_n) by (vm_compute; reflexivity). lia. }
  destruct (Z.leb_spec secp_n (Z.of_N v)) as [C|_]; [lia|].
  destruct (Z.eqb_spec (Z.of_N v) 0) as [C|_]; [lia|]. reflexivity.
Qed.

Lemma ec_tweak_add_32 k t : length k = 32%nat -> length t = 32%nat -> sc t < secp_n ->
  ec_tweak_add k t =
  if redn (redn (sc k) + sc t) =? 0 then (false, zero32) else (true, enc32 (redn (redn (sc k) + sc t))).
Proof.
  intros Hk Ht B. unfold ec_tweak_add. apply len32_true in Hk, Ht. rewrite Hk, Ht. cbn [negb].
  destruct (Z.leb_spec secp_n (sc t)) as [C|_]; [lia|]. reflexivity.
Qed.

(* ---------- buffers ---------- *)
Lemma sinplace_local f d w :
  sinplace f (Some (mk_sbuf SLocal d)) w = (fst (f d), Some (mk_sbuf SLocal (snd (f d))), w).
Proof. reflexivity. Qed.

(* ---------- domain of the property ---------- *)
Definition okscalar (o : option bytes) : Prop :=
  match o with None => True | Some b => length b = 32%nat /\ sc b < secp_n end.
Definition sval (o : option bytes) : Z := match o with None => 0 | Some b => sc b end.
Definition dat (o : option sbuf) : option bytes := option_map sb_dat o.

Lemma okscalar_enc z : okscalar (Some (enc32 (redn z))).
Proof.
  unfold okscalar. split; [apply enc32_length|]. rewrite sc_enc32 by apply redn_range. apply redn_lt.
Qed.

(* modular arithmetic facts used below *)
Lemma redn_small z : 0 <= z < secp_n -> redn z = z.
Proof. intro H. unfold redn. apply Z.mod_small. exact H. Qed.
Lemma redn_add_l a b : redn (redn a + b) = redn (a + b).
Proof. unfold redn. apply Z.add_mod_idemp_l. pose proof secp_n_pos. lia. Qed.
Lemma redn_add_r a b : redn (a + redn b) = redn (a + b).
Proof. unfold redn. apply Z.add_mod_idemp_r. pose proof secp_n_pos. lia. Qed.
Lemma redn_mul_l a b : redn (redn a * b) = redn (a * b).
Proof. unfold redn. apply Z.mul_mod_idemp_l. pose proof secp_n_pos. lia. Qed.
Lemma redn_neg_eq a b : redn (- redn a) = redn b -> redn (b + a) = 0.
Proof.
  unfold redn. intro H. pose proof secp_n_pos as P.
  rewrite <- Z.add_mod_idemp_l, <- H, Z.add_mod_idemp_l by lia.
  rewrite <- Z.add_mod_idemp_r by lia.
  replace (- (a mod secp_n) + a mod secp_n) with 0 by lia. reflexivity.
Qed.
Lemma redn_sum_zero a b : redn (b + a) = 0 -> redn (- redn a) = redn b.
Proof.
  unfold redn. intro H. pose proof secp_n_pos as P.
  assert (E : (b mod secp_n) = ((b + a) + - (a mod secp_n)) mod secp_n).
  { rewrite <- Z.add_assoc. rewrite <- Z.add_mod_idemp_r by lia.
    rewrite <- (Z.add_mod_idemp_l a) by lia.
    replace (a mod secp_n + - (a mod secp_n)) with 0 by lia.
    rewrite Z.mod_0_l by lia. rewrite Z.add_0_r. reflexivity. }
  rewrite E. rewrite <- Z.add_mod_idemp_l by lia. rewrite H. reflexivity.
Qed.
Lemma redn_idem a : redn (redn a) = redn a.
Proof. unfold redn. apply Z.mod_mod. pose proof secp_n_pos. lia. Qed.

Lemma bytes_eqb_refl a : bytes_eqb a a = true.
Proof. apply bytes_eqb_eq. reflexivity. Qed.

(* ---------- CalculateScalarOffset in closed form ---------- *)
Definition calc_closed (v : N) (a b : option bytes) : soutcome :=
  match a with
  | None => SOOk b
  | Some x =>
      if (0 <? v)%N then SOOk (Some (enc32 (redn (Z.of_N v * sc x + sval b))))
      else SOOk b
  end.

Lemma calc_w_closed v A B w : (v < 2 ^ 64)%N -> okscalar (dat A) -> okscalar (dat B) ->
  snd (calc_offset_w v A B w) = w /\
  sout_of (fst (calc_offset_w v A B w)) = calc_closed v (dat A) (dat B).
Proof.
  intros Hv HA HB. unfold calc_offset_w, calc_closed.
  destruct A as [[oa a]|]; cbn [scopy dat option_map sb_dat] in *.
  2:{ split; [reflexivity|]. destruct B as [[ob b]|]; reflexivity. }
  destruct HA as [La Ba].
  destruct (N.ltb_spec 0 v) as [Hpos|Hz].
  2:{ split; [reflexivity|]. destruct B as [[ob b]|]; reflexivity. }
  rewrite sinplace_local. cbv beta. rewrite ec_tweak_mul_amount by (try assumption; lia).
  cbn [fst snd negb].
  pose proof (sc_nonneg a) as Pa.
  rewrite (redn_small (sc a)) by lia.
  destruct B as [[ob b]|]; cbn [scopy dat option_map sb_dat sval] in *.
  2:{ split; [reflexivity|]. cbn [sout_of fst option_map sb_dat].
      rewrite Z.add_0_r, (Z.mul_comm (Z.of_N v)). reflexivity. }
  destruct HB as [Lb Bb].
  rewrite sinplace_local, ec_negate_32 by assumption. cbn [fst snd negb].
  unfold sbuf_eqb. cbn [sdat sb_dat].
  destruct (bytes_eqb _ _) eqn:E.
  - split; [reflexivity|]. cbn [sout_of option_map szero_buf sb_dat fst].
    apply bytes_eqb_eq in E. apply enc32_inj in E; try apply redn_range.
    apply redn_neg_eq in E. rewrite (Z.mul_comm (Z.of_N v)), E, zero32_enc. reflexivity.
  - rewrite sinplace_local. cbv beta.
    rewrite ec_tweak_add_32; try assumption; [|apply enc32_length].
    rewrite sc_enc32 by apply redn_range. rewrite redn_idem, redn_add_l.
    destruct (Z.eqb_spec (redn (sc a * Z.of_N v + sc b)) 0) as [Z0|NZ].
    + exfalso. apply redn_sum_zero in Z0. rewrite Z0, bytes_eqb_refl in E. discriminate E.
    + cbn [fst snd negb sout_of option_map sb_dat]. split; [reflexivity|].
      rewrite (Z.mul_comm (Z.of_N v)). reflexivity.
Qed.

Lemma calc_closed_ok v a b o : okscalar a -> okscalar b -> calc_closed v a b = SOOk o -> okscalar o.
Proof.
  intros Ha Hb. unfold calc_closed. destruct a as [x|].
  - destruct (0 <? v)%N.
    + intro E. inversion E; subst. apply okscalar_enc.
    + intro E. inversion E; subst. exact Hb.
  - intro E. inversion E; subst. exact Hb.
Qed.

(* ---------- SubtractScalars in closed form ---------- *)
Definition sub_closed (a b : option bytes) : soutcome :=
  match b with
  | None => SOOk a
  | Some y =>
      match a with
      | None => SOOk (Some (enc32 (redn (- sc y))))
      | Some x => SOOk (Some (enc32 (redn (sc x - sc y))))
      end
  end.

Lemma redn_0 : redn 0 = 0.
Proof. reflexivity. Qed.

Lemma sub_w_closed A B w : okscalar (dat A) -> okscalar (dat B) ->
  snd (sub_scalars_w A B w) = w /\ sout_of (fst (sub_scalars_w A B w)) = sub_closed (dat A) (dat B).
Proof.
  intros HA HB. unfold sub_scalars_w, sub_closed.
  destruct B as [[ob b]|]; cbn [scopy dat option_map sb_dat] in *.
  2:{ split; [reflexivity|]. destruct A as [[oa a]|]; reflexivity. }
  destruct HB as [Lb Bb]. pose proof (sc_nonneg b) as Pb.
  destruct A as [[oa a]|]; cbn [scopy dat option_map sb_dat andb] in *.
  2:{ rewrite sinplace_local, ec_negate_32 by assumption. cbn [fst snd negb].
      rewrite (redn_small (sc b)) by lia. split; reflexivity. }
  destruct HA as [La Ba]. pose proof (sc_nonneg a) as Pa.
  unfold sbuf_eqb. cbn [sdat sb_dat].
  destruct (bytes_eqb a b) eqn:E.
  - apply bytes_eqb_eq in E. subst b. split; [reflexivity|].
    cbn [sout_of fst option_map sb_dat]. rewrite Z.sub_diag, redn_0, zero32_enc. reflexivity.
  - rewrite sinplace_local, ec_negate_32 by assumption. cbn [fst snd negb].
    rewrite (redn_small (sc b)) by lia.
    rewrite sinplace_local. cbv beta. cbn [sdat sb_dat].
    rewrite ec_tweak_add_32; try assumption; try apply enc32_length.
    2:{ rewrite sc_enc32 by apply redn_range. apply redn_lt. }
    rewrite sc_enc32 by apply redn_range. rewrite redn_add_r, (redn_small (sc a)) by lia.
    rewrite Z.add_opp_r.
    destruct (Z.eqb_spec (redn (sc a - sc b)) 0) as [Z0|NZ]; [|split; reflexivity].
    exfalso. assert (EQ : sc a = sc b) by (unfold redn, secp_n in *; lia).
    rewrite <- (enc32_sc a La), <- (enc32_sc b Lb), EQ, bytes_eqb_refl in E. discriminate E.
Qed.

(* ---------- ComputeAndAddToScalarOffset in closed form ---------- *)
Definition add_closed (s : option bytes) (v : N) (a b : option bytes) : soutcome :=
  match a, b with
  | None, None => SOOk s
  | _, _ =>
      match calc_closed v a b with
      | SOErr => SOErr
      | SOOk off =>
          match off with
          | None => SOOk s
          | Some o =>
              match s with
              | None => SOOk off
              | Some x => SOOk (Some (enc32 (redn (sc x + sc o))))
              end
          end
      end
  end.

Lemma dat_scopy o : dat (scopy o) = dat o.
Proof. destruct o as [[? ?]|]; reflexivity. Qed.

Lemma add_tail S off w : okscalar (dat S) -> okscalar (dat off) ->
  let nv := scopy off in
  let s := scopy S in
  let r :=
    match off with
    | None => (SOk s, w)
    | Some _ =>
      match s with
      | None => (SOk off, w)
      | Some _ =>
          let '(ok, nv, w) := sinplace ec_negate nv w in
          if negb ok then (SErr, w) else
          if sbuf_eqb s nv then (SOk (Some (mk_sbuf SLocal zero32)), w) else
          let '(ok, s, w) := sinplace (fun k => ec_tweak_add k (sdat off)) s w in
          if negb ok then (SErr, w) else (SOk s, w)
      end
    end in
  snd r = w /\
  sout_of (fst r) =
    match dat off with
    | None => SOOk (dat S)
    | Some o => match dat S with None => SOOk (dat off) | Some x => SOOk (Some (enc32 (redn (sc x + sc o)))) end
    end.
Proof.
  intros HS Ho. cbv zeta.
  destruct off as [[oo o]|]; cbn [scopy dat option_map sb_dat] in *.
  2:{ split; [reflexivity|]. cbn [fst sout_of]. fold (dat (scopy S)). rewrite dat_scopy. reflexivity. }
  destruct S as [[os x]|]; cbn [scopy dat option_map sb_dat] in *.
  2:{ split; reflexivity. }
  destruct HS as [Lx Bx]. pose proof (sc_nonneg x) as Px.
  destruct Ho as [Lo Bo]. pose proof (sc_nonneg o) as Po.
  rewrite sinplace_local, ec_negate_32 by assumption. cbn [fst snd negb].
  unfold sbuf_eqb. cbn [sdat sb_dat].
  destruct (bytes_eqb _ _) eqn:E.
  - split; [reflexivity|]. cbn [sout_of option_map szero_buf sb_dat fst].
    apply bytes_eqb_eq in E. apply (f_equal sc) in E. rewrite sc_enc32 in E by apply redn_range.
    assert (Z0 : redn (sc x + sc o) = 0).
    { apply redn_neg_eq. rewrite <- E. symmetry. apply redn_small. lia. }
    rewrite Z0, zero32_enc. reflexivity.
  - rewrite sinplace_local. cbv beta.
    rewrite ec_tweak_add_32 by assumption. rewrite redn_add_l.
    destruct (Z.eqb_spec (redn (sc x + sc o)) 0) as [Z0|NZ].
    + exfalso. apply redn_sum_zero in Z0. rewrite Z0, (redn_small (sc x)), enc32_sc, bytes_eqb_refl in E by (assumption || lia).
      discriminate E.
    + cbn [fst snd negb sout_of option_map sb_dat]. split; reflexivity.
Qed.

Lemma add_w_closed S v A B w : (v < 2 ^ 64)%N -> okscalar (dat S) -> okscalar (dat A) -> okscalar (dat B) ->
  snd (add_offset_w S v A B w) = w /\
  sout_of (fst (add_offset_w S v A B w)) = add_closed (dat S) v (dat A) (dat B).
Proof.
  intros Hv HS HA HB.
  assert (G : forall A' B', dat A' = dat A -> dat B' = dat B ->
    let r := let '(r, w) := calc_offset_w v A' B' w in
      match r with
      | SErr => (SErr, w)
      | SOk scalarOffset =>
        match scalarOffset with
        | None => (SOk (scopy S), w)
        | Some _ =>
          match scopy S with
          | None => (SOk scalarOffset, w)
          | Some _ =>
              let nv := scopy scalarOffset in
              let '(ok, nv, w) := sinplace ec_negate nv w in
              if negb ok then (SErr, w) else
              if sbuf_eqb (scopy S) nv then (SOk (Some (mk_sbuf SLocal zero32)), w) else
              let '(ok, s, w) := sinplace (fun k => ec_tweak_add k (sdat scalarOffset)) (scopy S) w in
              if negb ok then (SErr, w) else (SOk s, w)
          end
        end
      end in
    snd r = w /\
    sout_of (fst r) =
      match calc_closed v (dat A) (dat B) with
      | SOErr => SOErr
      | SOOk off =>
          match off with
          | None => SOOk (dat S)
          | Some o => match dat S with None => SOOk off | Some x => SOOk (Some (enc32 (redn (sc x + sc o)))) end
          end
      end).
  { intros A' B' EA EB. cbv zeta.
    destruct (calc_w_closed v A' B' w Hv) as [W C]; [rewrite EA; exact HA | rewrite EB; exact HB |].
    rewrite EA, EB in C.
    destruct (calc_offset_w v A' B' w) as [r w']. cbn [fst snd] in W, C. subst w'.
    destruct r as [off|]; cbn [sout_of] in C; rewrite <- C; [|split; reflexivity].
    fold (dat off).
    assert (Ho : okscalar (dat off)) by (apply (calc_closed_ok v (dat A) (dat B)); [exact HA | exact HB | symmetry; exact C]).
    exact (add_tail S off w HS Ho). }
  unfold add_offset_w, add_closed.
  destruct A as [[oa a]|], B as [[ob b]|]; cbn [scopy dat option_map sb_dat] in *.
  - apply (G (Some (mk_sbuf SLocal a)) (Some (mk_sbuf SLocal b))); reflexivity.
  - apply (G (Some (mk_sbuf SLocal a)) None); reflexivity.
  - apply (G None (Some (mk_sbuf SLocal b))); reflexivity.
  - split; [reflexivity|]. cbn [fst sout_of]. fold (dat (scopy S)). rewrite dat_scopy. reflexivity.
Qed.

(* ---------- no helper writes to memory it did not allocate: all inputs, no hypothesis ---------- *)
Lemma sinplace_none f w : sinplace f None w = (fst (f []), None, w).
Proof. reflexivity. Qed.

Ltac local_call :=
  rewrite ?sinplace_local, ?sinplace_none; cbv beta; cbn [sb_dat sb_own fst snd];
  match goal with
  | |- context [if negb (fst ?t) then _ else _] => let ok := fresh "ok" in let d := fresh "d" in
      destruct t as [ok d]; cbn [fst snd]; destruct ok; cbn [negb]; try reflexivity
  end.

Lemma calc_w_log v A B w : snd (calc_offset_w v A B w) = w.
Proof.
  unfold calc_offset_w.
  destruct A as [[oa a]|], B as [[ob b]|]; cbn [scopy]; try reflexivity;
    destruct (0 <? v)%N; try reflexivity; local_call.
  local_call. destruct (sbuf_eqb _ _); [reflexivity|]. local_call.
Qed.

Lemma sub_w_log A B w : snd (sub_scalars_w A B w) = w.
Proof.
  unfold sub_scalars_w.
  destruct A as [[oa a]|], B as [[ob b]|]; cbn [scopy andb]; try reflexivity.
  - destruct (sbuf_eqb _ _); [reflexivity|]. local_call. local_call.
  - local_call.
Qed.

Lemma add_w_log S v A B w : snd (add_offset_w S v A B w) = w.
Proof.
  assert (G : forall A' B',
    snd (let '(r, w) := calc_offset_w v A' B' w in
      match r with
      | SErr => (SErr, w)
      | SOk scalarOffset =>
        match scalarOffset with
        | None => (SOk (scopy S), w)
        | Some _ =>
          match scopy S with
          | None => (SOk scalarOffset, w)
          | Some _ =>
              let nv := scopy scalarOffset in
              let '(ok, nv, w) := sinplace ec_negate nv w in
              if negb ok then (SErr, w) else
              if sbuf_eqb (scopy S) nv then (SOk (Some (mk_sbuf SLocal zero32)), w) else
              let '(ok, s, w) := sinplace (fun k => ec_tweak_add k (sdat scalarOffset)) (scopy S) w in
              if negb ok then (SErr, w) else (SOk s, w)
          end
        end
      end) = w).
  { intros A' B'. pose proof (calc_w_log v A' B' w) as W.
    destruct (calc_offset_w v A' B' w) as [r w']. cbn [snd] in W. subst w'.
    destruct r as [off|]; [|reflexivity].
    destruct off as [[oo o]|]; [|reflexivity].
    destruct S as [[os x]|]; cbn [scopy]; [|reflexivity]. cbv zeta.
    local_call; (destruct (sbuf_eqb _ _); [reflexivity|]; local_call). }
  unfold add_offset_w.
  destruct A as [[oa a]|], B as [[ob b]|]; cbn [scopy]; try apply G. reflexivity.
Qed.

(* ---------- the exported functions ---------- *)
Lemma dat_sarg i o : dat (sarg i o) = o.
Proof. destruct o; reflexivity. Qed.

Theorem calc_offset_closed v ab vb : (v < 2 ^ 64)%N -> okscalar ab -> okscalar vb ->
  calc_offset v ab vb = calc_closed v ab vb.
Proof.
  intros Hv Ha Hb. unfold calc_offset, go_calc_offset.
  destruct (calc_w_closed v (sarg 0 ab) (sarg 1 vb) [] Hv) as [_ C]; rewrite ?dat_sarg; try assumption.
  rewrite !dat_sarg in C. exact C.
Qed.

Theorem sub_scalars_closed a b : okscalar a -> okscalar b -> sub_scalars a b = sub_closed a b.
Proof.
  intros Ha Hb. unfold sub_scalars, go_sub_scalars.
  destruct (sub_w_closed (sarg 0 a) (sarg 1 b) []) as [_ C]; rewrite ?dat_sarg; try assumption.
  rewrite !dat_sarg in C. exact C.
Qed.

Theorem add_offset_closed s v ab vb : (v < 2 ^ 64)%N -> okscalar s -> okscalar ab -> okscalar vb ->
  add_offset s v ab vb = add_closed s v ab vb.
Proof.
  intros Hv Hs Ha Hb. unfold add_offset, go_add_offset.
  destruct (add_w_closed (sarg 0 s) v (sarg 1 ab) (sarg 2 vb) [] Hv) as [_ C]; rewrite ?dat_sarg; try assumption.
  rewrite !dat_sarg in C. exact C.
Qed.

(* the property's arithmetic *)
Definition modn (z : Z) : Z := z mod secp_n.

Lemma sval_small o : okscalar o -> 0 <= sval o < secp_n.
Proof. destruct o as [b|]; cbn [okscalar sval]; [intros [_ B]; pose proof (sc_nonneg b); lia | pose proof secp_n_pos; lia]. Qed.

Lemma sval_enc z : sval (Some (enc32 (redn z))) = modn z.
Proof. cbn [sval]. rewrite sc_enc32 by apply redn_range. reflexivity. Qed.

Lemma modn_small z : 0 <= z < secp_n -> modn z = z.
Proof. intro H. unfold modn. apply Z.mod_small. exact H. Qed.

(* FULL STATEMENT: for every 64-bit value and all scalars that are absent or 32 bytes below n,
   CalculateScalarOffset answers, and the answer is value * ab + vb (mod n), nil counting as 0 *)
Theorem calc_offset_total v ab vb : (v < 2 ^ 64)%N -> okscalar ab -> okscalar vb ->
  exists r, calc_offset v ab vb = SOOk r /\ okscalar r /\ sval r = modn (Z.of_N v * sval ab + sval vb).
Proof.
  intros Hv Ha Hb. rewrite calc_offset_closed by assumption.
  pose proof (sval_small vb Hb) as Sb. unfold calc_closed.
  destruct ab as [x|]; cbn [sval].
  - destruct (N.ltb_spec 0 v) as [P|Z0].
    + eexists. split; [reflexivity|]. split; [apply okscalar_enc | apply sval_enc].
    + exists vb. split; [reflexivity|]. split; [exact Hb|]. assert (v = 0%N) by lia. subst v.
      rewrite Z.mul_0_l, Z.add_0_l, modn_small by lia. reflexivity.
  - exists vb. split; [reflexivity|]. split; [exact Hb|].
    rewrite Z.mul_0_r, Z.add_0_l, modn_small by lia. reflexivity.
Qed.

Theorem sub_scalars_total a b : okscalar a -> okscalar b ->
  exists r, sub_scalars a b = SOOk r /\ okscalar r /\ sval r = modn (sval a - sval b).
Proof.
  intros Ha Hb. rewrite sub_scalars_closed by assumption. unfold sub_closed.
  pose proof (sval_small a Ha) as Sa.
  destruct b as [y|].
  - destruct a as [x|]; (eexists; split; [reflexivity|]; split; [apply okscalar_enc|]); rewrite sval_enc; reflexivity.
  - exists a. split; [reflexivity|]. split; [exact Ha|].
    cbn [sval]. rewrite Z.sub_0_r, modn_small by lia. reflexivity.
Qed.

Theorem add_offset_total s v ab vb : (v < 2 ^ 64)%N -> okscalar s -> okscalar ab -> okscalar vb ->
  exists r, add_offset s v ab vb = SOOk r /\ okscalar r /\
            sval r = modn (sval s + Z.of_N v * sval ab + sval vb).
Proof.
  intros Hv Hs Ha Hb. rewrite add_offset_closed by assumption. unfold add_closed.
  pose proof (sval_small s Hs) as Ss.
  assert (G : exists r,
      match calc_closed v ab vb with
      | SOErr => SOErr
      | SOOk off => match off with
                    | None => SOOk s
                    | Some o => match s with None => SOOk off | Some x => SOOk (Some (enc32 (redn (sc x + sc o)))) end
                    end
      end = SOOk r /\ okscalar r /\ sval r = modn (sval s + Z.of_N v * sval ab + sval vb)).
  { rewrite <- calc_offset_closed by assumption.
    destruct (calc_offset_total v ab vb Hv Ha Hb) as (off & E & Oo & Vo). rewrite E.
    destruct off as [o|].
    - destruct s as [x|]; cbn [sval] in *.
      + eexists. split; [reflexivity|]. split; [apply okscalar_enc|]. rewrite sval_enc, Vo.
        unfold modn. rewrite Z.add_mod_idemp_r by (pose proof secp_n_pos; lia). f_equal. lia.
      + exists (Some o). split; [reflexivity|]. split; [exact Oo|]. cbn [sval]. rewrite Vo. f_equal.
    - exists s. split; [reflexivity|]. split; [exact Hs|]. cbn [sval] in Vo.
      rewrite <- Z.add_assoc. unfold modn in *. rewrite <- Z.add_mod_idemp_r, <- Vo by (pose proof secp_n_pos; lia).
      rewrite Z.add_0_r, Z.mod_small by lia. reflexivity. }
  destruct ab as [a|], vb as [b|]; exact G.
Qed.

(* corollaries in the shape used before the repair: a returned value is the arithmetic result,
   and no input of the property's domain is refused *)
Corollary calc_offset_spec v ab vb r : (v < 2 ^ 64)%N -> okscalar ab -> okscalar vb ->
  calc_offset v ab vb = SOOk r -> okscalar r /\ sval r = modn (Z.of_N v * sval ab + sval vb).
Proof.
  intros Hv Ha Hb E. destruct (calc_offset_total v ab vb Hv Ha Hb) as (r' & E' & H). congruence.
Qed.
Corollary scalar_helpers_never_refuse_in_domain s v ab vb : (v < 2 ^ 64)%N -> okscalar s -> okscalar ab -> okscalar vb ->
  calc_offset v ab vb <> SOErr /\ sub_scalars ab vb <> SOErr /\ add_offset s v ab vb <> SOErr.
Proof.
  intros Hv Hs Ha Hb.
  destruct (calc_offset_total v ab vb Hv Ha Hb) as (r1 & E1 & _).
  destruct (sub_scalars_total ab vb Ha Hb) as (r2 & E2 & _).
  destruct (add_offset_total s v ab vb Hv Hs Ha Hb) as (r3 & E3 & _).
  rewrite E1, E2, E3. repeat split; discriminate.
Qed.

(* ---------- what is still refused: operands outside the property's domain ---------- *)
Lemma redn_sub_r a b : redn (a - redn b) = redn (a - b).
Proof. unfold redn. apply Zminus_mod_idemp_r. Qed.

Lemma len32_enc32 z : len32 (enc32 z) = true.
Proof. apply len32_true, enc32_length. Qed.

Lemma bytes_eqb_enc32 x y : 0 <= x < two256 -> 0 <= y < two256 -> bytes_eqb (enc32 x) (enc32 y) = (x =? y).
Proof.
  intros Hx Hy. destruct (Z.eqb_spec x y) as [E|NE].
  - subst. apply bytes_eqb_refl.
  - destruct (bytes_eqb (enc32 x) (enc32 y)) eqn:B; [|reflexivity].
    apply bytes_eqb_eq, enc32_inj in B; try assumption. contradiction.
Qed.

(* SubtractScalars on arbitrary byte strings *)
Definition sub_general (a b : option bytes) : soutcome :=
  match b with
  | None => SOOk a
  | Some y =>
      match a with
      | Some x =>
          if bytes_eqb x y then SOOk (Some zero32)
          else if len32 y then
            if len32 x then
              if redn (sc x - sc y) =? 0 then SOErr else SOOk (Some (enc32 (redn (sc x - sc y))))
            else SOErr
          else SOErr
      | None => if len32 y then SOOk (Some (enc32 (redn (- redn (sc y))))) else SOErr
      end
  end.

Lemma sub_w_general A B w : sout_of (fst (sub_scalars_w A B w)) = sub_general (dat A) (dat B).
Proof.
  unfold sub_scalars_w, sub_general.
  destruct B as [[ob y]|]; cbn [scopy dat option_map sb_dat].
  2:{ destruct A as [[oa x]|]; reflexivity. }
  destruct A as [[oa x]|]; cbn [scopy dat option_map sb_dat andb].
  - unfold sbuf_eqb. cbn [sdat sb_dat]. destruct (bytes_eqb x y); [reflexivity|].
    rewrite sinplace_local. destruct (len32 y) eqn:Ly.
    2:{ unfold ec_negate. rewrite Ly. reflexivity. }
    rewrite ec_negate_32 by (apply len32_true; exact Ly). cbn [fst snd negb].
    rewrite sinplace_local. cbv beta. cbn [sdat sb_dat]. unfold ec_tweak_add.
    rewrite len32_enc32. cbn [negb]. destruct (len32 x) eqn:Lx; cbn [negb fst snd]; [|reflexivity].
    rewrite sc_enc32 by apply redn_range.
    destruct (Z.leb_spec secp_n (redn (- redn (sc y)))) as [C|_]; [pose proof (redn_lt (- redn (sc y))); lia|].
    unfold redn. pose proof secp_n_pos as P.
    rewrite Z.add_mod_idemp_l, Z.add_mod_idemp_r by lia. rewrite Z.add_opp_r, Zminus_mod_idemp_r.
    destruct ((sc x - sc y) mod secp_n =? 0); reflexivity.
  - rewrite sinplace_local. destruct (len32 y) eqn:Ly.
    + rewrite ec_negate_32 by (apply len32_true; exact Ly). reflexivity.
    + unfold ec_negate. rewrite Ly. reflexivity.
Qed.

Lemma len32_false b : len32 b = false <-> length b <> 32%nat.
Proof. unfold len32. apply Nat.eqb_neq. Qed.

(* exactly the inputs SubtractScalars refuses, over all byte strings: a wrong length that the
   equal-operands branch does not catch, or different byte strings that are congruent modulo n
   (which requires an operand >= n) *)
Theorem sub_scalars_error_iff_general a b :
  sub_scalars a b = SOErr <->
  exists y, b = Some y /\
    match a with
    | None => length y <> 32%nat
    | Some x => x <> y /\ (length y <> 32%nat \/ length x <> 32%nat \/ modn (sc x - sc y) = 0)
    end.
Proof.
  unfold sub_scalars, go_sub_scalars. rewrite sub_w_general, !dat_sarg. unfold sub_general.
  destruct b as [y|].
  2:{ split; [discriminate | intros (y & E & _); discriminate E]. }
  destruct a as [x|].
  - destruct (bytes_eqb x y) eqn:E.
    + apply bytes_eqb_eq in E. split; [discriminate|]. intros (y' & Ey & NE & _). inversion Ey; subst. contradiction.
    + assert (NE : x <> y) by (intro X; subst; rewrite bytes_eqb_refl in E; discriminate E).
      destruct (len32 y) eqn:Ly.
      * destruct (len32 x) eqn:Lx.
        -- apply len32_true in Ly, Lx.
           destruct (Z.eqb_spec (redn (sc x - sc y)) 0) as [Z0|NZ].
           ++ split; [|reflexivity]. intros _. exists y. split; [reflexivity|]. split; [exact NE|]. right; right. exact Z0.
           ++ split; [discriminate|]. intros (y' & Ey & _ & [L|[L|M]]); inversion Ey; subst; contradiction.
        -- apply len32_false in Lx. split; [|reflexivity]. intros _. exists y. split; [reflexivity|]. split; [exact NE|]. right; left; exact Lx.
      * apply len32_false in Ly. split; [|reflexivity]. intros _. exists y. split; [reflexivity|]. split; [exact NE|]. left; exact Ly.
  - destruct (len32 y) eqn:Ly.
    + apply len32_true in Ly. split; [discriminate|]. intros (y' & Ey & L). inversion Ey; subst. contradiction.
    + apply len32_false in Ly. split; [|reflexivity]. intros _. exists y. split; [reflexivity | exact Ly].
Qed.

(* CalculateScalarOffset on arbitrary byte strings (64-bit amount) *)
Definition calc_general (v : N) (a b : option bytes) : soutcome :=
  match a with
  | None => SOOk b
  | Some x =>
      if (0 <? v)%N then
        if len32 x then
          let r := redn (redn (sc x) * Z.of_N v) in
          match b with
          | None => SOOk (Some (enc32 r))
          | Some y =>
              if len32 y then
                if redn (r + sc y) =? 0 then SOOk (Some zero32)
                else if secp_n <=? sc y then SOErr else SOOk (Some (enc32 (redn (r + sc y))))
              else SOErr
          end
        else SOErr
      else SOOk b
  end.

Lemma ec_tweak_mul_not32 k t : len32 k = false -> fst (ec_tweak_mul k t) = false.
Proof. intro H. unfold ec_tweak_mul. destruct (len32 t); cbn [negb]; [rewrite H|]; reflexivity. Qed.

Lemma calc_w_general v A B w : (v < 2 ^ 64)%N ->
  sout_of (fst (calc_offset_w v A B w)) = calc_general v (dat A) (dat B).
Proof.
  intro Hv. unfold calc_offset_w, calc_general.
  destruct A as [[oa x]|]; cbn [scopy dat option_map sb_dat].
  2:{ destruct B as [[ob y]|]; reflexivity. }
  destruct (N.ltb_spec 0 v) as [Hpos|Hz].
  2:{ destruct B as [[ob y]|]; reflexivity. }
  rewrite sinplace_local. cbv beta.
  destruct (len32 x) eqn:Lx.
  2:{ rewrite (ec_tweak_mul_not32 x _ Lx). reflexivity. }
  apply len32_true in Lx. rewrite ec_tweak_mul_amount by (try assumption; lia). cbn [fst snd negb].
  destruct B as [[ob y]|]; cbn [scopy dat option_map sb_dat]; [|reflexivity].
  rewrite sinplace_local. destruct (len32 y) eqn:Ly.
  2:{ unfold ec_negate. rewrite Ly. reflexivity. }
  rewrite ec_negate_32 by (apply len32_true; exact Ly). cbn [fst snd negb].
  unfold sbuf_eqb. cbn [sdat sb_dat]. rewrite bytes_eqb_enc32 by apply redn_range.
  set (r := redn (redn (sc x) * Z.of_N v)).
  assert (Rr : redn r = r) by (unfold r; apply redn_idem).
  destruct (Z.eqb_spec (redn (- redn (sc y))) r) as [E|NE].
  - rewrite <- Rr in E. apply redn_neg_eq in E. rewrite E. reflexivity.
  - destruct (Z.eqb_spec (redn (r + sc y)) 0) as [Z0|NZ].
    + exfalso. apply NE. rewrite <- Rr. apply redn_sum_zero. exact Z0.
    + rewrite sinplace_local. cbv beta. cbn [sdat sb_dat]. unfold ec_tweak_add.
      rewrite Ly, len32_enc32. cbn [negb].
      destruct (secp_n <=? sc y); cbn [fst snd negb]; [reflexivity|].
      rewrite sc_enc32 by (unfold r; apply redn_range).
      change (r mod secp_n) with (redn r). rewrite Rr.
      change ((r + sc y) mod secp_n) with (redn (r + sc y)).
      destruct (Z.eqb_spec (redn (r + sc y)) 0) as [Z0|_]; [contradiction|]. reflexivity.
Qed.

(* exactly the inputs CalculateScalarOffset refuses, over all byte strings: a non-zero amount with
   an asset blinder of the wrong length, a value blinder of the wrong length, or a value blinder
   >= n (libsecp refuses the tweak) unless the sum is zero *)
Theorem calc_offset_error_iff_general v ab vb : (v < 2 ^ 64)%N ->
  (calc_offset v ab vb = SOErr <->
   exists x, ab = Some x /\ (0 < v)%N /\
     (length x <> 32%nat \/
      exists y, vb = Some y /\
        (length y <> 32%nat \/ (secp_n <= sc y /\ modn (sc x * Z.of_N v + sc y) <> 0)))).
Proof.
  intro Hv. unfold calc_offset, go_calc_offset. rewrite calc_w_general, !dat_sarg by exact Hv. unfold calc_general.
  destruct ab as [x|].
  2:{ split; [discriminate | intros (x & E & _); discriminate E]. }
  destruct (N.ltb_spec 0 v) as [Hpos|Hz].
  2:{ split; [discriminate | intros (x' & _ & P & _); lia]. }
  destruct (len32 x) eqn:Lx.
  2:{ apply len32_false in Lx. split; [|reflexivity]. intros _. exists x. repeat split; [exact Hpos | left; exact Lx]. }
  apply len32_true in Lx.
  assert (M : forall y, redn (redn (redn (sc x) * Z.of_N v) + sc y) = modn (sc x * Z.of_N v + sc y)).
  { intro y. unfold redn, modn. pose proof secp_n_pos as P. rewrite Z.add_mod_idemp_l by lia.
    rewrite <- (Z.add_mod_idemp_l (sc x mod secp_n * Z.of_N v)) by lia.
    rewrite Z.mul_mod_idemp_l by lia. rewrite Z.add_mod_idemp_l by lia. reflexivity. }
  destruct vb as [y|].
  2:{ split; [discriminate|]. intros (x' & Ex & _ & [L|(y & Ey & _)]); inversion Ex; subst; [contradiction | discriminate Ey]. }
  destruct (len32 y) eqn:Ly.
  2:{ apply len32_false in Ly. split; [|reflexivity]. intros _. exists x. repeat split; [exact Hpos|]. right. exists y. split; [reflexivity | left; exact Ly]. }
  apply len32_true in Ly. cbv zeta. rewrite M.
  destruct (Z.eqb_spec (modn (sc x * Z.of_N v + sc y)) 0) as [Z0|NZ].
  - split; [discriminate|]. intros (x' & Ex & _ & [L|(y' & Ey & [L|[_ N0]])]); inversion Ex; subst; try contradiction;
      inversion Ey; subst; contradiction.
  - destruct (Z.leb_spec secp_n (sc y)) as [G|L].
    + split; [|reflexivity]. intros _. exists x. repeat split; [exact Hpos|]. right. exists y. split; [reflexivity|]. right. split; assumption.
    + split; [discriminate|]. intros (x' & Ex & _ & [L'|(y' & Ey & [L'|[G _]])]); inversion Ex; subst; try contradiction;
        inversion Ey; subst; [contradiction | lia].
Qed.

Definition one32 : bytes := enc32 1.

(* the arguments are never written: every input, every length, no hypothesis *)
Lemma sarg_after_nil i before : sarg_after i before [] = before.
Proof. reflexivity. Qed.

Theorem scalar_helpers_leave_arguments_alone :
  (forall v ab vb, snd (go_calc_offset v ab vb) = []) /\
  (forall a b, snd (go_sub_scalars a b) = []) /\
  (forall s v ab vb, snd (go_add_offset s v ab vb) = []).
Proof.
  repeat split; intros; [apply calc_w_log | apply sub_w_log | apply add_w_log].
Qed.

Corollary scalar_args_after s v ab vb i before :
  sarg_after i before (snd (go_calc_offset v ab vb)) = before /\
  sarg_after i before (snd (go_sub_scalars ab vb)) = before /\
  sarg_after i before (snd (go_add_offset s v ab vb)) = before.
Proof.
  destruct scalar_helpers_leave_arguments_alone as (A & B & C). rewrite A, B, C. repeat split.
Qed.

(* the cases the repair added, and results that wrap to zero, evaluated inside the kernel *)
Definition nm1 : bytes := enc32 (secp_n - 1).
Example calc_wraps_to_zero : calc_offset 1 (Some one32) (Some nm1) = SOOk (Some zero32).
Proof. vm_compute. reflexivity. Qed.
Example add_wraps_to_zero : add_offset (Some nm1) 0 None (Some one32) = SOOk (Some zero32).
Proof. vm_compute. reflexivity. Qed.
Example sub_wraps_around : sub_scalars (Some zero32) (Some one32) = SOOk (Some nm1).
Proof. vm_compute. reflexivity. Qed.
Example sub_equal_operands : sub_scalars (Some nm1) (Some nm1) = SOOk (Some zero32).
Proof. vm_compute. reflexivity. Qed.
Example calc_absent_value_blinder : calc_offset 2 (Some one32) None = SOOk (Some (enc32 2)).
Proof. vm_compute. reflexivity. Qed.
Example add_absent_value_blinder_zero_amount : add_offset (Some one32) 0 (Some one32) None = SOOk (Some one32).
Proof. vm_compute. reflexivity. Qed.
(* still refused, outside the domain: n and 0 are different byte strings congruent modulo n *)
Example sub_refuses_unreduced_equal : sub_scalars (Some (enc32 secp_n)) (Some zero32) = SOErr.
Proof. vm_compute. reflexivity. Qed.
Example hyps_satisfiable : okscalar (Some nm1) /\ okscalar None /\ okscalar (Some zero32).
Proof. repeat split; vm_compute; reflexivity. Qed.
