(* Proofs/Alias.v — frame theorems for the heap-level site models of Model/Alias.v.

   Main statement per site (`*_frame`): for EVERY heap, growth policy and argument slices
   (any array, offset, length, capacity — no well-formedness needed) the call leaves
   every array that existed before the call unchanged: `ext (length h) h h'`, hence
   `firstn (length h) h' = h` and `caller_view h' args = caller_view h args`, where the
   caller's view of an argument is its WHOLE array (bytes in front of the slice, the
   slice, and the spare capacity behind it).  Package-level values are arrays of the
   initial heap, so the same theorems give `constants_never_written`.
   Functional refinements (`*_reads`) tie the heap-level result to the pure models. *)
From GE Require Import Lib.Heap Lib.Varint Lib.Sha256 Model.Blech32 Model.AddrCodecs Model.Address Model.Alias.
From Coq Require Import ZifyBool ZifyN ZifyNat.
Open Scope nat_scope.
Import Al.

(* ---------- step lemmas, accumulated from the initial heap h0 ---------- *)
Lemma ext_len n h h' : ext n h h' -> n <= length h'.
Proof. intros (A & B & _). lia. Qed.

Lemma lit_step n h0 h bs : ext n h0 h ->
  ext n h0 (fst (go_lit h bs)) /\ fresh n (snd (go_lit h bs)).
Proof.
  intros X. destruct (go_lit_fresh n h bs (ext_len _ _ _ X)) as [A B].
  split; [eapply ext_trans; eauto | exact B].
Qed.

Lemma make_step n h0 h l c : ext n h0 h ->
  ext n h0 (fst (go_make h l c)) /\ fresh n (snd (go_make h l c)).
Proof.
  intros X. destruct (go_make_fresh n h l c (ext_len _ _ _ X)) as [A B].
  split; [eapply ext_trans; eauto | exact B].
Qed.

Lemma append_step g n h0 h s d : ext n h0 h -> fresh n s ->
  ext n h0 (fst (go_append g h s d)) /\ fresh n (snd (go_append g h s d)).
Proof.
  intros X F. destruct (go_append_fresh g n h s d (ext_len _ _ _ X) F) as [A B].
  split; [eapply ext_trans; eauto | exact B].
Qed.

Lemma copy_step n h0 h dst src : ext n h0 h -> fresh n dst ->
  ext n h0 (fst (go_copy h dst src)).
Proof. intros X F. eapply ext_trans; eauto. apply go_copy_fresh; auto. eapply ext_len; eauto. Qed.

Lemma set_step n h0 h s i b h' : ext n h0 h -> fresh n s -> go_set h s i b = Some h' -> ext n h0 h'.
Proof. intros X F E. eapply ext_trans; eauto. eapply go_set_fresh; eauto. eapply ext_len; eauto. Qed.

Ltac fstep :=
  match goal with
  | X : ext ?n ?h0 ?h |- context [go_lit ?h ?bs] =>
      let P := fresh "P" in pose proof (lit_step n h0 h bs X) as P;
      destruct (go_lit h bs) as [? ?]; cbn [fst snd] in P; destruct P as [? ?]; clear X
  | X : ext ?n ?h0 ?h |- context [go_make ?h ?l ?c] =>
      let P := fresh "P" in pose proof (make_step n h0 h l c X) as P;
      destruct (go_make h l c) as [? ?]; cbn [fst snd] in P; destruct P as [? ?]; clear X
  | X : ext ?n ?h0 ?h, F : fresh ?n ?s |- context [go_append ?g ?h ?s ?d] =>
      let P := fresh "P" in pose proof (append_step g n h0 h s d X F) as P;
      destruct (go_append g h s d) as [? ?]; cbn [fst snd] in P; destruct P as [? ?]; clear X
  | X : ext ?n ?h0 ?h, F : fresh ?n ?dst |- context [go_copy ?h ?dst ?src] =>
      let P := fresh "P" in pose proof (copy_step n h0 h dst src X F) as P;
      destruct (go_copy h dst src) as [? ?]; cbn [fst snd] in P; clear X
  end.

Ltac fstart h := assert (X0 : ext (length h) h h) by (apply ext_refl; auto).

(* ---------- the generic idioms ---------- *)
Lemma concat2_step g n h0 h a b : ext n h0 h ->
  ext n h0 (fst (concat2 g h a b)) /\ fresh n (snd (concat2 g h a b)).
Proof.
  intros X. unfold concat2. repeat fstep. cbn [fst snd]. auto.
Qed.

Lemma append_byte_step g n h0 h s b : ext n h0 h ->
  ext n h0 (fst (append_byte g h s b)) /\ fresh n (snd (append_byte g h s b)).
Proof.
  intros X. unfold append_byte. repeat fstep. cbn [fst snd]. auto.
Qed.

Ltac fstep2 :=
  first [ fstep
  | match goal with
    | X : ext ?n ?h0 ?h |- context [concat2 ?g ?h ?a ?b] =>
        let P := fresh "P" in pose proof (concat2_step g n h0 h a b X) as P;
        destruct (concat2 g h a b) as [? ?]; cbn [fst snd] in P; destruct P as [? ?]; clear X
    | X : ext ?n ?h0 ?h |- context [append_byte ?g ?h ?s ?b] =>
        let P := fresh "P" in pose proof (append_byte_step g n h0 h s b X) as P;
        destruct (append_byte g h s b) as [? ?]; cbn [fst snd] in P; destruct P as [? ?]; clear X
    end ].

(* ---------- per-site frame theorems ---------- *)
Theorem compute_asset_frame h e : ext (length h) h (fst (compute_asset h e)).
Proof.
  fstart h. unfold compute_asset. destruct (negb (s_len e =? 32)); [exact X0|].
  repeat fstep2. cbn [fst]. assumption.
Qed.

Theorem compute_token_frame g h e flag : ext (length h) h (fst (compute_token g h e flag)).
Proof.
  fstart h. unfold compute_token. destruct (negb (s_len e =? 32)); [exact X0|].
  destruct (negb _); [exact X0|].
  repeat fstep2.
  match goal with |- context [go_set ?h1 ?s ?i ?b] => destruct (go_set h1 s i b) as [h2|] eqn:ES end.
  - match goal with X : ext _ _ _, F : fresh _ _ |- _ => pose proof (set_step _ _ _ _ _ _ _ X F ES) as X2; clear X end.
    repeat fstep2. cbn [fst]. assumption.
  - cbn [fst]. assumption.
Qed.

Theorem final_vbf_values_frame g h inv outv : ext (length h) h (fst (final_vbf_values g h inv outv)).
Proof. fstart h. apply (concat2_step g _ _ _ inv outv X0). Qed.

Theorem range_proof_message_frame g h asset abf : ext (length h) h (fst (range_proof_message g h asset abf)).
Proof. fstart h. apply (concat2_step g _ _ _ asset abf X0). Qed.

Lemma b32_encode_step g n h0 h hrp data enc : ext n h0 h -> ext n h0 (fst (b32_encode g h hrp data enc)).
Proof.
  intros X. unfold b32_encode. repeat fstep2.
  match goal with |- context [B32.to_chars ?x] => destruct (B32.to_chars x) end.
  - repeat fstep2. cbn [fst]. assumption.
  - cbn [fst]. assumption.
Qed.

Theorem b32_encode_frame g h hrp data enc : ext (length h) h (fst (b32_encode g h hrp data enc)).
Proof. fstart h. apply b32_encode_step. exact X0. Qed.

Theorem b32_decode_frame g h s : ext (length h) h (fst (b32_decode g h s)).
Proof.
  fstart h. unfold b32_decode. destruct (B32.decode_generic s) as [hrp data ck| |]; try exact X0.
  repeat fstep2.
  match goal with |- context [go_sub ?d 0 ?k] => destruct (go_sub d 0 k) as [sdata|] eqn:E1 end; [|cbn [fst]; assumption].
  match goal with |- context [go_sub ?d ?a ?k] => destruct (go_sub d a k) as [sck|] eqn:E2 end; [|cbn [fst]; assumption].
  match goal with F : fresh _ ?d, E : go_sub ?d 0 _ = Some _ |- _ => pose proof (go_sub_fresh _ _ _ _ _ F E) as F1 end.
  destruct (rd _ sdata) as [|v r]; [cbn [fst]; assumption|].
  destruct (B32.encoding_of_version v); [|cbn [fst]; assumption].
  repeat fstep2.
  match goal with |- context [if ?c then _ else _] => destruct c end; cbn [fst]; assumption.
Qed.

Theorem to_base58_conf_frame g h ver cver pk data : ext (length h) h (fst (to_base58_conf g h ver cver pk data)).
Proof. fstart h. unfold to_base58_conf. repeat fstep2. assumption. Qed.

Theorem to_blech32_frame g h prefix v pk prog : ext (length h) h (fst (to_blech32 g h prefix v pk prog)).
Proof.
  fstart h. unfold to_blech32, to_blech32_gen. repeat fstep2.
  match goal with |- context [B32.convert_bits ?x 8 5 true] => destruct (B32.convert_bits x 8 5 true) as [conv|] end;
    [|cbn [fst]; assumption].
  repeat fstep2.
  match goal with |- context [go_set ?h1 ?s ?i ?b] => destruct (go_set h1 s i b) as [h4|] eqn:ES end; [|cbn [fst]; assumption].
  match goal with X : ext _ _ _, F : fresh _ _ |- _ => pose proof (set_step _ _ _ _ _ _ _ X F ES) as X4 end.
  match goal with |- context [go_sub ?d 1 ?k] => destruct (go_sub d 1 k) as [tail|] eqn:E1 end; [|cbn [fst]; assumption].
  match goal with F : fresh _ ?d, E : go_sub ?d 1 _ = Some _ |- _ => pose proof (go_sub_fresh _ _ _ _ _ F E) as F1 end.
  repeat fstep2.
  destruct (B32.encoding_of_version v) as [enc|]; [|cbn [fst]; assumption].
  match goal with X : ext ?n ?h0 ?hh |- context [b32_encode ?g ?hh ?p ?c ?e] =>
    pose proof (b32_encode_step g n h0 hh p c e X) as X6; destruct (b32_encode g hh p c e) as [h6 [addr|]]; cbn [fst] in X6; clear X end;
    [|cbn [fst]; assumption].
  destruct (Addr.from_blech32 (rd h6 addr)) as [[[[pf v'] k'] p']| |]; try (cbn [fst]; assumption).
  repeat fstep2.
  match goal with |- context [go_sub ?d 0 33] => destruct (go_sub d 0 33) as [bk|] end; [|cbn [fst]; assumption].
  match goal with |- context [go_sub ?d 33 ?k] => destruct (go_sub d 33 k) as [bp|] end; [|cbn [fst]; assumption].
  repeat fstep2.
  match goal with |- context [if ?c then _ else _] => destruct c end; cbn [fst]; assumption.
Qed.

(* ---------- psetv2 tap emitters ---------- *)
Lemma tap_script_sigs_step g sigs : forall n h0 h, ext n h0 h -> ext n h0 (fst (tap_script_sigs g h sigs)).
Proof.
  unfold tap_script_sigs.
  induction sigs as [|[pk leaf] r IH]; intros n h0 h X; cbn [tap_script_sigs_gen fst]; [exact X|].
  fstep2. specialize (IH n h0 _ H).
  destruct (tap_script_sigs_gen concat2 g h1 r) as [h2 kds]. cbn [fst] in *. exact IH.
Qed.
Theorem tap_script_sigs_frame g h sigs : ext (length h) h (fst (tap_script_sigs g h sigs)).
Proof. fstart h. apply tap_script_sigs_step. exact X0. Qed.

Lemma tap_leaf_scripts_step g ls : forall n h0 h, ext n h0 h -> ext n h0 (fst (tap_leaf_scripts g h ls)).
Proof.
  unfold tap_leaf_scripts.
  induction ls as [|[scr ver] r IH]; intros n h0 h X; cbn [tap_leaf_scripts_gen fst]; [exact X|].
  fstep2. specialize (IH n h0 _ H).
  destruct (tap_leaf_scripts_gen append_byte g h1 r) as [h2 vs]. cbn [fst] in *. exact IH.
Qed.
Theorem tap_leaf_scripts_frame g h ls : ext (length h) h (fst (tap_leaf_scripts g h ls)).
Proof. fstart h. apply tap_leaf_scripts_step. exact X0. Qed.

(* ---------- Input.GetUtxo (object store) ---------- *)
Theorem get_utxo_frame os i : firstn (length os) (fst (get_utxo os i)) = os.
Proof.
  unfold get_utxo. destruct (pick_utxo i) as [|p|]; cbn [fst]; try apply firstn_all.
  destruct (nth_error os p); cbn [fst]; [|apply firstn_all].
  rewrite firstn_app, Nat.sub_diag, firstn_all. cbn. apply app_nil_r.
Qed.

(* the object handed out carries the input's range proof, the stored one keeps its own *)
Theorem get_utxo_result os i p : snd (get_utxo os i) = GPtr p ->
  exists q u, pick_utxo i = GPtr q /\ nth_error os q = Some u /\
              nth_error (fst (get_utxo os i)) p = Some (mk_txo (txo_rest u) (i_utxo_rp i)) /\
              nth_error (fst (get_utxo os i)) q = Some u.
Proof.
  unfold get_utxo. destruct (pick_utxo i) as [|q|] eqn:E; cbn [fst snd]; try discriminate.
  destruct (nth_error os q) as [u|] eqn:N; cbn [fst snd]; try discriminate.
  intros H. inversion H; subst. exists q, u. repeat split; auto.
  - rewrite nth_error_app2, Nat.sub_diag by lia. reflexivity.
  - rewrite nth_error_app1; auto. apply nth_error_Some. congruence.
Qed.

(* ---------- elementsutil ---------- *)
Lemma rev_loop_step tmp k : forall n h0 h h', ext n h0 h -> fresh n tmp -> rev_loop h tmp k = Some h' -> ext n h0 h'.
Proof.
  induction k as [|i IH]; intros n h0 h h' X F E; cbn [rev_loop] in E.
  - inversion E; subst; exact X.
  - destruct (go_get h tmp i) as [bi|]; [|discriminate].
    destruct (go_get h tmp (s_len tmp - 1 - i)) as [bj|]; [|discriminate].
    destruct (go_set h tmp i bj) as [h1|] eqn:E1; [|discriminate].
    destruct (go_set h1 tmp (s_len tmp - 1 - i) bi) as [h2|] eqn:E2; [|discriminate].
    pose proof (set_step _ _ _ _ _ _ _ X F E1) as X1.
    pose proof (set_step _ _ _ _ _ _ _ X1 F E2) as X2.
    eapply IH; eauto.
Qed.

Lemma reverse_bytes_step n h0 h buf : ext n h0 h -> ext n h0 (fst (reverse_bytes h buf)).
Proof.
  intros X. unfold reverse_bytes. destruct (s_len buf <? 1); [exact X|].
  repeat fstep2.
  match goal with |- context [rev_loop ?hh ?t ?k] => destruct (rev_loop hh t k) as [h3|] eqn:EL end; cbn [fst].
  - eapply rev_loop_step; eauto.
  - assumption.
Qed.

Theorem reverse_bytes_frame h buf : ext (length h) h (fst (reverse_bytes h buf)).
Proof. fstart h. apply reverse_bytes_step. exact X0. Qed.

Theorem value_from_bytes_frame h val : ext (length h) h (fst (value_from_bytes h val)).
Proof.
  fstart h. unfold value_from_bytes. destruct (negb (s_len val =? 9)); [exact X0|].
  destruct (go_get h val 0) as [b0|]; [|exact X0].
  destruct (negb _); [exact X0|].
  destruct (go_sub val 1 (s_len val)) as [tl|]; [|exact X0].
  pose proof (reverse_bytes_step _ _ _ tl X0) as X1.
  destruct (reverse_bytes h tl) as [h1 [r|]]; cbn [fst] in *; exact X1.
Qed.

Theorem asset_hash_from_bytes_frame h buf : ext (length h) h (fst (asset_hash_from_bytes h buf)).
Proof.
  fstart h. unfold asset_hash_from_bytes. destruct (go_sub buf 1 (s_len buf)) as [tl|]; [|exact X0].
  apply reverse_bytes_step. exact X0.
Qed.

Theorem txid_from_bytes_frame h buf : ext (length h) h (fst (txid_from_bytes h buf)).
Proof. apply reverse_bytes_frame. Qed.

(* ---------- bufferutil Serializer ---------- *)
Lemma ser_write_varint_step g n h0 h sb v : ext n h0 h -> fresh n sb ->
  ext n h0 (fst (ser_write_varint g h sb v)) /\ fresh n (snd (ser_write_varint g h sb v)).
Proof. intros X F. unfold ser_write_varint. repeat fstep2. cbn [fst snd]. auto. Qed.

Lemma ser_write_var_slice_step g n h0 h sb val : ext n h0 h -> fresh n sb ->
  ext n h0 (fst (ser_write_var_slice g h sb val)) /\ fresh n (snd (ser_write_var_slice g h sb val)).
Proof.
  intros X F. unfold ser_write_var_slice.
  destruct (ser_write_varint_step g n h0 h sb (N.of_nat (s_len val)) X F) as [X1 F1].
  destruct (ser_write_varint g h sb (N.of_nat (s_len val))) as [h1 sb1]. cbn [fst snd] in *.
  unfold ser_write_slice. apply append_step; auto.
Qed.

Lemma ser_write_items_step g v : forall n h0 h sb, ext n h0 h -> fresh n sb ->
  ext n h0 (fst (ser_write_items g h sb v)) /\ fresh n (snd (ser_write_items g h sb v)).
Proof.
  induction v as [|x r IH]; intros n h0 h sb X F; cbn [ser_write_items fst snd]; [auto|].
  destruct (ser_write_var_slice_step g n h0 h sb x X F) as [X1 F1].
  destruct (ser_write_var_slice g h sb x) as [h1 sb1]. cbn [fst snd] in *. apply IH; auto.
Qed.

Theorem ser_vector_frame g h v : ext (length h) h (fst (ser_vector g h v)).
Proof.
  fstart h. unfold ser_vector, ser_new, ser_write_vector. repeat fstep2.
  match goal with X : ext ?n ?h0 ?hh, F : fresh ?n ?sb |- context [ser_write_varint ?g ?hh ?sb ?k] =>
    destruct (ser_write_varint_step g n h0 hh sb k X F) as [X1 F1];
    destruct (ser_write_varint g hh sb k) as [h1 sb1]; cbn [fst snd] in * end.
  apply ser_write_items_step; auto.
Qed.

(* ---------- Transaction.Copy ---------- *)
Lemma copy_bytes_step n h0 h s : ext n h0 h ->
  ext n h0 (fst (copy_bytes h s)) /\ fresh n (snd (copy_bytes h s)).
Proof. intros X. unfold copy_bytes. repeat fstep2. cbn [fst snd]. auto. Qed.

Lemma copy_all_step l : forall n h0 h, ext n h0 h ->
  ext n h0 (fst (copy_all h l)) /\ Forall (fresh n) (snd (copy_all h l)).
Proof.
  induction l as [|s r IH]; intros n h0 h X; cbn [copy_all fst snd]; [auto|].
  destruct (copy_bytes_step n h0 h s X) as [X1 F1].
  destruct (copy_bytes h s) as [h1 d]. cbn [fst snd] in *.
  destruct (IH n h0 h1 X1) as [X2 F2].
  destruct (copy_all h1 r) as [h2 ds]. cbn [fst snd] in *. auto.
Qed.

Theorem copy_all_frame h l : ext (length h) h (fst (copy_all h l)).
Proof. fstart h. apply copy_all_step. exact X0. Qed.

Theorem tweak_priv_writes_frame h key result : ext (length h) h (fst (tweak_priv_writes h key result)).
Proof.
  fstart h. unfold tweak_priv_writes.
  destruct (copy_bytes_step (length h) h h key X0) as [X1 F1].
  destruct (copy_bytes h key) as [h1 work]. cbn [fst snd] in *.
  repeat fstep2. cbn [fst]. assumption.
Qed.

Example tweak_priv_prefix_writes_callers_key :
  let h : heap := [[x01; x02; x03]] in
  let key := mk_slice 0 0 3 3 in
  arr (fst (tweak_priv_writes_prefix h key [x0a; x0b; x0c])) 0 = [x0a; x0b; x0c] /\
  arr (fst (tweak_priv_writes h key [x0a; x0b; x0c])) 0 = [x01; x02; x03] /\
  rd (fst (tweak_priv_writes h key [x0a; x0b; x0c])) (snd (tweak_priv_writes h key [x0a; x0b; x0c])) = [x0a; x0b; x0c].
Proof. repeat split; reflexivity. Qed.

(* copyBytes: the copy reads the same bytes, lives alone in a brand-new array *)
Lemma copy_bytes_spec h s : wf_slice h s ->
  rd (fst (copy_bytes h s)) (snd (copy_bytes h s)) = rd h s /\
  s_arr (snd (copy_bytes h s)) = length h /\
  length (fst (copy_bytes h s)) = S (length h) /\
  wf_slice (fst (copy_bytes h s)) (snd (copy_bytes h s)).
Proof.
  intros W. unfold copy_bytes.
  pose proof (go_make_rd h (s_len s) (s_len s)) as R1.
  pose proof (go_make_wf h (s_len s) (s_len s)) as W1.
  assert (A1 : s_arr (snd (go_make h (s_len s) (s_len s))) = length h) by reflexivity.
  assert (L1 : length (fst (go_make h (s_len s) (s_len s))) = S (length h))
    by (unfold go_make, alloc; cbn [fst]; rewrite app_length; cbn; lia).
  assert (LL : s_len (snd (go_make h (s_len s) (s_len s))) = s_len s) by reflexivity.
  assert (X1 : ext (length h) h (fst (go_make h (s_len s) (s_len s)))) by (apply go_make_fresh; auto).
  destruct (go_make h (s_len s) (s_len s)) as [h1 dst]. cbn [fst snd] in *.
  assert (Ws : wf_slice h1 s) by (eapply wf_slice_ext; eauto; apply W).
  pose proof (go_copy_rd h1 dst s W1 Ws) as R2.
  pose proof (go_copy_wf h1 dst s dst W1) as W2.
  assert (L2 : length (fst (go_copy h1 dst s)) = length h1) by (unfold go_copy; cbn [fst]; apply length_wr).
  destruct (go_copy h1 dst s) as [h2 k]. cbn [fst snd] in *.
  repeat split; auto; try lia; try apply W2.
  rewrite R2, LL, Nat.min_id.
  assert (Rs : rd h1 s = rd h s) by (eapply rd_ext; eauto; apply W).
  rewrite Rs. rewrite firstn_all2 by (rewrite rd_length; auto).
  rewrite skipn_all2 by (rewrite rd_length; auto; lia). apply app_nil_r.
Qed.

Lemma copy_all_spec l : forall h, Forall (wf_slice h) l ->
  read_all (fst (copy_all h l)) (snd (copy_all h l)) = read_all h l /\
  map s_arr (snd (copy_all h l)) = seq (length h) (length l) /\
  length (fst (copy_all h l)) = length h + length l.
Proof.
  induction l as [|s r IH]; intros h W; cbn [copy_all fst snd read_all map length seq].
  - repeat split; auto.
  - inversion W as [|? ? Ws Wr]; subst.
    destruct (copy_bytes_spec h s Ws) as (R & A & L & Wd).
    pose proof (copy_bytes_step (length h) h h s (ext_refl _ _ (le_n _))) as [X1 _].
    destruct (copy_bytes h s) as [h1 d]. cbn [fst snd] in *.
    assert (Wr1 : Forall (wf_slice h1) r).
    { eapply Forall_impl; [|exact Wr]. intros x Wx. eapply wf_slice_ext; eauto. apply Wx. }
    destruct (IH h1 Wr1) as (R2 & A2 & L2).
    pose proof (copy_all_step r (length h1) h1 h1 (ext_refl _ _ (le_n _))) as [X2 _].
    destruct (copy_all h1 r) as [h2 ds]. cbn [fst snd] in *.
    repeat split.
    + unfold read_all in *. cbn [map]. f_equal.
      * rewrite <- R. eapply rd_ext; eauto. rewrite A, L. lia.
      * rewrite R2. apply map_ext_in. intros x Hx.
        rewrite Forall_forall in Wr. eapply rd_ext; eauto. apply (Wr x Hx).
    + cbn [map]. rewrite A, A2, L. reflexivity.
    + lia.
Qed.

(* Copy(): equal contents; and fully independent: no later write through either value is
   visible in the other, nor through one copied slice in another copied slice *)
Theorem copy_equal h l : Forall (wf_slice h) l ->
  read_all (fst (copy_all h l)) (snd (copy_all h l)) = read_all h l.
Proof. intros W. apply copy_all_spec; auto. Qed.

Theorem copy_shares_no_array h l : Forall (wf_slice h) l ->
  NoDup (map s_arr (snd (copy_all h l))) /\
  forall d s, In d (snd (copy_all h l)) -> In s l -> s_arr d <> s_arr s.
Proof.
  intros W. destruct (copy_all_spec l h W) as (_ & A & _). split.
  - rewrite A. apply seq_NoDup.
  - intros d s Hd Hs. assert (Hin : In (s_arr d) (seq (length h) (length l))) by (rewrite <- A; apply in_map; auto).
    apply in_seq in Hin. rewrite Forall_forall in W. destruct (W s Hs) as (Ws & _). lia.
Qed.

Theorem write_to_copy_invisible_in_original h l a pos d : Forall (wf_slice h) l ->
  length h <= a ->
  read_all (wr (fst (copy_all h l)) a pos d) l = read_all h l.
Proof.
  intros W Ha. unfold read_all. apply map_ext_in. intros s Hs.
  rewrite Forall_forall in W. destruct (W s Hs) as (Ws & _).
  rewrite rd_wr_other by lia. eapply rd_ext; [apply copy_all_frame|auto].
Qed.

Theorem write_to_original_invisible_in_copy h l a pos d : Forall (wf_slice h) l ->
  a < length h ->
  read_all (wr (fst (copy_all h l)) a pos d) (snd (copy_all h l)) = read_all h l.
Proof.
  intros W Ha. rewrite <- (copy_equal h l W). unfold read_all. apply map_ext_in. intros s Hs.
  apply rd_wr_other.
  destruct (copy_all_spec l h W) as (_ & A & _).
  assert (Hin : In (s_arr s) (seq (length h) (length l))) by (rewrite <- A; apply in_map; auto).
  apply in_seq in Hin. lia.
Qed.

(* the mutant shape: copying slice headers shares every array *)
Example shallow_copy_is_not_independent :
  let h := [[x01; x02; x03]] in
  let l := [mk_slice 0 0 3 3] in
  let '(h', c) := shallow_copy_all h l in
  read_all h' c = read_all h l /\
  read_all (wr h' 0 1 [xff]) l <> read_all h l.
Proof. cbn. split; [reflexivity|discriminate]. Qed.

Example copy_all_nonvacuous :
  let h := [[xa5; x01; x02; xa5; xa5]; [x07]] in
  let l := [mk_slice 0 1 2 4; mk_slice 1 0 1 1; nil_slice] in
  Forall (wf_slice h) l /\ read_all (fst (copy_all h l)) (snd (copy_all h l)) = [[x01; x02]; [x07]; []].
Proof.
  cbn. split; [|reflexivity].
  repeat constructor; cbn; lia.
Qed.

(* ---------- functional refinements: what the heap-level models compute ---------- *)
Lemma concat2_spec g h a b : wf_slice h a -> wf_slice h b ->
  rd (fst (concat2 g h a b)) (snd (concat2 g h a b)) = rd h a ++ rd h b /\
  wf_slice (fst (concat2 g h a b)) (snd (concat2 g h a b)).
Proof.
  intros Wa Wb. unfold concat2.
  pose proof (go_lit_rd h []) as R0. pose proof (go_lit_wf h []) as W0.
  pose proof (lit_step (length h) h h [] (ext_refl _ _ (le_n _))) as [X1 Ft].
  destruct (go_lit h []) as [h1 t]. cbn [fst snd] in *.
  assert (Ra : rd h1 a = rd h a) by (eapply rd_ext; eauto; apply Wa).
  pose proof (go_append_rd g h1 t (rd h1 a) W0) as R1.
  pose proof (go_append_wf g h1 t (rd h1 a) W0) as W1.
  pose proof (append_step g (length h) h h1 t (rd h1 a) X1 Ft) as [X2 F1].
  destruct (go_append g h1 t (rd h1 a)) as [h2 t1]. cbn [fst snd] in *.
  assert (Rb : rd h2 b = rd h b) by (eapply rd_ext; eauto; apply Wb).
  split.
  - rewrite go_append_rd by auto. rewrite R1, R0, Ra, Rb. reflexivity.
  - apply go_append_wf; auto.
Qed.

(* every emitted TapScriptSig key is pubkey ++ leaf hash, READ AFTER ALL pairs were built
   (this is what failed before 7d6e201 when two public keys shared an array) *)
Theorem tap_script_sigs_reads g sigs : forall h,
  Forall (fun p => wf_slice h (fst p) /\ wf_slice h (snd p)) sigs ->
  map (rd (fst (tap_script_sigs g h sigs))) (snd (tap_script_sigs g h sigs)) =
  map (fun p => rd h (fst p) ++ rd h (snd p)) sigs.
Proof.
  unfold tap_script_sigs.
  induction sigs as [|[pk leaf] r IH]; intros h W; cbn [tap_script_sigs_gen fst snd map]; [reflexivity|].
  inversion W as [|? ? [Wp Wl] Wr]; subst. cbn [fst snd] in *.
  destruct (concat2_spec g h pk leaf Wp Wl) as [R1 W1].
  pose proof (concat2_step g (length h) h h pk leaf (ext_refl _ _ (le_n _))) as [X1 _].
  destruct (concat2 g h pk leaf) as [h1 kd]. cbn [fst snd] in *.
  assert (Wr1 : Forall (fun p => wf_slice h1 (fst p) /\ wf_slice h1 (snd p)) r).
  { eapply Forall_impl; [|exact Wr]. intros [a b] [Wa Wb]. cbn [fst snd] in *.
    split; eapply wf_slice_ext; eauto; [apply Wa|apply Wb]. }
  specialize (IH h1 Wr1).
  pose proof (tap_script_sigs_step g r (length h1) h1 h1 (ext_refl _ _ (le_n _))) as X2.
  unfold tap_script_sigs in X2.
  destruct (tap_script_sigs_gen concat2 g h1 r) as [h2 kds]. cbn [fst snd map] in *.
  f_equal.
  - rewrite <- R1. eapply rd_ext; eauto. apply W1.
  - rewrite IH. apply map_ext_in. intros [a b] Hin. cbn [fst snd].
    rewrite Forall_forall in Wr. destruct (Wr _ Hin) as [Wa Wb]. cbn [fst snd] in *.
    f_equal; eapply rd_ext; eauto; [apply Wa|apply Wb].
Qed.

Theorem compute_asset_reads h e : wf_slice h e -> s_len e = 32 ->
  exists out, snd (compute_asset h e) = Some out /\
              rd (fst (compute_asset h e)) out = midstate256 (rd h e ++ zeros 32).
Proof.
  intros W L. unfold compute_asset. rewrite L. cbn [Nat.eqb negb].
  replace (Nat.eqb 32 32) with true by reflexivity. cbn [negb].
  pose proof (go_make_rd h (32 + 32) (32 + 32)) as R1.
  pose proof (go_make_wf h (32 + 32) (32 + 32)) as W1.
  pose proof (make_step (length h) h h (32 + 32) (32 + 32) (ext_refl _ _ (le_n _))) as [X1 _].
  assert (LL : s_len (snd (go_make h (32 + 32) (32 + 32))) = 64) by reflexivity.
  destruct (go_make h (32 + 32) (32 + 32)) as [h1 buf]. cbn [fst snd] in *.
  assert (We : wf_slice h1 e) by (eapply wf_slice_ext; eauto; apply W).
  pose proof (go_copy_rd h1 buf e W1 We) as R2.
  destruct (go_copy h1 buf e) as [h2 k]. cbn [fst snd] in *.
  pose proof (go_lit_rd h2 (midstate256 (rd h2 buf))) as R3.
  destruct (go_lit h2 (midstate256 (rd h2 buf))) as [h3 out]. cbn [fst snd] in *.
  exists out. split; [reflexivity|]. rewrite R3, R2, LL, L. f_equal.
  assert (Re : rd h1 e = rd h e) by (eapply rd_ext; eauto; apply W).
  rewrite Re, R1. cbn [Nat.min].
  rewrite firstn_all2 by (rewrite rd_length; auto; lia). f_equal.
Qed.

Theorem b32_encode_reads g h hrp data enc : wf_slice h data ->
  match snd (b32_encode g h hrp data enc) with
  | Some out => B32.encode hrp (rd h data) enc = Some (rd (fst (b32_encode g h hrp data enc)) out)
  | None => B32.encode hrp (rd h data) enc = None
  end.
Proof.
  intros W. unfold b32_encode, B32.encode.
  pose proof (go_lit_rd h (B32.create_checksum hrp (rd h data) enc)) as R0.
  pose proof (go_lit_wf h (B32.create_checksum hrp (rd h data) enc)) as W0.
  pose proof (lit_step (length h) h h (B32.create_checksum hrp (rd h data) enc) (ext_refl _ _ (le_n _))) as [X1 _].
  destruct (go_lit h (B32.create_checksum hrp (rd h data) enc)) as [h1 ck]. cbn [fst snd] in *.
  assert (Wd : wf_slice h1 data) by (eapply wf_slice_ext; eauto; apply W).
  destruct (concat2_spec g h1 data ck Wd W0) as [R1 _].
  destruct (concat2 g h1 data ck) as [h2 combined]. cbn [fst snd] in *.
  assert (Rd : rd h1 data = rd h data) by (eapply rd_ext; eauto; apply W).
  rewrite R1, R0, Rd.
  destruct (B32.to_chars (rd h data ++ B32.create_checksum hrp (rd h data) enc)) as [cs|]; cbn [snd fst]; [|reflexivity].
  pose proof (go_lit_rd h2 (hrp ++ [B32.sep] ++ cs)) as R3.
  destruct (go_lit h2 (hrp ++ [B32.sep] ++ cs)) as [h3 out]. cbn [fst snd] in *.
  rewrite R3. reflexivity.
Qed.

(* ---------- blech32.Decode: its append lands in place and rewrites the checksum with itself ---------- *)
Example b32_decode_self_append :
  (* "lq1" ++ 14 x 'q' is rejected by the checksum, but the append already happened *)
  let h0 : heap := [[xa5]] in
  let s := of_codes [108; 113; 49; 113; 113; 113; 113; 113; 113; 113; 113; 113; 113; 113; 113; 113; 113]%N in
  let '(h1, r) := b32_decode go_policy h0 s in
  firstn 1 h1 = h0 /\ arr h1 1 = zeros 14.
Proof. vm_compute. split; reflexivity. Qed.

(* ---------- what the heap model catches: the shapes before the fix commits ---------- *)
Definition sub_with_spare : heap * slice :=        (* 32 bytes 0x11 inside a 72-byte array of 0xa5 *)
  ([repeat xa5 4 ++ repeat x11 32 ++ repeat xa5 36], mk_slice 0 4 32 68).

Example compute_asset_prefix_writes_spare_capacity :
  let '(h, e) := sub_with_spare in
  arr (fst (compute_asset_prefix go_policy h e)) 0 = repeat xa5 4 ++ repeat x11 32 ++ zeros 32 ++ repeat xa5 4 /\
  arr (fst (compute_asset h e)) 0 = arr h 0 /\
  (* same result bytes either way *)
  option_map (rd (fst (compute_asset_prefix go_policy h e))) (snd (compute_asset_prefix go_policy h e)) =
  option_map (rd (fst (compute_asset h e))) (snd (compute_asset h e)).
Proof. vm_compute. repeat split; reflexivity. Qed.

Example b32_encode_prefix_writes_spare_capacity :
  let h : heap := [[x00; x01; x02; xa5; xa5; xa5; xa5; xa5; xa5; xa5; xa5; xa5; xa5; xa5; xa5; xa5]] in
  let d := mk_slice 0 0 3 16 in
  arr (fst (b32_encode_prefix go_policy h [x6c; x71] d B32.BLECH32)) 0 <> arr h 0 /\
  arr (fst (b32_encode go_policy h [x6c; x71] d B32.BLECH32)) 0 = arr h 0.
Proof. vm_compute. split; [discriminate|reflexivity]. Qed.

(* two TapScriptSigs whose public keys are sub-slices of one buffer: before the fix the
   second append overwrote the first pair's key data *)
Example tap_script_sigs_prefix_corrupts_shared_keys :
  let h : heap := [[x01; x01; xa5; xa5; xa5; xa5]; [x0a; x0a]; [x0b; x0b]] in
  let pk := mk_slice 0 0 2 6 in
  let sigs := [(pk, mk_slice 1 0 2 2); (pk, mk_slice 2 0 2 2)] in
  map (rd (fst (tap_script_sigs_prefix go_policy h sigs))) (snd (tap_script_sigs_prefix go_policy h sigs))
    = [[x01; x01; x0b; x0b]; [x01; x01; x0b; x0b]] /\
  map (rd (fst (tap_script_sigs go_policy h sigs))) (snd (tap_script_sigs go_policy h sigs))
    = [[x01; x01; x0a; x0a]; [x01; x01; x0b; x0b]] /\
  Forall (fun p => wf_slice h (fst p) /\ wf_slice h (snd p)) sigs.
Proof. vm_compute. repeat split; try reflexivity. repeat constructor; cbn; lia. Qed.

Example get_utxo_prefix_writes_stored_utxo :
  let os : ostore := [mk_txo [] (mk_slice 0 0 3 3)] in
  let i := mk_v2in (Some 0) None 0 nil_slice in
  fst (get_utxo_prefix os i) = [mk_txo [] nil_slice] /\ fst (get_utxo os i) = os ++ [mk_txo [] nil_slice].
Proof. split; reflexivity. Qed.

(* ---------- all modelled calls at once ---------- *)
Inductive call :=
  | CAsset (e : slice) | CToken (e : slice) (flag : N)
  | CFinalVbf (inv outv : slice) | CRangeProofMsg (asset abf : slice)
  | CB32Encode (hrp : bytes) (data : slice) (enc : N) | CB32Decode (s : bytes)
  | CBase58Conf (ver cver : byte) (pk data : slice)
  | CBlech32 (prefix : bytes) (v : byte) (pk prog : slice)
  | CTapScriptSigs (sigs : list (slice * slice)) | CTapLeafScripts (ls : list (slice * byte))
  | CReverse (buf : slice) | CValueFromBytes (val : slice) | CAssetHashFromBytes (buf : slice) | CTxIDFromBytes (buf : slice)
  | CSerVector (v : list slice) | CCopy (l : list slice)
  | CTweakPriv (key : slice) (result : bytes).

Definition run_call (g : policy) (h : heap) (c : call) : heap :=
  match c with
  | CAsset e => fst (compute_asset h e)
  | CToken e f => fst (compute_token g h e f)
  | CFinalVbf a b => fst (final_vbf_values g h a b)
  | CRangeProofMsg a b => fst (range_proof_message g h a b)
  | CB32Encode hrp d enc => fst (b32_encode g h hrp d enc)
  | CB32Decode s => fst (b32_decode g h s)
  | CBase58Conf v cv pk d => fst (to_base58_conf g h v cv pk d)
  | CBlech32 p v pk prog => fst (to_blech32 g h p v pk prog)
  | CTapScriptSigs sigs => fst (tap_script_sigs g h sigs)
  | CTapLeafScripts ls => fst (tap_leaf_scripts g h ls)
  | CReverse b => fst (reverse_bytes h b)
  | CValueFromBytes v => fst (value_from_bytes h v)
  | CAssetHashFromBytes b => fst (asset_hash_from_bytes h b)
  | CTxIDFromBytes b => fst (txid_from_bytes h b)
  | CSerVector v => fst (ser_vector g h v)
  | CCopy l => fst (copy_all h l)
  | CTweakPriv k r => fst (tweak_priv_writes h k r)
  end.

Theorem run_call_frame g h c : ext (length h) h (run_call g h c).
Proof.
  destruct c; cbn [run_call].
  - apply compute_asset_frame. - apply compute_token_frame. - apply final_vbf_values_frame.
  - apply range_proof_message_frame. - apply b32_encode_frame. - apply b32_decode_frame.
  - apply to_base58_conf_frame. - apply to_blech32_frame. - apply tap_script_sigs_frame.
  - apply tap_leaf_scripts_frame. - apply reverse_bytes_frame. - apply value_from_bytes_frame.
  - apply asset_hash_from_bytes_frame. - apply txid_from_bytes_frame. - apply ser_vector_frame.
  - apply copy_all_frame.
  - apply tweak_priv_writes_frame.
Qed.

Lemma run_calls_frame g cs : forall h, ext (length h) h (fold_left (run_call g) cs h).
Proof.
  induction cs as [|c r IH]; intros h; cbn [fold_left]; [apply ext_refl; auto|].
  eapply ext_trans; [apply run_call_frame|].
  eapply ext_weaken; [|apply IH]. pose proof (run_call_frame g h c) as (_ & L & _). exact L.
Qed.

(* the main theorem, for every site, every policy, every argument configuration and every
   sequence of calls: whatever existed before is unchanged afterwards *)
Theorem calls_only_allocate g h cs : firstn (length h) (fold_left (run_call g) cs h) = h.
Proof. apply ext_firstn. apply run_calls_frame. Qed.

Lemma ext_caller_view h h' args : ext (length h) h h' ->
  Forall (fun s => s_arr s < length h) args -> caller_view h' args = caller_view h args.
Proof.
  intros (_ & _ & E) W. unfold caller_view. apply map_ext_in. intros s Hs.
  rewrite Forall_forall in W. apply E. apply W; auto.
Qed.

(* caller_view = the whole array of each argument: in front of the slice, the slice, and the
   spare capacity behind it *)
Theorem args_and_spare_capacity_unchanged g h c args :
  Forall (fun s => s_arr s < length h) args ->
  caller_view (run_call g h c) args = caller_view h args.
Proof. intros W. apply ext_caller_view; auto. apply run_call_frame. Qed.

Corollary spare_capacity_unchanged g h c s : s_arr s < length h ->
  rd_cap (run_call g h c) s = rd_cap h s /\ rd (run_call g h c) s = rd h s.
Proof.
  intros W. split; [eapply rd_cap_ext | eapply rd_ext]; eauto; apply run_call_frame.
Qed.

(* package-level values: they sit in the heap before any call; no sequence of modelled calls,
   with any arguments (even the package-level values themselves), changes them *)
Theorem constants_never_written g rest cs :
  firstn (length pkg_globals) (fold_left (run_call g) cs (pkg_globals ++ rest)) = pkg_globals.
Proof.
  pose proof (calls_only_allocate g (pkg_globals ++ rest) cs) as E.
  rewrite <- (firstn_skipn (length (pkg_globals ++ rest)) (fold_left (run_call g) cs (pkg_globals ++ rest))).
  rewrite E, <- app_assoc, firstn_app, Nat.sub_diag, firstn_all. cbn [firstn]. apply app_nil_r.
Qed.

(* repeat-call determinism at model level: the bytes an argument reads to are the same after any
   sequence of other calls, so a deterministic call sees the same inputs *)
Theorem arguments_read_the_same_after_any_calls g h cs s : s_arr s < length h ->
  rd (fold_left (run_call g) cs h) s = rd h s.
Proof. intros W. eapply rd_ext; [apply run_calls_frame|auto]. Qed.

Corollary compute_asset_repeatable g h cs e : wf_slice h e -> s_len e = 32 ->
  let h' := fold_left (run_call g) cs h in
  option_map (rd (fst (compute_asset h' e))) (snd (compute_asset h' e)) =
  option_map (rd (fst (compute_asset h e))) (snd (compute_asset h e)).
Proof.
  intros W L h'.
  assert (W' : wf_slice h' e) by (eapply wf_slice_ext; [apply run_calls_frame| |]; auto; apply W).
  destruct (compute_asset_reads h e W L) as (o1 & E1 & R1).
  destruct (compute_asset_reads h' e W' L) as (o2 & E2 & R2).
  rewrite E1, E2. cbn [option_map]. rewrite R1, R2. unfold h'.
  rewrite arguments_read_the_same_after_any_calls; auto. apply W.
Qed.

Example frame_hypotheses_satisfiable :
  let '(h, e) := sub_with_spare in
  wf_slice h e /\ s_len e = 32 /\ Forall (fun s => s_arr s < length h) [e] /\
  snd (compute_asset h e) <> None.
Proof.
  unfold sub_with_spare. split; [|split; [|split]].
  - unfold wf_slice. cbn [s_arr s_off s_len s_cap length arr nth]. rewrite !app_length, !repeat_length. lia.
  - reflexivity.
  - repeat constructor.
  - vm_compute. discriminate.
Qed.

(* ---------- Transaction.Copy on model values ---------- *)
From GE Require Import Model.Tx.

Theorem copy_eq t : copy_tx t = t.
Proof. destruct t. unfold copy_tx. cbn. f_equal. unfold copy_in. apply map_id. Qed.

Theorem copy_norm_eq t : norm_tx (copy_tx t) = norm_tx t.
Proof. rewrite copy_eq. reflexivity. Qed.

Theorem ser_copy t : ser_full (copy_tx t) = ser_full t /\ ser_txid (copy_tx t) = ser_txid t /\ ser_wtxid (copy_tx t) = ser_wtxid t.
Proof. rewrite copy_eq. auto. Qed.

(* what Copy did before 5085a24: make([][]byte, n) followed by append => n empty items in front *)
Definition copy_in_prefix (i : txin) : txin :=
  mk_in (in_hash i) (in_index i) (in_seq i) (in_script i) (in_witness i) (in_pegin i)
        (repeat [] (length (in_pegwit i)) ++ in_pegwit i) (in_iss i) (in_irp i) (in_inrp i).
Example copy_prefix_was_not_equal :
  let i := mk_in (repeat x00 32) 0%N 0%N [] [] true [[x01]] None [] [] in
  copy_in_prefix i <> i /\ copy_in i = i.
Proof. split; [discriminate|reflexivity]. Qed.
