(* Proofs/SighashReparse.v — the three signature-hash pre-images do not read the witness flag of the
   transaction object, hence (with the codec theorem of C01) a transaction read back from its own
   serialization has the same pre-images as the object it was serialized from. *)
From Coq Require Import List NArith Bool Lia.
Import ListNotations.
From GE Require Import Lib.Bytes Lib.Varint Model.Tx Model.Sighash Proofs.TxCodec.
Open Scope N_scope.

Definition same_but_flag (t t' : tx) : Prop :=
  t_version t = t_version t' /\ t_locktime t = t_locktime t' /\ t_ins t = t_ins t' /\ t_outs t = t_outs t'.

Lemma same_but_flag_norm t : same_but_flag t (norm_tx t).
Proof. unfold same_but_flag, norm_tx. cbn. repeat split. Qed.

Lemma ser_tx_nowit_flag zf fs rp v f f' l i o :
  ser_tx false zf fs rp (mk_tx v f l i o) = ser_tx false zf fs rp (mk_tx v f' l i o).
Proof. reflexivity. Qed.

Lemma preimage_legacy_flag t t' idx script ht :
  same_but_flag t t' -> preimage_legacy t idx script ht = preimage_legacy t' idx script ht.
Proof.
  destruct t as [v f l i o], t' as [v' f' l' i' o']. unfold same_but_flag. cbn.
  intros (-> & -> & -> & ->).
  unfold preimage_legacy, legacy_tx. cbn [t_ins t_outs t_version t_flag t_locktime].
  destruct (nth_error i' idx); [|reflexivity].
  destruct (ht_none ht).
  { erewrite ser_tx_nowit_flag. reflexivity. }
  destruct (ht_single ht).
  { destruct (length o' <=? idx)%nat; [reflexivity|]. erewrite ser_tx_nowit_flag. reflexivity. }
  erewrite ser_tx_nowit_flag. reflexivity.
Qed.

Lemma preimage_v0_flag H2 t t' idx script value ht :
  same_but_flag t t' -> preimage_v0 H2 t idx script value ht = preimage_v0 H2 t' idx script value ht.
Proof.
  destruct t as [v f l i o], t' as [v' f' l' i' o']. unfold same_but_flag. cbn.
  intros (-> & -> & -> & ->). reflexivity.
Qed.

Lemma preimage_v1_flag H1 t t' idx a ht :
  same_but_flag t t' -> preimage_v1 H1 t idx a ht = preimage_v1 H1 t' idx a ht.
Proof.
  destruct t as [v f l i o], t' as [v' f' l' i' o']. unfold same_but_flag. cbn.
  intros (-> & -> & -> & ->). reflexivity.
Qed.

(* the secondary entry point: whatever NewTxFromBuffer returns for the bytes Serialize wrote (followed by anything)
   has the pre-images of the transaction that was serialized, for every algorithm, index, hash type and spent data *)
Theorem reparsed_has_same_preimages t rest t' rest' :
  wf_tx t = true -> parse_tx (ser_full t ++ rest) = Some (t', rest') ->
  rest' = rest /\
  (forall idx script ht, preimage_legacy t' idx script ht = preimage_legacy t idx script ht) /\
  (forall H2 idx script value ht, preimage_v0 H2 t' idx script value ht = preimage_v0 H2 t idx script value ht) /\
  (forall H1 idx a ht, preimage_v1 H1 t' idx a ht = preimage_v1 H1 t idx a ht).
Proof.
  intros W P. rewrite (tx_parse_ser t rest W) in P. injection P as <- <-.
  pose proof (same_but_flag_norm t) as S.
  split; [reflexivity|]. split; [|split]; intros; symmetry.
  - apply preimage_legacy_flag; exact S.
  - apply preimage_v0_flag; exact S.
  - apply preimage_v1_flag; exact S.
Qed.

(* non-vacuity: a witness transaction with flag 0 is well-formed, parses back with flag 1, same pre-images *)
Example reparsed_example :
  let i := mk_in (repeat x00 32) 0 0xffffffff [] [[x01]] false [] None [] [] in
  let o := mk_out (b8 1 :: repeat x00 32) (b8 1 :: repeat x00 8) [] [x00] [] [] in
  let t := mk_tx 2 0 0 [i] [o] in
  wf_tx t = true /\ parse_tx (ser_full t) = Some (norm_tx t, []) /\ t_flag (norm_tx t) = 1.
Proof. vm_compute. repeat split. Qed.
