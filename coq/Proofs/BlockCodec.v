(* Proofs/BlockCodec.v — round-trip lemmas for block headers and blocks (C01). *)
From GE Require Import Lib.Bytes Lib.Varint Model.Tx Model.Block Proofs.TxCodec.
From Coq Require Import ZifyBool ZifyN ZifyNat.
Open Scope N_scope.

(* ---------- version / dynafed bit ---------- *)
Lemma ver_bits_fwd v : v < 0x80000000 ->
  N.testbit (N.lor v DYNAFED_HF_MASK) 31 = true /\ N.land (N.lor v DYNAFED_HF_MASK) 0x7fffffff = v /\
  N.lor v DYNAFED_HF_MASK < two32 /\ N.testbit v 31 = false.
Proof.
  intro H. assert (B : v < 2 ^ 31) by exact H.
  assert (T : forall n, 31 <= n -> N.testbit v n = false) by (intros; apply (testbit_small_le v 31); assumption).
  change DYNAFED_HF_MASK with (2 ^ 31). change 0x7fffffff with (N.ones 31).
  repeat split.
  - rewrite N.lor_spec, N.pow2_bits_true. apply orb_true_r.
  - apply N.bits_inj. intro n. rewrite N.land_spec, N.lor_spec, N.pow2_bits_eqb.
    destruct (N.ltb_spec n 31) as [L|L].
    + rewrite N.ones_spec_low by lia. destruct (N.eqb_spec 31 n); [lia|]. rewrite orb_false_r, andb_true_r. reflexivity.
    + rewrite N.ones_spec_high by lia. rewrite andb_false_r. symmetry. apply T; exact L.
  - destruct (N.eq_dec (N.lor v (2 ^ 31)) 0) as [E|E]; [rewrite E; reflexivity|].
    change two32 with (2 ^ 32). apply N.log2_lt_pow2; [lia|].
    destruct (N.lt_ge_cases (N.log2 (N.lor v (2 ^ 31))) 32) as [L|L]; [exact L|].
    exfalso. pose proof (N.bit_log2 _ E) as Bt. rewrite N.lor_spec, N.pow2_bits_eqb, T in Bt by lia.
    destruct (N.eqb_spec 31 (N.log2 (N.lor v (2 ^ 31)))); [lia | discriminate].
  - apply T; lia.
Qed.

Lemma ver_bits_bwd w : w < two32 -> N.testbit w 31 = true ->
  N.lor (N.land w 0x7fffffff) DYNAFED_HF_MASK = w /\ N.land w 0x7fffffff < 0x80000000.
Proof.
  intros H T. change DYNAFED_HF_MASK with (2 ^ 31). change 0x7fffffff with (N.ones 31). split.
  - apply N.bits_inj. intro n. rewrite N.lor_spec, N.land_spec, N.pow2_bits_eqb.
    destruct (N.ltb_spec n 31) as [L|L].
    + rewrite N.ones_spec_low by lia. destruct (N.eqb_spec 31 n); [lia|]. rewrite orb_false_r, andb_true_r. reflexivity.
    + rewrite N.ones_spec_high by lia. rewrite andb_false_r. cbn [orb].
      destruct (N.eqb_spec 31 n) as [<-|Ne]; [symmetry; exact T|].
      symmetry. apply (testbit_small_le w 32); [exact H | lia].
  - rewrite N.land_ones. assert (w mod 2 ^ 31 < 2 ^ 31) by (apply N.mod_lt; lia). exact H0.
Qed.

Lemma bit31_false w : w < two32 -> N.testbit w 31 = false -> w < 0x80000000.
Proof.
  intros H T. pose proof (N.testbit_spec' w 31) as S. rewrite T in S. cbn [N.b2n] in S.
  change (2 ^ 31) with 0x80000000 in S. unfold two32 in H. lia.
Qed.

(* ---------- dynafed parameters ---------- *)
Lemma p_dparams_app p r : wf_dparams p = true -> p_dparams (ser_dparams p ++ r) = Some (p, r).
Proof.
  destruct p as [|c|f]; cbn [wf_dparams ser_dparams]; intro W.
  - reflexivity.
  - rewrite !andb_true_iff in W. destruct W as [[A B] C]. unfold wf_slice in A. apply Nat.eqb_eq in C.
    unfold p_dparams, bind. cbn [app]. rewrite p_u8_app by lia. cbn [N.eqb Pos.eqb].
    rewrite <- !app_assoc. rewrite p_var_slice_app by lia. rewrite p_le_app by (cbn; unfold two32 in *; lia).
    rewrite (take_app_n 32) by exact C. destruct c; reflexivity.
  - rewrite !andb_true_iff in W. destruct W as [[[[A B] C] D] E]. unfold wf_slice in *.
    unfold p_dparams, bind. cbn [app]. rewrite p_u8_app by lia. cbn [N.eqb Pos.eqb].
    rewrite <- !app_assoc. rewrite p_var_slice_app by lia. rewrite p_le_app by (cbn; unfold two32 in *; lia).
    rewrite p_var_slice_app by lia. rewrite p_var_slice_app by lia.
    rewrite p_vector_app by (apply wf_vec_prop; exact E). destruct f; reflexivity.
Qed.

Lemma p_dparams_inv bs p r : p_dparams bs = Some (p, r) -> bs = ser_dparams p ++ r /\ wf_dparams p = true.
Proof.
  unfold p_dparams, bind. destruct (p_u8 bs) as [[ty r0]|] eqn:U; [|discriminate].
  apply p_u8_inv in U as [-> Hty].
  destruct (N.eqb_spec ty 0) as [->|N0].
  { unfold ret. intro H; inversion H; subst. split; reflexivity. }
  destruct (N.eqb_spec ty 1) as [->|N1].
  { destruct (p_var_slice r0) as [[s r1]|] eqn:A; [|discriminate].
    destruct (p_le 4 r1) as [[l r2]|] eqn:B; [|discriminate].
    destruct (take 32 r2) as [[rt r3]|] eqn:C; [|discriminate].
    unfold ret. intro H; inversion H; subst.
    apply p_var_slice_inv in A as [-> Ws]. apply p_le_inv in B as [-> Wl]. apply take_inv in C as [-> Lr].
    cbn [ser_dparams wf_dparams cp_script cp_limit cp_root app]. rewrite <- !app_assoc. split; [reflexivity|].
    unfold wf_slice. rewrite Lr. change (256 ^ N.of_nat 4) with two32 in Wl.
    destruct (N.ltb_spec (lenN s) two64); [|lia]. destruct (N.ltb_spec l two32); [|lia]. reflexivity. }
  destruct (N.eqb_spec ty 2) as [->|N2]; [|discriminate].
  destruct (p_var_slice r0) as [[s r1]|] eqn:A; [|discriminate].
  destruct (p_le 4 r1) as [[l r2]|] eqn:B; [|discriminate].
  destruct (p_var_slice r2) as [[pr r3]|] eqn:C; [|discriminate].
  destruct (p_var_slice r3) as [[fs r4]|] eqn:D; [|discriminate].
  destruct (p_vector r4) as [[e r5]|] eqn:E; [|discriminate].
  unfold ret. intro H; inversion H; subst.
  apply p_var_slice_inv in A as [-> Ws]. apply p_le_inv in B as [-> Wl].
  apply p_var_slice_inv in C as [-> Wp]. apply p_var_slice_inv in D as [-> Wf]. apply p_vector_inv in E as [-> We].
  cbn [ser_dparams wf_dparams fp_script fp_limit fp_program fp_fedscript fp_ext app]. rewrite <- !app_assoc. split; [reflexivity|].
  unfold wf_slice. change (256 ^ N.of_nat 4) with two32 in Wl. rewrite (wf_vector_bool _ We).
  destruct (N.ltb_spec (lenN s) two64); [|lia]. destruct (N.ltb_spec l two32); [|lia].
  destruct (N.ltb_spec (lenN pr) two64); [|lia]. destruct (N.ltb_spec (lenN fs) two64); [|lia]. reflexivity.
Qed.

(* ---------- extension data ---------- *)
Lemma p_ext_app e r : wf_ext e = true -> p_ext (is_dyna e) (ser_ext false e ++ r) = Some (e, r).
Proof.
  destruct e as [p|d]; cbn [wf_ext ser_ext is_dyna p_ext]; intro W.
  - rewrite andb_true_iff in W. destruct W as [A B]. unfold wf_slice in *.
    unfold bind. rewrite <- !app_assoc. rewrite p_var_slice_app by lia. rewrite p_var_slice_app by lia.
    destruct p; reflexivity.
  - rewrite !andb_true_iff in W. destruct W as [[A B] C].
    unfold bind. rewrite <- !app_assoc. rewrite p_dparams_app by exact A. rewrite p_dparams_app by exact B.
    rewrite p_vector_app by (apply wf_vec_prop; exact C). destruct d; reflexivity.
Qed.

Lemma p_ext_inv dyna bs e r : p_ext dyna bs = Some (e, r) ->
  bs = ser_ext false e ++ r /\ wf_ext e = true /\ is_dyna e = dyna.
Proof.
  destruct dyna; cbn [p_ext]; unfold bind.
  - destruct (p_dparams bs) as [[c r1]|] eqn:A; [|discriminate].
    destruct (p_dparams r1) as [[p r2]|] eqn:B; [|discriminate].
    destruct (p_vector r2) as [[w r3]|] eqn:C; [|discriminate].
    unfold ret. intro H; inversion H; subst.
    apply p_dparams_inv in A as [-> Wa]. apply p_dparams_inv in B as [-> Wb]. apply p_vector_inv in C as [-> Wc].
    cbn [ser_ext wf_ext is_dyna d_current d_proposed d_witness]. rewrite <- !app_assoc.
    rewrite Wa, Wb, (wf_vector_bool _ Wc). auto.
  - destruct (p_var_slice bs) as [[c r1]|] eqn:A; [|discriminate].
    destruct (p_var_slice r1) as [[s r2]|] eqn:B; [|discriminate].
    unfold ret. intro H; inversion H; subst.
    apply p_var_slice_inv in A as [-> Wa]. apply p_var_slice_inv in B as [-> Wb].
    cbn [ser_ext wf_ext is_dyna p_challenge p_solution]. rewrite <- !app_assoc. unfold wf_slice.
    destruct (N.ltb_spec (lenN c) two64); [|lia]. destruct (N.ltb_spec (lenN s) two64); [|lia]. auto.
Qed.

(* ---------- header ---------- *)
Lemma wf_header_parts h : wf_header h = true ->
  h_version h < 0x80000000 /\ length (h_prev h) = 32%nat /\ length (h_merkle h) = 32%nat /\
  h_time h < two32 /\ h_height h < two32 /\ wf_ext (h_ext h) = true.
Proof.
  unfold wf_header. intro H. rewrite !andb_true_iff in H. destruct H as [[[[[A B] C] D] E] F].
  apply Nat.eqb_eq in B, C. repeat split; try assumption; lia.
Qed.

Theorem header_parse_ser h rest : wf_header h = true ->
  parse_header (ser_header false h ++ rest) = Some (h, rest).
Proof.
  intro W. apply wf_header_parts in W as (Hv & Hp & Hm & Ht & Hh & He).
  destruct (ver_bits_fwd (h_version h) Hv) as (B1 & B2 & B3 & B4).
  unfold parse_header, ser_header, bind. rewrite <- !app_assoc.
  pose proof (p_ext_app (h_ext h) rest He) as PE.
  destruct (is_dyna (h_ext h)) eqn:D.
  - rewrite p_le_app by (cbn; unfold two32 in B3; lia). rewrite B1, B2.
    rewrite (take_app_n 32) by exact Hp. rewrite (take_app_n 32) by exact Hm.
    rewrite p_le_app by (cbn; unfold two32 in *; lia). rewrite p_le_app by (cbn; unfold two32 in *; lia).
    rewrite PE. destruct h; reflexivity.
  - rewrite p_le_app by (cbn; lia). rewrite B4.
    rewrite (take_app_n 32) by exact Hp. rewrite (take_app_n 32) by exact Hm.
    rewrite p_le_app by (cbn; unfold two32 in *; lia). rewrite p_le_app by (cbn; unfold two32 in *; lia).
    rewrite PE. destruct h; reflexivity.
Qed.

Theorem header_ser_parse bs h rest : parse_header bs = Some (h, rest) ->
  ser_header false h ++ rest = bs /\ wf_header h = true.
Proof.
  unfold parse_header, bind.
  destruct (p_le 4 bs) as [[v r1]|] eqn:A; [|discriminate].
  destruct (take 32 r1) as [[pv r2]|] eqn:B; [|discriminate].
  destruct (take 32 r2) as [[mr r3]|] eqn:C; [|discriminate].
  destruct (p_le 4 r3) as [[ts r4]|] eqn:D; [|discriminate].
  destruct (p_le 4 r4) as [[ht r5]|] eqn:E; [|discriminate].
  destruct (p_ext (N.testbit v 31) r5) as [[e r6]|] eqn:F; [|discriminate].
  unfold ret. intro H; inversion H; subst.
  apply p_le_inv in A as [-> Wv]. apply take_inv in B as [-> Lp]. apply take_inv in C as [-> Lm].
  apply p_le_inv in D as [-> Wt]. apply p_le_inv in E as [-> Wh]. apply p_ext_inv in F as [-> [We Dy]].
  change (256 ^ N.of_nat 4) with two32 in *.
  unfold ser_header, wf_header. cbn [h_version h_prev h_merkle h_time h_height h_ext]. rewrite Dy.
  destruct (N.testbit v 31) eqn:T.
  - destruct (ver_bits_bwd v Wv T) as [R1 R2]. rewrite R1. rewrite <- !app_assoc. split; [reflexivity|].
    rewrite Lp, Lm, We. destruct (N.ltb_spec (N.land v 0x7fffffff) 0x80000000); [|lia].
    destruct (N.ltb_spec ts two32); [|lia]. destruct (N.ltb_spec ht two32); [|lia]. reflexivity.
  - pose proof (bit31_false v Wv T) as R. rewrite <- !app_assoc. split; [reflexivity|].
    rewrite Lp, Lm, We. destruct (N.ltb_spec v 0x80000000); [|lia].
    destruct (N.ltb_spec ts two32); [|lia]. destruct (N.ltb_spec ht two32); [|lia]. reflexivity.
Qed.

(* the hashed form omits exactly the solution / the sign-block witness *)
Theorem header_for_hash_prefix h :
  exists tail, ser_header false h = ser_header true h ++ tail.
Proof.
  unfold ser_header. destruct (h_ext h) as [p|d]; cbn [ser_ext is_dyna].
  - exists (var_slice (p_solution p)). rewrite <- ?app_assoc, ?app_nil_r. reflexivity.
  - exists (vector (d_witness d)). rewrite <- ?app_assoc, ?app_nil_r. reflexivity.
Qed.

(* ---------- block ---------- *)
Lemma ser_full_nonempty t : ser_full t <> [].
Proof.
  unfold ser_full, ser_tx. pose proof (le_enc_length 4 (t_version t)) as L.
  destruct (le_enc 4 (t_version t)); [discriminate L | discriminate].
Qed.

Theorem block_parse_ser b rest : wf_block b = true ->
  parse_block (ser_block b ++ rest) = Some (norm_block b, rest).
Proof.
  unfold wf_block. intro W. rewrite !andb_true_iff in W. destruct W as [[Wh Wn] Wt].
  rewrite forallb_forall in Wt.
  unfold parse_block, ser_block, bind. rewrite <- !app_assoc.
  rewrite header_parse_ser by exact Wh. rewrite p_varint_app by lia.
  rewrite (p_list_app_map ser_full norm_tx parse_tx);
    [reflexivity | intros a Ha r; apply tx_parse_ser; apply Wt; exact Ha | intros; apply ser_full_nonempty].
Qed.

Theorem block_ser_parse bs b rest : parse_block bs = Some (b, rest) ->
  forallb canonical_flag (b_txs b) = true -> ser_block b ++ rest = bs.
Proof.
  unfold parse_block, bind.
  destruct (parse_header bs) as [[h r1]|] eqn:A; [|discriminate].
  destruct (p_varint r1) as [[n r2]|] eqn:B; [|discriminate].
  destruct (p_list parse_tx n r2) as [[txs r3]|] eqn:C; [|discriminate].
  unfold ret. intro H; inversion H; subst. cbn [b_txs]. intro CF.
  apply header_ser_parse in A as [<- Wh]. apply p_varint_inv in B as [-> Wn].
  (* every parsed transaction with a canonical flag re-serializes to the bytes it consumed *)
  assert (G : forall fuel n bs l r, p_count parse_tx fuel n bs = Some (l, r) -> forallb canonical_flag l = true ->
              bs = enc_list ser_full l ++ r /\ lenL l = n).
  { induction fuel as [|f IH]; intros n0 bs0 l r Hc Hf; cbn [p_count] in Hc.
    - destruct (N.eqb_spec n0 0); [|discriminate]. inversion Hc; subst. cbn. auto.
    - destruct (N.eqb_spec n0 0). { inversion Hc; subst. cbn. auto. }
      destruct (parse_tx bs0) as [[a ra]|] eqn:P; [|discriminate].
      destruct (p_count parse_tx f (N.pred n0) ra) as [[l1 r2']|] eqn:Cn; [|discriminate].
      inversion Hc; subst. cbn [forallb] in Hf. apply andb_true_iff in Hf as [Fa Fl].
      apply tx_ser_parse in P; [|exact Fa]. apply IH in Cn as [-> Ll]; [|exact Fl].
      unfold enc_list; cbn [map concat]. rewrite <- app_assoc. split; [symmetry; exact P|].
      unfold lenL in *; cbn [length]; lia. }
  unfold p_list in C. apply G in C as [-> L]; [|exact CF].
  unfold ser_block. cbn [b_header b_txs]. rewrite L. rewrite <- !app_assoc. reflexivity.
Qed.
