(* Proofs/PsetV2Ex.v — non-vacuity examples, determinism, kinds and the refutation witnesses for the
   PSET v2 codec model.  Every witness is a closed computation checked by vm_compute. *)
From GE Require Import Lib.Bytes Lib.Varint Model.Tx Model.PsetV2 Proofs.PsetV2.
From Coq Require Import ZifyBool ZifyN ZifyNat Permutation.
Open Scope N_scope.

(* ================= E. examples, determinism, kinds, refutations ================= *)
Definition o_true : bytes -> bool := fun _ => true.
Definition o_id : bytes -> option bytes := fun b => Some b.
Notation parse_ex := (parse_pset o_true o_true o_true o_id).
Notation wf_ex := (wf_pset o_true o_true o_true o_id).

Definition ex_set (vs : list (nat * bytes)) (s : sec) : sec :=
  fold_left (fun s iv => set_val (fst iv) (snd iv) s) vs s.
Definition ex_setl (ls : list (nat * list mentry)) (s : sec) : sec :=
  fold_left (fun s il => set_list (fst il) (snd il) s) ls s.

Definition ex_global (nin nout : N) : sec :=
  ex_set [(gTxVersion, le_enc 4 2); (gVersion, le_enc 4 2);
          (gInputCount, if nin =? 0 then [] else le_enc 8 nin);
          (gOutputCount, if nout =? 0 then [] else le_enc 8 nout);
          (gTxModifiable, [x03]); (gFallback, le_enc 4 0)] (empty_sec global_tbl).
Definition ex_input_min : sec :=
  ex_set [(iPreviousTxid, repeat xaa 32); (14%nat, le_enc 4 1)] (empty_sec input_tbl).
Definition ex_input : sec :=
  let s := ex_setl [(9%nat, [(repeat x11 20, [x01; x02])]); (iTapLeafScript, [(xc4 :: repeat x07 32, [x51; xc4])])]
             (ex_set [(15%nat, le_enc 4 0xfffffffe); (iTimeLock, le_enc 4 500000001); (4%nat, [x51]);
                      (39%nat, [x01]); (27%nat, vector [[x01]; []])] ex_input_min) in
  mk_sec (s_vals s) (s_lists s) [mk_pd pset_magic 0x20 [x01] [x02]] [mk_kpair 0x30 [x05] [x06]].
Definition ex_output : sec :=
  ex_set [(oValue, le_enc 8 1000); (4%nat, [x51]); (oAsset, repeat x22 32); (oBlinderIndex, le_enc 4 7)]
         (empty_sec output_tbl).
Definition ex_pset : pset := mk_pset (ex_global 2 1) [ex_input; ex_input_min] [ex_output].

(* the hypotheses of pset_parse_ser are satisfiable by a packet with optional fields of every shape *)
Example ex_pset_wf : wf_ex ex_pset = true.
Proof. vm_compute. reflexivity. Qed.
Example ex_empty_wf : wf_ex (mk_pset (ex_global 0 0) [] []) = true.
Proof. vm_compute. reflexivity. Qed.

Lemma neq_by_eqb a b : bytes_eqb a b = false -> a <> b.
Proof. intros H E. subst. rewrite bytes_eqb_refl in H. discriminate. Qed.

(* ----- determinism ----- *)
(* two stores denote the same Go value when they agree everywhere except for the order in which
   the entries of the pre-image MAPS are listed *)
Fixpoint lists_equiv (tbl : list slot) (la lb : list (list mentry)) : Prop :=
  match tbl, la, lb with
  | sl :: t, a :: ra, b :: rb =>
      (match sl_k sl with MS (MMap _) => Permutation a b | _ => a = b end) /\ lists_equiv t ra rb
  | _, _, _ => la = lb
  end.
Fixpoint lists_small (tbl : list slot) (la : list (list mentry)) : Prop :=
  match tbl, la with
  | sl :: t, a :: ra => (match sl_k sl with MS (MMap _) => (length a <= 1)%nat | _ => True end) /\ lists_small t ra
  | _, _ => True
  end.
Definition sec_equiv (tbl : list slot) (a b : sec) : Prop :=
  s_vals a = s_vals b /\ lists_equiv tbl (s_lists a) (s_lists b) /\ s_props a = s_props b /\ s_unks a = s_unks b.
Definition pset_equiv (p q : pset) : Prop :=
  sec_equiv global_tbl (p_global p) (p_global q) /\
  Forall2 (sec_equiv input_tbl) (p_ins p) (p_ins q) /\ Forall2 (sec_equiv output_tbl) (p_outs p) (p_outs q).
Definition maps_small (p : pset) : Prop :=
  Forall (fun s => lists_small input_tbl (s_lists s)) (p_ins p) /\
  Forall (fun s => lists_small output_tbl (s_lists s)) (p_outs p) /\ lists_small global_tbl (s_lists (p_global p)).

Lemma lists_equiv_small tbl : forall la lb, lists_equiv tbl la lb -> lists_small tbl la -> la = lb.
Proof.
  induction tbl as [|sl t IH]; intros la lb E S; [destruct la; exact E|].
  destruct la as [|a ra]; [exact E|]. destruct lb as [|b rb]; [exact E|].
  cbn [lists_equiv lists_small] in E, S. destruct E as [E1 E2]. destruct S as [S1 S2].
  f_equal; [|apply IH; assumption].
  destruct (sl_k sl) as [k al|m]; [exact E1|]. destruct m; try exact E1.
  destruct a as [|x [|y a]]; [apply Permutation_nil in E1; congruence | | cbn in S1; lia].
  apply Permutation_length_1_inv in E1. congruence.
Qed.

Lemma sec_equiv_small tbl a b : sec_equiv tbl a b -> lists_small tbl (s_lists a) -> a = b.
Proof.
  intros (E1 & E2 & E3 & E4) S. apply lists_equiv_small in E2; [|exact S].
  destruct a, b; cbn in *; subst; reflexivity.
Qed.

Lemma forall2_equiv_small tbl : forall la lb,
  Forall2 (sec_equiv tbl) la lb -> Forall (fun s => lists_small tbl (s_lists s)) la -> la = lb.
Proof.
  induction 1 as [|a b la lb E _ IH]; intro S; [reflexivity|]. inversion S; subst.
  f_equal; [apply (sec_equiv_small tbl); assumption | apply IH; assumption].
Qed.

(* serialization is a function of the abstract packet as long as no pre-image map has two entries *)
Theorem ser_deterministic_partial p q : pset_equiv p q -> maps_small p -> ser_pset p = ser_pset q.
Proof.
  intros (Eg & Ei & Eo) (Si & So & Sg).
  apply sec_equiv_small in Eg; [|exact Sg].
  apply forall2_equiv_small in Ei; [|exact Si]. apply forall2_equiv_small in Eo; [|exact So].
  destruct p, q; cbn in *; subst; reflexivity.
Qed.

(* full statement (false of the code: Go map iteration order reaches the wire):
     forall p q, pset_equiv p q -> ser_pset p = ser_pset q *)
Definition ex_in_map (l : list mentry) : sec := ex_setl [(10%nat, l)] ex_input_min.
Definition ex_e1 : mentry := (repeat x01 32, [x0a]).
Definition ex_e2 : mentry := (repeat x02 32, [x0b]).
Theorem ser_deterministic_refuted :
  exists p q b1 b2, wf_ex p = true /\ wf_ex q = true /\ pset_equiv p q /\
                    ser_pset p = ROk b1 /\ ser_pset q = ROk b2 /\ b1 <> b2.
Proof.
  exists (mk_pset (ex_global 1 0) [ex_in_map [ex_e1; ex_e2]] []),
         (mk_pset (ex_global 1 0) [ex_in_map [ex_e2; ex_e1]] []).
  eexists. eexists. split; [vm_compute; reflexivity|]. split; [vm_compute; reflexivity|].
  split.
  { split; [repeat split|]. split; [|constructor]. constructor; [|constructor].
    unfold sec_equiv. split; [reflexivity|]. split; [|split; reflexivity].
    cbn. repeat split; first [reflexivity | apply perm_nil | apply perm_swap]. }
  split; [vm_compute; reflexivity|]. split; [vm_compute; reflexivity|].
  apply neq_by_eqb. vm_compute. reflexivity.
Qed.

(* ----- kinds ----- *)
Lemma map_norm_props tbl l : map s_props (map (norm_sec tbl) l) = map s_props l.
Proof. rewrite map_map. apply map_ext. intro a. reflexivity. Qed.
Lemma map_norm_unks tbl l : map s_unks (map (norm_sec tbl) l) = map s_unks l.
Proof. rewrite map_map. apply map_ext. intro a. reflexivity. Qed.

(* unknown and proprietary entries of a well-formed packet come back with kind, key and value intact *)
Theorem kinds_preserved pk der xo canon p : wf_pset pk der xo canon p = true ->
  exists bs p', ser_pset p = ROk bs /\ parse_pset pk der xo canon bs = ROk p' /\
    s_props (p_global p') = s_props (p_global p) /\ s_unks (p_global p') = s_unks (p_global p) /\
    map s_props (p_ins p') = map s_props (p_ins p) /\ map s_unks (p_ins p') = map s_unks (p_ins p) /\
    map s_props (p_outs p') = map s_props (p_outs p) /\ map s_unks (p_outs p') = map s_unks (p_outs p).
Proof.
  intro W. destruct (pset_parse_ser pk der xo canon p W) as (bs & S & P).
  exists bs, (norm_pset p). split; [exact S|]. split; [rewrite <- (app_nil_r bs); apply P|].
  unfold norm_pset. cbn [p_global p_ins p_outs norm_sec s_props s_unks].
  rewrite !map_norm_props, !map_norm_unks. repeat split; reflexivity.
Qed.

(* a proprietary entry under a foreign identifier is accepted and silently dropped by the parser *)
Definition ex_foreign_kp : kpair := mk_kpair 252 ([x03; x66; x6f; x6f; x07] ++ [x09]) [x0a; x0b].
Definition ex_stream (extra : list kpair) : bytes :=
  magic_sep ++ enc_kps ([mk_kpair 2 [] (le_enc 4 2); mk_kpair 4 [] [x00]; mk_kpair 5 [] [x00]; mk_kpair 251 [] (le_enc 4 2)] ++ extra)
            ++ [pset_sep].
Theorem foreign_proprietary_dropped_refuted :
  exists bs p bs', parse_ex bs = ROk p /\ ser_pset p = ROk bs' /\
     s_props (p_global p) = [] /\ s_unks (p_global p) = [] /\
     bs = ex_stream [ex_foreign_kp] /\ bs' = ex_stream [].
Proof. eexists. eexists. eexists. vm_compute. repeat split; reflexivity. Qed.

(* the serializer writes every ProprietaryData entry under the identifier "pset" whatever its Identifier says *)
Theorem foreign_proprietary_relabelled_refuted :
  exists p bs p', ser_pset p = ROk bs /\ parse_ex bs = ROk p' /\
     map pd_id (s_props (p_global p)) = [[x66; x6f; x6f]] /\ map pd_id (s_props (p_global p')) = [pset_magic].
Proof.
  exists (mk_pset (let g := ex_global 0 0 in mk_sec (s_vals g) (s_lists g) [mk_pd [x66; x6f; x6f] 0x20 [x01] [x02]] []) [] []).
  eexists. eexists. vm_compute. repeat split; reflexivity.
Qed.

(* ----- height locktime written under the time-locktime key (input.go:619) ----- *)
Theorem height_locktime_refuted :
  exists p bs p', ser_pset p = ROk bs /\ parse_ex bs = ROk p' /\
     map (val_at iHeightLock) (p_ins p) = [le_enc 4 100] /\ map (val_at iTimeLock) (p_ins p) = [[]] /\
     map (val_at iHeightLock) (p_ins p') = [[]] /\ map (val_at iTimeLock) (p_ins p') = [le_enc 4 100].
Proof.
  exists (mk_pset (ex_global 1 0) [ex_set [(iHeightLock, le_enc 4 100)] ex_input_min] []).
  eexists. eexists. vm_compute. repeat split; reflexivity.
Qed.
(* with both locktimes set the library rejects its own serialization (duplicated time locktime) *)
Theorem both_locktimes_refuted :
  exists p bs, ser_pset p = ROk bs /\ parse_ex bs = RErr.
Proof.
  exists (mk_pset (ex_global 1 0) [ex_set [(iHeightLock, le_enc 4 100); (iTimeLock, le_enc 4 500000001)] ex_input_min] []).
  eexists. vm_compute. split; reflexivity.
Qed.

(* ----- peg-in value: the emitter writes into a nil slice (input.go:729) ----- *)
Theorem pegin_value_refuted :
  exists p, ser_pset p = RPanic /\ wf_ex (mk_pset (p_global p) [ex_input_min] []) = true /\
            p_ins p = [ex_set [(iPeginValue, le_enc 8 5)] ex_input_min].
Proof.
  exists (mk_pset (ex_global 1 0) [ex_set [(iPeginValue, le_enc 8 5)] ex_input_min] []).
  vm_compute. repeat split; reflexivity.
Qed.

(* ----- one-byte counts: 253 sections are accepted on parse (count byte 0xfd) but the re-serialization
   writes the count as a 3-byte compact size, which the parser rejects ----- *)
Definition ex_stream_253 : bytes :=
  magic_sep ++ enc_kps [mk_kpair 2 [] (le_enc 4 2); mk_kpair 4 [] [xfd]; mk_kpair 5 [] [x00]; mk_kpair 251 [] (le_enc 4 2)]
            ++ [pset_sep]
            ++ concat (repeat (enc_kps [mk_kpair 14 [] (repeat xaa 32); mk_kpair 15 [] (le_enc 4 1)] ++ [pset_sep]) 253).
Theorem count_253_refuted :
  exists p bs', parse_ex ex_stream_253 = ROk p /\ lenL (p_ins p) = 253 /\
                ser_pset p = ROk bs' /\ parse_ex bs' = RErr.
Proof. eexists. eexists. vm_compute. repeat split; reflexivity. Qed.
