(* Proofs/PsetV2Ex.v — non-vacuity examples, determinism, kinds and the refutation witnesses for the
   PSET v2 codec model.  Every witness is a closed computation checked by vm_compute. *)
From GE Require Import Lib.Bytes Lib.Varint Model.Tx Model.PsetV2 Proofs.PsetV2.
From Coq Require Import ZifyBool ZifyN ZifyNat Permutation.
Open Scope N_scope.

(* ================= E. examples, determinism, kinds, refutations ================= *)
Definition o_true : bytes -> bool := fun _ => true.
Definition o_id : bytes -> option bytes := fun b => Some b.
Notation parse_ex := (parse_pset o_true o_true o_true o_id).
Notation wf_ex := (wf_pset o_true o_true o_true o_id).

Definition ex_set (vs : list (nat * bytes)) (s : sec) : sec :=
  fold_left (fun s iv => set_val (fst iv) (snd iv) s) vs s.
Definition ex_setl (ls : list (nat * list mentry)) (s : sec) : sec :=
  fold_left (fun s il => set_list (fst il) (snd il) s) ls s.

Definition ex_global (nin nout : N) : sec :=
  ex_set [(gTxVersion, le_enc 4 2); (gVersion, le_enc 4 2);
          (gInputCount, if nin =? 0 then [] else le_enc 8 nin);
          (gOutputCount, if nout =? 0 then [] else le_enc 8 nout);
          (gTxModifiable, [x03]); (gFallback, le_enc 4 0)] (empty_sec global_tbl).
Definition ex_input_min : sec :=
  ex_set [(iPreviousTxid, repeat xaa 32); (14%nat, le_enc 4 1)] (empty_sec input_tbl).
Definition ex_input : sec :=
  let s := ex_setl [(9%nat, [(repeat x11 20, [x01; x02])]); (iTapLeafScript, [(xc4 :: repeat x07 32, [x51; xc4])])]
             (ex_set [(15%nat, le_enc 4 0xfffffffe); (iTimeLock, le_enc 4 500000001); (4%nat, [x51]);
                      (39%nat, [x01]); (27%nat, vector [[x01]; []])] ex_input_min) in
  mk_sec (s_vals s) (s_lists s) [mk_pd pset_magic 0x20 [x01] [x02]] [mk_kpair 0x30 [x05] [x06]].
Definition ex_output : sec :=
  ex_set [(oValue, le_enc 8 1000); (4%nat, [x51]); (oAsset, repeat x22 32); (oBlinderIndex, le_enc 4 7)]
         (empty_sec output_tbl).
Definition ex_pset : pset := mk_pset (ex_global 2 1) [ex_input; ex_input_min] [ex_output].

(* the hypotheses of pset_parse_ser are satisfiable by a packet with optional fields of every shape *)
Example ex_pset_wf : wf_ex ex_pset = true.
Proof. vm_compute. reflexivity. Qed.
Example ex_empty_wf : wf_ex (mk_pset (ex_global 0 0) [] []) = true.
Proof. vm_compute. reflexivity. Qed.

Lemma neq_by_eqb a b : bytes_eqb a b = false -> a <> b.
Proof. intros H E. subst. rewrite bytes_eqb_refl in H. discriminate. Qed.

(* ----- determinism ----- *)
(* two stores denote the same Go value when they agree everywhere except for the order in which
   the entries of the pre-image MAPS are listed (a Go map has no order) *)
Fixpoint lists_equiv (tbl : list slot) (la lb : list (list mentry)) : Prop :=
  match tbl, la, lb with
  | sl :: t, a :: ra, b :: rb =>
      (match sl_k sl with MS (MMap _) => Permutation a b | _ => a = b end) /\ lists_equiv t ra rb
  | _, _, _ => la = lb
  end.
(* the keys of a Go map are pairwise distinct; for keys of one length that is: distinct as numbers *)
Fixpoint lists_distinct (tbl : list slot) (la : list (list mentry)) : Prop :=
  match tbl, la with
  | sl :: t, a :: ra => (match sl_k sl with MS (MMap _) => NoDup (map key_num a) | _ => True end) /\ lists_distinct t ra
  | _, _ => True
  end.
Definition sec_equiv (tbl : list slot) (a b : sec) : Prop :=
  s_vals a = s_vals b /\ lists_equiv tbl (s_lists a) (s_lists b) /\ s_props a = s_props b /\ s_unks a = s_unks b.
Definition pset_equiv (p q : pset) : Prop :=
  sec_equiv global_tbl (p_global p) (p_global q) /\
  Forall2 (sec_equiv input_tbl) (p_ins p) (p_ins q) /\ Forall2 (sec_equiv output_tbl) (p_outs p) (p_outs q).
Definition maps_distinct (p : pset) : Prop :=
  Forall (fun s => lists_distinct input_tbl (s_lists s)) (p_ins p) /\
  Forall (fun s => lists_distinct output_tbl (s_lists s)) (p_outs p) /\ lists_distinct global_tbl (s_lists (p_global p)).

(* insertion sort by key: permutation, sorted, unique *)
Fixpoint ssorted (l : list mentry) : Prop :=
  match l with [] => True | x :: r => (forall y, In y r -> key_num x < key_num y) /\ ssorted r end.

Lemma ins_perm e l : Permutation (ins_entry e l) (e :: l).
Proof.
  induction l as [|x r IH]; [reflexivity|]. cbn [ins_entry]. destruct (key_num e <? key_num x); [reflexivity|].
  rewrite IH. apply perm_swap.
Qed.
Lemma sort_perm l : Permutation (sort_entries l) l.
Proof. induction l as [|e l IH]; [reflexivity|]. cbn [sort_entries fold_right]. rewrite ins_perm. constructor. exact IH. Qed.

Lemma ins_sorted e l : ssorted l -> (forall y, In y l -> key_num y <> key_num e) -> ssorted (ins_entry e l).
Proof.
  induction l as [|x r IH]; intros S D; [cbn; split; [intros y []|exact I]|].
  cbn [ssorted] in S. destruct S as [Sx Sr]. cbn [ins_entry].
  destruct (N.ltb_spec (key_num e) (key_num x)) as [L|L].
  - cbn [ssorted]. split; [|split; assumption].
    intros y [<-|Hy]; [exact L | pose proof (Sx y Hy); lia].
  - assert (key_num x <> key_num e) by (apply D; left; reflexivity).
    cbn [ssorted]. split.
    + intros y Hy. apply (Permutation_in _ (ins_perm e r)) in Hy. destruct Hy as [<-|Hy]; [lia | apply Sx; exact Hy].
    + apply IH; [exact Sr | intros y Hy; apply D; right; exact Hy].
Qed.
Lemma sort_sorted l : NoDup (map key_num l) -> ssorted (sort_entries l).
Proof.
  induction l as [|e l IH]; intro ND; [exact I|]. cbn [map] in ND. inversion ND as [|? ? Hn ND']; subst.
  cbn [sort_entries fold_right]. apply ins_sorted; [apply IH; exact ND'|].
  intros y Hy E. apply Hn. apply (Permutation_in _ (sort_perm l)) in Hy. rewrite <- E. apply in_map. exact Hy.
Qed.
Lemma sorted_perm_eq : forall a b, ssorted a -> ssorted b -> Permutation a b -> a = b.
Proof.
  induction a as [|x a IH]; intros b Sa Sb P.
  - apply Permutation_nil in P. congruence.
  - destruct b as [|y b]; [apply Permutation_sym, Permutation_nil in P; discriminate|].
    cbn [ssorted] in Sa, Sb. destruct Sa as [Sx Sa]. destruct Sb as [Sy Sb].
    assert (x = y).
    { assert (Hx : In x (y :: b)) by (apply (Permutation_in _ P); left; reflexivity).
      assert (Hy : In y (x :: a)) by (apply (Permutation_in _ (Permutation_sym P)); left; reflexivity).
      destruct Hx as [E|Hx]; [congruence|]. destruct Hy as [E|Hy]; [congruence|].
      pose proof (Sx y Hy). pose proof (Sy x Hx). lia. }
    subst y. f_equal. apply IH; [exact Sa | exact Sb | apply (Permutation_cons_inv P)].
Qed.
Lemma sort_perm_unique a b : Permutation a b -> NoDup (map key_num a) -> sort_entries a = sort_entries b.
Proof.
  intros P ND. apply sorted_perm_eq.
  - apply sort_sorted. exact ND.
  - apply sort_sorted. apply (Permutation_NoDup (Permutation_map key_num P) ND).
  - rewrite !sort_perm. exact P.
Qed.

(* what a slot writes depends on the store only through its value / its entries as a finite map *)
Lemma emit_equiv tbl : forall la lb, lists_equiv tbl la lb -> lists_distinct tbl la ->
  forall k sl, nth_error tbl k = Some sl ->
    match sl_k sl with MS m => m_emit m (nth k la []) = m_emit m (nth k lb []) | SS _ _ => True end.
Proof.
  induction tbl as [|s0 t IH]; intros la lb E D k sl Hk; [destruct k; discriminate|].
  destruct la as [|a ra]; [cbn in E; subst lb; destruct (sl_k sl); auto|].
  destruct lb as [|b rb]; [cbn in E; discriminate|].
  cbn [lists_equiv lists_distinct] in E, D. destruct E as [E1 E2]. destruct D as [D1 D2].
  destruct k as [|k].
  - cbn in Hk. inversion Hk; subst s0. cbn [nth]. destruct (sl_k sl) as [|m]; [exact I|].
    destruct m; cbn [m_emit]; try (rewrite E1; reflexivity). apply sort_perm_unique; assumption.
  - cbn [nth_error nth] in *. apply (IH ra rb E2 D2 k sl Hk).
Qed.

Lemma emit_slots_equiv a b : s_vals a = s_vals b ->
  forall suf i, (forall k sl, nth_error suf k = Some sl ->
      match sl_k sl with MS m => m_emit m (list_at (i + k) a) = m_emit m (list_at (i + k) b) | SS _ _ => True end) ->
  emit_slots i suf a = emit_slots i suf b.
Proof.
  intro V. induction suf as [|sl suf IH]; intros i H; [reflexivity|].
  cbn [emit_slots].
  assert (E0 : emit_slot i sl a = emit_slot i sl b).
  { unfold emit_slot, val_at. rewrite V. pose proof (H 0%nat sl eq_refl) as H0. rewrite Nat.add_0_r in H0.
    destruct (sl_k sl); [reflexivity|]. rewrite H0. reflexivity. }
  rewrite E0. rewrite (IH (S i)); [reflexivity|].
  intros k s1 Hk. pose proof (H (S k) s1 Hk) as Hs. rewrite Nat.add_succ_r in Hs. exact Hs.
Qed.

Lemma ser_section_equiv tbl a b : sec_equiv tbl a b -> lists_distinct tbl (s_lists a) ->
  ser_section tbl a = ser_section tbl b.
Proof.
  intros (V & L & P & U) D. unfold ser_section, kps_of.
  rewrite (emit_slots_equiv a b V tbl 0), P, U; [reflexivity|].
  intros k sl Hk. cbn [Nat.add]. unfold list_at. apply (emit_equiv tbl _ _ L D k sl Hk).
Qed.
Lemma ser_secs_equiv tbl : forall la lb, Forall2 (sec_equiv tbl) la lb ->
  Forall (fun s => lists_distinct tbl (s_lists s)) la -> ser_secs tbl la = ser_secs tbl lb.
Proof.
  induction 1 as [|a b la lb E _ IH]; intro D; [reflexivity|]. inversion D; subst.
  cbn [ser_secs]. rewrite (ser_section_equiv tbl a b) by assumption. rewrite IH by assumption. reflexivity.
Qed.

(* serialization is a function of the abstract packet: packets that differ only in the listing
   order of their pre-image maps serialize to the same bytes *)
Theorem ser_deterministic p q : pset_equiv p q -> maps_distinct p -> ser_pset p = ser_pset q.
Proof.
  intros (Eg & Ei & Eo) (Di & Do & Dg). unfold ser_pset.
  rewrite (ser_section_equiv global_tbl _ _ Eg Dg), (ser_secs_equiv input_tbl _ _ Ei Di), (ser_secs_equiv output_tbl _ _ Eo Do).
  reflexivity.
Qed.

(* the emitter cannot fail any more: every packet serializes *)
Lemma emit_slots_total s : forall suf i, exists kps, emit_slots i suf s = ROk kps.
Proof.
  induction suf as [|sl suf IH]; intro i; [exists []; reflexivity|].
  destruct (IH (S i)) as (kb & Eb). cbn [emit_slots]. unfold emit_slot at 1.
  destruct (sl_k sl) as [k al|m].
  - destruct (s_emits k al (val_at i s)); rewrite Eb; cbn [cbind]; eexists; reflexivity.
  - rewrite Eb. cbn [cbind]. eexists; reflexivity.
Qed.
Lemma ser_section_total tbl s : exists bs, ser_section tbl s = ROk bs.
Proof. unfold ser_section, kps_of. destruct (emit_slots_total s tbl 0) as (k & ->). cbn [cbind]. eexists; reflexivity. Qed.
Lemma ser_secs_total tbl l : exists bs, ser_secs tbl l = ROk bs.
Proof.
  induction l as [|s l [b IH]]; [exists []; reflexivity|]. cbn [ser_secs].
  destruct (ser_section_total tbl s) as (a & ->). rewrite IH. cbn [cbind]. eexists; reflexivity.
Qed.
Theorem ser_pset_total p : exists bs, ser_pset p = ROk bs.
Proof.
  unfold ser_pset. destruct (ser_section_total global_tbl (p_global p)) as (g & ->).
  destruct (ser_secs_total input_tbl (p_ins p)) as (i & ->). destruct (ser_secs_total output_tbl (p_outs p)) as (o & ->).
  cbn [cbind]. eexists; reflexivity.
Qed.

(* ----- kinds ----- *)
Lemma map_norm_props tbl l : map s_props (map (norm_sec tbl) l) = map (fun s => map norm_pd (s_props s)) l.
Proof. rewrite map_map. apply map_ext. intro a. reflexivity. Qed.
Lemma map_norm_unks tbl l : map s_unks (map (norm_sec tbl) l) = map s_unks l.
Proof. rewrite map_map. apply map_ext. intro a. reflexivity. Qed.

(* unknown and proprietary entries of a well-formed packet (proprietary ones of ANY identifier) come
   back in their list, in order, with key and value intact; an empty Identifier reads back as "pset" *)
Theorem kinds_preserved pk der xo canon p : wf_pset pk der xo canon p = true ->
  exists bs p', ser_pset p = ROk bs /\ parse_pset pk der xo canon bs = ROk p' /\
    s_props (p_global p') = map norm_pd (s_props (p_global p)) /\ s_unks (p_global p') = s_unks (p_global p) /\
    map s_props (p_ins p') = map (fun s => map norm_pd (s_props s)) (p_ins p) /\ map s_unks (p_ins p') = map s_unks (p_ins p) /\
    map s_props (p_outs p') = map (fun s => map norm_pd (s_props s)) (p_outs p) /\ map s_unks (p_outs p') = map s_unks (p_outs p).
Proof.
  intro W. destruct (pset_parse_ser pk der xo canon p W) as (bs & S & P).
  exists bs, (norm_pset p). split; [exact S|]. split; [rewrite <- (app_nil_r bs); apply P|].
  unfold norm_pset. cbn [p_global p_ins p_outs norm_sec s_props s_unks].
  rewrite !map_norm_props, !map_norm_unks. repeat split; reflexivity.
Qed.

(* ----- closed computations (vm_compute) ----- *)
Definition is_ok {A} (x : cres A) : bool := match x with ROk _ => true | _ => false end.
Definition is_err {A} (x : cres A) : bool := match x with RErr => true | _ => false end.
Definition ser_or_nil (p : pset) : bytes := match ser_pset p with ROk b => b | _ => [] end.
(* wf, and the serialization parses back to a packet that serializes to the same bytes *)
Definition rt_check (p : pset) : bool :=
  wf_ex p && match ser_pset p with
             | ROk bs => match parse_ex bs with
                         | ROk p' => bytes_eqb (ser_or_nil p') bs && bytes_eqb (ser_or_nil (norm_pset p)) bs
                         | _ => false end
             | _ => false end.

(* the packets that were refutation witnesses before the repairs are ordinary well-formed packets now *)
Definition ex_height : pset := mk_pset (ex_global 1 0) [ex_set [(iHeightLock, le_enc 4 100)] ex_input_min] [].
Definition ex_both : pset :=
  mk_pset (ex_global 1 0) [ex_set [(iHeightLock, le_enc 4 100); (iTimeLock, le_enc 4 500000001)] ex_input_min] [].
Definition ex_pegin : pset := mk_pset (ex_global 1 0) [ex_set [(iPeginValue, le_enc 8 5)] ex_input_min] [].
Definition ex_in_map (l : list mentry) : sec := ex_setl [(10%nat, l)] ex_input_min.
Definition ex_e1 : mentry := (repeat x01 32, [x0a]).
Definition ex_e2 : mentry := (repeat x02 32, [x0b]).
Definition ex_map12 : pset := mk_pset (ex_global 1 0) [ex_in_map [ex_e1; ex_e2]] [].
Definition ex_map21 : pset := mk_pset (ex_global 1 0) [ex_in_map [ex_e2; ex_e1]] [].
Definition ex_foo : bytes := [x66; x6f; x6f].
Definition ex_foreign : pset :=
  mk_pset (let g := ex_global 0 0 in mk_sec (s_vals g) (s_lists g)
             [mk_pd ex_foo 0x01 [x01] [x02]; mk_pd pset_magic 0x20 [] [x03]; mk_pd [] 0x21 [x04] []] []) [] [].
Example ex_height_rt : rt_check ex_height = true. Proof. vm_compute. reflexivity. Qed.
Example ex_both_rt : rt_check ex_both = true. Proof. vm_compute. reflexivity. Qed.
Example ex_pegin_rt : rt_check ex_pegin = true. Proof. vm_compute. reflexivity. Qed.
Example ex_map12_rt : rt_check ex_map12 = true. Proof. vm_compute. reflexivity. Qed.
Example ex_map21_rt : rt_check ex_map21 = true. Proof. vm_compute. reflexivity. Qed.
Example ex_map_same_bytes : bytes_eqb (ser_or_nil ex_map12) (ser_or_nil ex_map21) = true. Proof. vm_compute. reflexivity. Qed.
Example ex_foreign_rt : rt_check ex_foreign = true. Proof. vm_compute. reflexivity. Qed.

(* 253 sections: the count is written as a 3-byte compact size and read back *)
Definition ex_stream_253 : bytes :=
  magic_sep ++ enc_kps [mk_kpair 2 [] (le_enc 4 2); mk_kpair 4 [] [xfd; xfd; x00]; mk_kpair 5 [] [x00]; mk_kpair 251 [] (le_enc 4 2)]
            ++ [pset_sep]
            ++ concat (repeat (enc_kps [mk_kpair 14 [] (repeat xaa 32); mk_kpair 15 [] (le_enc 4 1)] ++ [pset_sep]) 253).
Definition count_check (bs : bytes) : bool :=
  match parse_ex bs with
  | ROk p => (lenL (p_ins p) =? 253) && wf_ex p && bytes_eqb (ser_or_nil p) bs
  | _ => false end.
Example ex_count_253 : count_check ex_stream_253 = true. Proof. vm_compute. reflexivity. Qed.
(* a one-byte count 0xfd is no longer a count *)
Example ex_count_byte_fd :
  is_err (parse_ex (magic_sep ++ enc_kps [mk_kpair 2 [] (le_enc 4 2); mk_kpair 4 [] [xfd]; mk_kpair 251 [] (le_enc 4 2)] ++ [pset_sep])) = true.
Proof. vm_compute. reflexivity. Qed.

(* a proprietary entry of a foreign identifier in a stream is kept and written back unchanged *)
Definition ex_foreign_kp : kpair := mk_kpair 252 ([x03; x66; x6f; x6f; x07] ++ [x09]) [x0a; x0b].
Definition ex_stream (extra : list kpair) : bytes :=
  magic_sep ++ enc_kps ([mk_kpair 2 [] (le_enc 4 2); mk_kpair 4 [] [x00]; mk_kpair 5 [] [x00]; mk_kpair 251 [] (le_enc 4 2)] ++ extra)
            ++ [pset_sep].
Definition foreign_kept_check : bool :=
  match parse_ex (ex_stream [ex_foreign_kp]) with
  | ROk p => match s_props (p_global p) with
             | [pd] => bytes_eqb (pd_id pd) ex_foo && (pd_sub pd =? 7) && bytes_eqb (pd_kd pd) [x09] &&
                       bytes_eqb (ser_or_nil p) (ex_stream [ex_foreign_kp])
             | _ => false end
  | _ => false end.
Example ex_foreign_kept : foreign_kept_check = true. Proof. vm_compute. reflexivity. Qed.

(* ----- repaired by 2b1b006: a derivation with an empty path, a 44-byte witness UTXO ----- *)
Definition ex_pubkey : bytes := x02 :: repeat x11 32.
Definition ex_empty_path : pset :=
  mk_pset (ex_global 1 0) [ex_setl [(6%nat, [(ex_pubkey, le_enc 4 7)])] ex_input_min] [].
Definition ex_txout44 : bytes := (x01 :: repeat x33 32) ++ (x01 :: repeat x00 8) ++ [x00] ++ [x00].
Definition ex_short_utxo : pset := mk_pset (ex_global 1 0) [ex_set [(iWitnessUtxo, ex_txout44)] ex_input_min] [].
Example ex_empty_path_rt : rt_check ex_empty_path = true. Proof. vm_compute. reflexivity. Qed.
Example ex_short_utxo_rt : rt_check ex_short_utxo = true. Proof. vm_compute. reflexivity. Qed.

(* ----- what is still outside: parse, serialize, parse is NOT the identity on every accepted encoding.
   readTxOut ignores the bytes after the script and asks for 44 bytes in total: an output with a null
   (one-byte) value encodes to 36 bytes; followed by eight stray bytes it is accepted, re-serialized as
   36 bytes and then rejected.  (Null values belong to issuances; no output of a transaction has one.) *)
Definition ex_txout36 : bytes := (x01 :: repeat x33 32) ++ [x00] ++ [x00] ++ [x00].
Definition ex_stream_utxo_trailing : bytes :=
  magic_sep ++ enc_kps [mk_kpair 2 [] (le_enc 4 2); mk_kpair 4 [] [x01]; mk_kpair 5 [] [x00]; mk_kpair 251 [] (le_enc 4 2)] ++ [pset_sep]
            ++ enc_kps [mk_kpair 1 [] (ex_txout36 ++ repeat xee 8); mk_kpair 14 [] (repeat xaa 32); mk_kpair 15 [] (le_enc 4 1)] ++ [pset_sep].
Definition psp_check (bs : bytes) : bool :=
  match parse_ex bs with
  | ROk p => match ser_pset p with ROk bs' => is_err (parse_ex bs') | _ => false end
  | _ => false end.
Lemma psp_check_elim bs : psp_check bs = true ->
  exists p bs', parse_ex bs = ROk p /\ ser_pset p = ROk bs' /\ parse_ex bs' = RErr.
Proof.
  unfold psp_check. intro H. destruct (parse_ex bs) as [p| |] eqn:P; try discriminate.
  destruct (ser_pset p) as [bs'| |] eqn:S; try discriminate. exists p, bs'.
  split; [reflexivity|]. split; [exact S|]. destruct (parse_ex bs'); try discriminate. reflexivity.
Qed.
Lemma utxo_trailing_check : psp_check ex_stream_utxo_trailing = true. Proof. vm_compute. reflexivity. Qed.
Theorem witness_utxo_trailing_refuted :
  exists p bs', parse_ex ex_stream_utxo_trailing = ROk p /\ ser_pset p = ROk bs' /\ parse_ex bs' = RErr.
Proof. exact (psp_check_elim ex_stream_utxo_trailing utxo_trailing_check). Qed.

(* ================= F. ties to the constants regenerated from /repo ================= *)
From GE Require Import Gen.PsetV2Consts Gen.PsetV2GlobalConsts Gen.PsetV2InputConsts Gen.PsetV2OutputConsts.
Open Scope N_scope.

Definition key_of (tbl : list slot) (i : nat) : option keyid := option_map sl_dkey (nth_error tbl i).
Definition mismatched (tbl : list slot) : list keyid :=
  map sl_dkey (filter (fun sl => negb (keyid_eqb (sl_ekey sl) (sl_dkey sl))) tbl).

(* magic, separator, key-length guard and proprietary marker are today's source constants; per section
   the decode labels are pairwise distinct one-byte keys; the emit table and the decode table use the
   same constant for every field; the positions the sanity checks read
   are the fields they name *)
Definition pset_tables_tied : Prop :=
  pset_magic = [x70; x73; x65; x74] /\ pset_sep = x00 /\ maxKeyLen = 10000 /\ PsetProprietary = 252 /\
  tbl_ok global_tbl = true /\ tbl_ok input_tbl = true /\ tbl_ok output_tbl = true /\
  mismatched global_tbl = [] /\ mismatched output_tbl = [] /\
  mismatched input_tbl = [] /\
  key_of global_tbl gXpubs = Some (kS g_GlobalXpub) /\ key_of global_tbl gTxVersion = Some (kS g_GlobalTxVersion) /\
  key_of global_tbl gInputCount = Some (kS g_GlobalInputCount) /\ key_of global_tbl gOutputCount = Some (kS g_GlobalOutputCount) /\
  key_of global_tbl gTxModifiable = Some (kS g_GlobalTxModifiable) /\ key_of global_tbl gScalars = Some (kP g_GlobalScalar) /\
  key_of global_tbl gVersion = Some (kS g_GlobalVersion) /\ key_of global_tbl gModifiable = Some (kP g_GlobalModifiable) /\
  key_of input_tbl iWitnessUtxo = Some (kS g_InputWitnessUtxo) /\ key_of input_tbl iWitnessScript = Some (kS g_InputWitnessScript) /\
  key_of input_tbl iFinalScriptWitness = Some (kS g_InputFinalScriptwitness) /\ key_of input_tbl iPreviousTxid = Some (kS g_InputPreviousTxid) /\
  key_of input_tbl iTimeLock = Some (kS g_InputRequiredTimeLocktime) /\ key_of input_tbl iHeightLock = Some (kS g_InputRequiredHeightLocktime) /\
  key_of input_tbl iIssuanceValue = Some (kP g_InputIssuanceValue) /\ key_of input_tbl iIssuanceValueCommitment = Some (kP g_InputIssuanceValueCommitment) /\
  key_of input_tbl iPeginValue = Some (kP g_InputPeginValue) /\
  key_of input_tbl iIssuanceInflationKeys = Some (kP g_InputIssuanceInflationKeys) /\
  key_of input_tbl iIssuanceInflationKeysCommitment = Some (kP g_InputIssuanceInflationKeysCommitment) /\
  key_of input_tbl iIssuanceBlindValueProof = Some (kP g_InputIssuanceBlindValueProof) /\
  key_of input_tbl iIssuanceBlindInflationKeysProof = Some (kP g_InputIssuanceBlindInflationKeysProof) /\
  key_of input_tbl iExplicitValue = Some (kP g_InputExplicitValue) /\ key_of input_tbl iValueProof = Some (kP g_InputValueProof) /\
  key_of input_tbl iExplicitAsset = Some (kP g_InputExplicitAsset) /\ key_of input_tbl iAssetProof = Some (kP g_InputAssetProof) /\
  key_of input_tbl iTapKeySig = Some (kS g_InputTapKeySig) /\ key_of input_tbl iTapScriptSig = Some (kS g_InputTapScriptSig) /\
  key_of input_tbl iTapLeafScript = Some (kS g_InputTapLeafScript) /\ key_of input_tbl iTapBip32 = Some (kS g_InputTapBip32Derivation) /\
  key_of input_tbl iTapInternalKey = Some (kS g_InputTapInternalKey) /\ key_of input_tbl iTapMerkleRoot = Some (kS g_InputTapMerkleRoot) /\
  key_of output_tbl oValue = Some (kS g_OutputAmount) /\ key_of output_tbl oValueCommitment = Some (kP g_OutputValueCommitment) /\
  key_of output_tbl oAssetCommitment = Some (kP g_OutputAssetCommitment) /\ key_of output_tbl oAsset = Some (kP g_OutputAsset) /\
  key_of output_tbl oValueRangeproof = Some (kP g_OutputValueRangeproof) /\
  key_of output_tbl oAssetSurjectionProof = Some (kP g_OutputAssetSurjectionProof) /\
  key_of output_tbl oBlindingPubkey = Some (kP g_OutputBlindingPubkey) /\ key_of output_tbl oEcdhPubkey = Some (kP g_OutputEcdhPubkey) /\
  key_of output_tbl oBlinderIndex = Some (kP g_OutputBlinderIndex) /\ key_of output_tbl oBlindValueProof = Some (kP g_OutputBlindValueProof) /\
  key_of output_tbl oBlindAssetProof = Some (kP g_OutputBlindAssetProof).
Lemma pset_tables_tied_holds : pset_tables_tied.
Proof. unfold pset_tables_tied. repeat split; vm_compute; reflexivity. Qed.

(* ================= G. parse, serialize, parse ================= *)
(* full statement (false, see witness_utxo_trailing_refuted; true under pset_ext, see PsetV2Inv.v):
     forall bs p, parse_pset bs = ROk p -> exists bs', ser_pset p = ROk bs' /\ parse_pset bs' = ROk (norm_pset p)
   proved: the statement for accepted encodings whose packet lies in the round-trip domain. *)
Theorem pset_parse_ser_parse_partial pk der xo canon bs p :
  parse_pset pk der xo canon bs = ROk p -> wf_pset pk der xo canon p = true ->
  exists bs', ser_pset p = ROk bs' /\ parse_pset pk der xo canon bs' = ROk (norm_pset p).
Proof.
  intros _ W. destruct (pset_parse_ser pk der xo canon p W) as (bs' & S & P).
  exists bs'. split; [exact S|]. rewrite <- (app_nil_r bs'). apply P.
Qed.
