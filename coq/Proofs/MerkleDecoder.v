(* Proofs/MerkleDecoder.v — C12 for the merkle-block decoder: extension-stability of the blob
   parser, no strict prefix of a valid encoding is accepted (trailing bytes are ignored, as
   block.NewMerkleBlockFromBuffer does), what is accepted is a complete encoding, the memory
   requested is bounded, and ExtractMatches never indexes out of range (the index-cursor model
   of Model/MerkleIx.v computes what the suffix model of Model/Merkle.v computes). *)
From GE Require Import Lib.Bytes Lib.Varint Lib.Sha256 Model.Merkle Model.MerkleIx Proofs.Decoders Proofs.Merkle.
From Coq Require Import ZifyBool ZifyN ZifyNat.
Open Scope N_scope.

(* ---------- the blob parser ---------- *)
Lemma stable_pfail {A} : stable (@pfail A).
Proof. intros bs a r s E. discriminate E. Qed.

Theorem stable_parse_merkle_block : stable parse_merkle_block.
Proof.
  unfold parse_merkle_block.
  apply stable_bind; [apply stable_take | intro hd]. apply stable_bind; [apply stable_p_le | intro cnt].
  apply stable_bind; [apply stable_p_varint | intro nh].
  destruct (wire_max_hashes <? nh); [apply stable_pfail|].
  apply stable_bind; [apply stable_p_list, stable_take | intro hs].
  apply stable_bind; [apply stable_p_varint | intro nf].
  destruct (wire_max_flags <? nf); [apply stable_pfail|].
  apply stable_bind; [apply stable_takeN | intro fl]. apply stable_ret.
Qed.

(* what the wire format can carry *)
Definition wf_mb (m : merkle_block) : Prop :=
  length (mb_header m) = 80%nat /\ mb_count m < two32 /\
  Forall (fun h => length h = 32%nat) (mb_hashes m) /\
  lenL (mb_hashes m) <= wire_max_hashes /\ lenN (mb_flags m) <= wire_max_flags.

(* every accepted input starts with the complete encoding of the value returned *)
Theorem parse_merkle_block_inv bs m r :
  parse_merkle_block bs = Some (m, r) -> bs = ser_merkle_block m ++ r /\ wf_mb m.
Proof.
  unfold parse_merkle_block, bind. intro P.
  destruct (take 80 bs) as [[hd r1]|] eqn:E1; [|discriminate].
  destruct (p_le 4 r1) as [[cnt r2]|] eqn:E2; [|discriminate].
  destruct (p_varint r2) as [[nh r3]|] eqn:E3; [|discriminate].
  destruct (N.ltb_spec wire_max_hashes nh) as [|Hnh]; [discriminate|].
  destruct (p_list (take 32) nh r3) as [[hs r4]|] eqn:E4; [|discriminate].
  destruct (p_varint r4) as [[nf r5]|] eqn:E5; [|discriminate].
  destruct (N.ltb_spec wire_max_flags nf) as [|Hnf]; [discriminate|].
  destruct (takeN nf r5) as [[fl r6]|] eqn:E6; [|discriminate].
  unfold ret in P. injection P as <- <-.
  apply take_inv in E1 as [-> L1]. apply p_le_inv in E2 as [-> B2]. apply p_varint_inv in E3 as [-> B3].
  apply (p_list_inv (fun x : bytes => x) (take 32) (fun x => length x = 32%nat)) in E4 as [-> [L4 F4]];
    [|intros b a q T; apply take_inv in T; exact T].
  apply p_varint_inv in E5 as [-> B5]. apply takeN_inv in E6 as [-> L6].
  split.
  - unfold ser_merkle_block. cbn [mb_header mb_count mb_hashes mb_flags].
    unfold enc_list. rewrite map_id. rewrite L4. unfold lenN. rewrite L6. rewrite <- !app_assoc. reflexivity.
  - unfold wf_mb. cbn [mb_header mb_count mb_hashes mb_flags].
    split; [exact L1|]. split; [exact B2|]. split; [exact F4|]. split; [lia|]. unfold lenN. lia.
Qed.

Lemma parse_ser_wf m rest : wf_mb m -> parse_merkle_block (ser_merkle_block m ++ rest) = Some (m, rest).
Proof. intros [W1 [W2 [W3 [W4 W5]]]]. apply parse_ser_merkle_block; assumption. Qed.

Lemma concat_len32 (hs : list bytes) : Forall (fun h => length h = 32%nat) hs -> lenN (concat hs) = 32 * lenL hs.
Proof.
  induction 1 as [|h hs Hh _ IH]; [reflexivity|]. cbn [concat]. rewrite lenN_app, IH.
  unfold lenN, lenL. cbn [length]. lia.
Qed.


(* ---------- checkMerkleBlockHashCount (fix c4c5793) ---------- *)
Lemma skipn84 hd x (X : bytes) : length hd = 80%nat -> skipn 84 (hd ++ le_enc 4 x ++ X) = X.
Proof.
  intro Hh. rewrite app_assoc, skipn_app, app_length, le_enc_length, Hh.
  rewrite skipn_all2 by (rewrite app_length, le_enc_length; lia). reflexivity.
Qed.

(* on an input with a well-formed count the check compares it with the bytes behind it *)
Lemma check_value hd cnt nh r : length hd = 80%nat -> nh < two64 ->
  hash_count_exceeds (hd ++ le_enc 4 cnt ++ varint nh ++ r) = (lenN r / 32 <? nh).
Proof.
  intros Hh Hn. unfold hash_count_exceeds.
  assert (Hv : (1 <= length (varint nh))%nat)
    by (destruct (varint nh) eqn:Ev; [exfalso; exact (varint_nonempty nh Ev)|cbn; lia]).
  destruct (Nat.leb_spec (length (hd ++ le_enc 4 cnt ++ varint nh ++ r)) 84) as [Hle|_].
  { rewrite !app_length, le_enc_length in Hle. lia. }
  rewrite skipn84 by exact Hh. rewrite p_varint_app by exact Hn. reflexivity.
Qed.

Lemma check_passes_on_accepted bs m r : parse_merkle_block bs = Some (m, r) -> hash_count_exceeds bs = false.
Proof.
  intro P. apply parse_merkle_block_inv in P as [-> [W1 [W2 [W3 [W4 W5]]]]].
  unfold ser_merkle_block. rewrite <- !app_assoc. unfold wire_max_hashes in W4.
  rewrite check_value by (try exact W1; unfold two64; lia).
  apply N.ltb_ge. rewrite !lenN_app, (concat_len32 _ W3). apply N.div_le_lower_bound; lia.
Qed.

(* the check refuses nothing the decoder would have accepted: acceptance is that of the blob parser *)
Theorem decode_eq_parse bs :
  decode_merkle_block bs = match parse_merkle_block bs with Some (m, _) => Some m | None => None end.
Proof.
  unfold decode_merkle_block. destruct (parse_merkle_block bs) as [[m r]|] eqn:P.
  - rewrite (check_passes_on_accepted _ _ _ P). reflexivity.
  - destruct (hash_count_exceeds bs); reflexivity.
Qed.

(* the whole-input decoder ignores what follows the encoding ... *)
Theorem decode_ignores_trailing m rest : wf_mb m -> decode_merkle_block (ser_merkle_block m ++ rest) = Some m.
Proof. intro W. rewrite decode_eq_parse. rewrite parse_ser_wf by exact W. reflexivity. Qed.

(* ... accepts only inputs that begin with a complete encoding ... *)
Theorem decode_accepts_complete bs m :
  decode_merkle_block bs = Some m -> exists rest, bs = ser_merkle_block m ++ rest /\ wf_mb m.
Proof.
  rewrite decode_eq_parse. destruct (parse_merkle_block bs) as [[m' r]|] eqn:P; [|discriminate].
  intro E. injection E as <-. exists r. apply parse_merkle_block_inv. exact P.
Qed.

(* ... and therefore rejects every strict prefix of a valid encoding *)
Theorem merkleblock_strict_prefix_rejected m pre suf :
  wf_mb m -> ser_merkle_block m = pre ++ suf -> suf <> [] -> decode_merkle_block pre = None.
Proof.
  intros W E Hs. rewrite decode_eq_parse.
  destruct (parse_merkle_block pre) as [[m' r']|] eqn:P; [|reflexivity]. exfalso.
  pose proof (stable_parse_merkle_block _ _ _ suf P) as S. rewrite <- E in S.
  pose proof (parse_ser_wf m [] W) as Q. rewrite app_nil_r in Q. rewrite Q in S.
  injection S as _ B. symmetry in B. apply app_eq_nil in B as [_ B]. exact (Hs B).
Qed.

(* an accepted input is at least as long as what was decoded from it *)
Theorem merkleblock_accepted_size bs m r :
  parse_merkle_block bs = Some (m, r) ->
  84 + varint_size (lenL (mb_hashes m)) + 32 * lenL (mb_hashes m) +
  varint_size (lenN (mb_flags m)) + lenN (mb_flags m) + lenN r = lenN bs.
Proof.
  intro P. apply parse_merkle_block_inv in P as [-> [W1 [W2 [W3 [W4 W5]]]]].
  unfold ser_merkle_block. rewrite !lenN_app, !varint_length, lenN_le_enc, (concat_len32 _ W3).
  assert (E80 : lenN (mb_header m) = 80) by (unfold lenN; rewrite W1; reflexivity). lia.
Qed.

(* ---------- memory requested while decoding ---------- *)
(* once the count check has let an input through, what btcd reserves for hashes is backed by input;
   the flag bytes (cap 50000) are the only reservation that is not *)
Lemma alloc_btcd_backed bs : hash_count_exceeds bs = false -> alloc_btcd bs <= 2 * lenN bs + wire_max_flags.
Proof.
  intro Hc. unfold alloc_btcd, bind.
  destruct (take 80 bs) as [[hd r1]|] eqn:E1; [|lia].
  destruct (p_le 4 r1) as [[cnt r2]|] eqn:E2; [|lia].
  destruct (p_varint r2) as [[nh r3]|] eqn:E3; [|lia]. unfold ret.
  apply take_inv in E1 as [-> L1]. apply p_le_inv in E2 as [-> B2]. apply p_varint_inv in E3 as [-> B3].
  rewrite check_value in Hc by assumption. apply N.ltb_ge in Hc.
  rewrite !lenN_app. unfold wire_max_flags.
  destruct (wire_max_hashes <? nh); [lia|].
  assert (Hb : 32 * nh <= lenN r3) by lia.
  destruct (p_list (take 32) nh r3) as [[hs r4]|]; [|lia].
  destruct (p_varint r4) as [[nf r5]|]; [|lia].
  destruct (N.ltb_spec 50000 nf); lia.
Qed.

Lemma alloc_btcd_ser m rest : wf_mb m ->
  alloc_btcd (ser_merkle_block m ++ rest) = 40 * lenL (mb_hashes m) + lenN (mb_flags m).
Proof.
  intros [W1 [W2 [W3 [W4 W5]]]]. destruct m as [hd cnt hs fl]. cbn [mb_header mb_count mb_hashes mb_flags] in *.
  unfold alloc_btcd, ser_merkle_block, bind. cbn [mb_header mb_count mb_hashes mb_flags].
  rewrite <- !app_assoc. rewrite (take_app_n 80) by exact W1. rewrite p_le_app by exact W2.
  unfold wire_max_hashes, wire_max_flags in *.
  rewrite p_varint_app by (unfold two64; lia). unfold ret.
  destruct (N.ltb_spec 400001 (lenL hs)) as [|_]; [lia|].
  replace (concat hs) with (enc_list (fun x : bytes => x) hs) by (unfold enc_list; rewrite map_id; reflexivity).
  rewrite p_list_app.
  - rewrite p_varint_app by (unfold two64; lia).
    destruct (N.ltb_spec 50000 (lenN fl)) as [|_]; [lia|]. reflexivity.
  - intros a Ha r. rewrite Forall_forall in W3. apply (take_app_n 32). apply W3. exact Ha.
  - intros a Ha E. rewrite Forall_forall in W3. apply W3 in Ha. subst a. discriminate.
Qed.

(* for an accepted input the request is proportional to the input *)
Theorem alloc_accepted_proportional bs m r :
  parse_merkle_block bs = Some (m, r) ->
  alloc_merkle_block bs = 96 * lenL (mb_hashes m) + 9 * lenN (mb_flags m) /\
  alloc_merkle_block bs <= 9 * lenN bs.
Proof.
  intro P. pose proof (merkleblock_accepted_size _ _ _ P) as Sz.
  pose proof (parse_merkle_block_inv _ _ _ P) as [E W].
  assert (A : alloc_merkle_block bs = 96 * lenL (mb_hashes m) + 9 * lenN (mb_flags m)).
  { unfold alloc_merkle_block. rewrite (check_passes_on_accepted _ _ _ P), decode_eq_parse, P. rewrite E at 1.
    rewrite alloc_btcd_ser by exact W. unfold alloc_repo. lia. }
  split; [exact A|]. rewrite A. lia.
Qed.

(* for every input, accepted or not: at most the flag-byte cap (50000, within the allowance of the
   allocation oracle) plus nine times the input *)
Theorem alloc_bounded bs : alloc_merkle_block bs <= alloc_const_bound + 9 * lenN bs.
Proof.
  unfold alloc_const_bound.
  destruct (parse_merkle_block bs) as [[m r]|] eqn:P.
  - pose proof (alloc_accepted_proportional _ _ _ P) as [_ B]. lia.
  - unfold alloc_merkle_block. destruct (hash_count_exceeds bs) eqn:Hc; [lia|].
    rewrite decode_eq_parse, P. pose proof (alloc_btcd_backed bs Hc). lia.
Qed.

(* a rejected input requests at most the flag-byte cap plus twice its length *)
Theorem alloc_rejected_bounded bs : decode_merkle_block bs = None -> alloc_merkle_block bs <= wire_max_flags + 2 * lenN bs.
Proof.
  intro D. unfold alloc_merkle_block. destruct (hash_count_exceeds bs) eqn:Hc; [lia|].
  rewrite D. pose proof (alloc_btcd_backed bs Hc). lia.
Qed.

(* the shape before fix c4c5793 (no count check in front of btcd): 89 bytes made btcd reserve 16 MB
   before the first hash was read; the same input is now refused without any reservation *)
Definition greedy_blob : bytes := repeat x00 84 ++ [xfe; x81; x1a; x06; x00].
Example alloc_prefix_shape :
  lenN greedy_blob = 89 /\ alloc_merkle_block_prefix greedy_blob = 16000040 /\
  decode_merkle_block greedy_blob = None /\ alloc_merkle_block greedy_blob = 0.
Proof. split; [reflexivity|]. split; [vm_compute; reflexivity|]. split; vm_compute; reflexivity. Qed.

(* ---------- ExtractMatches never indexes out of range ---------- *)
Lemma skipn_nth {X} : forall (l : list X) i, (i < length l)%nat ->
  exists x, nth_error l i = Some x /\ skipn i l = x :: skipn (S i) l.
Proof.
  induction l as [|a l IH]; intros i Hi; [cbn in Hi; lia|].
  destruct i as [|i]; [exists a; split; reflexivity|].
  cbn [length] in Hi. destruct (IH i ltac:(lia)) as [x [E1 E2]]. exists x. split; [exact E1|exact E2].
Qed.

Section Refine.
Variable A : Type.
Variable H : A -> A -> A.
Variable eqA : A -> A -> bool.
Notation traverse := (traverse A H eqA).
Notation traverse_ix := (traverse_gen A H eqA Nat.leb).

(* the index-cursor walk computes what the suffix walk computes; it has no IxPanic outcome:
   the two guards ( >= len ) are exactly what makes the index expressions defined *)
Lemma traverse_ix_refines n (vbits : list bool) (hashes : list A) : forall h pos bu hu m bad,
  (bu <= length vbits)%nat -> (hu <= length hashes)%nat ->
  match traverse n h pos (mk_st (skipn bu vbits) (skipn hu hashes) m bad) with
  | None => traverse_ix n vbits hashes h pos (mk_ist bu hu m bad) = IxErr
  | Some (x, s') =>
      exists bu' hu', (bu' <= length vbits)%nat /\ (hu' <= length hashes)%nat /\
        s_bits s' = skipn bu' vbits /\ s_hashes s' = skipn hu' hashes /\
        traverse_ix n vbits hashes h pos (mk_ist bu hu m bad) = IxOk (x, mk_ist bu' hu' (s_match s') (s_bad s'))
  end.
Proof.
  assert (Leaf : forall bu hu m bad (mh : bool), (S bu <= length vbits)%nat -> (hu <= length hashes)%nat ->
    match (match skipn hu hashes with
           | [] => None
           | x :: hs' => Some (x, mk_st (skipn (S bu) vbits) hs' (if mh then m ++ [x] else m) bad)
           end) with
    | None => (if (length hashes <=? hu)%nat then IxErr
               else match nth_error hashes hu with
                    | None => IxPanic
                    | Some x => IxOk (x, mk_ist (S bu) (S hu) (if mh then m ++ [x] else m) bad)
                    end) = @IxErr (A * ist A)
    | Some (x, s') =>
        exists bu' hu', (bu' <= length vbits)%nat /\ (hu' <= length hashes)%nat /\
          s_bits s' = skipn bu' vbits /\ s_hashes s' = skipn hu' hashes /\
          (if (length hashes <=? hu)%nat then IxErr
           else match nth_error hashes hu with
                | None => IxPanic
                | Some x => IxOk (x, mk_ist (S bu) (S hu) (if mh then m ++ [x] else m) bad)
                end) = IxOk (x, mk_ist bu' hu' (s_match s') (s_bad s'))
    end).
  { intros bu hu m bad mh Hb Hh. destruct (Nat.leb_spec (length hashes) hu) as [Hge|Hlt].
    - rewrite skipn_all2 by exact Hge. reflexivity.
    - destruct (skipn_nth hashes hu Hlt) as [x [E1 E2]]. rewrite E2, E1.
      exists (S bu), (S hu). cbn [s_bits s_hashes s_match s_bad]. repeat split; try reflexivity; lia. }
  induction h as [|h IH]; intros pos bu hu m bad Hb Hh.
  - cbn [traverse traverse_gen s_bits s_hashes s_match s_bad i_bits_used i_hash_used i_match i_bad].
    destruct (Nat.leb_spec (length vbits) bu) as [Hge|Hlt].
    + rewrite skipn_all2 by exact Hge. reflexivity.
    + destruct (skipn_nth vbits bu Hlt) as [b [E1 E2]]. rewrite E2, E1. apply (Leaf bu hu m bad b); lia.
  - cbn [traverse traverse_gen s_bits s_hashes s_match s_bad i_bits_used i_hash_used i_match i_bad].
    destruct (Nat.leb_spec (length vbits) bu) as [Hge|Hlt].
    + rewrite skipn_all2 by exact Hge. reflexivity.
    + destruct (skipn_nth vbits bu Hlt) as [b [E1 E2]]. rewrite E2, E1.
      destruct b; cbn [negb]; [|apply (Leaf bu hu m bad false); lia].
      pose proof (IH (pos * 2) (S bu) hu m bad ltac:(lia) Hh) as L.
      destruct (traverse n h (pos * 2) (mk_st (skipn (S bu) vbits) (skipn hu hashes) m bad)) as [[l s1]|].
      2:{ rewrite L. reflexivity. }
      destruct L as [bu1 [hu1 [Hb1 [Hh1 [B1 [H1 T1]]]]]]. rewrite T1.
      destruct s1 as [sb1 sh1 sm1 sbad1]. cbn [s_bits s_hashes s_match s_bad] in *. subst sb1 sh1.
      destruct (pos * 2 + 1 <? width n (N.of_nat h)).
      * pose proof (IH (pos * 2 + 1) bu1 hu1 sm1 sbad1 Hb1 Hh1) as R.
        destruct (traverse n h (pos * 2 + 1) (mk_st (skipn bu1 vbits) (skipn hu1 hashes) sm1 sbad1)) as [[r s2]|].
        2:{ rewrite R. reflexivity. }
        destruct R as [bu2 [hu2 [Hb2 [Hh2 [B2 [H2 T2]]]]]]. rewrite T2.
        exists bu2, hu2. cbn [s_bits s_hashes s_match s_bad i_bits_used i_hash_used i_match i_bad].
        repeat split; assumption.
      * exists bu1, hu1. cbn [s_bits s_hashes s_match s_bad]. repeat split; assumption.
Qed.

Theorem extract_ix_refines n hashes vbits :
  extract_ix A H eqA n hashes vbits =
  match extract A H eqA n hashes vbits with Some r => IxOk r | None => IxErr end.
Proof.
  unfold extract_ix, extract_gen, extract.
  destruct (n =? 0); [reflexivity|]. destruct (max_txs <? n); [reflexivity|].
  destruct (n <? lenL hashes); [reflexivity|]. destruct (lenL vbits <? lenL hashes); [reflexivity|].
  destruct (height_loop 34 n 0) as [h|]; [|reflexivity].
  pose proof (traverse_ix_refines n vbits hashes (N.to_nat h) 0 0%nat 0%nat [] false ltac:(lia) ltac:(lia)) as R.
  cbn [skipn] in R.
  destruct (traverse n (N.to_nat h) 0 (mk_st vbits hashes [] false)) as [[root s']|]; [|rewrite R; reflexivity].
  destruct R as [bu [hu [Hb [Hh [B [Hs T]]]]]]. rewrite T.
  cbn [i_bits_used i_hash_used i_match i_bad].
  destruct (s_bad s'); [reflexivity|].
  rewrite B, Hs. unfold lenL. rewrite !skipn_length.
  replace (N.of_nat (length vbits) - N.of_nat (length vbits - bu)) with (N.of_nat bu) by lia.
  destruct (negb ((N.of_nat bu + 7) / 8 =? (N.of_nat (length vbits) + 7) / 8)); [reflexivity|].
  destruct (Nat.eqb_spec hu (length hashes)) as [E|E];
    destruct (Nat.eqb_spec (length hashes - hu) 0) as [E'|E']; try reflexivity; lia.
Qed.

Theorem extract_ix_no_panic n hashes vbits : extract_ix A H eqA n hashes vbits <> IxPanic.
Proof. rewrite extract_ix_refines. destruct (extract A H eqA n hashes vbits); discriminate. Qed.

End Refine.

(* NewMerkleBlockFromBuffer + ExtractMatches on arbitrary bytes: a value or an error *)
Theorem decode_extract_no_panic bs : decode_extract_ix bs <> IxPanic.
Proof.
  unfold decode_extract_ix. destruct (decode_merkle_block bs); [|discriminate].
  unfold extract_mb_ix. apply extract_ix_no_panic.
Qed.

Theorem decode_extract_is_run_proof bs :
  decode_extract_ix bs =
  match run_proof bs with PParseErr => IxErr | PExtractErr _ => IxErr | POk _ root ms => IxOk (root, ms) end.
Proof.
  unfold decode_extract_ix, run_proof. rewrite decode_eq_parse.
  destruct (parse_merkle_block bs) as [[m r]|]; [|reflexivity].
  unfold extract_mb_ix, extract_mb. rewrite extract_ix_refines.
  destruct (extract bytes node_hash bytes_eqb (mb_count m) (mb_hashes m) (bits_of_bytes (mb_flags m))) as [[root ms]|]; reflexivity.
Qed.

(* the guard is load-bearing: with the test of the seeded change C12-a (hashUsed > len instead of
   hashUsed >= len) the same walk indexes out of range, e.g. on a one-transaction proof without a hash *)
Theorem weaker_guard_panics :
  extract_gen bytes node_hash bytes_eqb Nat.ltb 1 [] (bits_of_bytes [x00]) = IxPanic.
Proof. vm_compute. reflexivity. Qed.

(* the hash count is compared with the bytes behind it, and both counts with their caps, before
   anything is reserved or read *)
Theorem merkle_hash_count_vs_input hd cnt nh r :
  length hd = 80%nat -> nh < two64 -> lenN r / 32 < nh ->
  decode_merkle_block (hd ++ le_enc 4 cnt ++ varint nh ++ r) = None /\
  alloc_merkle_block (hd ++ le_enc 4 cnt ++ varint nh ++ r) = 0.
Proof.
  intros Hh Hn Hx. unfold decode_merkle_block, alloc_merkle_block. rewrite check_value by assumption.
  destruct (N.ltb_spec (lenN r / 32) nh); [split; reflexivity|lia].
Qed.

Theorem merkle_hash_count_checked hd cnt nh r :
  length hd = 80%nat -> cnt < two32 -> nh < two64 -> wire_max_hashes < nh ->
  parse_merkle_block (hd ++ le_enc 4 cnt ++ varint nh ++ r) = None /\
  alloc_merkle_block (hd ++ le_enc 4 cnt ++ varint nh ++ r) = 0.
Proof.
  intros Hh Hc Hn Hm.
  assert (P : parse_merkle_block (hd ++ le_enc 4 cnt ++ varint nh ++ r) = None).
  { unfold parse_merkle_block, bind. rewrite (take_app_n 80) by exact Hh. rewrite p_le_app by exact Hc.
    rewrite p_varint_app by exact Hn. destruct (N.ltb_spec wire_max_hashes nh); [reflexivity|lia]. }
  split; [exact P|]. unfold alloc_merkle_block.
  destruct (hash_count_exceeds (hd ++ le_enc 4 cnt ++ varint nh ++ r)); [reflexivity|].
  rewrite decode_eq_parse, P.
  unfold alloc_btcd, bind. rewrite (take_app_n 80) by exact Hh. rewrite p_le_app by exact Hc.
  rewrite p_varint_app by exact Hn. unfold ret. destruct (N.ltb_spec wire_max_hashes nh); [reflexivity|lia].
Qed.

Theorem merkle_flag_count_checked m nf r :
  wf_mb m -> nf < two64 -> wire_max_flags < nf ->
  let bs := mb_header m ++ le_enc 4 (mb_count m) ++ varint (lenL (mb_hashes m)) ++ concat (mb_hashes m) ++ varint nf ++ r in
  parse_merkle_block bs = None /\ alloc_merkle_block bs = 40 * lenL (mb_hashes m).
Proof.
  intros [W1 [W2 [W3 [W4 W5]]]] Hn Hm bs. subst bs. destruct m as [hd cnt hs fl].
  cbn [mb_header mb_count mb_hashes mb_flags] in *.
  assert (L : p_list (take 32) (lenL hs) (concat hs ++ varint nf ++ r) = Some (hs, varint nf ++ r)).
  { replace (concat hs) with (enc_list (fun x : bytes => x) hs) by (unfold enc_list; rewrite map_id; reflexivity).
    apply p_list_app.
    - intros a Ha q. rewrite Forall_forall in W3. apply (take_app_n 32). apply W3. exact Ha.
    - intros a Ha E. rewrite Forall_forall in W3. apply W3 in Ha. subst a. discriminate. }
  unfold wire_max_hashes in *.
  assert (P : parse_merkle_block (hd ++ le_enc 4 cnt ++ varint (lenL hs) ++ concat hs ++ varint nf ++ r) = None).
  { unfold parse_merkle_block, bind. rewrite (take_app_n 80) by exact W1. rewrite p_le_app by exact W2.
    rewrite p_varint_app by (unfold two64; lia). unfold wire_max_hashes.
    destruct (N.ltb_spec 400001 (lenL hs)); [lia|]. rewrite L. rewrite p_varint_app by exact Hn.
    destruct (N.ltb_spec wire_max_flags nf); [reflexivity|lia]. }
  split; [exact P|]. unfold alloc_merkle_block.
  rewrite check_value by (try exact W1; unfold two64; lia).
  assert (Hk : (lenN (concat hs ++ varint nf ++ r) / 32 <? lenL hs) = false).
  { apply N.ltb_ge. rewrite lenN_app, (concat_len32 _ W3). apply N.div_le_lower_bound; lia. }
  rewrite Hk, decode_eq_parse, P.
  unfold alloc_btcd, bind. rewrite (take_app_n 80) by exact W1. rewrite p_le_app by exact W2.
  rewrite p_varint_app by (unfold two64; lia). unfold ret, wire_max_hashes.
  destruct (N.ltb_spec 400001 (lenL hs)); [lia|]. rewrite L. rewrite p_varint_app by exact Hn.
  destruct (N.ltb_spec wire_max_flags nf); [lia|lia].
Qed.
