(* Proofs/MerkleDecoder.v — C12 for the merkle-block decoder: extension-stability of the blob
   parser, no strict prefix of a valid encoding is accepted (trailing bytes are ignored, as
   block.NewMerkleBlockFromBuffer does), what is accepted is a complete encoding, the memory
   requested is bounded, and ExtractMatches never indexes out of range (the index-cursor model
   of Model/MerkleIx.v computes what the suffix model of Model/Merkle.v computes). *)
From GE Require Import Lib.Bytes Lib.Varint Lib.Sha256 Model.Merkle Model.MerkleIx Proofs.Decoders Proofs.Merkle.
From Coq Require Import ZifyBool ZifyN ZifyNat.
Open Scope N_scope.

(* ---------- the blob parser ---------- *)
Lemma stable_pfail {A} : stable (@pfail A).
Proof. intros bs a r s E. discriminate E. Qed.

Theorem stable_parse_merkle_block : stable parse_merkle_block.
Proof.
  unfold parse_merkle_block.
  apply stable_bind; [apply stable_take | intro hd]. apply stable_bind; [apply stable_p_le | intro cnt].
  apply stable_bind; [apply stable_p_varint | intro nh].
  destruct (wire_max_hashes <? nh); [apply stable_pfail|].
  apply stable_bind; [apply stable_p_list, stable_take | intro hs].
  apply stable_bind; [apply stable_p_varint | intro nf].
  destruct (wire_max_flags <? nf); [apply stable_pfail|].
  apply stable_bind; [apply stable_takeN | intro fl]. apply stable_ret.
Qed.

(* what the wire format can carry *)
Definition wf_mb (m : merkle_block) : Prop :=
  length (mb_header m) = 80%nat /\ mb_count m < two32 /\
  Forall (fun h => length h = 32%nat) (mb_hashes m) /\
  lenL (mb_hashes m) <= wire_max_hashes /\ lenN (mb_flags m) <= wire_max_flags.

(* every accepted input starts with the complete encoding of the value returned *)
Theorem parse_merkle_block_inv bs m r :
  parse_merkle_block bs = Some (m, r) -> bs = ser_merkle_block m ++ r /\ wf_mb m.
Proof.
  unfold parse_merkle_block, bind. intro P.
  destruct (take 80 bs) as [[hd r1]|] eqn:E1; [|discriminate].
  destruct (p_le 4 r1) as [[cnt r2]|] eqn:E2; [|discriminate].
  destruct (p_varint r2) as [[nh r3]|] eqn:E3; [|discriminate].
  destruct (N.ltb_spec wire_max_hashes nh) as [|Hnh]; [discriminate|].
  destruct (p_list (take 32) nh r3) as [[hs r4]|] eqn:E4; [|discriminate].
  destruct (p_varint r4) as [[nf r5]|] eqn:E5; [|discriminate].
  destruct (N.ltb_spec wire_max_flags nf) as [|Hnf]; [discriminate|].
  destruct (takeN nf r5) as [[fl r6]|] eqn:E6; [|discriminate].
  unfold ret in P. injection P as <- <-.
  apply take_inv in E1 as [-> L1]. apply p_le_inv in E2 as [-> B2]. apply p_varint_inv in E3 as [-> B3].
  apply (p_list_inv (fun x : bytes => x) (take 32) (fun x => length x = 32%nat)) in E4 as [-> [L4 F4]];
    [|intros b a q T; apply take_inv in T; exact T].
  apply p_varint_inv in E5 as [-> B5]. apply takeN_inv in E6 as [-> L6].
  split.
  - unfold ser_merkle_block. cbn [mb_header mb_count mb_hashes mb_flags].
    unfold enc_list. rewrite map_id. rewrite L4. unfold lenN. rewrite L6. rewrite <- !app_assoc. reflexivity.
  - unfold wf_mb. cbn [mb_header mb_count mb_hashes mb_flags].
    split; [exact L1|]. split; [exact B2|]. split; [exact F4|]. split; [lia|]. unfold lenN. lia.
Qed.

Lemma parse_ser_wf m rest : wf_mb m -> parse_merkle_block (ser_merkle_block m ++ rest) = Some (m, rest).
Proof. intros [W1 [W2 [W3 [W4 W5]]]]. apply parse_ser_merkle_block; assumption. Qed.

(* the whole-input decoder ignores what follows the encoding ... *)
Theorem decode_ignores_trailing m rest : wf_mb m -> decode_merkle_block (ser_merkle_block m ++ rest) = Some m.
Proof. intro W. unfold decode_merkle_block. rewrite parse_ser_wf by exact W. reflexivity. Qed.

(* ... accepts only inputs that begin with a complete encoding ... *)
Theorem decode_accepts_complete bs m :
  decode_merkle_block bs = Some m -> exists rest, bs = ser_merkle_block m ++ rest /\ wf_mb m.
Proof.
  unfold decode_merkle_block. destruct (parse_merkle_block bs) as [[m' r]|] eqn:P; [|discriminate].
  intro E. injection E as <-. exists r. apply parse_merkle_block_inv. exact P.
Qed.

(* ... and therefore rejects every strict prefix of a valid encoding *)
Theorem merkleblock_strict_prefix_rejected m pre suf :
  wf_mb m -> ser_merkle_block m = pre ++ suf -> suf <> [] -> decode_merkle_block pre = None.
Proof.
  intros W E Hs. unfold decode_merkle_block.
  destruct (parse_merkle_block pre) as [[m' r']|] eqn:P; [|reflexivity]. exfalso.
  pose proof (stable_parse_merkle_block _ _ _ suf P) as S. rewrite <- E in S.
  pose proof (parse_ser_wf m [] W) as Q. rewrite app_nil_r in Q. rewrite Q in S.
  injection S as _ B. symmetry in B. apply app_eq_nil in B as [_ B]. exact (Hs B).
Qed.

(* an accepted input is at least as long as what was decoded from it *)
Lemma concat_len32 (hs : list bytes) : Forall (fun h => length h = 32%nat) hs -> lenN (concat hs) = 32 * lenL hs.
Proof.
  induction 1 as [|h hs Hh _ IH]; [reflexivity|]. cbn [concat]. rewrite lenN_app, IH.
  unfold lenN, lenL. cbn [length]. lia.
Qed.

Theorem merkleblock_accepted_size bs m r :
  parse_merkle_block bs = Some (m, r) ->
  84 + varint_size (lenL (mb_hashes m)) + 32 * lenL (mb_hashes m) +
  varint_size (lenN (mb_flags m)) + lenN (mb_flags m) + lenN r = lenN bs.
Proof.
  intro P. apply parse_merkle_block_inv in P as [-> [W1 [W2 [W3 [W4 W5]]]]].
  unfold ser_merkle_block. rewrite !lenN_app, !varint_length, lenN_le_enc, (concat_len32 _ W3).
  assert (E80 : lenN (mb_header m) = 80) by (unfold lenN; rewrite W1; reflexivity). lia.
Qed.

(* ---------- memory requested while decoding ---------- *)
Theorem alloc_btcd_bounded bs : alloc_btcd bs <= alloc_const_bound.
Proof.
  unfold alloc_btcd, alloc_const_bound, wire_max_hashes, wire_max_flags.
  destruct ((hd <- take 80;; cnt <- p_le 4;; nh <- p_varint;; ret nh) bs) as [[nh r1]|]; [|lia].
  destruct (N.ltb_spec 400001 nh); [lia|].
  destruct ((hs <- p_list (take 32) nh;; nf <- p_varint;; ret nf) r1) as [[nf r2]|]; [|lia].
  destruct (N.ltb_spec 50000 nf); lia.
Qed.

Lemma alloc_btcd_ser m rest : wf_mb m ->
  alloc_btcd (ser_merkle_block m ++ rest) = 40 * lenL (mb_hashes m) + lenN (mb_flags m).
Proof.
  intros [W1 [W2 [W3 [W4 W5]]]]. destruct m as [hd cnt hs fl]. cbn [mb_header mb_count mb_hashes mb_flags] in *.
  unfold alloc_btcd, ser_merkle_block, bind. cbn [mb_header mb_count mb_hashes mb_flags].
  rewrite <- !app_assoc. rewrite (take_app_n 80) by exact W1. rewrite p_le_app by exact W2.
  unfold wire_max_hashes, wire_max_flags in *.
  rewrite p_varint_app by (unfold two64; lia). unfold ret.
  destruct (N.ltb_spec 400001 (lenL hs)) as [|_]; [lia|].
  replace (concat hs) with (enc_list (fun x : bytes => x) hs) by (unfold enc_list; rewrite map_id; reflexivity).
  rewrite p_list_app.
  - rewrite p_varint_app by (unfold two64; lia).
    destruct (N.ltb_spec 50000 (lenN fl)) as [|_]; [lia|]. reflexivity.
  - intros a Ha r. rewrite Forall_forall in W3. apply (take_app_n 32). apply W3. exact Ha.
  - intros a Ha E. rewrite Forall_forall in W3. apply W3 in Ha. subst a. discriminate.
Qed.

(* for an accepted input the request is proportional to the input *)
Theorem alloc_accepted_proportional bs m r :
  parse_merkle_block bs = Some (m, r) ->
  alloc_merkle_block bs = 96 * lenL (mb_hashes m) + 9 * lenN (mb_flags m) /\
  alloc_merkle_block bs <= 9 * lenN bs.
Proof.
  intro P. pose proof (merkleblock_accepted_size _ _ _ P) as Sz.
  pose proof (parse_merkle_block_inv _ _ _ P) as [E W].
  assert (A : alloc_merkle_block bs = 96 * lenL (mb_hashes m) + 9 * lenN (mb_flags m)).
  { unfold alloc_merkle_block, decode_merkle_block. rewrite P. rewrite E at 1.
    rewrite alloc_btcd_ser by exact W. unfold alloc_repo. lia. }
  split; [exact A|]. rewrite A. lia.
Qed.

(* for every input, accepted or not, it is bounded by a constant plus nine times the input *)
Theorem alloc_bounded bs : alloc_merkle_block bs <= alloc_const_bound + 9 * lenN bs.
Proof.
  destruct (parse_merkle_block bs) as [[m r]|] eqn:P.
  - pose proof (alloc_accepted_proportional _ _ _ P) as [_ B]. lia.
  - unfold alloc_merkle_block, decode_merkle_block. rewrite P. pose proof (alloc_btcd_bounded bs). lia.
Qed.

(* FULL STATEMENT (does not hold): alloc_merkle_block bs <= k * lenN bs for a small k.
   btcd compares the hash count with the constant maxTxPerBlock, not with the bytes that are
   there: 89 bytes make it reserve 16 MB before the first hash is read (and then fail) *)
Definition greedy_blob : bytes := repeat x00 84 ++ [xfe; x81; x1a; x06; x00].
Theorem alloc_proportional_refuted :
  lenN greedy_blob = 89 /\ decode_merkle_block greedy_blob = None /\ alloc_merkle_block greedy_blob = 16000040.
Proof. split; [reflexivity|]. split; vm_compute; reflexivity. Qed.
