(* Proofs/PsetV0.v — round-trip theorems for the PSET v0 codec (C08). *)
From GE Require Import Lib.Bytes Lib.Varint Model.Tx Proofs.TxCodec Model.PsetV0 Gen.PsetV0Consts.
From Coq Require Import ZifyBool ZifyN ZifyNat Permutation.
Open Scope N_scope.

(* the magic bytes are those of today's pset/pset.go *)
Definition v0_consts_tied : Prop :=
  map (fun b => Z.of_N (n8 b)) v0_magic = g_psbtMagic /\ Z.of_nat (length v0_magic) = g_psbtMagicLength.
Lemma v0_consts_tied_holds : v0_consts_tied.
Proof. split; reflexivity. Qed.

(* ---------- small generic facts ---------- *)
Lemma existsb_map_c {A B} (f : B -> bool) (g : A -> B) l : existsb f (map g l) = existsb (fun x => f (g x)) l.
Proof. induction l as [|a l IH]; cbn; [reflexivity | rewrite IH; reflexivity]. Qed.

Lemma bytes_eqb_refl a : bytes_eqb a a = true.
Proof. apply bytes_eqb_eq; reflexivity. Qed.

Section NoDupB.
Context {A : Type} (eqb : A -> A -> bool) (eqb_spec : forall a b, eqb a b = true <-> a = b).

Lemma nodupb_NoDup l : v0_nodupb eqb l = true <-> NoDup l.
Proof.
  induction l as [|x l IH]; cbn [v0_nodupb].
  - split; [constructor | reflexivity].
  - rewrite andb_true_iff, negb_true_iff, IH. split.
    + intros [H1 H2]. constructor; [|exact H2]. intro Hin.
      assert (existsb (eqb x) l = true) as E; [|congruence].
      apply existsb_exists. exists x. split; [exact Hin | apply eqb_spec; reflexivity].
    + intro N. inversion N as [|? ? Hn Hd]; subst. split; [|exact Hd].
      destruct (existsb (eqb x) l) eqn:E; [|reflexivity].
      apply existsb_exists in E as [y [Hy Ey]]. apply eqb_spec in Ey. subst y. contradiction.
Qed.

Lemma nodupb_perm l l' : Permutation l l' -> v0_nodupb eqb l = true -> v0_nodupb eqb l' = true.
Proof. intros P H. apply nodupb_NoDup. apply (Permutation_NoDup P). apply nodupb_NoDup. exact H. Qed.

(* what the decoder's duplicate test needs: nothing before x equals x *)
Lemma nodupb_mid a x l : v0_nodupb eqb (a ++ x :: l) = true -> existsb (fun y => eqb y x) a = false.
Proof.
  induction a as [|y a IH]; cbn [app v0_nodupb existsb]; [reflexivity|].
  intro H. apply andb_true_iff in H as [H1 H2]. apply negb_true_iff in H1.
  rewrite existsb_app in H1. cbn [existsb] in H1. apply orb_false_iff in H1 as [_ H1].
  apply orb_false_iff in H1 as [H1 _]. rewrite H1, (IH H2). reflexivity.
Qed.

Lemma nodupb_snoc l x :
  v0_nodupb eqb l = true -> existsb (fun y => eqb y x) l = false -> v0_nodupb eqb (l ++ [x]) = true.
Proof.
  induction l as [|y l IH]; cbn [app v0_nodupb existsb]; [reflexivity|].
  intros H E. apply andb_true_iff in H as [H1 H2]. apply orb_false_iff in E as [E1 E2].
  rewrite existsb_app. cbn [existsb]. apply negb_true_iff in H1. rewrite H1, E1. cbn. apply IH; assumption.
Qed.
End NoDupB.

Lemma unk_eqb_spec a b : v0_unk_eqb a b = true <-> a = b.
Proof.
  destruct a as [k1 v1], b as [k2 v2]. unfold v0_unk_eqb. cbn [uk_key uk_val].
  rewrite andb_true_iff, !bytes_eqb_eq. split; [intros [-> ->]; reflexivity | intro H; inversion H; auto].
Qed.

(* ---------- sorting ---------- *)
Lemma v0_insert_perm {A} (key : A -> bytes) a l : Permutation (v0_insert key a l) (a :: l).
Proof.
  induction l as [|y l IH]; cbn [v0_insert]; [apply Permutation_refl|].
  destruct (v0_bytes_ltb (key y) (key a)); [|apply Permutation_refl].
  eapply perm_trans; [apply perm_skip; exact IH | apply perm_swap].
Qed.
Lemma v0_sort_perm {A} (key : A -> bytes) l : Permutation (v0_sort key l) l.
Proof.
  induction l as [|a l IH]; cbn; [constructor|]. fold (v0_sort key l).
  eapply perm_trans; [apply v0_insert_perm | apply perm_skip; exact IH].
Qed.
Lemma v0_sort_sorted {A} (key : A -> bytes) l : v0_sortedb key l = true -> v0_sort key l = l.
Proof.
  induction l as [|a l IH]; [reflexivity|]. cbn [v0_sortedb]. intro H. apply andb_true_iff in H as [H1 H2].
  cbn [v0_sort fold_right]. fold (v0_sort key l). rewrite (IH H2).
  destruct l as [|b l]; [reflexivity|]. cbn [v0_insert]. apply negb_true_iff in H1. rewrite H1. reflexivity.
Qed.
Lemma forallb_perm {A} (f : A -> bool) l l' : Permutation l l' -> forallb f l = true -> forallb f l' = true.
Proof.
  intros P H. apply forallb_forall. intros x Hx. rewrite forallb_forall in H. apply H.
  apply (Permutation_in x (Permutation_sym P) Hx).
Qed.

(* ---------- framing: one key/value pair, one section ---------- *)
Definition v0_wf_kvp (kv : bytes * bytes) : Prop :=
  1 <= lenN (fst kv) /\ lenN (fst kv) <= v0_MaxKeyLen /\ lenN (snd kv) <= v0_MaxValLen.

Fixpoint v0_fold {St} (step : St -> bytes -> bytes -> option St) (st : St) (l : list (bytes * bytes)) : option St :=
  match l with
  | [] => Some st
  | kv :: r => match step st (fst kv) (snd kv) with Some st' => v0_fold step st' r | None => None end
  end.

Lemma v0_fold_app {St} (step : St -> bytes -> bytes -> option St) st l1 l2 :
  v0_fold step st (l1 ++ l2) = match v0_fold step st l1 with Some s => v0_fold step s l2 | None => None end.
Proof.
  revert st; induction l1 as [|kv l1 IH]; intro st; cbn [app v0_fold]; [reflexivity|].
  destruct (step st (fst kv) (snd kv)); [apply IH | reflexivity].
Qed.

Lemma v0_p_key_sep r : v0_p_key (v0_sep ++ r) = Some (None, r).
Proof. reflexivity. Qed.

Lemma v0_p_key_app k r : 1 <= lenN k -> lenN k <= v0_MaxKeyLen -> v0_p_key (var_slice k ++ r) = Some (Some k, r).
Proof.
  intros H1 H2. unfold v0_p_key, var_slice, bind, v0_MaxKeyLen in *. rewrite <- app_assoc.
  rewrite p_varint_app by (unfold two64; lia).
  destruct (N.eqb_spec (lenN k) 0); [lia|]. destruct (N.ltb_spec 10000 (lenN k)); [lia|].
  unfold lenN. rewrite takeN_app. reflexivity.
Qed.

Lemma v0_p_val_app v r : lenN v <= v0_MaxValLen -> v0_p_val (var_slice v ++ r) = Some (v, r).
Proof.
  intro H. unfold v0_p_val, var_slice, bind, v0_MaxValLen in *. rewrite <- app_assoc.
  rewrite p_varint_app by (unfold two64; lia).
  destruct (N.ltb_spec 4000000 (lenN v)); [lia|]. unfold lenN. apply takeN_app.
Qed.

Lemma v0_p_key_inv bs k r : v0_p_key bs = Some (Some k, r) ->
  bs = var_slice k ++ r /\ 1 <= lenN k /\ lenN k <= v0_MaxKeyLen.
Proof.
  unfold v0_p_key, bind. destruct (p_varint bs) as [[n r0]|] eqn:P; [|discriminate].
  apply p_varint_inv in P as [-> Hn].
  destruct (N.eqb_spec n 0); [discriminate|]. unfold v0_MaxKeyLen.
  destruct (N.ltb_spec 10000 n); [discriminate|].
  destruct (takeN n r0) as [[k' r']|] eqn:T; [|discriminate]. intro HH; inversion HH; subst.
  apply takeN_inv in T as [-> E]. unfold var_slice, lenN. rewrite <- app_assoc, E. repeat split; lia.
Qed.

Lemma v0_p_key_inv_sep bs r : v0_p_key bs = Some (None, r) -> bs = v0_sep ++ r.
Proof.
  unfold v0_p_key, bind. destruct (p_varint bs) as [[n r0]|] eqn:P; [|discriminate].
  apply p_varint_inv in P as [-> Hn].
  destruct (N.eqb_spec n 0) as [->|].
  - intro HH; inversion HH; subst. reflexivity.
  - destruct (v0_MaxKeyLen <? n); [discriminate|]. destruct (takeN n r0) as [[k' r']|]; discriminate.
Qed.

Lemma v0_p_val_inv bs v r : v0_p_val bs = Some (v, r) -> bs = var_slice v ++ r /\ lenN v <= v0_MaxValLen.
Proof.
  unfold v0_p_val, bind. destruct (p_varint bs) as [[n r0]|] eqn:P; [|discriminate].
  apply p_varint_inv in P as [-> Hn]. unfold v0_MaxValLen.
  destruct (N.ltb_spec 4000000 n); [discriminate|]. intro T.
  apply takeN_inv in T as [-> E]. unfold var_slice, lenN. rewrite <- app_assoc, E. split; [reflexivity | lia].
Qed.

Lemma v0_kv_nonempty kv : v0_kv kv <> [].
Proof.
  unfold v0_kv. pose proof (var_slice_nonempty (fst kv)) as H.
  destruct (var_slice (fst kv)); [congruence | discriminate].
Qed.

(* a written section is read back as the fold of the decode switch over the pairs written *)
Lemma v0_p_section_app {St} (step : St -> bytes -> bytes -> option St) l :
  Forall v0_wf_kvp l -> forall st st' fuel rest,
  v0_fold step st l = Some st' -> (length l < fuel)%nat ->
  v0_p_section step fuel st (v0_ser_section l ++ rest) = Some (st', rest).
Proof.
  unfold v0_ser_section. induction 1 as [|kv l [K1 [K2 K3]] _ IH]; intros st st' fuel rest F L.
  - cbn in F. inversion F; subst. destruct fuel as [|f]; [cbn in L; lia|]. reflexivity.
  - destruct fuel as [|f]; [cbn in L; lia|]. cbn [v0_fold] in F.
    destruct (step st (fst kv) (snd kv)) as [st1|] eqn:S1; [|discriminate].
    unfold enc_list. cbn [map concat v0_p_section]. unfold v0_kv at 1. rewrite <- !app_assoc.
    rewrite v0_p_key_app by assumption. rewrite v0_p_val_app by assumption. rewrite S1.
    fold (enc_list v0_kv l). rewrite app_assoc. apply IH; [exact F | cbn [length] in L; lia].
Qed.

Lemma v0_section_app {St} (step : St -> bytes -> bytes -> option St) l st st' rest :
  Forall v0_wf_kvp l -> v0_fold step st l = Some st' ->
  v0_section step st (v0_ser_section l ++ rest) = Some (st', rest).
Proof.
  intros W F. unfold v0_section. apply v0_p_section_app; [exact W | exact F|].
  unfold v0_ser_section. rewrite !app_length.
  pose proof (enc_list_length_ge v0_kv l (fun a _ => v0_kv_nonempty a)). lia.
Qed.

(* an accepted section is the fold of the switch over well-framed pairs *)
Lemma v0_p_section_inv {St} (step : St -> bytes -> bytes -> option St) fuel :
  forall st bs st' rest, v0_p_section step fuel st bs = Some (st', rest) ->
  exists l, v0_fold step st l = Some st' /\ Forall v0_wf_kvp l /\ bs = v0_ser_section l ++ rest.
Proof.
  induction fuel as [|f IH]; intros st bs st' rest H; cbn [v0_p_section] in H; [discriminate|].
  destruct (v0_p_key bs) as [[[k|] r]|] eqn:K; [| |discriminate].
  - destruct (v0_p_val r) as [[v r']|] eqn:V; [|discriminate].
    destruct (step st k v) as [st1|] eqn:S1; [|discriminate].
    apply v0_p_key_inv in K as [-> [K1 K2]]. apply v0_p_val_inv in V as [-> V1].
    apply IH in H as [l [F [W ->]]]. exists ((k, v) :: l). cbn [v0_fold fst snd]. rewrite S1.
    split; [exact F|]. split; [constructor; [repeat split; assumption | exact W]|].
    unfold v0_ser_section, enc_list. cbn [map concat].
    change (v0_kv (k, v)) with (var_slice k ++ var_slice v). rewrite <- !app_assoc. reflexivity.
  - inversion H; subst. apply v0_p_key_inv_sep in K as ->. exists []. repeat split; constructor.
Qed.

(* the fuel handed out by v0_section is never exhausted: any two fuels above the length agree *)
Lemma v0_p_section_fuel {St} (step : St -> bytes -> bytes -> option St) f1 :
  forall f2 st bs, (length bs < f1)%nat -> (length bs < f2)%nat ->
  v0_p_section step f1 st bs = v0_p_section step f2 st bs.
Proof.
  induction f1 as [|f1 IH]; intros f2 st bs L1 L2; [lia|]. destruct f2 as [|f2]; [lia|].
  cbn [v0_p_section]. destruct (v0_p_key bs) as [[[k|] r]|] eqn:K; try reflexivity.
  destruct (v0_p_val r) as [[v r']|] eqn:V; [|reflexivity].
  destruct (step st k v) as [st1|]; [|reflexivity].
  apply v0_p_key_inv in K as [-> [K1 K2]]. apply v0_p_val_inv in V as [-> V1].
  pose proof (var_slice_nonempty k) as NE.
  rewrite !app_length in L1, L2. destruct (var_slice k); [congruence|]. cbn [length] in L1, L2.
  apply IH; lia.
Qed.

(* ---------- values: witness UTXO, BIP32 derivation, transactions ---------- *)
Lemma n8_b8_small v : v < 256 -> n8 (b8 v) = v.
Proof. intro H. rewrite n8_b8. apply N.mod_small. exact H. Qed.

Lemma v0_is_conf_strip o : v0_is_conf (strip_out o) = v0_is_conf o.
Proof. reflexivity. Qed.

Lemma v0_read_txout_ser o :
  wf_out o = true -> v0_wu45 o = true -> v0_read_txout (v0_ser_wu o) = Some (v0_norm_wu o).
Proof.
  intros W L. unfold v0_read_txout. unfold v0_wu45 in L.
  destruct (Nat.ltb_spec (length (v0_ser_wu o)) v0_MinTxOutLen) as [Hlt|Hge]; [lia|].
  pose proof (wf_out_parts o W) as (_ & _ & _ & _ & Hrp & Hsp).
  unfold v0_ser_wu, bind. rewrite (p_out_app o _ W). rewrite v0_is_conf_strip. unfold v0_norm_wu.
  destruct (v0_is_conf o).
  - rewrite p_var_slice_app by exact Hsp.
    rewrite <- (app_nil_r (var_slice (o_rp o))). rewrite p_var_slice_app by exact Hrp.
    unfold ret. destruct o; reflexivity.
  - unfold ret. reflexivity.
Qed.

Lemma v0_read_txout_inv v o : v0_read_txout v = Some o ->
  wf_out o = true /\ (exists rest, v = v0_ser_wu o ++ rest) /\ v0_norm_wu o = o.
Proof.
  unfold v0_read_txout. destruct (length v <? v0_MinTxOutLen)%nat; [discriminate|]. unfold bind.
  destruct (p_out v) as [[o1 r1]|] eqn:P; [|discriminate].
  apply p_out_inv in P as [-> [W1 S1]].
  destruct (v0_is_conf o1) eqn:C.
  - destruct (p_var_slice r1) as [[sp r2]|] eqn:P2; [|discriminate].
    destruct (p_var_slice r2) as [[rp r3]|] eqn:P3; [|discriminate].
    unfold ret. intro HH; inversion HH; subst.
    apply p_var_slice_inv in P2 as [-> Hsp]. apply p_var_slice_inv in P3 as [-> Hrp].
    apply wf_out_parts in W1 as (A1 & A2 & A3 & A4 & _).
    split; [|split].
    + unfold wf_out, wf_slice. cbn [o_asset o_value o_script o_nonce o_rp o_sp]. rewrite A1, A2, A3.
      destruct (N.ltb_spec (lenN (o_script o1)) two64); [|lia].
      destruct (N.ltb_spec (lenN rp) two64); [|lia]. destruct (N.ltb_spec (lenN sp) two64); [|lia]. reflexivity.
    + exists r3. unfold v0_ser_wu, v0_is_conf in *. cbn [o_asset o_value o_script o_nonce o_rp o_sp].
      rewrite C. unfold ser_out. cbn [o_asset o_value o_script o_nonce o_rp o_sp]. rewrite <- !app_assoc. reflexivity.
    + unfold v0_norm_wu, v0_is_conf in *. cbn [o_nonce]. rewrite C. reflexivity.
  - unfold ret. intro HH; inversion HH; subst. split; [exact W1|]. split.
    + exists r1. unfold v0_ser_wu. rewrite C, app_nil_r. reflexivity.
    + unfold v0_norm_wu. rewrite C. exact S1.
Qed.

Lemma v0_words_enc l : Forall (fun x => x < two32) l -> v0_words (concat (map (le_enc 4) l)) = Some l.
Proof.
  induction 1 as [|x l Hx _ IH]; [reflexivity|]. cbn [map concat].
  change (le_enc 4 x) with [b8 x; b8 (x / 256); b8 (x / 256 / 256); b8 (x / 256 / 256 / 256)].
  cbn [app v0_words]. rewrite IH.
  change [b8 x; b8 (x / 256); b8 (x / 256 / 256); b8 (x / 256 / 256 / 256)] with (le_enc 4 x).
  rewrite le_dec_enc by exact Hx. reflexivity.
Qed.

Local Opaque le_dec.
Lemma v0_words_inv v l : v0_words v = Some l ->
  concat (map (le_enc 4) l) = v /\ Forall (fun x => x < two32) l.
Proof.
  revert l. induction v as [v IH] using (well_founded_induction (Wf_nat.well_founded_ltof _ (@length byte))).
  intros l. destruct v as [|a [|b [|c [|d r]]]]; cbn [v0_words]; try discriminate.
  - intro HH; inversion HH; subst. split; constructor.
  - destruct (v0_words r) as [l'|] eqn:E; [|discriminate]. intro HH; inversion HH; subst.
    apply IH in E as [E1 E2]; [|unfold Wf_nat.ltof; cbn [length]; lia].
    cbn [map concat]. rewrite E1. split.
    + pose proof (le_enc_dec [a; b; c; d]) as R. cbn [length] in R. rewrite R. reflexivity.
    + constructor; [|exact E2]. apply (le_dec_bound [a; b; c; d]).
Qed.
Local Transparent le_dec.

Definition v0_wf_der_vals (d : v0der) : Prop :=
  dv_fp d < two32 /\ Forall (fun x => x < two32) (dv_path d) /\ dv_path d <> [].

Lemma v0_read_bip32_ser d : v0_wf_der_vals d -> v0_read_bip32 (v0_ser_bip32 d) = Some (dv_fp d, dv_path d).
Proof.
  intros (Hf & Hp & Hne). unfold v0_read_bip32, v0_ser_bip32.
  change (le_enc 4 (dv_fp d) ++ concat (map (le_enc 4) (dv_path d)))
    with (concat (map (le_enc 4) (dv_fp d :: dv_path d))).
  rewrite v0_words_enc by (constructor; assumption). destruct (dv_path d); [congruence | reflexivity].
Qed.

Lemma v0_read_bip32_inv v fp path : v0_read_bip32 v = Some (fp, path) ->
  v0_ser_bip32 (mk_v0der [] fp path) = v /\ v0_wf_der_vals (mk_v0der [] fp path).
Proof.
  unfold v0_read_bip32. destruct (v0_words v) as [[|a [|b l]]|] eqn:E; try discriminate.
  intro HH; inversion HH; subst. apply v0_words_inv in E as [E1 E2].
  unfold v0_ser_bip32, v0_wf_der_vals. cbn [dv_fp dv_path]. split; [exact E1|].
  inversion E2; subst. repeat split; [assumption | assumption | discriminate].
Qed.

Lemma v0_parse_tx_value_ser t : wf_tx t = true -> v0_parse_tx_value (ser_full t) = Some (norm_tx t).
Proof.
  intro W. unfold v0_parse_tx_value. rewrite <- (app_nil_r (ser_full t)).
  rewrite (tx_parse_ser t [] W). reflexivity.
Qed.

(* ---------- the decode switch run over what the encoder emits ---------- *)
Section Fwd.
Variable valid_pk valid_sig : bytes -> bool.
Notation in_step := (v0_in_step valid_pk valid_sig).
Notation out_step := (v0_out_step valid_pk).

Ltac ty_small := (unfold v0_T_NonWitnessUtxo, v0_T_WitnessUtxo, v0_T_PartialSig, v0_T_Sighash, v0_T_RedeemScript,
  v0_T_WitnessScript, v0_T_Bip32, v0_T_FinalScriptSig, v0_T_FinalScriptWitness,
  v0_TO_RedeemScript, v0_TO_WitnessScript, v0_TO_Bip32; lia).

Lemma step_nwu st t : vi_nwu st = None -> wf_tx t = true ->
  in_step st [b8 v0_T_NonWitnessUtxo] (ser_full t) = Some (v0_set_nwu st (Some (norm_tx t))).
Proof.
  intros H W. unfold v0_in_step. rewrite n8_b8_small by ty_small. rewrite H, (v0_parse_tx_value_ser t W). reflexivity.
Qed.
Lemma step_wu st o : vi_wu st = None -> wf_out o = true -> v0_wu45 o = true ->
  in_step st [b8 v0_T_WitnessUtxo] (v0_ser_wu o) = Some (v0_set_wu st (Some (v0_norm_wu o))).
Proof.
  intros H W L. unfold v0_in_step. rewrite n8_b8_small by ty_small. rewrite H, (v0_read_txout_ser o W L). reflexivity.
Qed.
Lemma step_sighash st x : vi_sighash st = 0 -> x < two32 ->
  in_step st [b8 v0_T_Sighash] (le_enc 4 x) = Some (v0_set_sighash st x).
Proof.
  intros H W. unfold v0_in_step. rewrite n8_b8_small by ty_small. rewrite H, le_enc_length, le_dec_enc by exact W. reflexivity.
Qed.
Lemma step_redeem st v : vi_redeem st = None -> in_step st [b8 v0_T_RedeemScript] v = Some (v0_set_redeem st (Some v)).
Proof. intro H. unfold v0_in_step. rewrite n8_b8_small by ty_small. rewrite H. reflexivity. Qed.
Lemma step_wscript st v : vi_wscript st = None -> in_step st [b8 v0_T_WitnessScript] v = Some (v0_set_wscript st (Some v)).
Proof. intro H. unfold v0_in_step. rewrite n8_b8_small by ty_small. rewrite H. reflexivity. Qed.
Lemma step_fsig st v : vi_fsig st = None -> in_step st [b8 v0_T_FinalScriptSig] v = Some (v0_set_fsig st (Some v)).
Proof. intro H. unfold v0_in_step. rewrite n8_b8_small by ty_small. rewrite H. reflexivity. Qed.
Lemma step_fwit st v : vi_fwit st = None -> in_step st [b8 v0_T_FinalScriptWitness] v = Some (v0_set_fwit st (Some v)).
Proof. intro H. unfold v0_in_step. rewrite n8_b8_small by ty_small. rewrite H. reflexivity. Qed.

Lemma set_sigs_id st : v0_set_sigs st (vi_sigs st) = st. Proof. destruct st; reflexivity. Qed.
Lemma set_sigs_set st a b : v0_set_sigs (v0_set_sigs st a) b = v0_set_sigs st b. Proof. reflexivity. Qed.
Lemma set_ders_id st : v0_set_ders st (vi_ders st) = st. Proof. destruct st; reflexivity. Qed.
Lemma set_unk_id st : v0_set_unk st (vi_unk st) = st. Proof. destruct st; reflexivity. Qed.

Lemma fold_sigs l : forall st,
  forallb (v0_wf_sig valid_pk valid_sig) l = true ->
  v0_nodupb bytes_eqb (map sg_pk (vi_sigs st ++ l)) = true ->
  v0_fold in_step st (map v0_sig_kv l) = Some (v0_set_sigs st (vi_sigs st ++ l)).
Proof.
  induction l as [|x l IH]; intros st W N.
  - cbn. rewrite app_nil_r, set_sigs_id. reflexivity.
  - cbn [forallb] in W. apply andb_true_iff in W as [Wx W]. cbn [map v0_fold v0_sig_kv fst snd].
    unfold v0_in_step at 1. rewrite n8_b8_small by ty_small.
    unfold v0_wf_sig in Wx. rewrite !andb_true_iff in Wx. destruct Wx as [[[V1 V2] _] _].
    cbn [N.eqb Pos.eqb v0_T_PartialSig v0_T_NonWitnessUtxo v0_T_WitnessUtxo]. rewrite V1, V2. cbn [andb negb].
    rewrite map_app in N. cbn [map] in N.
    pose proof (nodupb_mid bytes_eqb _ _ _ N) as E. rewrite existsb_map_c in E. rewrite E.
    rewrite IH; [| exact W |].
    + cbn [vi_sigs v0_set_sigs]. rewrite <- app_assoc. destruct x; reflexivity.
    + cbn [vi_sigs v0_set_sigs]. rewrite <- app_assoc, map_app. destruct x; exact N.
Qed.

Lemma wf_der_vals d : v0_wf_der valid_pk d = true -> valid_pk (dv_pk d) = true /\ v0_wf_der_vals d.
Proof.
  unfold v0_wf_der, v0_wf_der_vals. rewrite !andb_true_iff. intros [[[[[A _] B] C] D] _].
  split; [exact A|]. split; [lia|]. split.
  - apply Forall_forall. intros x Hx. rewrite forallb_forall in C. specialize (C x Hx). lia.
  - destruct (dv_path d); [discriminate | discriminate].
Qed.

Lemma fold_ders l : forall st,
  forallb (v0_wf_der valid_pk) l = true ->
  v0_nodupb bytes_eqb (map dv_pk (vi_ders st ++ l)) = true ->
  v0_fold in_step st (map (v0_der_kv v0_T_Bip32) l) = Some (v0_set_ders st (vi_ders st ++ l)).
Proof.
  induction l as [|x l IH]; intros st W N.
  - cbn. rewrite app_nil_r, set_ders_id. reflexivity.
  - cbn [forallb] in W. apply andb_true_iff in W as [Wx W]. cbn [map v0_fold v0_der_kv fst snd].
    unfold v0_in_step at 1. rewrite n8_b8_small by ty_small.
    apply wf_der_vals in Wx as [V1 V2].
    cbn [N.eqb Pos.eqb v0_T_Bip32 v0_T_PartialSig v0_T_NonWitnessUtxo v0_T_WitnessUtxo v0_T_Sighash v0_T_RedeemScript v0_T_WitnessScript].
    rewrite V1. cbn [negb]. rewrite (v0_read_bip32_ser x V2).
    rewrite map_app in N. cbn [map] in N.
    pose proof (nodupb_mid bytes_eqb _ _ _ N) as E. rewrite existsb_map_c in E. rewrite E.
    rewrite IH; [| exact W |].
    + cbn [vi_ders v0_set_ders]. rewrite <- app_assoc. destruct x; reflexivity.
    + cbn [vi_ders v0_set_ders]. rewrite <- app_assoc, map_app. destruct x; exact N.
Qed.

Lemma fold_out_ders l : forall o,
  forallb (v0_wf_der valid_pk) l = true ->
  v0_nodupb bytes_eqb (map dv_pk (vo_ders o ++ l)) = true ->
  v0_fold out_step o (map (v0_der_kv v0_TO_Bip32) l) = Some (mk_v0out (vo_redeem o) (vo_wscript o) (vo_ders o ++ l)).
Proof.
  induction l as [|x l IH]; intros o W N.
  - cbn. rewrite app_nil_r. destruct o; reflexivity.
  - cbn [forallb] in W. apply andb_true_iff in W as [Wx W]. cbn [map v0_fold v0_der_kv fst snd].
    unfold v0_out_step at 1. rewrite n8_b8_small by ty_small.
    apply wf_der_vals in Wx as [V1 V2].
    cbn [N.eqb Pos.eqb v0_TO_Bip32 v0_TO_RedeemScript v0_TO_WitnessScript].
    rewrite V1. cbn [negb]. rewrite (v0_read_bip32_ser x V2).
    rewrite map_app in N. cbn [map] in N.
    pose proof (nodupb_mid bytes_eqb _ _ _ N) as E. rewrite existsb_map_c in E. rewrite E.
    rewrite IH; [| exact W |].
    + cbn [vo_ders vo_redeem vo_wscript]. rewrite <- app_assoc. destruct x; reflexivity.
    + cbn [vo_ders]. rewrite <- app_assoc, map_app. destruct x; exact N.
Qed.

Lemma step_unknown st k v tb kd : k = tb :: kd -> v0_known_in_type (n8 tb) = false ->
  in_step st k v =
  if existsb (fun u => bytes_eqb (uk_key u) k && bytes_eqb (uk_val u) v) (vi_unk st) then None
  else Some (v0_set_unk st (vi_unk st ++ [mk_v0unk k v])).
Proof.
  intros -> H. unfold v0_known_in_type, v0_T_FinalScriptWitness in H. apply N.leb_gt in H.
  unfold v0_in_step.
  repeat match goal with
  | |- context [N.eqb ?a ?b] => destruct (N.eqb_spec a b) as [Habs|_]; [exfalso; revert Habs; ty_small|]
  end. reflexivity.
Qed.

Lemma fold_unks l : forall st,
  forallb v0_wf_unk l = true ->
  v0_nodupb v0_unk_eqb (vi_unk st ++ l) = true ->
  v0_fold in_step st (map v0_unk_kv l) = Some (v0_set_unk st (vi_unk st ++ l)).
Proof.
  induction l as [|x l IH]; intros st W N.
  - cbn. rewrite app_nil_r, set_unk_id. reflexivity.
  - cbn [forallb] in W. apply andb_true_iff in W as [Wx W]. cbn [map v0_fold v0_unk_kv fst snd].
    unfold v0_wf_unk in Wx. rewrite !andb_true_iff in Wx. destruct Wx as [[Wk _] _].
    destruct (uk_key x) as [|tb kd] eqn:EK; [discriminate|]. apply negb_true_iff in Wk.
    rewrite (step_unknown st (tb :: kd) (uk_val x) tb kd eq_refl Wk).
    pose proof (nodupb_mid v0_unk_eqb _ _ _ N) as E. unfold v0_unk_eqb in E at 1. rewrite EK in E.
    cbn [uk_key uk_val] in E. rewrite E.
    rewrite IH; [| exact W |].
    + cbn [vi_unk v0_set_unk]. rewrite <- app_assoc. destruct x as [xk xv]. cbn in EK. subst xk. reflexivity.
    + cbn [vi_unk v0_set_unk]. rewrite <- app_assoc. destruct x as [xk xv]. cbn in EK. subst xk. exact N.
Qed.

End Fwd.

(* ---------- a whole input / output section ---------- *)
Section Sections.
Variable valid_pk valid_sig : bytes -> bool.
Notation in_step := (v0_in_step valid_pk valid_sig).
Notation out_step := (v0_out_step valid_pk).

Lemma set_nwu_id st : v0_set_nwu st (vi_nwu st) = st. Proof. destruct st; reflexivity. Qed.
Lemma set_wu_id st : v0_set_wu st (vi_wu st) = st. Proof. destruct st; reflexivity. Qed.
Lemma set_sighash_id st : v0_set_sighash st (vi_sighash st) = st. Proof. destruct st; reflexivity. Qed.
Lemma set_redeem_id st : v0_set_redeem st (vi_redeem st) = st. Proof. destruct st; reflexivity. Qed.
Lemma set_wscript_id st : v0_set_wscript st (vi_wscript st) = st. Proof. destruct st; reflexivity. Qed.
Lemma set_fsig_id st : v0_set_fsig st (vi_fsig st) = st. Proof. destruct st; reflexivity. Qed.
Lemma set_fwit_id st : v0_set_fwit st (vi_fwit st) = st. Proof. destruct st; reflexivity. Qed.

(* each segment of v0_in_kvs, continuation style *)
Lemma seg_nwu st x rest : vi_nwu st = None ->
  match x with Some t => wf_tx t = true | None => True end ->
  v0_fold in_step st ((match x with Some t => [([b8 v0_T_NonWitnessUtxo], ser_full t)] | None => [] end) ++ rest)
  = v0_fold in_step (v0_set_nwu st (option_map norm_tx x)) rest.
Proof.
  intros H W. destruct x as [t|]; cbn [app v0_fold fst snd option_map].
  - rewrite (step_nwu _ _ st t H W). reflexivity.
  - rewrite <- H, set_nwu_id. reflexivity.
Qed.
Lemma seg_wu st x rest : vi_wu st = None ->
  match x with Some o => wf_out o = true /\ v0_wu45 o = true | None => True end ->
  v0_fold in_step st ((match x with Some o => [([b8 v0_T_WitnessUtxo], v0_ser_wu o)] | None => [] end) ++ rest)
  = v0_fold in_step (v0_set_wu st (option_map v0_norm_wu x)) rest.
Proof.
  intros H W. destruct x as [o|]; cbn [app v0_fold fst snd option_map].
  - destruct W as [W L]. rewrite (step_wu _ _ st o H W L). reflexivity.
  - rewrite <- H, set_wu_id. reflexivity.
Qed.
Lemma seg_sigs st l rest : vi_sigs st = [] ->
  forallb (v0_wf_sig valid_pk valid_sig) l = true -> v0_nodupb bytes_eqb (map sg_pk l) = true ->
  v0_fold in_step st (map v0_sig_kv l ++ rest) = v0_fold in_step (v0_set_sigs st l) rest.
Proof.
  intros H W N. rewrite v0_fold_app, fold_sigs; [rewrite H; reflexivity | exact W | rewrite H; exact N].
Qed.
Lemma seg_sighash st x rest : vi_sighash st = 0 -> x < two32 ->
  v0_fold in_step st ((if x =? 0 then [] else [([b8 v0_T_Sighash], le_enc 4 x)]) ++ rest)
  = v0_fold in_step (v0_set_sighash st x) rest.
Proof.
  intros H W. destruct (N.eqb_spec x 0) as [->|]; cbn [app v0_fold fst snd].
  - rewrite <- H, set_sighash_id. reflexivity.
  - rewrite (step_sighash _ _ st x H W). reflexivity.
Qed.
Lemma seg_redeem st x rest : vi_redeem st = None ->
  v0_fold in_step st (v0_opt_kv v0_T_RedeemScript x ++ rest) = v0_fold in_step (v0_set_redeem st x) rest.
Proof.
  intro H. destruct x as [v|]; cbn [v0_opt_kv app v0_fold fst snd].
  - rewrite (step_redeem _ _ st v H). reflexivity.
  - rewrite <- H, set_redeem_id. reflexivity.
Qed.
Lemma seg_wscript st x rest : vi_wscript st = None ->
  v0_fold in_step st (v0_opt_kv v0_T_WitnessScript x ++ rest) = v0_fold in_step (v0_set_wscript st x) rest.
Proof.
  intro H. destruct x as [v|]; cbn [v0_opt_kv app v0_fold fst snd].
  - rewrite (step_wscript _ _ st v H). reflexivity.
  - rewrite <- H, set_wscript_id. reflexivity.
Qed.
Lemma seg_ders st l rest : vi_ders st = [] ->
  forallb (v0_wf_der valid_pk) l = true -> v0_nodupb bytes_eqb (map dv_pk l) = true ->
  v0_fold in_step st (map (v0_der_kv v0_T_Bip32) l ++ rest) = v0_fold in_step (v0_set_ders st l) rest.
Proof.
  intros H W N. rewrite v0_fold_app, fold_ders; [rewrite H; reflexivity | exact W | rewrite H; exact N].
Qed.
Lemma seg_fsig st x rest : vi_fsig st = None ->
  v0_fold in_step st (v0_opt_kv v0_T_FinalScriptSig x ++ rest) = v0_fold in_step (v0_set_fsig st x) rest.
Proof.
  intro H. destruct x as [v|]; cbn [v0_opt_kv app v0_fold fst snd].
  - rewrite (step_fsig _ _ st v H). reflexivity.
  - rewrite <- H, set_fsig_id. reflexivity.
Qed.
Lemma seg_fwit st x rest : vi_fwit st = None ->
  v0_fold in_step st (v0_opt_kv v0_T_FinalScriptWitness x ++ rest) = v0_fold in_step (v0_set_fwit st x) rest.
Proof.
  intro H. destruct x as [v|]; cbn [v0_opt_kv app v0_fold fst snd].
  - rewrite (step_fwit _ _ st v H). reflexivity.
  - rewrite <- H, set_fwit_id. reflexivity.
Qed.

Lemma sorted_sigs_ok l :
  forallb (v0_wf_sig valid_pk valid_sig) l = true -> v0_nodupb bytes_eqb (map sg_pk l) = true ->
  forallb (v0_wf_sig valid_pk valid_sig) (v0_sort sg_pk l) = true /\
  v0_nodupb bytes_eqb (map sg_pk (v0_sort sg_pk l)) = true.
Proof.
  intros W N. pose proof (Permutation_sym (v0_sort_perm sg_pk l)) as P. split.
  - exact (forallb_perm _ _ _ P W).
  - exact (nodupb_perm bytes_eqb bytes_eqb_eq _ _ (Permutation_map sg_pk P) N).
Qed.
Lemma sorted_ders_ok l :
  forallb (v0_wf_der valid_pk) l = true -> v0_nodupb bytes_eqb (map dv_pk l) = true ->
  forallb (v0_wf_der valid_pk) (v0_sort dv_pk l) = true /\
  v0_nodupb bytes_eqb (map dv_pk (v0_sort dv_pk l)) = true.
Proof.
  intros W N. pose proof (Permutation_sym (v0_sort_perm dv_pk l)) as P. split.
  - exact (forallb_perm _ _ _ P W).
  - exact (nodupb_perm bytes_eqb bytes_eqb_eq _ _ (Permutation_map dv_pk P) N).
Qed.

Ltac btrue' :=
  repeat match goal with
  | H : _ && _ = true |- _ => apply andb_true_iff in H; destruct H
  end.

Lemma in_fold i : v0_wf_in_core valid_pk valid_sig i = true -> v0_wu45_in i = true ->
  v0_fold in_step v0_in_empty (v0_in_kvs i) = Some (v0_norm_in i).
Proof.
  destruct i as [nwu wu sigs sh rd ws ders fs fw unk].
  unfold v0_wf_in_core, v0_wu45_in, v0_in_kvs, v0_norm_in.
  cbn [vi_nwu vi_wu vi_sigs vi_sighash vi_redeem vi_wscript vi_ders vi_fsig vi_fwit vi_unk].
  intros W L. btrue'.
  match goal with H : forallb (v0_wf_sig _ _) sigs = true, H' : v0_nodupb _ (map sg_pk sigs) = true |- _ =>
    destruct (sorted_sigs_ok sigs H H') as [SS SN] end.
  match goal with H : forallb (v0_wf_der _) ders = true, H' : v0_nodupb _ (map dv_pk ders) = true |- _ =>
    destruct (sorted_ders_ok ders H H') as [DS DN] end.
  rewrite seg_nwu; [| reflexivity |].
  2:{ destruct nwu as [t|]; [|exact I]. unfold v0_wf_nwu in *. btrue'. assumption. }
  rewrite seg_wu; [| reflexivity |].
  2:{ destruct wu as [o|]; [|exact I]. unfold v0_wf_wu in *. btrue'. split; assumption. }
  set (fin := v0_finalized _). destruct fin eqn:F; cbn [app].
  - rewrite seg_fsig by reflexivity. rewrite seg_fwit by reflexivity.
    rewrite fold_unks; [reflexivity | assumption | assumption].
  - rewrite <- !app_assoc.
    rewrite seg_sigs; [| reflexivity | exact SS | exact SN].
    rewrite seg_sighash; [| reflexivity | apply N.ltb_lt; assumption].
    rewrite seg_redeem by reflexivity. rewrite seg_wscript by reflexivity.
    rewrite seg_ders; [| reflexivity | exact DS | exact DN].
    rewrite seg_fsig by reflexivity. rewrite seg_fwit by reflexivity.
    rewrite fold_unks; [reflexivity | assumption | assumption].
Qed.

Lemma seg_out_opt0 o x rest : vo_redeem o = None ->
  v0_fold out_step o (v0_opt_kv v0_TO_RedeemScript x ++ rest) = v0_fold out_step (mk_v0out x (vo_wscript o) (vo_ders o)) rest.
Proof.
  intro H. destruct x as [v|]; cbn [v0_opt_kv app v0_fold fst snd].
  - unfold v0_out_step at 1. rewrite n8_b8_small by (unfold v0_TO_RedeemScript; lia). rewrite H. reflexivity.
  - rewrite <- H. destruct o; reflexivity.
Qed.
Lemma seg_out_opt1 o x rest : vo_wscript o = None ->
  v0_fold out_step o (v0_opt_kv v0_TO_WitnessScript x ++ rest) = v0_fold out_step (mk_v0out (vo_redeem o) x (vo_ders o)) rest.
Proof.
  intro H. destruct x as [v|]; cbn [v0_opt_kv app v0_fold fst snd].
  - unfold v0_out_step at 1. rewrite n8_b8_small by (unfold v0_TO_WitnessScript; lia). rewrite H. reflexivity.
  - rewrite <- H. destruct o; reflexivity.
Qed.

Lemma out_fold o : v0_wf_out valid_pk o = true ->
  v0_fold out_step v0_out_empty (v0_out_kvs o) = Some (v0_norm_out o).
Proof.
  destruct o as [rd ws ders]. unfold v0_wf_out, v0_out_kvs, v0_norm_out. cbn [vo_redeem vo_wscript vo_ders].
  intro W. btrue'.
  match goal with H : forallb (v0_wf_der _) ders = true, H' : v0_nodupb _ (map dv_pk ders) = true |- _ =>
    destruct (sorted_ders_ok ders H H') as [DS DN] end.
  rewrite seg_out_opt0 by reflexivity. rewrite seg_out_opt1 by reflexivity.
  rewrite fold_out_ders; [reflexivity | exact DS | exact DN].
Qed.

(* every pair the encoder emits is within the key and value length limits *)
Lemma Forall_map_kv {A} (f : A -> bytes * bytes) l : (forall a, In a l -> v0_wf_kvp (f a)) -> Forall v0_wf_kvp (map f l).
Proof. intro H. apply Forall_forall. intros x Hx. apply in_map_iff in Hx as [a [<- Ha]]. apply H; exact Ha. Qed.

Lemma opt_kv_wf ty o : v0_wf_script o = true -> Forall v0_wf_kvp (v0_opt_kv ty o).
Proof.
  destruct o as [v|]; cbn [v0_opt_kv v0_wf_script]; [|constructor]. unfold v0_len_ok. intro H. constructor; [|constructor].
  unfold v0_wf_kvp, v0_MaxKeyLen, lenN in *. cbn [fst snd length]. lia.
Qed.

Lemma der_kv_wf ty d : v0_wf_der valid_pk d = true -> v0_wf_kvp (v0_der_kv ty d).
Proof.
  unfold v0_wf_der, v0_len_ok. rewrite !andb_true_iff. intros [[[[[_ A] _] _] _] B].
  unfold v0_wf_kvp, v0_der_kv, lenN in *. cbn [fst snd length]. lia.
Qed.

Lemma kvp_single ty v : v0_len_ok v0_MaxValLen v = true -> v0_wf_kvp ([b8 ty], v).
Proof.
  unfold v0_len_ok. intro H. unfold v0_wf_kvp, v0_MaxKeyLen, lenN in *. cbn [fst snd length]. lia.
Qed.
Lemma sig_kv_wf s : v0_wf_sig valid_pk valid_sig s = true -> v0_wf_kvp (v0_sig_kv s).
Proof.
  unfold v0_wf_sig, v0_len_ok. rewrite !andb_true_iff. intros [[_ A] B].
  unfold v0_wf_kvp, v0_sig_kv, lenN in *. cbn [fst snd length]. lia.
Qed.
Lemma unk_kv_wf u : v0_wf_unk u = true -> v0_wf_kvp (v0_unk_kv u).
Proof.
  unfold v0_wf_unk, v0_len_ok. rewrite !andb_true_iff. intros [[A B] C].
  unfold v0_wf_kvp, v0_unk_kv, lenN in *. cbn [fst snd]. destruct (uk_key u); [discriminate|]. cbn [length] in *. lia.
Qed.
Lemma sighash_kv_wf x : v0_wf_kvp ([b8 v0_T_Sighash], le_enc 4 x).
Proof. unfold v0_wf_kvp, v0_MaxKeyLen, v0_MaxValLen, lenN. cbn [fst snd length]. rewrite le_enc_length. lia. Qed.

Lemma in_kvs_wf i : v0_wf_in_core valid_pk valid_sig i = true -> Forall v0_wf_kvp (v0_in_kvs i).
Proof.
  destruct i as [nwu wu sigs sh rd ws ders fs fw unk].
  unfold v0_wf_in_core, v0_in_kvs.
  cbn [vi_nwu vi_wu vi_sigs vi_sighash vi_redeem vi_wscript vi_ders vi_fsig vi_fwit vi_unk].
  intros W. btrue'.
  match goal with H : forallb (v0_wf_sig _ _) sigs = true, H' : v0_nodupb _ (map sg_pk sigs) = true |- _ =>
    destruct (sorted_sigs_ok sigs H H') as [SS _] end.
  match goal with H : forallb (v0_wf_der _) ders = true, H' : v0_nodupb _ (map dv_pk ders) = true |- _ =>
    destruct (sorted_ders_ok ders H H') as [DS _] end.
  repeat (apply Forall_app; split).
  - destruct nwu as [t|]; [|constructor]. unfold v0_wf_nwu in *. btrue'.
    constructor; [|constructor]. apply kvp_single; assumption.
  - destruct wu as [o|]; [|constructor]. unfold v0_wf_wu in *. btrue'.
    constructor; [|constructor]. apply kvp_single; assumption.
  - destruct (v0_finalized _); [constructor|]. repeat (apply Forall_app; split).
    + apply Forall_map_kv. intros s Hs. rewrite forallb_forall in SS. apply sig_kv_wf. apply SS; exact Hs.
    + destruct (sh =? 0); [constructor|]. constructor; [|constructor]. apply sighash_kv_wf.
    + apply opt_kv_wf; assumption.
    + apply opt_kv_wf; assumption.
    + apply Forall_map_kv. intros d Hd. rewrite forallb_forall in DS. apply der_kv_wf. apply DS; exact Hd.
  - apply opt_kv_wf; assumption.
  - apply opt_kv_wf; assumption.
  - apply Forall_map_kv. intros u Hu.
    match goal with H : forallb v0_wf_unk unk = true |- _ => rewrite forallb_forall in H; apply unk_kv_wf; apply H; exact Hu end.
Qed.

Lemma out_kvs_wf o : v0_wf_out valid_pk o = true -> Forall v0_wf_kvp (v0_out_kvs o).
Proof.
  destruct o as [rd ws ders]. unfold v0_wf_out, v0_out_kvs. cbn [vo_redeem vo_wscript vo_ders]. intro W. btrue'.
  match goal with H : forallb (v0_wf_der _) ders = true, H' : v0_nodupb _ (map dv_pk ders) = true |- _ =>
    destruct (sorted_ders_ok ders H H') as [DS _] end.
  repeat (apply Forall_app; split); try (apply opt_kv_wf; assumption).
  apply Forall_map_kv. intros d Hd. rewrite forallb_forall in DS. apply der_kv_wf. apply DS; exact Hd.
Qed.

Lemma in_section_app i rest : v0_wf_in_core valid_pk valid_sig i = true -> v0_wu45_in i = true ->
  v0_section in_step v0_in_empty (v0_ser_section (v0_in_kvs i) ++ rest) = Some (v0_norm_in i, rest).
Proof. intros W L. apply v0_section_app; [apply in_kvs_wf; exact W | apply in_fold; assumption]. Qed.

Lemma out_section_app o rest : v0_wf_out valid_pk o = true ->
  v0_section out_step v0_out_empty (v0_ser_section (v0_out_kvs o) ++ rest) = Some (v0_norm_out o, rest).
Proof. intros W. apply v0_section_app; [apply out_kvs_wf; exact W | apply out_fold; assumption]. Qed.

End Sections.

(* ---------- the whole packet ---------- *)
Lemma v0_sections_app {St A X} (p : parser St) (e : A -> bytes) (f : A -> St) (l : list A) :
  (forall a, In a l -> forall r, p (e a ++ r) = Some (f a, r)) ->
  forall (xs : list X) rest, length l = length xs ->
  v0_sections p xs (concat (map e l) ++ rest) = Some (map f l, rest).
Proof.
  induction l as [|a l IH]; intros Hp xs rest L; destruct xs as [|x xs]; try discriminate; [reflexivity|].
  cbn [map concat v0_sections]. unfold bind. rewrite <- app_assoc. rewrite Hp by (left; reflexivity).
  rewrite IH; [reflexivity | intros; apply Hp; right; assumption | cbn [length] in L; lia].
Qed.

Lemma v0_sections_length {St X} (p : parser St) (xs : list X) : forall bs l rest,
  v0_sections p xs bs = Some (l, rest) -> length l = length xs.
Proof.
  induction xs as [|x xs IH]; intros bs l rest; cbn [v0_sections]; unfold bind, ret.
  - intro HH; inversion HH; reflexivity.
  - destruct (p bs) as [[a r]|]; [|discriminate]. destruct (v0_sections p xs r) as [[b r']|] eqn:E; [|discriminate].
    intro HH; inversion HH; subst. cbn [length]. f_equal. apply (IH _ _ _ E).
Qed.

Lemma v0_sane_norm i : v0_sane i = true -> v0_sane (v0_norm_in i) = true.
Proof.
  destruct i as [nwu wu sigs sh rd ws ders fs fw unk]. unfold v0_sane, v0_norm_in, v0_finalized.
  cbn [vi_nwu vi_wu vi_wscript vi_fwit vi_fsig].
  destruct nwu, wu, ws, fs, fw; cbn; intro H; try discriminate; reflexivity.
Qed.

Section Packet.
Variable valid_pk valid_sig : bytes -> bool.
Notation parse := (v0_parse valid_pk valid_sig).
Notation wf := (v0_wf valid_pk valid_sig).
Notation wf_core := (v0_wf_core valid_pk valid_sig).

Lemma wf_core_parts p : wf_core p = true ->
  wf_tx (vp_tx p) = true /\ v0_unsigned_ok (vp_tx p) = true /\ lenN (ser_full (vp_tx p)) <= v0_MaxValLen /\
  length (vp_ins p) = length (t_ins (vp_tx p)) /\ length (vp_outs p) = length (t_outs (vp_tx p)) /\
  forallb (v0_wf_in_core valid_pk valid_sig) (vp_ins p) = true /\ forallb v0_sane (vp_ins p) = true /\
  forallb (v0_wf_out valid_pk) (vp_outs p) = true.
Proof.
  unfold v0_wf_core, v0_len_ok. rewrite !andb_true_iff. intros [[[[[[[A B] C] D] E] F] G] H].
  apply Nat.eqb_eq in D, E. apply N.leb_le in C. repeat split; assumption.
Qed.

(* C08, first clause: what ToHex/ToBase64 write is accepted by the parsers and yields the packet
   up to v0_norm, whatever follows the last section *)
Theorem v0_parse_ser p extra : wf p = true ->
  exists bs, v0_ser p = Some bs /\ parse (bs ++ extra) = Some (v0_norm p).
Proof.
  unfold v0_wf. intro W. apply andb_true_iff in W as [WC W45].
  apply wf_core_parts in WC as (Wt & Wu & Wl & Li & Lo & Wi & Ws & Wo).
  unfold v0_ser. rewrite Ws. eexists. split; [reflexivity|].
  unfold v0_parse, bind. rewrite <- !app_assoc.
  rewrite (take_app_n 5) by reflexivity.
  change (bytes_eqb v0_magic v0_magic) with true. cbn [negb].
  unfold v0_ser_section at 1, v0_global_kvs, enc_list. cbn [map concat]. unfold v0_kv at 1. cbn [fst snd].
  rewrite <- !app_assoc.
  rewrite v0_p_key_app by (unfold lenN, v0_MaxKeyLen; cbn [length]; lia).
  rewrite n8_b8_small by (unfold v0_T_UnsignedTx; lia).
  change (negb (v0_T_UnsignedTx =? v0_T_UnsignedTx)) with false. cbn iota.
  rewrite v0_p_val_app by exact Wl.
  rewrite (v0_parse_tx_value_ser _ Wt).
  change (v0_unsigned_ok (norm_tx (vp_tx p))) with (v0_unsigned_ok (vp_tx p)). rewrite Wu. cbn [negb].
  cbn [app].
  change (v0_sep ++ ?x) with (v0_ser_section [] ++ x).
  rewrite (v0_section_app (v0_gunk_step) [] [] [] _ (Forall_nil _) eq_refl).
  change (t_ins (norm_tx (vp_tx p))) with (t_ins (vp_tx p)).
  change (t_outs (norm_tx (vp_tx p))) with (t_outs (vp_tx p)).
  rewrite (v0_sections_app _ (fun i => v0_ser_section (v0_in_kvs i)) v0_norm_in (vp_ins p)); [| | exact Li].
  2:{ intros i Hi r. rewrite forallb_forall in Wi, W45. apply in_section_app; [apply Wi | apply W45]; exact Hi. }
  rewrite (v0_sections_app _ (fun o => v0_ser_section (v0_out_kvs o)) v0_norm_out (vp_outs p)); [| | exact Lo].
  2:{ intros o Ho r. rewrite forallb_forall in Wo. apply out_section_app; apply Wo; exact Ho. }
  assert (SN : forallb v0_sane (map v0_norm_in (vp_ins p)) = true).
  { apply forallb_forall. intros x Hx. apply in_map_iff in Hx as [i [<- Hi]].
    apply v0_sane_norm. rewrite forallb_forall in Ws. apply Ws; exact Hi. }
  rewrite SN. reflexivity.
Qed.

End Packet.
