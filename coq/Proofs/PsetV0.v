(* Proofs/PsetV0.v — round-trip theorems for the PSET v0 codec (C08). *)
From GE Require Import Lib.Bytes Lib.Varint Model.Tx Proofs.TxCodec Model.PsetV0 Gen.PsetV0Consts.
From Coq Require Import ZifyBool ZifyN ZifyNat Permutation.
Open Scope N_scope.

(* the magic bytes are those of today's pset/pset.go *)
Definition v0_consts_tied : Prop :=
  map (fun b => Z.of_N (n8 b)) v0_magic = g_psbtMagic /\ Z.of_nat (length v0_magic) = g_psbtMagicLength.
Lemma v0_consts_tied_holds : v0_consts_tied.
Proof. split; reflexivity. Qed.

(* ---------- small generic facts ---------- *)
Lemma existsb_map_c {A B} (f : B -> bool) (g : A -> B) l : existsb f (map g l) = existsb (fun x => f (g x)) l.
Proof. induction l as [|a l IH]; cbn; [reflexivity | rewrite IH; reflexivity]. Qed.

Lemma bytes_eqb_refl a : bytes_eqb a a = true.
Proof. apply bytes_eqb_eq; reflexivity. Qed.

Section NoDupB.
Context {A : Type} (eqb : A -> A -> bool) (eqb_spec : forall a b, eqb a b = true <-> a = b).

Lemma nodupb_NoDup l : v0_nodupb eqb l = true <-> NoDup l.
Proof.
  induction l as [|x l IH]; cbn [v0_nodupb].
  - split; [constructor | reflexivity].
  - rewrite andb_true_iff, negb_true_iff, IH. split.
    + intros [H1 H2]. constructor; [|exact H2]. intro Hin.
      assert (existsb (eqb x) l = true) as E; [|congruence].
      apply existsb_exists. exists x. split; [exact Hin | apply eqb_spec; reflexivity].
    + intro N. inversion N as [|? ? Hn Hd]; subst. split; [|exact Hd].
      destruct (existsb (eqb x) l) eqn:E; [|reflexivity].
      apply existsb_exists in E as [y [Hy Ey]]. apply eqb_spec in Ey. subst y. contradiction.
Qed.

Lemma nodupb_perm l l' : Permutation l l' -> v0_nodupb eqb l = true -> v0_nodupb eqb l' = true.
Proof. intros P H. apply nodupb_NoDup. apply (Permutation_NoDup P). apply nodupb_NoDup. exact H. Qed.

(* what the decoder's duplicate test needs: nothing before x equals x *)
Lemma nodupb_mid a x l : v0_nodupb eqb (a ++ x :: l) = true -> existsb (fun y => eqb y x) a = false.
Proof.
  induction a as [|y a IH]; cbn [app v0_nodupb existsb]; [reflexivity|].
  intro H. apply andb_true_iff in H as [H1 H2]. apply negb_true_iff in H1.
  rewrite existsb_app in H1. cbn [existsb] in H1. apply orb_false_iff in H1 as [_ H1].
  apply orb_false_iff in H1 as [H1 _]. rewrite H1, (IH H2). reflexivity.
Qed.

Lemma nodupb_snoc l x :
  v0_nodupb eqb l = true -> existsb (fun y => eqb y x) l = false -> v0_nodupb eqb (l ++ [x]) = true.
Proof.
  induction l as [|y l IH]; cbn [app v0_nodupb existsb]; [reflexivity|].
  intros H E. apply andb_true_iff in H as [H1 H2]. apply orb_false_iff in E as [E1 E2].
  rewrite existsb_app. cbn [existsb]. apply negb_true_iff in H1. rewrite H1, E1. cbn. apply IH; assumption.
Qed.
End NoDupB.

Lemma unk_eqb_spec a b : v0_unk_eqb a b = true <-> a = b.
Proof.
  destruct a as [k1 v1], b as [k2 v2]. unfold v0_unk_eqb. cbn [uk_key uk_val].
  rewrite andb_true_iff, !bytes_eqb_eq. split; [intros [-> ->]; reflexivity | intro H; inversion H; auto].
Qed.

(* ---------- sorting ---------- *)
Lemma v0_insert_perm {A} (key : A -> bytes) a l : Permutation (v0_insert key a l) (a :: l).
Proof.
  induction l as [|y l IH]; cbn [v0_insert]; [apply Permutation_refl|].
  destruct (v0_bytes_ltb (key y) (key a)); [|apply Permutation_refl].
  eapply perm_trans; [apply perm_skip; exact IH | apply perm_swap].
Qed.
Lemma v0_sort_perm {A} (key : A -> bytes) l : Permutation (v0_sort key l) l.
Proof.
  induction l as [|a l IH]; cbn; [constructor|]. fold (v0_sort key l).
  eapply perm_trans; [apply v0_insert_perm | apply perm_skip; exact IH].
Qed.
Lemma v0_sort_sorted {A} (key : A -> bytes) l : v0_sortedb key l = true -> v0_sort key l = l.
Proof.
  induction l as [|a l IH]; [reflexivity|]. cbn [v0_sortedb]. intro H. apply andb_true_iff in H as [H1 H2].
  cbn [v0_sort fold_right]. fold (v0_sort key l). rewrite (IH H2).
  destruct l as [|b l]; [reflexivity|]. cbn [v0_insert]. apply negb_true_iff in H1. rewrite H1. reflexivity.
Qed.
Lemma forallb_perm {A} (f : A -> bool) l l' : Permutation l l' -> forallb f l = true -> forallb f l' = true.
Proof.
  intros P H. apply forallb_forall. intros x Hx. rewrite forallb_forall in H. apply H.
  apply (Permutation_in x (Permutation_sym P) Hx).
Qed.

(* ---------- framing: one key/value pair, one section ---------- *)
Definition v0_wf_kvp (kv : bytes * bytes) : Prop :=
  1 <= lenN (fst kv) /\ lenN (fst kv) <= v0_MaxKeyLen /\ lenN (snd kv) <= v0_MaxValLen.

Fixpoint v0_fold {St} (step : St -> bytes -> bytes -> option St) (st : St) (l : list (bytes * bytes)) : option St :=
  match l with
  | [] => Some st
  | kv :: r => match step st (fst kv) (snd kv) with Some st' => v0_fold step st' r | None => None end
  end.

Lemma v0_fold_app {St} (step : St -> bytes -> bytes -> option St) st l1 l2 :
  v0_fold step st (l1 ++ l2) = match v0_fold step st l1 with Some s => v0_fold step s l2 | None => None end.
Proof.
  revert st; induction l1 as [|kv l1 IH]; intro st; cbn [app v0_fold]; [reflexivity|].
  destruct (step st (fst kv) (snd kv)); [apply IH | reflexivity].
Qed.

Lemma v0_p_key_sep r : v0_p_key (v0_sep ++ r) = Some (None, r).
Proof. reflexivity. Qed.

Lemma v0_p_key_app k r : 1 <= lenN k -> lenN k <= v0_MaxKeyLen -> v0_p_key (var_slice k ++ r) = Some (Some k, r).
Proof.
  intros H1 H2. unfold v0_p_key, var_slice, bind, v0_MaxKeyLen in *. rewrite <- app_assoc.
  rewrite p_varint_app by (unfold two64; lia).
  destruct (N.eqb_spec (lenN k) 0); [lia|]. destruct (N.ltb_spec 10000 (lenN k)); [lia|].
  unfold lenN. rewrite takeN_app. reflexivity.
Qed.

Lemma v0_p_val_app v r : lenN v <= v0_MaxValLen -> v0_p_val (var_slice v ++ r) = Some (v, r).
Proof.
  intro H. unfold v0_p_val, var_slice, bind, v0_MaxValLen in *. rewrite <- app_assoc.
  rewrite p_varint_app by (unfold two64; lia).
  destruct (N.ltb_spec 4000000 (lenN v)); [lia|]. unfold lenN. apply takeN_app.
Qed.

Lemma v0_p_key_inv bs k r : v0_p_key bs = Some (Some k, r) ->
  bs = var_slice k ++ r /\ 1 <= lenN k /\ lenN k <= v0_MaxKeyLen.
Proof.
  unfold v0_p_key, bind. destruct (p_varint bs) as [[n r0]|] eqn:P; [|discriminate].
  apply p_varint_inv in P as [-> Hn].
  destruct (N.eqb_spec n 0); [discriminate|]. unfold v0_MaxKeyLen.
  destruct (N.ltb_spec 10000 n); [discriminate|].
  destruct (takeN n r0) as [[k' r']|] eqn:T; [|discriminate]. intro HH; inversion HH; subst.
  apply takeN_inv in T as [-> E]. unfold var_slice, lenN. rewrite <- app_assoc, E. repeat split; lia.
Qed.

Lemma v0_p_key_inv_sep bs r : v0_p_key bs = Some (None, r) -> bs = v0_sep ++ r.
Proof.
  unfold v0_p_key, bind. destruct (p_varint bs) as [[n r0]|] eqn:P; [|discriminate].
  apply p_varint_inv in P as [-> Hn].
  destruct (N.eqb_spec n 0) as [->|].
  - intro HH; inversion HH; subst. reflexivity.
  - destruct (v0_MaxKeyLen <? n); [discriminate|]. destruct (takeN n r0) as [[k' r']|]; discriminate.
Qed.

Lemma v0_p_val_inv bs v r : v0_p_val bs = Some (v, r) -> bs = var_slice v ++ r /\ lenN v <= v0_MaxValLen.
Proof.
  unfold v0_p_val, bind. destruct (p_varint bs) as [[n r0]|] eqn:P; [|discriminate].
  apply p_varint_inv in P as [-> Hn]. unfold v0_MaxValLen.
  destruct (N.ltb_spec 4000000 n); [discriminate|]. intro T.
  apply takeN_inv in T as [-> E]. unfold var_slice, lenN. rewrite <- app_assoc, E. split; [reflexivity | lia].
Qed.

Lemma v0_kv_nonempty kv : v0_kv kv <> [].
Proof.
  unfold v0_kv. pose proof (var_slice_nonempty (fst kv)) as H.
  destruct (var_slice (fst kv)); [congruence | discriminate].
Qed.

(* a written section is read back as the fold of the decode switch over the pairs written *)
Lemma v0_p_section_app {St} (step : St -> bytes -> bytes -> option St) l :
  Forall v0_wf_kvp l -> forall st st' fuel rest,
  v0_fold step st l = Some st' -> (length l < fuel)%nat ->
  v0_p_section step fuel st (v0_ser_section l ++ rest) = Some (st', rest).
Proof.
  unfold v0_ser_section. induction 1 as [|kv l [K1 [K2 K3]] _ IH]; intros st st' fuel rest F L.
  - cbn in F. inversion F; subst. destruct fuel as [|f]; [cbn in L; lia|]. reflexivity.
  - destruct fuel as [|f]; [cbn in L; lia|]. cbn [v0_fold] in F.
    destruct (step st (fst kv) (snd kv)) as [st1|] eqn:S1; [|discriminate].
    unfold enc_list. cbn [map concat v0_p_section]. unfold v0_kv at 1. rewrite <- !app_assoc.
    rewrite v0_p_key_app by assumption. rewrite v0_p_val_app by assumption. rewrite S1.
    fold (enc_list v0_kv l). rewrite app_assoc. apply IH; [exact F | cbn [length] in L; lia].
Qed.

Lemma v0_section_app {St} (step : St -> bytes -> bytes -> option St) l st st' rest :
  Forall v0_wf_kvp l -> v0_fold step st l = Some st' ->
  v0_section step st (v0_ser_section l ++ rest) = Some (st', rest).
Proof.
  intros W F. unfold v0_section. apply v0_p_section_app; [exact W | exact F|].
  unfold v0_ser_section. rewrite !app_length.
  pose proof (enc_list_length_ge v0_kv l (fun a _ => v0_kv_nonempty a)). lia.
Qed.

(* an accepted section is the fold of the switch over well-framed pairs *)
Lemma v0_p_section_inv {St} (step : St -> bytes -> bytes -> option St) fuel :
  forall st bs st' rest, v0_p_section step fuel st bs = Some (st', rest) ->
  exists l, v0_fold step st l = Some st' /\ Forall v0_wf_kvp l /\ bs = v0_ser_section l ++ rest.
Proof.
  induction fuel as [|f IH]; intros st bs st' rest H; cbn [v0_p_section] in H; [discriminate|].
  destruct (v0_p_key bs) as [[[k|] r]|] eqn:K; [| |discriminate].
  - destruct (v0_p_val r) as [[v r']|] eqn:V; [|discriminate].
    destruct (step st k v) as [st1|] eqn:S1; [|discriminate].
    apply v0_p_key_inv in K as [-> [K1 K2]]. apply v0_p_val_inv in V as [-> V1].
    apply IH in H as [l [F [W ->]]]. exists ((k, v) :: l). cbn [v0_fold fst snd]. rewrite S1.
    split; [exact F|]. split; [constructor; [repeat split; assumption | exact W]|].
    unfold v0_ser_section, enc_list. cbn [map concat].
    change (v0_kv (k, v)) with (var_slice k ++ var_slice v). rewrite <- !app_assoc. reflexivity.
  - inversion H; subst. apply v0_p_key_inv_sep in K as ->. exists []. repeat split; constructor.
Qed.

(* the fuel handed out by v0_section is never exhausted: any two fuels above the length agree *)
Lemma v0_p_section_fuel {St} (step : St -> bytes -> bytes -> option St) f1 :
  forall f2 st bs, (length bs < f1)%nat -> (length bs < f2)%nat ->
  v0_p_section step f1 st bs = v0_p_section step f2 st bs.
Proof.
  induction f1 as [|f1 IH]; intros f2 st bs L1 L2; [lia|]. destruct f2 as [|f2]; [lia|].
  cbn [v0_p_section]. destruct (v0_p_key bs) as [[[k|] r]|] eqn:K; try reflexivity.
  destruct (v0_p_val r) as [[v r']|] eqn:V; [|reflexivity].
  destruct (step st k v) as [st1|]; [|reflexivity].
  apply v0_p_key_inv in K as [-> [K1 K2]]. apply v0_p_val_inv in V as [-> V1].
  pose proof (var_slice_nonempty k) as NE.
  rewrite !app_length in L1, L2. destruct (var_slice k); [congruence|]. cbn [length] in L1, L2.
  apply IH; lia.
Qed.

(* ---------- values: witness UTXO, BIP32 derivation, transactions ---------- *)
Lemma n8_b8_small v : v < 256 -> n8 (b8 v) = v.
Proof. intro H. rewrite n8_b8. apply N.mod_small. exact H. Qed.

Lemma v0_is_conf_strip o : v0_is_conf (strip_out o) = v0_is_conf o.
Proof. reflexivity. Qed.

Lemma v0_read_txout_ser o :
  wf_out o = true -> v0_wufloor o = true -> v0_read_txout (v0_ser_wu o) = Some (v0_norm_wu o).
Proof.
  intros W L. unfold v0_read_txout. unfold v0_wufloor in L.
  destruct (Nat.ltb_spec (length (v0_ser_wu o)) v0_MinTxOutLen) as [Hlt|Hge]; [lia|].
  pose proof (wf_out_parts o W) as (_ & _ & _ & _ & Hrp & Hsp).
  unfold v0_ser_wu, bind. rewrite (p_out_app o _ W). rewrite v0_is_conf_strip. unfold v0_norm_wu.
  destruct (v0_is_conf o).
  - rewrite p_var_slice_app by exact Hsp.
    rewrite <- (app_nil_r (var_slice (o_rp o))). rewrite p_var_slice_app by exact Hrp.
    unfold ret. destruct o; reflexivity.
  - unfold ret. reflexivity.
Qed.

Lemma v0_read_txout_inv v o : v0_read_txout v = Some o ->
  wf_out o = true /\ (exists rest, v = v0_ser_wu o ++ rest) /\ v0_norm_wu o = o.
Proof.
  unfold v0_read_txout. destruct (length v <? v0_MinTxOutLen)%nat; [discriminate|]. unfold bind.
  destruct (p_out v) as [[o1 r1]|] eqn:P; [|discriminate].
  apply p_out_inv in P as [-> [W1 S1]].
  destruct (v0_is_conf o1) eqn:C.
  - destruct (p_var_slice r1) as [[sp r2]|] eqn:P2; [|discriminate].
    destruct (p_var_slice r2) as [[rp r3]|] eqn:P3; [|discriminate].
    unfold ret. intro HH; inversion HH; subst.
    apply p_var_slice_inv in P2 as [-> Hsp]. apply p_var_slice_inv in P3 as [-> Hrp].
    apply wf_out_parts in W1 as (A1 & A2 & A3 & A4 & _).
    split; [|split].
    + unfold wf_out, wf_slice. cbn [o_asset o_value o_script o_nonce o_rp o_sp]. rewrite A1, A2, A3.
      destruct (N.ltb_spec (lenN (o_script o1)) two64); [|lia].
      destruct (N.ltb_spec (lenN rp) two64); [|lia]. destruct (N.ltb_spec (lenN sp) two64); [|lia]. reflexivity.
    + exists r3. unfold v0_ser_wu, v0_is_conf in *. cbn [o_asset o_value o_script o_nonce o_rp o_sp].
      rewrite C. unfold ser_out. cbn [o_asset o_value o_script o_nonce o_rp o_sp]. rewrite <- !app_assoc. reflexivity.
    + unfold v0_norm_wu, v0_is_conf in *. cbn [o_nonce]. rewrite C. reflexivity.
  - unfold ret. intro HH; inversion HH; subst. split; [exact W1|]. split.
    + exists r1. unfold v0_ser_wu. rewrite C, app_nil_r. reflexivity.
    + unfold v0_norm_wu. rewrite C. exact S1.
Qed.

Lemma v0_words_enc l : Forall (fun x => x < two32) l -> v0_words (concat (map (le_enc 4) l)) = Some l.
Proof.
  induction 1 as [|x l Hx _ IH]; [reflexivity|]. cbn [map concat].
  change (le_enc 4 x) with [b8 x; b8 (x / 256); b8 (x / 256 / 256); b8 (x / 256 / 256 / 256)].
  cbn [app v0_words]. rewrite IH.
  change [b8 x; b8 (x / 256); b8 (x / 256 / 256); b8 (x / 256 / 256 / 256)] with (le_enc 4 x).
  rewrite le_dec_enc by exact Hx. reflexivity.
Qed.

Local Opaque le_dec.
Lemma v0_words_inv v l : v0_words v = Some l ->
  concat (map (le_enc 4) l) = v /\ Forall (fun x => x < two32) l.
Proof.
  revert l. induction v as [v IH] using (well_founded_induction (Wf_nat.well_founded_ltof _ (@length byte))).
  intros l. destruct v as [|a [|b [|c [|d r]]]]; cbn [v0_words]; try discriminate.
  - intro HH; inversion HH; subst. split; constructor.
  - destruct (v0_words r) as [l'|] eqn:E; [|discriminate]. intro HH; inversion HH; subst.
    apply IH in E as [E1 E2]; [|unfold Wf_nat.ltof; cbn [length]; lia].
    cbn [map concat]. rewrite E1. split.
    + pose proof (le_enc_dec [a; b; c; d]) as R. cbn [length] in R. rewrite R. reflexivity.
    + constructor; [|exact E2]. apply (le_dec_bound [a; b; c; d]).
Qed.
Local Transparent le_dec.

Definition v0_wf_der_vals (d : v0der) : Prop :=
  dv_fp d < two32 /\ Forall (fun x => x < two32) (dv_path d).

Lemma v0_read_bip32_ser d : v0_wf_der_vals d -> v0_read_bip32 (v0_ser_bip32 d) = Some (dv_fp d, dv_path d).
Proof.
  intros (Hf & Hp). unfold v0_read_bip32, v0_ser_bip32.
  change (le_enc 4 (dv_fp d) ++ concat (map (le_enc 4) (dv_path d)))
    with (concat (map (le_enc 4) (dv_fp d :: dv_path d))).
  rewrite v0_words_enc by (constructor; assumption). reflexivity.
Qed.

Lemma v0_read_bip32_inv v fp path : v0_read_bip32 v = Some (fp, path) ->
  v0_ser_bip32 (mk_v0der [] fp path) = v /\ v0_wf_der_vals (mk_v0der [] fp path).
Proof.
  unfold v0_read_bip32. destruct (v0_words v) as [[|a l]|] eqn:E; try discriminate.
  intro HH; inversion HH; subst. apply v0_words_inv in E as [E1 E2].
  unfold v0_ser_bip32, v0_wf_der_vals. cbn [dv_fp dv_path]. split; [exact E1|].
  inversion E2; subst. split; assumption.
Qed.

Lemma v0_parse_tx_value_ser t : wf_tx t = true -> v0_parse_tx_value (ser_full t) = Some (norm_tx t).
Proof.
  intro W. unfold v0_parse_tx_value. rewrite <- (app_nil_r (ser_full t)).
  rewrite (tx_parse_ser t [] W). reflexivity.
Qed.

(* ---------- the decode switch run over what the encoder emits ---------- *)
Section Fwd.
Variable valid_pk valid_sig : bytes -> bool.
Notation in_step := (v0_in_step valid_pk valid_sig).
Notation out_step := (v0_out_step valid_pk).

Ltac ty_small := (unfold v0_T_NonWitnessUtxo, v0_T_WitnessUtxo, v0_T_PartialSig, v0_T_Sighash, v0_T_RedeemScript,
  v0_T_WitnessScript, v0_T_Bip32, v0_T_FinalScriptSig, v0_T_FinalScriptWitness,
  v0_TO_RedeemScript, v0_TO_WitnessScript, v0_TO_Bip32; lia).

Lemma step_nwu st t : vi_nwu st = None -> wf_tx t = true ->
  in_step st [b8 v0_T_NonWitnessUtxo] (ser_full t) = Some (v0_set_nwu st (Some (norm_tx t))).
Proof.
  intros H W. unfold v0_in_step. rewrite n8_b8_small by ty_small. rewrite H, (v0_parse_tx_value_ser t W). reflexivity.
Qed.
Lemma step_wu st o : vi_wu st = None -> wf_out o = true -> v0_wufloor o = true ->
  in_step st [b8 v0_T_WitnessUtxo] (v0_ser_wu o) = Some (v0_set_wu st (Some (v0_norm_wu o))).
Proof.
  intros H W L. unfold v0_in_step. rewrite n8_b8_small by ty_small. rewrite H, (v0_read_txout_ser o W L). reflexivity.
Qed.
Lemma step_sighash st x : vi_sighash st = 0 -> x < two32 ->
  in_step st [b8 v0_T_Sighash] (le_enc 4 x) = Some (v0_set_sighash st x).
Proof.
  intros H W. unfold v0_in_step. rewrite n8_b8_small by ty_small. rewrite H, le_enc_length, le_dec_enc by exact W. reflexivity.
Qed.
Lemma step_redeem st v : vi_redeem st = None -> in_step st [b8 v0_T_RedeemScript] v = Some (v0_set_redeem st (Some v)).
Proof. intro H. unfold v0_in_step. rewrite n8_b8_small by ty_small. rewrite H. reflexivity. Qed.
Lemma step_wscript st v : vi_wscript st = None -> in_step st [b8 v0_T_WitnessScript] v = Some (v0_set_wscript st (Some v)).
Proof. intro H. unfold v0_in_step. rewrite n8_b8_small by ty_small. rewrite H. reflexivity. Qed.
Lemma step_fsig st v : vi_fsig st = None -> in_step st [b8 v0_T_FinalScriptSig] v = Some (v0_set_fsig st (Some v)).
Proof. intro H. unfold v0_in_step. rewrite n8_b8_small by ty_small. rewrite H. reflexivity. Qed.
Lemma step_fwit st v : vi_fwit st = None -> in_step st [b8 v0_T_FinalScriptWitness] v = Some (v0_set_fwit st (Some v)).
Proof. intro H. unfold v0_in_step. rewrite n8_b8_small by ty_small. rewrite H. reflexivity. Qed.

Lemma set_sigs_id st : v0_set_sigs st (vi_sigs st) = st. Proof. destruct st; reflexivity. Qed.
Lemma set_sigs_set st a b : v0_set_sigs (v0_set_sigs st a) b = v0_set_sigs st b. Proof. reflexivity. Qed.
Lemma set_ders_id st : v0_set_ders st (vi_ders st) = st. Proof. destruct st; reflexivity. Qed.
Lemma set_unk_id st : v0_set_unk st (vi_unk st) = st. Proof. destruct st; reflexivity. Qed.

Lemma fold_sigs l : forall st,
  forallb (v0_wf_sig valid_pk valid_sig) l = true ->
  v0_nodupb bytes_eqb (map sg_pk (vi_sigs st ++ l)) = true ->
  v0_fold in_step st (map v0_sig_kv l) = Some (v0_set_sigs st (vi_sigs st ++ l)).
Proof.
  induction l as [|x l IH]; intros st W N.
  - cbn. rewrite app_nil_r, set_sigs_id. reflexivity.
  - cbn [forallb] in W. apply andb_true_iff in W as [Wx W]. cbn [map v0_fold v0_sig_kv fst snd].
    unfold v0_in_step at 1. rewrite n8_b8_small by ty_small.
    unfold v0_wf_sig in Wx. rewrite !andb_true_iff in Wx. destruct Wx as [[[V1 V2] _] _].
    cbn [N.eqb Pos.eqb v0_T_PartialSig v0_T_NonWitnessUtxo v0_T_WitnessUtxo]. rewrite V1, V2. cbn [andb negb].
    rewrite map_app in N. cbn [map] in N.
    pose proof (nodupb_mid bytes_eqb _ _ _ N) as E. rewrite existsb_map_c in E. rewrite E.
    rewrite IH; [| exact W |].
    + cbn [vi_sigs v0_set_sigs]. rewrite <- app_assoc. destruct x; reflexivity.
    + cbn [vi_sigs v0_set_sigs]. rewrite <- app_assoc, map_app. destruct x; exact N.
Qed.

Lemma wf_der_vals d : v0_wf_der valid_pk d = true -> valid_pk (dv_pk d) = true /\ v0_wf_der_vals d.
Proof.
  unfold v0_wf_der, v0_wf_der_vals. rewrite !andb_true_iff. intros [[[[A _] B] C] _].
  split; [exact A|]. split; [lia|].
  apply Forall_forall. intros x Hx. rewrite forallb_forall in C. specialize (C x Hx). lia.
Qed.

Lemma fold_ders l : forall st,
  forallb (v0_wf_der valid_pk) l = true ->
  v0_nodupb bytes_eqb (map dv_pk (vi_ders st ++ l)) = true ->
  v0_fold in_step st (map (v0_der_kv v0_T_Bip32) l) = Some (v0_set_ders st (vi_ders st ++ l)).
Proof.
  induction l as [|x l IH]; intros st W N.
  - cbn. rewrite app_nil_r, set_ders_id. reflexivity.
  - cbn [forallb] in W. apply andb_true_iff in W as [Wx W]. cbn [map v0_fold v0_der_kv fst snd].
    unfold v0_in_step at 1. rewrite n8_b8_small by ty_small.
    apply wf_der_vals in Wx as [V1 V2].
    cbn [N.eqb Pos.eqb v0_T_Bip32 v0_T_PartialSig v0_T_NonWitnessUtxo v0_T_WitnessUtxo v0_T_Sighash v0_T_RedeemScript v0_T_WitnessScript].
    rewrite V1. cbn [negb]. rewrite (v0_read_bip32_ser x V2).
    rewrite map_app in N. cbn [map] in N.
    pose proof (nodupb_mid bytes_eqb _ _ _ N) as E. rewrite existsb_map_c in E. rewrite E.
    rewrite IH; [| exact W |].
    + cbn [vi_ders v0_set_ders]. rewrite <- app_assoc. destruct x; reflexivity.
    + cbn [vi_ders v0_set_ders]. rewrite <- app_assoc, map_app. destruct x; exact N.
Qed.

Lemma fold_out_ders l : forall o,
  forallb (v0_wf_der valid_pk) l = true ->
  v0_nodupb bytes_eqb (map dv_pk (vo_ders o ++ l)) = true ->
  v0_fold out_step o (map (v0_der_kv v0_TO_Bip32) l) = Some (mk_v0out (vo_redeem o) (vo_wscript o) (vo_ders o ++ l)).
Proof.
  induction l as [|x l IH]; intros o W N.
  - cbn. rewrite app_nil_r. destruct o; reflexivity.
  - cbn [forallb] in W. apply andb_true_iff in W as [Wx W]. cbn [map v0_fold v0_der_kv fst snd].
    unfold v0_out_step at 1. rewrite n8_b8_small by ty_small.
    apply wf_der_vals in Wx as [V1 V2].
    cbn [N.eqb Pos.eqb v0_TO_Bip32 v0_TO_RedeemScript v0_TO_WitnessScript].
    rewrite V1. cbn [negb]. rewrite (v0_read_bip32_ser x V2).
    rewrite map_app in N. cbn [map] in N.
    pose proof (nodupb_mid bytes_eqb _ _ _ N) as E. rewrite existsb_map_c in E. rewrite E.
    rewrite IH; [| exact W |].
    + cbn [vo_ders vo_redeem vo_wscript]. rewrite <- app_assoc. destruct x; reflexivity.
    + cbn [vo_ders]. rewrite <- app_assoc, map_app. destruct x; exact N.
Qed.

Lemma step_unknown st k v tb kd : k = tb :: kd -> v0_known_in_type (n8 tb) = false ->
  in_step st k v =
  if existsb (fun u => bytes_eqb (uk_key u) k && bytes_eqb (uk_val u) v) (vi_unk st) then None
  else Some (v0_set_unk st (vi_unk st ++ [mk_v0unk k v])).
Proof.
  intros -> H. unfold v0_known_in_type, v0_T_FinalScriptWitness in H. apply N.leb_gt in H.
  unfold v0_in_step.
  repeat match goal with
  | |- context [N.eqb ?a ?b] => destruct (N.eqb_spec a b) as [Habs|_]; [exfalso; revert Habs; ty_small|]
  end. reflexivity.
Qed.

Lemma fold_unks l : forall st,
  forallb v0_wf_unk l = true ->
  v0_nodupb v0_unk_eqb (vi_unk st ++ l) = true ->
  v0_fold in_step st (map v0_unk_kv l) = Some (v0_set_unk st (vi_unk st ++ l)).
Proof.
  induction l as [|x l IH]; intros st W N.
  - cbn. rewrite app_nil_r, set_unk_id. reflexivity.
  - cbn [forallb] in W. apply andb_true_iff in W as [Wx W]. cbn [map v0_fold v0_unk_kv fst snd].
    unfold v0_wf_unk in Wx. rewrite !andb_true_iff in Wx. destruct Wx as [[Wk _] _].
    destruct (uk_key x) as [|tb kd] eqn:EK; [discriminate|]. apply negb_true_iff in Wk.
    rewrite (step_unknown st (tb :: kd) (uk_val x) tb kd eq_refl Wk).
    pose proof (nodupb_mid v0_unk_eqb _ _ _ N) as E. unfold v0_unk_eqb in E at 1. rewrite EK in E.
    cbn [uk_key uk_val] in E. rewrite E.
    rewrite IH; [| exact W |].
    + cbn [vi_unk v0_set_unk]. rewrite <- app_assoc. destruct x as [xk xv]. cbn in EK. subst xk. reflexivity.
    + cbn [vi_unk v0_set_unk]. rewrite <- app_assoc. destruct x as [xk xv]. cbn in EK. subst xk. exact N.
Qed.

End Fwd.

(* ---------- a whole input / output section ---------- *)
Section Sections.
Variable valid_pk valid_sig : bytes -> bool.
Notation in_step := (v0_in_step valid_pk valid_sig).
Notation out_step := (v0_out_step valid_pk).

Lemma set_nwu_id st : v0_set_nwu st (vi_nwu st) = st. Proof. destruct st; reflexivity. Qed.
Lemma set_wu_id st : v0_set_wu st (vi_wu st) = st. Proof. destruct st; reflexivity. Qed.
Lemma set_sighash_id st : v0_set_sighash st (vi_sighash st) = st. Proof. destruct st; reflexivity. Qed.
Lemma set_redeem_id st : v0_set_redeem st (vi_redeem st) = st. Proof. destruct st; reflexivity. Qed.
Lemma set_wscript_id st : v0_set_wscript st (vi_wscript st) = st. Proof. destruct st; reflexivity. Qed.
Lemma set_fsig_id st : v0_set_fsig st (vi_fsig st) = st. Proof. destruct st; reflexivity. Qed.
Lemma set_fwit_id st : v0_set_fwit st (vi_fwit st) = st. Proof. destruct st; reflexivity. Qed.

(* each segment of v0_in_kvs, continuation style *)
Lemma seg_nwu st x rest : vi_nwu st = None ->
  match x with Some t => wf_tx t = true | None => True end ->
  v0_fold in_step st ((match x with Some t => [([b8 v0_T_NonWitnessUtxo], ser_full t)] | None => [] end) ++ rest)
  = v0_fold in_step (v0_set_nwu st (option_map norm_tx x)) rest.
Proof.
  intros H W. destruct x as [t|]; cbn [app v0_fold fst snd option_map].
  - rewrite (step_nwu _ _ st t H W). reflexivity.
  - rewrite <- H, set_nwu_id. reflexivity.
Qed.
Lemma seg_wu st x rest : vi_wu st = None ->
  match x with Some o => wf_out o = true /\ v0_wufloor o = true | None => True end ->
  v0_fold in_step st ((match x with Some o => [([b8 v0_T_WitnessUtxo], v0_ser_wu o)] | None => [] end) ++ rest)
  = v0_fold in_step (v0_set_wu st (option_map v0_norm_wu x)) rest.
Proof.
  intros H W. destruct x as [o|]; cbn [app v0_fold fst snd option_map].
  - destruct W as [W L]. rewrite (step_wu _ _ st o H W L). reflexivity.
  - rewrite <- H, set_wu_id. reflexivity.
Qed.
Lemma seg_sigs st l rest : vi_sigs st = [] ->
  forallb (v0_wf_sig valid_pk valid_sig) l = true -> v0_nodupb bytes_eqb (map sg_pk l) = true ->
  v0_fold in_step st (map v0_sig_kv l ++ rest) = v0_fold in_step (v0_set_sigs st l) rest.
Proof.
  intros H W N. rewrite v0_fold_app, fold_sigs; [rewrite H; reflexivity | exact W | rewrite H; exact N].
Qed.
Lemma seg_sighash st x rest : vi_sighash st = 0 -> x < two32 ->
  v0_fold in_step st ((if x =? 0 then [] else [([b8 v0_T_Sighash], le_enc 4 x)]) ++ rest)
  = v0_fold in_step (v0_set_sighash st x) rest.
Proof.
  intros H W. destruct (N.eqb_spec x 0) as [->|]; cbn [app v0_fold fst snd].
  - rewrite <- H, set_sighash_id. reflexivity.
  - rewrite (step_sighash _ _ st x H W). reflexivity.
Qed.
Lemma seg_redeem st x rest : vi_redeem st = None ->
  v0_fold in_step st (v0_opt_kv v0_T_RedeemScript x ++ rest) = v0_fold in_step (v0_set_redeem st x) rest.
Proof.
  intro H. destruct x as [v|]; cbn [v0_opt_kv app v0_fold fst snd].
  - rewrite (step_redeem _ _ st v H). reflexivity.
  - rewrite <- H, set_redeem_id. reflexivity.
Qed.
Lemma seg_wscript st x rest : vi_wscript st = None ->
  v0_fold in_step st (v0_opt_kv v0_T_WitnessScript x ++ rest) = v0_fold in_step (v0_set_wscript st x) rest.
Proof.
  intro H. destruct x as [v|]; cbn [v0_opt_kv app v0_fold fst snd].
  - rewrite (step_wscript _ _ st v H). reflexivity.
  - rewrite <- H, set_wscript_id. reflexivity.
Qed.
Lemma seg_ders st l rest : vi_ders st = [] ->
  forallb (v0_wf_der valid_pk) l = true -> v0_nodupb bytes_eqb (map dv_pk l) = true ->
  v0_fold in_step st (map (v0_der_kv v0_T_Bip32) l ++ rest) = v0_fold in_step (v0_set_ders st l) rest.
Proof.
  intros H W N. rewrite v0_fold_app, fold_ders; [rewrite H; reflexivity | exact W | rewrite H; exact N].
Qed.
Lemma seg_fsig st x rest : vi_fsig st = None ->
  v0_fold in_step st (v0_opt_kv v0_T_FinalScriptSig x ++ rest) = v0_fold in_step (v0_set_fsig st x) rest.
Proof.
  intro H. destruct x as [v|]; cbn [v0_opt_kv app v0_fold fst snd].
  - rewrite (step_fsig _ _ st v H). reflexivity.
  - rewrite <- H, set_fsig_id. reflexivity.
Qed.
Lemma seg_fwit st x rest : vi_fwit st = None ->
  v0_fold in_step st (v0_opt_kv v0_T_FinalScriptWitness x ++ rest) = v0_fold in_step (v0_set_fwit st x) rest.
Proof.
  intro H. destruct x as [v|]; cbn [v0_opt_kv app v0_fold fst snd].
  - rewrite (step_fwit _ _ st v H). reflexivity.
  - rewrite <- H, set_fwit_id. reflexivity.
Qed.

Lemma sorted_sigs_ok l :
  forallb (v0_wf_sig valid_pk valid_sig) l = true -> v0_nodupb bytes_eqb (map sg_pk l) = true ->
  forallb (v0_wf_sig valid_pk valid_sig) (v0_sort sg_pk l) = true /\
  v0_nodupb bytes_eqb (map sg_pk (v0_sort sg_pk l)) = true.
Proof.
  intros W N. pose proof (Permutation_sym (v0_sort_perm sg_pk l)) as P. split.
  - exact (forallb_perm _ _ _ P W).
  - exact (nodupb_perm bytes_eqb bytes_eqb_eq _ _ (Permutation_map sg_pk P) N).
Qed.
Lemma sorted_ders_ok l :
  forallb (v0_wf_der valid_pk) l = true -> v0_nodupb bytes_eqb (map dv_pk l) = true ->
  forallb (v0_wf_der valid_pk) (v0_sort dv_pk l) = true /\
  v0_nodupb bytes_eqb (map dv_pk (v0_sort dv_pk l)) = true.
Proof.
  intros W N. pose proof (Permutation_sym (v0_sort_perm dv_pk l)) as P. split.
  - exact (forallb_perm _ _ _ P W).
  - exact (nodupb_perm bytes_eqb bytes_eqb_eq _ _ (Permutation_map dv_pk P) N).
Qed.

Ltac btrue' :=
  repeat match goal with
  | H : _ && _ = true |- _ => apply andb_true_iff in H; destruct H
  end.

Lemma in_fold i : v0_wf_in_core valid_pk valid_sig i = true -> v0_wufloor_in i = true ->
  v0_fold in_step v0_in_empty (v0_in_kvs i) = Some (v0_norm_in i).
Proof.
  destruct i as [nwu wu sigs sh rd ws ders fs fw unk].
  unfold v0_wf_in_core, v0_wufloor_in, v0_in_kvs, v0_norm_in.
  cbn [vi_nwu vi_wu vi_sigs vi_sighash vi_redeem vi_wscript vi_ders vi_fsig vi_fwit vi_unk].
  intros W L. btrue'.
  match goal with H : forallb (v0_wf_sig _ _) sigs = true, H' : v0_nodupb _ (map sg_pk sigs) = true |- _ =>
    destruct (sorted_sigs_ok sigs H H') as [SS SN] end.
  match goal with H : forallb (v0_wf_der _) ders = true, H' : v0_nodupb _ (map dv_pk ders) = true |- _ =>
    destruct (sorted_ders_ok ders H H') as [DS DN] end.
  rewrite seg_nwu; [| reflexivity |].
  2:{ destruct nwu as [t|]; [|exact I]. unfold v0_wf_nwu in *. btrue'. assumption. }
  rewrite seg_wu; [| reflexivity |].
  2:{ destruct wu as [o|]; [|exact I]. unfold v0_wf_wu in *. btrue'. split; assumption. }
  set (fin := v0_finalized _). destruct fin eqn:F; cbn [app].
  - rewrite seg_fsig by reflexivity. rewrite seg_fwit by reflexivity.
    rewrite fold_unks; [reflexivity | assumption | assumption].
  - rewrite <- !app_assoc.
    rewrite seg_sigs; [| reflexivity | exact SS | exact SN].
    rewrite seg_sighash; [| reflexivity | apply N.ltb_lt; assumption].
    rewrite seg_redeem by reflexivity. rewrite seg_wscript by reflexivity.
    rewrite seg_ders; [| reflexivity | exact DS | exact DN].
    rewrite seg_fsig by reflexivity. rewrite seg_fwit by reflexivity.
    rewrite fold_unks; [reflexivity | assumption | assumption].
Qed.

Lemma seg_out_opt0 o x rest : vo_redeem o = None ->
  v0_fold out_step o (v0_opt_kv v0_TO_RedeemScript x ++ rest) = v0_fold out_step (mk_v0out x (vo_wscript o) (vo_ders o)) rest.
Proof.
  intro H. destruct x as [v|]; cbn [v0_opt_kv app v0_fold fst snd].
  - unfold v0_out_step at 1. rewrite n8_b8_small by (unfold v0_TO_RedeemScript; lia). rewrite H. reflexivity.
  - rewrite <- H. destruct o; reflexivity.
Qed.
Lemma seg_out_opt1 o x rest : vo_wscript o = None ->
  v0_fold out_step o (v0_opt_kv v0_TO_WitnessScript x ++ rest) = v0_fold out_step (mk_v0out (vo_redeem o) x (vo_ders o)) rest.
Proof.
  intro H. destruct x as [v|]; cbn [v0_opt_kv app v0_fold fst snd].
  - unfold v0_out_step at 1. rewrite n8_b8_small by (unfold v0_TO_WitnessScript; lia). rewrite H. reflexivity.
  - rewrite <- H. destruct o; reflexivity.
Qed.

Lemma out_fold o : v0_wf_out valid_pk o = true ->
  v0_fold out_step v0_out_empty (v0_out_kvs o) = Some (v0_norm_out o).
Proof.
  destruct o as [rd ws ders]. unfold v0_wf_out, v0_out_kvs, v0_norm_out. cbn [vo_redeem vo_wscript vo_ders].
  intro W. btrue'.
  match goal with H : forallb (v0_wf_der _) ders = true, H' : v0_nodupb _ (map dv_pk ders) = true |- _ =>
    destruct (sorted_ders_ok ders H H') as [DS DN] end.
  rewrite seg_out_opt0 by reflexivity. rewrite seg_out_opt1 by reflexivity.
  rewrite fold_out_ders; [reflexivity | exact DS | exact DN].
Qed.

(* every pair the encoder emits is within the key and value length limits *)
Lemma Forall_map_kv {A} (f : A -> bytes * bytes) l : (forall a, In a l -> v0_wf_kvp (f a)) -> Forall v0_wf_kvp (map f l).
Proof. intro H. apply Forall_forall. intros x Hx. apply in_map_iff in Hx as [a [<- Ha]]. apply H; exact Ha. Qed.

Lemma opt_kv_wf ty o : v0_wf_script o = true -> Forall v0_wf_kvp (v0_opt_kv ty o).
Proof.
  destruct o as [v|]; cbn [v0_opt_kv v0_wf_script]; [|constructor]. unfold v0_len_ok. intro H. constructor; [|constructor].
  unfold v0_wf_kvp, v0_MaxKeyLen, lenN in *. cbn [fst snd length]. lia.
Qed.

Lemma der_kv_wf ty d : v0_wf_der valid_pk d = true -> v0_wf_kvp (v0_der_kv ty d).
Proof.
  unfold v0_wf_der, v0_len_ok. rewrite !andb_true_iff. intros [[[[_ A] _] _] B].
  unfold v0_wf_kvp, v0_der_kv, lenN in *. cbn [fst snd length]. lia.
Qed.

Lemma kvp_single ty v : v0_len_ok v0_MaxValLen v = true -> v0_wf_kvp ([b8 ty], v).
Proof.
  unfold v0_len_ok. intro H. unfold v0_wf_kvp, v0_MaxKeyLen, lenN in *. cbn [fst snd length]. lia.
Qed.
Lemma sig_kv_wf s : v0_wf_sig valid_pk valid_sig s = true -> v0_wf_kvp (v0_sig_kv s).
Proof.
  unfold v0_wf_sig, v0_len_ok. rewrite !andb_true_iff. intros [[_ A] B].
  unfold v0_wf_kvp, v0_sig_kv, lenN in *. cbn [fst snd length]. lia.
Qed.
Lemma unk_kv_wf u : v0_wf_unk u = true -> v0_wf_kvp (v0_unk_kv u).
Proof.
  unfold v0_wf_unk, v0_len_ok. rewrite !andb_true_iff. intros [[A B] C].
  unfold v0_wf_kvp, v0_unk_kv, lenN in *. cbn [fst snd]. destruct (uk_key u); [discriminate|]. cbn [length] in *. lia.
Qed.
Lemma sighash_kv_wf x : v0_wf_kvp ([b8 v0_T_Sighash], le_enc 4 x).
Proof. unfold v0_wf_kvp, v0_MaxKeyLen, v0_MaxValLen, lenN. cbn [fst snd length]. rewrite le_enc_length. lia. Qed.

Lemma in_kvs_wf i : v0_wf_in_core valid_pk valid_sig i = true -> Forall v0_wf_kvp (v0_in_kvs i).
Proof.
  destruct i as [nwu wu sigs sh rd ws ders fs fw unk].
  unfold v0_wf_in_core, v0_in_kvs.
  cbn [vi_nwu vi_wu vi_sigs vi_sighash vi_redeem vi_wscript vi_ders vi_fsig vi_fwit vi_unk].
  intros W. btrue'.
  match goal with H : forallb (v0_wf_sig _ _) sigs = true, H' : v0_nodupb _ (map sg_pk sigs) = true |- _ =>
    destruct (sorted_sigs_ok sigs H H') as [SS _] end.
  match goal with H : forallb (v0_wf_der _) ders = true, H' : v0_nodupb _ (map dv_pk ders) = true |- _ =>
    destruct (sorted_ders_ok ders H H') as [DS _] end.
  repeat (apply Forall_app; split).
  - destruct nwu as [t|]; [|constructor]. unfold v0_wf_nwu in *. btrue'.
    constructor; [|constructor]. apply kvp_single; assumption.
  - destruct wu as [o|]; [|constructor]. unfold v0_wf_wu in *. btrue'.
    constructor; [|constructor]. apply kvp_single; assumption.
  - destruct (v0_finalized _); [constructor|]. repeat (apply Forall_app; split).
    + apply Forall_map_kv. intros s Hs. rewrite forallb_forall in SS. apply sig_kv_wf. apply SS; exact Hs.
    + destruct (sh =? 0); [constructor|]. constructor; [|constructor]. apply sighash_kv_wf.
    + apply opt_kv_wf; assumption.
    + apply opt_kv_wf; assumption.
    + apply Forall_map_kv. intros d Hd. rewrite forallb_forall in DS. apply der_kv_wf. apply DS; exact Hd.
  - apply opt_kv_wf; assumption.
  - apply opt_kv_wf; assumption.
  - apply Forall_map_kv. intros u Hu.
    match goal with H : forallb v0_wf_unk unk = true |- _ => rewrite forallb_forall in H; apply unk_kv_wf; apply H; exact Hu end.
Qed.

Lemma out_kvs_wf o : v0_wf_out valid_pk o = true -> Forall v0_wf_kvp (v0_out_kvs o).
Proof.
  destruct o as [rd ws ders]. unfold v0_wf_out, v0_out_kvs. cbn [vo_redeem vo_wscript vo_ders]. intro W. btrue'.
  match goal with H : forallb (v0_wf_der _) ders = true, H' : v0_nodupb _ (map dv_pk ders) = true |- _ =>
    destruct (sorted_ders_ok ders H H') as [DS _] end.
  repeat (apply Forall_app; split); try (apply opt_kv_wf; assumption).
  apply Forall_map_kv. intros d Hd. rewrite forallb_forall in DS. apply der_kv_wf. apply DS; exact Hd.
Qed.

Lemma in_section_app i rest : v0_wf_in_core valid_pk valid_sig i = true -> v0_wufloor_in i = true ->
  v0_section in_step v0_in_empty (v0_ser_section (v0_in_kvs i) ++ rest) = Some (v0_norm_in i, rest).
Proof. intros W L. apply v0_section_app; [apply in_kvs_wf; exact W | apply in_fold; assumption]. Qed.

Lemma out_section_app o rest : v0_wf_out valid_pk o = true ->
  v0_section out_step v0_out_empty (v0_ser_section (v0_out_kvs o) ++ rest) = Some (v0_norm_out o, rest).
Proof. intros W. apply v0_section_app; [apply out_kvs_wf; exact W | apply out_fold; assumption]. Qed.

End Sections.

(* ---------- the whole packet ---------- *)
Lemma v0_sections_app {St A X} (p : parser St) (e : A -> bytes) (f : A -> St) (l : list A) :
  (forall a, In a l -> forall r, p (e a ++ r) = Some (f a, r)) ->
  forall (xs : list X) rest, length l = length xs ->
  v0_sections p xs (concat (map e l) ++ rest) = Some (map f l, rest).
Proof.
  induction l as [|a l IH]; intros Hp xs rest L; destruct xs as [|x xs]; try discriminate; [reflexivity|].
  cbn [map concat v0_sections]. unfold bind. rewrite <- app_assoc. rewrite Hp by (left; reflexivity).
  rewrite IH; [reflexivity | intros; apply Hp; right; assumption | cbn [length] in L; lia].
Qed.

Lemma v0_sections_length {St X} (p : parser St) (xs : list X) : forall bs l rest,
  v0_sections p xs bs = Some (l, rest) -> length l = length xs.
Proof.
  induction xs as [|x xs IH]; intros bs l rest; cbn [v0_sections]; unfold bind, ret.
  - intro HH; inversion HH; reflexivity.
  - destruct (p bs) as [[a r]|]; [|discriminate]. destruct (v0_sections p xs r) as [[b r']|] eqn:E; [|discriminate].
    intro HH; inversion HH; subst. cbn [length]. f_equal. apply (IH _ _ _ E).
Qed.

Lemma v0_sane_norm i : v0_sane i = true -> v0_sane (v0_norm_in i) = true.
Proof.
  destruct i as [nwu wu sigs sh rd ws ders fs fw unk]. unfold v0_sane, v0_norm_in, v0_finalized.
  cbn [vi_nwu vi_wu vi_wscript vi_fwit vi_fsig].
  destruct nwu, wu, ws, fs, fw; cbn; intro H; try discriminate; reflexivity.
Qed.

Section Packet.
Variable valid_pk valid_sig : bytes -> bool.
Notation parse := (v0_parse valid_pk valid_sig).
Notation wf := (v0_wf valid_pk valid_sig).
Notation wf_core := (v0_wf_core valid_pk valid_sig).

Lemma wf_core_parts p : wf_core p = true ->
  wf_tx (vp_tx p) = true /\ v0_unsigned_ok (vp_tx p) = true /\ lenN (ser_full (vp_tx p)) <= v0_MaxValLen /\
  length (vp_ins p) = length (t_ins (vp_tx p)) /\ length (vp_outs p) = length (t_outs (vp_tx p)) /\
  forallb (v0_wf_in_core valid_pk valid_sig) (vp_ins p) = true /\ forallb v0_sane (vp_ins p) = true /\
  forallb (v0_wf_out valid_pk) (vp_outs p) = true /\ forallb v0_wf_gunk (vp_unk p) = true.
Proof.
  unfold v0_wf_core. rewrite !andb_true_iff. intros [[[[[[[[A B] C] D] E] F] G] H] J].
  apply Nat.eqb_eq in D, E. unfold v0_len_ok in C. apply N.leb_le in C. repeat split; assumption.
Qed.

(* the loop over global unknowns reads back the pairs written for p.Unknowns *)
Lemma fold_gunk l : forall acc, v0_fold v0_gunk_step acc (map v0_unk_kv l) = Some (acc ++ l).
Proof.
  induction l as [|u l IH]; intro acc; cbn [map v0_fold v0_unk_kv fst snd v0_gunk_step]; [rewrite app_nil_r; reflexivity|].
  rewrite IH, <- app_assoc. destruct u; reflexivity.
Qed.
Lemma gunk_kv_wf u : v0_wf_gunk u = true -> v0_wf_kvp (v0_unk_kv u).
Proof.
  unfold v0_wf_gunk, v0_len_ok. rewrite !andb_true_iff. intros [[A B] C].
  unfold v0_wf_kvp, v0_unk_kv, lenN in *. cbn [fst snd]. destruct (uk_key u); [discriminate|]. cbn [length] in *. lia.
Qed.

(* C08, first clause: what ToHex/ToBase64 write is accepted by the parsers and yields the packet
   up to v0_norm, whatever follows the last section *)
Theorem v0_parse_rest_ser p extra : wf p = true ->
  exists bs, v0_ser p = Some bs /\ v0_parse_rest valid_pk valid_sig (bs ++ extra) = Some (v0_norm p, extra).
Proof.
  unfold v0_wf. intro W. apply andb_true_iff in W as [WC W45].
  apply wf_core_parts in WC as (Wt & Wu & Wl & Li & Lo & Wi & Ws & Wo & Wg).
  unfold v0_wufloor_all in W45. unfold v0_ser. rewrite Ws. eexists. split; [reflexivity|].
  unfold v0_parse_rest, bind. rewrite <- !app_assoc.
  rewrite (take_app_n 5) by reflexivity.
  change (bytes_eqb v0_magic v0_magic) with true. cbn [negb].
  unfold v0_ser_section at 1, v0_global_kvs, enc_list. cbn [map concat]. unfold v0_kv at 1. cbn [fst snd].
  rewrite <- !app_assoc.
  rewrite v0_p_key_app by (unfold lenN, v0_MaxKeyLen; cbn [length]; lia).
  rewrite n8_b8_small by (unfold v0_T_UnsignedTx; lia).
  change (negb (v0_T_UnsignedTx =? v0_T_UnsignedTx)) with false. cbn iota.
  cbv beta. rewrite v0_p_val_app by exact Wl.
  rewrite (v0_parse_tx_value_ser _ Wt).
  change (v0_unsigned_ok (norm_tx (vp_tx p))) with (v0_unsigned_ok (vp_tx p)). rewrite Wu. cbn [negb]. cbv beta iota.
  fold (enc_list v0_kv (map v0_unk_kv (vp_unk p))). rewrite app_assoc.
  change (enc_list v0_kv (map v0_unk_kv (vp_unk p)) ++ v0_sep) with (v0_ser_section (map v0_unk_kv (vp_unk p))).
  rewrite (v0_section_app v0_gunk_step (map v0_unk_kv (vp_unk p)) [] (vp_unk p));
    [| apply Forall_map_kv; intros u Hu; rewrite forallb_forall in Wg; apply gunk_kv_wf; apply Wg; exact Hu
     | apply (fold_gunk (vp_unk p) []) ].
  change (t_ins (norm_tx (vp_tx p))) with (t_ins (vp_tx p)).
  change (t_outs (norm_tx (vp_tx p))) with (t_outs (vp_tx p)).
  rewrite (v0_sections_app _ (fun i => v0_ser_section (v0_in_kvs i)) v0_norm_in (vp_ins p)); [| | exact Li].
  2:{ intros i Hi r. rewrite forallb_forall in Wi, W45. apply in_section_app; [apply Wi | apply W45]; exact Hi. }
  rewrite (v0_sections_app _ (fun o => v0_ser_section (v0_out_kvs o)) v0_norm_out (vp_outs p)); [| | exact Lo].
  2:{ intros o Ho r. rewrite forallb_forall in Wo. apply (out_section_app valid_pk valid_sig o r (Wo o Ho)). }
  assert (SN : forallb v0_sane (map v0_norm_in (vp_ins p)) = true).
  { apply forallb_forall. intros x Hx. apply in_map_iff in Hx as [i [<- Hi]].
    apply v0_sane_norm. rewrite forallb_forall in Ws. apply Ws; exact Hi. }
  rewrite SN. reflexivity.
Qed.

Theorem v0_parse_ser p extra : wf p = true ->
  exists bs, v0_ser p = Some bs /\ parse (bs ++ extra) = Some (v0_norm p).
Proof.
  intro W. destruct (v0_parse_rest_ser p extra W) as [bs [S R]]. exists bs. split; [exact S|].
  unfold v0_parse. rewrite R. reflexivity.
Qed.

End Packet.

(* ---------- the converse: every accepted packet is inside the wire domain ---------- *)
Lemma parse_tx_flag v4 f r2 t rest : length v4 = 4%nat -> f < 256 ->
  parse_tx (v4 ++ b8 f :: r2) = Some (t, rest) -> t_flag t = f.
Proof.
  intros L4 Hf. unfold parse_tx, bind. unfold p_le at 1. rewrite (take_app_n 4) by exact L4.
  rewrite p_u8_app by exact Hf.
  destruct (p_varint r2) as [[nin r3]|]; [|discriminate].
  destruct (p_list p_in nin r3) as [[ins r4]|]; [|discriminate].
  destruct (p_varint r4) as [[nout r5]|]; [|discriminate].
  destruct (p_list p_out nout r5) as [[outs r6]|]; [|discriminate].
  destruct (p_le 4 r6) as [[lt r7]|]; [|discriminate].
  destruct (f =? 1).
  - destruct (p_list p_in_wit (lenL ins) r7) as [[iw r8]|]; [|discriminate].
    destruct (p_list p_out_wit (lenL outs) r8) as [[ow r9]|]; [|discriminate].
    unfold ret. intro HH; inversion HH; reflexivity.
  - unfold ret. intro HH; inversion HH; reflexivity.
Qed.

Lemma parse_tx_flag0 v4 f r2 t rest : length v4 = 4%nat -> f < 256 -> f <> 1 ->
  parse_tx (v4 ++ b8 f :: r2) = Some (t, rest) ->
  parse_tx (v4 ++ b8 0 :: r2) = Some (mk_tx (t_version t) 0 (t_locktime t) (t_ins t) (t_outs t), rest).
Proof.
  intros L4 Hf F1. unfold parse_tx, bind. unfold p_le at 1 3. rewrite !(take_app_n 4) by exact L4.
  rewrite !p_u8_app by lia.
  destruct (p_varint r2) as [[nin r3]|]; [|discriminate].
  destruct (p_list p_in nin r3) as [[ins r4]|]; [|discriminate].
  destruct (p_varint r4) as [[nout r5]|]; [|discriminate].
  destruct (p_list p_out nout r5) as [[outs r6]|]; [|discriminate].
  destruct (p_le 4 r6) as [[lt r7]|]; [|discriminate].
  destruct (N.eqb_spec f 1); [contradiction|]. change (0 =? 1) with false. cbv iota.
  unfold ret. intro HH; inversion HH; reflexivity.
Qed.

Lemma parse_tx_any bs t rest : parse_tx bs = Some (t, rest) ->
  wf_tx t = true /\ lenN (ser_full t) <= lenN bs.
Proof.
  intro H. destruct (canonical_flag t) eqn:C.
  - split; [exact (parse_tx_wf bs t rest H C)|].
    apply tx_ser_parse in H; [|exact C]. subst bs. rewrite lenN_app. lia.
  - pose proof H as H0. unfold parse_tx, bind in H0.
    destruct (p_le 4 bs) as [[ver r1]|] eqn:P1; [|discriminate].
    destruct (p_u8 r1) as [[f r2]|] eqn:P2; [|discriminate]. clear H0.
    apply p_le_inv in P1 as [-> _]. apply p_u8_inv in P2 as [-> Hf].
    pose proof (parse_tx_flag _ f r2 t rest (le_enc_length 4 ver) Hf H) as TF.
    assert (F1 : f <> 1). { intro E. unfold canonical_flag in C. rewrite TF, E in C. discriminate. }
    pose proof (parse_tx_flag0 _ f r2 t rest (le_enc_length 4 ver) Hf F1 H) as H0.
    set (t0 := mk_tx (t_version t) 0 (t_locktime t) (t_ins t) (t_outs t)) in *.
    assert (W0 : wf_tx t0 = true) by (apply (parse_tx_wf _ _ _ H0); reflexivity).
    assert (S0 : ser_full t0 ++ rest = le_enc 4 ver ++ b8 0 :: r2) by (apply (tx_ser_parse _ _ _ H0); reflexivity).
    assert (HW : has_witness t = has_witness t0).
    { unfold has_witness, any_witness_input, any_conf_output. cbn [t0 t_flag t_ins t_outs]. rewrite TF.
      destruct (N.eqb_spec f 1); [contradiction | reflexivity]. }
    assert (SE : ser_full t = ser_full t0).
    { unfold ser_full, ser_tx. rewrite HW. reflexivity. }
    split; [exact W0|]. rewrite SE.
    assert (LE : lenN (ser_full t0 ++ rest) = lenN (le_enc 4 ver ++ b8 f :: r2)).
    { rewrite S0. unfold lenN. rewrite !app_length. cbn [length]. reflexivity. }
    rewrite lenN_app in LE. lia.
Qed.

Lemma v0_parse_tx_value_wf v t : v0_parse_tx_value v = Some t -> v0_len_ok v0_MaxValLen v = true -> v0_wf_nwu t = true.
Proof.
  unfold v0_parse_tx_value. destruct (parse_tx v) as [[t' r]|] eqn:P; [|discriminate].
  intro HH; inversion HH; subst. apply parse_tx_any in P as [W L]. unfold v0_wf_nwu, v0_len_ok in *.
  intro LV. rewrite W. apply N.leb_le in LV. apply N.leb_le. lia.
Qed.

Lemma v0_read_txout_wf v o : v0_read_txout v = Some o -> v0_len_ok v0_MaxValLen v = true -> v0_wf_wu o = true.
Proof.
  intros R LV. apply v0_read_txout_inv in R as [W [[rest ->] _]]. unfold v0_wf_wu, v0_len_ok in *.
  rewrite W. rewrite lenN_app in LV. apply N.leb_le in LV. apply N.leb_le. lia.
Qed.

Lemma v0_type_gt8 x : x <> 0 -> x <> 1 -> x <> 2 -> x <> 3 -> x <> 4 -> x <> 5 -> x <> 6 -> x <> 7 -> x <> 8 ->
  v0_known_in_type x = false.
Proof. intros. unfold v0_known_in_type, v0_T_FinalScriptWitness. apply N.leb_gt. lia. Qed.

Section Inv.
Variable valid_pk valid_sig : bytes -> bool.
Notation in_step := (v0_in_step valid_pk valid_sig).
Notation out_step := (v0_out_step valid_pk).
Notation wf_in_core := (v0_wf_in_core valid_pk valid_sig).

Ltac btrue2 :=
  repeat match goal with
  | H : _ && _ = true |- _ => apply andb_true_iff in H; destruct H
  end.

Lemma wf_der_intro kd fp path v :
  valid_pk kd = true -> 1 + lenN kd <= v0_MaxKeyLen -> v0_read_bip32 v = Some (fp, path) ->
  v0_len_ok v0_MaxValLen v = true -> v0_wf_der valid_pk (mk_v0der kd fp path) = true.
Proof.
  intros V K R L. apply v0_read_bip32_inv in R as [E (Hf & Hp)]. cbn [dv_fp dv_path] in *.
  unfold v0_wf_der. cbn [dv_pk dv_fp dv_path]. rewrite V.
  change (v0_ser_bip32 (mk_v0der kd fp path)) with (v0_ser_bip32 (mk_v0der [] fp path)). rewrite E, L.
  rewrite (proj2 (N.leb_le _ _) K), (proj2 (N.ltb_lt _ _) Hf).
  assert (FB : forallb (fun x => x <? two32) path = true).
  { apply forallb_forall. intros x Hx. rewrite Forall_forall in Hp. apply N.ltb_lt. apply Hp; exact Hx. }
  rewrite FB. reflexivity.
Qed.

Lemma key_len tb kd : lenN (tb :: kd) = 1 + lenN kd.
Proof. unfold lenN. cbn [length]. lia. Qed.

Ltac proj_all := cbn [vi_nwu vi_wu vi_sigs vi_sighash vi_redeem vi_wscript vi_ders vi_fsig vi_fwit vi_unk
       v0_set_nwu v0_set_wu v0_set_sigs v0_set_sighash v0_set_redeem v0_set_wscript v0_set_ders v0_set_fsig v0_set_fwit v0_set_unk
       v0_wf_script].

Lemma in_step_wf st k v st' :
  wf_in_core st = true -> v0_wf_kvp (k, v) -> in_step st k v = Some st' -> wf_in_core st' = true.
Proof.
  intros W [K1 [K2 K3]] S. cbn [fst snd] in *.
  assert (LV : v0_len_ok v0_MaxValLen v = true) by (unfold v0_len_ok; apply N.leb_le; exact K3).
  destruct st as [nwu wu sigs sh rd ws ders fs fw unk].
  unfold v0_in_step in S. destruct k as [|tb kd]; [discriminate|]. rewrite key_len in K1, K2.
  cbn [vi_nwu vi_wu vi_sigs vi_sighash vi_redeem vi_wscript vi_ders vi_fsig vi_fwit vi_unk
       v0_set_nwu v0_set_wu v0_set_sigs v0_set_sighash v0_set_redeem v0_set_wscript v0_set_ders v0_set_fsig v0_set_fwit v0_set_unk] in S.
  unfold v0_wf_in_core in *.
  cbn [vi_nwu vi_wu vi_sigs vi_sighash vi_redeem vi_wscript vi_ders vi_fsig vi_fwit vi_unk] in W.
  btrue2.
  destruct (N.eqb_spec (n8 tb) v0_T_NonWitnessUtxo) as [TE|TN_v0_T_NonWitnessUtxo].
  { destruct (v0_is_some nwu); [discriminate|]. destruct (negb (v0_no_kd kd)); [discriminate|].
    destruct (v0_parse_tx_value v) as [t|] eqn:P; [|discriminate]. inversion S; subst.
    proj_all.
    rewrite (v0_parse_tx_value_wf v t P LV). rewrite !andb_true_iff. repeat split; assumption. }
  destruct (N.eqb_spec (n8 tb) v0_T_WitnessUtxo) as [TE|TN_v0_T_WitnessUtxo].
  { destruct (v0_is_some wu); [discriminate|]. destruct (negb (v0_no_kd kd)); [discriminate|].
    destruct (v0_read_txout v) as [o|] eqn:P; [|discriminate]. inversion S; subst.
    proj_all.
    rewrite (v0_read_txout_wf v o P LV). rewrite !andb_true_iff. repeat split; assumption. }
  destruct (N.eqb_spec (n8 tb) v0_T_PartialSig) as [TE|TN_v0_T_PartialSig].
  { destruct (valid_pk kd && valid_sig v) eqn:V; [|discriminate]. cbn [negb] in S.
    destruct (existsb (fun s => bytes_eqb (sg_pk s) kd) sigs) eqn:E; [discriminate|]. inversion S; subst.
    proj_all.
    rewrite forallb_app, map_app. cbn [forallb map sg_pk].
    assert (WS : v0_wf_sig valid_pk valid_sig (mk_v0sig kd v) = true).
    { unfold v0_wf_sig. cbn [sg_pk sg_sig]. rewrite V, LV, (proj2 (N.leb_le _ _) K2). reflexivity. }
    rewrite WS. rewrite (nodupb_snoc bytes_eqb (map sg_pk sigs) kd); [| assumption | rewrite existsb_map_c; exact E].
    rewrite !andb_true_iff. repeat split; assumption. }
  destruct (N.eqb_spec (n8 tb) v0_T_Sighash) as [TE|TN_v0_T_Sighash].
  { destruct (negb (sh =? 0)); [discriminate|]. destruct (negb (v0_no_kd kd)); [discriminate|].
    destruct (Nat.eqb_spec (length v) 4) as [L4|]; [|discriminate]. cbn [negb] in S. inversion S; subst.
    proj_all.
    pose proof (le_dec_bound v) as B. rewrite L4 in B. change (256 ^ N.of_nat 4) with two32 in B.
    apply N.ltb_lt in B. rewrite B. rewrite !andb_true_iff. repeat split; assumption. }
  destruct (N.eqb_spec (n8 tb) v0_T_RedeemScript) as [TE|TN_v0_T_RedeemScript].
  { destruct (v0_is_some rd); [discriminate|]. destruct (negb (v0_no_kd kd)); [discriminate|]. inversion S; subst.
    proj_all.
    rewrite LV. rewrite !andb_true_iff. repeat split; assumption. }
  destruct (N.eqb_spec (n8 tb) v0_T_WitnessScript) as [TE|TN_v0_T_WitnessScript].
  { destruct (v0_is_some ws); [discriminate|]. destruct (negb (v0_no_kd kd)); [discriminate|]. inversion S; subst.
    proj_all.
    rewrite LV. rewrite !andb_true_iff. repeat split; assumption. }
  destruct (N.eqb_spec (n8 tb) v0_T_Bip32) as [TE|TN_v0_T_Bip32].
  { destruct (valid_pk kd) eqn:V; [|discriminate]. cbn [negb] in S.
    destruct (v0_read_bip32 v) as [[fp path]|] eqn:R; [|discriminate].
    destruct (existsb (fun d => bytes_eqb (dv_pk d) kd) ders) eqn:E; [discriminate|]. inversion S; subst.
    proj_all.
    rewrite forallb_app, map_app. cbn [forallb map dv_pk].
    rewrite (wf_der_intro kd fp path v V K2 R LV).
    rewrite (nodupb_snoc bytes_eqb (map dv_pk ders) kd); [| assumption | rewrite existsb_map_c; exact E].
    rewrite !andb_true_iff. repeat split; assumption. }
  destruct (N.eqb_spec (n8 tb) v0_T_FinalScriptSig) as [TE|TN_v0_T_FinalScriptSig].
  { destruct (v0_is_some fs); [discriminate|]. destruct (negb (v0_no_kd kd)); [discriminate|]. inversion S; subst.
    proj_all.
    rewrite LV. rewrite !andb_true_iff. repeat split; assumption. }
  destruct (N.eqb_spec (n8 tb) v0_T_FinalScriptWitness) as [TE|TN_v0_T_FinalScriptWitness].
  { destruct (v0_is_some fw); [discriminate|]. destruct (negb (v0_no_kd kd)); [discriminate|]. inversion S; subst.
    proj_all.
    rewrite LV. rewrite !andb_true_iff. repeat split; assumption. }
  destruct (existsb (fun u => bytes_eqb (uk_key u) (tb :: kd) && bytes_eqb (uk_val u) v) unk) eqn:E; [discriminate|].
  inversion S; subst.
  proj_all.
  rewrite forallb_app. cbn [forallb].
  rewrite (nodupb_snoc v0_unk_eqb unk (mk_v0unk (tb :: kd) v)); [| assumption | exact E].
  assert (WU : v0_wf_unk (mk_v0unk (tb :: kd) v) = true).
  { unfold v0_wf_unk. cbn [uk_key uk_val]. unfold v0_len_ok at 1. rewrite key_len, LV.
    rewrite (proj2 (N.leb_le _ _) K2).
    rewrite (v0_type_gt8 (n8 tb)) by assumption. reflexivity. }
  rewrite WU. rewrite !andb_true_iff. repeat split; assumption.
Qed.

Lemma out_step_wf o k v o' :
  v0_wf_out valid_pk o = true -> v0_wf_kvp (k, v) -> out_step o k v = Some o' -> v0_wf_out valid_pk o' = true.
Proof.
  intros W [K1 [K2 K3]] S. cbn [fst snd] in *.
  assert (LV : v0_len_ok v0_MaxValLen v = true) by (unfold v0_len_ok; apply N.leb_le; exact K3).
  destruct o as [rd ws ders]. unfold v0_out_step in S. destruct k as [|tb kd]; [discriminate|]. rewrite key_len in K1, K2.
  cbn [vo_redeem vo_wscript vo_ders] in S. unfold v0_wf_out in *. cbn [vo_redeem vo_wscript vo_ders] in W. btrue2.
  destruct (n8 tb =? v0_TO_RedeemScript).
  { destruct (v0_is_some rd); [discriminate|]. destruct (negb (v0_no_kd kd)); [discriminate|]. inversion S; subst.
    cbn [vo_redeem vo_wscript vo_ders v0_wf_script]. rewrite LV. rewrite !andb_true_iff. repeat split; assumption. }
  destruct (n8 tb =? v0_TO_WitnessScript).
  { destruct (v0_is_some ws); [discriminate|]. destruct (negb (v0_no_kd kd)); [discriminate|]. inversion S; subst.
    cbn [vo_redeem vo_wscript vo_ders v0_wf_script]. rewrite LV. rewrite !andb_true_iff. repeat split; assumption. }
  destruct (n8 tb =? v0_TO_Bip32); [|discriminate].
  destruct (valid_pk kd) eqn:V; [|discriminate]. cbn [negb] in S.
  destruct (v0_read_bip32 v) as [[fp path]|] eqn:R; [|discriminate].
  destruct (existsb (fun d => bytes_eqb (dv_pk d) kd) ders) eqn:E; [discriminate|]. inversion S; subst.
  cbn [vo_redeem vo_wscript vo_ders]. rewrite forallb_app, map_app. cbn [forallb map dv_pk].
  rewrite (wf_der_intro kd fp path v V K2 R LV).
  rewrite (nodupb_snoc bytes_eqb (map dv_pk ders) kd); [| assumption | rewrite existsb_map_c; exact E].
  rewrite !andb_true_iff. repeat split; assumption.
Qed.

Lemma fold_inv {St} (step : St -> bytes -> bytes -> option St) (P : St -> Prop) :
  (forall st k v st', P st -> v0_wf_kvp (k, v) -> step st k v = Some st' -> P st') ->
  forall l st st', P st -> Forall v0_wf_kvp l -> v0_fold step st l = Some st' -> P st'.
Proof.
  intros Hs. induction l as [|[k v] l IH]; intros st st' Pst W F; cbn [v0_fold fst snd] in F.
  - inversion F; subst; exact Pst.
  - inversion W as [|? ? Wk Wl]; subst. destruct (step st k v) as [st1|] eqn:S1; [|discriminate].
    apply (IH st1 st' (Hs _ _ _ _ Pst Wk S1) Wl F).
Qed.

Lemma in_section_wf bs i rest :
  v0_section in_step v0_in_empty bs = Some (i, rest) -> wf_in_core i = true.
Proof.
  unfold v0_section. intro H. apply v0_p_section_inv in H as [l [F [W _]]].
  apply (fold_inv in_step (fun s => wf_in_core s = true) in_step_wf l v0_in_empty i eq_refl W F).
Qed.
Lemma out_section_wf bs o rest :
  v0_section out_step v0_out_empty bs = Some (o, rest) -> v0_wf_out valid_pk o = true.
Proof.
  unfold v0_section. intro H. apply v0_p_section_inv in H as [l [F [W _]]].
  apply (fold_inv out_step (fun s => v0_wf_out valid_pk s = true) out_step_wf l v0_out_empty o eq_refl W F).
Qed.

Lemma sections_all {St X} (p : parser St) (Q : St -> bool) :
  (forall bs a r, p bs = Some (a, r) -> Q a = true) ->
  forall (xs : list X) bs l rest, v0_sections p xs bs = Some (l, rest) -> forallb Q l = true.
Proof.
  intro Hp. induction xs as [|x xs IH]; intros bs l rest; cbn [v0_sections]; unfold bind, ret.
  - intro HH; inversion HH; reflexivity.
  - destruct (p bs) as [[a r]|] eqn:P; [|discriminate].
    destruct (v0_sections p xs r) as [[b r']|] eqn:E; [|discriminate].
    intro HH; inversion HH; subst. cbn [forallb]. rewrite (Hp _ _ _ P), (IH _ _ _ E). reflexivity.
Qed.

Lemma gunk_step_wf st k v st' :
  forallb v0_wf_gunk st = true -> v0_wf_kvp (k, v) -> v0_gunk_step st k v = Some st' -> forallb v0_wf_gunk st' = true.
Proof.
  intros W [K1 [K2 K3]] S. cbn [fst snd] in *. unfold v0_gunk_step in S. inversion S; subst.
  rewrite forallb_app, W. cbn [forallb andb]. unfold v0_wf_gunk, v0_len_ok. cbn [uk_key uk_val].
  rewrite (proj2 (N.leb_le _ _) K2), (proj2 (N.leb_le _ _) K3).
  destruct k; [unfold lenN in K1; cbn in K1; lia | reflexivity].
Qed.

(* everything the parser accepts lies in the wire domain (except the 44-byte floor, see v0_wufloor) *)
Theorem v0_parse_wf bs p : v0_parse valid_pk valid_sig bs = Some p -> v0_wf_core valid_pk valid_sig p = true.
Proof.
  unfold v0_parse, v0_parse_rest, bind.
  destruct (take 5 bs) as [[m r0]|]; [|discriminate].
  destruct (negb (bytes_eqb m v0_magic)); [discriminate|].
  destruct (v0_p_key r0) as [[[[|tb [|? ?]]|] r1]|]; try discriminate.
  destruct (negb (n8 tb =? v0_T_UnsignedTx)); [discriminate|].
  destruct (v0_p_val r1) as [[v r2]|] eqn:PV; [|discriminate].
  destruct (v0_parse_tx_value v) as [t|] eqn:PT; [|discriminate].
  destruct (v0_unsigned_ok t) eqn:U; [|discriminate]. cbn [negb].
  destruct (v0_section v0_gunk_step [] r2) as [[unk r3]|] eqn:SG; [|discriminate].
  destruct (v0_sections (v0_section in_step v0_in_empty) (t_ins t) r3) as [[ins r4]|] eqn:SI; [|discriminate].
  destruct (v0_sections (v0_section out_step v0_out_empty) (t_outs t) r4) as [[outs r5]|] eqn:SO; [|discriminate].
  destruct (forallb v0_sane ins) eqn:SA; [|discriminate]. unfold ret. intro HH; inversion HH; subst. clear HH.
  apply v0_p_val_inv in PV as [_ LV].
  assert (LV' : v0_len_ok v0_MaxValLen v = true) by (unfold v0_len_ok; apply N.leb_le; exact LV).
  pose proof (v0_parse_tx_value_wf v t PT LV') as WN. unfold v0_wf_nwu in WN. apply andb_true_iff in WN as [WT WL].
  unfold v0_wf_core. cbn [vp_tx vp_ins vp_outs]. rewrite WT, U, WL, SA.
  rewrite (v0_sections_length _ _ _ _ _ SI), (v0_sections_length _ _ _ _ _ SO), !Nat.eqb_refl.
  rewrite (sections_all _ wf_in_core in_section_wf _ _ _ _ SI).
  rewrite (sections_all _ (v0_wf_out valid_pk) out_section_wf _ _ _ _ SO). cbn [andb vp_unk].
  unfold v0_section in SG. apply v0_p_section_inv in SG as [l [F [W _]]].
  apply (fold_inv v0_gunk_step (fun s => forallb v0_wf_gunk s = true) gunk_step_wf l [] unk eq_refl W F).
Qed.

(* C08, second clause in its general form: parse, serialize, parse lands on the v0_norm image of
   the first parse, for every accepted byte string whose witness UTXOs re-serialize to at least
   44 bytes (the floor readTxOut applies to the value, not to what it consumed; it only bites on
   null-valued outputs, v0_wufloor_nonnull) *)
Theorem v0_parse_ser_parse bs p : v0_parse valid_pk valid_sig bs = Some p -> v0_wufloor_all p = true ->
  exists bs', v0_ser p = Some bs' /\ v0_parse valid_pk valid_sig bs' = Some (v0_norm p).
Proof.
  intros P L. pose proof (v0_parse_wf bs p P) as W.
  destruct (v0_parse_ser valid_pk valid_sig p [] ) as [bs' [S R]]; [unfold v0_wf; rewrite W, L; reflexivity|].
  exists bs'. rewrite app_nil_r in R. split; assumption.
Qed.

End Inv.

(* ---------- when the hop is the identity ---------- *)
Lemma v0_flag_canon_norm t : v0_flag_canon t = true -> norm_tx t = t.
Proof. unfold v0_flag_canon, norm_tx. intro H. apply N.eqb_eq in H. destruct t; cbn in *. rewrite <- H. reflexivity. Qed.
Lemma v0_wu_canon_norm o : v0_wu_canon o = true -> v0_norm_wu o = o.
Proof.
  unfold v0_wu_canon, v0_norm_wu. destruct (v0_is_conf o); [reflexivity|]. cbn [orb].
  destruct o as [a v s n rp sp]; cbn. destruct rp, sp; cbn; try discriminate; reflexivity.
Qed.
Lemma v0_canon_in_norm i : v0_canon_in i = true -> v0_norm_in i = i.
Proof.
  destruct i as [nwu wu sigs sh rd ws ders fs fw unk]. unfold v0_canon_in, v0_norm_in.
  cbn [vi_nwu vi_wu vi_sigs vi_sighash vi_redeem vi_wscript vi_ders vi_fsig vi_fwit vi_unk].
  intro H. rewrite !andb_true_iff in H. destruct H as [[A B] C].
  assert (EA : option_map norm_tx nwu = nwu) by (destruct nwu; [cbn; rewrite v0_flag_canon_norm by exact A|]; reflexivity).
  assert (EB : option_map v0_norm_wu wu = wu) by (destruct wu; [cbn; rewrite v0_wu_canon_norm by exact B|]; reflexivity).
  rewrite EA, EB. destruct (v0_finalized _).
  - rewrite !andb_true_iff in C. destruct C as [[[[C1 C2] C3] C4] C5]. apply N.eqb_eq in C2. subst sh.
    destruct sigs, rd, ws, ders; try discriminate. reflexivity.
  - apply andb_true_iff in C as [C1 C2]. rewrite (v0_sort_sorted _ _ C1), (v0_sort_sorted _ _ C2). reflexivity.
Qed.
Lemma map_id_on {A} (f : A -> A) l : (forall a, In a l -> f a = a) -> map f l = l.
Proof. induction l as [|a l IH]; intro H; cbn; [reflexivity|]. rewrite H by (left; reflexivity). rewrite IH; [reflexivity | intros; apply H; right; assumption]. Qed.

Theorem v0_canon_norm p : v0_canon p = true -> v0_norm p = p.
Proof.
  destruct p as [t ins outs unk]. unfold v0_canon, v0_norm. cbn [vp_tx vp_ins vp_outs vp_unk].
  intro H. rewrite !andb_true_iff in H. destruct H as [[A C] D].
  rewrite (v0_flag_canon_norm t A).
  rewrite (map_id_on v0_norm_in ins), (map_id_on v0_norm_out outs); [reflexivity | |].
  - intros o Ho. rewrite forallb_forall in D. specialize (D o Ho). destruct o as [rd ws ders].
    unfold v0_norm_out. cbn [vo_redeem vo_wscript vo_ders] in *. rewrite (v0_sort_sorted _ _ D). reflexivity.
  - intros i Hi. rewrite forallb_forall in C. apply v0_canon_in_norm. apply C; exact Hi.
Qed.

(* ... and is the identity whenever the parsed packet is canonical (sorted sets, derived flags, no
   signing fields beside a final script) *)
Theorem v0_parse_ser_parse_id valid_pk valid_sig bs p : v0_parse valid_pk valid_sig bs = Some p -> v0_wufloor_all p = true ->
  v0_canon p = true -> exists bs', v0_ser p = Some bs' /\ v0_parse valid_pk valid_sig bs' = Some p.
Proof.
  intros P L C. destruct (v0_parse_ser_parse valid_pk valid_sig bs p P L) as [bs' [S R]]. exists bs'.
  rewrite (v0_canon_norm p C) in R. split; assumption.
Qed.

(* ---------- what one hop keeps, field by field ---------- *)
Definition v0_wu_kept (o o' : txout) : Prop :=
  o_asset o' = o_asset o /\ o_value o' = o_value o /\ o_script o' = o_script o /\ o_nonce o' = o_nonce o /\
  (v0_is_conf o = true -> o_rp o' = o_rp o /\ o_sp o' = o_sp o).
Definition v0_tx_kept (t t' : tx) : Prop :=
  t_version t' = t_version t /\ t_locktime t' = t_locktime t /\ t_ins t' = t_ins t /\ t_outs t' = t_outs t /\
  ser_full t' = ser_full t.
Definition v0_in_kept (i j : v0in) : Prop :=
  vi_unk j = vi_unk i /\ vi_fsig j = vi_fsig i /\ vi_fwit j = vi_fwit i /\
  match vi_nwu i, vi_nwu j with Some t, Some t' => v0_tx_kept t t' | None, None => True | _, _ => False end /\
  match vi_wu i, vi_wu j with Some o, Some o' => v0_wu_kept o o' | None, None => True | _, _ => False end /\
  (v0_finalized i = false ->
     Permutation (vi_sigs j) (vi_sigs i) /\ vi_sighash j = vi_sighash i /\
     vi_redeem j = vi_redeem i /\ vi_wscript j = vi_wscript i /\ Permutation (vi_ders j) (vi_ders i)).
Definition v0_out_kept (o o' : v0out) : Prop :=
  vo_redeem o' = vo_redeem o /\ vo_wscript o' = vo_wscript o /\ Permutation (vo_ders o') (vo_ders o).

Lemma norm_tx_kept t : v0_tx_kept t (norm_tx t).
Proof.
  unfold v0_tx_kept, norm_tx. cbn [t_version t_locktime t_ins t_outs]. repeat split.
  unfold ser_full, ser_tx. cbn [t_version t_locktime t_ins t_outs].
  assert (HW : has_witness (mk_tx (t_version t) (if has_witness t then 1 else 0) (t_locktime t) (t_ins t) (t_outs t)) = has_witness t).
  { unfold has_witness at 1. cbn [t_flag]. unfold any_witness_input, any_conf_output. cbn [t_ins t_outs].
    destruct (has_witness t) eqn:E; [reflexivity|]. unfold has_witness in E.
    apply orb_false_iff in E as [E1 E2]. apply orb_false_iff in E1 as [_ E1].
    unfold any_witness_input, any_conf_output in *. rewrite E1, E2. reflexivity. }
  rewrite HW. reflexivity.
Qed.

Lemma norm_in_kept i : v0_in_kept i (v0_norm_in i).
Proof.
  destruct i as [nwu wu sigs sh rd ws ders fs fw unk]. unfold v0_in_kept, v0_norm_in.
  cbn [vi_nwu vi_wu vi_sigs vi_sighash vi_redeem vi_wscript vi_ders vi_fsig vi_fwit vi_unk].
  repeat split.
  - destruct nwu; cbn; [apply norm_tx_kept | exact I].
  - destruct wu as [o|]; cbn; [|exact I]. unfold v0_wu_kept, v0_norm_wu.
    destruct (v0_is_conf o); cbn [o_asset o_value o_script o_nonce o_rp o_sp]; repeat split; discriminate.
  - rewrite H. apply v0_sort_perm.
  - rewrite H. reflexivity.
  - rewrite H. reflexivity.
  - rewrite H. reflexivity.
  - rewrite H. apply v0_sort_perm.
Qed.

Theorem v0_fields_preserved valid_pk valid_sig p : v0_wf valid_pk valid_sig p = true ->
  exists bs q, v0_ser p = Some bs /\ v0_parse valid_pk valid_sig bs = Some q /\
    v0_tx_kept (vp_tx p) (vp_tx q) /\ Forall2 v0_in_kept (vp_ins p) (vp_ins q) /\
    Forall2 v0_out_kept (vp_outs p) (vp_outs q).
Proof.
  intro W. destruct (v0_parse_ser valid_pk valid_sig p [] W) as [bs [S R]]. rewrite app_nil_r in R.
  exists bs, (v0_norm p). repeat split; try assumption; unfold v0_norm; cbn [vp_tx vp_ins vp_outs].
  - apply norm_tx_kept.
  - induction (vp_ins p); cbn; constructor; [apply norm_in_kept | assumption].
  - induction (vp_outs p) as [|o l IH]; cbn; constructor; [|exact IH].
    unfold v0_out_kept, v0_norm_out. cbn [vo_redeem vo_wscript vo_ders]. repeat split. apply v0_sort_perm.
Qed.

(* ---------- concrete packets: hypotheses are satisfiable, and where the identity fails ---------- *)
Definition ex_yes (_ : bytes) : bool := true.
Definition ex_h32 : bytes := repeat x00 32.
Definition ex_tx0 : tx := mk_tx 2 0 0 [] [].
Definition ex_tx1 : tx := mk_tx 2 0 0 [mk_in ex_h32 0 4294967295 [] [] false [] None [] []] [].
Definition ex_out_conf : txout :=
  mk_out (x0a :: ex_h32) (x08 :: ex_h32) [x00; x14] (x02 :: ex_h32) [x01; x02; x03] [x04].
Definition ex_in_full : v0in :=
  mk_v0in None (Some ex_out_conf) [mk_v0sig [x03; x01] [x30; x41]; mk_v0sig [x02; x09] [x30; x01]] 0x41
    (Some [x51]) (Some []) [mk_v0der [x02] 7 [0x80000000; 1]] None None [mk_v0unk [xfc; x01] [x09]].
Definition ex_p_full : v0pset := mk_v0pset ex_tx1 [ex_in_full] [] [].

Example ex_full_wf : v0_wf ex_yes ex_yes ex_p_full = true.
Proof. vm_compute. reflexivity. Qed.
(* a non-trivial packet meeting the hypotheses of v0_parse_ser: confidential witness UTXO with proofs,
   two unsorted signatures, sighash ALL|RANGEPROOF (0x41), scripts, a derivation and an unknown *)
Example ex_full_roundtrip :
  exists bs, v0_ser ex_p_full = Some bs /\ v0_parse ex_yes ex_yes bs = Some (v0_norm ex_p_full) /\
             vi_wu (hd v0_in_empty (vp_ins (v0_norm ex_p_full))) = Some ex_out_conf /\
             vi_sighash (hd v0_in_empty (vp_ins (v0_norm ex_p_full))) = 0x41.
Proof. eexists. split; [vm_compute; reflexivity|]. split; vm_compute; split; reflexivity. Qed.

Definition v0_stream (secs : list (list (bytes * bytes))) : bytes :=
  v0_magic ++ concat (map v0_ser_section secs).

(* FULL STATEMENT of the second clause (refuted by the model of the code as it is):
     forall bs p, v0_parse bs = Some p -> exists bs', v0_ser p = Some bs' /\ v0_parse bs' = Some p.
   Proved instead: v0_parse_ser_parse (image is v0_norm p, under v0_wufloor_all),
   v0_parse_ser_parse_id (identity on canonical images) and v0_canon_norm. *)
Definition v0_psp_fails (bs : bytes) : Prop :=
  exists p, v0_parse ex_yes ex_yes bs = Some p /\
  forall bs', v0_ser p = Some bs' -> v0_parse ex_yes ex_yes bs' <> Some p.
Definition v0_psp_holds (bs : bytes) : Prop :=
  exists p bs', v0_parse ex_yes ex_yes bs = Some p /\ v0_ser p = Some bs' /\ v0_parse ex_yes ex_yes bs' = Some p.

Ltac psp_refute :=
  eexists; split; [vm_compute; reflexivity|];
  intros bs' S; vm_compute in S; inversion S; subst; vm_compute; discriminate.
Ltac psp_hold :=
  eexists; eexists; split; [vm_compute; reflexivity|]; split; [vm_compute; reflexivity | vm_compute; reflexivity].

(* former suspect s (repaired by 88a2d94): a global unknown pair is written back *)
Example v0_psp_global_unknown :
  v0_psp_holds (v0_stream [[([x00], ser_full ex_tx0); ([xfc; x01], [x02])]]).
Proof. psp_hold. Qed.

(* repaired by 2b1b006: a 45-byte witness UTXO value = 44 meaningful bytes + 1 ignored byte
   re-serializes to 44 bytes, which readTxOut now accepts *)
Example v0_psp_wu44 :
  v0_psp_holds (v0_stream [[([x00], ser_full ex_tx1)];
                           [([x01], (x01 :: ex_h32) ++ (x01 :: repeat x00 8) ++ [x00; x00] ++ [xff])]]).
Proof. psp_hold. Qed.

(* still failing: a final script next to signing fields: the signing fields are not written *)
Theorem v0_psp_refuted_finalized :
  v0_psp_fails (v0_stream [[([x00], ser_full ex_tx1)]; [([x04], [x51]); ([x07], [x00])]]).
Proof. psp_refute. Qed.

(* what is left of the floor: a witness UTXO whose value is the one-byte null value 0x00 with an
   empty script is 36 bytes long; padded to 44 it is accepted, re-serialized it is rejected *)
Theorem v0_psp_refuted_null_value_floor :
  v0_psp_fails (v0_stream [[([x00], ser_full ex_tx1)];
                           [([x01], (x01 :: ex_h32) ++ [x00; x00; x00] ++ repeat xff 8)]]).
Proof. psp_refute. Qed.

(* FULL STATEMENT of the first clause (refuted): for every packet p the roles can produce,
     exists bs, v0_ser p = Some bs /\ v0_parse bs = Some p   (fields identical).
   Proved instead: v0_parse_ser / v0_fields_preserved under v0_wf, and v0_reach_roundtrip below. *)
Definition ex_out_nullnonce : txout :=
  mk_out (x0a :: ex_h32) (x08 :: ex_h32) [x00; x14] [x00] [x01; x02; x03] [x04].
Definition ex_p_nullnonce : v0pset :=
  mk_v0pset ex_tx1 [mk_v0in None (Some ex_out_nullnonce) [] 0 None None [] None None []] [] [].
(* null-nonce witness UTXO carrying proofs: inside v0_wf, round-trips, and loses both proofs *)
Theorem v0_roundtrip_refuted_null_nonce_proofs :
  v0_wf ex_yes ex_yes ex_p_nullnonce = true /\
  exists bs q, v0_ser ex_p_nullnonce = Some bs /\ v0_parse ex_yes ex_yes bs = Some q /\
    option_map o_rp (vi_wu (hd v0_in_empty (vp_ins q))) = Some [] /\
    option_map o_rp (vi_wu (hd v0_in_empty (vp_ins ex_p_nullnonce))) = Some [x01; x02; x03].
Proof.
  split; [vm_compute; reflexivity|]. eexists. eexists. split; [vm_compute; reflexivity|].
  split; [vm_compute; reflexivity|]. split; vm_compute; reflexivity.
Qed.

(* former suspect x (repaired by 2b1b006): a derivation with an empty path round-trips *)
Definition ex_p_emptypath : v0pset :=
  mk_v0pset ex_tx1 [mk_v0in None None [] 0 None None [mk_v0der [x02] 7 []] None None []] [] [].
Example v0_roundtrip_empty_path :
  v0_wf ex_yes ex_yes ex_p_emptypath = true /\
  exists bs, v0_ser ex_p_emptypath = Some bs /\ v0_parse ex_yes ex_yes bs = Some ex_p_emptypath.
Proof. split; [vm_compute; reflexivity|]. eexists. split; [vm_compute; reflexivity | vm_compute; reflexivity]. Qed.

(* repaired by 2b1b006: a witness UTXO with explicit value, null nonce and empty script (44 bytes) *)
Definition ex_p_wu44 : v0pset :=
  mk_v0pset ex_tx1 [mk_v0in None (Some (mk_out (x01 :: ex_h32) (x01 :: repeat x00 8) [] [x00] [] [])) [] 0 None None [] None None []] [] [].
Example v0_roundtrip_wu44 :
  v0_wf ex_yes ex_yes ex_p_wu44 = true /\
  exists bs, v0_ser ex_p_wu44 = Some bs /\ v0_parse ex_yes ex_yes bs = Some ex_p_wu44.
Proof. split; [vm_compute; reflexivity|]. eexists. split; [vm_compute; reflexivity | vm_compute; reflexivity]. Qed.

(* a packet with global unknowns (any key type, duplicates allowed) round-trips with them *)
Definition ex_p_gunk : v0pset :=
  mk_v0pset ex_tx0 [] [] [mk_v0unk [xfc; x01] [x02]; mk_v0unk [x00; x07] []; mk_v0unk [xfc; x01] [x02]].
Example v0_roundtrip_global_unknowns :
  v0_wf ex_yes ex_yes ex_p_gunk = true /\
  exists bs, v0_ser ex_p_gunk = Some bs /\ v0_parse ex_yes ex_yes bs = Some ex_p_gunk.
Proof. split; [vm_compute; reflexivity|]. eexists. split; [vm_compute; reflexivity | vm_compute; reflexivity]. Qed.

(* the 44-byte floor only concerns null-valued outputs *)
Lemma v0_wufloor_nonnull o : wf_out o = true ->
  match o_value o with v :: _ => negb (n8 v =? 0) | [] => false end = true -> v0_wufloor o = true.
Proof.
  intros W NN. apply wf_out_parts in W as (Ha & Hv & Hn & _).
  unfold v0_wufloor, v0_ser_wu, ser_out, v0_MinTxOutLen. rewrite !app_length.
  destruct (o_asset o) as [|a ar]; [discriminate|]. cbn [is_asset] in Ha. apply andb_true_iff in Ha as [_ La].
  apply Nat.eqb_eq in La.
  destruct (o_value o) as [|v vr]; [discriminate|]. cbn [is_value] in Hv. apply negb_true_iff in NN. rewrite NN in Hv.
  assert (Lv : (8 <= length vr)%nat).
  { destruct (n8 v =? 1); [apply Nat.eqb_eq in Hv; lia|].
    destruct ((n8 v =? 8) || (n8 v =? 9)); [apply Nat.eqb_eq in Hv; lia | discriminate]. }
  destruct (o_nonce o) as [|n nr]; [discriminate|].
  pose proof (var_slice_nonempty (o_script o)) as NE. destruct (var_slice (o_script o)); [congruence|].
  cbn [length app]. apply Nat.leb_le. lia.
Qed.

(* ---------- reachability envelope: what creator / updater / signer / finalizer can build ----------
   The roles are abstracted to their effect on the codec-relevant state of one input or output,
   each with the guard the Go code applies (btcec validity, duplicate-key tests, SanityCheck) and
   with the domain condition on the caller's argument that the wire format needs (lengths, Elements
   value/asset/nonce shapes, a non-empty derivation path, a witness UTXO of at least 45 bytes whose
   proofs come with a confidential nonce).  Arguments outside that domain are exactly the known
   findings / wf exclusions; role order is creator, then updater/signer on non-finalized inputs,
   then finalizer (which clears the signing fields, finalizer.go). *)
Section Reach.
Variable valid_pk valid_sig : bytes -> bool.

Definition v0_cleared (i : v0in) : bool :=
  negb (nonempty (vi_sigs i)) && (vi_sighash i =? 0) && negb (v0_is_some (vi_redeem i)) &&
  negb (v0_is_some (vi_wscript i)) && negb (nonempty (vi_ders i)).
Definition v0_inv_in (i : v0in) : bool :=
  v0_wf_in_core valid_pk valid_sig i && v0_sane i && v0_wufloor_in i &&
  match vi_wu i with Some o => v0_wu_canon o | None => true end &&
  (if v0_finalized i then v0_cleared i else true).

Inductive v0_in_op : v0in -> v0in -> Prop :=
| O_nwu i t : v0_finalized i = false -> v0_wf_nwu t = true -> vi_wu i = None -> vi_wscript i = None ->
    v0_in_op i (v0_set_nwu i (Some t))                                   (* AddInNonWitnessUtxo + SanityCheck *)
| O_wu i o : v0_finalized i = false -> v0_wf_wu o = true -> v0_wufloor o = true -> v0_wu_canon o = true ->
    vi_nwu i = None -> v0_in_op i (v0_set_wu i (Some o))                 (* AddInWitnessUtxo + SanityCheck *)
| O_to_witness i o : v0_finalized i = false -> v0_wf_wu o = true -> v0_wufloor o = true -> v0_wu_canon o = true ->
    v0_in_op i (v0_set_wu (v0_set_nwu i None) (Some o))                  (* nonWitnessToWitness *)
| O_sig i s : v0_finalized i = false -> v0_wf_sig valid_pk valid_sig s = true ->
    existsb (fun x => bytes_eqb (sg_pk x) (sg_pk s)) (vi_sigs i) = false ->
    v0_in_op i (v0_set_sigs i (vi_sigs i ++ [s]))                        (* addPartialSignature *)
| O_sighash i x : v0_finalized i = false -> x < two32 -> v0_in_op i (v0_set_sighash i x)
| O_redeem i s : v0_finalized i = false -> v0_len_ok v0_MaxValLen s = true -> v0_in_op i (v0_set_redeem i (Some s))
| O_wscript i s : v0_finalized i = false -> v0_len_ok v0_MaxValLen s = true -> v0_is_some (vi_wu i) = true ->
    v0_in_op i (v0_set_wscript i (Some s))                               (* AddInWitnessScript + SanityCheck *)
| O_der i d : v0_finalized i = false -> v0_wf_der valid_pk d = true ->
    existsb (fun x => bytes_eqb (dv_pk x) (dv_pk d)) (vi_ders i) = false ->
    v0_in_op i (v0_set_ders i (vi_ders i ++ [d]))                        (* AddInBip32Derivation *)
| O_unk i u : v0_wf_unk u = true -> existsb (fun x => v0_unk_eqb x u) (vi_unk i) = false ->
    v0_in_op i (v0_set_unk i (vi_unk i ++ [u]))                          (* Inputs[i].Unknowns = append(...) *)
| O_finalize i fs fw : v0_finalized i = false -> v0_is_some fs || v0_is_some fw = true ->
    v0_wf_script fs = true -> v0_wf_script fw = true -> (v0_is_some fw = true -> v0_is_some (vi_wu i) = true) ->
    v0_in_op i (v0_finalize_in i fs fw). (* finalize*Input: NewPsetInput + final scripts *)

Ltac btrue3 :=
  repeat match goal with
  | H : _ && _ = true |- _ => apply andb_true_iff in H; destruct H
  end.
Ltac proj3 := cbn [vi_nwu vi_wu vi_sigs vi_sighash vi_redeem vi_wscript vi_ders vi_fsig vi_fwit vi_unk
       v0_set_nwu v0_set_wu v0_set_sigs v0_set_sighash v0_set_redeem v0_set_wscript v0_set_ders v0_set_fsig v0_set_fwit v0_set_unk
       v0_wf_script v0_is_some negb andb orb forallb map nonempty] in *.

Lemma v0_in_op_inv i j : v0_in_op i j -> v0_inv_in i = true -> v0_inv_in j = true.
Proof.
  intros Op I. unfold v0_inv_in in I. btrue3.
  assert (FF : forall k, v0_finalized k = false -> (if v0_finalized k then v0_cleared k else true) = true)
    by (intros k E; rewrite E; reflexivity).
  destruct Op as [i t F Wt Ewu Ews | i o F Wo L C En | i o F Wo L C | i s F Ws E | i x F Hx | i s F Ls | i s F Ls Hw
                 | i d F Wd E | i u Wu E | i fs fw F Hf Wfs Wfw Hsw];
  destruct i as [nwu wu sigs sh rd ws ders fsg fwt unk];
  unfold v0_finalize_in, v0_inv_in, v0_wf_in_core, v0_sane, v0_wufloor_in, v0_finalized, v0_cleared in *; proj3; btrue3; subst.
  - rewrite F, Wt. proj3. rewrite !andb_true_iff. repeat split; assumption.
  - rewrite F, Wo, L, C. proj3. rewrite !andb_true_iff. repeat split; assumption.
  - rewrite F, Wo, L, C. proj3. rewrite !andb_true_iff. repeat split; assumption.
  - rewrite F. rewrite forallb_app, map_app. proj3. rewrite Ws.
    rewrite (nodupb_snoc bytes_eqb (map sg_pk sigs) (sg_pk s)); [| assumption | rewrite existsb_map_c; exact E].
    rewrite !andb_true_iff. repeat split; assumption.
  - rewrite F. rewrite (proj2 (N.ltb_lt _ _) Hx). rewrite !andb_true_iff. repeat split; assumption.
  - rewrite F, Ls. rewrite !andb_true_iff. repeat split; assumption.
  - rewrite F, Ls. destruct wu; [|discriminate]. proj3. rewrite !andb_true_iff. repeat split; assumption.
  - rewrite F. rewrite forallb_app, map_app. proj3. rewrite Wd.
    rewrite (nodupb_snoc bytes_eqb (map dv_pk ders) (dv_pk d)); [| assumption | rewrite existsb_map_c; exact E].
    rewrite !andb_true_iff. repeat split; assumption.
  - rewrite forallb_app. proj3. rewrite Wu.
    rewrite (nodupb_snoc v0_unk_eqb unk u); [| assumption | exact E].
    rewrite !andb_true_iff. repeat split; assumption.
  - rewrite Hf, Wfs, Wfw. change (0 <? two32) with true. change (0 =? 0) with true. proj3.
    destruct fw as [w|]; proj3; [specialize (Hsw eq_refl); destruct wu; [|discriminate]|];
      rewrite !andb_true_iff; repeat split; try assumption; destruct nwu, wu; proj3; try discriminate; reflexivity.
Qed.

Definition v0_out_inv (o : v0out) : bool := v0_wf_out valid_pk o.
Inductive v0_out_op : v0out -> v0out -> Prop :=
| P_redeem o s : v0_len_ok v0_MaxValLen s = true -> v0_out_op o (mk_v0out (Some s) (vo_wscript o) (vo_ders o))
| P_wscript o s : v0_len_ok v0_MaxValLen s = true -> v0_out_op o (mk_v0out (vo_redeem o) (Some s) (vo_ders o))
| P_der o d : v0_wf_der valid_pk d = true -> existsb (fun x => bytes_eqb (dv_pk x) (dv_pk d)) (vo_ders o) = false ->
    v0_out_op o (mk_v0out (vo_redeem o) (vo_wscript o) (vo_ders o ++ [d])).
Lemma v0_out_op_inv o o' : v0_out_op o o' -> v0_out_inv o = true -> v0_out_inv o' = true.
Proof.
  intros Op I. destruct Op as [o s Ls | o s Ls | o d Wd E]; destruct o as [rd ws ders];
  unfold v0_out_inv, v0_wf_out in *; cbn [vo_redeem vo_wscript vo_ders v0_wf_script] in *; btrue3.
  - rewrite Ls. rewrite !andb_true_iff. repeat split; assumption.
  - rewrite Ls. rewrite !andb_true_iff. repeat split; assumption.
  - rewrite forallb_app, map_app. cbn [forallb map]. rewrite Wd.
    rewrite (nodupb_snoc bytes_eqb (map dv_pk ders) (dv_pk d)); [| assumption | rewrite existsb_map_c; exact E].
    rewrite !andb_true_iff. repeat split; assumption.
Qed.

(* packets: creator (pset.New), then any sequence of the operations above on single inputs/outputs *)
Inductive v0_reach : v0pset -> Prop :=
| R_new t : wf_tx t = true -> v0_unsigned_ok t = true -> v0_len_ok v0_MaxValLen (ser_full t) = true ->
    v0_reach (mk_v0pset t (map (fun _ => v0_in_empty) (t_ins t)) (map (fun _ => v0_out_empty) (t_outs t)) [])
| R_in p a i b j : v0_reach p -> vp_ins p = a ++ i :: b -> v0_in_op i j ->
    v0_reach (mk_v0pset (vp_tx p) (a ++ j :: b) (vp_outs p) (vp_unk p))
| R_out p a o b o' : v0_reach p -> vp_outs p = a ++ o :: b -> v0_out_op o o' ->
    v0_reach (mk_v0pset (vp_tx p) (vp_ins p) (a ++ o' :: b) (vp_unk p)).

Definition v0_inv (p : v0pset) : Prop :=
  wf_tx (vp_tx p) = true /\ v0_unsigned_ok (vp_tx p) = true /\ v0_len_ok v0_MaxValLen (ser_full (vp_tx p)) = true /\
  length (vp_ins p) = length (t_ins (vp_tx p)) /\ length (vp_outs p) = length (t_outs (vp_tx p)) /\
  forallb v0_inv_in (vp_ins p) = true /\ forallb v0_out_inv (vp_outs p) = true /\ vp_unk p = [].

Lemma forallb_const {A B} (f : B -> bool) (b : B) (l : list A) : f b = true -> forallb f (map (fun _ => b) l) = true.
Proof. intro H. induction l; cbn; [reflexivity | rewrite H; assumption]. Qed.

Theorem v0_reach_inv p : v0_reach p -> v0_inv p.
Proof.
  induction 1 as [t Wt Ut Lt | p a i b j R IH E Op | p a o b o' R IH E Op].
  - unfold v0_inv. cbn [vp_tx vp_ins vp_outs vp_unk]. rewrite !map_length. repeat split; try assumption.
    + apply forallb_const. reflexivity.
    + apply forallb_const. reflexivity.
  - destruct IH as (A1 & A2 & A3 & A4 & A5 & A6 & A7 & A8). unfold v0_inv. cbn [vp_tx vp_ins vp_outs vp_unk].
    rewrite E in A4, A6. rewrite app_length in *. cbn [length] in *. rewrite forallb_app in *. cbn [forallb] in *.
    apply andb_true_iff in A6 as [B1 B2]. apply andb_true_iff in B2 as [B2 B3].
    rewrite B1, B3, (v0_in_op_inv i j Op B2). repeat split; assumption.
  - destruct IH as (A1 & A2 & A3 & A4 & A5 & A6 & A7 & A8). unfold v0_inv. cbn [vp_tx vp_ins vp_outs vp_unk].
    rewrite E in A5, A7. rewrite app_length in *. cbn [length] in *. rewrite forallb_app in *. cbn [forallb] in *.
    apply andb_true_iff in A7 as [B1 B2]. apply andb_true_iff in B2 as [B2 B3].
    rewrite B1, B3, (v0_out_op_inv o o' Op B2). repeat split; assumption.
Qed.

(* on such packets the hop loses nothing: only the order of signatures/derivations and the derived
   transaction flag may change *)
Definition v0_in_same (i j : v0in) : Prop :=
  vi_unk j = vi_unk i /\ vi_fsig j = vi_fsig i /\ vi_fwit j = vi_fwit i /\ vi_wu j = vi_wu i /\
  match vi_nwu i, vi_nwu j with Some t, Some t' => v0_tx_kept t t' | None, None => True | _, _ => False end /\
  Permutation (vi_sigs j) (vi_sigs i) /\ vi_sighash j = vi_sighash i /\
  vi_redeem j = vi_redeem i /\ vi_wscript j = vi_wscript i /\ Permutation (vi_ders j) (vi_ders i).

Lemma v0_inv_in_same i : v0_inv_in i = true -> v0_in_same i (v0_norm_in i).
Proof.
  unfold v0_inv_in. intro I. btrue3. destruct i as [nwu wu sigs sh rd ws ders fsg fwt unk].
  unfold v0_in_same, v0_norm_in, v0_cleared in *. proj3.
  assert (EW : option_map v0_norm_wu wu = wu).
  { destruct wu as [o|]; [|reflexivity]. cbn. rewrite v0_wu_canon_norm by assumption. reflexivity. }
  rewrite EW. destruct (v0_finalized _).
  - btrue3. match goal with H : (sh =? 0) = true |- _ => apply N.eqb_eq in H; subst sh end.
    destruct sigs, rd, ws, ders; try discriminate.
    repeat split; try constructor. destruct nwu; cbn; [apply norm_tx_kept | exact I].
  - repeat split; try apply v0_sort_perm. destruct nwu; cbn; [apply norm_tx_kept | exact I].
Qed.

Lemma v0_inv_wf p : v0_inv p -> v0_wf valid_pk valid_sig p = true.
Proof.
  intros (A1 & A2 & A3 & A4 & A5 & A6 & A7 & A8). unfold v0_wf, v0_wf_core, v0_wufloor_all.
  rewrite A1, A2, A3, A4, A5, !Nat.eqb_refl. cbn [andb].
  assert (X : forall l, forallb v0_inv_in l = true ->
              forallb (v0_wf_in_core valid_pk valid_sig) l = true /\ forallb v0_sane l = true /\ forallb v0_wufloor_in l = true).
  { induction l as [|i l IH]; intro B; [repeat split|]. cbn [forallb] in *. apply andb_true_iff in B as [B1 B2].
    destruct (IH B2) as (C1 & C2 & C3). unfold v0_inv_in in B1. btrue3.
    repeat split; apply andb_true_iff; split; assumption. }
  specialize (X _ A6).
  destruct X as (X1 & X2 & X3). rewrite X1, X2, X3. cbn [andb].
  change (forallb (v0_wf_out valid_pk) (vp_outs p)) with (forallb v0_out_inv (vp_outs p)). rewrite A7, A8. reflexivity.
Qed.

(* C08, first clause, for everything the roles can build inside the argument domain *)
Theorem v0_reach_roundtrip p : v0_reach p ->
  exists bs q, v0_ser p = Some bs /\ v0_parse valid_pk valid_sig bs = Some q /\
    v0_tx_kept (vp_tx p) (vp_tx q) /\ Forall2 v0_in_same (vp_ins p) (vp_ins q) /\
    Forall2 v0_out_kept (vp_outs p) (vp_outs q) /\ vp_unk q = vp_unk p.
Proof.
  intro R. pose proof (v0_reach_inv p R) as I. pose proof (v0_inv_wf p I) as W.
  destruct (v0_parse_ser valid_pk valid_sig p [] W) as [bs [S P]]. rewrite app_nil_r in P.
  exists bs, (v0_norm p). destruct I as (_ & _ & _ & _ & _ & A6 & _ & A8).
  repeat split; try assumption; unfold v0_norm; cbn [vp_tx vp_ins vp_outs vp_unk].
  - apply norm_tx_kept.
  - induction (vp_ins p) as [|i l IH]; cbn; constructor; cbn [forallb] in A6; apply andb_true_iff in A6 as [B1 B2];
      [apply v0_inv_in_same; exact B1 | apply IH; exact B2].
  - induction (vp_outs p) as [|o l IH]; cbn; constructor; [|exact IH].
    unfold v0_out_kept, v0_norm_out. cbn [vo_redeem vo_wscript vo_ders]. repeat split. apply v0_sort_perm.
Qed.

End Reach.

(* a representative history: create, add a confidential witness UTXO, two signatures, a sighash
   type with the 0x40 bit, scripts, a derivation, an unknown; then finalize *)
Example ex_reach :
  v0_reach ex_yes ex_yes
    (mk_v0pset ex_tx1 [mk_v0in None (Some ex_out_conf) [] 0 None None [] None (Some [x02; x00; x00]) []] [] []).
Proof.
  pose (i0 := v0_in_empty).
  pose (i1 := v0_set_wu i0 (Some ex_out_conf)).
  pose (i2 := v0_set_sigs i1 (vi_sigs i1 ++ [mk_v0sig [x03; x01] [x30; x41]])).
  pose (i3 := v0_set_sigs i2 (vi_sigs i2 ++ [mk_v0sig [x02; x09] [x30; x01]])).
  pose (i4 := v0_set_sighash i3 0x41).
  pose (i5 := v0_set_wscript i4 (Some [x51])).
  pose (i6 := v0_set_ders i5 (vi_ders i5 ++ [mk_v0der [x02] 7 [0x80000000; 1]])).
  assert (R0 : v0_reach ex_yes ex_yes (mk_v0pset ex_tx1 [i0] [] [])) by (apply (R_new ex_yes ex_yes ex_tx1); reflexivity).
  assert (R1 : v0_reach ex_yes ex_yes (mk_v0pset ex_tx1 [i1] [] [])).
  { apply (R_in _ _ _ [] i0 [] i1 R0 eq_refl). apply O_wu; reflexivity. }
  assert (R2 : v0_reach ex_yes ex_yes (mk_v0pset ex_tx1 [i2] [] [])).
  { apply (R_in _ _ _ [] i1 [] i2 R1 eq_refl). apply O_sig; reflexivity. }
  assert (R3 : v0_reach ex_yes ex_yes (mk_v0pset ex_tx1 [i3] [] [])).
  { apply (R_in _ _ _ [] i2 [] i3 R2 eq_refl). apply O_sig; reflexivity. }
  assert (R4 : v0_reach ex_yes ex_yes (mk_v0pset ex_tx1 [i4] [] [])).
  { apply (R_in _ _ _ [] i3 [] i4 R3 eq_refl). apply O_sighash; reflexivity. }
  assert (R5 : v0_reach ex_yes ex_yes (mk_v0pset ex_tx1 [i5] [] [])).
  { apply (R_in _ _ _ [] i4 [] i5 R4 eq_refl). apply O_wscript; reflexivity. }
  assert (R6 : v0_reach ex_yes ex_yes (mk_v0pset ex_tx1 [i6] [] [])).
  { apply (R_in _ _ _ [] i5 [] i6 R5 eq_refl). apply O_der; reflexivity. }
  apply (R_in _ _ _ [] i6 [] _ R6 eq_refl).
  apply (O_finalize ex_yes ex_yes i6 None (Some [x02; x00; x00])); try reflexivity.
Qed.
