(* Proofs/Taproot.v — C16: taproot trees, control blocks and key tweaks.
   1. bytes.Compare is a total order, so the ordered branch hash is commutative (proved).
   2. AssembleTaprootScriptTree: for every list of leaves with distinct leaf hashes the
      inclusion proof accumulated for each leaf recomputes the root (induction over the
      pairing pass and over the FIFO queue of the merge loop); no panic, fuel suffices.
   3. Control-block bytes round-trip; the proofs survive it.
   4. Under an injective leaf/branch hash: other script, leaf version, altered node,
      wrong parity, other output key fail.
   5. Tweaked private key corresponds to the output key (abstract group);
      TweakTaprootPrivKey leaves the caller's key unchanged. *)
From GE Require Import Model.Taproot.
From Coq Require Import ZifyBool ZifyN ZifyNat Permutation.
Open Scope nat_scope.

(* ------------------------------------------------------------------ *)
(* 1. bytes.Compare                                                    *)
(* ------------------------------------------------------------------ *)
Lemma bytes_compare_eq a : forall b, bytes_compare a b = Eq -> a = b.
Proof.
  induction a as [|x a IH]; intros [|y b] H; cbn in H; try discriminate; auto.
  destruct (N.compare_spec (n8 x) (n8 y)) as [E|E|E]; try discriminate.
  apply n8_inj in E. subst y. f_equal. auto.
Qed.

Lemma bytes_compare_antisym a : forall b, bytes_compare b a = CompOpp (bytes_compare a b).
Proof.
  induction a as [|x a IH]; intros [|y b]; cbn; auto.
  rewrite (N.compare_antisym (n8 x) (n8 y)).
  destruct (n8 x ?= n8 y)%N; cbn; auto.
Qed.

Lemma bytes_compare_refl a : bytes_compare a a = Eq.
Proof. induction a as [|x a IH]; cbn; auto. rewrite N.compare_refl. auto. Qed.

Section BranchOrder.
  Variable BHR : bytes -> bytes -> bytes.

  (* commutativity of the branch hash is a consequence of the lexicographic ordering *)
  Lemma branch_comm a b : branch BHR a b = branch BHR b a.
  Proof.
    unfold branch, bytes_gt. rewrite (bytes_compare_antisym a b).
    destruct (bytes_compare a b) eqn:E; cbn; auto.
    apply bytes_compare_eq in E. subst. auto.
  Qed.

  Hypothesis BHR_inj : forall a b c d, BHR a b = BHR c d -> a = c /\ b = d.

  Lemma branch_inj_r a x y : branch BHR a x = branch BHR a y -> x = y.
  Proof.
    unfold branch. destruct (bytes_gt a x), (bytes_gt a y); intro H; apply BHR_inj in H; destruct H; congruence.
  Qed.
  Lemma branch_inj_l a x y : branch BHR x a = branch BHR y a -> x = y.
  Proof. rewrite (branch_comm x a), (branch_comm y a). apply branch_inj_r. Qed.
End BranchOrder.

(* ------------------------------------------------------------------ *)
(* generic list facts                                                  *)
(* ------------------------------------------------------------------ *)
Lemma list_pair_ind {A} (P : list A -> Prop) :
  P [] -> (forall x, P [x]) -> (forall x y r, P r -> P (x :: y :: r)) -> forall l, P l.
Proof.
  intros H0 H1 H2 l. assert (H : P l /\ forall a, P (a :: l)).
  { induction l as [|x l [IHa IHb]]; split; auto. }
  tauto.
Qed.

Lemma upd_spec {A} (f : A -> A) (l : list A) : forall i, i < length l ->
  exists l', tupd i f l = Done l' /\ length l' = length l /\
    nth_error l' i = option_map f (nth_error l i) /\
    forall j, j <> i -> nth_error l' j = nth_error l j.
Proof.
  induction l as [|x l IH]; intros i Hi; cbn in Hi; [lia|].
  destruct i as [|i].
  - exists (f x :: l). cbn. repeat split; auto. intros [|j] Hj; [congruence|reflexivity].
  - destruct (IH i ltac:(lia)) as (l' & E & Hl & Hn & Ho).
    exists (x :: l'). cbn [tupd]. rewrite E. cbn. repeat split; auto.
    intros [|j] Hj; cbn; auto.
Qed.

Lemma split_last_spec {A} (l : list A) : l <> [] -> exists i y, split_last l = Some (i, y) /\ l = i ++ [y].
Proof.
  induction l as [|x l IH]; intro H; [congruence|].
  destruct l as [|z l].
  - exists [], x. auto.
  - destruct IH as (i & y & E & El); [congruence|].
    exists (x :: i), y. cbn [split_last] in *. rewrite E. split; auto. cbn. rewrite <- El. auto.
Qed.

Lemma split_last_some {A} (l i : list A) y : split_last l = Some (i, y) -> l = i ++ [y].
Proof.
  intro H. destruct l as [|x l]; [discriminate|].
  destruct (split_last_spec (x :: l)) as (i' & y' & E & El); [congruence|]. congruence.
Qed.

Lemma NoDup_app_inv {A} (a b : list A) :
  NoDup (a ++ b) -> NoDup a /\ NoDup b /\ (forall x, In x a -> ~ In x b).
Proof.
  induction a as [|z a IH]; cbn; intro H.
  - repeat split; auto. constructor.
  - inversion H as [|? ? Hz Hab]; subst. destruct (IH Hab) as (Ha & Hb & Hd).
    repeat split; auto.
    + constructor; auto. intro Hin. apply Hz. apply in_or_app. auto.
    + intros x [<-|Hx]; auto. intro Hxb. apply Hz. apply in_or_app. auto.
Qed.
Lemma NoDup_app_remove_r {A} (a b : list A) : NoDup (a ++ b) -> NoDup a.
Proof. intro H. apply NoDup_app_inv in H. tauto. Qed.
Lemma NoDup_app_remove_l {A} (a b : list A) : NoDup (a ++ b) -> NoDup b.
Proof. intro H. apply NoDup_app_inv in H. tauto. Qed.
Lemma NoDup_app_disj {A} (a b : list A) x : NoDup (a ++ b) -> In x a -> ~ In x b.
Proof. intro H. apply NoDup_app_inv in H. destruct H as (_ & _ & H). auto. Qed.

Lemma NoDup_nth_same {A} (l : list A) i j x :
  NoDup l -> nth_error l i = Some x -> nth_error l j = Some x -> i = j.
Proof.
  intros Hnd Hi Hj. eapply NoDup_nth_error; eauto.
  - apply nth_error_Some. congruence.
  - congruence.
Qed.

(* ------------------------------------------------------------------ *)
(* 2. AssembleTaprootScriptTree                                        *)
(* ------------------------------------------------------------------ *)
Section Assemble.
  Variable LH : tapleaf -> bytes.
  Variable BHR : bytes -> bytes -> bytes.
  Hypothesis LH_len : forall l, length (LH l) = 32.
  Hypothesis BHR_len : forall a b, length (BHR a b) = 32.

  Notation branch := (branch BHR).
  Notation mk_leaf := (mk_leaf LH).
  Notation mk_branch := (mk_branch BHR).
  Notation bnode := (bnode BHR).
  Notation proof_root := (proof_root BHR).
  Notation root_from := (root_from BHR).
  Notation tap_hash := (tap_hash LH BHR).

  Lemma branch_len a b : length (branch a b) = 32.
  Proof. unfold Taproot.branch. destruct (bytes_gt a b); apply BHR_len. Qed.

  (* the stored hash of every node is the recomputed one *)
  Fixpoint wf_node (n : tnode) : Prop :=
    match n with
    | TLeaf h l => h = LH l
    | TBranch h a b => h = branch (tnode_hash a) (tnode_hash b) /\ wf_node a /\ wf_node b
    end.

  Lemma wf_tap_hash n : wf_node n -> tnode_hash n = tap_hash n.
  Proof.
    induction n as [h l|h a IHa b IHb]; cbn; auto.
    intros (E & Ha & Hb). rewrite E, IHa, IHb; auto.
  Qed.
  Lemma wf_mk_leaf l : wf_node (mk_leaf l). Proof. reflexivity. Qed.
  Lemma wf_mk_branch a b : wf_node a -> wf_node b -> wf_node (mk_branch a b).
  Proof. cbn. auto. Qed.
  Lemma wf_hash_len n : wf_node n -> length (tnode_hash n) = 32.
  Proof. destruct n; cbn. - intros ->. apply LH_len. - intros (-> & _). apply branch_len. Qed.

  (* the leaves below a node *)
  Fixpoint tleaves (n : tnode) : list tapleaf :=
    match n with
    | TLeaf _ l => [l]
    | TBranch _ a b => tleaves a ++ tleaves b
    end.
  Lemma leaves_of_tleaves n : wf_node n -> leaves_of n = map mk_leaf (tleaves n).
  Proof.
    induction n as [h l|h a IHa b IHb]; cbn.
    - intros ->. reflexivity.
    - intros (_ & Ha & Hb). rewrite map_app, IHa, IHb; auto.
  Qed.

  (* ---- RootHash over a flat proof ---- *)
  Lemma root_from_app h : length h = 32 -> forall k p acc, length p = 32 * k ->
    root_from (S k) acc (p ++ h) = branch (root_from k acc p) h.
  Proof.
    intros Hh. induction k as [|k IH]; intros p acc Hp.
    - destruct p; [|cbn in Hp; lia]. cbn [app Taproot.root_from].
      rewrite firstn_all2 by lia. reflexivity.
    - change (root_from (S (S k)) acc (p ++ h)) with
        (root_from (S k) (branch acc (firstn 32 (p ++ h))) (skipn 32 (p ++ h))).
      rewrite firstn_app, skipn_app.
      replace (32 - length p) with 0 by lia. rewrite firstn_O, skipn_O, app_nil_r.
      rewrite IH. 2:{ rewrite skipn_length. lia. }
      reflexivity.
  Qed.

  Lemma proof_root_app p h x k : length p = 32 * k -> length h = 32 ->
    proof_root (p ++ h) x = branch (proof_root p x) h.
  Proof.
    intros Hp Hh. unfold Taproot.proof_root. rewrite app_length, Hp, Hh.
    replace (32 * k + 32) with (S k * 32) by lia. rewrite Nat.div_mul by lia.
    replace (32 * k) with (k * 32) by lia. rewrite Nat.div_mul by lia.
    apply root_from_app; auto; lia.
  Qed.

  Lemma proof_root_nil x : proof_root [] x = x.
  Proof. reflexivity. Qed.

  (* ---- the hash-keyed index ---- *)
  Lemma idx_build_notin h : forall ls i ix, ~ In h (map LH ls) ->
    idx_get (build_index LH i ls ix) h = idx_get ix h.
  Proof.
    induction ls as [|l ls IH]; intros i ix Hn; cbn; auto.
    rewrite IH. 2:{ intro. apply Hn. right. auto. }
    cbn. destruct (bytes_eqb (LH l) h) eqn:E; auto.
    apply bytes_eqb_eq in E. exfalso. apply Hn. left. auto.
  Qed.

  Lemma idx_build_pos : forall ls i ix j l, NoDup (map LH ls) -> nth_error ls j = Some l ->
    idx_get (build_index LH i ls ix) (LH l) = i + j.
  Proof.
    induction ls as [|l0 ls IH]; intros i ix j l Hnd Hj; [destruct j; discriminate|].
    cbn in Hnd. inversion Hnd as [|? ? Hni Hnd']; subst.
    destruct j as [|j]; cbn in Hj.
    - injection Hj as ->. cbn. rewrite idx_build_notin by auto. cbn.
      replace (bytes_eqb (LH l) (LH l)) with true. lia.
      symmetry. apply bytes_eqb_eq. auto.
    - cbn. rewrite (IH (S i) _ j l); auto. lia.
  Qed.

  (* ---- fixed list of leaves ---- *)
  Variable ls : list tapleaf.
  Hypothesis ls_nodup : NoDup (map LH ls).
  Let n := length ls.
  Let ix := build_index LH 0 ls [].

  Lemma ls_nodup_leaves : NoDup ls.
  Proof. eapply NoDup_map_inv; eauto. Qed.

  Lemma ix_pos j l : nth_error ls j = Some l -> idx_get ix (LH l) = j.
  Proof. intro H. unfold ix. rewrite (idx_build_pos ls 0 [] j l); auto. Qed.

  (* entry of leaf l proves hash h *)
  Definition good (st : list proof_entry) (l : tapleaf) (h : bytes) : Prop :=
    exists j e, nth_error ls j = Some l /\ nth_error st j = Some e /\ pe_leaf e = l /\
      (exists k, length (pe_proof e) = 32 * k) /\ proof_root (pe_proof e) (LH l) = h.

  Lemma add_leaves_spec h : forall xs st,
    (forall l, In l xs -> In l ls) -> NoDup xs -> length st = n ->
    exists st', add_to_leaves ix (map mk_leaf xs) h st = Done st' /\ length st' = n /\
      (forall j l, nth_error ls j = Some l -> In l xs ->
         nth_error st' j = option_map (add_proof h) (nth_error st j)) /\
      (forall j l, nth_error ls j = Some l -> ~ In l xs -> nth_error st' j = nth_error st j).
  Proof.
    induction xs as [|x xs IH]; intros st Hin Hnd Hlen.
    - exists st. cbn. repeat split; auto. intros j l _ [].
    - inversion Hnd as [|? ? Hx Hnd']; subst.
      destruct (In_nth_error ls x (Hin x (or_introl eq_refl))) as (jx & Hjx).
      assert (Hlt : jx < length st). { rewrite Hlen. apply nth_error_Some. congruence. }
      destruct (upd_spec (add_proof h) st jx Hlt) as (st1 & E1 & Hl1 & Hn1 & Ho1).
      destruct (IH st1) as (st' & E' & Hl' & Hin' & Hout'); auto.
      { intros l Hl. apply Hin. right. auto. }
      { lia. }
      exists st'. cbn [map add_to_leaves]. change (tnode_hash (mk_leaf x)) with (LH x).
      rewrite (ix_pos jx x Hjx), E1. cbn [tobind]. split; [exact E'|]. split; [exact Hl'|]. split.
      + intros j l Hj [Hl|Hl].
        * subst l. assert (j = jx) by (exact (NoDup_nth_same ls j jx x ls_nodup_leaves Hj Hjx)). subst j.
          rewrite (Hout' jx x Hjx Hx). exact Hn1.
        * rewrite (Hin' j l Hj Hl). rewrite Ho1; auto.
          intro. subst j. rewrite Hjx in Hj. injection Hj as <-. contradiction.
      + intros j l Hj Hnl. rewrite (Hout' j l Hj). 2:{ intro. apply Hnl. right. auto. }
        apply Ho1. intro. subst j. rewrite Hjx in Hj. injection Hj as <-. apply Hnl. left. auto.
  Qed.

  Lemma good_add st st' l hb h xs : length h = 32 ->
    (forall j l, nth_error ls j = Some l -> In l xs ->
         nth_error st' j = option_map (add_proof h) (nth_error st j)) ->
    In l xs -> good st l hb -> good st' l (branch hb h).
  Proof.
    intros Hh Hin Hl (j & e & Hj & He & Hlf & (k & Hk) & Hr).
    exists j, (add_proof h e). split; auto. split. { rewrite (Hin j l Hj Hl), He. reflexivity. }
    split; [exact Hlf|]. split.
    - exists (S k). cbn. rewrite app_length. lia.
    - cbn [pe_proof add_proof]. rewrite (proof_root_app _ _ _ k); auto. rewrite Hr. reflexivity.
  Qed.

  Lemma good_keep st st' l hb xs :
    (forall j l, nth_error ls j = Some l -> ~ In l xs -> nth_error st' j = nth_error st j) ->
    ~ In l xs -> good st l hb -> good st' l hb.
  Proof.
    intros Hout Hl (j & e & Hj & He & Hrest).
    exists j, e. split; auto. split; auto. rewrite (Hout j l Hj Hl). exact He.
  Qed.

  (* ---- invariant of the merge loop ---- *)
  Definition flat (q : list tnode) : list tapleaf := concat (map tleaves q).

  Definition Inv (q : list tnode) (st : list proof_entry) : Prop :=
    length st = n /\ Forall wf_node q /\ NoDup (flat q) /\ (forall l, In l (flat q) -> In l ls) /\
    (forall b, In b q -> forall l, In l (tleaves b) -> good st l (tnode_hash b)).

  Lemma flat_cons a q : flat (a :: q) = tleaves a ++ flat q. Proof. reflexivity. Qed.
  Lemma flat_app a b : flat (a ++ b) = flat a ++ flat b.
  Proof. unfold flat. rewrite map_app, concat_app. reflexivity. Qed.

  Lemma in_flat q b l : In b q -> In l (tleaves b) -> In l (flat q).
  Proof. intros Hb Hl. unfold flat. apply in_concat. exists (tleaves b). split; auto. apply in_map. auto. Qed.

  Lemma merge_step L R rest st :
    Inv (L :: R :: rest) st ->
    exists st1 st2,
      add_to_leaves ix (leaves_of L) (tnode_hash R) st = Done st1 /\
      add_to_leaves ix (leaves_of R) (tnode_hash L) st1 = Done st2 /\
      Inv (rest ++ [mk_branch L R]) st2.
  Proof.
    intros (Hlen & Hwf & Hnd & Hsub & Hgood).
    inversion Hwf as [|? ? HwL Hwf']; subst. inversion Hwf' as [|? ? HwR HwRest]; subst.
    rewrite !flat_cons in Hnd, Hsub.
    assert (HndL : NoDup (tleaves L)). { apply NoDup_app_remove_r in Hnd. auto. }
    assert (HndR : NoDup (tleaves R)). { apply NoDup_app_remove_l in Hnd. apply NoDup_app_remove_r in Hnd. auto. }
    assert (Hdisj : forall l, In l (tleaves L) -> ~ In l (tleaves R ++ flat rest)).
    { intros l Hl. eapply NoDup_app_disj; eauto. }
    assert (Hdisj2 : forall l, In l (tleaves R) -> ~ In l (flat rest)).
    { apply NoDup_app_remove_l in Hnd. intros l Hl. eapply NoDup_app_disj; eauto. }
    destruct (add_leaves_spec (tnode_hash R) (tleaves L) st) as (st1 & E1 & Hl1 & Hin1 & Hout1); auto.
    { intros l Hl. apply Hsub. apply in_or_app. auto. }
    destruct (add_leaves_spec (tnode_hash L) (tleaves R) st1) as (st2 & E2 & Hl2 & Hin2 & Hout2); auto.
    { intros l Hl. apply Hsub. apply in_or_app. right. apply in_or_app. auto. }
    exists st1, st2. rewrite !leaves_of_tleaves by auto. split; [exact E1|]. split; [exact E2|].
    split; [exact Hl2|]. split.
    { apply Forall_app. split; auto. constructor; auto. apply wf_mk_branch; auto. }
    assert (Hperm : Permutation (flat (rest ++ [mk_branch L R])) (tleaves L ++ tleaves R ++ flat rest)).
    { rewrite flat_app. unfold flat at 2. cbn [map concat tleaves Taproot.mk_branch]. rewrite app_nil_r.
      rewrite (app_assoc (tleaves L)). apply Permutation_app_comm. }
    split. { eapply Permutation_NoDup; [apply Permutation_sym; exact Hperm|exact Hnd]. }
    split. { intros l Hl. apply Hsub. eapply Permutation_in; eauto. }
    intros b Hb l Hl. apply in_app_or in Hb. destruct Hb as [Hb|[<-|[]]].
    - (* untouched branch *)
      assert (HnL : ~ In l (tleaves L)).
      { intro HL. apply (Hdisj l HL). apply in_or_app. right. eapply in_flat; eauto. }
      assert (HnR : ~ In l (tleaves R)).
      { intro HR. apply (Hdisj2 l HR). eapply in_flat; eauto. }
      eapply good_keep; [exact Hout2|exact HnR|]. eapply good_keep; [exact Hout1|exact HnL|].
      apply Hgood; auto. right. right. auto.
    - cbn [tleaves Taproot.mk_branch] in Hl. change (tnode_hash (mk_branch L R)) with (branch (tnode_hash L) (tnode_hash R)).
      apply in_app_or in Hl. destruct Hl as [Hl|Hl].
      + assert (HnR : ~ In l (tleaves R)).
        { intro HR. apply (Hdisj l Hl). apply in_or_app. auto. }
        eapply good_keep; [exact Hout2|exact HnR|].
        eapply good_add; [apply wf_hash_len; auto|exact Hin1|exact Hl|].
        apply Hgood; auto. left. auto.
      + assert (HnL : ~ In l (tleaves L)).
        { intro HL. apply (Hdisj l HL). apply in_or_app. auto. }
        rewrite branch_comm.
        eapply good_add; [apply wf_hash_len; auto|exact Hin2|exact Hl|].
        eapply good_keep; [exact Hout1|exact HnL|].
        apply Hgood; auto. right. left. auto.
  Qed.

  Lemma merge_phase_correct : forall fuel brs st,
    length brs <= S fuel -> brs <> [] -> Inv (map bnode brs) st ->
    exists root st', merge_phase BHR ix fuel brs st = Done (Some root, st') /\
      Inv [root] st' /\ Permutation (tleaves root) (flat (map bnode brs)).
  Proof.
    induction fuel as [|f IH]; intros brs st Hlen Hne Hinv.
    - destruct brs as [|b [|c r]]; [congruence| |cbn in Hlen; lia].
      exists (bnode b), st. cbn. split; auto. split; auto. unfold flat. cbn. rewrite app_nil_r. apply Permutation_refl.
    - destruct brs as [|b [|c r]]; [congruence| |].
      + exists (bnode b), st. cbn. split; auto. split; auto. unfold flat. cbn. rewrite app_nil_r. apply Permutation_refl.
      + cbn [map] in Hinv. destruct (merge_step _ _ _ _ Hinv) as (st1 & st2 & E1 & E2 & Hinv2).
        destruct (IH (r ++ [(bnode b, bnode c)]) st2) as (root & st' & E & Hroot & Hperm).
        { rewrite app_length. cbn in *. lia. }
        { destruct r; discriminate. }
        { rewrite map_app. exact Hinv2. }
        exists root, st'. cbn [merge_phase]. rewrite E1. cbn [tobind]. rewrite E2. cbn [tobind].
        split; [exact E|]. split; [exact Hroot|].
        eapply Permutation_trans; [exact Hperm|].
        rewrite map_app, flat_app. cbn [map]. rewrite !flat_cons. unfold flat at 2. cbn [map concat]. rewrite app_nil_r.
        change (tleaves (bnode (bnode b, bnode c))) with (tleaves (bnode b) ++ tleaves (bnode c)).
        rewrite (app_assoc (tleaves (bnode b))). apply Permutation_app_comm.
  Qed.

  (* ---- invariant of the pairing pass ---- *)
  Definition leafpair (b : tbranch) : Prop := exists x y, b = (mk_leaf x, mk_leaf y).

  Definition PInv (done : list tapleaf) (q : list tbranch) (st : list proof_entry) : Prop :=
    length st = n /\ Forall leafpair q /\ flat (map bnode q) = done /\
    (forall j, length done <= j -> j < n -> nth_error st j = Some zero_entry) /\
    (forall b, In b q -> forall l, In l (tleaves (bnode b)) -> good st l (tnode_hash (bnode b))).

  Lemma leafpair_wf b : leafpair b -> wf_node (bnode b).
  Proof. intros (x & y & ->). cbn. auto. Qed.

  Lemma nth_done (done todo : list tapleaf) j l : ls = done ++ todo ->
    nth_error ls j = Some l -> In l done -> j < length done.
  Proof.
    intros Hls Hj Hin. destruct (In_nth_error done l Hin) as (j' & Hj').
    assert (Hj2 : nth_error ls j' = Some l).
    { rewrite Hls, nth_error_app1; auto. apply nth_error_Some. congruence. }
    assert (j = j') by (exact (NoDup_nth_same ls j j' l ls_nodup_leaves Hj Hj2)). subst.
    apply nth_error_Some. congruence.
  Qed.

  Lemma good_untouched done todo st st' l h : ls = done ++ todo ->
    (forall j, j < length done -> nth_error st' j = nth_error st j) ->
    In l done -> good st l h -> good st' l h.
  Proof.
    intros Hls Hsame Hin (j & e & Hj & He & Hrest). exists j, e. split; auto. split; auto.
    rewrite Hsame; auto. eapply nth_done; eauto.
  Qed.

  Hypothesis ls_not_single : length ls <> 1.

  Lemma pair_pass_correct : forall todo done q st,
    ls = done ++ todo -> PInv done q st ->
    exists brs st', pair_pass LH BHR ix (length done) todo q st = Done (brs, st') /\
      Inv (map bnode brs) st' /\ flat (map bnode brs) = ls /\ (ls <> [] -> brs <> []).
  Proof.
    induction todo as [|x|x y rest IH] using list_pair_ind; intros done q st Hls (Hlen & Hlp & Hflat & Hzero & Hgood).
    - (* all leaves paired *)
      rewrite app_nil_r in Hls. subst done. exists q, st. cbn. split; auto. split.
      { split; auto. split. { apply Forall_map. eapply Forall_impl; [|exact Hlp]. apply leafpair_wf. }
        rewrite Hflat. split. { apply ls_nodup_leaves. } split; auto.
        intros b Hb l Hl. apply in_map_iff in Hb. destruct Hb as (b0 & <- & Hb0). apply Hgood; auto. }
      split; auto. intros Hne ->. cbn in Hflat. congruence.
    - (* odd leaf: merged with the last branch *)
      assert (Hq : q <> []).
      { intros ->. cbn in Hflat. subst done. apply ls_not_single. rewrite Hls. reflexivity. }
      destruct (split_last_spec q Hq) as (ini & btm & Esl & Eq). cbn [pair_pass]. rewrite Esl.
      assert (Hlpb : leafpair btm).
      { rewrite Forall_forall in Hlp. apply Hlp. rewrite Eq. apply in_or_app. right. left. auto. }
      destruct Hlpb as (a & b & ->). cbn [fst snd].
      set (bt := bnode (mk_leaf a, mk_leaf b)).
      assert (Hwbt : wf_node bt) by (cbn; auto).
      assert (Hi : length done < length st).
      { rewrite Hlen. unfold n. rewrite Hls, app_length. cbn. lia. }
      destruct (upd_spec (set_leaf_add x (tnode_hash bt)) st _ Hi) as (st1 & E1 & Hl1 & Hn1 & Ho1).
      rewrite E1. cbn [tobind].
      assert (Hdone_ab : flat (map bnode ini) ++ [a; b] = done).
      { rewrite <- Hflat, Eq, map_app, flat_app. reflexivity. }
      assert (Hnd_done : NoDup done).
      { pose proof ls_nodup_leaves as H. rewrite Hls in H. apply NoDup_app_remove_r in H. auto. }
      assert (Hab_in : forall l, In l [a; b] -> In l done).
      { intros l Hl. rewrite <- Hdone_ab. apply in_or_app. auto. }
      destruct (add_leaves_spec (tnode_hash (mk_leaf x)) [a; b] st1) as (st3 & E3 & Hl3 & Hin3 & Hout3).
      { intros l Hl. rewrite Hls. apply in_or_app. left. auto. }
      { rewrite <- Hdone_ab in Hnd_done. apply NoDup_app_remove_l in Hnd_done. auto. }
      { lia. }
      cbn [map add_to_leaves] in E3.
      destruct (tupd (idx_get ix (tnode_hash (mk_leaf a))) (add_proof (tnode_hash (mk_leaf x))) st1) as [st2| |] eqn:E2; try discriminate.
      cbn [tobind] in E3 |- *.
      destruct (tupd (idx_get ix (tnode_hash (mk_leaf b))) (add_proof (tnode_hash (mk_leaf x))) st2) as [st3'| |] eqn:E3'; try discriminate.
      cbn [tobind] in E3. injection E3 as <-. cbn [tobind].
      exists (ini ++ [(bt, mk_leaf x)]), st3'. split; [reflexivity|].
      assert (Hx_pos : nth_error ls (length done) = Some x).
      { rewrite Hls, nth_error_app2, Nat.sub_diag; auto. }
      assert (Hx_notin : ~ In x [a; b]).
      { intro Hx. apply Hab_in in Hx. pose proof (nth_done done [x] _ _ Hls Hx_pos Hx). lia. }
      assert (Hflat' : flat (map bnode (ini ++ [(bt, mk_leaf x)])) = ls).
      { rewrite map_app, flat_app. unfold flat at 2. cbn [map concat].
        change (tleaves (bnode (bt, mk_leaf x))) with ([a; b] ++ [x]).
        rewrite app_nil_r, app_assoc, Hdone_ab. auto. }
      split; [|split; [exact Hflat'|intros _; destruct ini; discriminate]].
      split; [lia|]. split.
      { rewrite map_app. apply Forall_app. split.
        - apply Forall_map. rewrite Eq in Hlp. apply Forall_app in Hlp. destruct Hlp as [Hlp _].
          eapply Forall_impl; [|exact Hlp]. apply leafpair_wf.
        - constructor; auto. cbn. auto. }
      rewrite Hflat'. split; [apply ls_nodup_leaves|]. split; auto.
      intros bb Hbb l Hl. rewrite map_app in Hbb. apply in_app_or in Hbb. destruct Hbb as [Hbb|[<-|[]]].
      + (* earlier branches *)
        apply in_map_iff in Hbb. destruct Hbb as (b0 & <- & Hb0).
        assert (Hl_done : In l done).
        { rewrite <- Hdone_ab. apply in_or_app. left. eapply in_flat; eauto. apply in_map. auto. }
        assert (Hl_nab : ~ In l [a; b]).
        { rewrite <- Hdone_ab in Hnd_done. eapply NoDup_app_disj; [exact Hnd_done|].
          eapply in_flat; eauto. apply in_map. auto. }
        eapply good_keep; [exact Hout3|exact Hl_nab|].
        eapply (good_untouched done [x]); [exact Hls| |exact Hl_done|].
        { intros j Hj. apply Ho1. lia. }
        apply Hgood; auto. rewrite Eq. apply in_or_app. auto.
      + change (tleaves (bnode (bt, mk_leaf x))) with ([a; b] ++ [x]) in Hl.
        change (tnode_hash (bnode (bt, mk_leaf x))) with (branch (tnode_hash bt) (tnode_hash (mk_leaf x))).
        apply in_app_or in Hl. destruct Hl as [Hl|[<-|[]]].
        * eapply good_add; [apply LH_len|exact Hin3|exact Hl|].
          eapply (good_untouched done [x]); [exact Hls| |apply Hab_in; exact Hl|].
          { intros j Hj. apply Ho1. lia. }
          apply Hgood; auto. rewrite Eq. apply in_or_app. right. left. auto.
        * eapply good_keep; [exact Hout3|exact Hx_notin|].
          exists (length done), (set_leaf_add x (tnode_hash bt) zero_entry).
          split; auto. split. { rewrite Hn1, Hzero; auto. unfold n. rewrite Hls, app_length. cbn. lia. }
          split; auto. split. { exists 1. cbn [pe_proof set_leaf_add zero_entry app]. rewrite (wf_hash_len bt Hwbt). reflexivity. }
          cbn [pe_proof set_leaf_add zero_entry app]. rewrite branch_comm.
          rewrite <- (app_nil_l (tnode_hash bt)). rewrite (proof_root_app [] _ _ 0); auto.
          apply wf_hash_len; auto.
    - (* two more leaves *)
      cbn [pair_pass].
      assert (Hn_ge : S (length done) < n). { unfold n. rewrite Hls, app_length. cbn. lia. }
      destruct (upd_spec (set_leaf_add x (tnode_hash (mk_leaf y))) st (length done)) as (st1 & E1 & Hl1 & Hn1 & Ho1); [lia|].
      destruct (upd_spec (set_leaf_add y (tnode_hash (mk_leaf x))) st1 (S (length done))) as (st2 & E2 & Hl2 & Hn2 & Ho2); [lia|].
      rewrite E1. cbn [tobind]. rewrite E2. cbn [tobind].
      specialize (IH (done ++ [x; y]) (q ++ [(mk_leaf x, mk_leaf y)]) st2).
      rewrite app_length in IH. cbn [length] in IH. replace (length done + 2) with (S (S (length done))) in IH by lia.
      apply IH. { rewrite <- app_assoc. exact Hls. }
      assert (Hx_pos : nth_error ls (length done) = Some x).
      { rewrite Hls, nth_error_app2, Nat.sub_diag; auto. }
      assert (Hy_pos : nth_error ls (S (length done)) = Some y).
      { rewrite Hls, nth_error_app2 by lia. replace (S (length done) - length done) with 1 by lia. reflexivity. }
      split; [lia|]. split.
      { apply Forall_app. split; auto. constructor; auto. exists x, y. auto. }
      split. { rewrite map_app, flat_app, Hflat. reflexivity. }
      split. { intros j Hj1 Hj2. rewrite app_length in Hj1. cbn in Hj1. rewrite Ho2, Ho1 by lia. apply Hzero; lia. }
      intros b Hb l Hl. apply in_app_or in Hb. destruct Hb as [Hb|[<-|[]]].
      + assert (Hl_done : In l done).
        { rewrite <- Hflat. eapply in_flat; eauto. apply in_map. auto. }
        eapply (good_untouched done (x :: y :: rest)); [exact Hls| |exact Hl_done|apply Hgood; auto].
        intros j Hj. rewrite Ho2, Ho1 by lia. reflexivity.
      + change (tleaves (bnode (mk_leaf x, mk_leaf y))) with [x; y] in Hl.
        change (tnode_hash (bnode (mk_leaf x, mk_leaf y))) with (branch (LH x) (LH y)).
        destruct Hl as [<-|[<-|[]]].
        * exists (length done), (set_leaf_add x (LH y) zero_entry). split; auto. split.
          { rewrite Ho2 by lia. rewrite Hn1, Hzero by lia. reflexivity. }
          split; auto. split. { exists 1. cbn. rewrite LH_len. lia. }
          cbn [pe_proof set_leaf_add zero_entry app].
          rewrite <- (app_nil_l (LH y)). rewrite (proof_root_app [] _ _ 0); auto.
        * exists (S (length done)), (set_leaf_add y (LH x) zero_entry). split; auto. split.
          { rewrite Hn2, Ho1 by lia. rewrite Hzero by lia. reflexivity. }
          split; auto. split. { exists 1. cbn. rewrite LH_len. lia. }
          cbn [pe_proof set_leaf_add zero_entry app]. rewrite branch_comm.
          rewrite <- (app_nil_l (LH x)). rewrite (proof_root_app [] _ _ 0); auto.
  Qed.
End Assemble.

(* ------------------------------------------------------------------ *)
(* main theorem of part 2                                              *)
(* ------------------------------------------------------------------ *)
Section AssembleMain.
  Variable LH : tapleaf -> bytes.
  Variable BHR : bytes -> bytes -> bytes.
  Hypothesis LH_len : forall l, length (LH l) = 32.
  Hypothesis BHR_len : forall a b, length (BHR a b) = 32.

  (* what a caller of AssembleTaprootScriptTree gets for leaves ls *)
  Definition assembled (ls : list tapleaf) (root : tnode) (st : list proof_entry) : Prop :=
    assemble LH BHR ls = Done (Some root, st) /\
    wf_node LH BHR root /\ Permutation (tleaves root) ls /\ length st = length ls /\
    forall i l, nth_error ls i = Some l ->
      exists e, nth_error st i = Some e /\ pe_leaf e = l /\
        (exists k, length (pe_proof e) = 32 * k) /\
        proof_root BHR (pe_proof e) (LH l) = tnode_hash root.

  Theorem every_leaf_proves_root ls :
    NoDup (map LH ls) -> ls <> [] -> exists root st, assembled ls root st.
  Proof.
    intros Hnd Hne. destruct ls as [|x [|y r]]; [congruence| |].
    - (* lone leaf *)
      exists (mk_leaf LH x), [mk_pe x []]. split; [reflexivity|]. split; [reflexivity|].
      split; [apply Permutation_refl|]. split; [reflexivity|].
      intros [|i] l Hi; cbn in Hi; [|destruct i; discriminate]. injection Hi as <-.
      exists (mk_pe x []). repeat split; auto. exists 0. reflexivity.
    - set (ls := x :: y :: r) in *.
      assert (Hns : length ls <> 1) by (cbn; lia).
      destruct (pair_pass_correct LH BHR LH_len BHR_len ls Hnd Hns ls [] [] (repeat zero_entry (length ls)))
        as (brs & st1 & E1 & Hinv1 & Hflat1 & Hbrs); [reflexivity| |].
      { split; [apply repeat_length|]. split; [constructor|]. split; [reflexivity|]. split.
        - intros j _ Hj. apply nth_error_repeat. exact Hj.
        - intros b []. }
      destruct (merge_phase_correct LH BHR LH_len BHR_len ls Hnd (length brs) brs st1)
        as (root & st & E2 & Hroot & Hperm); auto.
      exists root, st. split.
      { unfold assemble. fold ls. cbn [length] in E1. rewrite E1. cbn [tobind fst snd]. exact E2. }
      destruct Hroot as (Hlen & Hwf & _ & _ & Hgood). inversion Hwf; subst.
      split; auto. rewrite Hflat1 in Hperm. split; auto. split; auto.
      intros i l Hi.
      assert (Hin : In l (tleaves root)).
      { eapply Permutation_in; [apply Permutation_sym; exact Hperm|]. eapply nth_error_In; eauto. }
      destruct (Hgood root (or_introl eq_refl) l Hin) as (j & e & Hj & He & Hrest).
      assert (i = j). { refine (NoDup_nth_same ls i j l _ Hi Hj). eapply NoDup_map_inv; exact Hnd. }
      subst j. exists e. auto.
  Qed.

  (* the root hash is the one TapHash() recomputes from the tree *)
  Corollary assembled_root_hash ls root st :
    assembled ls root st -> tnode_hash root = tap_hash LH BHR root.
  Proof. intros (_ & Hwf & _). apply wf_tap_hash. exact Hwf. Qed.
  (* the same, written out *)
  Theorem every_leaf_proves_root_full ls :
    NoDup (map LH ls) -> ls <> [] ->
    exists root st,
      assemble LH BHR ls = Done (Some root, st) /\
      tnode_hash root = tap_hash LH BHR root /\ Permutation (tleaves root) ls /\ length st = length ls /\
      forall i l, nth_error ls i = Some l ->
        exists e, nth_error st i = Some e /\ pe_leaf e = l /\
          (exists k, length (pe_proof e) = 32 * k) /\
          proof_root BHR (pe_proof e) (LH l) = tnode_hash root.
  Proof.
    intros Hnd Hne. destruct (every_leaf_proves_root ls Hnd Hne) as (root & st & Ha).
    exists root, st. pose proof (assembled_root_hash ls root st Ha). unfold assembled in Ha. tauto.
  Qed.
End AssembleMain.

(* ------------------------------------------------------------------ *)
(* 3. control-block bytes                                              *)
(* ------------------------------------------------------------------ *)
Definition wf_cb (liftable : bytes -> bool) (c : cblock) : Prop :=
  length (cb_key c) = 32 /\ liftable (cb_key c) = true /\
  N.testbit (n8 (cb_version c)) 0%N = false /\
  exists k, length (cb_proof c) = 32 * k /\ k <= 128.

Lemma first_byte_roundtrip (v : byte) (o : bool) : N.testbit (n8 v) 0%N = false ->
  N.testbit (n8 (b8 (N.lor (n8 v) (if o then 1%N else 0%N)))) 0%N = o /\
  b8 (N.land (n8 (b8 (N.lor (n8 v) (if o then 1 else 0)%N))) 0xfe%N) = v.
Proof.
  destruct v; intro H; try (vm_compute in H; discriminate H); destruct o; vm_compute; split; reflexivity.
Qed.

Theorem parse_ser_cb liftable c : wf_cb liftable c -> parse_cb liftable (ser_cb c) = Some c.
Proof.
  intros (Hk & Hl & Hv & k & Hp & Hk128). unfold parse_cb, ser_cb.
  cbn [length]. rewrite app_length, Hk, Hp. unfold cb_base_size, cb_max_size, cb_node_size.
  replace (S (32 + 32 * k) <? 33) with false by (symmetry; apply Nat.ltb_ge; lia).
  replace (33 + 32 * 128 <? S (32 + 32 * k)) with false by (symmetry; apply Nat.ltb_ge; lia).
  replace (S (32 + 32 * k) - 33) with (k * 32) by lia. rewrite Nat.mod_mul by lia. cbn [Nat.eqb negb].
  rewrite firstn_app, skipn_app, Hk, Nat.sub_diag, firstn_O, skipn_O, app_nil_r.
  rewrite firstn_all2, skipn_all2 by lia. rewrite Hl. cbn [app].
  destruct (first_byte_roundtrip (cb_version c) (cb_odd c) Hv) as (-> & ->).
  destruct c; reflexivity.
Qed.

(* an ODD leaf version does not survive the bytes: bit 0 of the first byte is the parity flag,
   so ParseControlBlock returns version & 0xfe with the parity flag set, whatever the parity was *)
Lemma first_byte_odd_version (v : byte) (o : bool) : N.testbit (n8 v) 0%N = true ->
  N.testbit (n8 (b8 (N.lor (n8 v) (if o then 1%N else 0%N)))) 0%N = true /\
  b8 (N.land (n8 (b8 (N.lor (n8 v) (if o then 1%N else 0%N)))) 0xfe%N) = b8 (N.land (n8 v) 0xfe%N).
Proof.
  destruct v; intro H; try (vm_compute in H; discriminate H); destruct o; vm_compute; split; reflexivity.
Qed.

Theorem parse_ser_cb_odd_version liftable c :
  length (cb_key c) = 32 -> liftable (cb_key c) = true ->
  (exists k, length (cb_proof c) = 32 * k /\ k <= 128) ->
  N.testbit (n8 (cb_version c)) 0%N = true ->
  parse_cb liftable (ser_cb c) =
  Some (mk_cblock (cb_key c) true (b8 (N.land (n8 (cb_version c)) 0xfe%N)) (cb_proof c)).
Proof.
  intros Hk Hl (k & Hp & Hk128) Hv. unfold parse_cb, ser_cb.
  cbn [length]. rewrite app_length, Hk, Hp. unfold cb_base_size, cb_max_size, cb_node_size.
  replace (S (32 + 32 * k) <? 33) with false by (symmetry; apply Nat.ltb_ge; lia).
  replace (33 + 32 * 128 <? S (32 + 32 * k)) with false by (symmetry; apply Nat.ltb_ge; lia).
  replace (S (32 + 32 * k) - 33) with (k * 32) by lia. rewrite Nat.mod_mul by lia. cbn [Nat.eqb negb].
  rewrite firstn_app, skipn_app, Hk, Nat.sub_diag, firstn_O, skipn_O, app_nil_r.
  rewrite firstn_all2, skipn_all2 by lia. rewrite Hl. cbn [app].
  destruct (first_byte_odd_version (cb_version c) (cb_odd c) Hv) as (-> & ->). reflexivity.
Qed.

(* a block of more than 128 proof nodes (more than 4129 bytes) is refused; the verification
   theorems themselves (proof_root, verify_commitment) hold for proofs of ANY length *)
Lemma parse_cb_rejects_long liftable bs : cb_max_size < length bs -> parse_cb liftable bs = None.
Proof.
  intro H. unfold parse_cb. destruct (length bs <? cb_base_size); [reflexivity|].
  apply Nat.ltb_lt in H. rewrite H. reflexivity.
Qed.

Lemma to_cb_root LH BHR e keyx odd :
  cb_root LH BHR (to_cb e keyx odd) (tlf_script (pe_leaf e)) = proof_root BHR (pe_proof e) (LH (pe_leaf e)).
Proof. unfold cb_root, to_cb. cbn. destruct (pe_leaf e); reflexivity. Qed.

(* psetv2 InputTapLeafScript key pair round-trips when the leaf version of the control
   block is the leaf's (NewTapLeafScript) *)
Lemma split_last_app {A} (l : list A) y : split_last (l ++ [y]) = Some (l, y).
Proof.
  induction l as [|x l IH]; [reflexivity|]. cbn [app split_last]. rewrite IH.
  destruct (l ++ [y]) eqn:E; [destruct l; discriminate|reflexivity].
Qed.

Theorem tapleaf_kv_roundtrip liftable l c :
  wf_cb liftable c -> cb_version c = tlf_version l ->
  parse_tapleaf_kv liftable (fst (tapleaf_kv l c)) (snd (tapleaf_kv l c)) = KvOk l c.
Proof.
  intros Hwf Hv. unfold parse_tapleaf_kv, tapleaf_kv. cbn [fst snd].
  rewrite (parse_ser_cb liftable c Hwf). rewrite split_last_app.
  destruct Hwf as (Hk & _ & _ & k & Hp & _).
  replace (Z.rem (Z.of_nat (length (ser_cb c)) - 1) 32 =? 0)%Z with true.
  2:{ symmetry. apply Z.eqb_eq. unfold ser_cb. cbn [length]. rewrite app_length, Hk, Hp.
      replace (Z.of_nat (S (32 + 32 * k)) - 1)%Z with ((1 + Z.of_nat k) * 32)%Z by lia.
      apply Z.rem_mul. lia. }
  cbn [negb]. replace (beqb (cb_version c) (tlf_version l)) with true.
  2:{ symmetry. apply beqb_eq. exact Hv. }
  cbn [negb]. rewrite Hv. destruct l; reflexivity.
Qed.

(* ------------------------------------------------------------------ *)
(* SHA-256 digests are 32 bytes (for the executable instance)          *)
(* ------------------------------------------------------------------ *)
Lemma round_length st kw : length st = 8 -> length (round st kw) = 8.
Proof.
  intro H. do 9 (destruct st as [|? st]; try discriminate H). reflexivity.
Qed.
Lemma fold_round_length l : forall st, length st = 8 -> length (fold_left round l st) = 8.
Proof. induction l as [|kw l IH]; intros st H; cbn; auto. apply IH. apply round_length. exact H. Qed.
Lemma compress_length st block : length st = 8 -> length (compress st block) = 8.
Proof.
  intro H. unfold compress. rewrite map_length, combine_length, fold_round_length by exact H. rewrite H. reflexivity.
Qed.
Lemma blocks_length fuel : forall st bs, length st = 8 -> length (blocks fuel st bs) = 8.
Proof.
  induction fuel as [|f IH]; intros st bs H; cbn [blocks]; auto.
  destruct bs; auto. apply IH. apply compress_length. exact H.
Qed.
Lemma sha256_length msg : length (sha256 msg) = 32.
Proof. unfold sha256. apply digest_of_length. apply blocks_length. reflexivity. Qed.
Lemma tagged_hash_length tag msg : length (tagged_hash tag msg) = 32.
Proof. unfold tagged_hash. exact (sha256_length _). Qed.
(* the precomputed-tag form is the BIP-340 tagged hash *)
Lemma tagged_from_mid_spec tag msg :
  tagged_from_mid (tag_prefix tag) (tag_mid tag) msg = tagged_hash tag msg.
Proof.
  unfold tagged_hash, tagged_from_mid, tag_mid, tag_prefix. cbv zeta.
  assert (Ht : length (sha256 tag ++ sha256 tag) = 64) by (rewrite app_length, sha256_length; reflexivity).
  rewrite (app_assoc (sha256 tag) (sha256 tag) msg). set (pre := sha256 tag ++ sha256 tag) in *.
  clearbody pre. unfold sha256.
  assert (Hp : exists rest, pad (pre ++ msg) = pre ++ rest).
  { unfold pad. rewrite <- app_assoc. eauto. }
  destruct Hp as (rest & Hp). rewrite Hp.
  cbn [blocks]. destruct (pre ++ rest) eqn:E.
  { destruct pre; [discriminate Ht|discriminate E]. }
  rewrite <- E. rewrite firstn_app, Ht, Nat.sub_diag, firstn_O, app_nil_r, firstn_all2 by lia.
  reflexivity.
Qed.

Lemma leaf_hash_spec l : leaf_hash l = tagged_hash tag_leaf (tlf_version l :: var_slice (tlf_script l)).
Proof. unfold leaf_hash, leaf_pre, leaf_mid. exact (tagged_from_mid_spec _ _). Qed.
Lemma branch_hash_raw_spec a b : branch_hash_raw a b = tagged_hash tag_branch (a ++ b).
Proof. unfold branch_hash_raw, branch_pre, branch_mid. exact (tagged_from_mid_spec _ _). Qed.
Lemma tweak_hash_spec kx root : tweak_hash kx root = tagged_hash tag_tweak (kx ++ root).
Proof. unfold tweak_hash, tweak_pre, tweak_mid. exact (tagged_from_mid_spec _ _). Qed.

Lemma leaf_hash_length l : length (leaf_hash l) = 32.
Proof. rewrite leaf_hash_spec. exact (tagged_hash_length _ _). Qed.
Lemma branch_hash_raw_length a b : length (branch_hash_raw a b) = 32.
Proof. rewrite branch_hash_raw_spec. exact (tagged_hash_length _ _). Qed.

(* the executable instance: for every list of leaves with distinct Elements leaf hashes *)
Theorem every_leaf_proves_root_sha ls :
  NoDup (map leaf_hash ls) -> ls <> [] ->
  exists root st, assembled leaf_hash branch_hash_raw ls root st.
Proof. apply every_leaf_proves_root; [apply leaf_hash_length|apply branch_hash_raw_length]. Qed.

Lemma bytes_eqb_refl a : bytes_eqb a a = true.
Proof. apply bytes_eqb_eq. reflexivity. Qed.

(* ------------------------------------------------------------------ *)
(* 3b. every leaf verifies against the output key; parity bit           *)
(* ------------------------------------------------------------------ *)
Section Verify.
  Variable point : Type.
  Variable padd : point -> point -> point.
  Variable mulG : Z -> point.
  Variable lift_x : bytes -> option point.
  Variable xonly : point -> bytes.
  Variable odd_y : point -> bool.
  Variable TS : bytes -> bytes -> Z.
  Variable LH : tapleaf -> bytes.
  Variable BHR : bytes -> bytes -> bytes.
  Hypothesis LH_len : forall l, length (LH l) = 32.
  Hypothesis BHR_len : forall a b, length (BHR a b) = 32.

  Notation output_key := (output_key point padd mulG lift_x xonly TS).
  Notation verify := (verify_commitment point padd mulG lift_x xonly odd_y TS LH BHR).
  Notation to_control_block := (to_control_block point padd mulG lift_x xonly odd_y TS).

  (* ToControlBlock records the parity of the output key, and the block verifies *)
  Theorem parity_bit_correct e p root q :
    proof_root BHR (pe_proof e) (LH (pe_leaf e)) = root ->
    output_key p root = Some q ->
    exists cb, to_control_block e p root = Some cb /\ cb_odd cb = odd_y q /\ cb_key cb = xonly p /\
      verify cb (xonly q) (tlf_script (pe_leaf e)) = Some true.
  Proof.
    intros Hroot Hq. unfold Taproot.to_control_block. rewrite Hq.
    exists (to_cb e (xonly p) (odd_y q)). split; [reflexivity|]. split; [reflexivity|]. split; [reflexivity|].
    unfold verify_commitment. rewrite to_cb_root, Hroot. cbn [cb_key to_cb].
    unfold Taproot.output_key in Hq. rewrite Hq. cbn [cb_odd].
    rewrite bytes_eqb_refl. destruct (odd_y q); reflexivity.
  Qed.

  (* for every leaf count: each leaf's control block proves the leaf against the one
     output key of the tree, with the right parity bit, also after ToBytes / ParseControlBlock *)
  Theorem every_leaf_verifies ls p :
    NoDup (map LH ls) -> ls <> [] ->
    exists root st, assembled LH BHR ls root st /\
      forall q, output_key p (tnode_hash root) = Some q ->
      forall i l, nth_error ls i = Some l ->
        exists e cb, nth_error st i = Some e /\ pe_leaf e = l /\
          to_control_block e p (tnode_hash root) = Some cb /\ cb_odd cb = odd_y q /\
          verify cb (xonly q) (tlf_script l) = Some true /\
          forall liftable, wf_cb liftable cb -> parse_cb liftable (ser_cb cb) = Some cb.
  Proof.
    intros Hnd Hne. destruct (every_leaf_proves_root LH BHR LH_len BHR_len ls Hnd Hne) as (root & st & Hasm).
    exists root, st. split; [exact Hasm|]. intros q Hq i l Hi.
    destruct Hasm as (_ & _ & _ & _ & Hall). destruct (Hall i l Hi) as (e & He & Hl & _ & Hroot).
    subst l. destruct (parity_bit_correct e p _ q Hroot Hq) as (cb & Hcb & Hodd & _ & Hver).
    exists e, cb. repeat split; auto. intros liftable. apply parse_ser_cb.
  Qed.

  (* the control block of a leaf of the tree is well-formed for ParseControlBlock as soon
     as the key is a valid x-only key, the leaf version has bit 0 clear and the proof has
     at most 128 nodes (a tree deeper than 128 cannot be built in memory) *)
  Lemma wf_cb_of_entry liftable e keyx odd k :
    length keyx = 32 -> liftable keyx = true -> N.testbit (n8 (tlf_version (pe_leaf e))) 0%N = false ->
    length (pe_proof e) = 32 * k -> k <= 128 -> wf_cb liftable (to_cb e keyx odd).
  Proof. intros. unfold wf_cb, to_cb. cbn. repeat split; auto. exists k. auto. Qed.
End Verify.

(* ------------------------------------------------------------------ *)
(* 4. anything else fails (ideal hash, ideal group)                    *)
(* ------------------------------------------------------------------ *)
Section Negative.
  Variable point : Type.
  Variable padd : point -> point -> point.
  Variable mulG : Z -> point.
  Variable lift_x : bytes -> option point.
  Variable xonly : point -> bytes.
  Variable odd_y : point -> bool.
  Variable TS : bytes -> bytes -> Z.
  Variable LH : tapleaf -> bytes.
  Variable BHR : bytes -> bytes -> bytes.
  (* ideal hashes *)
  Hypothesis LH_inj : forall a b, LH a = LH b -> a = b.
  Hypothesis BHR_inj : forall a b c d, BHR a b = BHR c d -> a = c /\ b = d.
  (* the tweak commitment root |-> H_tweak(key, root) * G is collision free *)
  Hypothesis tweak_commit_inj : forall k r r', mulG (TS k r) = mulG (TS k r') -> r = r'.
  (* group: cancellation; a point is determined by its x coordinate and y parity *)
  Hypothesis padd_cancel : forall p a b, padd p a = padd p b -> a = b.
  Hypothesis xonly_parity_inj : forall a b, xonly a = xonly b -> odd_y a = odd_y b -> a = b.

  Notation verify := (verify_commitment point padd mulG lift_x xonly odd_y TS LH BHR).
  Notation branch := (branch BHR).
  Notation root_from := (root_from BHR).

  Lemma root_from_inj_acc k : forall p a a', root_from k a p = root_from k a' p -> a = a'.
  Proof.
    induction k as [|k IH]; intros p a a' H; cbn in H; auto.
    apply IH in H. eapply branch_inj_l; eauto.
  Qed.

  Lemma verify_same_root c c' prog s s' :
    cb_key c' = cb_key c -> cb_odd c' = cb_odd c ->
    verify c prog s = Some true -> verify c' prog s' = Some true ->
    cb_root LH BHR c s = cb_root LH BHR c' s'.
  Proof.
    intros Hk Ho. unfold verify_commitment, output_key_x. rewrite Hk, Ho.
    destruct (lift_x (cb_key c)) as [p0|]; [|discriminate].
    intros H1 H2. injection H1 as H1. injection H2 as H2.
    apply andb_prop in H1. apply andb_prop in H2. destruct H1 as [X1 P1], H2 as [X2 P2].
    apply bytes_eqb_eq in X1. apply bytes_eqb_eq in X2. apply eqb_prop in P1. apply eqb_prop in P2.
    apply (tweak_commit_inj (xonly p0)). apply (padd_cancel p0). apply xonly_parity_inj; congruence.
  Qed.

  (* another script or another leaf version *)
  Theorem other_script_or_version_fails c prog s v' s' :
    mk_tapleaf v' s' <> mk_tapleaf (cb_version c) s ->
    verify c prog s = Some true ->
    verify (mk_cblock (cb_key c) (cb_odd c) v' (cb_proof c)) prog s' <> Some true.
  Proof.
    intros Hne H1 H2. apply Hne.
    pose proof (verify_same_root c (mk_cblock (cb_key c) (cb_odd c) v' (cb_proof c)) prog s s' eq_refl eq_refl H1 H2) as Hr.
    unfold cb_root, proof_root in Hr. cbn [cb_proof cb_version] in Hr.
    apply root_from_inj_acc in Hr. apply LH_inj in Hr. congruence.
  Qed.

  Lemma root_from_split : forall j k p1 rest acc, length p1 = 32 * j ->
    root_from (j + k) acc (p1 ++ rest) = root_from k (root_from j acc p1) rest.
  Proof.
    induction j as [|j IH]; intros k p1 rest acc Hp.
    - destruct p1; [reflexivity|cbn in Hp; lia].
    - cbn [Nat.add Taproot.root_from].
      rewrite firstn_app, skipn_app. replace (32 - length p1) with 0 by lia.
      rewrite firstn_O, skipn_O, app_nil_r. apply IH. rewrite skipn_length. lia.
  Qed.

  Lemma root_from_node k x rest acc : length x = 32 ->
    root_from (S k) acc (x ++ rest) = root_from k (branch acc x) rest.
  Proof.
    intro Hx. cbn [Taproot.root_from]. rewrite firstn_app, skipn_app, Hx, Nat.sub_diag, firstn_O, skipn_O, app_nil_r.
    rewrite firstn_all2, skipn_all2 by lia. reflexivity.
  Qed.

  (* exactly one 32-byte node of the inclusion proof replaced *)
  Theorem altered_node_fails c prog s p1 x x' p2 j m :
    cb_proof c = p1 ++ x ++ p2 -> length p1 = 32 * j -> length x = 32 -> length x' = 32 ->
    length p2 = 32 * m -> x' <> x ->
    verify c prog s = Some true ->
    verify (mk_cblock (cb_key c) (cb_odd c) (cb_version c) (p1 ++ x' ++ p2)) prog s <> Some true.
  Proof.
    intros Hp H1l Hx Hx' H2l Hne H1 H2. apply Hne.
    pose proof (verify_same_root c (mk_cblock (cb_key c) (cb_odd c) (cb_version c) (p1 ++ x' ++ p2)) prog s s eq_refl eq_refl H1 H2) as Hr.
    unfold cb_root, proof_root in Hr. cbn [cb_proof cb_version] in Hr. rewrite Hp in Hr.
    rewrite !app_length, H1l, H2l, Hx, Hx' in Hr.
    replace ((32 * j + (32 + 32 * m)) / 32) with (j + S m) in Hr.
    2:{ replace (32 * j + (32 + 32 * m)) with ((j + S m) * 32) by lia. rewrite Nat.div_mul; lia. }
    rewrite !root_from_split in Hr by exact H1l. rewrite !root_from_node in Hr by assumption.
    apply root_from_inj_acc in Hr. symmetry. eapply branch_inj_r; eauto.
  Qed.

  (* the parity bit flipped *)
  Theorem wrong_parity_fails c prog s :
    verify c prog s = Some true ->
    verify (mk_cblock (cb_key c) (negb (cb_odd c)) (cb_version c) (cb_proof c)) prog s <> Some true.
  Proof.
    unfold verify_commitment, cb_root. cbn [cb_key cb_odd cb_version cb_proof].
    destruct (output_key_x _ _ _ _ _ _ _ _) as [q|]; [|discriminate].
    intros H1 H2. injection H1 as H1. injection H2 as H2.
    apply andb_prop in H1. apply andb_prop in H2. destruct H1 as [_ P1], H2 as [_ P2].
    apply eqb_prop in P1. apply eqb_prop in P2. destruct (cb_odd c); cbn in P2; congruence.
  Qed.

  (* another output key (witness program) *)
  Theorem other_output_key_fails c prog prog' s :
    prog' <> prog -> verify c prog s = Some true -> verify c prog' s <> Some true.
  Proof.
    unfold verify_commitment. destruct (output_key_x _ _ _ _ _ _ _ _) as [q|]; [|discriminate].
    intros Hne H1 H2. injection H1 as H1. injection H2 as H2.
    apply andb_prop in H1. apply andb_prop in H2. destruct H1 as [X1 _], H2 as [X2 _].
    apply bytes_eqb_eq in X1. apply bytes_eqb_eq in X2. congruence.
  Qed.
End Negative.

(* ------------------------------------------------------------------ *)
(* 5. key tweaks                                                       *)
(* ------------------------------------------------------------------ *)
Section Tweak.
  Variable point : Type.
  Variable padd : point -> point -> point.
  Variable pneg : point -> point.
  Variable mulG : Z -> point.
  Variable lift_x : bytes -> option point.
  Variable xonly : point -> bytes.
  Variable odd_y : point -> bool.
  Variable TS : bytes -> bytes -> Z.
  (* lift_x returns the point with even y; negation keeps x *)
  Hypothesis lift_xonly : forall d,
    lift_x (xonly (mulG d)) = Some (if odd_y (mulG d) then pneg (mulG d) else mulG d).
  Hypothesis xonly_neg : forall d, xonly (pneg (mulG d)) = xonly (mulG d).
  (* scalar multiplication of the generator is a homomorphism from Z/n *)
  Hypothesis mulG_add : forall a b, mulG ((a + b) mod tap_n)%Z = padd (mulG a) (mulG b).
  Hypothesis mulG_negate : forall a, mulG ((tap_n - a) mod tap_n)%Z = pneg (mulG a).

  Notation output_key := (output_key point padd mulG lift_x xonly TS).
  Notation tweak_priv_ec := (tweak_priv_ec point mulG xonly odd_y TS).

  (* both parities of d*G *)
  Theorem tweaked_priv_matches_output_key d root :
    output_key (mulG d) root = Some (mulG (fst (tweak_priv_ec d root))).
  Proof.
    unfold Taproot.output_key, output_key_x, Taproot.tweak_priv_ec, tweak_priv_with.
    rewrite lift_xonly. destruct (odd_y (mulG d)); cbn [fst]; rewrite mulG_add.
    - rewrite mulG_negate, xonly_neg. reflexivity.
    - reflexivity.
  Qed.

  (* the caller's key is not touched *)
  Lemma tweak_ec_preserves_caller_key d root : snd (tweak_priv_ec d root) = d.
  Proof. reflexivity. Qed.
End Tweak.

(* tweaking leaves the caller's key unchanged: every tweak function, parity, key, root *)
Theorem tweak_preserves_caller_key TS pk_odd pkx d root :
  snd (tweak_priv_with TS pk_odd pkx d root) = d.
Proof. reflexivity. Qed.

Corollary tweak_priv_preserves_caller_key pk_odd pkx d root :
  snd (tweak_priv pk_odd pkx d root) = d.
Proof. reflexivity. Qed.

(* ------------------------------------------------------------------ *)
(* 6. the hypotheses are satisfiable                                    *)
(* ------------------------------------------------------------------ *)
Fixpoint memb (x : bytes) (l : list bytes) : bool :=
  match l with [] => false | y :: r => bytes_eqb y x || memb x r end.
Fixpoint nodupb (l : list bytes) : bool :=
  match l with [] => true | x :: r => negb (memb x r) && nodupb r end.
Lemma memb_in x l : In x l -> memb x l = true.
Proof.
  induction l as [|y r IH]; cbn; [tauto|]. intros [->|H].
  - rewrite bytes_eqb_refl. reflexivity.
  - rewrite IH by exact H. apply orb_true_r.
Qed.
Lemma nodupb_sound l : nodupb l = true -> NoDup l.
Proof.
  induction l as [|x r IH]; cbn; intro H; constructor; apply andb_prop in H; destruct H as [H1 H2]; auto.
  intro Hin. apply memb_in in Hin. rewrite Hin in H1. discriminate.
Qed.

(* (a) tree theorems: the Elements tagged hashes with three concrete leaves *)
Definition ex_leaves : list tapleaf :=
  [mk_tapleaf base_leaf_version [x51]; mk_tapleaf base_leaf_version [x52]; mk_tapleaf base_leaf_version [x51; x51]].
Example ex_assemble_hyps : NoDup (map leaf_hash ex_leaves) /\ ex_leaves <> [].
Proof. split; [apply nodupb_sound; vm_compute; reflexivity|discriminate]. Qed.
Example ex_assemble : exists root st, assembled leaf_hash branch_hash_raw ex_leaves root st.
Proof. destruct ex_assemble_hyps. apply every_leaf_proves_root_sha; assumption. Qed.

(* (b) negative theorems: a free term algebra for the hashes, the integers as group *)
Definition toy_LH (l : tapleaf) : bytes := tlf_version l :: tlf_script l.
Fixpoint toy_esc (a : bytes) : bytes := match a with [] => [] | x :: r => x01 :: x :: toy_esc r end.
Definition toy_BHR (a b : bytes) : bytes := toy_esc a ++ x00 :: b.
Fixpoint toy_enc (r : bytes) : Z := match r with [] => 0%Z | b :: r' => (1 + Z.of_N (n8 b) + 256 * toy_enc r')%Z end.
Definition toy_xonly (p : Z) : bytes := repeat x01 (Z.abs_nat p).
Definition toy_odd (p : Z) : bool := (p <? 0)%Z.

Lemma toy_BHR_inj a : forall b c d, toy_BHR a b = toy_BHR c d -> a = c /\ b = d.
Proof.
  unfold toy_BHR. induction a as [|x a IH]; intros b [|y c] d H; cbn in H; try discriminate.
  - injection H as H. auto.
  - injection H as Hx H. destruct (IH b c d H) as [-> ->]. subst. auto.
Qed.
Lemma toy_enc_nonneg r : (0 <= toy_enc r)%Z.
Proof. induction r as [|b r IH]; cbn [toy_enc]; lia. Qed.
Lemma toy_enc_inj r : forall r', toy_enc r = toy_enc r' -> r = r'.
Proof.
  induction r as [|b r IH]; intros [|b' r'] H; cbn [toy_enc] in H; auto.
  - pose proof (toy_enc_nonneg r'). lia.
  - pose proof (toy_enc_nonneg r). lia.
  - pose proof (n8_lt b). pose proof (n8_lt b').
    assert (n8 b = n8 b' /\ toy_enc r = toy_enc r') as [Hb Hr] by lia.
    apply n8_inj in Hb. apply IH in Hr. congruence.
Qed.

Example ex_negative_hyps :
  let point := Z in let padd := Z.add in let mulG := (fun z : Z => z) in
  let TS := (fun (_ r : bytes) => toy_enc r) in
  (forall a b, toy_LH a = toy_LH b -> a = b) /\
  (forall a b c d, toy_BHR a b = toy_BHR c d -> a = c /\ b = d) /\
  (forall (k r r' : bytes), mulG (TS k r) = mulG (TS k r') -> r = r') /\
  (forall p a b : point, padd p a = padd p b -> a = b) /\
  (forall a b : point, toy_xonly a = toy_xonly b -> toy_odd a = toy_odd b -> a = b) /\
  (* and a verifying control block exists in this instance *)
  (let c := mk_cblock [] false x00 [] in
   verify_commitment point padd mulG (fun _ => Some 5%Z) toy_xonly toy_odd TS toy_LH toy_BHR c
     (toy_xonly (5 + toy_enc (toy_LH (mk_tapleaf x00 [x51])))) [x51] = Some true).
Proof.
  cbv zeta. split; [|split; [|split; [|split; [|split]]]].
  - intros [v s] [v' s'] H. unfold toy_LH in H. cbn in H. congruence.
  - intros a b c d H. eapply toy_BHR_inj; eauto.
  - intros _ r r'. apply toy_enc_inj.
  - intros p a b. lia.
  - intros a b Hx Ho. unfold toy_xonly in Hx. apply (f_equal (@length byte)) in Hx.
    rewrite !repeat_length in Hx. unfold toy_odd in Ho. lia.
  - vm_compute. reflexivity.
Qed.

(* (c) tweak theorem: Z/n with "odd" = upper half, x-only = the smaller of p and -p *)
Definition zn_mulG (d : Z) : Z := (d mod tap_n)%Z.
Definition zn_add (a b : Z) : Z := ((a + b) mod tap_n)%Z.
Definition zn_neg (a : Z) : Z := ((tap_n - a) mod tap_n)%Z.
Definition zn_odd (p : Z) : bool := (zn_neg p <? p)%Z.
Definition zn_xonly (p : Z) : bytes := scalar_to_bytes (Z.min p (zn_neg p)).
Definition zn_lift (b : bytes) : option Z := Some (Z.of_N (be_dec b)).

Lemma secp_n_bound : (0 < tap_n < 2 ^ 256)%Z.
Proof. unfold tap_n. lia. Qed.

Example ex_tweak_hyps :
  (forall d, zn_lift (zn_xonly (zn_mulG d)) = Some (if zn_odd (zn_mulG d) then zn_neg (zn_mulG d) else zn_mulG d)) /\
  (forall d, zn_xonly (zn_neg (zn_mulG d)) = zn_xonly (zn_mulG d)) /\
  (forall a b, zn_mulG ((a + b) mod tap_n)%Z = zn_add (zn_mulG a) (zn_mulG b)) /\
  (forall a, zn_mulG ((tap_n - a) mod tap_n)%Z = zn_neg (zn_mulG a)) /\
  (* both parities occur *)
  zn_odd (zn_mulG 1) = false /\ zn_odd (zn_mulG (-1)) = true.
Proof.
  pose proof secp_n_bound as Hn.
  assert (Hneg : forall p, (0 <= p < tap_n)%Z -> (0 <= zn_neg p < tap_n)%Z /\ zn_neg (zn_neg p) = p /\
                 (zn_neg p = 0 /\ p = 0 \/ zn_neg p = tap_n - p /\ 0 < p)%Z).
  { intros p Hp. unfold zn_neg. destruct (Z.eq_dec p 0) as [->|Hp0].
    - rewrite Z.sub_0_r, Z_mod_same_full, Z.sub_0_r, Z_mod_same_full. lia.
    - rewrite (Z.mod_small (tap_n - p)) by lia. replace (tap_n - (tap_n - p))%Z with p by lia.
      rewrite Z.mod_small by lia. lia. }
  repeat split.
  - intro d. unfold zn_mulG. pose proof (Z.mod_pos_bound d tap_n ltac:(lia)) as Hp.
    set (p := (d mod tap_n)%Z) in *. destruct (Hneg p Hp) as (Hb & _ & _).
    unfold zn_lift, zn_xonly, scalar_to_bytes, zn_odd. f_equal.
    rewrite be_dec_enc. 2:{ change (256 ^ N.of_nat 32)%N with (Z.to_N (2 ^ 256)). lia. }
    destruct (Z.ltb_spec (zn_neg p) p); lia.
  - intro d. unfold zn_mulG. pose proof (Z.mod_pos_bound d tap_n ltac:(lia)) as Hp.
    set (p := (d mod tap_n)%Z) in *. destruct (Hneg p Hp) as (_ & Hinv & _).
    unfold zn_xonly. rewrite Hinv, Z.min_comm. reflexivity.
  - intros a b. unfold zn_mulG, zn_add. rewrite Z.mod_mod by lia. apply Zplus_mod.
  - intro a. unfold zn_mulG, zn_neg. rewrite Z.mod_mod by lia.
    rewrite (Zminus_mod tap_n a), (Zminus_mod tap_n (a mod tap_n)), Z.mod_mod by lia. reflexivity.
Qed.

(* (d) a sample evaluated inside Coq: the root the implementation reports for ex_leaves
   (taproot.AssembleTaprootScriptTree, 2026-09-25) *)
Example ex_root_vector :
  match assemble_c ex_leaves with
  | Done (Some root, st) => to_hex (tnode_hash root) = to_hex (map b8
      [0x01;0x61;0xc5;0x2c;0x48;0x05;0x06;0x0c;0x6b;0xb1;0x7f;0x35;0x31;0x48;0x21;0x58;
       0x58;0xf0;0x8b;0x88;0x16;0xd6;0x76;0x9b;0x6c;0x2a;0xed;0x91;0x9e;0x16;0xf1;0xee]%N)
      /\ length st = 3
  | _ => False
  end.
Proof. vm_compute. split; reflexivity. Qed.
