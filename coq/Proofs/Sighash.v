(* Proofs/Sighash.v — what each signature hash covers (C02): the pre-image is a
   function of an explicit "covered view" of the transaction (frame), for all
   transactions, indexes and hash types, with no hypothesis on the hash function. *)
From GE Require Import Lib.Bytes Lib.Varint Lib.Sha256 Model.Tx Model.Sighash Proofs.TxCodec.
From Coq Require Import ZifyBool ZifyN ZifyNat.
Open Scope N_scope.

Definition in_outpoint (i : txin) : bytes * N := (in_hash i, in_index i).
Definition out_base (o : txout) : bytes * bytes * bytes * bytes := (o_asset o, o_value o, o_nonce o, o_script o).
Definition out_proofs (o : txout) : bytes * bytes := (o_rp o, o_sp o).
Definition in_proofs (i : txin) : bytes * bytes := (in_irp i, in_inrp i).

Lemma enc_list_view {A B} (e : A -> bytes) (v : A -> B) (g : B -> bytes) :
  (forall a, e a = g (v a)) -> forall l l', map v l = map v l' -> enc_list e l = enc_list e l'.
Proof.
  intros Hg l l' E. rewrite (enc_list_ext e (fun a => g (v a)) l) by (intros; apply Hg).
  rewrite (enc_list_ext e (fun a => g (v a)) l') by (intros; apply Hg).
  rewrite <- (enc_list_map g v l), <- (enc_list_map g v l'). rewrite E. reflexivity.
Qed.

Lemma ser_prevouts_view l l' : map in_outpoint l = map in_outpoint l' -> ser_prevouts l = ser_prevouts l'.
Proof. apply (enc_list_view ser_prevout in_outpoint (fun p => fst p ++ le_enc 4 (snd p))). reflexivity. Qed.
Lemma ser_sequences_view l l' : map in_seq l = map in_seq l' -> ser_sequences l = ser_sequences l'.
Proof. apply (enc_list_view _ in_seq (fun s => le_enc 4 s)). reflexivity. Qed.
Lemma ser_issuances_view l l' : map in_iss l = map in_iss l' -> ser_issuances l = ser_issuances l'.
Proof. apply (enc_list_view ser_iss_or_zero in_iss (fun s => match s with Some x => ser_iss x | None => [x00] end)). reflexivity. Qed.
Lemma ser_outputs_view l l' : map out_base l = map out_base l' -> ser_outputs l = ser_outputs l'.
Proof.
  apply (enc_list_view (ser_out false false) out_base
          (fun p => let '(a, v, n, s) := p in a ++ [] ++ v ++ n ++ [] ++ var_slice s ++ [])).
  intro o. unfold ser_out, out_base. cbn [app]. reflexivity.
Qed.
Lemma ser_rangeproofs_view l l' : map out_proofs l = map out_proofs l' -> ser_rangeproofs l = ser_rangeproofs l'.
Proof. apply (enc_list_view ser_out_proofs_rs out_proofs (fun p => var_slice (fst p) ++ var_slice (snd p))). reflexivity. Qed.
Lemma ser_out_witnesses_view l l' : map out_proofs l = map out_proofs l' -> ser_out_witnesses l = ser_out_witnesses l'.
Proof. apply (enc_list_view _ out_proofs (fun p => var_slice (snd p) ++ var_slice (fst p))). reflexivity. Qed.
Lemma ser_flags_view l l' : map input_flag l = map input_flag l' -> ser_flags l = ser_flags l'.
Proof. apply (enc_list_view _ input_flag (fun f => [b8 f])). reflexivity. Qed.
Lemma ser_issuance_proofs_view l l' : map in_proofs l = map in_proofs l' -> ser_issuance_proofs l = ser_issuance_proofs l'.
Proof. apply (enc_list_view _ in_proofs (fun p => var_slice (fst p) ++ var_slice (snd p))). reflexivity. Qed.

Lemma option_map_eq {A B} (f : A -> B) (g : A -> bytes) (a b : option A) (d : bytes) :
  (forall x y, f x = f y -> g x = g y) -> option_map f a = option_map f b ->
  match a with Some l => g l | None => d end = match b with Some l => g l | None => d end.
Proof. intros Hg E. destruct a, b; cbn in E; try discriminate; [injection E as E; apply Hg; exact E | reflexivity]. Qed.

(* ====================== segwit v0 ====================== *)
Definition view_v0 (t : tx) (idx : nat) (ht : N) :=
  match nth_error (t_ins t) idx with
  | None => None
  | Some own =>
      Some (t_version t, t_locktime t,
            (in_hash own, in_index own, in_seq own, in_iss own),
            (if ht_acp ht then [] else map in_outpoint (t_ins t)),
            (if ht_acp ht || (ht_single ht || ht_none ht) then [] else map in_seq (t_ins t)),
            (if ht_acp ht then [] else map in_iss (t_ins t)),
            option_map (map out_base) (covered_outs t idx ht),
            (if ht_rp ht then option_map (map out_proofs) (covered_outs t idx ht) else None))
  end.

Theorem v0_frame (H2 : bytes -> bytes) t t' idx script value ht :
  view_v0 t idx ht = view_v0 t' idx ht ->
  preimage_v0 H2 t idx script value ht = preimage_v0 H2 t' idx script value ht.
Proof.
  unfold view_v0, preimage_v0.
  destruct (nth_error (t_ins t) idx) as [own|], (nth_error (t_ins t') idx) as [own'|]; try discriminate; [|reflexivity].
  intro E. injection E as Ev El Eh Ei Es Eiss Ep Eq Er Eo Erp.
  f_equal. rewrite Ev, El.
  assert (Own : own_input_v0 own script value = own_input_v0 own' script value).
  { unfold own_input_v0. rewrite Eh, Ei, Es, Eiss. reflexivity. }
  rewrite Own.
  assert (A1 : (if ht_acp ht then zero32 else H2 (ser_prevouts (t_ins t))) =
               (if ht_acp ht then zero32 else H2 (ser_prevouts (t_ins t')))).
  { destruct (ht_acp ht); [reflexivity|]. f_equal. apply ser_prevouts_view; exact Ep. }
  assert (A2 : (if ht_acp ht || (ht_single ht || ht_none ht) then zero32 else H2 (ser_sequences (t_ins t))) =
               (if ht_acp ht || (ht_single ht || ht_none ht) then zero32 else H2 (ser_sequences (t_ins t')))).
  { destruct (ht_acp ht || (ht_single ht || ht_none ht)); [reflexivity|]. f_equal. apply ser_sequences_view; exact Eq. }
  assert (A3 : (if ht_acp ht then zero32 else H2 (ser_issuances (t_ins t))) =
               (if ht_acp ht then zero32 else H2 (ser_issuances (t_ins t')))).
  { destruct (ht_acp ht); [reflexivity|]. f_equal. apply ser_issuances_view; exact Er. }
  rewrite A1, A2, A3.
  rewrite (option_map_eq (map out_base) (fun l => H2 (ser_outputs l)) _ _ zero32
             (fun x y E => f_equal H2 (ser_outputs_view x y E)) Eo).
  destruct (ht_rp ht).
  - rewrite (option_map_eq (map out_proofs) (fun l => H2 (ser_rangeproofs l)) _ _ zero32
               (fun x y E => f_equal H2 (ser_rangeproofs_view x y E)) Erp). reflexivity.
  - reflexivity.
Qed.

(* rows of the coverage matrix, read off the view *)
Definition same_own (t t' : tx) (idx : nat) : Prop :=
  exists own own', nth_error (t_ins t) idx = Some own /\ nth_error (t_ins t') idx = Some own' /\
    in_hash own = in_hash own' /\ in_index own = in_index own' /\ in_seq own = in_seq own' /\ in_iss own = in_iss own'.

(* other inputs under ANYONECANPAY: only the signing input (and the outputs) matter *)
Corollary v0_anyonecanpay_ignores_other_inputs H2 t t' idx script value ht :
  ht_acp ht = true -> same_own t t' idx ->
  t_version t = t_version t' -> t_locktime t = t_locktime t' -> t_outs t = t_outs t' ->
  preimage_v0 H2 t idx script value ht = preimage_v0 H2 t' idx script value ht.
Proof.
  intros A (own & own' & N1 & N2 & E1 & E2 & E3 & E4) Ev El Eo. apply v0_frame.
  unfold view_v0, covered_outs. rewrite N1, N2, A, Ev, El, Eo, E1, E2, E3, E4. cbn [orb]. reflexivity.
Qed.

(* all outputs under NONE *)
Corollary v0_none_ignores_outputs H2 t t' idx script value ht :
  ht_none ht = true -> ht_single ht = false ->
  t_version t = t_version t' -> t_locktime t = t_locktime t' -> t_ins t = t_ins t' ->
  preimage_v0 H2 t idx script value ht = preimage_v0 H2 t' idx script value ht.
Proof.
  intros A B Ev El Ei. apply v0_frame. unfold view_v0, covered_outs. rewrite A, B, Ev, El, Ei.
  cbn [orb negb]. destruct (ht_rp ht); reflexivity.
Qed.

(* other outputs under SINGLE *)
Corollary v0_single_ignores_other_outputs H2 t t' idx script value ht :
  ht_single ht = true ->
  t_version t = t_version t' -> t_locktime t = t_locktime t' -> t_ins t = t_ins t' ->
  nth_error (t_outs t) idx = nth_error (t_outs t') idx ->
  preimage_v0 H2 t idx script value ht = preimage_v0 H2 t' idx script value ht.
Proof.
  intros A Ev El Ei Eo. apply v0_frame. unfold view_v0, covered_outs. rewrite A, Ev, El, Ei, Eo. reflexivity.
Qed.

(* other inputs' sequences under NONE / SINGLE *)
Corollary v0_none_single_ignore_other_sequences H2 t t' idx script value ht :
  ht_single ht || ht_none ht = true -> same_own t t' idx ->
  t_version t = t_version t' -> t_locktime t = t_locktime t' -> t_outs t = t_outs t' ->
  map in_outpoint (t_ins t) = map in_outpoint (t_ins t') -> map in_iss (t_ins t) = map in_iss (t_ins t') ->
  preimage_v0 H2 t idx script value ht = preimage_v0 H2 t' idx script value ht.
Proof.
  intros A (own & own' & N1 & N2 & E1 & E2 & E3 & E4) Ev El Eo Ep Eiss. apply v0_frame.
  unfold view_v0, covered_outs. rewrite N1, N2, A, Ev, El, Eo, E1, E2, E3, E4, Ep, Eiss.
  rewrite orb_true_r. reflexivity.
Qed.

(* output proofs unless the RANGEPROOF bit is set *)
Corollary v0_ignores_output_proofs_without_flag H2 t t' idx script value ht :
  ht_rp ht = false ->
  t_version t = t_version t' -> t_locktime t = t_locktime t' -> t_ins t = t_ins t' ->
  map out_base (t_outs t) = map out_base (t_outs t') ->
  preimage_v0 H2 t idx script value ht = preimage_v0 H2 t' idx script value ht.
Proof.
  intros A Ev El Ei Eo. apply v0_frame. unfold view_v0. rewrite A, Ev, El, Ei.
  assert (C : option_map (map out_base) (covered_outs t idx ht) = option_map (map out_base) (covered_outs t' idx ht)).
  { unfold covered_outs. destruct (negb (ht_single ht || ht_none ht)); [cbn; rewrite Eo; reflexivity|].
    destruct (ht_single ht); [|reflexivity].
    assert (N : option_map out_base (nth_error (t_outs t) idx) = option_map out_base (nth_error (t_outs t') idx)).
    { rewrite <- !nth_error_map. rewrite Eo. reflexivity. }
    destruct (nth_error (t_outs t) idx), (nth_error (t_outs t') idx); cbn in N |- *; try discriminate; [|reflexivity].
    congruence. }
  rewrite C. reflexivity.
Qed.

(* ====================== taproot ====================== *)
Definition covered_outs_v1 (t : tx) (idx : nat) (ht : N) : option (list txout) :=
  let ot := v1_out_type ht in
  if negb (ot =? 2) && negb (ot =? 3) then Some (t_outs t)
  else if ot =? 3 then match nth_error (t_outs t) idx with Some o => Some [o] | None => None end
  else None.

Definition view_v1 (t : tx) (idx : nat) (a : v1_args) (ht : N) :=
  match nth_error (t_ins t) idx with
  | None => None
  | Some own =>
      Some (t_version t, t_locktime t, v1_genesis a, v1_leaf a, v1_annex a,
            (if v1_acp ht
             then Some (input_flag own, in_hash own, in_index own, in_seq own, in_iss own,
                        match in_iss own with Some _ => Some (in_proofs own) | None => None end,
                        nth_error (v1_assets a) idx, nth_error (v1_values a) idx, nth_error (v1_scripts a) idx)
             else None),
            (if v1_acp ht then None
             else Some (map input_flag (t_ins t), map in_outpoint (t_ins t), v1_assets a, v1_values a, v1_scripts a,
                        map in_seq (t_ins t), map in_iss (t_ins t), map in_proofs (t_ins t))),
            option_map (map out_base) (covered_outs_v1 t idx ht),
            option_map (map out_proofs) (covered_outs_v1 t idx ht))
  end.

Lemma v1_outs_view (H1 : bytes -> bytes) t t' idx ht :
  option_map (map out_base) (covered_outs_v1 t idx ht) = option_map (map out_base) (covered_outs_v1 t' idx ht) ->
  option_map (map out_proofs) (covered_outs_v1 t idx ht) = option_map (map out_proofs) (covered_outs_v1 t' idx ht) ->
  v1_outs_all H1 t ht = v1_outs_all H1 t' ht /\ v1_outs_single H1 t idx ht = v1_outs_single H1 t' idx ht.
Proof.
  unfold covered_outs_v1, v1_outs_all, v1_outs_single.
  destruct (v1_out_type ht =? 2), (v1_out_type ht =? 3); cbn [negb andb option_map].
  - destruct (nth_error (t_outs t) idx) as [o|], (nth_error (t_outs t') idx) as [o'|]; cbn [option_map]; intros A B; try discriminate; split; try reflexivity.
    assert (A' : map out_base [o] = map out_base [o']) by congruence.
    assert (B' : map out_proofs [o] = map out_proofs [o']) by congruence.
    rewrite (ser_outputs_view [o] [o'] A'), (ser_out_witnesses_view [o] [o'] B'). reflexivity.
  - intros _ _. split; reflexivity.
  - destruct (nth_error (t_outs t) idx) as [o|], (nth_error (t_outs t') idx) as [o'|]; cbn [option_map]; intros A B; try discriminate; split; try reflexivity.
    assert (A' : map out_base [o] = map out_base [o']) by congruence.
    assert (B' : map out_proofs [o] = map out_proofs [o']) by congruence.
    rewrite (ser_outputs_view [o] [o'] A'), (ser_out_witnesses_view [o] [o'] B'). reflexivity.
  - intros A B. injection A as A. injection B as B. split; [|reflexivity].
    rewrite (ser_outputs_view _ _ A), (ser_out_witnesses_view _ _ B). reflexivity.
Qed.

Theorem v1_frame (H1 : bytes -> bytes) t t' idx a a' ht :
  view_v1 t idx a ht = view_v1 t' idx a' ht ->
  preimage_v1 H1 t idx a ht = preimage_v1 H1 t' idx a' ht.
Proof.
  unfold view_v1, preimage_v1.
  destruct (nth_error (t_ins t) idx) as [own|], (nth_error (t_ins t') idx) as [own'|]; try discriminate; [|reflexivity].
  intro E. injection E as Ev El Eg Elf Ean Eown Eins Eob Eop.
  destruct (v1_outs_view H1 t t' idx ht Eob Eop) as [OA OS]. rewrite OA, OS.
  assert (SP : v1_spend_type a = v1_spend_type a') by (unfold v1_spend_type; rewrite Elf, Ean; reflexivity).
  rewrite SP.
  assert (INS : v1_ins_part H1 t a ht = v1_ins_part H1 t' a' ht).
  { revert Eins. unfold v1_ins_part. destruct (v1_acp ht); [reflexivity|]. intro Eins.
    injection Eins as F P A V S Q I R. rewrite A, V, S.
    rewrite (ser_flags_view _ _ F), (ser_prevouts_view _ _ P), (ser_sequences_view _ _ Q),
            (ser_issuances_view _ _ I), (ser_issuance_proofs_view _ _ R). reflexivity. }
  assert (OWN : v1_own_part H1 own idx a ht = v1_own_part H1 own' idx a' ht).
  { revert Eown. unfold v1_own_part. destruct (v1_acp ht); [|reflexivity]. intro Eown.
    injection Eown as F Hh Hi Hs Hiss Hp A V S. rewrite A, V, S, F, Hh, Hi, Hs.
    destruct (nth_error (v1_assets a') idx), (nth_error (v1_values a') idx), (nth_error (v1_scripts a') idx); try reflexivity.
    rewrite Hiss in Hp |- *. destruct (in_iss own'); [|reflexivity].
    unfold in_proofs in Hp. injection Hp as P1 P2. unfold ser_issuance_proofs, enc_list. cbn [map concat].
    rewrite P1, P2. reflexivity. }
  rewrite INS, OWN, Ev, El, Eg, Elf, Ean. reflexivity.
Qed.

Corollary v1_anyonecanpay_ignores_other_inputs H1 t t' idx a ht :
  v1_acp ht = true ->
  (exists own own', nth_error (t_ins t) idx = Some own /\ nth_error (t_ins t') idx = Some own' /\
     input_flag own = input_flag own' /\ in_hash own = in_hash own' /\ in_index own = in_index own' /\
     in_seq own = in_seq own' /\ in_iss own = in_iss own' /\ in_proofs own = in_proofs own') ->
  t_version t = t_version t' -> t_locktime t = t_locktime t' -> t_outs t = t_outs t' ->
  preimage_v1 H1 t idx a ht = preimage_v1 H1 t' idx a ht.
Proof.
  intros A (own & own' & N1 & N2 & F & E1 & E2 & E3 & E4 & E5) Ev El Eo. apply v1_frame.
  unfold view_v1, covered_outs_v1. rewrite N1, N2, A, Ev, El, Eo, F, E1, E2, E3, E4, E5. reflexivity.
Qed.

Corollary v1_none_ignores_outputs H1 t t' idx a ht :
  v1_out_type ht = 2 ->
  t_version t = t_version t' -> t_locktime t = t_locktime t' -> t_ins t = t_ins t' ->
  preimage_v1 H1 t idx a ht = preimage_v1 H1 t' idx a ht.
Proof.
  intros A Ev El Ei. apply v1_frame. unfold view_v1, covered_outs_v1. rewrite A, Ev, El, Ei. reflexivity.
Qed.

Corollary v1_single_ignores_other_outputs H1 t t' idx a ht :
  v1_out_type ht = 3 ->
  t_version t = t_version t' -> t_locktime t = t_locktime t' -> t_ins t = t_ins t' ->
  nth_error (t_outs t) idx = nth_error (t_outs t') idx ->
  preimage_v1 H1 t idx a ht = preimage_v1 H1 t' idx a ht.
Proof.
  intros A Ev El Ei Eo. apply v1_frame. unfold view_v1, covered_outs_v1. rewrite A, Ev, El, Ei, Eo. reflexivity.
Qed.

(* ====================== legacy ====================== *)
Definition sig_in_view (i : txin) := (in_hash i, raw_index i, in_script i, in_seq i, in_iss i).
Definition sig_view (rp : bool) (c : tx) :=
  (t_version c, t_locktime c, map sig_in_view (t_ins c),
   map out_base (t_outs c), if rp then map out_proofs (t_outs c) else []).

Lemma ser_sig_view rp c c' : sig_view rp c = sig_view rp c' ->
  ser_tx false true true rp c = ser_tx false true true rp c'.
Proof.
  unfold sig_view. intro E. injection E as Ev El Ei Eo Ep.
  unfold ser_tx. cbn [andb negb]. rewrite Ev, El.
  assert (LI : lenL (t_ins c) = lenL (t_ins c')) by (unfold lenL; rewrite <- (map_length sig_in_view (t_ins c)), Ei, map_length; reflexivity).
  assert (LO : lenL (t_outs c) = lenL (t_outs c')) by (unfold lenL; rewrite <- (map_length out_base (t_outs c)), Eo, map_length; reflexivity).
  rewrite LI, LO.
  assert (EI : enc_list ser_in (t_ins c) = enc_list ser_in (t_ins c')).
  { apply (enc_list_view ser_in sig_in_view
       (fun p => let '(h, r, s, q, iss) := p in h ++ le_enc 4 r ++ var_slice s ++ le_enc 4 q ++ match iss with Some x => ser_iss x | None => [] end));
      [intro i; reflexivity | exact Ei]. }
  rewrite EI. destruct rp.
  - assert (EO : enc_list (ser_out false true) (t_outs c) = enc_list (ser_out false true) (t_outs c')).
    { apply (enc_list_view (ser_out false true) (fun o => (out_base o, out_proofs o))
         (fun p => let '((a, v, n, s), (r, sp)) := p in a ++ [] ++ v ++ n ++ [] ++ var_slice s ++ var_slice r ++ var_slice sp)).
      - intro o. unfold ser_out, out_base, out_proofs. cbn [app]. reflexivity.
      - clear -Eo Ep. revert Eo Ep. generalize (t_outs c) (t_outs c').
        induction l as [|x l IH]; intros [|y l'] A B; try discriminate; [reflexivity|].
        cbn [map] in *. assert (A1 : out_base x = out_base y) by congruence. assert (B1 : out_proofs x = out_proofs y) by congruence.
        assert (A2 : map out_base l = map out_base l') by congruence. assert (B2 : map out_proofs l = map out_proofs l') by congruence.
        rewrite A1, B1, (IH l' A2 B2). reflexivity. }
    rewrite EO. reflexivity.
  - rewrite (enc_list_view (ser_out false false) out_base
         (fun p => let '(a, v, n, s) := p in a ++ [] ++ v ++ n ++ [] ++ var_slice s ++ []) ) with (l' := t_outs c');
      [reflexivity | intro o; unfold ser_out, out_base; cbn [app]; reflexivity | exact Eo].
Qed.

Definition view_legacy (t : tx) (idx : nat) (script : bytes) (ht : N) :=
  option_map (sig_view (ht_rp ht)) (legacy_tx t idx script ht).

Theorem legacy_frame t t' idx script ht :
  view_legacy t idx script ht = view_legacy t' idx script ht ->
  preimage_legacy t idx script ht = preimage_legacy t' idx script ht.
Proof.
  unfold view_legacy, preimage_legacy.
  destruct (legacy_tx t idx script ht) as [c|], (legacy_tx t' idx script ht) as [c'|]; cbn [option_map]; try discriminate; [|reflexivity].
  intro E. f_equal. f_equal. apply ser_sig_view. congruence.
Qed.

Lemma nth_error_map_idx {A} (f : nat -> A -> A) k l n :
  nth_error (map_idx f k l) n = option_map (f (k + n)%nat) (nth_error l n).
Proof.
  revert k n; induction l as [|a l IH]; intros k [|n]; cbn [map_idx nth_error option_map]; try reflexivity.
  - rewrite Nat.add_0_r. reflexivity.
  - rewrite IH. replace (S k + n)%nat with (k + S n)%nat by lia. reflexivity.
Qed.

Lemma nth_zero_other_seqs idx ins : nth_error (zero_other_seqs idx ins) idx = nth_error ins idx.
Proof.
  unfold zero_other_seqs. rewrite nth_error_map_idx. cbn [Nat.add]. rewrite Nat.eqb_refl.
  destruct (nth_error ins idx); reflexivity.
Qed.

(* other inputs under ANYONECANPAY (legacy): only the signing input, the outputs, version and locktime matter *)
Corollary legacy_anyonecanpay_ignores_other_inputs t t' idx script ht :
  ht_acp ht = true ->
  nth_error (t_ins t) idx = nth_error (t_ins t') idx -> nth_error (t_ins t) idx <> None ->
  t_version t = t_version t' -> t_locktime t = t_locktime t' -> t_outs t = t_outs t' ->
  preimage_legacy t idx script ht = preimage_legacy t' idx script ht.
Proof.
  intros A N NN Ev El Eo. apply legacy_frame. unfold view_legacy, legacy_tx.
  rewrite <- N. destruct (nth_error (t_ins t) idx) as [own|] eqn:EN; [|congruence].
  rewrite A, Eo, Ev, El.
  destruct (ht_none ht).
  - rewrite !nth_zero_other_seqs, <- N, EN. reflexivity.
  - destruct (ht_single ht).
    + destruct (length (t_outs t') <=? idx)%nat; [reflexivity|].
      rewrite !nth_zero_other_seqs, <- N, EN. reflexivity.
    + rewrite <- N, EN. reflexivity.
Qed.

(* all outputs under NONE (legacy) *)
Corollary legacy_none_ignores_outputs t t' idx script ht :
  ht_none ht = true ->
  t_version t = t_version t' -> t_locktime t = t_locktime t' -> t_flag t = t_flag t' -> t_ins t = t_ins t' ->
  preimage_legacy t idx script ht = preimage_legacy t' idx script ht.
Proof.
  intros A Ev El Ef Ei. apply legacy_frame. unfold view_legacy, legacy_tx. rewrite A, Ev, El, Ef, Ei. reflexivity.
Qed.

(* output proofs without the RANGEPROOF bit (legacy) *)
Lemma map_blank_base l l' : length l = length l' ->
  map out_base (map blank_out l) = map out_base (map blank_out l').
Proof.
  revert l'; induction l as [|x l IH]; intros [|y l'] L; try discriminate; [reflexivity|].
  cbn [map]. injection L as L. rewrite (IH l' L). reflexivity.
Qed.

Lemma legacy_tx_outs_base t t' idx script ht c c' :
  t_version t = t_version t' -> t_locktime t = t_locktime t' -> t_ins t = t_ins t' ->
  map out_base (t_outs t) = map out_base (t_outs t') ->
  legacy_tx t idx script ht = Some c -> legacy_tx t' idx script ht = Some c' ->
  sig_view false c = sig_view false c'.
Proof.
  intros Ev El Ei Eo. unfold legacy_tx. rewrite <- Ei.
  assert (LL : length (t_outs t) = length (t_outs t')) by (rewrite <- (map_length out_base), Eo, map_length; reflexivity).
  destruct (nth_error (t_ins t) idx); [|discriminate].
  destruct (ht_none ht).
  - intros X Y. injection X as <-. injection Y as <-. unfold sig_view. cbn. rewrite Ev, El. reflexivity.
  - destruct (ht_single ht).
    + rewrite <- LL. destruct (length (t_outs t) <=? idx)%nat; [discriminate|].
      intros X Y. injection X as <-. injection Y as <-. unfold sig_view. cbn [t_version t_locktime t_ins t_outs]. rewrite Ev, El.
      rewrite !map_app.
      rewrite (map_blank_base (firstn idx (t_outs t)) (firstn idx (t_outs t'))) by (rewrite !firstn_length, LL; reflexivity).
      assert (F1 : forall l : list txout, map out_base (match l with [] => [] | a :: _ => [a] end) =
                     match map out_base l with [] => [] | a :: _ => [a] end) by (intros [|? ?]; reflexivity).
      rewrite !F1, <- !skipn_map, Eo. reflexivity.
    + intros X Y. injection X as <-. injection Y as <-. unfold sig_view. cbn. rewrite Ev, El, Eo. reflexivity.
Qed.

Corollary legacy_ignores_output_proofs_without_flag t t' idx script ht :
  ht_rp ht = false ->
  t_version t = t_version t' -> t_locktime t = t_locktime t' -> t_ins t = t_ins t' ->
  map out_base (t_outs t) = map out_base (t_outs t') ->
  preimage_legacy t idx script ht = preimage_legacy t' idx script ht.
Proof.
  intros A Ev El Ei Eo. apply legacy_frame. unfold view_legacy. rewrite A.
  destruct (legacy_tx t idx script ht) as [c|] eqn:C, (legacy_tx t' idx script ht) as [c'|] eqn:C'; cbn [option_map].
  - f_equal. eapply legacy_tx_outs_base; eassumption.
  - exfalso. revert C C'. unfold legacy_tx. rewrite <- Ei.
    assert (LL : length (t_outs t) = length (t_outs t')) by (rewrite <- (map_length out_base), Eo, map_length; reflexivity).
    rewrite <- LL. destruct (nth_error (t_ins t) idx); [|discriminate].
    destruct (ht_none ht); [discriminate|]. destruct (ht_single ht); [|discriminate].
    destruct (length (t_outs t) <=? idx)%nat; discriminate.
  - exfalso. revert C C'. unfold legacy_tx. rewrite <- Ei.
    assert (LL : length (t_outs t) = length (t_outs t')) by (rewrite <- (map_length out_base), Eo, map_length; reflexivity).
    rewrite <- LL. destruct (nth_error (t_ins t) idx); [|discriminate].
    destruct (ht_none ht); [discriminate|]. destruct (ht_single ht); [|discriminate].
    destruct (length (t_outs t) <=? idx)%nat; discriminate.
  - reflexivity.
Qed.
