(* Proofs/PsetV2Inv.v — properties of everything the PSET v2 parser model returns:
   it never panics (after the repairs 78a1990), and what it accepts lies in the round-trip domain. *)
From GE Require Import Lib.Bytes Lib.Varint Model.Tx Model.PsetV2 Proofs.TxCodec Proofs.PsetV2 Proofs.PsetV2Ex.
From Coq Require Import ZifyBool ZifyN ZifyNat Permutation.
From GE Require Import Gen.PsetV2GlobalConsts.
Open Scope N_scope.

Section Inv.
Variable pk_ok der_ok xonly_ok : bytes -> bool.
Variable msgtx_canon : bytes -> option bytes.

Notation sec_step := (sec_step pk_ok der_ok xonly_ok msgtx_canon).
Notation parse_kps := (parse_kps pk_ok der_ok xonly_ok msgtx_canon).
Notation parse_section := (parse_section pk_ok der_ok xonly_ok msgtx_canon).
Notation parse_secs := (parse_secs pk_ok der_ok xonly_ok msgtx_canon).
Notation parse_pset := (parse_pset pk_ok der_ok xonly_ok msgtx_canon).
Notation apply_slot := (apply_slot pk_ok der_ok xonly_ok msgtx_canon).
Notation s_dec := (s_dec pk_ok msgtx_canon).
Notation m_step := (m_step pk_ok der_ok xonly_ok).

(* ================= the parser never panics ================= *)
Ltac crush_np :=
  repeat match goal with
         | |- context [if ?c then _ else _] => destruct c
         | |- context [match ?x with _ => _ end] => destruct x
         end; try discriminate; try congruence.

Lemma s_dec_np k v : s_dec k v <> RPanic.
Proof. destruct k; unfold PsetV2.s_dec; crush_np. Qed.

Lemma m_step_np m kd v l : m_step m kd v l <> RPanic.
Proof. destruct m; unfold PsetV2.m_step; crush_np. Qed.

Lemma cbind_np {A B} (x : cres A) (f : A -> cres B) :
  x <> RPanic -> (forall a, f a <> RPanic) -> cbind x f <> RPanic.
Proof. destruct x; cbn; auto; congruence. Qed.

Lemma apply_slot_np i sl kd v s : apply_slot i sl kd v s <> RPanic.
Proof.
  unfold PsetV2.apply_slot. destruct (sl_k sl).
  - destruct (nonemptyb (val_at i s)); [discriminate|]. apply cbind_np; [apply s_dec_np | discriminate].
  - apply cbind_np; [apply m_step_np | discriminate].
Qed.

Lemma sec_step_np tbl s k : sec_step tbl s k <> RPanic.
Proof.
  unfold PsetV2.sec_step.
  destruct (k_type k =? PsetProprietary).
  - destruct (parse_prop k) as [pd|]; [|discriminate].
    destruct (bytes_eqb (pd_id pd) pset_magic); [|discriminate].
    destruct (find_slot (KProp (pd_sub pd)) tbl) as [[i sl]|]; [apply apply_slot_np | discriminate].
  - destruct (find_slot (KStd (k_type k)) tbl) as [[i sl]|]; [apply apply_slot_np | discriminate].
Qed.

Lemma parse_kps_np tbl : forall fuel s bs, parse_kps tbl fuel s bs <> RPanic.
Proof.
  induction fuel as [|f IH]; intros s bs; [discriminate|]. cbn [PsetV2.parse_kps].
  destruct (read_kp bs); try discriminate. apply cbind_np; [apply sec_step_np | intro a; apply IH].
Qed.

Lemma parse_section_np tbl sanity bs : parse_section tbl sanity bs <> RPanic.
Proof.
  unfold PsetV2.parse_section. apply cbind_np; [apply parse_kps_np|]. intro a. destruct (sanity (fst a)); discriminate.
Qed.

Lemma parse_secs_np tbl sanity : forall fuel n bs, parse_secs tbl sanity fuel n bs <> RPanic.
Proof.
  induction fuel as [|f IH]; intros n bs; cbn [PsetV2.parse_secs]; destruct (n =? 0); try discriminate.
  apply cbind_np; [apply parse_section_np|]. intro a. apply cbind_np; [apply IH | discriminate].
Qed.

(* decoders are total and panic-free: every byte string is accepted or rejected *)
Theorem parse_pset_no_panic bs : parse_pset bs <> RPanic.
Proof.
  unfold PsetV2.parse_pset. destruct (take 5 bs) as [[m r]|]; [|discriminate].
  destruct (bytes_eqb m magic_sep); [|discriminate].
  apply cbind_np; [apply parse_section_np|]. intro g.
  apply cbind_np; [apply parse_secs_np|]. intro i.
  apply cbind_np; [apply parse_secs_np|]. intro o.
  destruct (pset_sanity _); discriminate.
Qed.


(* ================= what the parser accepts lies in the round-trip domain ================= *)
Notation s_wf := (s_wf pk_ok msgtx_canon).
Notation m_replay := (m_replay pk_ok der_ok xonly_ok).
Notation m_wf := (m_wf pk_ok der_ok xonly_ok).

Lemma parse_prop_inv k pd : parse_prop k = Some pd ->
  k_data k = prop_key_id (pd_id pd) (pd_sub pd) (pd_kd pd) /\ pd_id pd <> [] /\ pd_sub pd < 256 /\ pd_val pd = k_val k.
Proof.
  unfold parse_prop. destruct (p_varint (k_data k)) as [[n r]|] eqn:P; [|discriminate].
  destruct (N.eqb_spec n 0) as [Z|NZ]; [discriminate|].
  destruct (takeN n r) as [[id r2]|] eqn:T; [|discriminate].
  destruct r2 as [|sb kd]; [discriminate|]. intro H; inversion H; subst pd; clear H. cbn [pd_id pd_sub pd_kd pd_val].
  apply p_varint_inv in P as [E _]. apply takeN_inv in T as [-> Ln].
  split; [|split; [|split; [apply n8_lt | reflexivity]]].
  - rewrite E. unfold prop_key_id, var_slice, lenN. rewrite Ln, b8_n8, <- app_assoc. reflexivity.
  - intro Z. subst id. cbn in Ln. lia.
Qed.

(* what is asked of the externally decoded values an accepted packet holds: a witness UTXO must have
   the 44 canonical bytes readTxOut asks for, a peg-in transaction (btcd wire.MsgTx, an oracle here)
   must re-decode to itself; a non-witness UTXO needs nothing (C01) *)
Definition s_ext (k : skind) (b : bytes) : Prop :=
  match k with
  | KTxOut => (44 <= length b)%nat
  | KMsgTx => s_wf KMsgTx false b = true
  | _ => True
  end.

Lemma le_dec_repeat0 n : le_dec (repeat x00 n) = 0.
Proof. induction n as [|n IH]; [reflexivity|]. cbn [repeat le_dec]. rewrite IH. reflexivity. Qed.

Lemma varint_len_le v : lenN (varint v) <= 9.
Proof. rewrite varint_length. unfold varint_size. destruct (v <? 0xfd), (v <=? 0xffff), (v <=? 0xffffffff); lia. Qed.

Lemma wf_of_stable k al b : PsetV2.s_dec pk_ok msgtx_canon k (s_emit k b) = ROk b -> lenN (s_emit k b) < two64 -> s_wf k al b = true.
Proof.
  intros D L. unfold PsetV2.s_wf. destruct (s_emits k al b); [|reflexivity].
  rewrite D. cbn [cres_bytes_eqb]. rewrite bytes_eqb_refl. destruct (N.ltb_spec (lenN (s_emit k b)) two64); [reflexivity | lia].
Qed.

(* ----- when the stability premise holds: the two kinds decoded by this repository's own code ----- *)
(* a non-witness UTXO whose flag byte is 0 or 1 (C01) *)
Lemma tx_stable_canonical v t r : parse_tx v = Some (t, r) -> canonical_flag t = true -> lenN v < two64 ->
  s_wf KTx false (ser_full t) = true.
Proof.
  intros P C L. pose proof (tx_ser_parse v t r P C) as E. pose proof (parse_tx_wf v t r P C) as W.
  pose proof (tx_parse_ser t [] W) as Q. rewrite app_nil_r in Q.
  assert (CN : canonical_flag (norm_tx t) = true) by (unfold canonical_flag, norm_tx; cbn [t_flag]; destruct (has_witness t); reflexivity).
  pose proof (tx_ser_parse (ser_full t) (norm_tx t) [] Q CN) as E2. rewrite app_nil_r in E2.
  apply wf_of_stable; cbn [s_emit PsetV2.s_dec].
  - rewrite Q, E2. reflexivity.
  - rewrite <- E, lenN_app in L. lia.
Qed.

(* a witness UTXO whose canonical encoding has the 44 bytes readTxOut asks for *)
Lemma txout_stable v b : read_txout v = Some b -> (44 <= length b)%nat -> lenN v < two64 -> s_wf KTxOut false b = true.
Proof.
  unfold read_txout. destruct (length v <? 44)%nat; [discriminate|].
  destruct (p_asset v) as [[a r1]|] eqn:P1; [|discriminate].
  destruct (p_value r1) as [[val r2]|] eqn:P2; [|discriminate].
  destruct (p_nonce r2) as [[n r3]|] eqn:P3; [|discriminate].
  destruct (p_var_slice r3) as [[sc r4]|] eqn:P4; [|discriminate].
  intro H; inversion H; subst b; clear H. intros L45 Lv.
  apply p_asset_inv in P1 as [-> Ha]. apply p_value_inv in P2 as [-> Hv]. apply p_nonce_inv in P3 as [-> Hn].
  apply p_var_slice_inv in P4 as [-> Hs].
  apply wf_of_stable; cbn [s_emit PsetV2.s_dec].
  - unfold read_txout. destruct (Nat.ltb_spec (length (a ++ val ++ n ++ var_slice sc)) 44); [lia|].
    rewrite p_asset_app by exact Ha. rewrite p_value_app by exact Hv. rewrite p_nonce_app by exact Hn.
    rewrite <- (app_nil_r (var_slice sc)). rewrite p_var_slice_app by exact Hs. rewrite app_nil_r. reflexivity.
  - rewrite !lenN_app in Lv. rewrite !lenN_app. lia.
Qed.

(* a transaction accepted with a flag byte other than 0/1 is the transaction accepted from the same
   bytes with the flag byte 0, and both serialize alike *)
Lemma parse_tx_flag0 v t r : parse_tx v = Some (t, r) -> t_flag t <> 1 ->
  exists v0, parse_tx v0 = Some (mk_tx (t_version t) 0 (t_locktime t) (t_ins t) (t_outs t), r) /\ length v0 = length v.
Proof.
  unfold parse_tx, bind. intros H NF.
  destruct (p_le 4 v) as [[ver r1]|] eqn:P1; [|discriminate].
  destruct (p_u8 r1) as [[flag r2]|] eqn:P2; [|discriminate].
  apply p_le_inv in P1 as [-> Hver]. apply p_u8_inv in P2 as [-> Hflag].
  exists (le_enc 4 ver ++ b8 0 :: r2). rewrite p_le_app by exact Hver. rewrite p_u8_app by lia.
  destruct (p_varint r2) as [[nin r3]|]; [|discriminate].
  destruct (p_list p_in nin r3) as [[ins r4]|]; [|discriminate].
  destruct (p_varint r4) as [[nout r5]|]; [|discriminate].
  destruct (p_list p_out nout r5) as [[outs r6]|]; [|discriminate].
  destruct (p_le 4 r6) as [[lt r7]|]; [|discriminate].
  destruct (N.eqb_spec flag 1) as [F1|F1].
  - exfalso. destruct (p_list p_in_wit (lenL ins) r7) as [[iw r8]|]; [|discriminate].
    destruct (p_list p_out_wit (lenL outs) r8) as [[ow r9]|]; [|discriminate].
    unfold ret in H. inversion H; subst t. cbn [t_flag] in NF. congruence.
  - unfold ret in H. inversion H; subst t r. cbn [t_version t_flag t_locktime t_ins t_outs N.eqb]. unfold ret.
    split; [reflexivity|]. rewrite !app_length. cbn [length]. reflexivity.
Qed.

Lemma ser_full_flag0 t : t_flag t <> 1 ->
  ser_full (mk_tx (t_version t) 0 (t_locktime t) (t_ins t) (t_outs t)) = ser_full t.
Proof.
  intro NF. unfold ser_full, ser_tx, has_witness, any_witness_input, any_conf_output.
  cbn [t_version t_flag t_locktime t_ins t_outs]. destruct (N.eqb_spec (t_flag t) 1); [contradiction|]. reflexivity.
Qed.


(* every non-witness UTXO the decoder returns is stable, whatever flag byte it was read with *)
Lemma tx_stable_any v t r : parse_tx v = Some (t, r) -> lenN v < two64 -> s_wf KTx false (ser_full t) = true.
Proof.
  intros P L. destruct (canonical_flag t) eqn:C; [apply (tx_stable_canonical v t r P C L)|].
  assert (NF : t_flag t <> 1).
  { unfold canonical_flag in C. apply orb_false_iff in C as [_ C]. apply N.eqb_neq in C. exact C. }
  destruct (parse_tx_flag0 v t r P NF) as (v0 & P0 & L0).
  rewrite <- (ser_full_flag0 t NF). apply (tx_stable_canonical v0 _ r P0); [reflexivity|].
  unfold lenN in *. rewrite L0. exact L.
Qed.

(* a non-empty decoder output is a fixpoint of its own decoder *)
Lemma dec_out_wf k al v b :
  s_dec k v = ROk b -> lenN v < two64 -> b <> [] -> s_ext k b -> s_wf k al b = true.
Proof.
  intros D Lv Nb X. destruct k; cbn [s_ext] in X.
  - (* KBytes *) cbn [PsetV2.s_dec] in D. destruct (len_ok l v) eqn:E; [|discriminate]. inversion D; subst b.
    apply wf_of_stable; cbn [s_emit PsetV2.s_dec]; [rewrite E; reflexivity | exact Lv].
  - (* KInt *) cbn [PsetV2.s_dec] in D. destruct (length v =? n)%nat eqn:E; [|discriminate].
    destruct (N.eqb_spec (le_dec v) 0) as [Z|NZ]; inversion D; subst b; [congruence|].
    assert (Em : s_emit (KInt n) v = v) by (cbn [s_emit]; destruct v; [congruence | reflexivity]).
    apply wf_of_stable; rewrite Em; [|exact Lv]. cbn [PsetV2.s_dec]. rewrite E.
    destruct (N.eqb_spec (le_dec v) 0); [lia | reflexivity].
  - (* KPtr *) cbn [PsetV2.s_dec] in D. destruct (length v =? n)%nat eqn:E; [|discriminate]. inversion D; subst b.
    apply wf_of_stable; cbn [s_emit PsetV2.s_dec]; [rewrite E; reflexivity | exact Lv].
  - (* KModif *) cbn [PsetV2.s_dec] in D. destruct (length v =? 1)%nat eqn:E; [|discriminate]. inversion D; subst b.
    apply wf_of_stable; cbn [s_emit PsetV2.s_dec]; [rewrite E; reflexivity | exact Lv].
  - (* KBool *) cbn [PsetV2.s_dec] in D. destruct v as [|c [|]]; try discriminate. inversion D; subst b.
    apply wf_of_stable; cbn [s_emit]; [|cbn; unfold two64; lia].
    destruct (n8 c =? 1); reflexivity.
  - (* KCount *) cbn [PsetV2.s_dec] in D. destruct (p_varint v) as [[n r]|] eqn:P; [|discriminate].
    destruct r; [|discriminate]. apply p_varint_inv in P as [_ Hn].
    remember (le_enc 8 n) as e eqn:He.
    destruct (N.eqb_spec n 0) as [Z|NZ]; inversion D; subst b; [congruence|]. subst e.
    assert (Ld : le_dec (le_enc 8 n) = n) by (apply le_dec_enc; exact Hn).
    apply wf_of_stable; cbn [s_emit]; rewrite Ld.
    + cbn [PsetV2.s_dec]. pose proof (p_varint_app n [] Hn) as Q. rewrite app_nil_r in Q. rewrite Q.
      destruct (N.eqb_spec n 0); [lia | reflexivity].
    + pose proof (varint_len_le n). unfold two64. lia.
  - (* KTx *) cbn [PsetV2.s_dec] in D. destruct (parse_tx v) as [[t r]|] eqn:P; [|discriminate]. inversion D; subst b.
    pose proof (tx_stable_any v t r P Lv) as S. unfold PsetV2.s_wf in *.
    assert (E : s_emits KTx false (ser_full t) = true) by (cbn; destruct (ser_full t); [congruence | reflexivity]).
    rewrite E in S. destruct (s_emits KTx al (ser_full t)); [exact S | reflexivity].
  - (* KTxOut *) cbn [PsetV2.s_dec] in D. destruct (read_txout v) as [b'|] eqn:P; [|discriminate]. inversion D; subst b'.
    pose proof (txout_stable v b P X Lv) as S. unfold PsetV2.s_wf in *.
    assert (E : s_emits KTxOut false b = true) by (cbn; destruct b; [congruence | reflexivity]).
    rewrite E in S. destruct (s_emits KTxOut al b); [exact S | reflexivity].
  - (* KMsgTx *) destruct (s_emits KMsgTx false b) eqn:E; [|cbn in E; destruct b; [congruence | discriminate]].
    unfold PsetV2.s_wf in *. rewrite E in X. destruct (s_emits KMsgTx al b); [exact X | reflexivity].
  - (* KVec *) cbn [PsetV2.s_dec] in D. destruct (p_vector v) as [[l r]|] eqn:P; [|discriminate].
    apply p_vector_inv in P as [-> Wl]. destruct l as [|x l]; inversion D; subst b; [congruence|].
    apply wf_of_stable; cbn [s_emit].
    + cbn [PsetV2.s_dec]. pose proof (p_vector_app (x :: l) [] Wl) as Q. rewrite app_nil_r in Q. rewrite Q. reflexivity.
    + rewrite lenN_app in Lv. lia.
  - (* KPub *) cbn [PsetV2.s_dec] in D. destruct (pk_ok v) eqn:E; [|discriminate]. inversion D; subst b.
    apply wf_of_stable; cbn [s_emit PsetV2.s_dec]; [rewrite E; reflexivity | exact Lv].
Qed.


(* ----- multi-valued fields: whatever the decode arm builds from framed pairs is representable ----- *)
Lemma replay_snoc m : forall todo acc e,
  m_replay m acc (todo ++ [e]) = cbind (m_replay m acc todo) (fun a => m_step m (fst e) (snd e) a).
Proof.
  induction todo as [|x todo IH]; intros acc e; cbn [app PsetV2.m_replay].
  - cbn [cbind]. destruct (m_step m (fst e) (snd e) acc); reflexivity.
  - destruct (m_step m (fst x) (snd x) acc) as [a| |]; cbn [cbind]; [apply IH | reflexivity | reflexivity].
Qed.

Lemma entries_eqb_refl l : entries_eqb l l = true.
Proof.
  induction l as [|[k v] l IH]; [reflexivity|]. cbn [entries_eqb]. unfold entry_eqb. cbn [fst snd].
  rewrite !bytes_eqb_refl, IH. reflexivity.
Qed.

(* the kinds whose arm appends exactly the pair it was given *)
Definition appends (m : mkind) : bool :=
  match m with MScalar | MMap _ => false | _ => true end.

Lemma step_appends m kd v l l' : appends m = true -> m_step m kd v l = ROk l' -> l' = l ++ [(kd, v)].
Proof.
  intros A H. destruct m; try discriminate; unfold PsetV2.m_step in H;
    repeat match type of H with
           | context [if ?c then _ else _] => destruct c
           | context [match ?x with _ => _ end] => destruct x
           end; try discriminate; inversion H; reflexivity.
Qed.

Lemma replay_appends m : appends m = true -> forall todo acc l, m_replay m acc todo = ROk l -> l = acc ++ todo.
Proof.
  intro A. induction todo as [|[kd v] todo IH]; intros acc l H; cbn [PsetV2.m_replay] in H.
  - inversion H. rewrite app_nil_r. reflexivity.
  - apply cbind_ok in H as (a & H1 & H2). cbn [fst snd] in H1. apply (step_appends m kd v acc a A) in H1. subst a.
    apply IH in H2. rewrite H2, <- app_assoc. reflexivity.
Qed.

Definition strip (e : mentry) : mentry := (fst e, []).
Lemma replay_scalar : forall todo acc l, m_replay MScalar acc todo = ROk l ->
  l = acc ++ map strip todo /\ m_replay MScalar acc (map strip todo) = ROk l.
Proof.
  induction todo as [|[kd v] todo IH]; intros acc l H; cbn [PsetV2.m_replay map] in *.
  - inversion H. rewrite app_nil_r. split; reflexivity.
  - cbn [fst snd strip PsetV2.m_step] in *. destruct (length kd =? 32)%nat; [|discriminate].
    cbn [cbind] in *. apply IH in H as [-> H]. rewrite <- app_assoc in *. split; [reflexivity | exact H].
Qed.

(* maps: keys of the array length, pairwise distinct *)
Definition mapI (n : nat) (l : list mentry) : Prop :=
  NoDup (map fst l) /\ Forall (fun e => length (fst e) = n) l.

Lemma fixlen_length n kd : length (fixlen n kd) = n.
Proof. unfold fixlen. rewrite firstn_length, app_length, repeat_length. lia. Qed.
Lemma fixlen_id n k : length k = n -> fixlen n k = k.
Proof. intros <-. unfold fixlen. rewrite firstn_app, Nat.sub_diag, firstn_all. cbn. apply app_nil_r. Qed.

Lemma map_put_keys k v : forall l,
  map fst (map_put k v l) = if has_key k l then map fst l else map fst l ++ [k].
Proof.
  induction l as [|[k' v'] l IH]; [reflexivity|]. cbn [map_put has_key existsb fst].
  destruct (bytes_eqb k' k) eqn:E; cbn [map fst orb]; [reflexivity|].
  rewrite IH. unfold has_key. destruct (existsb (fun e => bytes_eqb (fst e) k) l); reflexivity.
Qed.
Lemma has_key_false_notin k l : has_key k l = false -> ~ In k (map fst l).
Proof.
  unfold has_key. intros H Hin. apply in_map_iff in Hin as (e & <- & He).
  assert (X : existsb (fun e0 => bytes_eqb (fst e0) (fst e)) l = true).
  { apply existsb_exists. exists e. split; [exact He | apply bytes_eqb_refl]. }
  congruence.
Qed.
Lemma map_put_forall (P : mentry -> Prop) k v : (forall v', P (k, v') -> P (k, v)) -> P (k, v) -> forall l,
  Forall P l -> Forall P (map_put k v l).
Proof.
  intros Hk Pk. induction l as [|[k' v'] l IH]; intro F; [constructor; [exact Pk|constructor]|].
  inversion F as [|? ? F1 F2]; subst. cbn [map_put]. destruct (bytes_eqb k' k) eqn:E.
  - apply bytes_eqb_eq in E. subst k'. constructor; [apply (Hk v'); exact F1 | exact F2].
  - constructor; [exact F1 | apply IH; exact F2].
Qed.

Lemma NoDup_snoc {A} (l : list A) k : NoDup l -> ~ In k l -> NoDup (l ++ [k]).
Proof.
  induction l as [|x l IH]; intros ND Hn; cbn [app].
  - constructor; [intros []|constructor].
  - inversion ND as [|? ? Hx ND']; subst. constructor.
    + intro Hin. apply in_app_or in Hin as [Hin|[E|[]]]; [contradiction | apply Hn; left; symmetry; exact E].
    + apply IH; [exact ND' | intro Hk; apply Hn; right; exact Hk].
Qed.

Lemma map_put_mapI n k v l : length k = n -> mapI n l -> mapI n (map_put k v l).
Proof.
  intros Lk [ND F]. split.
  - rewrite map_put_keys. destruct (has_key k l) eqn:H; [exact ND|].
    apply has_key_false_notin in H. apply NoDup_snoc; assumption.
  - apply map_put_forall; [intros; exact Lk | exact Lk | exact F].
Qed.

Definition vb (e : mentry) : Prop := lenN (snd e) < two64.

Lemma replay_mapI n : forall todo acc l, m_replay (MMap n) acc todo = ROk l ->
  mapI n acc -> Forall vb acc -> Forall vb todo -> mapI n l /\ Forall vb l.
Proof.
  induction todo as [|[kd v] todo IH]; intros acc l H M V T; cbn [PsetV2.m_replay] in H.
  - inversion H; subst. split; assumption.
  - cbn [fst snd PsetV2.m_step cbind] in H. inversion T as [|? ? T1 T2]; subst.
    apply IH in H; [exact H | apply map_put_mapI; [apply fixlen_length | exact M] | | exact T2].
    apply map_put_forall; [intros; exact T1 | exact T1 | exact V].
Qed.

Lemma map_put_fresh k v : forall l, ~ In k (map fst l) -> map_put k v l = l ++ [(k, v)].
Proof.
  induction l as [|[k' v'] l IH]; intro Hn; [reflexivity|]. cbn [map_put].
  destruct (bytes_eqb k' k) eqn:E.
  - apply bytes_eqb_eq in E. subst. exfalso. apply Hn. left. reflexivity.
  - cbn [app]. rewrite IH; [reflexivity | intro Hk; apply Hn; right; exact Hk].
Qed.

Lemma replay_fresh n : forall x acc, NoDup (map fst (acc ++ x)) -> Forall (fun e => length (fst e) = n) x ->
  m_replay (MMap n) acc x = ROk (acc ++ x).
Proof.
  induction x as [|[k v] x IH]; intros acc ND F; cbn [PsetV2.m_replay]; [rewrite app_nil_r; reflexivity|].
  pose proof (Forall_inv F) as F1. pose proof (Forall_inv_tail F) as F2. cbn [fst snd PsetV2.m_step cbind] in *. rewrite (fixlen_id n k F1).
  assert (Hn : ~ In k (map fst acc)).
  { rewrite map_app in ND. cbn [map fst] in ND. apply NoDup_remove_2 in ND. intro Hk. apply ND. apply in_or_app. left. exact Hk. }
  rewrite (map_put_fresh k v acc Hn).
  replace (acc ++ (k, v) :: x) with ((acc ++ [(k, v)]) ++ x) by (rewrite <- app_assoc; reflexivity).
  apply IH; [|exact F2]. rewrite <- app_assoc. exact ND.
Qed.

Section Reach.
Variable KB : bytes -> Prop.   (* the key-length limit of the slot the entries belong to *)
Definition okpair (e : mentry) : Prop := KB (fst e) /\ lenN (snd e) < two64.
Definition reach (m : mkind) (l : list mentry) : Prop :=
  exists todo, Forall okpair todo /\ m_replay m [] todo = ROk l.

Lemma reach_nil m : reach m [].
Proof. exists []. split; [constructor | reflexivity]. Qed.

Lemma reach_step m kd v l l' : reach m l -> m_step m kd v l = ROk l' -> KB kd -> lenN v < two64 -> reach m l'.
Proof.
  intros (todo & F & R) S K V. exists (todo ++ [(kd, v)]). split.
  - apply Forall_app. split; [exact F | constructor; [split; assumption | constructor]].
  - rewrite replay_snoc, R. cbn [cbind fst snd]. exact S.
Qed.

Definition KB' (m : mkind) (kd : bytes) : Prop := match m with MMap n => length kd = n | _ => KB kd end.

(* everything reachable is a fixpoint of emit-then-replay, and what it emits respects the limits *)
Lemma reach_wf m l : reach m l ->
  m_wf m l = true /\ Forall (fun e => KB' m (fst e) /\ lenN (snd e) < two64) (m_emit m l).
Proof.
  intros (todo & F & R). destruct (appends m) eqn:A.
  - pose proof (replay_appends m A todo [] l R) as E. cbn [app] in E. subst l.
    assert (Em : m_emit m todo = todo) by (destruct m; try discriminate; reflexivity).
    unfold PsetV2.m_wf. rewrite Em, R, entries_eqb_refl. split; [reflexivity|].
    assert (K : forall kd, KB' m kd = KB kd) by (intro; destruct m; try discriminate; reflexivity).
    eapply Forall_impl; [|exact F]. intros e [H1 H2]. rewrite K. split; assumption.
  - destruct m; try discriminate.
    + (* MScalar *) apply replay_scalar in R as [E R]. cbn [app] in E.
      unfold PsetV2.m_wf. cbn [m_emit]. rewrite E at 1. rewrite R, entries_eqb_refl. split; [reflexivity|].
      subst l. rewrite Forall_forall. intros e He. apply in_map_iff in He as (x & <- & Hx).
      rewrite Forall_forall in F. destruct (F x Hx) as [K _]. cbn [strip fst snd KB']. split; [exact K | cbn; unfold two64; lia].
    + (* MMap *) destruct (replay_mapI n todo [] l R) as [[ND FL] V].
      { split; [constructor | constructor]. }
      { constructor. }
      { eapply Forall_impl; [|exact F]. intros e [_ H]. exact H. }
      cbn [m_emit]. pose proof (sort_perm l) as P.
      assert (ND' : NoDup (map fst (sort_entries l))).
      { apply (Permutation_NoDup (Permutation_map fst (Permutation_sym P)) ND). }
      assert (FL' : Forall (fun e => length (fst e) = n) (sort_entries l)).
      { apply (Permutation_Forall (Permutation_sym P) FL). }
      assert (V' : Forall vb (sort_entries l)) by (apply (Permutation_Forall (Permutation_sym P) V)).
      pose proof (replay_fresh n (sort_entries l) [] ND' FL') as RF. cbn [app] in RF.
      unfold PsetV2.m_wf. cbn [m_emit].
      match goal with |- context [PsetV2.m_replay ?a ?b ?c ?d ?e ?f] =>
        replace (PsetV2.m_replay a b c d e f) with (@ROk (list mentry) (sort_entries l)) by (symmetry; exact RF) end.
      rewrite entries_eqb_refl. split; [reflexivity|].
      rewrite Forall_forall in *. intros e He. cbn [KB']. split; [apply FL'; exact He | apply V'; exact He].
Qed.
End Reach.

(* ----- the invariant of the deserialize loop ----- *)
Lemma lset_length {A} (x : A) : forall l i, length (lset i x l) = length l.
Proof. induction l as [|y l IH]; intros [|i]; cbn [lset length]; auto. Qed.
Lemma nth_lset_eq {A} (x d : A) : forall l i, (i < length l)%nat -> nth i (lset i x l) d = x.
Proof. induction l as [|y l IH]; intros [|i] H; cbn [lset nth length] in *; try lia; [reflexivity | apply IH; lia]. Qed.
Lemma nth_lset_neq {A} (x d : A) : forall l i j, i <> j -> nth j (lset i x l) d = nth j l d.
Proof.
  induction l as [|y l IH]; intros [|i] [|j] H; cbn [lset nth]; try reflexivity; try congruence.
  apply IH. congruence.
Qed.
Lemma nth_repeat_nil {A} n i : nth i (repeat (@nil A) n) [] = [].
Proof. revert i; induction n as [|n IH]; intros [|i]; cbn; auto. Qed.

Lemma find_slot_sound key : forall tbl o i sl, find_slot_from o key tbl = Some (i, sl) ->
  exists k, i = (o + k)%nat /\ nth_error tbl k = Some sl /\ sl_dkey sl = key.
Proof.
  induction tbl as [|x tbl IH]; intros o i sl H; [discriminate|]. cbn [find_slot_from] in H.
  destruct (keyid_eqb (sl_dkey x) key) eqn:E.
  - inversion H; subst. exists 0%nat. split; [lia|]. split; [reflexivity | apply keyid_eqb_eq; exact E].
  - apply IH in H as (k & -> & Hk & Hd). exists (S k). split; [lia|]. split; assumption.
Qed.

Section Table.
Variable tbl : list slot.

Definition key_bound (key : keyid) (kd : bytes) : Prop :=
  1 + lenN (k_data (mk_kp_id key kd [])) <= maxKeyLen.

Definition slotI (i : nat) (sl : slot) (s : sec) : Prop :=
  match sl_k sl with
  | SS k al => list_at i s = [] /\
               (val_at i s = [] \/ exists v, lenN v < two64 /\ s_dec k v = ROk (val_at i s))
  | MS m => val_at i s = [] /\ reach (key_bound (sl_dkey sl)) m (list_at i s)
  end.

Definition secI (s : sec) : Prop :=
  length (s_vals s) = length tbl /\ length (s_lists s) = length tbl /\
  (forall i sl, nth_error tbl i = Some sl -> slotI i sl s) /\
  forallb (prop_wf tbl) (s_props s) = true /\ forallb (unk_wf tbl) (s_unks s) = true.

Lemma secI_empty : secI (empty_sec tbl).
Proof.
  unfold secI, empty_sec. cbn [s_vals s_lists s_props s_unks]. rewrite !repeat_length.
  repeat split; try reflexivity. intros i sl _. unfold slotI, val_at, list_at. cbn [s_vals s_lists].
  rewrite (@nth_repeat_nil byte), (@nth_repeat_nil mentry). destruct (sl_k sl); [split; [reflexivity | left; reflexivity] | split; [reflexivity | apply reach_nil]].
Qed.

Lemma apply_slot_I i sl kd v s s' :
  secI s -> nth_error tbl i = Some sl -> key_bound (sl_dkey sl) kd -> lenN v < two64 ->
  apply_slot i sl kd v s = ROk s' -> secI s'.
Proof.
  intros (Lv & Ll & Sl & Pr & Un) Hi KBd Vv H.
  assert (Hlt : (i < length tbl)%nat) by (apply nth_error_Some; congruence).
  pose proof (Sl i sl Hi) as Si. unfold PsetV2.apply_slot in H. unfold slotI in Si.
  destruct (sl_k sl) as [k al|m] eqn:K.
  - destruct (nonemptyb (val_at i s)) eqn:Ne; [discriminate|].
    apply cbind_ok in H as (b & D & H). inversion H; subst s'; clear H.
    unfold secI, set_val. cbn [s_vals s_lists s_props s_unks]. rewrite lset_length.
    split; [exact Lv|]. split; [exact Ll|]. split; [|split; assumption].
    intros j sj Hj. pose proof (Sl j sj Hj) as Sj. unfold slotI in *. unfold val_at, list_at in *. cbn [s_vals s_lists].
    destruct (Nat.eq_dec i j) as [<-|Nij].
    + rewrite Hi in Hj. inversion Hj; subst sj. rewrite K. rewrite nth_lset_eq by lia.
      destruct Si as [Si _]. split; [exact Si|]. right. exists v. split; assumption.
    + rewrite nth_lset_neq by exact Nij. exact Sj.
  - apply cbind_ok in H as (l' & D & H). inversion H; subst s'; clear H.
    unfold secI, set_list. cbn [s_vals s_lists s_props s_unks]. rewrite lset_length.
    split; [exact Lv|]. split; [exact Ll|]. split; [|split; assumption].
    intros j sj Hj. pose proof (Sl j sj Hj) as Sj. unfold slotI in *. unfold val_at, list_at in *. cbn [s_vals s_lists].
    destruct (Nat.eq_dec i j) as [<-|Nij].
    + rewrite Hi in Hj. inversion Hj; subst sj. rewrite K. rewrite nth_lset_eq by lia.
      destruct Si as [Si R]. split; [exact Si|]. apply (reach_step _ m kd v _ l' R D KBd Vv).
    + rewrite nth_lset_neq by exact Nij. exact Sj.
Qed.

Lemma forallb_snoc {A} (f : A -> bool) l x : forallb f l = true -> f x = true -> forallb f (l ++ [x]) = true.
Proof. intros H1 H2. rewrite forallb_app, H1. cbn. rewrite H2. reflexivity. Qed.

Lemma sec_step_I s k s' : secI s -> frame_ok k = true -> sec_step tbl s k = ROk s' -> secI s'.
Proof.
  intros I F H. pose proof F as F0. apply frame_ok_parts in F as (Ft & Fk & Fv).
  unfold PsetV2.sec_step in H. destruct (N.eqb_spec (k_type k) PsetProprietary) as [Ep|Np].
  - destruct (parse_prop k) as [pd|] eqn:P; [|discriminate].
    apply parse_prop_inv in P as (Ek & Hid & Hsub & Hval).
    assert (Fpd : frame_ok (prop_kp pd) = true).
    { unfold prop_kp, frame_ok. cbn [k_type k_data k_val].
      assert (E1 : eff_id (pd_id pd) = pd_id pd) by (destruct (pd_id pd); [congruence | reflexivity]).
      rewrite E1, <- Ek, Hval. rewrite PsetProprietary_val. cbn [N.ltb N.compare Pos.compare Pos.compare_cont].
      destruct (N.leb_spec (1 + lenN (k_data k)) maxKeyLen); [|lia].
      destruct (N.ltb_spec (lenN (k_val k)) two64); [reflexivity | lia]. }
    assert (Hs : (pd_sub pd <? 256) = true) by (apply N.ltb_lt; exact Hsub).
    assert (E1 : eff_id (pd_id pd) = pd_id pd) by (destruct (pd_id pd); [congruence | reflexivity]).
    destruct (bytes_eqb (pd_id pd) pset_magic) eqn:Em.
    + destruct (find_slot (KProp (pd_sub pd)) tbl) as [[i sl]|] eqn:Fs.
      * apply find_slot_sound in Fs as (j & -> & Hj & Hd). cbn [Nat.add] in *.
        apply (apply_slot_I j sl (pd_kd pd) (k_val k) s s' I Hj); [|exact Fv|exact H].
        unfold key_bound. rewrite Hd. cbn [mk_kp_id k_data]. apply bytes_eqb_eq in Em.
        unfold prop_key. rewrite <- Em, <- Ek. exact Fk.
      * inversion H; subst s'. destruct I as (Lv & Ll & Sl & Pr & Un). unfold secI, add_prop. cbn [s_vals s_lists s_props s_unks].
        repeat split; try assumption. apply forallb_snoc; [exact Pr|]. unfold prop_wf. rewrite Hs, E1, Em, Fs, Fpd. reflexivity.
    + inversion H; subst s'. destruct I as (Lv & Ll & Sl & Pr & Un). unfold secI, add_prop. cbn [s_vals s_lists s_props s_unks].
      repeat split; try assumption. apply forallb_snoc; [exact Pr|]. unfold prop_wf. rewrite Hs, E1, Em, Fpd. reflexivity.
  - destruct (find_slot (KStd (k_type k)) tbl) as [[i sl]|] eqn:Fs.
    + apply find_slot_sound in Fs as (j & -> & Hj & Hd). cbn [Nat.add] in *.
      apply (apply_slot_I j sl (k_data k) (k_val k) s s' I Hj); [|exact Fv|exact H].
      unfold key_bound. rewrite Hd. cbn [mk_kp_id k_data]. exact Fk.
    + inversion H; subst s'. destruct I as (Lv & Ll & Sl & Pr & Un). unfold secI, add_unk. cbn [s_vals s_lists s_props s_unks].
      repeat split; try assumption. apply forallb_snoc; [exact Un|]. unfold unk_wf. rewrite Fs, F0.
      destruct (N.eqb_spec (k_type k) PsetProprietary); [contradiction | reflexivity].
Qed.

Lemma fold_step_I : forall kps s s', secI s -> Forall (fun k => frame_ok k = true) kps ->
  fold_step pk_ok der_ok xonly_ok msgtx_canon tbl s kps = ROk s' -> secI s'.
Proof.
  induction kps as [|k kps IH]; intros s s' I F H; cbn [fold_step] in H.
  - inversion H; subst. exact I.
  - inversion F as [|? ? Fk Fr]; subst. apply cbind_ok in H as (s1 & H1 & H2).
    apply (IH s1 s'); [apply (sec_step_I s k s1 I Fk H1) | exact Fr | exact H2].
Qed.

End Table.

(* ----- from the invariant to well-formedness ----- *)
(* table conditions checked by computation for the three tables *)
Definition same_keys (tbl : list slot) : bool := forallb (fun sl => keyid_eqb (sl_ekey sl) (sl_dkey sl)) tbl.
Definition map_keys_fit (tbl : list slot) : bool :=
  forallb (fun sl => match sl_k sl, sl_ekey sl with
                     | MS (MMap n), KStd _ => 1 + N.of_nat n <=? maxKeyLen
                     | MS (MMap _), KProp _ => false
                     | _, _ => true end) tbl.

Lemma slots_wf_pointwise s : forall suf i,
  (forall k sl, nth_error suf k = Some sl -> slot_wf pk_ok der_ok xonly_ok msgtx_canon (i + k) sl s = true) ->
  slots_wf pk_ok der_ok xonly_ok msgtx_canon i suf s = true.
Proof.
  induction suf as [|sl suf IH]; intros i H; [reflexivity|]. cbn [PsetV2.slots_wf].
  pose proof (H 0%nat sl eq_refl) as H0. rewrite Nat.add_0_r in H0. rewrite H0. cbn [andb].
  apply IH. intros k s1 Hk. pose proof (H (S k) s1 Hk) as Hs. rewrite Nat.add_succ_r in Hs. exact Hs.
Qed.

Lemma forallb_nth_error {A} (f : A -> bool) l i x : forallb f l = true -> nth_error l i = Some x -> f x = true.
Proof. intros F H. rewrite forallb_forall in F. apply F. apply (nth_error_In l i H). Qed.

Theorem secI_wf tbl sanity s :
  tbl_ok tbl = true -> same_keys tbl = true -> map_keys_fit tbl = true ->
  secI tbl s ->
  (* an always-emitted field that is absent decodes back to "absent" *)
  (forall i sl k, nth_error tbl i = Some sl -> sl_k sl = SS k true -> val_at i s = [] ->
                  s_dec k (s_emit k []) = ROk [] /\ lenN (s_emit k []) < two64) ->
  (* the externally decoded values are stable *)
  (forall i sl k al, nth_error tbl i = Some sl -> sl_k sl = SS k al -> val_at i s <> [] -> s_ext k (val_at i s)) ->
  sanity (norm_sec tbl s) = true ->
  wf_sec pk_ok der_ok xonly_ok msgtx_canon tbl sanity s = true.
Proof.
  intros T SK MK (Lv & Ll & Sl & Pr & Un) Habs Hext Hsan.
  unfold PsetV2.wf_sec. rewrite Lv, Ll, !Nat.eqb_refl, Pr, Un, Hsan. cbn [andb]. rewrite !andb_true_r.
  apply slots_wf_pointwise. intros i sl Hi. cbn [Nat.add].
  pose proof (Sl i sl Hi) as Si. unfold slotI in Si. unfold PsetV2.slot_wf.
  assert (Ke : keyid_eqb (sl_ekey sl) (sl_dkey sl) = true) by (apply (forallb_nth_error _ tbl i sl SK Hi)).
  destruct (tbl_ok_parts tbl T) as [_ KS]. destruct (KS sl (nth_error_In tbl i Hi)) as [_ Ks].
  destruct (sl_k sl) as [k al|m] eqn:K.
  - destruct Si as [Li Vi]. rewrite Li, Ke. cbn [orb]. rewrite !andb_true_r.
    destruct Vi as [Z|(v & Lvv & D)].
    + rewrite Z. unfold PsetV2.s_wf. destruct (s_emits k al []) eqn:E; [|reflexivity].
      assert (A : al = true).
      { unfold s_emits in E. destruct al; [reflexivity|]. cbn [orb] in E. destruct k; cbn in E; discriminate. }
      subst al. destruct (Habs i sl k Hi K Z) as [D L]. rewrite D. cbn [cres_bytes_eqb bytes_eqb andb].
      destruct (N.ltb_spec (lenN (s_emit k [])) two64); [reflexivity | lia].
    + destruct (val_at i s) as [|b0 b] eqn:Vb.
      * unfold PsetV2.s_wf. destruct (s_emits k al []) eqn:E; [|reflexivity].
        assert (A : al = true).
        { unfold s_emits in E. destruct al; [reflexivity|]. cbn [orb] in E. destruct k; cbn in E; discriminate. }
        subst al. destruct (Habs i sl k Hi K Vb) as [D' L]. rewrite D'. cbn [cres_bytes_eqb bytes_eqb andb].
        destruct (N.ltb_spec (lenN (s_emit k [])) two64); [reflexivity | lia].
      * apply (dec_out_wf k al v (b0 :: b) D Lvv); [discriminate|]. rewrite <- Vb. apply (Hext i sl k al Hi K). rewrite Vb. discriminate.
  - destruct Si as [Vi R]. rewrite Vi, Ke. cbn [andb].
    destruct (reach_wf _ m _ R) as [W F]. rewrite W. cbn [andb].
    apply forallb_forall. intros e He. rewrite Forall_forall in F. destruct (F e He) as [Kb Vbd].
    apply keyid_eqb_eq in Ke. unfold frame_ok.
    assert (Kt : k_type (mk_kp_id (sl_ekey sl) (fst e) (snd e)) < 256).
    { destruct (sl_ekey sl) as [t|sub]; cbn [mk_kp_id k_type key_small] in *.
      - apply andb_true_iff in Ks as [Ks _]. apply N.ltb_lt. exact Ks.
      - rewrite PsetProprietary_val. lia. }
    assert (Kd : 1 + lenN (k_data (mk_kp_id (sl_ekey sl) (fst e) (snd e))) <= maxKeyLen).
    { destruct m; cbn [KB'] in Kb; try (unfold key_bound in Kb; rewrite <- Ke in Kb;
        destruct (sl_ekey sl); cbn [mk_kp_id k_data] in *; exact Kb).
      pose proof (forallb_nth_error _ tbl i sl MK Hi) as Mf. cbn beta in Mf. rewrite K in Mf.
      destruct (sl_ekey sl) as [t|sub]; [|discriminate]. cbn [mk_kp_id k_data]. apply N.leb_le in Mf.
      unfold lenN. rewrite Kb. exact Mf. }
    cbn [k_val mk_kp_id]. 
    assert (Kv : lenN (k_val (mk_kp_id (sl_ekey sl) (fst e) (snd e))) < two64) by (destruct (sl_ekey sl); exact Vbd).
    destruct (N.ltb_spec (k_type (mk_kp_id (sl_ekey sl) (fst e) (snd e))) 256); [|lia].
    destruct (N.leb_spec (1 + lenN (k_data (mk_kp_id (sl_ekey sl) (fst e) (snd e)))) maxKeyLen); [|lia].
    destruct (N.ltb_spec (lenN (k_val (mk_kp_id (sl_ekey sl) (fst e) (snd e)))) two64); [reflexivity | lia].
Qed.

(* ----- the normal form does not change what the sanity checks read ----- *)
Definition no_modif (tbl : list slot) : bool :=
  forallb (fun sl => match sl_k sl with SS KModif _ => false | _ => true end) tbl.

Lemma norm_vals_id : forall tbl vs, no_modif tbl = true -> norm_vals tbl vs = vs.
Proof.
  induction tbl as [|sl t IH]; intros [|b vs] H; try reflexivity.
  cbn [no_modif forallb] in H. apply andb_true_iff in H as [H1 H2]. cbn [norm_vals]. rewrite (IH vs H2). f_equal.
  destruct (sl_k sl) as [k al|m]; [|reflexivity].
  destruct (s_emits k al b) eqn:E; [reflexivity|].
  unfold s_emits in E. apply orb_false_iff in E as [_ E]. destruct k; try discriminate; destruct b; try reflexivity; discriminate.
Qed.

Lemma norm_lists_nth : forall tbl ls i,
  nth i (norm_lists tbl ls) [] =
  match nth_error tbl i with
  | Some sl => match sl_k sl with MS m => m_emit m (nth i ls []) | SS _ _ => nth i ls [] end
  | None => nth i ls []
  end.
Proof.
  induction tbl as [|sl t IH]; intros ls i.
  - destruct ls; destruct i; reflexivity.
  - destruct ls as [|l ls].
    + cbn [norm_lists]. destruct i; cbn [nth nth_error].
      * destruct (sl_k sl) as [|m]; [reflexivity | destruct m; reflexivity].
      * destruct (nth_error t i) as [s1|]; [|reflexivity]. destruct (sl_k s1) as [|m]; [reflexivity | destruct m; reflexivity].
    + cbn [norm_lists]. destruct i; cbn [nth nth_error]; [destruct (sl_k sl); reflexivity | apply IH].
Qed.

Lemma output_sanity_norm s : output_sanity (norm_sec output_tbl s) = output_sanity s.
Proof.
  unfold norm_sec. rewrite (norm_vals_id output_tbl (s_vals s)) by reflexivity. reflexivity.
Qed.

Lemma input_sanity_norm s : input_sanity (norm_sec input_tbl s) = input_sanity s.
Proof.
  unfold norm_sec. rewrite (norm_vals_id input_tbl (s_vals s)) by reflexivity.
  unfold input_sanity, has_val, val_at, list_at. cbn [s_vals s_lists].
  rewrite !norm_lists_nth. reflexivity.
Qed.

Lemma norm_vals_nth : forall tbl vs i,
  nth i (norm_vals tbl vs) [] =
  match nth_error tbl i with
  | Some sl => match sl_k sl with
               | SS k al => if s_emits k al (nth i vs []) then nth i vs [] else []
               | MS _ => nth i vs [] end
  | None => nth i vs []
  end.
Proof.
  induction tbl as [|sl t IH]; intros vs i.
  - destruct vs; destruct i; reflexivity.
  - destruct vs as [|b vs].
    + cbn [norm_vals]. destruct i; cbn [nth nth_error].
      * destruct (sl_k sl) as [k al|m]; [destruct (s_emits k al []); reflexivity | reflexivity].
      * destruct (nth_error t i) as [s1|]; [|reflexivity].
        destruct (sl_k s1) as [k al|m]; [destruct (s_emits k al []); reflexivity | reflexivity].
    + cbn [norm_vals]. destruct i; cbn [nth nth_error]; [reflexivity | apply IH].
Qed.

Lemma global_sanity_norm g : global_sanity (norm_sec global_tbl g) = global_sanity g.
Proof.
  unfold norm_sec, global_sanity, has_val, num_val, val_at, list_at. cbn [s_vals s_lists].
  rewrite !norm_vals_nth, !norm_lists_nth.
  change (nth_error global_tbl gTxVersion) with (Some (sl (kS g_GlobalTxVersion) (SS (KInt 4) true))).
  change (nth_error global_tbl gVersion) with (Some (sl (kS g_GlobalVersion) (SS (KInt 4) true))).
  change (nth_error global_tbl gXpubs) with (Some (sl (kS g_GlobalXpub) (MS MXpub))).
  change (nth_error global_tbl gScalars) with (Some (sl (kP g_GlobalScalar) (MS MScalar))).
  change (nth_error global_tbl gTxModifiable) with (Some (sl (kS g_GlobalTxModifiable) (SS (KPtr 1) false))).
  change (nth_error global_tbl gModifiable) with (Some (sl (kP g_GlobalModifiable) (SS KModif false))).
  cbn [sl sl_k m_emit s_emits orb].
  destruct (nth gTxModifiable (s_vals g) []) as [|c5 r5]; cbn [nonemptyb].
  - destruct (le_dec (nth gModifiable (s_vals g) []) =? 0) eqn:E; cbn [negb nonemptyb]; rewrite ?E; cbn [negb];
      rewrite ?andb_false_r; reflexivity.
  - destruct (le_dec (nth gModifiable (s_vals g) []) =? 0) eqn:E; cbn [negb nonemptyb]; rewrite ?E; cbn [negb];
      rewrite ?andb_false_r; reflexivity.
Qed.

Lemma forallb_map_ext {A} (f : A -> bool) (g : A -> A) l : (forall a, f (g a) = f a) -> forallb f (map g l) = forallb f l.
Proof. intro H. induction l as [|a l IH]; [reflexivity|]. cbn [map forallb]. rewrite H, IH. reflexivity. Qed.
Lemma existsb_map_ext {A} (f : A -> bool) (g : A -> A) l : (forall a, f (g a) = f a) -> existsb f (map g l) = existsb f l.
Proof. intro H. induction l as [|a l IH]; [reflexivity|]. cbn [map existsb]. rewrite H, IH. reflexivity. Qed.

Lemma out_norm_vals s : s_vals (norm_sec output_tbl s) = s_vals s.
Proof. unfold norm_sec. cbn [s_vals]. apply norm_vals_id. reflexivity. Qed.

Lemma pset_sanity_norm p : pset_sanity (norm_pset p) = pset_sanity p.
Proof.
  unfold pset_sanity, norm_pset, pset_needs_blinding. cbn [p_global p_ins p_outs].
  rewrite (forallb_map_ext input_sanity (norm_sec input_tbl)) by apply input_sanity_norm.
  rewrite (forallb_map_ext output_sanity (norm_sec output_tbl)) by apply output_sanity_norm.
  rewrite (existsb_map_ext out_fully_blinded (norm_sec output_tbl)).
  2:{ intro a. unfold out_fully_blinded, has_val, val_at. rewrite out_norm_vals. reflexivity. }
  rewrite (existsb_map_ext (fun o => out_needs_blinding o && negb (out_fully_blinded o)) (norm_sec output_tbl)).
  2:{ intro a. unfold out_needs_blinding, out_fully_blinded, has_val, val_at. rewrite out_norm_vals. reflexivity. }
  unfold list_at, norm_sec. cbn [s_lists]. rewrite norm_lists_nth.
  change (nth_error global_tbl gScalars) with (Some (sl (kP g_GlobalScalar) (MS MScalar))). reflexivity.
Qed.

(* ----- table checks by computation ----- *)
Definition indexed (tbl : list slot) : list (nat * slot) := combine (seq 0 (length tbl)) tbl.
Lemma nth_error_combine_seq : forall (tbl : list slot) o i sl, nth_error tbl i = Some sl ->
  In ((o + i)%nat, sl) (combine (seq o (length tbl)) tbl).
Proof.
  induction tbl as [|x t IH]; intros o i sl H; [destruct i; discriminate|].
  cbn [length seq combine]. destruct i as [|i]; cbn [nth_error] in H.
  - inversion H; subst. left. f_equal. lia.
  - right. replace (o + S i)%nat with (S o + i)%nat by lia. apply IH. exact H.
Qed.
Lemma indexed_in tbl i sl : nth_error tbl i = Some sl -> In (i, sl) (indexed tbl).
Proof. intro H. apply (nth_error_combine_seq tbl 0 i sl H). Qed.

(* always-emitted fields: absent decodes back to absent, unless position `req` (which sanity requires) *)
Definition abs_ok (tbl : list slot) (req : nat -> bool) : bool :=
  forallb (fun isl => match sl_k (snd isl) with
                      | SS k true => req (fst isl) ||
                                     (cres_bytes_eqb (s_dec k (s_emit k [])) [] && (lenN (s_emit k []) <? two64))
                      | _ => true end) (indexed tbl).
Lemma abs_ok_use tbl req i sl k : abs_ok tbl req = true -> nth_error tbl i = Some sl -> sl_k sl = SS k true ->
  req i = false -> s_dec k (s_emit k []) = ROk [] /\ lenN (s_emit k []) < two64.
Proof.
  intros A Hi K R. unfold abs_ok in A. rewrite forallb_forall in A. specialize (A (i, sl) (indexed_in tbl i sl Hi)).
  cbn [fst snd] in A. rewrite K, R in A. cbn [orb] in A. apply andb_true_iff in A as [A1 A2].
  apply N.ltb_lt in A2. split; [|exact A2].
  destruct (s_dec k (s_emit k [])) as [b| |]; try discriminate. cbn [cres_bytes_eqb] in A1. apply bytes_eqb_eq in A1. subst. reflexivity.
Qed.

(* the premise on the externally decoded values of a section (decidable): a witness UTXO that is present
   has 44 bytes, a peg-in transaction is stable *)
Definition ext_okb (tbl : list slot) (s : sec) : bool :=
  forallb (fun isl => match sl_k (snd isl) with
                      | SS KTxOut _ => (44 <=? length (val_at (fst isl) s))%nat || negb (nonemptyb (val_at (fst isl) s))
                      | SS KMsgTx _ => s_wf KMsgTx false (val_at (fst isl) s)
                      | _ => true end) (indexed tbl).
Lemma ext_okb_use tbl s i sl k al : ext_okb tbl s = true -> nth_error tbl i = Some sl -> sl_k sl = SS k al ->
  val_at i s <> [] -> s_ext k (val_at i s).
Proof.
  intros E Hi K Ne. unfold ext_okb in E. rewrite forallb_forall in E. specialize (E (i, sl) (indexed_in tbl i sl Hi)).
  cbn [fst snd] in E. rewrite K in E. destruct k; cbn [s_ext]; try exact I; [|exact E].
  apply orb_true_iff in E as [E|E]; [apply Nat.leb_le; exact E|].
  destruct (val_at i s); [congruence | discriminate].
Qed.

(* ----- sections ----- *)
Lemma parse_section_wf tbl sanity req bs s r :
  tbl_ok tbl = true -> same_keys tbl = true -> map_keys_fit tbl = true -> abs_ok tbl req = true ->
  (forall s, sanity s = true -> forall i, req i = true -> val_at i s <> []) ->
  (forall s, sanity (norm_sec tbl s) = sanity s) ->
  parse_section tbl sanity bs = ROk (s, r) -> ext_okb tbl s = true ->
  wf_sec pk_ok der_ok xonly_ok msgtx_canon tbl sanity s = true.
Proof.
  intros T SK MK AB Hreq Hnorm H X. unfold PsetV2.parse_section in H.
  apply cbind_ok in H as ([s0 r0] & Hk & Hs). cbn [fst] in Hs. destruct (sanity s0) eqn:San; [|discriminate].
  inversion Hs; subst s0 r0; clear Hs.
  apply parse_kps_inv in Hk as (kps & _ & F & Fo).
  pose proof (fold_step_I tbl kps _ s (secI_empty tbl) F Fo) as I.
  apply (secI_wf tbl sanity s T SK MK I).
  - intros i sl k Hi K Z. destruct (req i) eqn:R; [exfalso; apply (Hreq s San i R Z)|].
    apply (abs_ok_use tbl req i sl k AB Hi K R).
  - intros i sl k al Hi K Ne. apply (ext_okb_use tbl s i sl k al X Hi K Ne).
  - rewrite Hnorm. exact San.
Qed.

Lemma global_abs_ok : abs_ok global_tbl (fun _ => false) = true. Proof. vm_compute. reflexivity. Qed.
Lemma output_abs_ok : abs_ok output_tbl (fun _ => false) = true. Proof. vm_compute. reflexivity. Qed.
Lemma input_abs_ok : abs_ok input_tbl (fun i => (i =? iPreviousTxid)%nat) = true. Proof. vm_compute. reflexivity. Qed.

Lemma input_sanity_txid s : input_sanity s = true -> forall i, (i =? iPreviousTxid)%nat = true -> val_at i s <> [].
Proof.
  intros H i Ei Z. apply Nat.eqb_eq in Ei. subst i.
  destruct (has_val iPreviousTxid s) eqn:E.
  - unfold has_val in E. rewrite Z in E. discriminate.
  - unfold input_sanity in H. rewrite E in H. rewrite andb_false_r in H. cbn [andb] in H. discriminate.
Qed.

Lemma parse_secs_inv tbl sanity : forall fuel n bs l r, parse_secs tbl sanity fuel n bs = ROk (l, r) ->
  lenL l = n /\ Forall (fun s => exists b r', parse_section tbl sanity b = ROk (s, r')) l.
Proof.
  induction fuel as [|f IH]; intros n bs l r H; cbn [PsetV2.parse_secs] in H.
  - destruct (N.eqb_spec n 0); [|discriminate]. inversion H; subst. split; [reflexivity | constructor].
  - destruct (N.eqb_spec n 0) as [Z|NZ].
    + inversion H; subst. split; [reflexivity | constructor].
    + apply cbind_ok in H as ([s0 r0] & H1 & H2). cbn [fst snd] in H2.
      apply cbind_ok in H2 as ([l1 r1] & H2 & H3). cbn [fst snd] in H3. inversion H3; subst l r; clear H3.
      apply IH in H2 as [Ln Fl]. split.
      * unfold lenL in *. cbn [length]. lia.
      * constructor; [exists bs, r0; exact H1 | exact Fl].
Qed.

(* ----- packets ----- *)
Definition pset_ext (p : pset) : Prop := Forall (fun s => ext_okb input_tbl s = true) (p_ins p).

Lemma req_none (sanity : sec -> bool) : forall s, sanity s = true -> forall i : nat, (fun _ : nat => false) i = true -> val_at i s <> [].
Proof. intros s _ i Hf. discriminate. Qed.
Lemma global_same_keys : same_keys global_tbl = true. Proof. vm_compute. reflexivity. Qed.
Lemma input_same_keys : same_keys input_tbl = true. Proof. vm_compute. reflexivity. Qed.
Lemma output_same_keys : same_keys output_tbl = true. Proof. vm_compute. reflexivity. Qed.
Lemma global_map_keys : map_keys_fit global_tbl = true. Proof. vm_compute. reflexivity. Qed.
Lemma input_map_keys : map_keys_fit input_tbl = true. Proof. vm_compute. reflexivity. Qed.
Lemma output_map_keys : map_keys_fit output_tbl = true. Proof. vm_compute. reflexivity. Qed.
Lemma global_no_ext g : ext_okb global_tbl g = true. Proof. reflexivity. Qed.
Lemma output_no_ext o : ext_okb output_tbl o = true. Proof. reflexivity. Qed.

(* every accepted packet whose externally decoded values are stable lies in the round-trip domain *)
Theorem parsed_wf bs p : parse_pset bs = ROk p -> pset_ext p -> wf_pset pk_ok der_ok xonly_ok msgtx_canon p = true.
Proof.
  intros H X. unfold PsetV2.parse_pset in H. destruct (take 5 bs) as [[m r]|]; [|discriminate].
  destruct (bytes_eqb m magic_sep); [|discriminate].
  apply cbind_ok in H as ([g r1] & Hg & H). cbn [fst snd] in H.
  apply cbind_ok in H as ([ins r2] & Hi & H). cbn [fst snd] in H.
  apply cbind_ok in H as ([outs r3] & Ho & H). cbn [fst snd] in H.
  destruct (pset_sanity (mk_pset g ins outs)) eqn:PS; [|discriminate]. inversion H; subst p; clear H.
  apply parse_secs_inv in Hi as [Ci Fi]. apply parse_secs_inv in Ho as [Co Fo].
  unfold PsetV2.wf_pset. cbn [p_global p_ins p_outs]. unfold pset_ext in X. cbn [p_ins] in X.
  assert (Wg : wf_sec pk_ok der_ok xonly_ok msgtx_canon global_tbl global_sanity g = true).
  { exact (parse_section_wf global_tbl global_sanity (fun _ => false) r g r1 global_tbl_ok global_same_keys global_map_keys
             global_abs_ok (req_none global_sanity) global_sanity_norm Hg (global_no_ext g)). }
  assert (Wi : forallb (wf_sec pk_ok der_ok xonly_ok msgtx_canon input_tbl input_sanity) ins = true).
  { apply forallb_forall. intros s Hs. rewrite Forall_forall in Fi, X. destruct (Fi s Hs) as (b & r' & Hp).
    exact (parse_section_wf input_tbl input_sanity (fun i => (i =? iPreviousTxid)%nat) b s r' input_tbl_ok input_same_keys
             input_map_keys input_abs_ok input_sanity_txid input_sanity_norm Hp (X s Hs)). }
  assert (Wo : forallb (wf_sec pk_ok der_ok xonly_ok msgtx_canon output_tbl output_sanity) outs = true).
  { apply forallb_forall. intros s Hs. rewrite Forall_forall in Fo. destruct (Fo s Hs) as (b & r' & Hp).
    exact (parse_section_wf output_tbl output_sanity (fun _ => false) b s r' output_tbl_ok output_same_keys output_map_keys
             output_abs_ok (req_none output_sanity) output_sanity_norm Hp (output_no_ext s)). }
  rewrite Wg, Wi, Wo, Ci, Co, !N.eqb_refl. cbn [andb].
  change (mk_pset (norm_sec global_tbl g) (map (norm_sec input_tbl) ins) (map (norm_sec output_tbl) outs))
    with (norm_pset (mk_pset g ins outs)).
  rewrite pset_sanity_norm. exact PS.
Qed.

(* parse, serialize, parse: the identity (up to the normal form) on every accepted encoding whose
   externally decoded values are stable *)
Theorem pset_parse_ser_parse bs p : parse_pset bs = ROk p -> pset_ext p ->
  exists bs', ser_pset p = ROk bs' /\ parse_pset bs' = ROk (norm_pset p).
Proof.
  intros H X. destruct (pset_parse_ser pk_ok der_ok xonly_ok msgtx_canon p (parsed_wf bs p H X)) as (bs' & S & P).
  exists bs'. split; [exact S|]. rewrite <- (app_nil_r bs'). apply P.
Qed.

End Inv.
