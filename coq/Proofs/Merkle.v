(* Proofs/Merkle.v — C20, tree part: the Go extractor (Model/Merkle.v) against Bitcoin's
   partial merkle tree (Spec/PartialMerkle.v). *)
From GE Require Import Lib.Bytes Lib.Varint Lib.Sha256 Spec.PartialMerkle Model.Merkle Gen.MerkleConsts.
From Coq Require Import ZifyBool ZifyN ZifyNat.
Open Scope N_scope.

(* ---------- arithmetic of calcTreeWidth ---------- *)
Lemma pow2_pos h : 0 < 2 ^ h.
Proof. apply N.neq_0_lt_0, N.pow_nonzero. lia. Qed.

Lemma pow2_le_mono a b : a <= b -> 2 ^ a <= 2 ^ b.
Proof. intro Hab. apply N.pow_le_mono_r; lia. Qed.

Lemma width_ideal n h : n <= 2 ^ 31 -> h <= 31 -> width n h = (n + 2 ^ h - 1) / 2 ^ h.
Proof.
  intros Hn Hh. unfold width. rewrite N.shiftl_1_l, N.shiftr_div_pow2.
  pose proof (pow2_pos h) as Hp. pose proof (pow2_le_mono h 31 Hh) as Hle.
  change (2 ^ 31) with 2147483648 in *. unfold two32.
  rewrite (N.mod_small (2 ^ h)) by lia.
  replace (n + 2 ^ h + (4294967296 - 1)) with ((n + 2 ^ h - 1) + 1 * 4294967296) by lia.
  rewrite N.mod_add by lia. rewrite N.mod_small by lia. reflexivity.
Qed.

Lemma ceil_div_lt p n k : 0 < k -> (p < (n + k - 1) / k <-> p * k < n).
Proof.
  intro Hk. split; intro Hlt.
  - destruct (N.lt_ge_cases (p * k) n) as [Hc|Hc]; [exact Hc|exfalso].
    assert (Hq : (n + k - 1) / k < p + 1).
    { apply N.div_lt_upper_bound; [lia|]. rewrite N.mul_add_distr_l, N.mul_1_r, (N.mul_comm k p). lia. }
    lia.
  - assert (Hq : p + 1 <= (n + k - 1) / k).
    { apply N.div_le_lower_bound; [lia|]. rewrite N.mul_add_distr_l, N.mul_1_r, (N.mul_comm k p). lia. }
    lia.
Qed.

Lemma width_lt n h p : n <= 2 ^ 31 -> h <= 31 -> (p <? width n h) = (p * 2 ^ h <? n).
Proof.
  intros Hn Hh. rewrite width_ideal by assumption.
  pose proof (ceil_div_lt p n (2 ^ h) (pow2_pos h)) as [Ha Hb].
  destruct (N.ltb_spec p ((n + 2 ^ h - 1) / 2 ^ h)) as [Hc|Hc];
    destruct (N.ltb_spec (p * 2 ^ h) n) as [Hd|Hd]; try reflexivity.
  - apply Ha in Hc. lia.
  - apply Hb in Hd. lia.
Qed.

(* the height loop finds the least h with n <= 2^h *)
Lemma height_loop_spec fuel : forall n h,
  1 <= n -> n <= 2 ^ 31 -> (h = 0 \/ 2 ^ (h - 1) < n) -> h <= 31 ->
  n <= 2 ^ (h + N.of_nat fuel - 1) -> (0 < fuel)%nat ->
  height_loop fuel n h = Some (N.log2_up n).
Proof.
  induction fuel as [|f IH]; intros n h H1 Hn Hlow Hh Hup Hf; [lia|].
  cbn [height_loop]. rewrite width_lt by assumption.
  destruct (N.ltb_spec (1 * 2 ^ h) n) as [Hgt|Hle].
  - destruct f as [|f'].
    + replace (h + N.of_nat 1 - 1) with h in Hup by lia. lia.
    + assert (Hh' : h < 31).
      { destruct (N.lt_ge_cases h 31) as [Hc|Hc]; [exact Hc|].
        assert (h = 31) by lia. subst h. lia. }
      apply IH; try lia.
      * right. replace (h + 1 - 1) with h by lia. lia.
      * replace (h + 1 + N.of_nat (S f') - 1) with (h + N.of_nat (S (S f')) - 1) by lia. exact Hup.
  - f_equal. symmetry.
    destruct Hlow as [->|Hlow].
    + assert (n = 1) by (cbn in Hle; lia). subst n. reflexivity.
    + assert (Hh0 : 0 < h).
      { destruct (N.eq_0_gt_0_cases h) as [->|Hc]; [|exact Hc]. cbn in *. lia. }
      apply N.log2_up_unique; [exact Hh0|]. rewrite <- N.sub_1_r. lia.
Qed.

Lemma log2_up_le31 n : n <= 2 ^ 31 -> N.log2_up n <= 31.
Proof.
  intro Hn. destruct (N.le_gt_cases n 1) as [Hs|Hs].
  - rewrite N.log2_up_eqn0 by exact Hs. lia.
  - transitivity (N.log2_up (2 ^ 31)); [apply N.log2_up_le_mono; exact Hn|].
    rewrite N.log2_up_pow2 by lia. lia.
Qed.

Lemma height_loop_ok n : 1 <= n -> n <= 2 ^ 31 -> height_loop 34 n 0 = Some (N.log2_up n).
Proof.
  intros H1 Hn. apply height_loop_spec; try lia.
  change (0 + N.of_nat 34 - 1) with 33. transitivity (2 ^ 31); [exact Hn|]. apply pow2_le_mono. lia.
Qed.

Lemma le_pow_log2_up n : 1 <= n -> n <= 2 ^ N.log2_up n.
Proof.
  intro H1. destruct (N.eq_dec n 1) as [->|Hne]; [cbn; lia|].
  apply N.log2_up_spec. lia.
Qed.

Section Tree.
Variable A : Type.
Variable H : A -> A -> A.
Variable eqA : A -> A -> bool.
Hypothesis eqA_spec : forall a b, eqA a b = true <-> a = b.

Notation mtree := (mtree A).
Notation thash := (thash A H).
Notation tleaves := (tleaves A).
Notation tany := (tany A).
Notation tbits := (tbits A).
Notation thashes := (thashes A H).
Notation ttake := (ttake A).
Notation traverse := (traverse A H eqA).
Notation extract := (extract A H eqA).
Notation st := (st A).

(* the tree occupies position pos at height h of a block with n transactions *)
Fixpoint shaped (n : N) (h : nat) (pos : N) (t : mtree) : Prop :=
  match h, t with
  | O, Leaf _ _ => True
  | S h', Node2 l r =>
      (pos * 2 + 1 <? width n (N.of_nat h')) = true /\ shaped n h' (pos * 2) l /\ shaped n h' (pos * 2 + 1) r
  | S h', Node1 l =>
      (pos * 2 + 1 <? width n (N.of_nat h')) = false /\ shaped n h' (pos * 2) l
  | _, _ => False
  end.

(* no two sibling subtrees with the same hash (Go: FBad; CVE-2012-2459) *)
Fixpoint sib_ok (t : mtree) : Prop :=
  match t with
  | Leaf _ _ => True
  | Node2 l r => thash l <> thash r /\ sib_ok l /\ sib_ok r
  | Node1 l => sib_ok l
  end.

Lemma pow2_succ h : 2 ^ N.of_nat (S h) = 2 * 2 ^ N.of_nat h.
Proof. rewrite Nnat.Nat2N.inj_succ, N.pow_succ_r'. reflexivity. Qed.

(* ttake: total on non-empty input, produces the tree shape the positions dictate *)
Lemma ttake_shaped n : n <= 2 ^ 31 -> forall h l pos,
  (h <= 31)%nat -> l <> [] -> lenL l = n - pos * 2 ^ N.of_nat h ->
  exists t r, ttake h l = Some (t, r) /\ shaped n h pos t /\
              lenL r = n - (pos + 1) * 2 ^ N.of_nat h /\ tleaves t ++ r = l.
Proof.
  intro Hn. induction h as [|h IH]; intros l pos Hh Hne Hlen.
  - destruct l as [|[a m] r]; [congruence|]. exists (Leaf a m), r. cbn [ttake shaped tleaves app].
    repeat split. change (2 ^ N.of_nat 0) with 1 in *. unfold lenL in *. cbn [length] in Hlen. lia.
  - assert (E2 : 2 ^ N.of_nat (S h) = 2 * 2 ^ N.of_nat h) by apply pow2_succ.
    pose proof (pow2_pos (N.of_nat h)) as Hp.
    destruct (IH l (pos * 2)) as [tl [r1 [T1 [S1 [L1 A1]]]]]; [lia|exact Hne| |].
    { rewrite Hlen, E2. f_equal. lia. }
    cbn [ttake]. rewrite T1.
    assert (Hw : (pos * 2 + 1 <? width n (N.of_nat h)) = ((pos * 2 + 1) * 2 ^ N.of_nat h <? n))
      by (apply width_lt; [exact Hn|lia]).
    destruct r1 as [|x r1'].
    + exists (Node1 tl), []. cbn [shaped tleaves]. unfold lenL in L1. cbn [length] in L1.
      repeat split; try assumption.
      * rewrite Hw. apply N.ltb_ge. lia.
      * unfold lenL. cbn [length]. rewrite E2. lia.
    + destruct (IH (x :: r1') (pos * 2 + 1)) as [tr [r2 [T2 [S2 [L2 A2]]]]]; [lia|discriminate|exact L1|].
      rewrite T2. exists (Node2 tl tr), r2. cbn [shaped tleaves].
      repeat split; try assumption.
      * rewrite Hw. apply N.ltb_lt. unfold lenL in L1. cbn [length] in L1. lia.
      * rewrite L2, E2. f_equal. lia.
      * rewrite <- app_assoc, A2. exact A1.
Qed.

Lemma tree_of_total (l : list (A * bool)) : l <> [] -> lenL l <= 2 ^ 31 ->
  exists t, tree_of A l = Some t /\ shaped (lenL l) (tree_height (lenL l)) 0 t /\ tleaves t = l.
Proof.
  intros Hne Hn. unfold tree_of, tree_height.
  assert (H1 : 1 <= lenL l) by (destruct l; [congruence|unfold lenL; cbn [length]; lia]).
  pose proof (log2_up_le31 _ Hn) as Hlg.
  destruct (ttake_shaped (lenL l) Hn (N.to_nat (N.log2_up (lenL l))) l 0) as [t [r [T [S [L Ap]]]]];
    [lia|exact Hne|lia|].
  rewrite T. rewrite Nnat.N2Nat.id in L.
  pose proof (le_pow_log2_up _ H1) as Hle.
  assert (r = []) by (destruct r; [reflexivity|unfold lenL in *; cbn [length] in L; lia]). subst r.
  exists t. rewrite app_nil_r in Ap. auto.
Qed.

(* ---------- completeness: the extractor accepts Bitcoin's partial tree ---------- *)
Lemma tany_false_matched t : tany t = false -> matched A (tleaves t) = [].
Proof.
  unfold matched. induction t as [a m|l IHl r IHr|l IHl]; cbn [tany tleaves]; intro E.
  - subst m. reflexivity.
  - apply orb_false_iff in E as [E1 E2]. rewrite filter_app, map_app, IHl, IHr by assumption. reflexivity.
  - auto.
Qed.

Lemma matched_app (l1 l2 : list (A * bool)) : matched A (l1 ++ l2) = matched A l1 ++ matched A l2.
Proof. unfold matched. rewrite filter_app, map_app. reflexivity. Qed.

Lemma traverse_tree n : forall h t pos rb rh acc bad,
  shaped n h pos t -> sib_ok t ->
  traverse n h pos (mk_st (tbits t ++ rb) (thashes t ++ rh) acc bad)
  = Some (thash t, mk_st rb rh (acc ++ matched A (tleaves t)) bad).
Proof.
  induction h as [|h IH]; intros t pos rb rh acc bad Hs Hok.
  - destruct t as [a m| |]; try contradiction.
    cbn [tbits thashes tany thash tleaves]. destruct m; cbn; [reflexivity|rewrite app_nil_r; reflexivity].
  - destruct t as [a m|l r|l]; try contradiction.
    + (* Node2 *)
      destruct Hs as [Hw [Sl Sr]]. destruct Hok as [Hne [Okl Okr]].
      destruct (tany (Node2 l r)) eqn:Ea.
      * cbn [tbits thashes]. rewrite Ea. cbn [app traverse s_bits s_hashes s_match s_bad negb].
        rewrite <- !app_assoc. rewrite (IH l (pos * 2)) by assumption.
        rewrite Hw. rewrite (IH r (pos * 2 + 1)) by assumption.
        cbn [s_bits s_hashes s_match s_bad thash tleaves].
        assert (En : eqA (thash l) (thash r) = false).
        { destruct (eqA (thash l) (thash r)) eqn:E; [apply eqA_spec in E; contradiction|reflexivity]. }
        rewrite En, orb_false_r, matched_app, app_assoc. reflexivity.
      * cbn [tbits thashes]. rewrite Ea. cbn [app traverse s_bits s_hashes s_match s_bad negb].
        rewrite (tany_false_matched _ Ea), app_nil_r. reflexivity.
    + (* Node1 *)
      destruct Hs as [Hw Sl]. cbn [sib_ok] in Hok.
      destruct (tany (Node1 l)) eqn:Ea.
      * cbn [tbits thashes]. rewrite Ea. cbn [app traverse s_bits s_hashes s_match s_bad negb].
        rewrite (IH l (pos * 2)) by assumption. rewrite Hw. reflexivity.
      * cbn [tbits thashes]. rewrite Ea. cbn [app traverse s_bits s_hashes s_match s_bad negb].
        rewrite (tany_false_matched _ Ea), app_nil_r. reflexivity.
Qed.

Lemma thashes_le_leaves t : (length (thashes t) <= length (tleaves t))%nat.
Proof.
  induction t as [a m|l IHl r IHr|l IHl]; cbn [thashes tleaves tany].
  - destruct m; cbn; lia.
  - destruct (tany l || tany r); [rewrite !app_length; lia|]. cbn [length]. rewrite app_length.
    assert (0 < length (tleaves l))%nat by (clear; induction l; cbn [tleaves]; [cbn; lia|rewrite app_length; lia|assumption]). lia.
  - destruct (tany l); [exact IHl|]. cbn [length].
    assert (0 < length (tleaves l))%nat by (clear; induction l; cbn [tleaves]; [cbn; lia|rewrite app_length; lia|assumption]). lia.
Qed.

Lemma thashes_le_bits t : (length (thashes t) <= length (tbits t))%nat.
Proof.
  induction t as [a m|l IHl r IHr|l IHl]; cbn [thashes tbits tany].
  - destruct m; cbn; lia.
  - destruct (tany l || tany r); [cbn [length]; rewrite !app_length; lia|cbn; lia].
  - destruct (tany l); [cbn [length]; lia|cbn; lia].
Qed.

Lemma pad8_length bits : exists k, (k < 8)%nat /\ pad8 bits = bits ++ repeat false k /\ ((length bits + k) mod 8 = 0)%nat.
Proof.
  unfold pad8. exists ((8 - length bits mod 8) mod 8)%nat. split; [|split; [reflexivity|]].
  - apply Nat.mod_upper_bound. lia.
  - pose proof (Nat.div_mod (length bits) 8). pose proof (Nat.mod_upper_bound (length bits) 8).
    destruct (Nat.eq_dec (length bits mod 8) 0) as [E|E].
    + rewrite E. cbn. rewrite Nat.add_0_r. exact E.
    + rewrite (Nat.mod_small (8 - length bits mod 8)) by lia.
      replace (length bits + (8 - length bits mod 8))%nat with (8 * (length bits / 8) + 8)%nat by lia.
      replace (8 * (length bits / 8) + 8)%nat with ((1 + length bits / 8) * 8)%nat by lia.
      apply Nat.mod_mul. lia.
Qed.

Lemma max_txs_small : max_txs <= 2 ^ 31.
Proof. vm_compute. discriminate. Qed.

(* THE completeness theorem, on trees *)
Theorem extract_tree (l : list (A * bool)) t :
  l <> [] -> lenL l <= max_txs -> tree_of A l = Some t -> sib_ok t ->
  extract (lenL l) (thashes t) (pad8 (tbits t)) = Some (thash t, matched A l).
Proof.
  intros Hne Hmax Ht Hok. pose proof max_txs_small as Hms.
  destruct (tree_of_total l Hne) as [t' [Ht' [Hs Hl]]]; [lia|].
  rewrite Ht in Ht'. inversion Ht'; subst t'. clear Ht'.
  assert (H1 : 1 <= lenL l) by (destruct l; [congruence|unfold lenL; cbn [length]; lia]).
  unfold extract.
  destruct (N.eqb_spec (lenL l) 0) as [E|_]; [lia|].
  destruct (N.ltb_spec max_txs (lenL l)) as [E|_]; [lia|].
  pose proof (thashes_le_leaves t) as Hhl. rewrite Hl in Hhl.
  destruct (N.ltb_spec (lenL l) (lenL (thashes t))) as [E|_]; [unfold lenL in *; lia|].
  destruct (pad8_length (tbits t)) as [k [Hk [Ep Hm]]]. rewrite Ep.
  pose proof (thashes_le_bits t) as Hhb.
  destruct (N.ltb_spec (lenL (tbits t ++ repeat false k)) (lenL (thashes t))) as [E|_];
    [unfold lenL in *; rewrite app_length in E; lia|].
  rewrite height_loop_ok by lia.
  pose proof (traverse_tree (lenL l) (tree_height (lenL l)) t 0 (repeat false k) [] [] false Hs Hok) as Tr.
  rewrite app_nil_r in Tr. unfold tree_height in Tr. rewrite Tr.
  cbn [s_bad s_bits s_hashes s_match length Nat.eqb negb app]. rewrite Hl.
  unfold lenL. rewrite app_length, repeat_length.
  set (b := length (tbits t)) in *.
  destruct (N.eqb_spec ((N.of_nat (b + k) - N.of_nat k + 7) / 8) ((N.of_nat (b + k) + 7) / 8)) as [_|Hneq];
    [reflexivity|].
  exfalso. apply Hneq. clear Hneq.
  pose proof (Nat.div_mod (b + k) 8). lia.
Qed.


(* ---------- under an injective node hash ---------- *)
Hypothesis H_inj : forall a b c d, H a b = H c d -> a = c /\ b = d.

Inductive subseq : list A -> list A -> Prop :=
| sub_nil : subseq [] []
| sub_skip x l1 l2 : subseq l1 l2 -> subseq l1 (x :: l2)
| sub_take x l1 l2 : subseq l1 l2 -> subseq (x :: l1) (x :: l2).

Lemma subseq_nil_l l : subseq [] l.
Proof. induction l; constructor; assumption. Qed.

Lemma subseq_app a b c d : subseq a b -> subseq c d -> subseq (a ++ c) (b ++ d).
Proof. intros Hab Hcd. induction Hab; cbn [app]; try constructor; assumption. Qed.

Definition set_bh (s : st) (bits : list bool) (hs : list A) : st := mk_st bits hs (s_match s) (s_bad s).

(* soundness: an accepted walk whose node hash is the real node's hash reports only leaves
   of the real subtree, in order *)
Lemma traverse_sound n : forall h pos (s s' : st) x t,
  traverse n h pos s = Some (x, s') -> shaped n h pos t -> x = thash t ->
  exists ms, s_match s' = s_match s ++ ms /\ subseq ms (map fst (tleaves t)).
Proof.
  induction h as [|h IH]; intros pos s s' x t Tr Hs Ex.
  - destruct t as [a m| |]; try contradiction. cbn [traverse] in Tr.
    destruct (s_bits s) as [|b bits']; [discriminate|].
    destruct (s_hashes s) as [|y hs']; [discriminate|]. inversion Tr; subst. cbn [s_match thash tleaves map fst].
    destruct b.
    + exists [a]. split; [reflexivity|]. apply sub_take, sub_nil.
    + exists []. split; [rewrite app_nil_r; reflexivity|apply subseq_nil_l].
  - cbn [traverse] in Tr. destruct (s_bits s) as [|b bits']; [discriminate|].
    destruct b; cbn [negb] in Tr.
    2:{ destruct (s_hashes s) as [|y hs']; [discriminate|]. inversion Tr; subst. cbn [s_match].
        exists []. split; [rewrite app_nil_r; reflexivity|apply subseq_nil_l]. }
    destruct (traverse n h (pos * 2) (mk_st bits' (s_hashes s) (s_match s) (s_bad s))) as [[xl s1]|] eqn:T1; [|discriminate].
    destruct t as [a m|l r|l]; try contradiction.
    + destruct Hs as [Hw [Sl Sr]]. rewrite Hw in Tr.
      destruct (traverse n h (pos * 2 + 1) s1) as [[xr s2]|] eqn:T2; [|discriminate].
      injection Tr as Ex1 Es. subst s'. rewrite <- Ex1 in Ex. cbn [thash] in Ex. apply H_inj in Ex as [E1 E2].
      destruct (IH _ _ _ _ _ T1 Sl E1) as [m1 [M1 Q1]]. destruct (IH _ _ _ _ _ T2 Sr E2) as [m2 [M2 Q2]].
      cbn [s_match] in *. exists (m1 ++ m2). split.
      * rewrite M2, M1, app_assoc. reflexivity.
      * cbn [tleaves]. rewrite map_app. apply subseq_app; assumption.
    + destruct Hs as [Hw Sl]. rewrite Hw in Tr. injection Tr as Ex1 Es. subst s'. rewrite <- Ex1 in Ex.
      cbn [thash] in Ex. apply H_inj in Ex as [E1 _].
      destruct (IH _ _ _ _ _ T1 Sl E1) as [m1 [M1 Q1]]. cbn [s_match] in *. exists m1. split; assumption.
Qed.

Theorem matches_are_leaves n hashes bits root ms (l : list (A * bool)) t :
  extract n hashes bits = Some (root, ms) ->
  lenL l = n -> tree_of A l = Some t -> root = thash t ->
  subseq ms (map fst l).
Proof.
  intros Ex Hn Ht Er. unfold extract in Ex. pose proof max_txs_small as Hms.
  destruct (N.eqb_spec n 0) as [|N0]; [discriminate|].
  destruct (N.ltb_spec max_txs n) as [|Nm]; [discriminate|].
  destruct (n <? lenL hashes); [discriminate|]. destruct (lenL bits <? lenL hashes); [discriminate|].
  assert (Hne : l <> []) by (intro; subst l; unfold lenL in Hn; cbn in Hn; lia).
  destruct (tree_of_total l Hne) as [t' [Ht' [Hs Hl]]]; [lia|].
  rewrite Ht in Ht'. inversion Ht'; subst t'. clear Ht'. rewrite Hn in Hs.
  rewrite height_loop_ok in Ex by lia.
  destruct (traverse n (N.to_nat (N.log2_up n)) 0 (mk_st bits hashes [] false)) as [[x s']|] eqn:Tr; [|discriminate].
  destruct (s_bad s'); [discriminate|].
  destruct (negb _); [discriminate|]. destruct (negb _); [discriminate|]. inversion Ex; subst x ms.
  destruct (traverse_sound n _ _ _ _ _ t Tr Hs Er) as [m [M Q]]. cbn [s_match app] in M.
  rewrite M, <- Hl. exact Q.
Qed.

(* with the flag bits fixed, the root determines every hash that was consumed *)
Lemma traverse_inj n : forall h pos (s s' r r' : st) x,
  s_bits s = s_bits s' ->
  traverse n h pos s = Some (x, r) -> traverse n h pos s' = Some (x, r') ->
  s_bits r = s_bits r' /\
  exists c, s_hashes s = c ++ s_hashes r /\ s_hashes s' = c ++ s_hashes r'.
Proof.
  induction h as [|h IH]; intros pos s s' r r' x Eb T1 T2.
  - cbn [traverse] in T1, T2. rewrite <- Eb in T2. destruct (s_bits s) as [|b bits']; [discriminate|].
    destruct (s_hashes s) as [|y hs]; [discriminate|]. destruct (s_hashes s') as [|y' hs']; [discriminate|].
    inversion T1; inversion T2; subst. cbn [s_bits s_hashes]. split; [reflexivity|]. exists [x]. split; reflexivity.
  - cbn [traverse] in T1, T2. rewrite <- Eb in T2. destruct (s_bits s) as [|b bits']; [discriminate|].
    destruct b; cbn [negb] in T1, T2.
    2:{ destruct (s_hashes s) as [|y hs]; [discriminate|]. destruct (s_hashes s') as [|y' hs']; [discriminate|].
        inversion T1; inversion T2; subst. cbn [s_bits s_hashes]. split; [reflexivity|]. exists [x]. split; reflexivity. }
    destruct (traverse n h (pos * 2) (mk_st bits' (s_hashes s) (s_match s) (s_bad s))) as [[l1 a1]|] eqn:L1; [|discriminate].
    destruct (traverse n h (pos * 2) (mk_st bits' (s_hashes s') (s_match s') (s_bad s'))) as [[l2 a2]|] eqn:L2; [|discriminate].
    destruct (pos * 2 + 1 <? width n (N.of_nat h)).
    + destruct (traverse n h (pos * 2 + 1) a1) as [[r1 b1]|] eqn:R1; [|discriminate].
      destruct (traverse n h (pos * 2 + 1) a2) as [[r2 b2]|] eqn:R2; [|discriminate].
      injection T1 as Ex1 Er1. injection T2 as Ex2 Er2. subst r r'. rewrite <- Ex1 in Ex2.
      apply H_inj in Ex2 as [El Er]. subst l2 r2.
      destruct ((fun E => IH _ _ _ _ _ _ E L1 L2) eq_refl) as [Eb1 [c1 [C1 C1']]]. cbn [s_hashes] in C1, C1'.
      destruct (IH _ _ _ _ _ _ Eb1 R1 R2) as [Eb2 [c2 [C2 C2']]].
      cbn [s_bits s_hashes]. split; [exact Eb2|]. exists (c1 ++ c2).
      rewrite C1, C1', C2, C2', <- !app_assoc. split; reflexivity.
    + injection T1 as Ex1 Er1. injection T2 as Ex2 Er2. subst r r'. rewrite <- Ex1 in Ex2.
      apply H_inj in Ex2 as [El _]. subst l2.
      destruct ((fun E => IH _ _ _ _ _ _ E L1 L2) eq_refl) as [Eb1 [c1 [C1 C1']]]. cbn [s_hashes] in C1, C1'.
      split; [exact Eb1|]. exists c1. split; assumption.
Qed.

(* altering any hash (keeping count and flag bits): rejected, or a different root *)
Theorem altered_hash_changes_root_or_rejects n hs1 hs2 bits root m1 m2 :
  extract n hs1 bits = Some (root, m1) -> extract n hs2 bits = Some (root, m2) -> hs1 = hs2.
Proof.
  unfold extract. intros E1 E2.
  destruct (n =? 0); [discriminate|]. destruct (max_txs <? n); [discriminate|].
  destruct (n <? lenL hs1); [discriminate|]. destruct (n <? lenL hs2); [discriminate|].
  destruct (lenL bits <? lenL hs1); [discriminate|]. destruct (lenL bits <? lenL hs2); [discriminate|].
  destruct (height_loop 34 n 0) as [h|]; [|discriminate].
  destruct (traverse n (N.to_nat h) 0 (mk_st bits hs1 [] false)) as [[x1 s1]|] eqn:T1; [|discriminate].
  destruct (traverse n (N.to_nat h) 0 (mk_st bits hs2 [] false)) as [[x2 s2]|] eqn:T2; [|discriminate].
  destruct (s_bad s1); [discriminate|]. destruct (s_bad s2); [discriminate|].
  destruct (negb ((lenL bits - lenL (s_bits s1) + 7) / 8 =? _)); [discriminate|].
  destruct (negb ((lenL bits - lenL (s_bits s2) + 7) / 8 =? _)); [discriminate|].
  destruct (s_hashes s1) as [|? ?] eqn:Z1; [|discriminate]. destruct (s_hashes s2) as [|? ?] eqn:Z2; [|discriminate].
  cbn in E1, E2. inversion E1; inversion E2; subst.
  destruct ((fun E => traverse_inj n _ _ _ _ _ _ _ E T1 T2) eq_refl) as [_ [c [C1 C2]]].
  cbn [s_hashes] in C1, C2. rewrite Z1 in C1. rewrite Z2 in C2. congruence.
Qed.

End Tree.

(* ---------- surplus hashes / flag bytes ---------- *)
Section Surplus.
Variable A : Type.
Variable H : A -> A -> A.
Variable eqA : A -> A -> bool.
Notation traverse := (traverse A H eqA).
Notation extract := (extract A H eqA).

(* the walk only looks at a prefix of the bit and hash arrays *)
Lemma traverse_frame n (eb : list bool) (eh : list A) : forall h pos (s s' : st A) x,
  traverse n h pos s = Some (x, s') ->
  traverse n h pos (mk_st (s_bits s ++ eb) (s_hashes s ++ eh) (s_match s) (s_bad s))
  = Some (x, mk_st (s_bits s' ++ eb) (s_hashes s' ++ eh) (s_match s') (s_bad s')).
Proof.
  induction h as [|h IH]; intros pos s s' x Tr.
  - cbn [traverse] in *. cbn [s_bits s_hashes s_match s_bad].
    destruct (s_bits s) as [|b bits']; [discriminate|]. destruct (s_hashes s) as [|y hs']; [discriminate|].
    injection Tr as Ex Es. subst x s'. reflexivity.
  - cbn [traverse] in *. cbn [s_bits s_hashes s_match s_bad].
    destruct (s_bits s) as [|b bits']; [discriminate|]. cbn [app].
    destruct b; cbn [negb] in *.
    2:{ destruct (s_hashes s) as [|y hs']; [discriminate|]. injection Tr as Ex Es. subst x s'. reflexivity. }
    destruct (traverse n h (pos * 2) (mk_st bits' (s_hashes s) (s_match s) (s_bad s))) as [[l s1]|] eqn:L1; [|discriminate].
    apply IH in L1. cbn [s_bits s_hashes s_match s_bad] in L1. rewrite L1.
    destruct (pos * 2 + 1 <? width n (N.of_nat h)).
    + destruct (traverse n h (pos * 2 + 1) s1) as [[r s2]|] eqn:R1; [|discriminate].
      apply IH in R1. rewrite R1. injection Tr as Ex Es. subst x s'. reflexivity.
    + injection Tr as Ex Es. subst x s'. reflexivity.
Qed.

Theorem surplus_hashes_rejected n hs bits res eh :
  extract n hs bits = Some res -> eh <> [] -> extract n (hs ++ eh) bits = None.
Proof.
  unfold extract. intros E Hne.
  destruct (n =? 0); [discriminate|]. destruct (max_txs <? n); [discriminate|].
  destruct (n <? lenL hs); [discriminate|]. destruct (lenL bits <? lenL hs); [discriminate|].
  destruct (n <? lenL (hs ++ eh)); [reflexivity|]. destruct (lenL bits <? lenL (hs ++ eh)); [reflexivity|].
  destruct (height_loop 34 n 0) as [h|]; [|discriminate].
  destruct (traverse n (N.to_nat h) 0 (mk_st bits hs [] false)) as [[x s']|] eqn:Tr; [|discriminate].
  apply (traverse_frame n [] eh) in Tr. cbn [s_bits s_hashes s_match s_bad] in Tr.
  rewrite !app_nil_r in Tr. rewrite Tr. cbn [s_bits s_hashes s_match s_bad].
  destruct (s_bad s'); [discriminate|].
  destruct (negb (_ =? _)); [discriminate|].
  destruct (s_hashes s') as [|y ys]; [|discriminate].
  destruct eh as [|e eh']; [congruence|]. reflexivity.
Qed.

(* one or more surplus flag bytes (8 bits each) *)
Theorem surplus_bits_rejected n hs bits res eb :
  extract n hs bits = Some res -> (8 <= length eb)%nat -> extract n hs (bits ++ eb) = None.
Proof.
  unfold extract. intros E Hlen.
  destruct (n =? 0); [discriminate|]. destruct (max_txs <? n); [discriminate|].
  destruct (n <? lenL hs); [discriminate|]. destruct (lenL bits <? lenL hs); [discriminate|].
  destruct (lenL (bits ++ eb) <? lenL hs); [reflexivity|].
  destruct (height_loop 34 n 0) as [h|]; [|discriminate].
  destruct (traverse n (N.to_nat h) 0 (mk_st bits hs [] false)) as [[x s']|] eqn:Tr; [|discriminate].
  apply (traverse_frame n eb []) in Tr. cbn [s_bits s_hashes s_match s_bad] in Tr.
  rewrite !app_nil_r in Tr. rewrite Tr. cbn [s_bits s_hashes s_match s_bad].
  destruct (s_bad s'); [reflexivity|].
  destruct (N.eqb_spec ((lenL bits - lenL (s_bits s') + 7) / 8) ((lenL bits + 7) / 8)) as [Eq|]; [|discriminate].
  unfold lenL in *. rewrite !app_length.
  destruct (N.eqb_spec ((N.of_nat (length bits + length eb) - N.of_nat (length (s_bits s') + length eb) + 7) / 8)
                       ((N.of_nat (length bits + length eb) + 7) / 8)) as [Eq2|]; [|reflexivity].
  exfalso.
  replace (N.of_nat (length bits + length eb) - N.of_nat (length (s_bits s') + length eb))
    with (N.of_nat (length bits) - N.of_nat (length (s_bits s'))) in Eq2 by lia.
  rewrite Eq in Eq2. lia.
Qed.

Theorem count_out_of_range_rejected n hs bits : n = 0 \/ max_txs < n -> extract n hs bits = None.
Proof.
  intros [->|Hn]; unfold extract; [reflexivity|].
  destruct (n =? 0); [reflexivity|]. destruct (N.ltb_spec max_txs n); [reflexivity|lia].
Qed.

End Surplus.

(* ---------- distinct transaction ids and an injective hash give distinct siblings ---------- *)
Section NoDupSiblings.
Variable A : Type.
Variable H : A -> A -> A.
Hypothesis H_inj : forall a b c d, H a b = H c d -> a = c /\ b = d.
Notation thash := (thash A H).

Fixpoint hgt (h : nat) (t : mtree A) : Prop :=
  match h, t with
  | O, Leaf _ _ => True
  | S h', Node2 l r => hgt h' l /\ hgt h' r
  | S h', Node1 l => hgt h' l
  | _, _ => False
  end.

Fixpoint leftmost (t : mtree A) : A :=
  match t with Leaf a _ => a | Node2 l _ => leftmost l | Node1 l => leftmost l end.

Lemma shaped_hgt n : forall h pos t, shaped A n h pos t -> hgt h t.
Proof.
  induction h as [|h IH]; intros pos t Hs; destruct t as [a m|l r|l]; cbn [shaped hgt] in *; try contradiction; auto.
  - destruct Hs as [_ [Sl Sr]]. split; eapply IH; eassumption.
  - destruct Hs as [_ Sl]. eapply IH; eassumption.
Qed.

Lemma thash_leftmost : forall h t1 t2, hgt h t1 -> hgt h t2 -> thash t1 = thash t2 -> leftmost t1 = leftmost t2.
Proof.
  induction h as [|h IH]; intros t1 t2 H1 H2 E;
    destruct t1 as [a1 m1|l1 r1|l1]; destruct t2 as [a2 m2|l2 r2|l2]; cbn [hgt] in *; try contradiction;
    cbn [thash leftmost] in *; [exact E| | | |]; apply H_inj in E as [El _]; apply IH; tauto.
Qed.

Lemma leftmost_in t : In (leftmost t) (map fst (tleaves A t)).
Proof.
  induction t as [a m|l IHl r IHr|l IHl]; cbn [leftmost tleaves].
  - left. reflexivity.
  - rewrite map_app. apply in_or_app. left. exact IHl.
  - exact IHl.
Qed.

Lemma nodup_app_disjoint (l1 l2 : list A) x : NoDup (l1 ++ l2) -> In x l1 -> In x l2 -> False.
Proof.
  induction l1 as [|a l1 IH]; intros Hnd I1 I2; [contradiction|].
  cbn [app] in Hnd. apply NoDup_cons_iff in Hnd as [Hni Hnd]. destruct I1 as [->|I1].
  - apply Hni. apply in_or_app. right. exact I2.
  - exact (IH Hnd I1 I2).
Qed.

Lemma nodup_app_parts (l1 l2 : list A) : NoDup (l1 ++ l2) -> NoDup l1 /\ NoDup l2.
Proof.
  induction l1 as [|a l1 IH]; intro Hnd; [split; [constructor|exact Hnd]|].
  cbn [app] in Hnd. apply NoDup_cons_iff in Hnd as [Hni Hnd]. destruct (IH Hnd) as [N1 N2].
  split; [|exact N2]. constructor; [|exact N1]. intro Hin. apply Hni. apply in_or_app. left. exact Hin.
Qed.

Lemma nodup_sib_ok : forall h t, hgt h t -> NoDup (map fst (tleaves A t)) -> sib_ok A H t.
Proof.
  induction h as [|h IH]; intros t Hh Hnd; destruct t as [a m|l r|l]; cbn [hgt sib_ok tleaves] in *;
    try contradiction; auto.
  destruct Hh as [Hl Hr]. rewrite map_app in Hnd. split; [|split].
  - intro E. apply (thash_leftmost h l r Hl Hr) in E.
    apply (nodup_app_disjoint _ _ (leftmost l) Hnd); [apply leftmost_in|rewrite E; apply leftmost_in].
  - apply IH; [exact Hl|]. apply (nodup_app_parts _ _ Hnd).
  - apply IH; [exact Hr|]. apply (nodup_app_parts _ _ Hnd).
Qed.

End NoDupSiblings.

(* ---------- the headline statement ---------- *)
Section Headline.
Variable A : Type.
Variable H : A -> A -> A.
Variable eqA : A -> A -> bool.
Hypothesis eqA_spec : forall a b, eqA a b = true <-> a = b.

(* for any node hash, if no two sibling subtrees collide *)
Theorem extract_build_sib (l : list (A * bool)) t bits hashes :
  l <> [] -> lenL l <= max_txs -> tree_of A l = Some t -> sib_ok A H t ->
  build A H l = Some (bits, hashes) ->
  extract A H eqA (lenL l) hashes bits = Some (thash A H t, matched A l).
Proof.
  intros Hne Hmax Ht Hok Hb. unfold build in Hb. rewrite Ht in Hb. injection Hb as <- <-.
  apply extract_tree; assumption.
Qed.

(* collision-free hash, distinct transaction ids: every count 1..limit, every match subset *)
Hypothesis H_inj : forall a b c d, H a b = H c d -> a = c /\ b = d.

Theorem extract_build (l : list (A * bool)) :
  l <> [] -> lenL l <= max_txs -> NoDup (map fst l) ->
  exists t bits hashes,
    tree_of A l = Some t /\ build A H l = Some (bits, hashes) /\
    extract A H eqA (lenL l) hashes bits = Some (thash A H t, matched A l).
Proof.
  intros Hne Hmax Hnd. pose proof max_txs_small as Hms.
  destruct (tree_of_total A H eqA eqA_spec l Hne) as [t [Ht [Hs Hl]]]; [lia|].
  exists t, (pad8 (tbits A t)), (thashes A H t). split; [exact Ht|]. split; [unfold build; rewrite Ht; reflexivity|].
  apply extract_tree; try assumption.
  apply (nodup_sib_ok A H H_inj (tree_height (lenL l))).
  - eapply shaped_hgt. exact Hs.
  - rewrite Hl. exact Hnd.
Qed.

End Headline.

(* ---------- the tree hash is the block's merkle root computed level by level ---------- *)
Section Levels.
Variable A : Type.
Variable H : A -> A -> A.
Notation pair_up := (pair_up A H).
Notation root_levels := (root_levels A H).

Fixpoint htake (h : nat) (l : list A) : option (A * list A) :=
  match h with
  | O => match l with a :: r => Some (a, r) | [] => None end
  | S h' =>
      match htake h' l with
      | None => None
      | Some (x, r) =>
          match r with
          | [] => Some (H x x, [])
          | _ :: _ => match htake h' r with None => None | Some (y, r') => Some (H x y, r') end
          end
      end
  end.

Lemma htake_S h l : htake (S h) l =
  match htake h l with
  | None => None
  | Some (x, r) =>
      match r with
      | [] => Some (H x x, [])
      | _ :: _ => match htake h r with None => None | Some (y, r') => Some (H x y, r') end
      end
  end.
Proof. reflexivity. Qed.

Lemma ttake_htake : forall h l t r,
  ttake A h l = Some (t, r) -> htake h (map fst l) = Some (thash A H t, map fst r).
Proof.
  induction h as [|h IH]; intros l t r T.
  - cbn [ttake] in T. destruct l as [|[a m] l']; [discriminate|]. injection T as <- <-. reflexivity.
  - cbn [ttake] in T. rewrite htake_S.
    destruct (ttake A h l) as [[tl r1]|] eqn:T1; [|discriminate]. rewrite (IH _ _ _ T1).
    destruct r1 as [|y r1'].
    + injection T as <- <-. reflexivity.
    + cbn [map]. change (fst y :: map fst r1') with (map fst (y :: r1')).
      destruct (ttake A h (y :: r1')) as [[tr r2]|] eqn:T2; [|discriminate]. rewrite (IH _ _ _ T2).
      injection T as <- <-. reflexivity.
Qed.

Lemma pair_up_nil l : pair_up l = [] -> l = [].
Proof. destruct l as [|a [|b r]]; cbn; congruence. Qed.

Lemma htake_pair_up : forall h l,
  htake h (pair_up l) = match htake (S h) l with Some (x, r) => Some (x, pair_up r) | None => None end.
Proof.
  induction h as [|h IH]; intro l.
  - destruct l as [|a [|b r]]; reflexivity.
  - rewrite (htake_S h (pair_up l)), IH, (htake_S (S h) l).
    destruct (htake (S h) l) as [[x r]|]; [|reflexivity].
    destruct r as [|y r']; [reflexivity|].
    destruct (pair_up (y :: r')) as [|z zs] eqn:Ep; [apply pair_up_nil in Ep; discriminate|].
    rewrite <- Ep, IH. destruct (htake (S h) (y :: r')) as [[x2 r2]|]; reflexivity.
Qed.

Lemma pair_up_len : forall l, (length l <= 2 * length (pair_up l))%nat.
Proof.
  assert (P : forall l, (length l <= 2 * length (pair_up l))%nat /\
                        forall a, (length (a :: l) <= 2 * length (pair_up (a :: l)))%nat).
  { induction l as [|b l [IH1 IH2]].
    - split; [cbn; lia | intro a; cbn; lia].
    - split; [apply IH2 | intro a; cbn [PartialMerkle.pair_up length]; lia]. }
  intro l. apply P.
Qed.

Lemma root_levels_htake : forall h l x fuel,
  htake h l = Some (x, []) -> (h = 0%nat \/ 2 ^ (N.of_nat h - 1) < lenL l) -> (h <= fuel)%nat ->
  root_levels fuel l = Some x.
Proof.
  induction h as [|h IH]; intros l x fuel T Hlow Hf.
  - cbn [htake] in T. destruct l as [|a r]; [discriminate|]. injection T as <- ->. destruct fuel; reflexivity.
  - destruct Hlow as [|Hlow]; [discriminate|].
    replace (N.of_nat (S h) - 1) with (N.of_nat h) in Hlow by lia.
    pose proof (pow2_pos (N.of_nat h)) as Hp.
    destruct l as [|a [|b r]]; try (unfold lenL in Hlow; cbn [length] in Hlow; lia).
    destruct fuel as [|f]; [lia|]. cbn [root_levels PartialMerkle.root_levels].
    change (H a b :: pair_up r) with (pair_up (a :: b :: r)).
    apply IH; [|  |lia].
    + rewrite htake_pair_up, T. reflexivity.
    + destruct h as [|h']; [left; reflexivity|right].
      replace (N.of_nat (S h') - 1) with (N.of_nat h') by lia.
      pose proof (pair_up_len (a :: b :: r)) as Hl. rewrite pow2_succ in Hlow. unfold lenL in *. lia.
Qed.

Theorem merkle_root_is_tree_hash (l : list (A * bool)) t :
  l <> [] -> tree_of A l = Some t -> merkle_root A H (map fst l) = Some (thash A H t).
Proof.
  intros Hne Ht. unfold tree_of in Ht.
  destruct (ttake A (tree_height (lenL l)) l) as [[t' r]|] eqn:T; [|discriminate].
  destruct r; [|discriminate]. injection Ht as ->.
  apply ttake_htake in T. cbn [map] in T. unfold merkle_root.
  assert (H1 : 1 <= lenL l) by (destruct l; [congruence|unfold lenL; cbn [length]; lia]).
  assert (Hlen : lenL (map fst l) = lenL l) by (unfold lenL; rewrite map_length; reflexivity).
  unfold tree_height in *.
  destruct (N.eq_dec (lenL l) 1) as [E1|E1].
  - rewrite E1 in T. change (N.to_nat (N.log2_up 1)) with 0%nat in T.
    eapply root_levels_htake; [exact T|left; reflexivity|lia].
  - pose proof (N.log2_up_spec (lenL l) ltac:(lia)) as [Lo Hi].
    assert (Hpos : 0 < N.log2_up (lenL l)) by (apply N.log2_up_pos; lia).
    eapply root_levels_htake; [exact T| |].
    + right. rewrite Nnat.N2Nat.id, Hlen, N.sub_1_r. exact Lo.
    + rewrite map_length. pose proof (N.pow_gt_lin_r 2 (N.pred (N.log2_up (lenL l))) ltac:(lia)) as Hg.
      unfold lenL in *. lia.
Qed.

End Levels.

(* ---------- the hypotheses are satisfiable; clauses that do not hold ---------- *)
(* free term algebra: an injective node hash *)
Inductive term := T (n : N) | Hn (l r : term).
Fixpoint term_eqb (a b : term) : bool :=
  match a, b with
  | T x, T y => x =? y
  | Hn a1 a2, Hn b1 b2 => term_eqb a1 b1 && term_eqb a2 b2
  | _, _ => false
  end.
Lemma term_eqb_spec a b : term_eqb a b = true <-> a = b.
Proof.
  revert b. induction a as [x|a1 IH1 a2 IH2]; intros [y|b1 b2]; cbn [term_eqb]; split; intro E; try discriminate.
  - apply N.eqb_eq in E. congruence.
  - injection E as ->. apply N.eqb_refl.
  - apply andb_true_iff in E as [E1 E2]. apply IH1 in E1. apply IH2 in E2. congruence.
  - injection E as -> ->. apply andb_true_iff. split; [apply IH1|apply IH2]; reflexivity.
Qed.
Lemma Hn_inj a b c d : Hn a b = Hn c d -> a = c /\ b = d.
Proof. intro E. injection E as -> ->. split; reflexivity. Qed.

Definition ex_block : list (term * bool) := [(T 1, false); (T 2, true); (T 3, false); (T 4, true); (T 5, false)].

Example extract_build_example :
  ex_block <> [] /\ lenL ex_block <= max_txs /\ NoDup (map fst ex_block) /\
  exists bits hashes, build term Hn ex_block = Some (bits, hashes) /\
    extract term Hn term_eqb 5 hashes bits =
      Some (Hn (Hn (Hn (T 1) (T 2)) (Hn (T 3) (T 4))) (Hn (Hn (T 5) (T 5)) (Hn (T 5) (T 5))), [T 2; T 4]) /\
    merkle_root term Hn (map fst ex_block) =
      Some (Hn (Hn (Hn (T 1) (T 2)) (Hn (T 3) (T 4))) (Hn (Hn (T 5) (T 5)) (Hn (T 5) (T 5)))).
Proof.
  split; [discriminate|]. split; [vm_compute; discriminate|]. split.
  - cbn. repeat constructor; cbn; intuition discriminate.
  - eexists. eexists. split; [vm_compute; reflexivity|]. split; vm_compute; reflexivity.
Qed.

(* equal siblings are refused (FBad) even though the tree hashes to the block root *)
Example equal_siblings_rejected :
  exists bits hashes, build term Hn [(T 1, true); (T 1, false)] = Some (bits, hashes) /\
    extract term Hn term_eqb 2 hashes bits = None.
Proof. eexists. eexists. split; vm_compute; reflexivity. Qed.

(* "an altered transaction count is rejected or yields a different root" does NOT hold:
   the count is not committed to by the root; 4 -> 3 keeps the shape of this walk *)
Theorem altered_count_refuted :
  exists n n' hashes bits root ms,
    n <> n' /\ extract term Hn term_eqb n hashes bits = Some (root, ms) /\
    extract term Hn term_eqb n' hashes bits = Some (root, ms).
Proof.
  exists 4, 3, [T 1; T 2; Hn (T 3) (T 4)], [true; true; true; false; false; false; false; false],
    (Hn (Hn (T 1) (T 2)) (Hn (T 3) (T 4))), [T 1].
  split; [discriminate|]. split; vm_compute; reflexivity.
Qed.

(* "an altered flag bit is rejected or yields a different root" does NOT hold for
   (a) the padding bits of the last flag byte, which are never looked at, and
   (b) the flag of a height-0 node: same root, one more (or one fewer) reported match *)
Theorem altered_padding_bit_refuted :
  exists n hashes bits bits' root ms,
    bits <> bits' /\ length bits = length bits' /\
    extract term Hn term_eqb n hashes bits = Some (root, ms) /\
    extract term Hn term_eqb n hashes bits' = Some (root, ms).
Proof.
  exists 4, [T 1; T 2; Hn (T 3) (T 4)], [true; true; true; false; false; false; false; false],
    [true; true; true; false; false; false; false; true], (Hn (Hn (T 1) (T 2)) (Hn (T 3) (T 4))), [T 1].
  split; [discriminate|]. split; [reflexivity|]. split; vm_compute; reflexivity.
Qed.

Theorem altered_leaf_bit_refuted :
  exists n hashes bits bits' root ms ms',
    bits <> bits' /\ length bits = length bits' /\ ms <> ms' /\
    extract term Hn term_eqb n hashes bits = Some (root, ms) /\
    extract term Hn term_eqb n hashes bits' = Some (root, ms').
Proof.
  exists 4, [T 1; T 2; Hn (T 3) (T 4)], [true; true; true; false; false; false; false; false],
    [true; true; true; true; false; false; false; false], (Hn (Hn (T 1) (T 2)) (Hn (T 3) (T 4))), [T 1], [T 1; T 2].
  split; [discriminate|]. split; [reflexivity|]. split; [discriminate|]. split; vm_compute; reflexivity.
Qed.

(* the executable instance: 32-byte hashes, double SHA-256, bytes.Equal *)
Lemma bytes_eqb_spec a b : bytes_eqb a b = true <-> a = b.
Proof. apply bytes_eqb_eq. Qed.

Theorem extract_mb_build (l : list (bytes * bool)) t bits hashes :
  l <> [] -> lenL l <= max_txs -> tree_of bytes l = Some t -> sib_ok bytes node_hash t ->
  build bytes node_hash l = Some (bits, hashes) ->
  extract bytes node_hash bytes_eqb (lenL l) hashes bits = Some (thash bytes node_hash t, matched bytes l).
Proof. apply extract_build_sib. exact bytes_eqb_spec. Qed.

(* ---------- flag bytes and the wire format ---------- *)
Lemma byte_bits_pack b0 b1 b2 b3 b4 b5 b6 b7 rest :
  byte_bits (b8 (pack_byte (b0 :: b1 :: b2 :: b3 :: b4 :: b5 :: b6 :: b7 :: rest) 8 1)) =
  [b0; b1; b2; b3; b4; b5; b6; b7].
Proof.
  unfold byte_bits. rewrite n8_b8. cbn [pack_byte].
  destruct b0, b1, b2, b3, b4, b5, b6, b7; vm_compute; reflexivity.
Qed.

(* serializeVBits undoes the packing of whole bytes *)
Lemma bits_of_bytes_pack : forall k bits fuel,
  length bits = (8 * k)%nat -> (k <= fuel)%nat -> bits_of_bytes (pack_bits fuel bits) = bits.
Proof.
  induction k as [|k IH]; intros bits fuel Hl Hf.
  - destruct bits; [|cbn in Hl; lia]. destruct fuel; reflexivity.
  - do 8 (destruct bits as [|? bits]; [cbn [length] in Hl; lia|]).
    destruct fuel as [|f]; [lia|]. cbn [pack_bits skipn]. unfold bits_of_bytes. cbn [flat_map].
    rewrite byte_bits_pack. cbn [app]. do 8 f_equal. apply IH; [cbn [length] in Hl; lia|lia].
Qed.

Lemma pad8_mult bits : exists k, length (pad8 bits) = (8 * k)%nat.
Proof.
  destruct (pad8_length bits) as [k [Hk [E Hm]]]. rewrite E, app_length, repeat_length.
  exists ((length bits + k) / 8)%nat. pose proof (Nat.div_mod (length bits + k) 8). lia.
Qed.

Lemma bits_of_flags_pad8 bits : bits_of_bytes (flags_of_bits (pad8 bits)) = pad8 bits.
Proof.
  destruct (pad8_mult bits) as [k Hk]. unfold flags_of_bits. apply (bits_of_bytes_pack k); [exact Hk|lia].
Qed.

(* parse after serialize, for what the wire limits allow *)
Lemma parse_ser_merkle_block m rest :
  length (mb_header m) = 80%nat -> mb_count m < two32 ->
  Forall (fun h => length h = 32%nat) (mb_hashes m) ->
  lenL (mb_hashes m) <= wire_max_hashes -> lenN (mb_flags m) <= wire_max_flags ->
  parse_merkle_block (ser_merkle_block m ++ rest) = Some (m, rest).
Proof.
  destruct m as [hd cnt hs fl]. cbn [mb_header mb_count mb_hashes mb_flags].
  intros Hh Hc Hf Hnh Hnf. unfold ser_merkle_block, parse_merkle_block, bind.
  cbn [mb_header mb_count mb_hashes mb_flags]. rewrite <- !app_assoc.
  rewrite (take_app_n 80) by exact Hh.
  rewrite p_le_app by exact Hc.
  unfold wire_max_hashes, wire_max_flags in *.
  rewrite p_varint_app by (unfold two64; lia).
  destruct (N.ltb_spec 400001 (lenL hs)) as [|_]; [lia|].
  replace (concat hs) with (enc_list (fun x : bytes => x) hs) by (unfold enc_list; rewrite map_id; reflexivity).
  rewrite p_list_app.
  - rewrite p_varint_app by (unfold two64; lia).
    destruct (N.ltb_spec 50000 (lenN fl)) as [|_]; [lia|].
    unfold lenN. rewrite takeN_app. reflexivity.
  - intros a Ha r. rewrite Forall_forall in Hf. apply (take_app_n 32). apply Hf. exact Ha.
  - intros a Ha E. rewrite Forall_forall in Hf. apply Hf in Ha. subst a. discriminate.
Qed.

(* byte level: the serialized partial merkle tree of a block is parsed and accepted *)
Theorem run_proof_build (header : bytes) (l : list (bytes * bool)) t bits hashes rest :
  l <> [] -> lenL l <= max_txs -> tree_of bytes l = Some t -> sib_ok bytes node_hash t ->
  build bytes node_hash l = Some (bits, hashes) ->
  length header = 80%nat -> Forall (fun h => length h = 32%nat) hashes ->
  lenN (flags_of_bits bits) <= wire_max_flags ->
  let m := mk_mb header (lenL l) hashes (flags_of_bits bits) in
  run_proof (ser_merkle_block m ++ rest) = POk m (thash bytes node_hash t) (matched bytes l).
Proof.
  intros Hne Hmax Ht Hok Hb Hh Hf Hfl m. unfold run_proof.
  pose proof max_txs_small as Hms.
  assert (Hmx : max_txs <= wire_max_hashes) by (vm_compute; discriminate).
  pose proof (extract_mb_build l t bits hashes Hne Hmax Ht Hok Hb) as Ex.
  assert (Hnh : lenL hashes <= lenL l).
  { unfold build in Hb. rewrite Ht in Hb. injection Hb as _ <-.
    destruct (tree_of_total bytes node_hash bytes_eqb bytes_eqb_spec l Hne) as [t' [Ht' [_ Hl]]]; [lia|].
    rewrite Ht in Ht'. injection Ht' as <-. pose proof (thashes_le_leaves bytes node_hash bytes_eqb bytes_eqb_spec t) as Hle.
    rewrite Hl in Hle. unfold lenL. lia. }
  rewrite parse_ser_merkle_block; subst m; cbn [mb_header mb_count mb_hashes mb_flags]; try assumption; try lia.
  - unfold extract_mb. cbn [mb_header mb_count mb_hashes mb_flags].
    assert (Eb : bits_of_bytes (flags_of_bits bits) = bits).
    { unfold build in Hb. rewrite Ht in Hb. injection Hb as <- _. apply bits_of_flags_pad8. }
    rewrite Eb, Ex. reflexivity.
  - assert (max_txs < two32) by (vm_compute; reflexivity). lia.
Qed.

(* the repeated-tail forgery (CVE-2012-2459 one level up): six transactions hash like eight with the last
   two repeated; Bitcoin's builder run on the eight-leaf "block" yields a proof with the six-leaf block's
   root, which the extractor refuses because of the equal siblings at height 2 *)
Definition ex6 : list (term * bool) := [(T 1, false); (T 2, false); (T 3, false); (T 4, false); (T 5, false); (T 6, true)].
Definition ex8 : list (term * bool) := ex6 ++ [(T 5, false); (T 6, true)].
Example repeated_tail_forgery_rejected :
  merkle_root term Hn (map fst ex8) = merkle_root term Hn (map fst ex6) /\
  exists bits hashes, build term Hn ex8 = Some (bits, hashes) /\ extract term Hn term_eqb 8 hashes bits = None.
Proof. split; [vm_compute; reflexivity|]. eexists. eexists. split; vm_compute; reflexivity. Qed.
