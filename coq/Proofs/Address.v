(* Proofs/Address.v — C14: addresses round-trip and agree across their forms.
   The external codecs (btcutil base58check, bech32, bech32.ConvertBits) are Section
   variables; their laws are hypotheses (listed in CONF['assumptions']).  blech32 is the
   model and the theorems of C15. *)
From GE Require Import Lib.Bytes Gen.NetConsts Gen.AddressConsts Model.Blech32 Proofs.Blech32 Model.Address.
From Coq Require Import ZifyBool ZifyN ZifyNat.
Import B32 Addr.
Open Scope N_scope.

(* ------------------------------------------------------------------ *)
(* network constants of today's source: disjointness                   *)
(* ------------------------------------------------------------------ *)
Definition versions (n : net) : list byte := [n_conf n; n_pkh n; n_sh n].
Definition hrps (n : net) : list bytes := [n_bech32 n; n_blech32 n].

Lemma in_nets n : In n nets -> n = liquid \/ n = regtest \/ n = testnet.
Proof. cbn. intuition. Qed.

(* the nine base58 version bytes are pairwise different *)
Theorem version_bytes_disjoint : forall n1 n2 v, In n1 nets -> In n2 nets ->
  In v (versions n1) -> In v (versions n2) -> n1 = n2.
Proof.
  intros n1 n2 v H1 H2 V1 V2.
  apply in_nets in H1 as [-> | [-> | ->]]; apply in_nets in H2 as [-> | [-> | ->]]; try reflexivity; exfalso;
    cbn in V1, V2; repeat (destruct V1 as [V1|V1]; [subst v|]); try contradiction;
    repeat (destruct V2 as [V2|V2]; [vm_compute in V2; discriminate V2|]); contradiction.
Qed.

Theorem versions_within_net_distinct : forall n, In n nets ->
  n_conf n <> n_pkh n /\ n_conf n <> n_sh n /\ n_pkh n <> n_sh n.
Proof. intros n H. apply in_nets in H as [-> | [-> | ->]]; repeat split; vm_compute; discriminate. Qed.

(* no human-readable part is a prefix-conflict of another: they differ within the common length *)
Fixpoint differ_within (a b : bytes) : bool :=
  match a, b with
  | x :: a', y :: b' => negb (beqb x y) || differ_within a' b'
  | _, _ => false
  end.
Definition all_hrps : list bytes := flat_map hrps nets.
Theorem hrps_disjoint :
  forallb (fun a => forallb (fun b => bytes_eqb a b || differ_within a b) all_hrps) all_hrps = true /\
  forallb (fun a => (2 <=? length a)%nat && forallb char_ok a && bytes_eqb (map to_lower a) a &&
                    forallb (fun c => negb (beqb c sep)) a) all_hrps = true /\
  NoDup all_hrps.
Proof.
  split; [reflexivity|]. split; [reflexivity|].
  repeat (constructor; [cbn; intros H; repeat (destruct H as [H|H]; [vm_compute in H; discriminate H|]); exact H|]).
  constructor.
Qed.

Lemma net_by_version_ok n v : In n nets -> In v (versions n) -> net_by_version v = Some n.
Proof.
  intros H V. apply in_nets in H as [-> | [-> | ->]]; cbn in V;
    repeat (destruct V as [<-|V]; [reflexivity|]); contradiction.
Qed.

Section Codecs.
Variable b58enc : bytes -> byte -> bytes.
Variable b58dec : bytes -> option (bytes * byte).
Variable bech_dec : bytes -> option (bytes * bytes * bool).
Variable bech_enc : bool -> bytes -> bytes -> option bytes.
Variable bcb : bytes -> N -> N -> bool -> option bytes.

(* ---------- laws of the external codecs (assumptions) ---------- *)
Hypothesis b58_dec_enc : forall d v, b58dec (b58enc d v) = Some (d, v).
Hypothesis b58_enc_dec : forall s d v, b58dec s = Some (d, v) -> b58enc d v = s.
(* base58check strings of the nine versions with 20- or 54-byte payloads never begin with a segwit prefix *)
Hypothesis b58_not_hrp : forall n v d, In n nets -> In v (versions n) ->
  (length d = 20 \/ length d = 54)%nat -> net_by_hrp (b58enc d v) = None.

Notation from_base58 := (from_base58 b58dec).
Notation to_base58 := (to_base58 b58enc).
Notation from_base58_conf := (from_base58_conf b58dec).
Notation to_base58_conf := (to_base58_conf b58enc).
Notation network_for_address := (network_for_address b58dec).
Notation decode_type := (decode_type b58dec bech_dec bcb).
Notation to_output_script := (to_output_script b58dec bech_dec bcb).
Notation is_confidential := (is_confidential b58dec bech_dec bcb).

(* ------------------------------------------------------------------ *)
(* base58 forms                                                        *)
(* ------------------------------------------------------------------ *)
Theorem from_to_base58 v d : length d = 20%nat -> from_base58 (to_base58 v d) = Ok (v, d).
Proof. intro L. unfold Addr.from_base58, Addr.to_base58. rewrite b58_dec_enc. unfold lenb. rewrite L. reflexivity. Qed.

Theorem to_from_base58 s v d : from_base58 s = Ok (v, d) -> to_base58 v d = s.
Proof.
  unfold Addr.from_base58, Addr.to_base58. destruct (b58dec s) as [[d' v']|] eqn:E; [|discriminate].
  destruct (lenb d' 20); [|discriminate]. intro H; inversion H; subst. apply b58_enc_dec. exact E.
Qed.

Lemma split_54 (d : bytes) d0 r : d = d0 :: r -> [d0] ++ firstn 33 (skipn 1 d) ++ skipn 34 d = d.
Proof. intros ->. cbn [skipn app]. change (skipn 34 (d0 :: r)) with (skipn 33 r). rewrite firstn_skipn. reflexivity. Qed.

Lemma conf_layout (v : byte) key d : length key = 33%nat ->
  firstn 33 (skipn 1 ([v] ++ key ++ d)) = key /\ skipn 34 ([v] ++ key ++ d) = d.
Proof.
  intro Lk. change (skipn 1 ([v] ++ key ++ d)) with (key ++ d).
  change (skipn 34 ([v] ++ key ++ d)) with (skipn 33 (key ++ d)). rewrite <- Lk. split.
  - rewrite firstn_app, Nat.sub_diag, firstn_all. cbn [firstn]. apply app_nil_r.
  - rewrite skipn_app, Nat.sub_diag, skipn_all. reflexivity.
Qed.

Theorem from_to_base58_conf cv v key d : length key = 33%nat -> length d = 20%nat ->
  from_base58_conf (to_base58_conf cv v key d) = Ok (cv, v, key, d).
Proof.
  intros Lk Ld. unfold Addr.from_base58_conf, Addr.to_base58_conf. rewrite b58_dec_enc.
  destruct (conf_layout v key d Lk) as [E1 E2]. rewrite E1, E2.
  unfold lenb. rewrite !app_length, Lk, Ld. reflexivity.
Qed.

Theorem to_from_base58_conf s cv v key d : from_base58_conf s = Ok (cv, v, key, d) -> to_base58_conf cv v key d = s.
Proof.
  unfold Addr.from_base58_conf, Addr.to_base58_conf. destruct (b58dec s) as [[dd v']|] eqn:E; [|discriminate].
  destruct (lenb dd 54); [|discriminate]. destruct dd as [|d0 r] eqn:Ed; [discriminate|].
  intro H; inversion H; subst cv v key d.
  match goal with |- b58enc ?X _ = _ => replace X with (d0 :: r) by exact (eq_sym (split_54 (d0 :: r) d0 r eq_refl)) end.
  apply b58_enc_dec. exact E.
Qed.

(* network, type and script of the base58 forms *)
Lemma network_of_base58 n v d : In n nets -> In v (versions n) -> (length d = 20 \/ length d = 54)%nat ->
  network_for_address (b58enc d v) = Ok n.
Proof.
  intros Hn Hv Hd. unfold Addr.network_for_address. rewrite (b58_not_hrp n v d Hn Hv Hd), b58_dec_enc.
  rewrite (net_by_version_ok n v Hn Hv). reflexivity.
Qed.

Lemma no_hrp_prefix n s : In n nets -> net_by_hrp s = None ->
  is_hrp s (n_bech32 n) = false /\ is_hrp s (n_blech32 n) = false.
Proof.
  unfold net_by_hrp. intros Hn F.
  pose proof (find_none _ _ F n Hn) as Q. cbv beta in Q. apply orb_false_iff in Q. exact Q.
Qed.

Definition is_pkh_type (pkh : bool) : N := if pkh then P2Pkh else P2Sh.
Definition is_cpkh_type (pkh : bool) : N := if pkh then ConfidentialP2Pkh else ConfidentialP2Sh.
Definition ver_of (n : net) (pkh : bool) : byte := if pkh then n_pkh n else n_sh n.
Definition script_of (pkh : bool) (h : bytes) : option bytes := if pkh then script_p2pkh h else script_p2sh h.

Lemma ver_in n pkh : In (ver_of n pkh) (versions n).
Proof. destruct pkh; cbn; tauto. Qed.

Lemma beqb_refl b : beqb b b = true. Proof. apply beqb_eq. reflexivity. Qed.
Lemma beqb_neq a b : a <> b -> beqb a b = false.
Proof. intro H. destruct (beqb a b) eqn:E; [apply beqb_eq in E; contradiction | reflexivity]. Qed.

Theorem type_of_base58 n pkh d : In n nets -> length d = 20%nat ->
  let s := to_base58 (ver_of n pkh) d in
  network_for_address s = Ok n /\ decode_type s = Ok (is_pkh_type pkh) /\
  is_confidential s = Ok false /\ to_output_script s = of_opt (script_of pkh d).
Proof.
  intros Hn Ld s. subst s. unfold Addr.to_base58.
  pose proof (network_of_base58 n _ d Hn (ver_in n pkh) (or_introl Ld)) as NW.
  destruct (no_hrp_prefix n _ Hn (b58_not_hrp n _ d Hn (ver_in n pkh) (or_introl Ld))) as [P1 P2].
  destruct (versions_within_net_distinct n Hn) as (D1 & D2 & D3).
  assert (DT : decode_type (b58enc d (ver_of n pkh)) = Ok (is_pkh_type pkh)).
  { unfold Addr.decode_type. rewrite NW, P1, P2. unfold decode_base58. rewrite b58_dec_enc.
    unfold lenb. rewrite Ld. cbn [Nat.eqb].
    destruct pkh; cbn [ver_of is_pkh_type].
    - rewrite (beqb_neq (n_pkh n) (n_conf n)) by congruence. rewrite beqb_refl, (beqb_neq (n_pkh n) (n_sh n)) by congruence. reflexivity.
    - rewrite (beqb_neq (n_sh n) (n_conf n)) by congruence. rewrite beqb_refl, (beqb_neq (n_sh n) (n_pkh n)) by congruence. reflexivity. }
  split; [exact NW|]. split; [exact DT|]. split.
  - unfold Addr.is_confidential. rewrite DT. destruct pkh; reflexivity.
  - unfold Addr.to_output_script. rewrite DT. destruct pkh; cbn [is_pkh_type script_of].
    + change (P2Pkh =? P2Pkh) with true. cbv iota. rewrite b58_dec_enc. reflexivity.
    + change (P2Sh =? P2Pkh) with false. change (P2Sh =? P2Sh) with true. cbv iota. rewrite b58_dec_enc. reflexivity.
Qed.

Theorem type_of_base58_conf n pkh key d : In n nets -> length key = 33%nat -> length d = 20%nat ->
  let s := to_base58_conf (n_conf n) (ver_of n pkh) key d in
  network_for_address s = Ok n /\ decode_type s = Ok (is_cpkh_type pkh) /\
  is_confidential s = Ok true /\ to_output_script s = of_opt (script_of pkh d).
Proof.
  intros Hn Lk Ld s. subst s. unfold Addr.to_base58_conf.
  set (dd := [ver_of n pkh] ++ key ++ d).
  assert (L54 : length dd = 54%nat) by (unfold dd; rewrite !app_length, Lk, Ld; reflexivity).
  assert (Vc : In (n_conf n) (versions n)) by (cbn; tauto).
  pose proof (network_of_base58 n _ dd Hn Vc (or_intror L54)) as NW.
  destruct (no_hrp_prefix n _ Hn (b58_not_hrp n _ dd Hn Vc (or_intror L54))) as [P1 P2].
  destruct (versions_within_net_distinct n Hn) as (D1 & D2 & D3).
  assert (SK : skipn 34 dd = d) by (apply (conf_layout (ver_of n pkh) key d Lk)).
  assert (DT : decode_type (b58enc dd (n_conf n)) = Ok (is_cpkh_type pkh)).
  { unfold Addr.decode_type. rewrite NW, P1, P2. unfold decode_base58. rewrite b58_dec_enc, beqb_refl.
    rewrite L54. cbn [Nat.ltb Nat.leb]. rewrite SK. unfold lenb. rewrite Ld. cbn [Nat.eqb].
    unfold dd. cbn [app]. destruct pkh; cbn [ver_of is_cpkh_type].
    - rewrite beqb_refl, (beqb_neq (n_pkh n) (n_sh n)) by congruence. reflexivity.
    - rewrite beqb_refl, (beqb_neq (n_sh n) (n_pkh n)) by congruence. reflexivity. }
  split; [exact NW|]. split; [exact DT|]. split.
  - unfold Addr.is_confidential. rewrite DT. destruct pkh; reflexivity.
  - unfold Addr.to_output_script. rewrite DT. destruct pkh; cbn [is_cpkh_type script_of].
    + change (ConfidentialP2Pkh =? P2Pkh) with false. change (ConfidentialP2Pkh =? P2Sh) with false.
      change (ConfidentialP2Pkh =? ConfidentialP2Pkh) with true. cbv iota.
      rewrite b58_dec_enc, L54, SK. reflexivity.
    + change (ConfidentialP2Sh =? P2Pkh) with false. change (ConfidentialP2Sh =? P2Sh) with false.
      change (ConfidentialP2Sh =? ConfidentialP2Pkh) with false. change (ConfidentialP2Sh =? ConfidentialP2Sh) with true. cbv iota.
      rewrite b58_dec_enc, L54, SK. reflexivity.
Qed.


(* ------------------------------------------------------------------ *)
(* segwit forms: more laws of the external bech32 codec                *)
(* ------------------------------------------------------------------ *)
Notation from_bech32 := (from_bech32 bech_dec bcb).
Notation to_bech32 := (to_bech32 bech_enc bcb).
Notation from_confidential := (from_confidential b58enc b58dec bech_dec bech_enc bcb).
Notation to_confidential := (to_confidential b58enc b58dec bech_dec bcb).

Definition syms_ok (c : bytes) : Prop := Forall (fun b => n8 b < 32) c.

(* Encode / EncodeM: lower(hrp) ++ "1" ++ alphabet characters; total on 5-bit data *)
Hypothesis bech_shape : forall m hrp data s, bech_enc m hrp data = Some s ->
  exists cs, s = map to_lower hrp ++ sep :: cs /\ Forall (fun c => beqb c sep = false) cs.
Hypothesis bech_total : forall m hrp data, syms_ok data -> exists s, bech_enc m hrp data = Some s.
(* DecodeGeneric after Encode / EncodeM (within the 90-character limit) reports hrp, data and the constant used *)
Hypothesis bech_dec_enc : forall m hrp data s, In hrp all_hrps -> (length data <= 70)%nat ->
  bech_enc m hrp data = Some s -> bech_dec s = Some (hrp, data, m).
(* DecodeGeneric then Encode/EncodeM with the constant that matched gives the lower-case spelling back *)
Hypothesis bech_enc_dec : forall s h d m, bech_dec s = Some (h, d, m) ->
  bech_enc m h d = Some (map to_lower s) /\ syms_ok d.
(* bech32.ConvertBits: 5 -> 8 without padding accepts only what 8 -> 5 with padding produces *)
Hypothesis bcb_back : forall c d, syms_ok c -> bcb c 5 8 false = Some d -> bcb d 8 5 true = Some c.
(* bech32.ConvertBits: 8 -> 5 with padding, then 5 -> 8 without, is the identity *)
Hypothesis bcb_roundtrip : forall d, exists c, bcb d 8 5 true = Some c /\ syms_ok c /\
  bcb c 5 8 false = Some d /\ (length c <= 2 * length d)%nat.

Definition seg_ver (tr : bool) : byte := if tr then x01 else x00.
Definition seg_ok (tr : bool) (prog : bytes) : Prop :=
  if tr then length prog = 32%nat else (length prog = 20%nat \/ length prog = 32%nat).
Definition seg_type (tr : bool) (prog : bytes) : N := if tr then P2TR else if lenb prog 20 then P2Wpkh else P2Wsh.
Definition cseg_type (tr : bool) (prog : bytes) : N :=
  if tr then ConfidentialP2TR else if lenb prog 20 then ConfidentialP2Wpkh else ConfidentialP2Wsh.

Lemma hrp_facts n : In n nets ->
  In (n_bech32 n) all_hrps /\ In (n_blech32 n) all_hrps /\
  map to_lower (n_bech32 n) = n_bech32 n /\ map to_lower (n_blech32 n) = n_blech32 n /\
  (2 <= length (n_bech32 n) <= 3)%nat /\ (2 <= length (n_blech32 n) <= 3)%nat /\
  forallb char_ok (n_blech32 n) = true.
Proof.
  intro H. apply in_nets in H as [-> | [-> | ->]]; (split; [cbn; tauto|]); (split; [cbn; tauto|]);
    repeat split; try reflexivity; cbn; lia.
Qed.

(* network and prefix tests on a string that starts with a network's prefix and the separator *)
Lemma firstn_app_exact {A} (a b : list A) : firstn (length a) (a ++ b) = a.
Proof. rewrite firstn_app, Nat.sub_diag, firstn_all. cbn. apply app_nil_r. Qed.

Lemma segwit_prefix_canon h r : Forall (fun c => beqb c sep = false) r -> segwit_prefix (h ++ sep :: r) = h.
Proof. intro NS. unfold segwit_prefix. rewrite (last_index_canon h r NS). apply firstn_app_exact. Qed.

Lemma prefix_bech n r : In n nets -> Forall (fun c => beqb c sep = false) r ->
  net_by_hrp (n_bech32 n ++ sep :: r) = Some n /\
  is_hrp (n_bech32 n ++ sep :: r) (n_blech32 n) = false /\ is_hrp (n_bech32 n ++ sep :: r) (n_bech32 n) = true.
Proof.
  intros H NS. unfold net_by_hrp, is_hrp. rewrite (segwit_prefix_canon _ r NS).
  apply in_nets in H as [-> | [-> | ->]]; repeat split; reflexivity.
Qed.
Lemma prefix_blech n r : In n nets -> Forall (fun c => beqb c sep = false) r ->
  net_by_hrp (n_blech32 n ++ sep :: r) = Some n /\ is_hrp (n_blech32 n ++ sep :: r) (n_blech32 n) = true /\
  is_hrp (n_blech32 n ++ sep :: r) (n_bech32 n) = false.
Proof.
  intros H NS. unfold net_by_hrp, is_hrp. rewrite (segwit_prefix_canon _ r NS).
  apply in_nets in H as [-> | [-> | ->]]; repeat split; reflexivity.
Qed.


Lemma seg_len_checks tr prog : seg_ok tr prog ->
  ((length prog <? 2) || (40 <? length prog))%nat = false /\
  ((n8 (seg_ver tr) =? 0) && negb (lenb prog 20) && negb (lenb prog 32)) = false /\
  decode_segwit_type P2Wpkh P2Wsh P2TR (seg_ver tr) prog = Ok (seg_type tr prog) /\
  decode_segwit_type ConfidentialP2Wpkh ConfidentialP2Wsh ConfidentialP2TR (seg_ver tr) prog = Ok (cseg_type tr prog).
Proof.
  unfold seg_ok, seg_type, cseg_type, decode_segwit_type, lenb. destruct tr; cbn [seg_ver].
  - intros ->. repeat split; reflexivity.
  - intros [-> | ->]; repeat split; reflexivity.
Qed.

Lemma tos_conf_segwit s t : t = ConfidentialP2Wpkh \/ t = ConfidentialP2Wsh \/ t = ConfidentialP2TR ->
  decode_type s = Ok t ->
  to_output_script s = match from_blech32 s with
                       | Ok (_, v, _, p) => of_opt (script_segwit v p) | Err => Err | Panic => Panic end.
Proof. intros H D. unfold Addr.to_output_script. rewrite D. destruct H as [-> | [-> | ->]]; reflexivity. Qed.

Lemma tos_segwit s t : t = P2Wpkh \/ t = P2Wsh \/ t = P2TR ->
  decode_type s = Ok t ->
  to_output_script s = match from_bech32 s with
                       | Ok (_, v, p) => of_opt (script_segwit v p) | Err => Err | Panic => Panic end.
Proof. intros H D. unfold Addr.to_output_script. rewrite D. destruct H as [-> | [-> | ->]]; reflexivity. Qed.

(* ---------- unconfidential segwit ---------- *)
Theorem bech32_forms n tr prog : In n nets -> seg_ok tr prog ->
  exists s, to_bech32 (n_bech32 n) (seg_ver tr) prog = Ok s /\
    from_bech32 s = Ok (n_bech32 n, seg_ver tr, prog) /\
    network_for_address s = Ok n /\ decode_type s = Ok (seg_type tr prog) /\
    is_confidential s = Ok false /\
    to_output_script s = of_opt (script_segwit (seg_ver tr) prog).
Proof.
  intros Hn Hp. destruct (hrp_facts n Hn) as (I1 & _ & LO & _ & L1 & _).
  destruct (bcb_roundtrip prog) as (c & C1 & C2 & C3 & C4).
  assert (Sy : syms_ok (seg_ver tr :: c)) by (constructor; [destruct tr; cbn; lia | exact C2]).
  destruct (bech_total tr (n_bech32 n) (seg_ver tr :: c) Sy) as [s Es].
  destruct (bech_shape _ _ _ _ Es) as (cs & Sh & NS). rewrite LO in Sh.
  assert (Len : (length (seg_ver tr :: c) <= 70)%nat).
  { cbn [length]. destruct tr; cbn in Hp; [rewrite Hp in C4 | destruct Hp as [Hp|Hp]; rewrite Hp in C4]; lia. }
  pose proof (bech_dec_enc _ _ _ _ I1 Len Es) as De.
  destruct (seg_len_checks tr prog Hp) as (K1 & K2 & K3 & _).
  assert (TB : to_bech32 (n_bech32 n) (seg_ver tr) prog = Ok s).
  { unfold Addr.to_bech32. rewrite C1. destruct tr; cbn [seg_ver] in *.
    - change (n8 x01 =? 0) with false. change (n8 x01 =? 1) with true. cbv iota. rewrite Es. reflexivity.
    - change (n8 x00 =? 0) with true. cbv iota. rewrite Es. reflexivity. }
  assert (FB : from_bech32 s = Ok (n_bech32 n, seg_ver tr, prog)).
  { unfold Addr.from_bech32. rewrite Sh, (last_index_canon _ _ NS).
    destruct (Nat.leb_spec (length (n_bech32 n)) 1) as [Q|_]; [lia|].
    rewrite <- Sh, De.
    replace (16 <? n8 (seg_ver tr)) with false by (destruct tr; reflexivity).
    replace (negb (Bool.eqb (n8 (seg_ver tr) =? 0) (negb tr))) with false by (destruct tr; reflexivity).
    rewrite C3, K1, K2. reflexivity. }
  destruct (prefix_bech n cs Hn NS) as (N1 & N2 & N3). rewrite <- Sh in N1, N2, N3.
  assert (NW : network_for_address s = Ok n) by (unfold Addr.network_for_address; rewrite N1; reflexivity).
  assert (DT : decode_type s = Ok (seg_type tr prog)).
  { unfold Addr.decode_type. rewrite NW, N2, N3. unfold decode_bech32. rewrite FB. exact K3. }
  exists s. split; [exact TB|]. split; [exact FB|]. split; [exact NW|]. split; [exact DT|]. split.
  - unfold Addr.is_confidential. rewrite DT. unfold seg_type. destruct tr; [reflexivity|]. destruct (lenb prog 20); reflexivity.
  - rewrite (tos_segwit s (seg_type tr prog) ltac:(unfold seg_type; destruct tr; [|destruct (lenb prog 20)]; tauto) DT), FB. reflexivity.
Qed.


(* ------------------------------------------------------------------ *)
(* the checksum constant is bound to the witness version (fix e7c9f3c)   *)
(* ------------------------------------------------------------------ *)
Theorem other_constant_rejected n tr prog s' : In n nets -> seg_ok tr prog ->
  (forall c, bcb prog 8 5 true = Some c -> bech_enc (negb tr) (n_bech32 n) (seg_ver tr :: c) = Some s') ->
  from_bech32 s' = Err /\ decode_type s' = Err.
Proof.
  intros Hn Hp Hs. destruct (hrp_facts n Hn) as (I1 & _ & LO & _ & L1 & _).
  destruct (bcb_roundtrip prog) as (c & C1 & C2 & C3 & C4).
  specialize (Hs c C1).
  destruct (bech_shape _ _ _ _ Hs) as (cs & Sh & NS). rewrite LO in Sh.
  assert (Len : (length (seg_ver tr :: c) <= 70)%nat).
  { cbn [length]. destruct tr; cbn in Hp; [rewrite Hp in C4 | destruct Hp as [Hp|Hp]; rewrite Hp in C4]; lia. }
  pose proof (bech_dec_enc _ _ _ _ I1 Len Hs) as De.
  assert (FB : from_bech32 s' = Err).
  { unfold Addr.from_bech32. rewrite Sh, (last_index_canon _ _ NS).
    destruct (Nat.leb_spec (length (n_bech32 n)) 1) as [Q|_]; [lia|].
    rewrite <- Sh, De.
    replace (16 <? n8 (seg_ver tr)) with false by (destruct tr; reflexivity).
    replace (negb (Bool.eqb (n8 (seg_ver tr) =? 0) (negb (negb tr)))) with true by (destruct tr; reflexivity).
    reflexivity. }
  split; [exact FB|].
  destruct (prefix_bech n cs Hn NS) as (N1 & N2 & N3). rewrite <- Sh in N1, N2, N3.
  unfold Addr.decode_type, Addr.network_for_address. rewrite N1, N2, N3. unfold decode_bech32. rewrite FB. reflexivity.
Qed.

(* whatever FromBech32 accepts with version 0 or 1 re-encodes to its lower-case spelling *)
Theorem bech32_recognised_reencodes s p v prog : from_bech32 s = Ok (p, v, prog) -> n8 v <= 1 ->
  to_bech32 p v prog = Ok (map to_lower s).
Proof.
  unfold Addr.from_bech32. destruct (last_index sep s) as [one|]; [|discriminate].
  destruct (one <=? 1)%nat; [discriminate|].
  destruct (bech_dec s) as [[[h data] m]|] eqn:De; [|discriminate].
  destruct data as [|v' rest]; [discriminate|].
  destruct (16 <? n8 v'); [discriminate|].
  destruct (Bool.eqb (n8 v' =? 0) (negb m)) eqn:Ck; [|discriminate]. cbn [negb].
  destruct (bcb rest 5 8 false) as [rg|] eqn:Cb; [|discriminate].
  destruct ((length rg <? 2)%nat || (40 <? length rg)%nat); [discriminate|].
  destruct ((n8 v' =? 0) && negb (lenb rg 20) && negb (lenb rg 32)); [discriminate|].
  intro H; inversion H; subst p v prog. intro Hv.
  destruct (bech_enc_dec _ _ _ _ De) as [En Sy]. inversion Sy as [|x l Hx Sr]; subst.
  unfold Addr.to_bech32. rewrite (bcb_back _ _ Sr Cb).
  destruct (N.eqb_spec (n8 v') 0) as [E0|E0].
  - apply Bool.eqb_prop in Ck. destruct m; [discriminate|]. rewrite En. reflexivity.
  - apply Bool.eqb_prop in Ck. destruct m; [|discriminate].
    destruct (N.eqb_spec (n8 v') 1) as [_|E1]; [|lia]. rewrite En. reflexivity.
Qed.

Lemma decode_bech32_versions s t : decode_bech32 bech_dec bcb s = Ok t ->
  exists p v prog, from_bech32 s = Ok (p, v, prog) /\ n8 v <= 1.
Proof.
  unfold decode_bech32. destruct (from_bech32 s) as [[[p v] prog]| |]; try discriminate.
  unfold decode_segwit_type. intro H. exists p, v, prog. split; [reflexivity|].
  destruct (N.eqb_spec (n8 v) 0); [lia|]. destruct (N.eqb_spec (n8 v) 1); [lia | discriminate].
Qed.

(* ---------- confidential segwit (blech32: the model and theorems of C15) ---------- *)
(* the same law for the repository's own blech32.ConvertBits (see the report: K-checked, not yet proved) *)
Hypothesis cb_roundtrip : forall d, exists c, convert_bits d 8 5 true = Some c /\ syms_ok c /\
  convert_bits c 5 8 false = Some d /\ (length c <= 2 * length d)%nat.
Lemma add_data_long d : (2 <= length d <= 75)%nat -> add_data d = Some (b8 (N.of_nat (length d)) :: d).
Proof.
  intro H. destruct d as [|a [|b r]]; cbn [length] in H; try lia.
  unfold add_data. destruct (Nat.leb_spec (length (a :: b :: r)) 75) as [_|Q]; [reflexivity | cbn [length] in Q; lia].
Qed.

Lemma seg_script tr prog : seg_ok tr prog -> exists scr, script_segwit (seg_ver tr) prog = Some scr.
Proof.
  intro H. unfold script_segwit. rewrite add_data_long; [eexists; reflexivity|].
  destruct tr; cbn in H; [|destruct H]; lia.
Qed.

Lemma encode_shape hrp data e s : encode hrp data e = Some s ->
  exists cs, s = hrp ++ sep :: cs /\ Forall (fun c => beqb c sep = false) cs.
Proof.
  unfold encode. destruct (to_chars (data ++ create_checksum hrp data e)) as [cs|] eqn:E; [|discriminate].
  intro H; inversion H. exists cs. split; [reflexivity|]. apply to_chars_facts in E. tauto.
Qed.

Theorem blech32_forms n tr key prog : In n nets -> seg_ok tr prog -> length key = 33%nat ->
  exists s, to_blech32 (n_blech32 n) (seg_ver tr) key prog = Ok s /\
    from_blech32 s = Ok (n_blech32 n, seg_ver tr, key, prog) /\
    network_for_address s = Ok n /\ decode_type s = Ok (cseg_type tr prog) /\
    is_confidential s = Ok true /\
    to_output_script s = of_opt (script_segwit (seg_ver tr) prog).
Proof.
  intros Hn Hp Lk. destruct (hrp_facts n Hn) as (_ & _ & _ & LO & _ & L2 & CO).
  destruct (cb_roundtrip (key ++ prog)) as (c & C1 & C2 & C3 & C4).
  assert (Lkp : (length (key ++ prog) = 53 \/ length (key ++ prog) = 65)%nat).
  { rewrite app_length, Lk. destruct tr; cbn in Hp; [|destruct Hp]; lia. }
  assert (Lkp' : tr = false -> (length (key ++ prog) = 53 /\ length prog = 20)%nat \/ (length (key ++ prog) = 65 /\ length prog = 32)%nat).
  { intros ->. rewrite app_length, Lk. cbn in Hp. destruct Hp; lia. }
  set (v := seg_ver tr) in *.
  assert (Sy : Forall (fun b => n8 b < 32) (v :: c)) by (constructor; [destruct tr; cbn; lia | exact C2]).
  assert (Ev : exists e, encoding_of_version v = Some e) by (destruct tr; eexists; reflexivity).
  destruct Ev as [e Ev].
  assert (P : pre (n_blech32 n) (length (v :: c) + 12) = true).
  { unfold pre. rewrite CO. cbn [length].
    destruct (Nat.ltb_spec (length (n_blech32 n) + 1 + (S (length c) + 12)) 8); [lia|].
    destruct (Nat.ltb_spec 1000 (length (n_blech32 n) + 1 + (S (length c) + 12))); [lia|].
    destruct (Nat.ltb_spec (length (n_blech32 n)) 1); [lia|].
    destruct (Nat.ltb_spec (S (length c) + 12) 12); [lia|]. reflexivity. }
  destruct (encode_decode (n_blech32 n) v c e LO P Sy Ev) as (s & En & De).
  destruct (encode_shape _ _ _ _ En) as (cs & Sh & NS).
  assert (FB : from_blech32 s = Ok (n_blech32 n, v, key, prog)).
  { unfold Addr.from_blech32. rewrite Sh, (last_index_canon _ _ NS).
    destruct (Nat.leb_spec (length (n_blech32 n)) 1) as [Q|_]; [lia|].
    rewrite <- Sh, De.
    replace (16 <? n8 v) with false by (destruct tr; reflexivity).
    rewrite C3.
    destruct (Nat.ltb_spec (length (key ++ prog)) (2 + 33)); [lia|].
    destruct (Nat.ltb_spec (40 + 33) (length (key ++ prog))); [lia|]. cbn [orb].
    replace ((n8 v =? 0) && negb (lenb (key ++ prog) 53) && negb (lenb (key ++ prog) 65)) with false.
    - rewrite <- Lk, firstn_app_exact, skipn_app, Nat.sub_diag, skipn_all. reflexivity.
    - unfold lenb. destruct tr; [reflexivity|]. destruct (Lkp' eq_refl) as [[Q _]|[Q _]]; rewrite Q; reflexivity. }
  assert (TB : to_blech32 (n_blech32 n) v key prog = Ok s).
  { unfold Addr.to_blech32. rewrite C1, Ev, En, FB, beqb_refl, bytes_eqb_refl. reflexivity. }
  destruct (prefix_blech n cs Hn NS) as (N1 & N2 & N3). rewrite <- Sh in N1, N2, N3.
  assert (NW : network_for_address s = Ok n) by (unfold Addr.network_for_address; rewrite N1; reflexivity).
  destruct (seg_len_checks tr prog Hp) as (_ & _ & _ & K4).
  assert (DT : decode_type s = Ok (cseg_type tr prog)).
  { unfold Addr.decode_type. rewrite NW, N2. unfold decode_blech32. rewrite FB. exact K4. }
  exists s. split; [exact TB|]. split; [exact FB|]. split; [exact NW|]. split; [exact DT|]. split.
  - unfold Addr.is_confidential. rewrite DT. unfold cseg_type. destruct tr; [reflexivity|]. destruct (lenb prog 20); reflexivity.
  - rewrite (tos_conf_segwit s (cseg_type tr prog) ltac:(unfold cseg_type; destruct tr; [|destruct (lenb prog 20)]; tauto) DT), FB. reflexivity.
Qed.

(* ------------------------------------------------------------------ *)
(* confidential <-> unconfidential                                      *)
(* ------------------------------------------------------------------ *)
Theorem conf_unconf_base58 n pkh key d scr : In n nets -> length key = 33%nat -> length d = 20%nat ->
  script_of pkh d = Some scr ->
  let u := to_base58 (ver_of n pkh) d in
  let c := to_base58_conf (n_conf n) (ver_of n pkh) key d in
  to_confidential u key = Ok c /\ from_confidential c = Ok (u, key, scr).
Proof.
  intros Hn Lk Ld Hs u c.
  destruct (type_of_base58 n pkh d Hn Ld) as (NWu & DTu & _ & OSu).
  destruct (type_of_base58_conf n pkh key d Hn Lk Ld) as (NWc & DTc & _ & _).
  fold u in NWu, DTu, OSu. fold c in NWc, DTc. split.
  - unfold Addr.to_confidential. rewrite NWu.
    destruct (no_hrp_prefix n u Hn (b58_not_hrp n _ d Hn (ver_in n pkh) (or_introl Ld))) as [P1 _]. rewrite P1.
    unfold u. rewrite from_to_base58 by exact Ld. reflexivity.
  - unfold Addr.from_confidential. rewrite NWc, DTc.
    replace ((is_cpkh_type pkh =? ConfidentialP2Pkh) || (is_cpkh_type pkh =? ConfidentialP2Sh)) with true by (destruct pkh; reflexivity).
    unfold c. rewrite from_to_base58_conf by assumption. fold u. rewrite OSu, Hs. reflexivity.
Qed.

Theorem conf_unconf_segwit n tr key prog : In n nets -> seg_ok tr prog -> length key = 33%nat ->
  exists u c scr, to_bech32 (n_bech32 n) (seg_ver tr) prog = Ok u /\
    to_blech32 (n_blech32 n) (seg_ver tr) key prog = Ok c /\
    script_segwit (seg_ver tr) prog = Some scr /\
    to_output_script u = Ok scr /\ to_output_script c = Ok scr /\
    to_confidential u key = Ok c /\ from_confidential c = Ok (u, key, scr).
Proof.
  intros Hn Hp Lk.
  destruct (bech32_forms n tr prog Hn Hp) as (u & TU & FU & NWu & DTu & _ & OSu).
  destruct (blech32_forms n tr key prog Hn Hp Lk) as (c & TC & FC & NWc & DTc & _ & OSc).
  destruct (seg_script tr prog Hp) as [scr Hs]. rewrite Hs in OSu, OSc.
  exists u, c, scr. split; [exact TU|]. split; [exact TC|]. split; [exact Hs|]. split; [exact OSu|]. split; [exact OSc|]. split.
  - unfold Addr.to_confidential. rewrite NWu.
    destruct (bech_total tr (n_bech32 n) (seg_ver tr :: []) ltac:(constructor; [destruct tr; cbn; lia | constructor])) as [_ _].
    unfold Addr.to_bech32 in TU. destruct (bcb prog 8 5 true) as [cv|]; [|discriminate].
    assert (Es : exists s0, bech_enc tr (n_bech32 n) (seg_ver tr :: cv) = Some s0 /\ s0 = u).
    { destruct tr; cbn [seg_ver] in *.
      - change (n8 x01 =? 0) with false in TU. change (n8 x01 =? 1) with true in TU. cbv iota in TU.
        destruct (bech_enc true (n_bech32 n) (x01 :: cv)) as [s0|]; [|discriminate]. inversion TU. eexists; split; reflexivity.
      - change (n8 x00 =? 0) with true in TU. cbv iota in TU.
        destruct (bech_enc false (n_bech32 n) (x00 :: cv)) as [s0|]; [|discriminate]. inversion TU. eexists; split; reflexivity. }
    destruct Es as (s0 & Es & ->).
    destruct (bech_shape _ _ _ _ Es) as (cs & Sh & NS).
    destruct (hrp_facts n Hn) as (_ & _ & LO & _). rewrite LO in Sh.
    destruct (prefix_bech n cs Hn NS) as (_ & _ & N3). rewrite <- Sh in N3. rewrite N3, FU. exact TC.
  - unfold Addr.from_confidential. rewrite NWc, DTc.
    replace ((cseg_type tr prog =? ConfidentialP2Pkh) || (cseg_type tr prog =? ConfidentialP2Sh)) with false
      by (unfold cseg_type; destruct tr; [|destruct (lenb prog 20)]; reflexivity).
    replace ((cseg_type tr prog =? ConfidentialP2Wpkh) || (cseg_type tr prog =? ConfidentialP2Wsh) || (cseg_type tr prog =? ConfidentialP2TR)) with true
      by (unfold cseg_type; destruct tr; [|destruct (lenb prog 20)]; reflexivity).
    rewrite FC, TU, OSu. reflexivity.
Qed.

(* ------------------------------------------------------------------ *)
(* payment builder: the address methods are the encoders above          *)
(* ------------------------------------------------------------------ *)
Notation pay_address := (pay_address b58enc bech_enc bcb).

Theorem payment_addresses n hash whash tap key : hash <> [] -> whash <> [] -> length tap = 32%nat ->
  pay_address 0 n hash whash tap key = Ok (to_base58 (n_pkh n) hash) /\
  pay_address 1 n hash whash tap key = Ok (to_base58_conf (n_conf n) (n_pkh n) key hash) /\
  pay_address 2 n hash whash tap key = Ok (to_base58 (n_sh n) hash) /\
  pay_address 3 n hash whash tap key = Ok (to_base58_conf (n_conf n) (n_sh n) key hash) /\
  pay_address 4 n hash whash tap key = swallow (to_bech32 (n_bech32 n) x00 whash) /\
  pay_address 5 n hash whash tap key = to_blech32 (n_blech32 n) x00 key whash /\
  pay_address 6 n hash whash tap key = to_bech32 (n_bech32 n) x00 whash /\
  pay_address 7 n hash whash tap key = swallow (to_blech32 (n_blech32 n) x00 key whash) /\
  pay_address 8 n hash whash tap key = to_bech32 (n_bech32 n) x01 tap /\
  pay_address 9 n hash whash tap key = swallow (to_blech32 (n_blech32 n) x01 key tap).
Proof.
  intros H1 H2 H3. unfold Addr.pay_address, lenb. rewrite H3.
  destruct hash as [|h0 hr]; [congruence|]. destruct whash as [|w0 wr]; [congruence|].
  repeat split; reflexivity.
Qed.

End Codecs.

(* ------------------------------------------------------------------ *)
(* whatever FromBlech32 accepts (any case) re-encodes to its lower-case  *)
(* spelling: Decode/Encode of C15 plus the regrouping laws               *)
(* ------------------------------------------------------------------ *)
Definition regroup_back_law : Prop :=
  forall c d, syms_ok c -> convert_bits c 5 8 false = Some d -> convert_bits d 8 5 true = Some c.

Lemma to_blech32_eq p v key program : to_blech32 p v key program =
  match convert_bits (key ++ program) 8 5 true with
  | None => Err
  | Some conv =>
      match encoding_of_version v with
      | None => Err
      | Some enc =>
          match encode p (v :: conv) enc with
          | None => Err
          | Some s =>
              match from_blech32 s with
              | Err => Err
              | Panic => Panic
              | Ok (_, v', k', p') =>
                  if beqb v' v && bytes_eqb (k' ++ p') (key ++ program) then Ok s else Err
              end
          end
      end
  end.
Proof. reflexivity. Qed.

Theorem blech32_recognised_reencodes s p v k pr : regroup_back_law ->
  from_blech32 s = Ok (p, v, k, pr) -> to_blech32 p v k pr = Ok (map to_lower s).
Proof.
  intros RB H. assert (H0 := H). unfold Addr.from_blech32 in H.
  destruct (last_index sep s) as [one|] eqn:LI; [|discriminate].
  destruct (one <=? 1)%nat eqn:O1; [discriminate|].
  destruct (decode s) as [h data| |] eqn:D; try discriminate.
  destruct data as [|v' rest]; [discriminate|].
  destruct (16 <? n8 v') eqn:V16; [discriminate|].
  destruct (convert_bits rest 5 8 false) as [rg|] eqn:Cb; [|discriminate].
  destruct ((length rg <? 2 + 33)%nat || (40 + 33 <? length rg)%nat) eqn:B1; [discriminate|].
  destruct ((n8 v' =? 0) && negb (lenb rg 53) && negb (lenb rg 65)) eqn:B2; [discriminate|].
  assert (E : firstn 33 rg ++ skipn 33 rg = rg) by apply firstn_skipn.
  assert (FL0 : forall l, decode l = DOk h (v' :: rest) -> last_index sep l = Some one ->
                from_blech32 l = Ok (h, v', firstn 33 rg, skipn 33 rg)).
  { intros l Dl Ll. unfold Addr.from_blech32. rewrite Ll, O1, Dl, V16, Cb, B1, B2. reflexivity. }
  remember (firstn 33 rg) as k0 eqn:Hk. remember (skipn 33 rg) as pr0 eqn:Hpr. clear Hk Hpr H0.
  injection H as E1 E2 E3 E4. subst p v k pr.
  destruct (decode_encode s h (v' :: rest) D) as (v2 & r2 & e & Ed & Ev & En). injection Ed as <- <-.
  pose proof (decode_data_syms s h _ D) as Sy. apply Forall_inv_tail in Sy. rename Sy into Sr.
  destruct (accepted_case_spellings s h _ D) as [Dl _].
  pose proof (FL0 (map to_lower s) Dl ltac:(rewrite last_index_lower; exact LI)) as FL.
  rewrite to_blech32_eq, E, (RB _ _ Sr Cb), Ev, En, FL, beqb_refl, E, bytes_eqb_refl.
  reflexivity.
Qed.

(* ------------------------------------------------------------------ *)
(* the closed statements: laws of the external codecs as one premise    *)
(* ------------------------------------------------------------------ *)

(* btcutil base58check, bech32 and bech32.ConvertBits *)
Definition ext_laws (b58enc : bytes -> byte -> bytes) (b58dec : bytes -> option (bytes * byte))
  (bech_dec : bytes -> option (bytes * bytes * bool)) (bech_enc : bool -> bytes -> bytes -> option bytes)
  (bcb : bytes -> N -> N -> bool -> option bytes) : Prop :=
  (forall d v, b58dec (b58enc d v) = Some (d, v)) /\
  (forall s d v, b58dec s = Some (d, v) -> b58enc d v = s) /\
  (forall n v d, In n nets -> In v (versions n) -> (length d = 20 \/ length d = 54)%nat ->
     net_by_hrp (b58enc d v) = None) /\
  (forall m hrp data s, bech_enc m hrp data = Some s ->
     exists cs, s = map to_lower hrp ++ sep :: cs /\ Forall (fun c => beqb c sep = false) cs) /\
  (forall m hrp data, syms_ok data -> exists s, bech_enc m hrp data = Some s) /\
  (forall m hrp data s, In hrp all_hrps -> (length data <= 70)%nat ->
     bech_enc m hrp data = Some s -> bech_dec s = Some (hrp, data, m)) /\
  (forall d, exists c, bcb d 8 5 true = Some c /\ syms_ok c /\ bcb c 5 8 false = Some d /\ (length c <= 2 * length d)%nat) /\
  (forall s h d m, bech_dec s = Some (h, d, m) -> bech_enc m h d = Some (map to_lower s) /\ syms_ok d) /\
  (forall c d, syms_ok c -> bcb c 5 8 false = Some d -> bcb d 8 5 true = Some c).

(* the repository's own blech32.ConvertBits: 8 -> 5 padded then 5 -> 8 is the identity *)
Definition regroup_law : Prop :=
  forall d, exists c, convert_bits d 8 5 true = Some c /\ syms_ok c /\
                      convert_bits c 5 8 false = Some d /\ (length c <= 2 * length d)%nat.

Section Closed.
Variables (b58enc : bytes -> byte -> bytes) (b58dec : bytes -> option (bytes * byte))
  (bech_dec : bytes -> option (bytes * bytes * bool)) (bech_enc : bool -> bytes -> bytes -> option bytes)
  (bcb : bytes -> N -> N -> bool -> option bytes).
Hypothesis L : ext_laws b58enc b58dec bech_dec bech_enc bcb.

Ltac laws := destruct L as (L1 & L2 & L3 & L4 & L5 & L6 & L7 & L8 & L9).
Ltac fin := solve [eassumption].

Theorem base58_roundtrip_l : forall v d, length d = 20%nat ->
  Addr.from_base58 b58dec (Addr.to_base58 b58enc v d) = Ok (v, d).
Proof. laws. intros. eapply from_to_base58; fin. Qed.
Theorem base58_reencode_l : forall s v d, Addr.from_base58 b58dec s = Ok (v, d) -> Addr.to_base58 b58enc v d = s.
Proof. laws. intros. eapply to_from_base58; fin. Qed.
Theorem base58_conf_roundtrip_l : forall cv v key d, length key = 33%nat -> length d = 20%nat ->
  Addr.from_base58_conf b58dec (Addr.to_base58_conf b58enc cv v key d) = Ok (cv, v, key, d).
Proof. laws. intros. eapply from_to_base58_conf; fin. Qed.
Theorem base58_conf_reencode_l : forall s cv v key d,
  Addr.from_base58_conf b58dec s = Ok (cv, v, key, d) -> Addr.to_base58_conf b58enc cv v key d = s.
Proof. laws. intros. eapply to_from_base58_conf; fin. Qed.

Theorem base58_forms_l : forall n pkh d, In n nets -> length d = 20%nat ->
  let s := Addr.to_base58 b58enc (ver_of n pkh) d in
  Addr.network_for_address b58dec s = Ok n /\ Addr.decode_type b58dec bech_dec bcb s = Ok (is_pkh_type pkh) /\
  Addr.is_confidential b58dec bech_dec bcb s = Ok false /\
  Addr.to_output_script b58dec bech_dec bcb s = of_opt (script_of pkh d).
Proof. laws. intros. eapply type_of_base58; fin. Qed.

Theorem base58_conf_forms_l : forall n pkh key d, In n nets -> length key = 33%nat -> length d = 20%nat ->
  let s := Addr.to_base58_conf b58enc (n_conf n) (ver_of n pkh) key d in
  Addr.network_for_address b58dec s = Ok n /\ Addr.decode_type b58dec bech_dec bcb s = Ok (is_cpkh_type pkh) /\
  Addr.is_confidential b58dec bech_dec bcb s = Ok true /\
  Addr.to_output_script b58dec bech_dec bcb s = of_opt (script_of pkh d).
Proof. laws. intros. eapply type_of_base58_conf; fin. Qed.

Theorem bech32_forms_l : forall n tr prog, In n nets -> seg_ok tr prog ->
  exists s, Addr.to_bech32 bech_enc bcb (n_bech32 n) (seg_ver tr) prog = Ok s /\
    Addr.from_bech32 bech_dec bcb s = Ok (n_bech32 n, seg_ver tr, prog) /\
    Addr.network_for_address b58dec s = Ok n /\ Addr.decode_type b58dec bech_dec bcb s = Ok (seg_type tr prog) /\
    Addr.is_confidential b58dec bech_dec bcb s = Ok false /\
    Addr.to_output_script b58dec bech_dec bcb s = of_opt (script_segwit (seg_ver tr) prog).
Proof. laws. intros. eapply bech32_forms; fin. Qed.

Theorem blech32_forms_l : regroup_law -> forall n tr key prog, In n nets -> seg_ok tr prog -> length key = 33%nat ->
  exists s, Addr.to_blech32 (n_blech32 n) (seg_ver tr) key prog = Ok s /\
    Addr.from_blech32 s = Ok (n_blech32 n, seg_ver tr, key, prog) /\
    Addr.network_for_address b58dec s = Ok n /\ Addr.decode_type b58dec bech_dec bcb s = Ok (cseg_type tr prog) /\
    Addr.is_confidential b58dec bech_dec bcb s = Ok true /\
    Addr.to_output_script b58dec bech_dec bcb s = of_opt (script_segwit (seg_ver tr) prog).
Proof. laws. intros R. intros. eapply blech32_forms; fin. Qed.

Theorem conf_unconf_base58_l : forall n pkh key d scr, In n nets -> length key = 33%nat -> length d = 20%nat ->
  script_of pkh d = Some scr ->
  let u := Addr.to_base58 b58enc (ver_of n pkh) d in
  let c := Addr.to_base58_conf b58enc (n_conf n) (ver_of n pkh) key d in
  Addr.to_confidential b58enc b58dec bech_dec bcb u key = Ok c /\
  Addr.from_confidential b58enc b58dec bech_dec bech_enc bcb c = Ok (u, key, scr).
Proof. laws. intros. eapply conf_unconf_base58; fin. Qed.

Theorem conf_unconf_segwit_l : regroup_law -> forall n tr key prog, In n nets -> seg_ok tr prog -> length key = 33%nat ->
  exists u c scr, Addr.to_bech32 bech_enc bcb (n_bech32 n) (seg_ver tr) prog = Ok u /\
    Addr.to_blech32 (n_blech32 n) (seg_ver tr) key prog = Ok c /\
    script_segwit (seg_ver tr) prog = Some scr /\
    Addr.to_output_script b58dec bech_dec bcb u = Ok scr /\ Addr.to_output_script b58dec bech_dec bcb c = Ok scr /\
    Addr.to_confidential b58enc b58dec bech_dec bcb u key = Ok c /\
    Addr.from_confidential b58enc b58dec bech_dec bech_enc bcb c = Ok (u, key, scr).
Proof. laws. intros R. intros. eapply conf_unconf_segwit; fin. Qed.

Theorem other_constant_rejected_l : forall n tr prog s', In n nets -> seg_ok tr prog ->
  (forall c, bcb prog 8 5 true = Some c -> bech_enc (negb tr) (n_bech32 n) (seg_ver tr :: c) = Some s') ->
  Addr.from_bech32 bech_dec bcb s' = Err /\ Addr.decode_type b58dec bech_dec bcb s' = Err.
Proof. laws. intros. eapply other_constant_rejected; fin. Qed.

Theorem bech32_recognised_reencodes_l : forall s p v prog,
  Addr.from_bech32 bech_dec bcb s = Ok (p, v, prog) -> n8 v <= 1 ->
  Addr.to_bech32 bech_enc bcb p v prog = Ok (map to_lower s).
Proof. laws. intros. eapply bech32_recognised_reencodes; fin. Qed.

Theorem recognised_bech32_versions_l : forall s t, decode_bech32 bech_dec bcb s = Ok t ->
  exists p v prog, Addr.from_bech32 bech_dec bcb s = Ok (p, v, prog) /\ n8 v <= 1.
Proof. laws. intros. eapply decode_bech32_versions; fin. Qed.

End Closed.

(* non-vacuity: the premises of the segwit theorems are met by every network and both versions *)
Example seg_ok_examples : seg_ok false (repeat x00 20) /\ seg_ok false (repeat x00 32) /\ seg_ok true (repeat x00 32) /\
  In liquid nets /\ In regtest nets /\ In testnet nets.
Proof. cbn. tauto. Qed.
