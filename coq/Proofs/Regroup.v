(* Proofs/Regroup.v — blech32.ConvertBits regroups correctly.
   The accumulator loop of Model/Blech32.v (shift-and-mask on uint8 values) is related, one
   input byte at a time, to a bit-list specification (push the bits of the input one by one,
   emit a group whenever `to` bits are collected); that single-byte relation is a finite
   statement (31 x 256 encoder cases, 255 x 32 decoder cases) checked in the kernel.  Every
   other step — folding over the input, padding, the incomplete-group rule, both round trips —
   is proved over the bit lists for all inputs. *)
From GE Require Import Lib.Bytes Model.Blech32 Proofs.Blech32.
From Coq Require Import ZifyBool ZifyN ZifyNat.
Import B32.
Open Scope N_scope.

(* ------------------------------------------------------------------ *)
(* bit lists, most significant bit first                               *)
(* ------------------------------------------------------------------ *)
Fixpoint bitsN (w : nat) (v : N) : list bool :=
  match w with O => [] | S k => bitsN k (v / 2) ++ [N.odd v] end.
Definition val (l : list bool) : N := fold_left (fun a b => 2 * a + N.b2n b) l 0.

Lemma bitsN_length w : forall v, length (bitsN w v) = w.
Proof. induction w as [|w IH]; intro v; cbn [bitsN]; [reflexivity|]. rewrite app_length, IH. cbn. lia. Qed.

Lemma val_snoc l b : val (l ++ [b]) = 2 * val l + N.b2n b.
Proof. unfold val. rewrite fold_left_app. reflexivity. Qed.

Lemma val_bound l : val l < 2 ^ N.of_nat (length l).
Proof.
  induction l as [|b l IH] using rev_ind; [cbn; lia|].
  rewrite val_snoc, app_length. cbn [length]. replace (length l + 1)%nat with (S (length l)) by lia.
  rewrite Nnat.Nat2N.inj_succ, N.pow_succ_r'. destruct b; cbn [N.b2n]; lia.
Qed.

Lemma odd_b2n v : N.b2n (N.odd v) = v mod 2.
Proof.
  rewrite <- N.bit0_odd, N.bit0_mod. reflexivity.
Qed.

Lemma val_bitsN w : forall v, val (bitsN w v) = v mod 2 ^ N.of_nat w.
Proof.
  induction w as [|w IH]; intro v; cbn [bitsN].
  - cbn. rewrite N.mod_1_r. reflexivity.
  - rewrite val_snoc, IH, odd_b2n, Nnat.Nat2N.inj_succ, N.pow_succ_r'.
    pose proof (N.pow_nonzero 2 (N.of_nat w) ltac:(discriminate)) as NZ.
    rewrite N.mod_mul_r by (try exact NZ; discriminate). apply N.add_comm.
Qed.

Lemma bitsN_val : forall l, bitsN (length l) (val l) = l.
Proof.
  induction l as [|b l IH] using rev_ind; [reflexivity|].
  rewrite app_length. cbn [length]. replace (length l + 1)%nat with (S (length l)) by lia. cbn [bitsN].
  rewrite val_snoc.
  replace ((2 * val l + N.b2n b) / 2) with (val l) by (destruct b; cbn [N.b2n]; lia).
  rewrite IH. f_equal. f_equal. destruct b; cbn [N.b2n].
  - rewrite N.add_comm, N.odd_add_mul_2. reflexivity.
  - rewrite N.add_0_r, N.odd_mul. reflexivity.
Qed.

Lemma val_zeros k : val (repeat false k) = 0.
Proof. induction k as [|k IH]; [reflexivity|]. change (repeat false (S k)) with ([false] ++ repeat false k).
  unfold val in *. rewrite fold_left_app. cbn [fold_left N.b2n]. exact IH. Qed.

Lemma val_app_zeros l k : val (l ++ repeat false k) = val l * 2 ^ N.of_nat k.
Proof.
  induction k as [|k IH]; [cbn; rewrite app_nil_r; lia|].
  replace (repeat false (S k)) with (repeat false k ++ [false]) by (rewrite <- repeat_cons; reflexivity).
  rewrite app_assoc, val_snoc, IH, Nnat.Nat2N.inj_succ, N.pow_succ_r'. cbn [N.b2n]. lia.
Qed.

Lemma val_zero_inv : forall l, val l = 0 -> l = repeat false (length l).
Proof.
  induction l as [|b l IH] using rev_ind; intro H; [reflexivity|].
  rewrite val_snoc in H. rewrite app_length. cbn [length]. replace (length l + 1)%nat with (S (length l)) by lia.
  cbn [repeat]. rewrite repeat_cons. destruct b; cbn [N.b2n] in H; [lia|]. rewrite <- IH by lia. reflexivity.
Qed.

(* ------------------------------------------------------------------ *)
(* the specification: push bits one by one                             *)
(* ------------------------------------------------------------------ *)
Definition sst := (list bool * bytes)%type.     (* collected bits, output in reverse order *)
Definition push (to : nat) (st : sst) (b : bool) : sst :=
  let acc := fst st ++ [b] in
  if Nat.eqb (length acc) to then ([], b8 (val acc) :: snd st) else (acc, snd st).
Definition pushes (to : nat) (st : sst) (bits : list bool) : sst := fold_left (push to) bits st.
Definition to_cb (st : sst) : cb_state := mk_cb (snd st) (val (fst st)) (N.of_nat (length (fst st))).

Lemma pushes_app to st a b : pushes to st (a ++ b) = pushes to (pushes to st a) b.
Proof. apply fold_left_app. Qed.

Lemma push_out to acc (o O : bytes) b :
  push to ((acc, o ++ O) : sst) b = ((fst (push to ((acc, o) : sst) b), snd (push to ((acc, o) : sst) b) ++ O) : sst).
Proof. unfold push. cbn [fst snd]. destruct (Nat.eqb (length (acc ++ [b])) to); reflexivity. Qed.

Lemma pushes_out to : forall bits acc (o O : bytes),
  pushes to ((acc, o ++ O) : sst) bits =
  ((fst (pushes to ((acc, o) : sst) bits), snd (pushes to ((acc, o) : sst) bits) ++ O) : sst).
Proof.
  induction bits as [|b bits IH]; intros acc o O; cbn [pushes fold_left]; [reflexivity|].
  rewrite push_out. destruct (push to (acc, o) b) as [a1 o1]. cbn [fst snd]. apply IH.
Qed.

Lemma pushes_small to : forall l acc out, (length acc + length l < to)%nat -> pushes to (acc, out) l = (acc ++ l, out).
Proof.
  induction l as [|b l IH]; intros acc out H; cbn [pushes fold_left]; [rewrite app_nil_r; reflexivity|].
  cbn [length] in H. unfold push at 2. cbn [fst snd].
  destruct (Nat.eqb_spec (length (acc ++ [b])) to) as [E|_]; [rewrite app_length in E; cbn in E; lia|].
  fold (pushes to (acc ++ [b], out) l). rewrite IH by (rewrite app_length; cbn; lia).
  rewrite <- app_assoc. reflexivity.
Qed.

(* a full group pushed into an empty accumulator is emitted *)
Lemma pushes_group to l out : length l = to -> (0 < to)%nat -> pushes to ([], out) l = ([], b8 (val l) :: out).
Proof.
  intros L P. destruct l as [|b l] using rev_ind; [cbn in L; lia|]. clear IHl.
  rewrite app_length in L. cbn [length] in L.
  rewrite pushes_app, pushes_small by (cbn; lia). cbn [pushes fold_left app]. unfold push. cbn [fst snd].
  destruct (Nat.eqb_spec (length (l ++ [b])) to) as [_|N]; [reflexivity | rewrite app_length in N; cbn in N; lia].
Qed.

Lemma push_len to acc out b : (length acc < to)%nat -> (length (fst (push to (acc, out) b)) < to)%nat.
Proof.
  intro H. unfold push. cbn [fst snd]. destruct (Nat.eqb_spec (length (acc ++ [b])) to) as [E|N]; cbn [fst length]; [lia|].
  rewrite app_length in *. cbn [length] in *. lia.
Qed.

Lemma pushes_len to : forall bits acc out, (length acc < to)%nat -> (length (fst (pushes to (acc, out) bits)) < to)%nat.
Proof.
  induction bits as [|b bits IH]; intros acc out H; cbn [pushes fold_left]; [exact H|].
  pose proof (push_len to acc out b H) as Q. destruct (push to (acc, out) b) as [a1 o1]. apply IH. exact Q.
Qed.

(* the bits of the output followed by the collected bits are the bits pushed so far *)
Definition bits_of (w : nat) (l : bytes) : list bool := concat (map (fun y => bitsN w (n8 y)) l).
Definition flat (to : nat) (st : sst) : list bool := bits_of to (rev (snd st)) ++ fst st.

Lemma bits_of_app w a b : bits_of w (a ++ b) = bits_of w a ++ bits_of w b.
Proof. unfold bits_of. rewrite map_app, concat_app. reflexivity. Qed.

Lemma push_flat to acc out b : (to <= 8)%nat -> (length acc < to)%nat ->
  flat to (push to (acc, out) b) = flat to (acc, out) ++ [b].
Proof.
  intros T8 H. unfold push, flat. cbn [fst snd].
  destruct (Nat.eqb_spec (length (acc ++ [b])) to) as [E|N]; cbn [fst snd].
  - cbn [rev]. rewrite bits_of_app, app_nil_r, <- app_assoc. f_equal.
    unfold bits_of. cbn [map concat]. rewrite app_nil_r, n8_b8.
    pose proof (val_bound (acc ++ [b])) as B. rewrite E in B.
    assert (2 ^ N.of_nat to <= 256) by (change 256 with (2 ^ 8); apply N.pow_le_mono_r; lia).
    rewrite N.mod_small by lia. rewrite <- E. apply bitsN_val.
  - rewrite app_assoc. reflexivity.
Qed.

Lemma pushes_flat to : (to <= 8)%nat -> forall bits acc out, (length acc < to)%nat ->
  flat to (pushes to (acc, out) bits) = flat to (acc, out) ++ bits.
Proof.
  intro T8. induction bits as [|b bits IH]; intros acc out H; cbn [pushes fold_left]; [rewrite app_nil_r; reflexivity|].
  pose proof (push_len to acc out b H) as Q. pose proof (push_flat to acc out b T8 H) as F.
  destruct (push to (acc, out) b) as [a1 o1]. cbn [fst] in Q.
  fold (pushes to (a1, o1) bits). rewrite IH by exact Q. rewrite F, <- app_assoc. reflexivity.
Qed.

(* every emitted group is below 2^to *)
Lemma push_small to acc out b : Forall (fun y => n8 y < 2 ^ N.of_nat to) out -> (to <= 8)%nat ->
  Forall (fun y => n8 y < 2 ^ N.of_nat to) (snd (push to (acc, out) b)).
Proof.
  intros F T8. unfold push. cbn [fst snd]. destruct (Nat.eqb_spec (length (acc ++ [b])) to) as [E|N]; cbn [snd]; [|exact F].
  constructor; [|exact F]. rewrite n8_b8. pose proof (val_bound (acc ++ [b])) as B. rewrite E in B.
  assert (2 ^ N.of_nat to <= 256) by (change 256 with (2 ^ 8); apply N.pow_le_mono_r; lia).
  rewrite N.mod_small by lia. exact B.
Qed.

Lemma pushes_small_out to : (to <= 8)%nat -> forall bits acc out, Forall (fun y => n8 y < 2 ^ N.of_nat to) out ->
  Forall (fun y => n8 y < 2 ^ N.of_nat to) (snd (pushes to (acc, out) bits)).
Proof.
  intro T8. induction bits as [|b bits IH]; intros acc out F; cbn [pushes fold_left]; [exact F|].
  pose proof (push_small to acc out b F T8) as Q. destruct (push to (acc, out) b) as [a1 o1]. apply IH. exact Q.
Qed.

(* ------------------------------------------------------------------ *)
(* the accumulator loop only ever conses onto its output                *)
(* ------------------------------------------------------------------ *)
Lemma cb_inner_out fuel t : forall b rem o O n f,
  cb_inner fuel t b rem (mk_cb (o ++ O) n f) =
  let r := cb_inner fuel t b rem (mk_cb o n f) in mk_cb (cb_out r ++ O) (cb_next r) (cb_filled r).
Proof.
  induction fuel as [|fuel IH]; intros b rem o O n f; cbn [cb_inner]; [reflexivity|].
  destruct (rem =? 0); [reflexivity|]. cbn [cb_filled cb_next cb_out].
  destruct (f + (if t - f <? rem then t - f else rem) =? t).
  - rewrite app_comm_cons. apply IH.
  - apply IH.
Qed.

Lemma cb_byte_out fr t O n f x :
  cb_byte fr t (mk_cb O n f) x =
  let r := cb_byte fr t (mk_cb [] n f) x in mk_cb (cb_out r ++ O) (cb_next r) (cb_filled r).
Proof. unfold cb_byte. apply (cb_inner_out 8 t _ _ [] O n f). Qed.

(* ------------------------------------------------------------------ *)
(* one input byte: loop = specification (finite, checked in the kernel)  *)
(* ------------------------------------------------------------------ *)
Definition st_eqb (a b : cb_state) : bool :=
  bytes_eqb (cb_out a) (cb_out b) && (cb_next a =? cb_next b) && (cb_filled a =? cb_filled b).
Lemma st_eqb_eq a b : st_eqb a b = true -> a = b.
Proof.
  destruct a, b. unfold st_eqb. cbn. intro H. apply andb_true_iff in H as [H H3]. apply andb_true_iff in H as [H1 H2].
  apply bytes_eqb_eq in H1. apply N.eqb_eq in H2, H3. subst. reflexivity.
Qed.

Definition upto (k : nat) : list N := map N.of_nat (seq 0 k).
Lemma in_upto k v : v < N.of_nat k -> In v (upto k).
Proof. intro H. apply in_map_iff. exists (N.to_nat v). split; [lia | apply in_seq; lia]. Qed.

Definition table_ok (fr to : nat) : bool :=
  forallb (fun fl => forallb (fun nx => forallb (fun x =>
      st_eqb (cb_byte (N.of_nat fr) (N.of_nat to) (mk_cb [] nx (N.of_nat fl)) (b8 x))
             (to_cb (pushes to (bitsN fl nx, []) (bitsN fr x))))
    (upto (2 ^ fr))) (upto (2 ^ fl))) (seq 0 to).

Lemma enc_table : table_ok 8 5 = true. Proof. vm_compute. reflexivity. Qed.
Lemma dec_table : table_ok 5 8 = true. Proof. vm_compute. reflexivity. Qed.

Lemma pow2_nat k : N.of_nat (2 ^ k) = 2 ^ N.of_nat k.
Proof.
  induction k as [|k IH]; [reflexivity|]. change (2 ^ S k)%nat with (2 * 2 ^ k)%nat.
  rewrite Nnat.Nat2N.inj_mul, IH, (Nnat.Nat2N.inj_succ k), N.pow_succ_r'. reflexivity.
Qed.

Lemma table_lookup fr to : table_ok fr to = true ->
  forall fl nx x, (fl < to)%nat -> nx < 2 ^ N.of_nat fl -> x < 2 ^ N.of_nat fr ->
  cb_byte (N.of_nat fr) (N.of_nat to) (mk_cb [] nx (N.of_nat fl)) (b8 x) =
  to_cb (pushes to (bitsN fl nx, []) (bitsN fr x)).
Proof.
  intros T fl nx x Hfl Hnx Hx. unfold table_ok in T. rewrite forallb_forall in T.
  assert (I0 : In fl (seq 0 to)) by (apply in_seq; lia).
  pose proof (T fl I0) as T1. rewrite forallb_forall in T1.
  assert (I1 : In nx (upto (2 ^ fl))) by (apply in_upto; rewrite pow2_nat; exact Hnx).
  pose proof (T1 nx I1) as T2. rewrite forallb_forall in T2.
  apply st_eqb_eq. apply T2. apply in_upto. rewrite pow2_nat. exact Hx.
Qed.

Lemma byte_step0 fr to : table_ok fr to = true ->
  forall acc x, (length acc < to)%nat -> n8 x < 2 ^ N.of_nat fr ->
  cb_byte (N.of_nat fr) (N.of_nat to) (mk_cb [] (val acc) (N.of_nat (length acc))) x =
  to_cb (pushes to (acc, []) (bitsN fr (n8 x))).
Proof.
  intros T acc x La Hx.
  pose proof (table_lookup fr to T (length acc) (val acc) (n8 x) La (val_bound acc) Hx) as Q.
  rewrite b8_n8, bitsN_val in Q. exact Q.
Qed.

Lemma to_cb_out (P0 : sst) (out : bytes) :
  mk_cb (cb_out (to_cb P0) ++ out) (cb_next (to_cb P0)) (cb_filled (to_cb P0)) = to_cb (fst P0, snd P0 ++ out).
Proof. destruct P0. reflexivity. Qed.

Lemma byte_step fr to : table_ok fr to = true -> (fr <= 8)%nat ->
  forall acc out x, (length acc < to)%nat -> n8 x < 2 ^ N.of_nat fr ->
  cb_byte (N.of_nat fr) (N.of_nat to) (to_cb (acc, out)) x = to_cb (pushes to (acc, out) (bitsN fr (n8 x))).
Proof.
  intros T F8 acc out x La Hx.
  unfold to_cb at 1. cbn [fst snd]. rewrite cb_byte_out. cbv zeta. rewrite (byte_step0 fr to T acc x La Hx).
  rewrite to_cb_out. f_equal. symmetry. exact (pushes_out to (bitsN fr (n8 x)) acc [] out).
Qed.

Lemma bits_of_cons w x d : bits_of w (x :: d) = bitsN w (n8 x) ++ bits_of w d.
Proof. reflexivity. Qed.

Lemma bits_of_nil w : bits_of w [] = []. Proof. reflexivity. Qed.
Lemma pushes_nil to st : pushes to st [] = st. Proof. reflexivity. Qed.
Lemma fold_left_cons {A B} (f : A -> B -> A) x l a : fold_left f (x :: l) a = fold_left f l (f a x).
Proof. reflexivity. Qed.
Lemma fold_left_nil {A B} (f : A -> B -> A) a : fold_left f [] a = a.
Proof. reflexivity. Qed.

Lemma fold_bytes fr to : table_ok fr to = true -> (fr <= 8)%nat ->
  forall data acc out, (length acc < to)%nat -> Forall (fun x => n8 x < 2 ^ N.of_nat fr) data ->
  fold_left (cb_byte (N.of_nat fr) (N.of_nat to)) data (to_cb (acc, out)) =
  to_cb (pushes to (acc, out) (bits_of fr data)).
Proof.
  intros T F8. induction data as [|x data IH]; intros acc out La F.
  - rewrite bits_of_nil, pushes_nil, fold_left_nil. reflexivity.
  - pose proof (Forall_inv F) as Hx. pose proof (Forall_inv_tail F) as F'.
    rewrite bits_of_cons, pushes_app, fold_left_cons.
    rewrite (byte_step fr to T F8 acc out x La Hx).
    pose proof (pushes_len to (bitsN fr (n8 x)) acc out La) as Q.
    destruct (pushes to (acc, out) (bitsN fr (n8 x))) as [a1 o1]. apply IH; assumption.
Qed.

(* ------------------------------------------------------------------ *)
(* ConvertBits 8 -> 5 (padded) and 5 -> 8 (unpadded) through the spec   *)
(* ------------------------------------------------------------------ *)
Definition small5 (l : bytes) : Prop := Forall (fun b => n8 b < 32) l.

Lemma cb85_unfold data : convert_bits data 8 5 true =
  let st := fold_left (cb_byte 8 5) data (mk_cb [] 0 0) in
  let st' := if 0 <? cb_filled st
             then mk_cb (b8 (u8 (N.shiftl (cb_next st) (5 - cb_filled st))) :: cb_out st) 0 0 else st in
  if (0 <? cb_filled st') && ((4 <? cb_filled st') || negb (cb_next st' =? 0)) then None
  else Some (rev (cb_out st')).
Proof. reflexivity. Qed.

Lemma cb58_unfold c : convert_bits c 5 8 false =
  let st := fold_left (cb_byte 5 8) c (mk_cb [] 0 0) in
  if (0 <? cb_filled st) && ((4 <? cb_filled st) || negb (cb_next st =? 0)) then None
  else Some (rev (cb_out st)).
Proof. reflexivity. Qed.

Lemma any_byte_small8 data : Forall (fun x => n8 x < 2 ^ N.of_nat 8) data.
Proof. apply Forall_forall. intros x _. change (2 ^ N.of_nat 8) with 256. apply n8_lt. Qed.

Lemma fold85 data : fold_left (cb_byte 8 5) data (mk_cb [] 0 0) = to_cb (pushes 5 ([], []) (bits_of 8 data)).
Proof.
  change (mk_cb [] 0 0) with (to_cb ([], [])). change 8 with (N.of_nat 8) at 1. change 5 with (N.of_nat 5) at 1.
  apply (fold_bytes 8 5 enc_table); [lia | cbn; lia | apply any_byte_small8].
Qed.

Lemma fold58 c : small5 c -> fold_left (cb_byte 5 8) c (mk_cb [] 0 0) = to_cb (pushes 8 ([], []) (bits_of 5 c)).
Proof.
  intro S. change (mk_cb [] 0 0) with (to_cb ([], [])). change 5 with (N.of_nat 5) at 1. change 8 with (N.of_nat 8) at 1.
  apply (fold_bytes 5 8 dec_table); [lia | cbn; lia | exact S].
Qed.

(* the padding symbol *)
Definition enc_tail (acc : list bool) : bytes :=
  match acc with [] => [] | _ => [b8 (val (acc ++ repeat false (5 - length acc)))] end.

Lemma pad_value (a : list bool) : (0 < length a < 5)%nat ->
  u8 (N.shiftl (val a) (5 - N.of_nat (length a))) = val (a ++ repeat false (5 - length a)).
Proof.
  intro H. rewrite N.shiftl_mul_pow2, val_app_zeros.
  replace (N.of_nat (5 - length a)) with (5 - N.of_nat (length a)) by lia.
  unfold u8. apply N.mod_small.
  pose proof (val_bound (a ++ repeat false (5 - length a))) as B.
  rewrite app_length, repeat_length in B. replace (length a + (5 - length a))%nat with 5%nat in B by lia.
  rewrite val_app_zeros in B. replace (N.of_nat (5 - length a)) with (5 - N.of_nat (length a)) in B by lia.
  change (2 ^ N.of_nat 5) with 32 in B. lia.
Qed.

Lemma conv85 data :
  let P := pushes 5 ([], []) (bits_of 8 data) in
  convert_bits data 8 5 true = Some (rev (snd P) ++ enc_tail (fst P)).
Proof.
  cbv zeta. rewrite cb85_unfold. cbv zeta. rewrite fold85.
  pose proof (pushes_len 5 (bits_of 8 data) [] [] ltac:(cbn; lia)) as L.
  destruct (pushes 5 ([], []) (bits_of 8 data)) as [acc out] eqn:E.
  unfold sst, bytes in *. try rewrite E in L. cbn [fst snd] in *.
  unfold to_cb. cbn [fst snd cb_out cb_next cb_filled].
  destruct acc as [|b acc].
  - cbn [length enc_tail]. change (0 <? N.of_nat 0) with false. cbv iota. cbn [cb_filled cb_next cb_out].
    change (0 <? N.of_nat 0) with false. cbn [andb]. rewrite app_nil_r. reflexivity.
  - assert (Hp : 0 <? N.of_nat (length (b :: acc)) = true) by (apply N.ltb_lt; cbn [length]; lia).
    rewrite Hp. cbn [cb_filled cb_next cb_out]. change (0 <? 0) with false. cbn [andb rev enc_tail].
    rewrite pad_value by (cbn [length] in *; lia). reflexivity.
Qed.

Lemma conv58 c : small5 c ->
  let P := pushes 8 ([], []) (bits_of 5 c) in
  convert_bits c 5 8 false =
  if (0 <? N.of_nat (length (fst P))) && ((4 <? N.of_nat (length (fst P))) || negb (val (fst P) =? 0))
  then None else Some (rev (snd P)).
Proof. intro S. cbv zeta. rewrite cb58_unfold. cbv zeta. rewrite (fold58 c S). reflexivity. Qed.

(* ------------------------------------------------------------------ *)
(* bits of the regrouped output                                        *)
(* ------------------------------------------------------------------ *)
Lemma bits_of_length w : forall l, length (bits_of w l) = (w * length l)%nat.
Proof.
  induction l as [|x l IH]; [rewrite bits_of_nil; cbn; lia|].
  rewrite bits_of_cons, app_length, bitsN_length, IH. cbn [length]. lia.
Qed.

Lemma app_eq_len {A} : forall (a b c d : list A), length a = length b -> a ++ c = b ++ d -> a = b /\ c = d.
Proof.
  induction a as [|x a IH]; intros [|y b] c d L E; cbn in L; try discriminate; cbn [app] in E.
  - split; [reflexivity | exact E].
  - inversion E as [[E1 E2]]. destruct (IH b c d ltac:(congruence) E2) as [-> ->]. split; reflexivity.
Qed.

Lemma bits_of_inj w : (0 < w)%nat -> forall a b,
  Forall (fun x => n8 x < 2 ^ N.of_nat w) a -> Forall (fun x => n8 x < 2 ^ N.of_nat w) b ->
  bits_of w a = bits_of w b -> a = b.
Proof.
  intro W. induction a as [|x a IH]; intros [|y b] Fa Fb E.
  - reflexivity.
  - apply (f_equal (@length bool)) in E. rewrite bits_of_nil, bits_of_length in E. cbn [length] in E. lia.
  - apply (f_equal (@length bool)) in E. rewrite bits_of_nil, bits_of_length in E. cbn [length] in E. lia.
  - rewrite !bits_of_cons in E.
    apply app_eq_len in E as [E1 E2]; [|rewrite !bitsN_length; reflexivity].
    apply (f_equal val) in E1. rewrite !val_bitsN in E1.
    pose proof (Forall_inv Fa) as Hx. pose proof (Forall_inv Fb) as Hy. cbv beta in Hx, Hy.
    rewrite !N.mod_small in E1 by assumption. apply n8_inj in E1. subst y.
    f_equal. apply IH; [exact (Forall_inv_tail Fa) | exact (Forall_inv_tail Fb) | exact E2].
Qed.

Lemma pushes8_bytes : forall d out, pushes 8 ([], out) (bits_of 8 d) = ([], rev d ++ out).
Proof.
  induction d as [|x d IH]; intro out.
  - rewrite bits_of_nil, pushes_nil. reflexivity.
  - rewrite bits_of_cons, pushes_app, pushes_group by (try apply bitsN_length; lia).
    rewrite val_bitsN. change (2 ^ N.of_nat 8) with 256.
    rewrite N.mod_small by apply n8_lt. rewrite b8_n8, IH. cbn [rev]. rewrite <- app_assoc. reflexivity.
Qed.

(* the bits of what 8 -> 5 produces: the input bits followed by fewer than five zero bits *)
Lemma enc_bits data : exists c p, convert_bits data 8 5 true = Some c /\ small5 c /\
  bits_of 5 c = bits_of 8 data ++ repeat false p /\ (p < 5)%nat.
Proof.
  pose proof (conv85 data) as C. cbv zeta in C.
  pose proof (pushes_flat 5 ltac:(lia) (bits_of 8 data) [] [] ltac:(cbn; lia)) as Fl.
  pose proof (pushes_len 5 (bits_of 8 data) [] [] ltac:(cbn; lia)) as L.
  pose proof (pushes_small_out 5 ltac:(lia) (bits_of 8 data) [] [] ltac:(constructor)) as So.
  destruct (pushes 5 ([], []) (bits_of 8 data)) as [acc out] eqn:E.
  unfold sst, bytes in *. try rewrite E in Fl. try rewrite E in L. try rewrite E in So.
  unfold flat in Fl. cbn [fst snd rev app] in *. rewrite bits_of_nil in Fl. cbn [app] in Fl.
  change (2 ^ N.of_nat 5) with 32 in So.
  exists (rev out ++ enc_tail acc), (match acc with [] => O | _ => 5 - length acc end)%nat.
  split; [exact C|]. destruct acc as [|b acc].
  - cbn [enc_tail]. rewrite !app_nil_r in *. split; [|split; [exact Fl | lia]].
    apply Forall_rev. exact So.
  - cbn [enc_tail]. set (a := b :: acc) in *. split; [|split].
    + apply Forall_app. split; [apply Forall_rev; exact So|]. constructor; [|constructor].
      rewrite n8_b8. pose proof (val_bound (a ++ repeat false (5 - length a))) as B.
      rewrite app_length, repeat_length in B. replace (length a + (5 - length a))%nat with 5%nat in B by lia.
      change (2 ^ N.of_nat 5) with 32 in B. rewrite N.mod_small by lia. exact B.
    + rewrite bits_of_app, <- Fl, <- app_assoc. f_equal.
      rewrite bits_of_cons, bits_of_nil, app_nil_r, n8_b8.
      pose proof (val_bound (a ++ repeat false (5 - length a))) as B.
      rewrite app_length, repeat_length in B. replace (length a + (5 - length a))%nat with 5%nat in B by lia.
      change (2 ^ N.of_nat 5) with 32 in B. rewrite N.mod_small by lia.
      replace 5%nat with (length (a ++ repeat false (5 - length a))) at 1
        by (rewrite app_length, repeat_length; lia).
      apply bitsN_val.
    + unfold a. cbn [length]. lia.
Qed.

(* ------------------------------------------------------------------ *)
(* the two regrouping laws, for all byte lists                          *)
(* ------------------------------------------------------------------ *)
Theorem regroup_roundtrip : forall d, exists c, convert_bits d 8 5 true = Some c /\ small5 c /\
  convert_bits c 5 8 false = Some d /\ (length c <= 2 * length d)%nat.
Proof.
  intro d. destruct (enc_bits d) as (c & p & C & S & B & P). exists c. split; [exact C|]. split; [exact S|]. split.
  - rewrite (conv58 c S). cbv zeta. rewrite B, pushes_app, pushes8_bytes, app_nil_r.
    rewrite pushes_small by (rewrite repeat_length; cbn [length]; lia). cbn [fst snd app].
    rewrite repeat_length, val_zeros, rev_involutive. change (0 =? 0) with true. cbn [negb]. rewrite orb_false_r.
    destruct (N.ltb_spec 4 (N.of_nat p)) as [Q|_]; [lia|]. rewrite andb_false_r. reflexivity.
  - apply (f_equal (@length bool)) in B. rewrite app_length, !bits_of_length, repeat_length in B. lia.
Qed.

Theorem regroup_back : forall c d, small5 c -> convert_bits c 5 8 false = Some d -> convert_bits d 8 5 true = Some c.
Proof.
  intros c d S H. rewrite (conv58 c S) in H. cbv zeta in H.
  pose proof (pushes_flat 8 ltac:(lia) (bits_of 5 c) [] [] ltac:(cbn; lia)) as Fl.
  pose proof (pushes_len 8 (bits_of 5 c) [] [] ltac:(cbn; lia)) as L.
  destruct (pushes 8 ([], []) (bits_of 5 c)) as [acc out] eqn:E.
  unfold sst, bytes in *. try rewrite E in Fl. try rewrite E in L.
  unfold flat in Fl. cbn [fst snd rev app] in *. rewrite bits_of_nil in Fl. cbn [app] in Fl.
  destruct ((0 <? N.of_nat (length acc)) && ((4 <? N.of_nat (length acc)) || negb (val acc =? 0))) eqn:Ck; [discriminate|].
  inversion H; subst d. clear H.
  assert (Z : acc = repeat false (length acc) /\ (length acc <= 4)%nat).
  { destruct acc as [|b acc]; [split; [reflexivity | cbn; lia]|].
    assert (Hp : 0 <? N.of_nat (length (b :: acc)) = true) by (apply N.ltb_lt; cbn [length]; lia).
    rewrite Hp in Ck. cbn [andb] in Ck. apply orb_false_iff in Ck as [C1 C2].
    apply N.ltb_ge in C1. apply negb_false_iff, N.eqb_eq in C2. split; [apply val_zero_inv; exact C2 | lia]. }
  destruct Z as [Z Q]. set (q := length acc) in *.
  destruct (enc_bits (rev out)) as (c' & p & C' & S' & B' & P'). rewrite C'. f_equal.
  assert (Epq : p = q).
  { pose proof (f_equal (@length bool) Fl) as L1. pose proof (f_equal (@length bool) B') as L2.
    rewrite Z in L1. rewrite app_length, !bits_of_length, repeat_length in L1, L2. lia. }
  apply (bits_of_inj 5 ltac:(lia)); [exact S' | exact S |]. rewrite B', <- Fl, Epq. f_equal. symmetry. exact Z.
Qed.
