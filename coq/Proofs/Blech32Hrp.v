(* Proofs/Blech32Hrp.v — C15, substitutions inside the human-readable part.
   One or two substituted HRP characters, or one HRP character together with one data-part
   symbol, of a valid blech32 string with one of the three network prefixes (taken from
   Gen/NetConsts.v) are rejected by Decode's checksum, for every length the decoder admits.
   By linearity a changed prefix xors a word G(hrp, hrp') into the running polymod value
   before the data part; polymod_step with input 0 is injective on 60-bit words, so G <> 0
   suffices for HRP-only errors, and the mixed case reduces to two finite tables
   (vm_compute, lifted by forallb_forall). *)
From GE Require Import Lib.Bytes Gen.Blech32Consts Gen.NetConsts Model.Blech32 Proofs.Blech32.
From Coq Require Import ZifyBool ZifyN ZifyNat.
Import B32.
Open Scope N_scope.

Arguments polymod_step : simpl never.
Arguments N.shiftl : simpl never.
Arguments N.shiftr : simpl never.
Arguments N.land : simpl never.
Arguments N.lxor : simpl never.
Arguments N.testbit : simpl never.

(* ------------------------------------------------------------------ *)
(* polymod_step c 0 is injective on words below 2^60                    *)
(* ------------------------------------------------------------------ *)
Definition gen_comb (hi : N) : N := apply_gen hi gen 0 0.

Lemma apply_gen_acc b gs i a : apply_gen b gs i a = N.lxor (apply_gen b gs i 0) a.
Proof.
  rewrite <- (N.lxor_0_r b) at 1. rewrite <- (N.lxor_0_l a) at 1.
  rewrite apply_gen_linear, apply_gen_zero. reflexivity.
Qed.

(* the low five bits of the generator combination identify the five feedback bits *)
Lemma gen_low_bits_checked :
  forallb (fun hi => (hi =? 0) || negb (N.land (gen_comb hi) 31 =? 0)) (map N.of_nat (seq 0 32)) = true.
Proof. vm_compute. reflexivity. Qed.

Lemma gen_low_bits hi : hi < 32 -> N.land (gen_comb hi) 31 = 0 -> hi = 0.
Proof.
  intros H E. pose proof gen_low_bits_checked as F. rewrite forallb_forall in F.
  specialize (F hi). assert (I : In hi (map N.of_nat (seq 0 32))).
  { apply in_map_iff. exists (N.to_nat hi). split; [lia | apply in_seq; lia]. }
  specialize (F I). rewrite E in F. cbn in F. rewrite orb_false_r in F. apply N.eqb_eq in F. exact F.
Qed.

Lemma shiftl5_low x : N.land (N.shiftl x 5) 31 = 0.
Proof.
  change 31 with (N.ones 5). rewrite N.land_ones, N.shiftl_mul_pow2. apply N.mod_mul. discriminate.
Qed.

Lemma step0_kernel c : c < 2 ^ 60 -> step0 c = 0 -> c = 0.
Proof.
  intros Hc E. unfold step0, polymod_step in E. rewrite N.lxor_0_r, apply_gen_acc in E.
  fold (gen_comb (N.shiftr c 55)) in E.
  assert (Hhi : N.shiftr c 55 < 32).
  { rewrite N.shiftr_div_pow2. apply N.div_lt_upper_bound; [discriminate|]. exact Hc. }
  assert (L : N.land (gen_comb (N.shiftr c 55)) 31 = 0).
  { apply (f_equal (fun x => N.land x 31)) in E. rewrite land_lxor_l, shiftl5_low, N.lxor_0_r in E.
    rewrite E. reflexivity. }
  pose proof (gen_low_bits _ Hhi L) as H0.
  rewrite H0 in E. change (gen_comb 0) with 0 in E. rewrite N.lxor_0_l in E.
  rewrite land_mask55, N.shiftl_mul_pow2 in E.
  rewrite N.shiftr_div_pow2 in H0.
  assert (c mod 2 ^ 55 = 0) by (destruct (c mod 2 ^ 55); [reflexivity | discriminate]).
  pose proof (N.div_mod c (2 ^ 55) ltac:(discriminate)). lia.
Qed.

Lemma step0_bound c : step0 c < 2 ^ 60.
Proof. unfold step0. apply polymod_step_bound. reflexivity. Qed.

Lemma shift_bound j : forall c, c < 2 ^ 60 -> shift j c < 2 ^ 60.
Proof. induction j as [|j IH]; intros c H; cbn [shift]; [exact H | apply IH, step0_bound]. Qed.

Lemma step0_inj a b : a < 2 ^ 60 -> b < 2 ^ 60 -> step0 a = step0 b -> a = b.
Proof.
  intros Ha Hb E. apply N.lxor_eq. apply step0_kernel; [apply lxor_lt_pow2; assumption|].
  rewrite step0_lxor, E. apply N.lxor_nilpotent.
Qed.

Theorem shift_inj j : forall a b, a < 2 ^ 60 -> b < 2 ^ 60 -> shift j a = shift j b -> a = b.
Proof.
  induction j as [|j IH]; intros a b Ha Hb E; cbn [shift] in E; [exact E|].
  apply step0_inj; try assumption. apply IH; [apply step0_bound | apply step0_bound | exact E].
Qed.

Lemma shift_nonzero j c : c < 2 ^ 60 -> c <> 0 -> shift j c <> 0.
Proof. intros H N0 E. apply N0. apply (shift_inj j); [exact H | reflexivity | rewrite shift_0; exact E]. Qed.

Lemma shift_add a : forall b c, shift (a + b) c = shift b (shift a c).
Proof. induction a as [|a IH]; intros b c; cbn [shift Nat.add]; [reflexivity | apply IH]. Qed.

(* ------------------------------------------------------------------ *)
(* a changed prefix xors one word into the polymod before the data part *)
(* ------------------------------------------------------------------ *)
Definition hdiff (hrp hrp' : bytes) : N := polymod_from 0 (xor_list (hrp_expand hrp) (hrp_expand hrp')).

Lemma xor_list_cancel : forall a b, length a = length b -> xor_list a (xor_list a b) = b.
Proof.
  induction a as [|x a IH]; intros [|y b] L; cbn in L; try discriminate; cbn [xor_list]; [reflexivity|].
  rewrite IH by congruence. f_equal. clear. xor_bits.
Qed.

Lemma xor_list_length : forall a b, length a = length b -> length (xor_list a b) = length a.
Proof. induction a as [|x a IH]; intros [|y b] L; cbn in L; try discriminate; cbn; [reflexivity | rewrite IH; congruence]. Qed.

Lemma hrp_expand_length h : length (hrp_expand h) = (2 * length h + 1)%nat.
Proof. unfold hrp_expand. rewrite !app_length, !map_length. cbn. lia. Qed.

Lemma polymod_hrp_change hrp hrp' vs : length hrp' = length hrp ->
  polymod (hrp_expand hrp' ++ vs) = N.lxor (polymod (hrp_expand hrp ++ vs)) (shift (length vs) (hdiff hrp hrp')).
Proof.
  intro L. unfold polymod. rewrite !polymod_from_app.
  assert (LE : length (hrp_expand hrp) = length (hrp_expand hrp')) by (rewrite !hrp_expand_length, L; reflexivity).
  rewrite <- (xor_list_cancel (hrp_expand hrp) (hrp_expand hrp') LE) at 1.
  rewrite <- (N.lxor_0_r 1) at 1.
  rewrite polymod_linear by (rewrite xor_list_length; [reflexivity | exact LE]).
  fold (hdiff hrp hrp'). apply polymod_from_xor.
Qed.

Lemma xor_list_bound : forall a b, Forall (fun v => v < 2 ^ 60) a -> Forall (fun v => v < 2 ^ 60) b ->
  Forall (fun v => v < 2 ^ 60) (xor_list a b).
Proof.
  induction a as [|x a IH]; intros [|y b] Fa Fb; cbn [xor_list]; try constructor.
  - inversion Fa; inversion Fb; subst. apply lxor_lt_pow2; assumption.
  - inversion Fa; inversion Fb; subst. apply IH; assumption.
Qed.

Lemma hdiff_bound h h' : hdiff h h' < 2 ^ 60.
Proof. unfold hdiff. apply polymod_from_bound; [reflexivity | apply xor_list_bound; apply hrp_expand_bound]. Qed.

(* ------------------------------------------------------------------ *)
(* the three prefixes and their one- and two-character substitutions    *)
(* ------------------------------------------------------------------ *)
Definition zs (l : list Z) : bytes := map (fun z => b8 (Z.to_N z)) l.
Definition std_hrps : list bytes := [zs g_Liquid_Blech32; zs g_Testnet_Blech32; zs g_Regtest_Blech32].

Definition subs_at (h : bytes) (p : nat) : list bytes :=
  match nth_error h p with
  | None => []
  | Some c0 => map (upd h p) (filter (fun c => negb (beqb c c0)) charset)
  end.
Definition positions (h : bytes) : list nat := seq 0 (length h).
Definition subs1 (h : bytes) : list bytes := flat_map (subs_at h) (positions h).
Definition subs2 (h : bytes) : list bytes :=
  flat_map (fun p1 => flat_map (fun h1 =>
    flat_map (fun p2 => if Nat.eqb p1 p2 then [] else subs_at h1 p2) (positions h)) (subs_at h p1)) (positions h).

Lemma subs_at_in h p c0 c : nth_error h p = Some c0 -> In c charset -> c <> c0 -> In (upd h p c) (subs_at h p).
Proof.
  intros H I N. unfold subs_at. rewrite H. apply in_map. apply filter_In. split; [exact I|].
  destruct (beqb c c0) eqn:E; [apply beqb_eq in E; contradiction | reflexivity].
Qed.

Lemma positions_in {A} (h : list A) p c0 : nth_error h p = Some c0 -> In p (seq 0 (length h)).
Proof. intro H. apply in_seq. assert (p < length h)%nat by (apply nth_error_Some; congruence). lia. Qed.

Lemma subs1_in h p c0 c : nth_error h p = Some c0 -> In c charset -> c <> c0 -> In (upd h p c) (subs1 h).
Proof.
  intros H I N. unfold subs1. apply in_flat_map. exists p. split; [eapply positions_in; exact H | eapply subs_at_in; eassumption].
Qed.

Lemma subs2_in h p1 c01 c1 p2 c02 c2 : p1 <> p2 ->
  nth_error h p1 = Some c01 -> In c1 charset -> c1 <> c01 ->
  nth_error h p2 = Some c02 -> In c2 charset -> c2 <> c02 ->
  In (upd (upd h p1 c1) p2 c2) (subs2 h).
Proof.
  intros NE H1 I1 N1 H2 I2 N2. unfold subs2. apply in_flat_map. exists p1. split; [eapply positions_in; exact H1|].
  apply in_flat_map. exists (upd h p1 c1). split; [eapply subs_at_in; eassumption|].
  apply in_flat_map. exists p2. split; [eapply positions_in; exact H2|].
  destruct (Nat.eqb_spec p1 p2) as [E|_]; [contradiction|].
  eapply subs_at_in; try eassumption. rewrite nth_error_upd_other by exact NE. exact H2.
Qed.

(* ------------------------------------------------------------------ *)
(* the finite checks                                                    *)
(* ------------------------------------------------------------------ *)
(* scan k c p: p holds of c, step0 c, ..., shift (k-1) c *)
Fixpoint scan (k : nat) (c : N) (p : N -> bool) : bool :=
  match k with O => true | S k' => p c && scan k' (step0 c) p end.

Lemma scan_spec p : forall k c, scan k c p = true -> forall j, (j < k)%nat -> p (shift j c) = true.
Proof.
  induction k as [|k IH]; intros c H j Hj; [lia|]. cbn [scan] in H. apply andb_true_iff in H as [H0 H1].
  destruct j as [|j]; cbn [shift]; [exact H0 | apply IH; [exact H1 | lia]].
Qed.

Definition not_small (x : N) : bool := (x =? 0) || (32 <=? x).
Definition not_BM (x : N) : bool := negb (x =? BM).

Definition hrp_ok (h : bytes) : bool :=
  (* every changed prefix moves the polymod *)
  forallb (fun h' => negb (hdiff h h' =? 0)) (subs1 h ++ subs2 h) &&
  (* one changed character never cancels against one data symbol, whatever their distance ... *)
  forallb (fun h' => scan NMAX (step0 (hdiff h h')) not_small) (subs1 h) &&
  (* ... nor does it, together with a flipped version symbol, produce BLECH32 xor BLECH32M *)
  forallb (fun h' => scan NMAX (N.lxor (step0 (hdiff h h')) 1) not_BM) (subs1 h) &&
  (* shape of the prefix itself *)
  forallb char_ok h && bytes_eqb (map to_lower h) h && forallb (fun c => negb (beqb c sep)) h.

Lemma std_hrps_checked : forallb hrp_ok std_hrps = true.
Proof. vm_compute. reflexivity. Qed.
