(* Proofs/Blech32Hrp.v — C15, substitutions inside the human-readable part.
   One or two substituted HRP characters, or one HRP character together with one data-part
   symbol, of a valid blech32 string with one of the three network prefixes (taken from
   Gen/NetConsts.v) are rejected by Decode's checksum, for every length the decoder admits.
   By linearity a changed prefix xors a word G(hrp, hrp') into the running polymod value
   before the data part; polymod_step with input 0 is injective on 60-bit words, so G <> 0
   suffices for HRP-only errors, and the mixed case reduces to two finite tables
   (vm_compute, lifted by forallb_forall). *)
From GE Require Import Lib.Bytes Gen.Blech32Consts Gen.NetConsts Model.Blech32 Proofs.Blech32.
From Coq Require Import ZifyBool ZifyN ZifyNat.
Import B32.
Open Scope N_scope.

Arguments polymod_step : simpl never.
Arguments N.shiftl : simpl never.
Arguments N.shiftr : simpl never.
Arguments N.land : simpl never.
Arguments N.lxor : simpl never.
Arguments N.testbit : simpl never.

(* ------------------------------------------------------------------ *)
(* polymod_step c 0 is injective on words below 2^60                    *)
(* ------------------------------------------------------------------ *)
Definition gen_comb (hi : N) : N := apply_gen hi gen 0 0.

Lemma apply_gen_acc b gs i a : apply_gen b gs i a = N.lxor (apply_gen b gs i 0) a.
Proof.
  rewrite <- (N.lxor_0_r b) at 1. rewrite <- (N.lxor_0_l a) at 1.
  rewrite apply_gen_linear, apply_gen_zero. reflexivity.
Qed.

(* the low five bits of the generator combination identify the five feedback bits *)
Lemma gen_low_bits_checked :
  forallb (fun hi => (hi =? 0) || negb (N.land (gen_comb hi) 31 =? 0)) (map N.of_nat (seq 0 32)) = true.
Proof. vm_compute. reflexivity. Qed.

Lemma gen_low_bits hi : hi < 32 -> N.land (gen_comb hi) 31 = 0 -> hi = 0.
Proof.
  intros H E. pose proof gen_low_bits_checked as F. rewrite forallb_forall in F.
  specialize (F hi). assert (I : In hi (map N.of_nat (seq 0 32))).
  { apply in_map_iff. exists (N.to_nat hi). split; [lia | apply in_seq; lia]. }
  specialize (F I). rewrite E in F. cbn in F. rewrite orb_false_r in F. apply N.eqb_eq in F. exact F.
Qed.

Lemma shiftl5_low x : N.land (N.shiftl x 5) 31 = 0.
Proof.
  change 31 with (N.ones 5). rewrite N.land_ones, N.shiftl_mul_pow2. apply N.mod_mul. discriminate.
Qed.

Lemma step0_kernel c : c < 2 ^ 60 -> step0 c = 0 -> c = 0.
Proof.
  intros Hc E. unfold step0, polymod_step in E. rewrite N.lxor_0_r, apply_gen_acc in E.
  fold (gen_comb (N.shiftr c 55)) in E.
  assert (Hhi : N.shiftr c 55 < 32).
  { rewrite N.shiftr_div_pow2. apply N.div_lt_upper_bound; [discriminate|]. exact Hc. }
  assert (L : N.land (gen_comb (N.shiftr c 55)) 31 = 0).
  { apply (f_equal (fun x => N.land x 31)) in E. rewrite land_lxor_l, shiftl5_low, N.lxor_0_r in E.
    rewrite E. reflexivity. }
  pose proof (gen_low_bits _ Hhi L) as H0.
  rewrite H0 in E. change (gen_comb 0) with 0 in E. rewrite N.lxor_0_l in E.
  rewrite land_mask55, N.shiftl_mul_pow2 in E.
  rewrite N.shiftr_div_pow2 in H0.
  assert (c mod 2 ^ 55 = 0) by (destruct (c mod 2 ^ 55); [reflexivity | discriminate]).
  pose proof (N.div_mod c (2 ^ 55) ltac:(discriminate)). lia.
Qed.

Lemma step0_bound c : step0 c < 2 ^ 60.
Proof. unfold step0. apply polymod_step_bound. reflexivity. Qed.

Lemma shift_bound j : forall c, c < 2 ^ 60 -> shift j c < 2 ^ 60.
Proof. induction j as [|j IH]; intros c H; cbn [shift]; [exact H | apply IH, step0_bound]. Qed.

Lemma step0_inj a b : a < 2 ^ 60 -> b < 2 ^ 60 -> step0 a = step0 b -> a = b.
Proof.
  intros Ha Hb E. apply N.lxor_eq. apply step0_kernel; [apply lxor_lt_pow2; assumption|].
  rewrite step0_lxor, E. apply N.lxor_nilpotent.
Qed.

Theorem shift_inj j : forall a b, a < 2 ^ 60 -> b < 2 ^ 60 -> shift j a = shift j b -> a = b.
Proof.
  induction j as [|j IH]; intros a b Ha Hb E; cbn [shift] in E; [exact E|].
  apply step0_inj; try assumption. apply IH; [apply step0_bound | apply step0_bound | exact E].
Qed.

Lemma shift_nonzero j c : c < 2 ^ 60 -> c <> 0 -> shift j c <> 0.
Proof. intros H N0 E. apply N0. apply (shift_inj j); [exact H | reflexivity | rewrite shift_0; exact E]. Qed.

Lemma shift_add a : forall b c, shift (a + b) c = shift b (shift a c).
Proof. induction a as [|a IH]; intros b c; cbn [shift Nat.add]; [reflexivity | apply IH]. Qed.

(* ------------------------------------------------------------------ *)
(* a changed prefix xors one word into the polymod before the data part *)
(* ------------------------------------------------------------------ *)
Definition hdiff (hrp hrp' : bytes) : N := polymod_from 0 (xor_list (hrp_expand hrp) (hrp_expand hrp')).

Lemma xor_list_cancel : forall a b, length a = length b -> xor_list a (xor_list a b) = b.
Proof.
  induction a as [|x a IH]; intros [|y b] L; cbn in L; try discriminate; cbn [xor_list]; [reflexivity|].
  rewrite IH by congruence. f_equal. clear. xor_bits.
Qed.

Lemma xor_list_length : forall a b, length a = length b -> length (xor_list a b) = length a.
Proof. induction a as [|x a IH]; intros [|y b] L; cbn in L; try discriminate; cbn; [reflexivity | rewrite IH; congruence]. Qed.

Lemma hrp_expand_length h : length (hrp_expand h) = (2 * length h + 1)%nat.
Proof. unfold hrp_expand. rewrite !app_length, !map_length. cbn. lia. Qed.

Lemma polymod_hrp_change hrp hrp' vs : length hrp' = length hrp ->
  polymod (hrp_expand hrp' ++ vs) = N.lxor (polymod (hrp_expand hrp ++ vs)) (shift (length vs) (hdiff hrp hrp')).
Proof.
  intro L. unfold polymod. rewrite !polymod_from_app.
  assert (LE : length (hrp_expand hrp) = length (hrp_expand hrp')) by (rewrite !hrp_expand_length, L; reflexivity).
  rewrite <- (xor_list_cancel (hrp_expand hrp) (hrp_expand hrp') LE) at 1.
  rewrite <- (N.lxor_0_r 1) at 1.
  rewrite polymod_linear by (rewrite xor_list_length; [reflexivity | exact LE]).
  fold (hdiff hrp hrp'). apply polymod_from_xor.
Qed.

Lemma xor_list_bound : forall a b, Forall (fun v => v < 2 ^ 60) a -> Forall (fun v => v < 2 ^ 60) b ->
  Forall (fun v => v < 2 ^ 60) (xor_list a b).
Proof.
  induction a as [|x a IH]; intros [|y b] Fa Fb; cbn [xor_list]; try constructor.
  - inversion Fa; inversion Fb; subst. apply lxor_lt_pow2; assumption.
  - inversion Fa; inversion Fb; subst. apply IH; assumption.
Qed.

Lemma hdiff_bound h h' : hdiff h h' < 2 ^ 60.
Proof. unfold hdiff. apply polymod_from_bound; [reflexivity | apply xor_list_bound; apply hrp_expand_bound]. Qed.

(* ------------------------------------------------------------------ *)
(* the three prefixes and their one- and two-character substitutions    *)
(* ------------------------------------------------------------------ *)
Definition zs (l : list Z) : bytes := map (fun z => b8 (Z.to_N z)) l.
Definition std_hrps : list bytes := [zs g_Liquid_Blech32; zs g_Testnet_Blech32; zs g_Regtest_Blech32].

Definition subs_at (h : bytes) (p : nat) : list bytes :=
  match nth_error h p with
  | None => []
  | Some c0 => map (upd h p) (filter (fun c => negb (beqb c c0)) charset)
  end.
Definition positions (h : bytes) : list nat := seq 0 (length h).
Definition subs1 (h : bytes) : list bytes := flat_map (subs_at h) (positions h).
Definition subs2 (h : bytes) : list bytes :=
  flat_map (fun p1 => flat_map (fun h1 =>
    flat_map (fun p2 => if Nat.eqb p1 p2 then [] else subs_at h1 p2) (positions h)) (subs_at h p1)) (positions h).

Lemma subs_at_in h p c0 c : nth_error h p = Some c0 -> In c charset -> c <> c0 -> In (upd h p c) (subs_at h p).
Proof.
  intros H I N. unfold subs_at. rewrite H. apply in_map. apply filter_In. split; [exact I|].
  destruct (beqb c c0) eqn:E; [apply beqb_eq in E; contradiction | reflexivity].
Qed.

Lemma positions_in {A} (h : list A) p c0 : nth_error h p = Some c0 -> In p (seq 0 (length h)).
Proof. intro H. apply in_seq. assert (p < length h)%nat by (apply nth_error_Some; congruence). lia. Qed.

Lemma subs1_in h p c0 c : nth_error h p = Some c0 -> In c charset -> c <> c0 -> In (upd h p c) (subs1 h).
Proof.
  intros H I N. unfold subs1. apply in_flat_map. exists p. split; [eapply positions_in; exact H | eapply subs_at_in; eassumption].
Qed.

Lemma subs2_in h p1 c01 c1 p2 c02 c2 : p1 <> p2 ->
  nth_error h p1 = Some c01 -> In c1 charset -> c1 <> c01 ->
  nth_error h p2 = Some c02 -> In c2 charset -> c2 <> c02 ->
  In (upd (upd h p1 c1) p2 c2) (subs2 h).
Proof.
  intros NE H1 I1 N1 H2 I2 N2. unfold subs2. apply in_flat_map. exists p1. split; [eapply positions_in; exact H1|].
  apply in_flat_map. exists (upd h p1 c1). split; [eapply subs_at_in; eassumption|].
  apply in_flat_map. exists p2. split; [eapply positions_in; exact H2|].
  destruct (Nat.eqb_spec p1 p2) as [E|_]; [contradiction|].
  eapply subs_at_in; try eassumption. rewrite nth_error_upd_other by exact NE. exact H2.
Qed.

(* ------------------------------------------------------------------ *)
(* the finite checks                                                    *)
(* ------------------------------------------------------------------ *)
(* scan k c p: p holds of c, step0 c, ..., shift (k-1) c *)
Fixpoint scan (k : nat) (c : N) (p : N -> bool) : bool :=
  match k with O => true | S k' => p c && scan k' (step0 c) p end.

Lemma scan_spec p : forall k c, scan k c p = true -> forall j, (j < k)%nat -> p (shift j c) = true.
Proof.
  induction k as [|k IH]; intros c H j Hj; [lia|]. cbn [scan] in H. apply andb_true_iff in H as [H0 H1].
  destruct j as [|j]; cbn [shift]; [exact H0 | apply IH; [exact H1 | lia]].
Qed.

Definition not_small (x : N) : bool := (x =? 0) || (32 <=? x).
Definition not_BM (x : N) : bool := negb (x =? BM).

Definition hrp_ok (h : bytes) : bool :=
  (* every changed prefix moves the polymod *)
  forallb (fun h' => negb (hdiff h h' =? 0)) (subs1 h ++ subs2 h) &&
  (* one changed character never cancels against one data symbol, whatever their distance ... *)
  forallb (fun h' => scan NMAX (step0 (hdiff h h')) not_small) (subs1 h) &&
  (* ... nor does it, together with a flipped version symbol, produce BLECH32 xor BLECH32M *)
  forallb (fun h' => scan NMAX (N.lxor (step0 (hdiff h h')) 1) not_BM) (subs1 h) &&
  (* shape of the prefix itself *)
  forallb char_ok h && bytes_eqb (map to_lower h) h && forallb (fun c => negb (beqb c sep)) h.

Lemma std_hrps_checked : forallb hrp_ok std_hrps = true.
Proof. vm_compute. reflexivity. Qed.

Lemma std_facts h : In h std_hrps ->
  (forall h', In h' (subs1 h ++ subs2 h) -> hdiff h h' <> 0) /\
  (forall h' m, In h' (subs1 h) -> (1 <= m <= NMAX)%nat -> shift m (hdiff h h') = 0 \/ 32 <= shift m (hdiff h h')) /\
  (forall h' j, In h' (subs1 h) -> (j < NMAX)%nat -> shift j (N.lxor (step0 (hdiff h h')) 1) <> BM) /\
  forallb char_ok h = true /\ map to_lower h = h /\ Forall (fun c => beqb c sep = false) h.
Proof.
  intro Hh. pose proof std_hrps_checked as C. rewrite forallb_forall in C. specialize (C h Hh).
  unfold hrp_ok in C. repeat (apply andb_true_iff in C as [C ?]).
  rename H into F6, H0 into F5, H1 into F4, H2 into F3, H3 into F2.
  rewrite forallb_forall in C, F2, F3. repeat split.
  - intros h' I E. specialize (C h' I). rewrite E in C. discriminate.
  - intros h' m I Hm. specialize (F2 h' I).
    pose proof (scan_spec _ _ _ F2 (m - 1)%nat ltac:(lia)) as Q. unfold not_small in Q.
    replace (shift (m - 1) (step0 (hdiff h h'))) with (shift m (hdiff h h')) in Q
      by (destruct m as [|m]; [lia | cbn [shift]; f_equal; lia]).
    apply orb_true_iff in Q as [Q|Q]; [left; apply N.eqb_eq; exact Q | right; apply N.leb_le; exact Q].
  - intros h' j I Hj E. specialize (F3 h' I). pose proof (scan_spec _ _ _ F3 j Hj) as Q.
    unfold not_BM in Q. rewrite E, N.eqb_refl in Q. discriminate.
  - exact F4.
  - apply bytes_eqb_eq. exact F5.
  - rewrite forallb_forall in F6. apply Forall_forall. intros c Ic. specialize (F6 c Ic).
    destruct (beqb c sep); [discriminate | reflexivity].
Qed.

(* ------------------------------------------------------------------ *)
(* shape of a prefix with substituted characters                        *)
(* ------------------------------------------------------------------ *)
Lemma forallb_upd {A} (P : A -> bool) (l : list A) : forall i x, forallb P l = true -> P x = true ->
  forallb P (upd l i x) = true.
Proof.
  induction l as [|a l IH]; intros [|i] x F Px; cbn in *; try reflexivity;
    apply andb_true_iff in F as [F1 F2]; apply andb_true_iff; split; try assumption. apply IH; assumption.
Qed.

Lemma in_charset_facts c : In c charset -> char_ok c = true /\ to_lower c = c.
Proof.
  intro I. pose proof charset_ok as A. pose proof charset_lower as B. rewrite forallb_forall in A, B.
  split; [apply A; exact I | apply beqb_eq; apply B; exact I].
Qed.

Lemma lower_upd h p c : map to_lower h = h -> In c charset -> map to_lower (upd h p c) = upd h p c.
Proof. intros L I. rewrite upd_map, L. destruct (in_charset_facts c I) as [_ ->]. reflexivity. Qed.

Lemma pre_upd h p c n : In c charset -> pre h n = true -> pre (upd h p c) n = true.
Proof.
  intros I P. unfold pre in *. rewrite upd_length.
  apply andb_true_iff in P as [P P3]. apply andb_true_iff in P as [P1 P2].
  rewrite P1, P3, (forallb_upd char_ok h p c P2 (proj1 (in_charset_facts c I))). reflexivity.
Qed.

(* rejection when only the prefix changed *)
Lemma reject_hrp_change h h' syms cs data :
  map to_lower h = h -> map to_lower h' = h' -> length h' = length h ->
  (forall n, pre h n = true -> pre h' n = true) -> hdiff h h' <> 0 ->
  to_chars syms = Some cs -> decode (h ++ sep :: cs) = DOk h data ->
  decode (h' ++ sep :: cs) = DErr.
Proof.
  intros LH LH' Len PP G0 TC D.
  rewrite (decode_canon _ _ _ TC LH) in D. rewrite (decode_canon _ _ _ TC LH').
  destruct (decode_spec_ok_pre _ _ _ D) as [P [v [r ->]]].
  eapply reject_by_syndrome; [exact D | reflexivity | apply PP; exact P | apply polymod_hrp_change; exact Len | |].
  - apply shift_nonzero; [apply hdiff_bound | exact G0].
  - intros _ _ N. congruence.
Qed.

(* ONE substituted character of the human-readable part *)
Theorem detects_hrp_one h syms cs data p c0 c :
  In h std_hrps -> to_chars syms = Some cs -> decode (h ++ sep :: cs) = DOk h data ->
  nth_error h p = Some c0 -> In c charset -> c <> c0 ->
  decode (upd h p c ++ sep :: cs) = DErr.
Proof.
  intros Hh TC D Hp Ic Nc. destruct (std_facts h Hh) as (F1 & _ & _ & _ & LH & _).
  eapply reject_hrp_change; try eassumption.
  - apply lower_upd; assumption.
  - apply upd_length.
  - intros n. apply pre_upd. exact Ic.
  - apply F1. apply in_or_app. left. eapply subs1_in; eassumption.
Qed.

(* TWO substituted characters of the human-readable part *)
Theorem detects_hrp_two h syms cs data p1 c01 c1 p2 c02 c2 :
  In h std_hrps -> to_chars syms = Some cs -> decode (h ++ sep :: cs) = DOk h data ->
  p1 <> p2 ->
  nth_error h p1 = Some c01 -> In c1 charset -> c1 <> c01 ->
  nth_error h p2 = Some c02 -> In c2 charset -> c2 <> c02 ->
  decode (upd (upd h p1 c1) p2 c2 ++ sep :: cs) = DErr.
Proof.
  intros Hh TC D NE H1 I1 N1 H2 I2 N2. destruct (std_facts h Hh) as (F1 & _ & _ & _ & LH & _).
  eapply reject_hrp_change; try eassumption.
  - apply lower_upd; [apply lower_upd; assumption | assumption].
  - rewrite !upd_length. reflexivity.
  - intros n P. apply pre_upd; [exact I2|]. apply pre_upd; assumption.
  - apply F1. apply in_or_app. right. eapply subs2_in; eassumption.
Qed.

(* ONE character of the human-readable part AND ONE symbol of the data part *)
Theorem detects_hrp_and_data h syms cs data p c0 c i x y cs' :
  In h std_hrps -> to_chars syms = Some cs -> decode (h ++ sep :: cs) = DOk h data ->
  nth_error h p = Some c0 -> In c charset -> c <> c0 ->
  nth_error syms i = Some y -> x <> y -> to_chars (upd syms i x) = Some cs' ->
  decode (upd h p c ++ sep :: cs') = DErr.
Proof.
  intros Hh TC D Hp Ic Nc Hy Hxy TC'. destruct (std_facts h Hh) as (_ & F2 & F3 & _ & LH & _).
  pose proof (subs1_in h p c0 c Hp Ic Nc) as Is.
  set (h' := upd h p c) in *. set (G := hdiff h h').
  assert (LH' : map to_lower h' = h') by (apply lower_upd; assumption).
  rewrite (decode_canon _ _ _ TC LH) in D. rewrite (decode_canon _ _ _ TC' LH').
  destruct (decode_spec_ok_pre _ _ _ D) as [P [v [r ->]]].
  pose proof (pre_bound _ _ P) as [B12 BN].
  pose proof (to_chars_sym_lt _ _ TC) as F. pose proof (to_chars_sym_lt _ _ TC') as F'.
  assert (Hi : (i < length (v :: r))%nat) by (apply nth_error_Some; congruence).
  assert (Xlt : n8 x < 32) by (apply (sym_lt _ i x F'), nth_error_upd_same; exact Hi).
  pose proof (sym_lt _ _ _ F Hy) as Ylt.
  assert (Ne : n8 x <> n8 y) by (intro E; apply n8_inj in E; contradiction).
  pose proof (lxor_in_vals _ _ Xlt Ylt Ne) as V. apply in_vals in V.
  set (n := length (v :: r)) in *. set (e := N.lxor (n8 x) (n8 y)) in *.
  assert (PM : polymod (hrp_expand h' ++ ints (upd (v :: r) i x)) =
               N.lxor (polymod (hrp_expand h ++ ints (v :: r))) (N.lxor (shift (n - 1 - i) e) (shift n G))).
  { rewrite (polymod_hrp_change h h') by apply upd_length.
    replace (length (ints (upd (v :: r) i x))) with n by (unfold ints, n; rewrite map_length, upd_length; reflexivity).
    rewrite (polymod_upd h (v :: r) i x y Hy). fold n e G. apply N.lxor_assoc. }
  assert (GB : G < 2 ^ 60) by apply hdiff_bound.
  assert (S0 : N.lxor (shift (n - 1 - i) e) (shift n G) <> 0).
  { intro E. apply N.lxor_eq in E.
    replace n with ((i + 1) + (n - 1 - i))%nat in E at 2 by lia. rewrite shift_add in E.
    apply shift_inj in E; [| change (2^60) with 1152921504606846976; lia | apply shift_bound; exact GB].
    destruct (F2 h' (i + 1)%nat Is ltac:(lia)) as [Q|Q]; fold G in Q; lia. }
  assert (PP : pre h' n = true) by (apply pre_upd; assumption).
  destruct i as [|i].
  - cbn [upd] in *. cbn [nth_error] in Hy. inversion Hy; subst y.
    eapply reject_by_syndrome; [exact D | reflexivity | exact PP | exact PM | exact S0 |].
    intros Hv Hx Hne. unfold e. rewrite (lxor_01 _ _ Hx Hv Hne).
    replace (n - 1 - 0)%nat with (n - 1)%nat by lia.
    replace (shift n G) with (shift (n - 1) (step0 G)) by (unfold n; cbn [length shift]; f_equal; lia).
    rewrite <- shift_lxor, N.lxor_comm. apply (F3 h'); [exact Is | lia].
  - cbn [upd] in *.
    eapply reject_by_syndrome; [exact D | apply upd_length | | exact PM | exact S0 |].
    + unfold n in PP. cbn [length] in *. rewrite upd_length. exact PP.
    + intros _ _ Hne. congruence.
Qed.

(* a string without the separator (e.g. the "1" replaced by a character of the alphabet,
   whatever else was changed) is rejected before any checksum is computed *)
Theorem no_separator_rejected s : Forall (fun c => beqb c sep = false) s -> decode s = DErr.
Proof.
  intro F. unfold decode. rewrite decode_generic_unfold.
  destruct (len_bad s); [reflexivity|]. destruct (negb (forallb char_ok s)); [reflexivity|].
  destruct (case_bad s); [reflexivity|]. unfold dg_rest. rewrite last_index_lower.
  unfold last_index. rewrite last_index_from_nosep by exact F. reflexivity.
Qed.

(* what DecodeGeneric does with a changed prefix: nothing, it does not look at the checksum *)
Theorem decode_generic_ignores_checksum hrp syms cs : to_chars syms = Some cs -> map to_lower hrp = hrp ->
  pre hrp (length syms) = true ->
  decode_generic (hrp ++ sep :: cs) = GOk hrp (firstn (length syms - 12) syms) (skipn (length syms - 12) syms).
Proof. intros TC LH P. rewrite (decode_generic_canon _ _ _ TC LH), P. reflexivity. Qed.

(* non-vacuity: the example address of Proofs/Blech32.v has the testnet prefix *)
Example ex_hrp_std : In ex_hrp std_hrps /\ nth_error ex_hrp 0 = Some (b8 116) /\ In (b8 113) charset.
Proof. split; [vm_compute; tauto|]. split; [reflexivity | vm_compute; tauto]. Qed.
