(* Proofs/TxId.v — what the transaction id and the witness hash cover (C04). *)
From GE Require Import Lib.Bytes Lib.Varint Lib.Sha256 Model.Tx Model.TxHash Proofs.TxCodec.
From Coq Require Import ZifyBool ZifyN ZifyNat.
Open Scope N_scope.

(* the witness-free part of a transaction *)
Definition strip_tx (t : tx) : tx :=
  mk_tx (t_version t) 0 (t_locktime t) (map strip_in (t_ins t)) (map strip_out (t_outs t)).

Definition same_base (t t' : tx) : Prop :=
  t_version t = t_version t' /\ t_locktime t = t_locktime t' /\
  map strip_in (t_ins t) = map strip_in (t_ins t') /\ map strip_out (t_outs t) = map strip_out (t_outs t').

Lemma ser_out_strip a o : ser_out a false (strip_out o) = ser_out a false o.
Proof. reflexivity. Qed.

Lemma ser_txid_strip t : ser_txid (strip_tx t) = ser_txid t.
Proof.
  unfold ser_txid, ser_tx, strip_tx. cbn [andb t_version t_ins t_outs t_locktime].
  rewrite !lenL_map, !enc_list_map. reflexivity.
Qed.

Lemma has_witness_strip t : has_witness (strip_tx t) = false.
Proof.
  unfold strip_tx, has_witness, any_witness_input, any_conf_output. cbn [t_flag t_ins t_outs N.eqb orb].
  apply orb_false_iff. split; apply not_true_is_false; rewrite existsb_exists;
    intros [x [Hx Hb]]; apply in_map_iff in Hx as [y [<- _]]; discriminate Hb.
Qed.

Lemma ser_txid_eq_full_strip t : ser_full (strip_tx t) = ser_txid t.
Proof.
  rewrite <- ser_txid_strip. unfold ser_full, ser_txid, ser_tx. cbn [andb negb].
  rewrite has_witness_strip. reflexivity.
Qed.

(* FRAME: the id does not depend on witness fields — no hypothesis at all *)
Theorem txid_frame t t' : same_base t t' -> ser_txid t = ser_txid t'.
Proof.
  intros (Hv & Hl & Hi & Ho). rewrite <- (ser_txid_strip t), <- (ser_txid_strip t').
  unfold strip_tx. rewrite Hv, Hl, Hi, Ho. reflexivity.
Qed.

Corollary txid_frame_digest t t' : same_base t t' -> txid t = txid t'.
Proof. intro H. unfold txid. rewrite (txid_frame t t' H). reflexivity. Qed.

Lemma wf_strip_tx t : wf_tx t = true -> wf_tx (strip_tx t) = true.
Proof.
  intro W. apply wf_tx_parts in W as (Hv & Hl & Hni & Hno & H1 & H2).
  unfold wf_tx, strip_tx. cbn [t_version t_locktime t_ins t_outs]. rewrite !lenL_map.
  rewrite !andb_true_iff. repeat split; try lia.
  - apply forallb_forall. intros x Hx. apply in_map_iff in Hx as [y [<- Hy]]. apply strip_in_wf. apply H1; exact Hy.
  - apply forallb_forall. intros x Hx. apply in_map_iff in Hx as [y [<- Hy]].
    apply H2 in Hy. apply wf_out_parts in Hy as (A & B & C & D & _).
    unfold wf_out, strip_out, wf_slice. cbn [o_asset o_value o_nonce o_script o_rp o_sp].
    rewrite A, B, C. destruct (N.ltb_spec (lenN (o_script y)) two64); [reflexivity | lia].
Qed.

Lemma norm_strip t : norm_tx (strip_tx t) = strip_tx t.
Proof.
  unfold norm_tx. pose proof (has_witness_strip t) as H.
  rewrite H. reflexivity.
Qed.

(* the id serialization parses back to the witness-free transaction *)
Lemma parse_ser_txid t rest : wf_tx t = true ->
  parse_tx (ser_txid t ++ rest) = Some (strip_tx t, rest).
Proof.
  intro W. rewrite <- ser_txid_eq_full_strip.
  rewrite (tx_parse_ser (strip_tx t) rest (wf_strip_tx t W)). rewrite norm_strip. reflexivity.
Qed.

(* SENSITIVITY: equal id serializations force equal witness-free parts *)
Theorem txid_sensitive t t' : wf_tx t = true -> wf_tx t' = true ->
  ser_txid t = ser_txid t' -> same_base t t'.
Proof.
  intros W W' E.
  pose proof (parse_ser_txid t [] W) as P. pose proof (parse_ser_txid t' [] W') as P'.
  rewrite E in P. rewrite P in P'. unfold strip_tx in P'. injection P' as A B C D. repeat split; assumption.
Qed.

(* witness hash *)
Definition wit_section (t : tx) : bytes := enc_list ser_in_wit (t_ins t) ++ enc_list ser_out_wit (t_outs t).

Lemma ser_wtxid_with_witness t : has_witness t = true -> ser_wtxid t = ser_txid t ++ wit_section t.
Proof.
  intro H. unfold ser_wtxid, ser_txid, ser_tx, wit_section. rewrite H. cbn [andb negb].
  repeat (rewrite <- ?app_assoc; cbn [app]). reflexivity.
Qed.

Theorem wtxid_eq_txid_without_witness t : has_witness t = false -> wtxid t = txid t.
Proof. intro H. unfold wtxid, txid, ser_wtxid. rewrite H. reflexivity. Qed.

Lemma parse_ser_wtxid t : wf_tx t = true ->
  parse_tx (ser_wtxid t) = Some (strip_tx t, if has_witness t then wit_section t else []).
Proof.
  intro W. destruct (has_witness t) eqn:H.
  - rewrite ser_wtxid_with_witness by exact H. apply parse_ser_txid; exact W.
  - unfold ser_wtxid. rewrite H. rewrite <- (app_nil_r (ser_txid t)). apply parse_ser_txid; exact W.
Qed.

Lemma enc_list_nil_inv {A} (e : A -> bytes) l : (forall a, e a <> []) -> enc_list e l = [] -> l = [].
Proof.
  intros Hne H. destruct l as [|a l]; [reflexivity|]. unfold enc_list in H. cbn [map concat] in H.
  apply app_eq_nil in H as [H _]. exfalso. exact (Hne a H).
Qed.

Definition same_all_but_flag (t t' : tx) : Prop :=
  t_version t = t_version t' /\ t_locktime t = t_locktime t' /\ t_ins t = t_ins t' /\ t_outs t = t_outs t'.

Lemma full_of_wtxid t : has_witness t = true ->
  ser_full t = le_enc 4 (t_version t) ++ b8 1 :: skipn 5 (ser_wtxid t) /\
  ser_wtxid t = le_enc 4 (t_version t) ++ b8 0 :: skipn 5 (ser_wtxid t).
Proof.
  intro H. unfold ser_full, ser_wtxid, ser_tx. rewrite H. cbn [andb negb].
  assert (L : length (le_enc 4 (t_version t)) = 4%nat) by apply le_enc_length.
  set (v := le_enc 4 (t_version t)) in *.
  do 5 (destruct v as [|? v]; try discriminate L). cbn [app skipn]. split; reflexivity.
Qed.

Theorem wtxid_sensitive t t' : wf_tx t = true -> wf_tx t' = true ->
  ser_wtxid t = ser_wtxid t' -> same_all_but_flag t t'.
Proof.
  intros W W' E.
  pose proof (parse_ser_wtxid t W) as P. pose proof (parse_ser_wtxid t' W') as P'.
  rewrite E in P. rewrite P in P'. unfold strip_tx in P'. injection P' as A B C D PW.
  destruct (has_witness t) eqn:H, (has_witness t') eqn:H'.
  - (* both carry witness data: the full serializations coincide, hence the values *)
    destruct (full_of_wtxid t H) as [F1 F2]. destruct (full_of_wtxid t' H') as [F1' F2'].
    assert (EF : ser_full t = ser_full t') by (rewrite F1, F1', A, E; reflexivity).
    pose proof (tx_parse_ser t [] W) as Q. pose proof (tx_parse_ser t' [] W') as Q'.
    rewrite EF in Q. rewrite Q in Q'. unfold norm_tx in Q'. injection Q' as _ _ _ QI QO. repeat split; assumption.
  - (* t has a witness section, t' has none: the section must be empty *)
    apply app_eq_nil in PW as [PI PO].
    apply (enc_list_nil_inv ser_in_wit _ ser_in_wit_nonempty) in PI.
    apply (enc_list_nil_inv ser_out_wit _ ser_out_wit_nonempty) in PO.
    rewrite PI in C. rewrite PO in D. cbn in C, D.
    symmetry in C, D. apply map_eq_nil in C, D. repeat split; congruence.
  - symmetry in PW. apply app_eq_nil in PW as [PI PO].
    apply (enc_list_nil_inv ser_in_wit _ ser_in_wit_nonempty) in PI.
    apply (enc_list_nil_inv ser_out_wit _ ser_out_wit_nonempty) in PO.
    rewrite PI in C. rewrite PO in D. cbn in C, D.
    apply map_eq_nil in C, D. repeat split; congruence.
  - destruct (has_witness_false_no_wit t H) as [I1 O1]. destruct (has_witness_false_no_wit t' H') as [I2 O2].
    repeat split; congruence.
Qed.

(* digests: under an ideal (injective) hash the ids themselves differ *)
Section IdealHash.
  Variable H : bytes -> bytes.
  Hypothesis H_inj : forall a b, H a = H b -> a = b.
  Definition txid_H (t : tx) := H (H (ser_txid t)).
  Definition wtxid_H (t : tx) := H (H (ser_wtxid t)).

  Theorem txid_H_sensitive t t' : wf_tx t = true -> wf_tx t' = true ->
    ~ same_base t t' -> txid_H t <> txid_H t'.
  Proof. intros W W' N E. apply N. apply txid_sensitive; try assumption. apply H_inj, H_inj. exact E. Qed.

  Theorem wtxid_H_sensitive t t' : wf_tx t = true -> wf_tx t' = true ->
    ~ same_all_but_flag t t' -> wtxid_H t <> wtxid_H t'.
  Proof. intros W W' N E. apply N. apply wtxid_sensitive; try assumption. apply H_inj, H_inj. exact E. Qed.
End IdealHash.

(* non-vacuity: an injective H exists, and two wf transactions differing in one covered field exist *)
Example ideal_hash_exists : exists H : bytes -> bytes, forall a b, H a = H b -> a = b.
Proof. exists (fun x => x). auto. Qed.

Example txid_sensitive_applies :
  let t  := mk_tx 2 0 0 [] [] in
  let t' := mk_tx 2 0 1 [] [] in
  wf_tx t = true /\ wf_tx t' = true /\ ~ same_base t t'.
Proof. cbn. repeat split. intros (_ & A & _). discriminate A. Qed.
