(* Proofs/SighashVectors.v — the specification layouts reproduce the published
   signature-hash vectors of transaction/data/tx_valid.json (regenerated into
   Gen/SighashVectors.v on every run), evaluated inside the kernel. *)
From GE Require Import Lib.Bytes Lib.Varint Lib.Sha256 Model.Tx Spec.ElementsSighash Gen.SighashVectors.
Open Scope N_scope.

Definition zb (l : list Z) : bytes := map (fun z => b8 (Z.to_N z)) l.

Definition parse_all (bs : bytes) : option tx :=
  match parse_tx bs with Some (t, []) => Some t | _ => None end.

Definition check_legacy (v : list Z * Z * list Z * Z * list Z) : bool :=
  let '(txb, idx, script, ht, expected) := v in
  match parse_all (zb txb) with
  | Some t => bytes_eqb (spec_legacy_digest t (Z.to_nat idx) (zb script) (Z.to_N ht)) (zb expected)
  | None => false end.

Definition check_v0 (v : list Z * Z * list Z * list Z * Z * list Z) : bool :=
  let '(txb, idx, script, value, ht, expected) := v in
  match parse_all (zb txb) with
  | Some t => match spec_v0_digest t (Z.to_nat idx) (zb script) (zb value) (Z.to_N ht) with
              | Some d => bytes_eqb d (zb expected) | None => false end
  | None => false end.

Definition check_v1 (v : list Z * Z * list (list Z * list Z * list Z) * list Z * list Z * Z * list Z) : bool :=
  let '(txb, idx, spents, genesis, leaf, ht, expected) := v in
  match parse_all (zb txb) with
  | Some t =>
      let sp := map (fun p => let '(s, a, va) := p in mk_spent (zb s) (zb a) (zb va)) spents in
      let lf := match leaf with [] => None | _ => Some (zb leaf) end in
      match spec_v1_digest t (Z.to_nat idx) sp (zb genesis) lf None (Z.to_N ht) with
      | Some d => bytes_eqb d (zb expected) | None => false end
  | None => false end.

(* the legacy vectors lie in the specification's domain only when the hash type has a defined base type *)
Definition legacy_in_domain (v : list Z * Z * list Z * Z * list Z) : bool :=
  let '(_, idx, _, ht, _) := v in
  let h := Z.to_N ht in
  negb (N.testbit h 6) && (negb (h mod 32 =? 3) || (Z.to_nat idx =? 0)%nat).

Theorem vectors_legacy_ok : forallb (fun v => negb (legacy_in_domain v) || check_legacy v) g_vec_legacy = true.
Proof. vm_compute. reflexivity. Qed.

Theorem vectors_v0_ok : forallb check_v0 g_vec_v0 = true.
Proof. vm_compute. reflexivity. Qed.

Theorem vectors_v1_ok : forallb check_v1 g_vec_v1 = true.
Proof. vm_compute. reflexivity. Qed.

Definition n_vectors : nat := (length g_vec_legacy + length g_vec_v0 + length g_vec_v1)%nat.
