(* Proofs/IssuanceJson.v — the key-sorted contract JSON does not depend on the order in which the fields are
   listed: for EVERY permutation of the fields (C13; completes contract_json_key_order_partial, which covered
   rotations and the reversal only). Insertion sort by the byte-wise key order is a function of the multiset of
   fields whenever the keys are pairwise distinct. *)
From GE Require Import Lib.Bytes Lib.Varint Lib.Sha256 Model.Tx Model.Issuance Proofs.Issuance.
From Coq Require Import ZifyBool ZifyN ZifyNat Sorting.Permutation Sorting.Sorted.
Open Scope N_scope.

(* ---------- bytes_ltb is a strict total order ---------- *)
Lemma bytes_ltb_irrefl a : bytes_ltb a a = false.
Proof.
  induction a as [|x a IH]; [reflexivity|]. cbn [bytes_ltb].
  destruct (N.ltb_spec (n8 x) (n8 x)); [lia|]. exact IH.
Qed.

Lemma bytes_ltb_trans a : forall b c, bytes_ltb a b = true -> bytes_ltb b c = true -> bytes_ltb a c = true.
Proof.
  induction a as [|x a IH]; intros [|y b] [|z c] H1 H2; cbn [bytes_ltb] in *; try discriminate; try reflexivity.
  destruct (N.ltb_spec (n8 x) (n8 y)) as [Lxy|Gxy].
  - destruct (N.ltb_spec (n8 y) (n8 z)) as [Lyz|Gyz].
    + destruct (N.ltb_spec (n8 x) (n8 z)); [reflexivity | lia].
    + destruct (N.ltb_spec (n8 z) (n8 y)); [discriminate|].
      destruct (N.ltb_spec (n8 x) (n8 z)); [reflexivity | lia].
  - destruct (N.ltb_spec (n8 y) (n8 x)); [discriminate|].
    destruct (N.ltb_spec (n8 y) (n8 z)) as [Lyz|Gyz].
    + destruct (N.ltb_spec (n8 x) (n8 z)); [reflexivity | lia].
    + destruct (N.ltb_spec (n8 z) (n8 y)); [discriminate|].
      destruct (N.ltb_spec (n8 x) (n8 z)); [lia|].
      destruct (N.ltb_spec (n8 z) (n8 x)); [lia|].
      eapply IH; eassumption.
Qed.

Lemma bytes_ltb_total a : forall b, bytes_ltb a b = false -> bytes_ltb b a = false -> a = b.
Proof.
  induction a as [|x a IH]; intros [|y b] H1 H2; cbn [bytes_ltb] in *; try discriminate; [reflexivity|].
  destruct (N.ltb_spec (n8 x) (n8 y)); [discriminate|].
  destruct (N.ltb_spec (n8 y) (n8 x)); [discriminate|].
  assert (E : n8 x = n8 y) by lia. apply n8_inj in E. subst y. f_equal. apply IH; assumption.
Qed.

Lemma bytes_ltb_asym a b : bytes_ltb a b = true -> bytes_ltb b a = false.
Proof.
  intro H. destruct (bytes_ltb b a) eqn:E; [|reflexivity].
  pose proof (bytes_ltb_trans _ _ _ H E) as T. rewrite bytes_ltb_irrefl in T. discriminate.
Qed.

(* ---------- insertion sort of fields ---------- *)
Definition field := (bytes * iss_jvalue)%type.
Definition key_lt (f g : field) : Prop := bytes_ltb (fst f) (fst g) = true.

Lemma insert_perm f l : Permutation (insert_field f l) (f :: l).
Proof.
  induction l as [|g r IH]; cbn [insert_field]; [apply Permutation_refl|].
  destruct (bytes_ltb (fst g) (fst f)); [|apply Permutation_refl].
  eapply Permutation_trans; [apply perm_skip, IH | apply perm_swap].
Qed.

Lemma sort_perm l : Permutation (sort_fields l) l.
Proof.
  induction l as [|f l IH]; [apply Permutation_refl|]. unfold sort_fields in *. cbn [fold_right].
  eapply Permutation_trans; [apply insert_perm | apply perm_skip, IH].
Qed.

Lemma insert_sorted f l :
  StronglySorted key_lt l -> (forall g, In g l -> fst g <> fst f) -> StronglySorted key_lt (insert_field f l).
Proof.
  induction l as [|g r IH]; intros S D; cbn [insert_field].
  - constructor; constructor.
  - inversion S as [|? ? Sr Fr]; subst.
    destruct (bytes_ltb (fst g) (fst f)) eqn:E.
    + constructor.
      * apply IH; [exact Sr | intros h Hh; apply D; right; exact Hh].
      * (* g is below f and below everything of r, hence below every element of the insertion *)
        apply Forall_forall. intros h Hh.
        apply (Permutation_in _ (insert_perm f r)) in Hh. destruct Hh as [<-|Hh]; [exact E|].
        rewrite Forall_forall in Fr. apply Fr; exact Hh.
    + (* f goes in front: f < g by trichotomy, and then below all of r by transitivity *)
      assert (Lfg : key_lt f g).
      { unfold key_lt. destruct (bytes_ltb (fst f) (fst g)) eqn:E2; [reflexivity|].
        exfalso. apply (D g); [left; reflexivity|]. symmetry. apply bytes_ltb_total; assumption. }
      constructor; [exact S|]. constructor; [exact Lfg|].
      apply Forall_forall. intros h Hh. rewrite Forall_forall in Fr.
      unfold key_lt in *. eapply bytes_ltb_trans; [exact Lfg | apply Fr; exact Hh].
Qed.

Lemma sort_sorted l : NoDup (map fst l) -> StronglySorted key_lt (sort_fields l).
Proof.
  induction l as [|f l IH]; intro N; [constructor|]. unfold sort_fields in *. cbn [fold_right].
  inversion N as [|? ? Nf Nl]; subst.
  apply insert_sorted; [apply IH; exact Nl|].
  intros g Hg E. apply Nf. apply (Permutation_in _ (sort_perm l)) in Hg.
  rewrite <- E. apply in_map. exact Hg.
Qed.

Lemma sorted_perm_unique l : forall l',
  StronglySorted key_lt l -> StronglySorted key_lt l' -> Permutation l l' -> l = l'.
Proof.
  induction l as [|a l IH]; intros l' S S' P.
  - apply Permutation_nil in P. subst. reflexivity.
  - destruct l' as [|a' l']; [apply Permutation_sym, Permutation_nil in P; discriminate|].
    inversion S as [|? ? Sl Fl]; subst. inversion S' as [|? ? Sl' Fl']; subst.
    rewrite Forall_forall in Fl, Fl'.
    assert (Ea : a = a').
    { assert (Ia : In a (a' :: l')) by (apply (Permutation_in _ P); left; reflexivity).
      assert (Ia' : In a' (a :: l)) by (apply (Permutation_in _ (Permutation_sym P)); left; reflexivity).
      destruct Ia as [E|Ia]; [symmetry; exact E|].
      destruct Ia' as [E|Ia']; [exact E|].
      exfalso. pose proof (Fl' _ Ia) as L1. pose proof (Fl _ Ia') as L2. unfold key_lt in *.
      rewrite (bytes_ltb_asym _ _ L1) in L2. discriminate. }
    subst a'. f_equal. apply IH; [exact Sl | exact Sl' | eapply Permutation_cons_inv; exact P].
Qed.

Theorem sort_fields_permutation_invariant l l' :
  NoDup (map fst l) -> Permutation l l' -> sort_fields l = sort_fields l'.
Proof.
  intros N P.
  assert (N' : NoDup (map fst l')) by (eapply Permutation_NoDup; [apply Permutation_map; exact P | exact N]).
  apply sorted_perm_unique; [apply sort_sorted; exact N | apply sort_sorted; exact N'|].
  eapply Permutation_trans; [apply sort_perm|]. eapply Permutation_trans; [exact P|]. apply Permutation_sym, sort_perm.
Qed.

(* ---------- the contract ---------- *)
Lemma contract_keys_nodup c : NoDup (map fst (contract_fields c)).
Proof.
  cbn [contract_fields map fst].
  repeat (constructor; [cbn [In]; intro H; repeat (destruct H as [H|H]; [discriminate H|]); exact H|]).
  constructor.
Qed.

(* the full statement: whatever the order in which the six fields are listed, the key-sorted JSON (and therefore
   the contract hash) is the same *)
Theorem contract_json_key_order c l :
  Permutation l (contract_fields c) -> ser_json 3 (JObj l) = contract_json c.
Proof.
  intro P. unfold contract_json. cbn [ser_json].
  rewrite (sort_fields_permutation_invariant (contract_fields c) l (contract_keys_nodup c) (Permutation_sym P)).
  reflexivity.
Qed.

Corollary contract_hash_key_order c l :
  Permutation l (contract_fields c) -> sha256 (ser_json 3 (JObj l)) = contract_hash c.
Proof. intro P. unfold contract_hash. rewrite (contract_json_key_order c l P). reflexivity. Qed.
