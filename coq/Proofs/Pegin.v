(* Proofs/Pegin.v — C20, claim part: shape of the peg-in claim built by pegin.Claim
   (Model/Pegin.v) and its fee / value split. *)
From GE Require Import Lib.Bytes Lib.Varint Lib.Sha256 Model.Tx Model.Merkle Model.Pegin.
From Coq Require Import ZifyBool ZifyN ZifyNat.
Open Scope N_scope.

Lemma pow256_8 : 256 ^ N.of_nat 8 = two64.
Proof. reflexivity. Qed.

Lemma value_of_value_bytes v : v < two64 -> value_of (value_bytes v) = v.
Proof. intro Hv. unfold value_of, value_bytes. apply be_dec_enc. rewrite pow256_8. exact Hv. Qed.

(* SerializeValue is the 8-byte little-endian amount *)
Lemma serialize_value_le v : serialize_value v = le_enc 8 v.
Proof.
  unfold serialize_value, value_bytes. cbn [rev]. rewrite removelast_last.
  unfold be_enc. apply rev_involutive.
Qed.

Definition outs_sum (t : tx) : N := fold_right (fun o acc => value_of (o_value o) + acc) 0 (t_outs t).

Definition claim_dummy (input : txin) (asset cs : bytes) (amount : N) : tx :=
  mk_tx 2 0 0 [input] [claim_out0 asset cs amount; claim_out1 asset 0].

(* fee <= amount: the two outputs add up to the pegged amount *)
Theorem claim_tx_outputs_sum input asset cs amount fee_of :
  amount < two64 -> fee_of (vsize (claim_dummy input asset cs amount)) <= amount ->
  outs_sum (claim_tx input asset cs amount fee_of) = amount.
Proof.
  intros Ha Hf. unfold claim_tx. fold (claim_dummy input asset cs amount).
  set (fee := fee_of (vsize (claim_dummy input asset cs amount))) in *.
  unfold outs_sum. cbn [t_outs fold_right claim_out0 claim_out1 o_value].
  assert (E : (amount + two64 - fee) mod two64 = amount - fee).
  { replace (amount + two64 - fee) with ((amount - fee) + 1 * two64) by lia.
    rewrite N.mod_add by (unfold two64; lia). apply N.mod_small. lia. }
  rewrite E, !value_of_value_bytes by lia. lia.
Qed.

(* fee > amount: the subtraction wraps modulo 2^64 and the outputs add up to amount + 2^64 *)
Theorem claim_tx_outputs_wrap input asset cs amount fee_of :
  amount < two64 ->
  amount < fee_of (vsize (claim_dummy input asset cs amount)) ->
  fee_of (vsize (claim_dummy input asset cs amount)) < two64 ->
  outs_sum (claim_tx input asset cs amount fee_of) = amount + two64.
Proof.
  intros Ha Hf Hf2. unfold claim_tx. fold (claim_dummy input asset cs amount).
  set (fee := fee_of (vsize (claim_dummy input asset cs amount))) in *.
  unfold outs_sum. cbn [t_outs fold_right claim_out0 claim_out1 o_value].
  assert (E : (amount + two64 - fee) mod two64 = amount + two64 - fee).
  { apply N.mod_small. lia. }
  rewrite E, !value_of_value_bytes by lia. lia.
Qed.

Lemma claim_inv asset genesis cs proof bv fee_of t :
  claim asset genesis cs proof bv fee_of = PgOk t ->
  exists input amount,
    create_pegin_input asset genesis cs proof bv = PgOk (input, amount) /\
    t = claim_tx input asset cs amount fee_of.
Proof.
  unfold claim. destruct (create_pegin_input asset genesis cs proof bv) as [[input amount]| |]; try discriminate.
  destruct ((0x8000000000000000 <=? amount) || (amount <? claim_fee input asset cs amount fee_of)); [discriminate|].
  intro E. injection E as <-. exists input, amount. split; reflexivity.
Qed.

(* the guard added by fix 858a1b0 *)
Lemma claim_guard asset genesis cs proof bv fee_of t input amount :
  claim asset genesis cs proof bv fee_of = PgOk t ->
  create_pegin_input asset genesis cs proof bv = PgOk (input, amount) ->
  amount < 0x8000000000000000 /\ fee_of (vsize (claim_dummy input asset cs amount)) <= amount.
Proof.
  unfold claim. intros C P. rewrite P in C. unfold claim_fee in C. fold (claim_dummy input asset cs amount) in C.
  destruct (N.leb_spec 0x8000000000000000 amount); [discriminate|].
  destruct (N.ltb_spec amount (fee_of (vsize (claim_dummy input asset cs amount)))); [discriminate|]. split; lia.
Qed.

(* the output found pays the main-chain script; its index and value are returned *)
Lemma find_out_spec script : forall outs k acc idx amount,
  find_out outs script k acc = Some (idx, amount) ->
  acc = Some (idx, amount) \/
  exists i s, nth_error outs i = Some (amount, s) /\ s = script /\ idx = (k + N.of_nat i) mod two32.
Proof.
  induction outs as [|[v s] r IH]; intros k acc idx amount F; cbn [find_out] in F.
  - left. exact F.
  - apply IH in F as [F|[i [s' [Hn [Hs Hi]]]]].
    + destruct (bytes_eqb s script) eqn:Eb.
      * injection F as <- <-. right. exists 0%nat, s. apply bytes_eqb_eq in Eb.
        split; [reflexivity|]. split; [exact Eb|]. f_equal. lia.
      * left. exact F.
    + right. exists (S i), s'. split; [exact Hn|]. split; [exact Hs|]. rewrite Hi. f_equal. lia.
Qed.

(* claim shape: what an accepted claim is made of *)
Theorem claim_shape asset genesis cs proof bv fee_of t :
  claim asset genesis cs proof bv fee_of = PgOk t ->
  exists mb rest v idx amount a0 tail i,
    parse_merkle_block proof = Some (mb, rest) /\
    extract_mb mb = Some (header_root (mb_header mb), [bv_txid v]) /\     (* proof root = header root, one match = the bitcoin txid *)
    bv = Some v /\
    nth_error (bv_outs v) i = Some (amount, bv_main_script v) /\ idx = N.of_nat i mod two32 /\
    asset = a0 :: tail /\
    t_version t = 2 /\ t_locktime t = 0 /\
    t_ins t = [pegin_input (bv_txid v) idx
                 [le_enc 8 amount; tail; rev genesis; cs; bv_stripped v; proof]] /\
    (exists v0 v1, t_outs t = [claim_out0 asset cs v0; claim_out1 asset v1]) /\
    t = claim_tx (pegin_input (bv_txid v) idx [le_enc 8 amount; tail; rev genesis; cs; bv_stripped v; proof])
                 asset cs amount fee_of.
Proof.
  intro C. apply claim_inv in C as [input [amount [P ->]]].
  unfold create_pegin_input in P.
  destruct (parse_merkle_block proof) as [[mb rest]|] eqn:Pm; [|discriminate].
  destruct (extract_mb mb) as [[root ms]|] eqn:Ex; [|discriminate].
  destruct (bytes_eqb (header_root (mb_header mb)) root) eqn:Er; cbn [negb] in P; [|discriminate].
  apply bytes_eqb_eq in Er. subst root.
  destruct bv as [v|]; [|discriminate].
  destruct ms as [|m0 [|m1 ms']]; try discriminate.
  destruct (bytes_eqb (bv_txid v) m0) eqn:Et; cbn [negb] in P; [|discriminate].
  apply bytes_eqb_eq in Et. subst m0.
  destruct (find_out (bv_outs v) (bv_main_script v) 0 None) as [[idx am]|] eqn:F; [|discriminate].
  destruct asset as [|a0 tail]; [discriminate|].
  injection P as <- <-. rewrite serialize_value_le.
  apply find_out_spec in F as [F|[i [s [Hn [Hs Hi]]]]]; [discriminate|]. subst s.
  exists mb, rest, v, idx, am, a0, tail, i.
  repeat split; try reflexivity; try assumption.
  unfold claim_tx. cbn [t_outs]. eexists. eexists. reflexivity.
Qed.

(* the outpoint carries the peg-in flag on the wire *)
Lemma pegin_input_flag hash idx wit :
  in_pegin (pegin_input hash idx wit) = true /\
  N.testbit (raw_index (pegin_input hash idx wit)) 30 = true.
Proof.
  split; [reflexivity|]. unfold raw_index, pegin_input. cbn [in_iss in_pegin in_index].
  rewrite N.lor_spec. replace (N.testbit OutpointPeginFlag 30) with true by reflexivity.
  apply orb_true_r.
Qed.

(* every accepted claim's outputs sum to the pegged amount (full statement, after fix 858a1b0) *)
Theorem claim_outputs_sum asset genesis cs proof bv fee_of t :
  claim asset genesis cs proof bv fee_of = PgOk t ->
  exists input amount,
    create_pegin_input asset genesis cs proof bv = PgOk (input, amount) /\ outs_sum t = amount.
Proof.
  intro C. pose proof C as C0. apply claim_inv in C as [input [amount [P ->]]]. exists input, amount.
  split; [exact P|]. destruct (claim_guard _ _ _ _ _ _ _ _ _ C0 P) as [Ha Hf].
  apply claim_tx_outputs_sum; [unfold two64; lia | exact Hf].
Qed.

(* ---------- a concrete claim; and the refutation of the sum for fee > amount ---------- *)
Definition ex_txid : bytes := repeat x07 32.
Definition ex_header : bytes := repeat x00 36 ++ ex_txid ++ repeat x00 12.
(* one-transaction block: count 1, one hash, one flag byte 0x01 *)
Definition ex_proof : bytes := ex_header ++ le_enc 4 1 ++ [x01] ++ ex_txid ++ [x01; x01].
Definition ex_script : bytes := [x00; x20] ++ repeat xaa 32.
Definition ex_view : btc_view := mk_bv ex_txid [x02; x00] [(5, [x51]); (1000, ex_script)] ex_script.
Definition ex_asset : bytes := x01 :: repeat x25 32.

Example claim_example :
  exists t, claim ex_asset (repeat x06 32) [x00; x14] ex_proof (Some ex_view) (fun vs => vs) = PgOk t /\
            outs_sum t = 1000 /\ (exists i, t_ins t = [i] /\ in_index i = 1 /\ in_hash i = ex_txid).
Proof. eexists. split; [vm_compute; reflexivity|]. split; [vm_compute; reflexivity|]. eexists. split; vm_compute; auto. Qed.

(* a fee above the pegged amount is refused (it used to wrap modulo 2^64 before fix 858a1b0) *)
Example claim_fee_above_amount_refused :
  claim ex_asset (repeat x06 32) [x00; x14] ex_proof (Some ex_view) (fun _ => 2000) = PgErr.
Proof. vm_compute. reflexivity. Qed.

(* once the proof and the transaction are accepted, the claim is produced exactly when the amount is a
   non-negative int64 and the fee does not exceed it *)
Theorem claim_succeeds_iff asset genesis cs proof bv fee_of input amount :
  create_pegin_input asset genesis cs proof bv = PgOk (input, amount) ->
  (exists t, claim asset genesis cs proof bv fee_of = PgOk t) <->
  (amount < 0x8000000000000000 /\ claim_fee input asset cs amount fee_of <= amount).
Proof.
  intro P. unfold claim. rewrite P.
  destruct (N.leb_spec 0x8000000000000000 amount) as [Hn|Hn];
    destruct (N.ltb_spec amount (claim_fee input asset cs amount fee_of)) as [Hf|Hf]; cbn [orb]; split.
  all: try (intros [t E]; discriminate E).
  all: try (intros [Ha Hb]; exfalso; lia).
  - intros _. split; [exact Hn|exact Hf].
  - intros _. eexists. reflexivity.
Qed.

Theorem claim_refuses_excess_fee asset genesis cs proof bv fee_of input amount :
  create_pegin_input asset genesis cs proof bv = PgOk (input, amount) ->
  amount < claim_fee input asset cs amount fee_of ->
  claim asset genesis cs proof bv fee_of = PgErr.
Proof.
  intros P Hf. unfold claim. rewrite P.
  destruct (N.ltb_spec amount (claim_fee input asset cs amount fee_of)); [|lia]. rewrite orb_true_r. reflexivity.
Qed.
