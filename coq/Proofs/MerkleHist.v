(* Proofs/MerkleHist.v — C20 over histories of one MerkleBlock object: between calls
   ExtractMatches keeps nothing but FBad; with FBad clear the verdict is the pure function
   `extract` of the fields as they are now (what a freshly decoded proof with those fields gets);
   once FBad is set every later call is refused (FBad is a field of the value). *)
From GE Require Import Lib.Bytes Lib.Sha256 Model.Merkle Model.MerkleHist Proofs.Merkle.
From Coq Require Import ZifyBool ZifyN ZifyNat.
Open Scope N_scope.

Section Hist.
Variable A : Type.
Variable H : A -> A -> A.
Variable eqA : A -> A -> bool.
Variable okA : A -> bool.
Notation traverse := (traverse A H eqA).
Notation traverse_h := (traverse_h A H eqA okA).
Notation okl := (Forall (fun x => okA x = true)).

(* on entries of the right length the walk of this file is the walk of Model/Merkle.v, and its
   failures are the two that set FBad *)
Lemma traverse_h_refines n : forall h pos (s : st A), okl (s_hashes s) ->
  match traverse n h pos s with
  | Some (x, s') => traverse_h n h pos s = TOk A x s' /\ okl (s_hashes s')
  | None => traverse_h n h pos s = TErr A true
  end.
Proof.
  assert (Leaf : forall (s : st A) bits' (mh : bool), okl (s_hashes s) ->
    match (match s_hashes s with
           | [] => None
           | x :: hs' => Some (x, mk_st bits' hs' (if mh then s_match s ++ [x] else s_match s) (s_bad s))
           end) with
    | Some (x, s') =>
        match s_hashes s with
        | [] => TErr A true
        | x0 :: hs' => if okA x0 then TOk A x0 (mk_st bits' hs' (if mh then s_match s ++ [x0] else s_match s) (s_bad s))
                       else TErr A (s_bad s)
        end = TOk A x s' /\ okl (s_hashes s')
    | None =>
        match s_hashes s with
        | [] => TErr A true
        | x0 :: hs' => if okA x0 then TOk A x0 (mk_st bits' hs' (if mh then s_match s ++ [x0] else s_match s) (s_bad s))
                       else TErr A (s_bad s)
        end = TErr A true
    end).
  { intros s bits' mh Hok. destruct (s_hashes s) as [|y hs']; [reflexivity|].
    inversion Hok as [|? ? Hy Hr]; subst. rewrite Hy. split; [reflexivity|exact Hr]. }
  induction h as [|h IH]; intros pos s Hok; cbn [Merkle.traverse MerkleHist.traverse_h].
  - destruct (s_bits s) as [|b bits']; [reflexivity|]. apply (Leaf s bits' b). exact Hok.
  - destruct (s_bits s) as [|b bits']; [reflexivity|]. destruct b; cbn [negb]; [|apply (Leaf s bits' false); exact Hok].
    pose proof (IH (pos * 2) (mk_st bits' (s_hashes s) (s_match s) (s_bad s)) Hok) as L.
    destruct (traverse n h (pos * 2) (mk_st bits' (s_hashes s) (s_match s) (s_bad s))) as [[l s1]|].
    2:{ rewrite L. reflexivity. }
    destruct L as [L Ok1]. rewrite L.
    destruct (pos * 2 + 1 <? width n (N.of_nat h)); [|split; [reflexivity|exact Ok1]].
    pose proof (IH (pos * 2 + 1) s1 Ok1) as R.
    destruct (traverse n h (pos * 2 + 1) s1) as [[r s2]|]; [|rewrite R; reflexivity].
    destruct R as [R Ok2]. rewrite R. split; [reflexivity|exact Ok2].
Qed.

(* a fresh object (FBad clear, entries of the right length): extract_hist is extract *)
Theorem extract_hist_fresh n hashes bits : okl hashes ->
  fst (extract_hist A H eqA okA false n hashes bits) = extract A H eqA n hashes bits.
Proof.
  intro Hok. unfold extract_hist, extract.
  destruct (n =? 0); [reflexivity|]. destruct (max_txs <? n); [reflexivity|].
  destruct (n <? lenL hashes); [reflexivity|]. destruct (lenL bits <? lenL hashes); [reflexivity|].
  destruct (height_loop 34 n 0) as [h|]; [|reflexivity].
  pose proof (traverse_h_refines n (N.to_nat h) 0 (mk_st bits hashes [] false) Hok) as R.
  destruct (traverse n (N.to_nat h) 0 (mk_st bits hashes [] false)) as [[root s]|]; [|rewrite R; reflexivity].
  destruct R as [R _]. rewrite R.
  destruct (s_bad s); [reflexivity|].
  destruct (negb (_ =? _)); [reflexivity|]. destruct (negb (_ =? _)%nat); reflexivity.
Qed.

(* the walk never clears FBad, however it ends *)
Lemma traverse_h_bad_mono n : forall h pos (s : st A), s_bad s = true ->
  match traverse_h n h pos s with TOk _ _ s' => s_bad s' = true | TErr _ e => e = true end.
Proof.
  induction h as [|h IH]; intros pos s Hb; cbn [MerkleHist.traverse_h].
  - destruct (s_bits s) as [|b bits']; [reflexivity|]. destruct (s_hashes s) as [|y hs']; [reflexivity|].
    destruct (okA y); exact Hb.
  - destruct (s_bits s) as [|b bits']; [reflexivity|]. destruct b; cbn [negb].
    2:{ destruct (s_hashes s) as [|y hs']; [reflexivity|]. destruct (okA y); exact Hb. }
    pose proof (IH (pos * 2) (mk_st bits' (s_hashes s) (s_match s) (s_bad s)) Hb) as L.
    destruct (traverse_h n h (pos * 2) (mk_st bits' (s_hashes s) (s_match s) (s_bad s))) as [l s1|e]; [|exact L].
    destruct (pos * 2 + 1 <? width n (N.of_nat h)); [|exact L].
    pose proof (IH (pos * 2 + 1) s1 L) as R.
    destruct (traverse_h n h (pos * 2 + 1) s1) as [r s2|e]; [|exact R]. cbn [s_bad]. rewrite R. reflexivity.
Qed.

(* an object whose FBad is set refuses everything, and stays that way *)
Theorem extract_hist_sticky n hashes bits :
  extract_hist A H eqA okA true n hashes bits = (None, true).
Proof.
  unfold extract_hist.
  destruct (n =? 0); [reflexivity|]. destruct (max_txs <? n); [reflexivity|].
  destruct (n <? lenL hashes); [reflexivity|]. destruct (lenL bits <? lenL hashes); [reflexivity|].
  destruct (height_loop 34 n 0) as [h|]; [|reflexivity].
  pose proof (traverse_h_bad_mono n (N.to_nat h) 0 (mk_st bits hashes [] true) eq_refl) as M.
  destruct (traverse_h n (N.to_nat h) 0 (mk_st bits hashes [] true)) as [root s|e]; rewrite M; reflexivity.
Qed.

(* a successful walk has passed every entry it consumed through NewHash *)
Lemma traverse_h_consumed_ok n : forall h pos (s s' : st A) x,
  traverse_h n h pos s = TOk A x s' -> exists c, s_hashes s = c ++ s_hashes s' /\ okl c.
Proof.
  induction h as [|h IH]; intros pos s s' x Tr; cbn [MerkleHist.traverse_h] in Tr.
  - destruct (s_bits s) as [|b bits']; [discriminate|]. destruct (s_hashes s) as [|y hs']; [discriminate|].
    destruct (okA y) eqn:Hy; [|discriminate]. injection Tr as _ <-. exists [y]. split; [reflexivity|]. constructor; [exact Hy|constructor].
  - destruct (s_bits s) as [|b bits']; [discriminate|]. destruct b; cbn [negb] in Tr.
    2:{ destruct (s_hashes s) as [|y hs']; [discriminate|]. destruct (okA y) eqn:Hy; [|discriminate].
        injection Tr as _ <-. exists [y]. split; [reflexivity|]. constructor; [exact Hy|constructor]. }
    destruct (traverse_h n h (pos * 2) (mk_st bits' (s_hashes s) (s_match s) (s_bad s))) as [l s1|e] eqn:L; [|discriminate].
    apply IH in L as [c1 [C1 O1]]. cbn [s_hashes] in C1.
    destruct (pos * 2 + 1 <? width n (N.of_nat h)).
    + destruct (traverse_h n h (pos * 2 + 1) s1) as [r s2|e] eqn:R; [|discriminate].
      apply IH in R as [c2 [C2 O2]]. injection Tr as _ <-. cbn [s_hashes].
      exists (c1 ++ c2). rewrite C1, C2, app_assoc. split; [reflexivity|]. apply Forall_app. split; assumption.
    + injection Tr as _ <-. exists c1. split; assumption.
Qed.

(* altered hash LENGTH: an entry that is not 32 bytes long is never accepted, whatever FBad, count or flags *)
Theorem extract_hist_accepts_only_valid_entries bad n hashes bits r bad' :
  extract_hist A H eqA okA bad n hashes bits = (Some r, bad') -> okl hashes.
Proof.
  unfold extract_hist.
  destruct (n =? 0); [discriminate|]. destruct (max_txs <? n); [discriminate|].
  destruct (n <? lenL hashes); [discriminate|]. destruct (lenL bits <? lenL hashes); [discriminate|].
  destruct (height_loop 34 n 0) as [h|]; [|discriminate].
  destruct (traverse_h n (N.to_nat h) 0 (mk_st bits hashes [] bad)) as [root s|e] eqn:Tr; [|discriminate].
  destruct (s_bad s); [discriminate|]. destruct (negb (_ =? _)); [discriminate|].
  destruct (s_hashes s) as [|y ys] eqn:E; [|discriminate]. intros _.
  apply traverse_h_consumed_ok in Tr as [c [C O]]. cbn [s_hashes] in C. rewrite E, app_nil_r in C. subst c. exact O.
Qed.

End Hist.

(* histories: with FBad clear, a call returns what a freshly decoded proof with the object's present
   count / hashes / flag bits returns -- whatever was extracted or edited before *)
Theorem history_verdict_is_fresh_verdict o o' res :
  h_bad o = false -> Forall (fun h => hash32 h = true) (h_hashes o) -> hstep o HExtract = Some (o', Some res) ->
  res = extract bytes node_hash bytes_eqb (h_count o) (h_hashes o) (h_bits o).
Proof.
  intros Hb Hok St. unfold hstep in St. rewrite Hb in St.
  pose proof (extract_hist_fresh bytes node_hash bytes_eqb hash32 (h_count o) (h_hashes o) (h_bits o) Hok) as F.
  destruct (extract_hist bytes node_hash bytes_eqb hash32 false (h_count o) (h_hashes o) (h_bits o)) as [r b'].
  cbn [fst] in F. injection St as _ <-. exact F.
Qed.

(* a successful call leaves FBad clear: after it, edits and further calls are again "fresh" *)
Theorem history_success_keeps_fresh o o' r :
  hstep o HExtract = Some (o', Some (Some r)) -> h_bad o' = false.
Proof.
  unfold hstep. destruct (h_bad o) eqn:Hb.
  - rewrite extract_hist_sticky. intro E. discriminate E.
  - unfold extract_hist.
    destruct (h_count o =? 0); [intro E; discriminate E|]. destruct (max_txs <? h_count o); [intro E; discriminate E|].
    destruct (h_count o <? lenL (h_hashes o)); [intro E; discriminate E|].
    destruct (lenL (h_bits o) <? lenL (h_hashes o)); [intro E; discriminate E|].
    destruct (height_loop 34 (h_count o) 0) as [h|]; [|intro E; discriminate E].
    destruct (traverse_h bytes node_hash bytes_eqb hash32 (h_count o) (N.to_nat h) 0 (mk_st (h_bits o) (h_hashes o) [] false)) as [root s|e];
      [|intro E; discriminate E].
    destruct (s_bad s); [intro E; discriminate E|].
    destruct (negb (_ =? _)); [intro E; discriminate E|]. destruct (negb (_ =? _)%nat); [intro E; discriminate E|].
    intro E. injection E as <- _. reflexivity.
Qed.

(* a call on an object with a TxHashes entry that is not 32 bytes long (only reachable through the
   exported field) is refused: chainhash.NewHash fails on it *)
Theorem history_bad_length_refused o o' res :
  ~ Forall (fun h => hash32 h = true) (h_hashes o) -> hstep o HExtract = Some (o', Some res) -> res = None.
Proof.
  intros Hn St. unfold hstep in St.
  destruct (extract_hist bytes node_hash bytes_eqb hash32 (h_bad o) (h_count o) (h_hashes o) (h_bits o)) as [r b'] eqn:E.
  injection St as _ <-. destruct r as [r|]; [|reflexivity].
  exfalso. apply Hn. exact (extract_hist_accepts_only_valid_entries _ _ _ _ _ _ _ _ _ _ E).
Qed.

(* FBad is part of the value (an exported field) and is never cleared by ExtractMatches: an object that
   carries FBad = true is refused whatever its other fields say -- here with the fields of a genuine proof.
   (Not a failure of the property, which is about proofs as built or decoded; Bitcoin Core behaves alike.) *)
Theorem history_sticky_fbad_example :
  exists n hashes bits r,
    extract term Hn term_eqb n hashes bits = Some r /\
    fst (extract_hist term Hn term_eqb (fun _ => true) true n hashes bits) = None.
Proof.
  exists 4, [T 1; T 2; Hn (T 3) (T 4)], [true; true; true; false; false; false; false; false],
    (Hn (Hn (T 1) (T 2)) (Hn (T 3) (T 4)), [T 1]).
  split; [vm_compute; reflexivity|]. rewrite extract_hist_sticky. reflexivity.
Qed.
