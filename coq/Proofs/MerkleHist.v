(* Proofs/MerkleHist.v — C20 over histories of one MerkleBlock object: between calls
   ExtractMatches keeps nothing but FBad; with FBad clear the verdict is the pure function
   `extract` of the fields as they are now (what a freshly decoded proof with those fields gets);
   once FBad is set every later call is refused (FBad is a field of the value). *)
From GE Require Import Lib.Bytes Lib.Sha256 Model.Merkle Model.MerkleHist Proofs.Merkle.
From Coq Require Import ZifyBool ZifyN ZifyNat.
Open Scope N_scope.

Section Hist.
Variable A : Type.
Variable H : A -> A -> A.
Variable eqA : A -> A -> bool.
Notation traverse := (traverse A H eqA).

(* a fresh object (FBad clear): extract_hist is extract *)
Theorem extract_hist_fresh n hashes bits :
  fst (extract_hist A H eqA false n hashes bits) = extract A H eqA n hashes bits.
Proof.
  unfold extract_hist, extract.
  destruct (n =? 0); [reflexivity|]. destruct (max_txs <? n); [reflexivity|].
  destruct (n <? lenL hashes); [reflexivity|]. destruct (lenL bits <? lenL hashes); [reflexivity|].
  destruct (height_loop 34 n 0) as [h|]; [|reflexivity].
  destruct (traverse n (N.to_nat h) 0 (mk_st bits hashes [] false)) as [[root s]|]; [|reflexivity].
  destruct (s_bad s); [reflexivity|].
  destruct (negb (_ =? _)); [reflexivity|]. destruct (negb (_ =? _)%nat); reflexivity.
Qed.

(* the walk never clears FBad *)
Lemma traverse_bad_mono n : forall h pos (s s' : st A) x,
  traverse n h pos s = Some (x, s') -> s_bad s = true -> s_bad s' = true.
Proof.
  induction h as [|h IH]; intros pos s s' x Tr Hb; cbn [Merkle.traverse] in Tr.
  - destruct (s_bits s) as [|b bits']; [discriminate|]. destruct (s_hashes s) as [|y hs']; [discriminate|].
    injection Tr as _ <-. exact Hb.
  - destruct (s_bits s) as [|b bits']; [discriminate|]. destruct b; cbn [negb] in Tr.
    2:{ destruct (s_hashes s) as [|y hs']; [discriminate|]. injection Tr as _ <-. exact Hb. }
    destruct (traverse n h (pos * 2) (mk_st bits' (s_hashes s) (s_match s) (s_bad s))) as [[l s1]|] eqn:L; [|discriminate].
    apply IH in L; [|exact Hb].
    destruct (pos * 2 + 1 <? width n (N.of_nat h)).
    + destruct (traverse n h (pos * 2 + 1) s1) as [[r s2]|] eqn:R; [|discriminate].
      apply IH in R; [|exact L]. injection Tr as _ <-. cbn [s_bad]. rewrite R. reflexivity.
    + injection Tr as _ <-. exact L.
Qed.

(* an object whose FBad is set refuses everything, and stays that way *)
Theorem extract_hist_sticky n hashes bits :
  extract_hist A H eqA true n hashes bits = (None, true).
Proof.
  unfold extract_hist.
  destruct (n =? 0); [reflexivity|]. destruct (max_txs <? n); [reflexivity|].
  destruct (n <? lenL hashes); [reflexivity|]. destruct (lenL bits <? lenL hashes); [reflexivity|].
  destruct (height_loop 34 n 0) as [h|]; [|reflexivity].
  destruct (traverse n (N.to_nat h) 0 (mk_st bits hashes [] true)) as [[root s]|] eqn:Tr; [|reflexivity].
  rewrite (traverse_bad_mono n _ _ _ _ _ Tr eq_refl). reflexivity.
Qed.

End Hist.

(* histories: with FBad clear, a call returns what a freshly decoded proof with the object's present
   count / hashes / flag bits returns -- whatever was extracted or edited before *)
Theorem history_verdict_is_fresh_verdict o o' res :
  h_bad o = false -> hstep o HExtract = Some (o', Some res) ->
  res = extract bytes node_hash bytes_eqb (h_count o) (h_hashes o) (h_bits o).
Proof.
  intros Hb St. unfold hstep in St. rewrite Hb in St.
  pose proof (extract_hist_fresh bytes node_hash bytes_eqb (h_count o) (h_hashes o) (h_bits o)) as F.
  destruct (extract_hist bytes node_hash bytes_eqb false (h_count o) (h_hashes o) (h_bits o)) as [r b'].
  cbn [fst] in F. injection St as _ <-. exact F.
Qed.

(* a successful call leaves FBad clear: after it, edits and further calls are again "fresh" *)
Theorem history_success_keeps_fresh o o' r :
  hstep o HExtract = Some (o', Some (Some r)) -> h_bad o' = false.
Proof.
  unfold hstep. destruct (h_bad o) eqn:Hb.
  - rewrite extract_hist_sticky. intro E. discriminate E.
  - unfold extract_hist.
    destruct (h_count o =? 0); [intro E; discriminate E|]. destruct (max_txs <? h_count o); [intro E; discriminate E|].
    destruct (h_count o <? lenL (h_hashes o)); [intro E; discriminate E|].
    destruct (lenL (h_bits o) <? lenL (h_hashes o)); [intro E; discriminate E|].
    destruct (height_loop 34 (h_count o) 0) as [h|]; [|intro E; discriminate E].
    destruct (traverse bytes node_hash bytes_eqb (h_count o) (N.to_nat h) 0 (mk_st (h_bits o) (h_hashes o) [] false)) as [[root s]|];
      [|intro E; discriminate E].
    destruct (s_bad s); [intro E; discriminate E|].
    destruct (negb (_ =? _)); [intro E; discriminate E|]. destruct (negb (_ =? _)%nat); [intro E; discriminate E|].
    intro E. injection E as <- _. reflexivity.
Qed.

(* FBad is part of the value (an exported field) and is never cleared by ExtractMatches: an object that
   carries FBad = true is refused whatever its other fields say -- here with the fields of a genuine proof.
   (Not a failure of the property, which is about proofs as built or decoded; Bitcoin Core behaves alike.) *)
Theorem history_sticky_fbad_example :
  exists n hashes bits r,
    extract term Hn term_eqb n hashes bits = Some r /\
    fst (extract_hist term Hn term_eqb true n hashes bits) = None.
Proof.
  exists 4, [T 1; T 2; Hn (T 3) (T 4)], [true; true; true; false; false; false; false; false],
    (Hn (Hn (T 1) (T 2)) (Hn (T 3) (T 4)), [T 1]).
  split; [vm_compute; reflexivity|]. rewrite extract_hist_sticky. reflexivity.
Qed.
