(* Proofs/Descriptor.v — facts about the model of descriptor.Parse (Model/Descriptor.v), for C12:
   the guards in front of every index and slice expression make the Panic outcome unreachable; the result is
   a wallet or an error, never neither; white space in front of the checksum is irrelevant; what an accepted
   text looks like; which strict prefixes of an accepted text are accepted (the checksum is optional, the
   expression is searched for, not anchored); the follow-up calls on an accepted wallet. *)
From GE Require Import Lib.Bytes Model.Ripemd160 Model.Descriptor.
From Coq Require Import ZifyBool ZifyN ZifyNat.
Import ListNotations.
Import Desc.
Open Scope N_scope.

Module DescP.

(* ---------- bytes ---------- *)
Lemma beqb_refl c : beqb c c = true.
Proof. apply beqb_eq. reflexivity. Qed.

Lemma beqb_false_neq a b : beqb a b = false <-> a <> b.
Proof.
  split.
  - intros H E. apply beqb_eq in E. congruence.
  - intro H. destruct (beqb a b) eqn:E; [apply beqb_eq in E; contradiction | reflexivity].
Qed.

Lemma bytes_eqb_refl a : bytes_eqb a a = true.
Proof. apply bytes_eqb_eq. reflexivity. Qed.

(* number of occurrences of a byte *)
Fixpoint cnt (c : byte) (s : bytes) : nat :=
  match s with [] => O | x :: r => if beqb x c then S (cnt c r) else cnt c r end.

Lemma cnt_app c a b : cnt c (a ++ b) = (cnt c a + cnt c b)%nat.
Proof. induction a as [|x a IH]; cbn; [reflexivity|]. destruct (beqb x c); rewrite IH; reflexivity. Qed.

Lemma cnt_zero_not_in c s : cnt c s = O <-> ~ In c s.
Proof.
  induction s as [|x s IH]; cbn; [tauto|].
  destruct (beqb x c) eqn:E.
  - apply beqb_eq in E. subst. split; [discriminate | intro H; exfalso; apply H; left; reflexivity].
  - apply beqb_false_neq in E. rewrite IH. tauto.
Qed.

Lemma cnt_firstn_zero c n s : cnt c s = O -> cnt c (firstn n s) = O.
Proof.
  intro H. apply cnt_zero_not_in. apply cnt_zero_not_in in H. intro I. apply H.
  rewrite <- (firstn_skipn n s). apply in_or_app. left. exact I.
Qed.

Lemma cnt_filter_zero c f s : cnt c s = O -> cnt c (filter f s) = O.
Proof.
  intro H. apply cnt_zero_not_in. apply cnt_zero_not_in in H. intro I. apply H.
  apply filter_In in I. tauto.
Qed.

(* ---------- strings.Split ---------- *)
Lemma split_not_nil sep s : split sep s <> [].
Proof.
  destruct s as [|c r]; cbn; [discriminate|].
  destruct (beqb c sep); [discriminate|]. destruct (split sep r); discriminate.
Qed.

Lemma split_length sep s : length (split sep s) = S (cnt sep s).
Proof.
  induction s as [|c r IH]; cbn; [reflexivity|].
  destruct (beqb c sep); cbn; [rewrite IH; reflexivity|].
  destruct (split sep r) as [|h t] eqn:E; [exfalso; exact (split_not_nil _ _ E)|].
  cbn in *. exact IH.
Qed.

Lemma split_no_sep sep s : cnt sep s = O -> split sep s = [s].
Proof.
  induction s as [|c r IH]; cbn; [reflexivity|].
  destruct (beqb c sep); [discriminate|]. intro H. rewrite (IH H). reflexivity.
Qed.

Lemma split_app_nosep sep a x h t :
  cnt sep a = O -> split sep x = h :: t -> split sep (a ++ x) = (a ++ h) :: t.
Proof.
  intros Ha Hx. induction a as [|c a IH]; cbn in *; [exact Hx|].
  destruct (beqb c sep); [discriminate|]. rewrite (IH Ha). reflexivity.
Qed.

Lemma split_app_sep sep a c : cnt sep a = O -> split sep (a ++ sep :: c) = a :: split sep c.
Proof.
  intro Ha. rewrite (split_app_nosep sep a (sep :: c) [] (split sep c) Ha).
  - rewrite app_nil_r. reflexivity.
  - cbn. rewrite beqb_refl. reflexivity.
Qed.

(* the first piece: no separator in it, and it is the text in front of the first separator *)
Lemma split_head sep s h t :
  split sep s = h :: t ->
  cnt sep h = O /\ ((t = [] /\ s = h) \/ (exists r, s = h ++ sep :: r /\ t = split sep r)).
Proof.
  revert h t. induction s as [|c r IH]; cbn; intros h t H.
  - inversion H; subst. split; [reflexivity | left; split; reflexivity].
  - destruct (beqb c sep) eqn:E.
    + apply beqb_eq in E. subst c. inversion H; subst. split; [reflexivity|]. right. exists r. split; reflexivity.
    + destruct (split sep r) as [|h1 t1] eqn:S1; [exfalso; exact (split_not_nil _ _ S1)|].
      inversion H; subst. destruct (IH h1 t eq_refl) as [Hc Hs]. split.
      * cbn. rewrite E. exact Hc.
      * destruct Hs as [[-> ->] | [r1 [-> ->]]]; [left; split; reflexivity | right; exists r1; split; reflexivity].
Qed.

Lemma split_head_cons sep c r h t :
  beqb c sep = false -> split sep (c :: r) = h :: t -> exists h', h = c :: h'.
Proof.
  intros E H. cbn in H. rewrite E in H.
  destruct (split sep r) as [|h1 t1]; inversion H; subst; eexists; reflexivity.
Qed.

(* ---------- index and slice expressions ---------- *)
Lemma index_lt {A} (l : list A) i : (i < length l)%nat -> exists x, index l i = Some x.
Proof.
  intro H. unfold index. destruct (nth_error l i) eqn:E; [eexists; reflexivity|].
  apply nth_error_None in E. lia.
Qed.

Lemma slice_from_le {A} n (s : list A) : (n <= length s)%nat -> slice_from n s = Some (skipn n s).
Proof. intro H. unfold slice_from. destruct (Nat.leb_spec n (length s)); [reflexivity | lia]. Qed.

Lemma has_prefix_app s p : has_prefix s p = true -> exists r, s = p ++ r.
Proof.
  unfold has_prefix. intro H. apply bytes_eqb_eq in H. exists (skipn (length p) s).
  rewrite <- H at 1. symmetry. apply firstn_skipn.
Qed.

Lemma has_suffix_length s p : has_suffix s p = true -> (length p <= length s)%nat.
Proof. unfold has_suffix. intro H. apply andb_true_iff in H as [H _]. apply Nat.leb_le in H. exact H. Qed.

Lemma has_suffix_app s p : has_suffix s p = true -> s = firstn (length s - length p) s ++ p.
Proof.
  unfold has_suffix. intro H. apply andb_true_iff in H as [_ H]. apply bytes_eqb_eq in H.
  rewrite <- (firstn_skipn (length s - length p) s) at 1. f_equal. exact H.
Qed.

Lemma hex_decode_length : forall n s b, (length s <= n)%nat -> hex_decode s = Some b -> length s = (2 * length b)%nat.
Proof.
  induction n as [|n IH]; intros s b L H.
  - destruct s; [|cbn in L; lia]. cbn in H. inversion H; subst. reflexivity.
  - destruct s as [|x [|y r]]; cbn in H.
    + inversion H; subst. reflexivity.
    + discriminate.
    + destruct (hex_val x); [|discriminate]. destruct (hex_val y); [|discriminate].
      destruct (hex_decode r) as [t|] eqn:E; [|discriminate]. inversion H; subst.
      cbn in L. assert (L' : (length r <= n)%nat) by lia. specialize (IH r t L' E). cbn. lia.
Qed.

Lemma le_uint32_four b : length b = 4%nat -> exists m, le_uint32 b = Some m.
Proof.
  destruct b as [|b0 [|b1 [|b2 [|b3 r]]]]; cbn; intro H; try lia. eexists; reflexivity.
Qed.

(* ---------- no panic ---------- *)
Lemma parse_component_no_panic c : parse_component c <> Panic.
Proof.
  unfold parse_component.
  destruct (has_suffix (trim_space c) Lit.quote); [|destruct (has_suffix (trim_space c) Lit.aitch)];
    match goal with |- context [int_set_string0 ?x] => destruct (int_set_string0 x) as [z|] end;
    try discriminate;
    match goal with |- context [if ?b then _ else _] => destruct b end; discriminate.
Qed.

Lemma parse_path_no_panic cs : parse_path cs <> Panic.
Proof.
  induction cs as [|c r IH]; cbn; [discriminate|].
  destruct (parse_component c) eqn:E; [|discriminate|exfalso; exact (parse_component_no_panic _ E)].
  destruct (parse_path r); [discriminate|discriminate|contradiction].
Qed.

Lemma lbracket_not_slash : beqb "["%byte "/"%byte = false.
Proof. reflexivity. Qed.

Lemma parse_key_origin_info_no_panic ke : parse_key_origin_info false ke <> Panic.
Proof.
  unfold parse_key_origin_info.
  destruct (length (split "]"%byte ke)) as [|[|[|n]]] eqn:L; try discriminate.
  destruct (index_lt (split "]"%byte ke) 0 ltac:(lia)) as [p0 ->].
  destruct (has_prefix p0 Lit.lbracket) eqn:HP; [|discriminate].
  apply has_prefix_app in HP as [r ->]. cbn [Lit.lbracket app].
  destruct (split "/"%byte ("["%byte :: r)) as [|k0 kt] eqn:SP; [exfalso; exact (split_not_nil _ _ SP)|].
  destruct (split_head_cons _ _ _ _ _ lbracket_not_slash SP) as [k0' ->].
  cbn [index nth_error]. rewrite slice_from_le by (cbn; lia). cbn [skipn].
  destruct (Nat.eqb_spec (length k0') 8) as [L8|]; [|discriminate]. cbn [negb].
  destruct (hex_decode k0') as [fb|] eqn:HD; [|discriminate].
  pose proof (hex_decode_length _ _ _ (le_n _) HD) as HL.
  destruct (le_uint32_four fb ltac:(lia)) as [m ->].
  match goal with |- context [(1 <? ?x)%nat] => destruct (Nat.ltb_spec 1 x) as [L1|L1] end; [|discriminate].
  rewrite slice_from_le by (cbn in *; lia).
  destruct (parse_path _) eqn:PP; [discriminate|discriminate|exfalso; exact (parse_path_no_panic _ PP)].
Qed.

Lemma trim_key_origin_info_no_panic ke : trim_key_origin_info ke <> Panic.
Proof.
  unfold trim_key_origin_info.
  destruct (length (split "]"%byte ke)) as [|[|[|n]]] eqn:L; try discriminate.
  - destruct (index_lt (split "]"%byte ke) 0 ltac:(lia)) as [x ->]. discriminate.
  - destruct (index_lt (split "]"%byte ke) 1 ltac:(lia)) as [x ->]. discriminate.
Qed.

Lemma slice_to_ok {A} (s : list A) (n : Z) : (0 <= n <= Z.of_nat (length s))%Z -> exists x, slice_to n s = Some x.
Proof.
  intro H. unfold slice_to.
  destruct (Z.leb_spec 0 n); [|lia]. destruct (Z.leb_spec n (Z.of_nat (length s))); [|lia].
  eexists; reflexivity.
Qed.

Lemma split_head_length sep s h t : split sep s = h :: t -> (length h <= length s)%nat.
Proof.
  intro H. destruct (split_head _ _ _ _ H) as [_ [[_ ->] | [r [-> _]]]]; [lia|].
  rewrite app_length. lia.
Qed.

Lemma parse_key_no_panic o ke : parse_key o ke <> Panic.
Proof.
  unfold parse_key.
  destruct (split "/"%byte ke) as [|key t] eqn:SP; [exfalso; exact (split_not_nil _ _ SP)|].
  cbn [index nth_error].
  pose proof (split_head_length _ _ _ _ SP) as HL.
  assert (PS : exists ps0, (if (length (key :: t) =? 1)%nat then Some [] else slice_from (length key) ke) = Some ps0).
  { destruct (length (key :: t) =? 1)%nat; [eexists; reflexivity|]. rewrite slice_from_le by exact HL. eexists; reflexivity. }
  destruct PS as [ps0 ->].
  destruct (is_pub_key o key); [discriminate|].
  destruct (is_wif o key); [discriminate|].
  destruct (is_extended key); [|discriminate].
  destruct ps0 as [|c ps]; [discriminate|].
  rewrite slice_from_le by (cbn; lia). cbn [skipn].
  destruct (has_suffix ps Lit.slash_star) eqn:HS.
  - apply has_suffix_length in HS. cbn in HS.
    destruct (slice_to_ok ps (Z.of_nat (length ps) - 2) ltac:(lia)) as [ps2 ->].
    destruct (parse_path _) eqn:PP; [discriminate|discriminate|exfalso; exact (parse_path_no_panic _ PP)].
  - destruct (parse_path _) eqn:PP; [discriminate|discriminate|exfalso; exact (parse_path_no_panic _ PP)].
Qed.

Lemma parse_key_expression_no_panic o ke : parse_key_expression false o ke <> Panic.
Proof.
  unfold parse_key_expression.
  destruct (parse_key_origin_info false ke) eqn:E1; [|discriminate|exfalso; exact (parse_key_origin_info_no_panic _ E1)].
  destruct (trim_key_origin_info ke) eqn:E2; [|discriminate|exfalso; exact (trim_key_origin_info_no_panic _ E2)].
  destruct (parse_key o a0) as [[[p w] e]| |] eqn:E3; [discriminate|discriminate|exfalso; exact (parse_key_no_panic _ _ E3)].
Qed.

(* FindStringSubmatch of a pattern with two groups: three entries *)
Lemma match_at_three s m : match_at s = Some m -> exists a b c, m = [a; b; c].
Proof.
  unfold match_at. destruct (span_word s) as [w r]. destruct w as [|c0 w]; [discriminate|].
  destruct r as [|lp body]; [discriminate|]. destruct (beqb lp "("%byte); [|discriminate].
  destruct (last_index ")"%byte body) as [[|k]|]; try discriminate.
  intro H. inversion H. do 3 eexists. reflexivity.
Qed.

Lemma find_submatch_three s m : find_submatch s = Some m -> exists a b c, m = [a; b; c].
Proof.
  induction s as [|c r IH]; cbn [find_submatch].
  - destruct (match_at []) eqn:E; [|discriminate]. intro H. inversion H; subst. exact (match_at_three _ _ E).
  - destruct (match_at (c :: r)) eqn:E; [|exact IH]. intro H. inversion H; subst. exact (match_at_three _ _ E).
Qed.

Lemma split_func_and_script_no_panic s : split_func_and_script s <> Panic.
Proof.
  unfold split_func_and_script. destruct (find_submatch (strip_spaces s)) as [m|] eqn:E; [|discriminate].
  destruct (find_submatch_three _ _ E) as [a [b [c ->]]]. cbn. discriminate.
Qed.

Lemma trim_and_validate_checksum_no_panic d : trim_and_validate_checksum d <> Panic.
Proof.
  unfold trim_and_validate_checksum.
  destruct (length (split "#"%byte d)) as [|[|[|n]]] eqn:L; try discriminate.
  - destruct (index_lt (split "#"%byte d) 0 ltac:(lia)) as [x ->]. discriminate.
  - destruct (index_lt (split "#"%byte d) 1 ltac:(lia)) as [x ->].
    destruct (negb _); [discriminate|].
    destruct (index_lt (split "#"%byte d) 0 ltac:(lia)) as [y ->]. discriminate.
Qed.

(* the result of the switch is an argument (what it returns for names it does not implement) *)
Lemma parse_gen_no_panic unsup o d : unsup <> PPanic -> parse_gen false unsup o d <> PPanic.
Proof.
  intro U. unfold parse_gen.
  destruct (trim_and_validate_checksum d) as [body| |] eqn:E1; [|discriminate|exfalso; exact (trim_and_validate_checksum_no_panic _ E1)].
  unfold parse_script_expression.
  destruct (split_func_and_script body) as [[f inner]| |] eqn:E2; [|discriminate|exfalso; exact (split_func_and_script_no_panic _ E2)].
  destruct (existsb _ _); [exact U|].
  destruct (bytes_eqb f Lit.elwpkh).
  - destruct (parse_key_expression false o inner) eqn:E3; [discriminate|discriminate|exfalso; exact (parse_key_expression_no_panic _ _ E3)].
  - destruct (bytes_eqb f Lit.elraw); discriminate.
Qed.

(* (a) for every text and every answer of the code below the repository: a wallet or an error, no panic *)
Theorem descriptor_parse_no_panic : forall o d, parse o d <> PPanic.
Proof. intros o d. apply parse_gen_no_panic. discriminate. Qed.

(* the guard that commit a950a3e replaced is what this rests on: with the old test the same parser panics *)
Definition o_none : oracles := mk_oracles (fun _ => false) (fun _ => None) (fun _ _ => false) (fun _ _ => None).
Definition txt (s : String.string) : bytes := String.list_byte_of_string s.

Module DescEx1.
Import Coq.Strings.String.
Example parse_before_a950a3e_panics : parse_before_a950a3e o_none (txt "elwpkh(]x)") = PPanic.
Proof. vm_compute. reflexivity. Qed.
Example parse_after_a950a3e_rejects : parse o_none (txt "elwpkh(]x)") = PErr.
Proof. vm_compute. reflexivity. Qed.
End DescEx1.

(* (b) value or error: never (nil, nil) *)
Lemma parse_gen_value_or_error g unsup o d : unsup <> PNilNil -> parse_gen g unsup o d <> PNilNil.
Proof.
  intro U. unfold parse_gen. destruct (trim_and_validate_checksum d); try discriminate.
  unfold parse_script_expression. destruct (split_func_and_script a) as [[f inner]| |]; try discriminate.
  destruct (existsb _ _); [exact U|].
  destruct (bytes_eqb f Lit.elwpkh); [destruct (parse_key_expression g o inner); discriminate|].
  destruct (bytes_eqb f Lit.elraw); discriminate.
Qed.

Theorem descriptor_parse_value_or_error : forall o d, parse o d <> PNilNil.
Proof. intros o d. apply parse_gen_value_or_error. discriminate. Qed.

(* the shape before commit 8813a4b: every name the switch knows but does not implement gave (nil, nil) *)
Module DescEx2.
Import Coq.Strings.String.
Example parse_before_8813a4b_nilnil :
  forallb (fun name => match parse_before_8813a4b o_none (name ++ txt "(x)") with PNilNil => true | _ => false end)
          unsupported_names = true.
Proof. vm_compute. reflexivity. Qed.
Example parse_after_8813a4b_error :
  forallb (fun name => match parse o_none (name ++ txt "(x)") with PErr => true | _ => false end)
          unsupported_names = true.
Proof. vm_compute. reflexivity. Qed.
End DescEx2.

(* ---------- white space ---------- *)
Lemma tvc_shape d h t :
  split "#"%byte d = h :: t ->
  trim_and_validate_checksum d =
  match t with
  | [] => Ok h
  | [ck] => if negb (length ck =? 8)%nat then Err else Ok h
  | _ => Err
  end.
Proof.
  intro H. unfold trim_and_validate_checksum. rewrite H.
  destruct t as [|ck [|x t]]; reflexivity.
Qed.

Lemma parse_gen_shape g u o d h t :
  split "#"%byte d = h :: t ->
  parse_gen g u o d =
  match t with
  | [] => parse_script_expression g u o h
  | [ck] => if negb (length ck =? 8)%nat then PErr else parse_script_expression g u o h
  | _ => PErr
  end.
Proof.
  intro H. unfold parse_gen. rewrite (tvc_shape _ _ _ H).
  destruct t as [|ck [|x t]]; [reflexivity| |reflexivity]. destruct (negb _); reflexivity.
Qed.

Lemma pse_strip g u o b1 b2 :
  strip_spaces b1 = strip_spaces b2 -> parse_script_expression g u o b1 = parse_script_expression g u o b2.
Proof. intro H. unfold parse_script_expression, split_func_and_script. rewrite H. reflexivity. Qed.

Lemma strip_spaces_app a b : strip_spaces (a ++ b) = strip_spaces a ++ strip_spaces b.
Proof. apply filter_app. Qed.

Lemma strip_spaces_insert a c b : is_space c = true -> strip_spaces (a ++ c :: b) = strip_spaces (a ++ b).
Proof. intro H. rewrite !strip_spaces_app. cbn. unfold strip_spaces at 2. cbn. rewrite H. reflexivity. Qed.

Lemma strip_spaces_idem s : strip_spaces (strip_spaces s) = strip_spaces s.
Proof.
  unfold strip_spaces. induction s as [|c r IH]; cbn; [reflexivity|].
  destruct (is_space c) eqn:E; cbn; [exact IH|]. rewrite E. cbn. rewrite IH. reflexivity.
Qed.

Lemma space_not_hash c : is_space c = true -> beqb c "#"%byte = false.
Proof.
  intro H. destruct (beqb c "#"%byte) eqn:E; [|reflexivity]. apply beqb_eq in E. subst c. discriminate H.
Qed.

(* white space in front of the checksum separator does not matter *)
Theorem descriptor_whitespace_irrelevant : forall o a c b,
  is_space c = true -> cnt "#"%byte a = O -> parse o (a ++ c :: b) = parse o (a ++ b).
Proof.
  intros o a c b Hc Ha. unfold parse.
  destruct (split "#"%byte b) as [|h t] eqn:SB; [exfalso; exact (split_not_nil _ _ SB)|].
  assert (S1 : split "#"%byte (c :: b) = (c :: h) :: t).
  { cbn. rewrite (space_not_hash _ Hc), SB. reflexivity. }
  rewrite (parse_gen_shape _ _ _ _ _ _ (split_app_nosep _ a _ _ _ Ha S1)).
  rewrite (parse_gen_shape _ _ _ _ _ _ (split_app_nosep _ a _ _ _ Ha SB)).
  rewrite (pse_strip _ _ _ (a ++ c :: h) (a ++ h) (strip_spaces_insert _ _ _ Hc)). reflexivity.
Qed.

(* a text without checksum can be stripped of all its white space beforehand *)
Theorem descriptor_parse_stripped : forall o d, cnt "#"%byte d = O -> parse o (strip_spaces d) = parse o d.
Proof.
  intros o d H. unfold parse.
  rewrite (parse_gen_shape _ _ _ _ _ _ (split_no_sep _ _ H)).
  assert (H' : cnt "#"%byte (strip_spaces d) = O) by (unfold strip_spaces; apply cnt_filter_zero; exact H).
  rewrite (parse_gen_shape _ _ _ _ _ _ (split_no_sep _ _ H')).
  apply pse_strip. apply strip_spaces_idem.
Qed.

(* ---------- the regular expression ---------- *)
Lemma span_word_spec s : forall w r, span_word s = (w, r) ->
  s = w ++ r /\ forallb is_word w = true /\ match r with [] => True | c :: _ => is_word c = false end.
Proof.
  induction s as [|c s IH]; cbn; intros w r H.
  - inversion H; subst. repeat split.
  - destruct (is_word c) eqn:E.
    + destruct (span_word s) as [w1 r1]. inversion H; subst. destruct (IH w1 r eq_refl) as [-> [F T]].
      repeat split; [cbn; rewrite E; exact F | exact T].
    + inversion H; subst. repeat split. exact E.
Qed.

Lemma last_index_none c s : last_index c s = None <-> cnt c s = O.
Proof.
  induction s as [|x s IH]; cbn; [tauto|].
  destruct (last_index c s) as [k|] eqn:E; destruct (beqb x c) eqn:B.
  - split; intro H; discriminate H.
  - split; intro H; [discriminate H|]. apply IH in H. discriminate H.
  - split; intro H; discriminate H.
  - split; intro H; [apply IH; reflexivity | reflexivity].
Qed.

Lemma last_index_spec c s : forall k, last_index c s = Some k ->
  exists pre post, s = pre ++ c :: post /\ length pre = k /\ cnt c post = O.
Proof.
  induction s as [|x s IH]; cbn; intros k H; [discriminate|].
  destruct (last_index c s) as [k1|] eqn:E.
  - inversion H; subst. destruct (IH k1 eq_refl) as [pre [post [-> [L C]]]].
    exists (x :: pre), post. repeat split; [cbn; rewrite L; reflexivity | exact C].
  - destruct (beqb x c) eqn:B; [|discriminate]. inversion H; subst. apply beqb_eq in B. subst x.
    exists [], s. repeat split. apply last_index_none. exact E.
Qed.

Lemma last_index_app_none c a t : cnt c t = O -> last_index c (a ++ t) = last_index c a.
Proof.
  intro H. induction a as [|x a IH]; cbn.
  - apply last_index_none. exact H.
  - rewrite IH. reflexivity.
Qed.

Lemma last_index_app_some c a b : exists k, last_index c (a ++ c :: b) = Some k /\ (length a <= k)%nat.
Proof.
  induction a as [|x a IH]; cbn.
  - destruct (last_index c b) as [k|]; [exists (S k); split; [reflexivity|lia]|].
    rewrite beqb_refl. exists O. split; [reflexivity|lia].
  - destruct IH as [k [-> L]]. exists (S k). split; [reflexivity|lia].
Qed.

Notation lparen := ("("%byte) (only parsing).
Notation rparen := (")"%byte) (only parsing).
Notation hash := ("#"%byte) (only parsing).

(* what a reported match is: a non-empty run of word characters, the parenthesis, a non-empty inner text, and
   the LAST closing parenthesis of the subject *)
Lemma match_at_sound s whole f inner : match_at s = Some [whole; f; inner] ->
  exists post, s = f ++ lparen :: inner ++ rparen :: post /\ f <> [] /\ forallb is_word f = true /\
               inner <> [] /\ cnt rparen post = O /\ whole = f ++ lparen :: inner ++ [rparen].
Proof.
  unfold match_at. destruct (span_word s) as [w r] eqn:SW.
  destruct (span_word_spec _ _ _ SW) as [-> [F _]].
  destruct w as [|c0 w]; [discriminate|]. destruct r as [|lp body]; [discriminate|].
  destruct (beqb lp "("%byte) eqn:B; [|discriminate]. apply beqb_eq in B. subst lp.
  destruct (last_index ")"%byte body) as [[|k]|] eqn:LI; try discriminate.
  destruct (last_index_spec _ _ _ LI) as [pre [post [-> [L C]]]].
  assert (FN : firstn (S k) (pre ++ ")"%byte :: post) = pre).
  { rewrite <- L. rewrite firstn_app, Nat.sub_diag, firstn_all. cbn. apply app_nil_r. }
  rewrite FN. intro H. inversion H; subst. exists post.
  repeat split; try assumption; try discriminate.
  destruct inner; [discriminate L | discriminate].
Qed.

Lemma find_submatch_sound s whole f inner : find_submatch s = Some [whole; f; inner] ->
  exists pre post, s = pre ++ f ++ lparen :: inner ++ rparen :: post /\ f <> [] /\ forallb is_word f = true /\
                   inner <> [] /\ cnt rparen post = O.
Proof.
  induction s as [|c s IH]; cbn [find_submatch].
  - destruct (match_at []) eqn:E; [discriminate E | discriminate].
  - destruct (match_at (c :: s)) as [m|] eqn:E.
    + intro H. inversion H; subst. destruct (match_at_sound _ _ _ _ E) as [post [-> [N [F [I [C _]]]]]].
      exists [], post. repeat split; assumption.
    + intro H. destruct (IH H) as [pre [post [-> R]]]. exists (c :: pre), post. split; [reflexivity | exact R].
Qed.

Lemma span_word_app_nonword w r : forallb is_word w = true -> match r with [] => True | c :: _ => is_word c = false end ->
  span_word (w ++ r) = (w, r).
Proof.
  intros F T. induction w as [|c w IH]; cbn in *.
  - destruct r as [|c r]; [reflexivity|]. cbn. rewrite T. reflexivity.
  - apply andb_true_iff in F as [F1 F2]. rewrite F1, (IH F2). reflexivity.
Qed.

(* and a match is reported whenever the subject contains one *)
Lemma find_submatch_complete pre f inner post :
  f <> [] -> forallb is_word f = true -> inner <> [] ->
  find_submatch (pre ++ f ++ lparen :: inner ++ rparen :: post) <> None.
Proof.
  intros N F I. induction pre as [|c pre IH]; cbn [app find_submatch].
  - assert (M : match_at (f ++ lparen :: inner ++ rparen :: post) <> None).
    { unfold match_at. rewrite (span_word_app_nonword f (lparen :: inner ++ rparen :: post) F eq_refl).
      destruct f as [|c0 f]; [contradiction|]. rewrite beqb_refl.
      destruct (last_index_app_some rparen inner post) as [k [-> L]].
      destruct k as [|k]; [destruct inner; [contradiction | cbn in L; lia]|]. discriminate. }
    destruct (f ++ lparen :: inner ++ rparen :: post) as [|x y] eqn:E; cbn [find_submatch];
      destruct (match_at _); [discriminate|contradiction|discriminate|contradiction].
  - destruct (match_at _); [discriminate | exact IH].
Qed.

Lemma match_at_no_paren s : cnt rparen s = O -> match_at s = None.
Proof.
  intro H. unfold match_at. destruct (span_word s) as [w r] eqn:SW.
  destruct (span_word_spec _ _ _ SW) as [-> _].
  destruct w; [reflexivity|]. destruct r as [|lp body]; [reflexivity|].
  destruct (beqb lp "("%byte); [|reflexivity].
  rewrite cnt_app in H. cbn in H. destruct (beqb lp rparen); [lia|].
  assert (C : cnt rparen body = O) by lia. apply last_index_none in C. rewrite C. reflexivity.
Qed.

Lemma find_submatch_no_paren s : cnt rparen s = O -> find_submatch s = None.
Proof.
  induction s as [|c s IH]; intro H; cbn [find_submatch]; rewrite (match_at_no_paren _ H); [reflexivity|].
  apply IH. cbn in H. destruct (beqb c rparen); [discriminate | exact H].
Qed.

Lemma pse_no_paren g u o b : cnt rparen b = O -> parse_script_expression g u o b = PErr.
Proof.
  intro H. unfold parse_script_expression, split_func_and_script.
  rewrite find_submatch_no_paren; [reflexivity|]. unfold strip_spaces. apply cnt_filter_zero. exact H.
Qed.

(* ---------- what an accepted text looks like ---------- *)
Lemma split_two sep d h ck : split sep d = [h; ck] -> d = h ++ sep :: ck /\ cnt sep h = O /\ cnt sep ck = O.
Proof.
  intro H. destruct (split_head _ _ _ _ H) as [Hh [[E _] | [r [-> E]]]]; [discriminate E|].
  assert (L : length (split sep r) = 1%nat) by (rewrite <- E; reflexivity).
  rewrite split_length in L. assert (C : cnt sep r = O) by lia.
  rewrite (split_no_sep _ _ C) in E. inversion E; subst. repeat split; assumption.
Qed.

Theorem descriptor_accepted_shape : forall o d w, parse o d = POk w ->
  exists body inner pre post,
    (d = body \/ exists ck, d = body ++ hash :: ck /\ length ck = 8%nat /\ cnt hash ck = O) /\
    cnt hash body = O /\
    strip_spaces body = pre ++ Lit.elwpkh ++ lparen :: inner ++ rparen :: post /\
    inner <> [] /\ cnt rparen post = O /\
    parse_key_expression false o inner = Ok w.
Proof.
  intros o d w H. unfold parse in H.
  destruct (split "#"%byte d) as [|body t] eqn:SP; [exfalso; exact (split_not_nil _ _ SP)|].
  rewrite (parse_gen_shape _ _ _ _ _ _ SP) in H.
  assert (HB : (d = body \/ exists ck, d = body ++ hash :: ck /\ length ck = 8%nat /\ cnt hash ck = O) /\ cnt hash body = O /\
               parse_script_expression false PErr o body = POk w).
  { destruct t as [|ck [|x t]]; [| |discriminate].
    - destruct (split_head _ _ _ _ SP) as [Hc [[_ E] | [r [_ E]]]]; [|exfalso; exact (split_not_nil _ _ (eq_sym E))].
      repeat split; [left; exact E | exact Hc | exact H].
    - destruct (Nat.eqb_spec (length ck) 8) as [L|]; [|discriminate]. cbn [negb] in H.
      destruct (split_two _ _ _ _ SP) as [E [C1 C2]].
      repeat split; [right; exists ck; repeat split; assumption | exact C1 | exact H]. }
  destruct HB as [HD [HC HP]]. clear H SP.
  unfold parse_script_expression, split_func_and_script in HP.
  destruct (find_submatch (strip_spaces body)) as [m|] eqn:FS; [|discriminate].
  destruct (find_submatch_three _ _ FS) as [whole [f [inner ->]]]. cbn [length Nat.eqb negb index nth_error] in HP.
  destruct (existsb (bytes_eqb f) unsupported_names); [discriminate|].
  destruct (bytes_eqb f Lit.elwpkh) eqn:EF; [|destruct (bytes_eqb f Lit.elraw); discriminate].
  apply bytes_eqb_eq in EF. subst f.
  destruct (parse_key_expression false o inner) as [ki| |] eqn:PK; try discriminate. inversion HP; subst ki.
  destruct (find_submatch_sound _ _ _ _ FS) as [pre [post [E [_ [_ [I C]]]]]].
  exists body, inner, pre, post. repeat split; assumption.
Qed.

(* ---------- strict prefixes ---------- *)
Definition accepted (o : oracles) (d : bytes) : Prop := exists w, parse o d = POk w.
Definition strict_prefix (p s : bytes) : Prop := exists t, t <> [] /\ s = p ++ t.

(* without a closing parenthesis nothing is accepted *)
Theorem descriptor_no_close_paren_rejected : forall o d, cnt rparen d = O -> parse o d = PErr.
Proof.
  intros o d H. unfold parse.
  destruct (split "#"%byte d) as [|h t] eqn:SP; [exfalso; exact (split_not_nil _ _ SP)|].
  rewrite (parse_gen_shape _ _ _ _ _ _ SP).
  assert (Hh : cnt rparen h = O).
  { destruct (split_head _ _ _ _ SP) as [_ [[_ E] | [r [E _]]]]; subst d; [exact H|]. rewrite cnt_app in H. lia. }
  rewrite (pse_no_paren _ _ _ _ Hh). destruct t as [|ck [|x t]]; [reflexivity| |reflexivity].
  destruct (negb _); reflexivity.
Qed.

(* a checksum part of any length other than 8 is refused, whatever stands in front of it *)
Theorem descriptor_bad_checksum_length_rejected : forall o body c,
  length c <> 8%nat -> parse o (body ++ hash :: c) = PErr.
Proof.
  intros o body c L. unfold parse.
  destruct (split "#"%byte (body ++ hash :: c)) as [|h t] eqn:SP; [exfalso; exact (split_not_nil _ _ SP)|].
  rewrite (parse_gen_shape _ _ _ _ _ _ SP).
  pose proof (split_length "#"%byte (body ++ hash :: c)) as SL. rewrite SP, cnt_app in SL. cbn in SL.
  destruct t as [|ck [|x t]]; [cbn in SL; lia| |reflexivity].
  cbn in SL. assert (C1 : cnt hash body = O) by lia. assert (C2 : cnt hash c = O) by lia.
  rewrite (split_app_sep _ _ _ C1), (split_no_sep _ _ C2) in SP. inversion SP; subst.
  destruct (Nat.eqb_spec (length ck) 8); [contradiction | reflexivity].
Qed.

(* the checksum is optional: with or without a well-sized one, the answer is the same *)
Theorem descriptor_checksum_optional : forall o body ck,
  cnt hash body = O -> cnt hash ck = O -> length ck = 8%nat -> parse o (body ++ hash :: ck) = parse o body.
Proof.
  intros o body ck C1 C2 L. unfold parse.
  assert (SP : split "#"%byte (body ++ hash :: ck) = [body; ck]) by (rewrite (split_app_sep _ _ _ C1), (split_no_sep _ _ C2); reflexivity).
  rewrite (parse_gen_shape _ _ _ _ _ _ SP), (parse_gen_shape _ _ _ _ _ _ (split_no_sep _ _ C1)).
  rewrite L. reflexivity.
Qed.

Lemma strict_prefix_cases (p t a x : bytes) : p ++ t = a ++ x ->
  (exists u, a = p ++ u) \/ (exists u, p = a ++ u /\ x = u ++ t).
Proof.
  intro H. destruct (app_eq_app _ _ _ _ H) as [l [[E1 E2] | [E1 E2]]]; [right | left]; exists l; tauto.
Qed.

(* a descriptor `text)` whose only closing parenthesis is the last character: no strict prefix is accepted *)
Theorem descriptor_strict_prefix_rejected : forall o b p,
  cnt rparen b = O -> strict_prefix p (b ++ [rparen]) -> parse o p = PErr.
Proof.
  intros o b p C [t [N E]]. apply descriptor_no_close_paren_rejected.
  symmetry in E. destruct (strict_prefix_cases _ _ _ _ E) as [[u ->] | [u [-> E2]]].
  - rewrite cnt_app in C. lia.
  - destruct u as [|c u]; [rewrite app_nil_r; exact C|].
    inversion E2 as [[E3 E4]]. destruct u; [cbn in E4; subst t; contradiction | discriminate E4].
Qed.

(* ... and with a checksum behind it, the one strict prefix that is accepted (if the whole is) is the descriptor
   without its checksum *)
Theorem descriptor_strict_prefixes_with_checksum : forall o b ck p,
  cnt rparen b = O -> length ck = 8%nat ->
  strict_prefix p (b ++ rparen :: hash :: ck) -> parse o p <> PErr -> p = b ++ [rparen].
Proof.
  intros o b ck p C L [t [N E]] A. symmetry in E.
  destruct (strict_prefix_cases _ _ _ _ E) as [[u ->] | [u [-> E2]]].
  - exfalso. apply A. apply descriptor_no_close_paren_rejected. rewrite cnt_app in C. lia.
  - destruct u as [|c1 u]; [exfalso; apply A; apply descriptor_no_close_paren_rejected; rewrite app_nil_r; exact C|].
    inversion E2 as [[E3 E4]]. subst c1. destruct u as [|c2 u]; [reflexivity|].
    inversion E4 as [[E5 E6]]. subst c2. exfalso. apply A.
    replace (b ++ ")"%byte :: "#"%byte :: u) with ((b ++ [")"%byte]) ++ "#"%byte :: u) by (rewrite <- app_assoc; reflexivity).
    apply descriptor_bad_checksum_length_rejected.
    assert (LL : length ck = (length u + length t)%nat) by (rewrite E6, app_length; reflexivity).
    destruct t; [contradiction|]. cbn in LL. lia.
Qed.

(* ---------- the expression is searched for, not anchored ---------- *)
Lemma span_word_app x t : forall w r, span_word x = (w, r) -> r <> [] -> span_word (x ++ t) = (w, r ++ t).
Proof.
  induction x as [|c x IH]; cbn; intros w r H N.
  - inversion H; subst. contradiction.
  - destruct (is_word c) eqn:E.
    + destruct (span_word x) as [w1 r1]. inversion H; subst. rewrite (IH w1 r eq_refl N). reflexivity.
    + inversion H; subst. reflexivity.
Qed.

Lemma rparen_not_word : is_word rparen = false.
Proof. reflexivity. Qed.

Lemma match_at_app x t : cnt rparen t = O -> match_at ((x ++ [rparen]) ++ t) = match_at (x ++ [rparen]).
Proof.
  intro C. unfold match_at. destruct (span_word (x ++ [rparen])) as [w r] eqn:SW.
  destruct (span_word_spec _ _ _ SW) as [E [F T]].
  assert (N : r <> []).
  { intro; subst r. rewrite app_nil_r in E. subst w. rewrite forallb_app in F. cbn in F.
    apply andb_true_iff in F as [_ F]. discriminate F. }
  rewrite (span_word_app _ t _ _ SW N).
  destruct w as [|c0 w]; [reflexivity|]. destruct r as [|lp body]; [contradiction|]. cbn [app].
  destruct (beqb lp "("%byte); [|reflexivity].
  rewrite (last_index_app_none _ body t C).
  destruct (last_index ")"%byte body) as [[|k]|] eqn:LI; try reflexivity.
  destruct (last_index_spec _ _ _ LI) as [pre [post [-> [L _]]]].
  rewrite <- L. rewrite <- !app_assoc. rewrite !firstn_app, !Nat.sub_diag, !firstn_all. reflexivity.
Qed.

Lemma find_submatch_app x t : cnt rparen t = O -> find_submatch ((x ++ [rparen]) ++ t) = find_submatch (x ++ [rparen]).
Proof.
  intro C. induction x as [|c x IH].
  - cbn [app find_submatch]. rewrite (find_submatch_no_paren t C).
    assert (M : forall y, match_at (")"%byte :: y) = None) by reflexivity. rewrite !M.
    destruct t; reflexivity.
  - change (((c :: x) ++ [rparen]) ++ t) with (c :: ((x ++ [rparen]) ++ t)).
    change ((c :: x) ++ [rparen]) with (c :: (x ++ [rparen])).
    cbn [find_submatch].
    change (c :: ((x ++ [rparen]) ++ t)) with (((c :: x) ++ [rparen]) ++ t).
    change (c :: (x ++ [rparen])) with ((c :: x) ++ [rparen]).
    rewrite (match_at_app (c :: x) t C). rewrite IH. reflexivity.
Qed.

(* text behind the last closing parenthesis is not looked at ... *)
Theorem descriptor_trailing_text_ignored : forall o s t,
  cnt hash s = O -> cnt hash t = O -> cnt rparen t = O ->
  parse o ((s ++ [rparen]) ++ t) = parse o (s ++ [rparen]).
Proof.
  intros o s t C1 C2 C3. unfold parse.
  assert (H1 : cnt hash (s ++ [rparen]) = O) by (rewrite cnt_app; cbn; lia).
  assert (H2 : cnt hash ((s ++ [rparen]) ++ t) = O) by (rewrite cnt_app; lia).
  rewrite (parse_gen_shape _ _ _ _ _ _ (split_no_sep _ _ H1)), (parse_gen_shape _ _ _ _ _ _ (split_no_sep _ _ H2)).
  unfold parse_script_expression, split_func_and_script.
  rewrite !strip_spaces_app. change (strip_spaces [rparen]) with [rparen].
  rewrite find_submatch_app; [reflexivity|]. unfold strip_spaces. apply cnt_filter_zero. exact C3.
Qed.

Lemma find_submatch_skip_nonword t x : forallb (fun c => negb (is_word c)) t = true -> find_submatch (t ++ x) = find_submatch x.
Proof.
  induction t as [|c t IH]; cbn [app forallb]; intro H; [reflexivity|].
  apply andb_true_iff in H as [H1 H2]. cbn [find_submatch].
  assert (M : match_at (c :: t ++ x) = None).
  { unfold match_at. cbn [span_word]. destruct (is_word c); [discriminate H1 | reflexivity]. }
  rewrite M. apply IH. exact H2.
Qed.

(* ... nor is text in front of it that has no word character *)
Theorem descriptor_leading_text_ignored : forall o t s,
  cnt hash t = O -> forallb (fun c => negb (is_word c)) t = true -> parse o (t ++ s) = parse o s.
Proof.
  intros o t s C W. unfold parse.
  destruct (split "#"%byte s) as [|h r] eqn:SP; [exfalso; exact (split_not_nil _ _ SP)|].
  rewrite (parse_gen_shape _ _ _ _ _ _ SP), (parse_gen_shape _ _ _ _ _ _ (split_app_nosep _ t _ _ _ C SP)).
  assert (E : parse_script_expression false PErr o (t ++ h) = parse_script_expression false PErr o h).
  { unfold parse_script_expression, split_func_and_script. rewrite strip_spaces_app.
    rewrite find_submatch_skip_nonword; [reflexivity|].
    unfold strip_spaces. clear -W. induction t as [|c t IH]; [reflexivity|]. cbn in *.
    apply andb_true_iff in W as [W1 W2]. destruct (is_space c); cbn; [apply IH; exact W2|]. rewrite W1. apply IH. exact W2. }
  rewrite E. reflexivity.
Qed.

(* ---------- the key of an accepted wallet ---------- *)
(* exactly one of the three optional parts of keyInfo is set, and it passed its test *)
Definition one_key (o : oracles) (w : key_info) : Prop :=
  match ki_pub w, ki_wif w, ki_ext w with
  | Some k, None, None => exists raw, hex_decode k = Some raw /\ o_pub o raw = true
  | None, Some k, None => exists pub, o_wif o k = Some pub
  | None, None, Some e => is_extended (ek_key e) = true
  | _, _, _ => False
  end.

Lemma parse_key_one o ke p w e : parse_key o ke = Ok (p, w, e) -> forall org, one_key o (mk_ki org p w e).
Proof.
  unfold parse_key. destruct (index (split "/"%byte ke) 0) as [key|]; [|discriminate].
  destruct (if (length (split "/"%byte ke) =? 1)%nat then Some [] else slice_from (length key) ke) as [ps0|]; [|discriminate].
  destruct (is_pub_key o key) eqn:PK.
  { intros H org. inversion H; subst. unfold one_key; cbn. unfold is_pub_key in PK.
    destruct (hex_decode key) as [raw|]; [|discriminate]. exists raw. split; [reflexivity | exact PK]. }
  destruct (is_wif o key) eqn:WF.
  { intros H org. inversion H; subst. unfold one_key; cbn. unfold is_wif in WF.
    destruct (o_wif o key) as [pub|]; [|discriminate]. exists pub. reflexivity. }
  destruct (is_extended key) eqn:EX; [|discriminate].
  destruct ps0 as [|c ps].
  { intros H org. inversion H; subst. exact EX. }
  destruct (slice_from 1 (c :: ps)) as [ps1|]; [|discriminate].
  destruct (has_suffix ps1 Lit.slash_star).
  - destruct (slice_to _ ps1) as [ps2|]; [|discriminate].
    destruct (parse_path _); try discriminate. intros H org. inversion H; subst. exact EX.
  - destruct (parse_path _); try discriminate. intros H org. inversion H; subst. exact EX.
Qed.

Lemma parse_ok_key_expression o d w : parse o d = POk w -> exists inner, parse_key_expression false o inner = Ok w.
Proof.
  intro H. destruct (descriptor_accepted_shape _ _ _ H) as [body [inner [pre [post [_ [_ [_ [_ [_ K]]]]]]]]].
  exists inner. exact K.
Qed.

Theorem descriptor_accepted_one_key : forall o d w, parse o d = POk w -> one_key o w.
Proof.
  intros o d w H. destruct (parse_ok_key_expression _ _ _ H) as [inner K].
  unfold parse_key_expression in K.
  destruct (parse_key_origin_info false inner) as [org| |]; try discriminate.
  destruct (trim_key_origin_info inner) as [tr| |]; try discriminate.
  destruct (parse_key o tr) as [[[p wf] e]| |] eqn:PK; try discriminate.
  inversion K; subst. exact (parse_key_one _ _ _ _ _ PK org).
Qed.

(* path components: the number written, plus 2^31 when marked hardened, without wrapping around 2^32 *)
Lemma parse_component_exact c v : parse_component c = Ok v ->
  exists base text z, (base = 0 \/ base = hardened_key_start) /\ int_set_string0 text = Some z /\
                      (0 <= z)%Z /\ v = base + Z.to_N z /\ v <= u32max.
Proof.
  unfold parse_component.
  set (t := trim_space c).
  assert (G : forall base text, (base = 0 \/ base = hardened_key_start) ->
    match int_set_string0 text with
    | None => Err
    | Some big => if ((big <? 0) || (Z.of_N (u32max - base) <? big))%Z then Err
                  else Ok ((base + (Z.to_N big mod two64) mod two32) mod two32)
    end = Ok v ->
    exists base text z, (base = 0 \/ base = hardened_key_start) /\ int_set_string0 text = Some z /\
                        (0 <= z)%Z /\ v = base + Z.to_N z /\ v <= u32max).
  { intros base text HB H. destruct (int_set_string0 text) as [z|] eqn:E; [|discriminate].
    destruct (Z.ltb_spec z 0) as [|Z0]; [discriminate|].
    destruct (Z.ltb_spec (Z.of_N (u32max - base)) z) as [|ZM]; [discriminate|]. cbn [orb] in H.
    inversion H as [HV]. exists base, text, z. split; [exact HB|]. split; [exact E|]. split; [exact Z0|].
    assert (HZ : Z.to_N z <= u32max - base) by lia.
    assert (HB2 : base <= u32max) by (destruct HB as [-> | ->]; vm_compute; discriminate).
    unfold u32max, two64, two32 in *.
    rewrite (N.mod_small (Z.to_N z)) by lia. rewrite (N.mod_small (Z.to_N z)) by lia.
    rewrite N.mod_small by lia. split; [reflexivity | lia]. }
  destruct (has_suffix t Lit.quote); [apply G; right; reflexivity|].
  destruct (has_suffix t Lit.aitch); [apply G; right; reflexivity|].
  apply G. left. reflexivity.
Qed.

(* ---------- the methods of an accepted wallet ---------- *)
Lemma range_scripts_no_panic o w e : forall todo i, range_scripts o w e i todo <> Panic.
Proof.
  induction todo as [|t IH]; intro i; cbn; [discriminate|].
  destruct (o_hd_pub o (ek_key e) _); [|discriminate].
  destruct (range_scripts o w e (i + 1) t) eqn:E; [discriminate|discriminate|exfalso; exact (IH _ E)].
Qed.

(* Script never panics, for every wallet value, every options value a caller can build, every answer of hdkeychain *)
Theorem descriptor_script_no_panic : forall o w opts, script o w opts <> Panic.
Proof.
  intros o w opts. unfold script, script_gen.
  assert (S : exists num idx more,
    (if is_range w then match opts with ONil => Ok (100%Z, 0, false) | OIndex i => Ok (100%Z, i, false)
                                        | ORange n => Ok (n, 0, true) | OZero => Ok (100%Z, 0, false) end
     else Ok (1%Z, 0, false)) = Ok (num, idx, more)).
  { destruct (is_range w); [destruct opts|]; do 3 eexists; reflexivity. }
  destruct S as [num [idx [more ->]]].
  destruct (ki_pub w) as [k|]; [destruct (hex_decode k); discriminate|].
  destruct (ki_wif w) as [k|]; [destruct (o_wif o k); discriminate|].
  destruct (ki_ext w) as [e|]; [|discriminate].
  destruct (negb _); [discriminate|]. destruct (ek_range e).
  - destruct more; [apply range_scripts_no_panic|]. destruct (o_hd_pub _ _ _); discriminate.
  - destruct (o_hd_pub _ _ _); discriminate.
Qed.

(* options with neither field behave like nil options *)
Theorem descriptor_script_zero_options : forall o w, script o w OZero = script o w ONil.
Proof. intros o w. unfold script, script_gen. destruct (is_range w); reflexivity. Qed.

(* for an accepted wallet the last branch of Script ("parser didnt recognised ...") is never taken, and a public key
   or WIF wallet always yields its one script *)
Theorem descriptor_script_of_pubkey : forall o d w k opts, parse o d = POk w -> ki_pub w = Some k ->
  exists raw, hex_decode k = Some raw /\ script o w opts = Ok [([], wpkh_script raw)].
Proof.
  intros o d w k opts H K. pose proof (descriptor_accepted_one_key _ _ _ H) as OK. unfold one_key in OK. rewrite K in OK.
  destruct (ki_wif w) eqn:W; [contradiction|]. destruct (ki_ext w) eqn:E; [contradiction|].
  destruct OK as [raw [HD _]]. exists raw. split; [exact HD|].
  unfold script, script_gen, is_range. rewrite E, K, HD. reflexivity.
Qed.

Theorem descriptor_script_of_wif : forall o d w k opts, parse o d = POk w -> ki_wif w = Some k ->
  exists pub, o_wif o k = Some pub /\ script o w opts = Ok [([], wpkh_script pub)].
Proof.
  intros o d w k opts H K. pose proof (descriptor_accepted_one_key _ _ _ H) as OK. unfold one_key in OK. rewrite K in OK.
  destruct (ki_pub w) eqn:P; [contradiction|]. destruct (ki_ext w) eqn:E; [contradiction|].
  destruct OK as [pub HW]. exists pub. split; [exact HW|].
  unfold script, script_gen, is_range. rewrite E, P, K, HW. reflexivity.
Qed.

(* WithRange(n) on a range wallet: n scripts, or an error *)
Lemma range_scripts_length o w e : forall todo i l, range_scripts o w e i todo = Ok l -> length l = todo.
Proof.
  induction todo as [|t IH]; intros i l; cbn; [intro H; inversion H; reflexivity|].
  destruct (o_hd_pub o (ek_key e) _); [|discriminate].
  destruct (range_scripts o w e (i + 1) t) eqn:E; try discriminate.
  intro H. inversion H; subst. cbn. rewrite (IH _ _ E). reflexivity.
Qed.

Theorem descriptor_script_range_count : forall o d w n l, parse o d = POk w -> is_range w = true ->
  script o w (ORange n) = Ok l -> length l = Z.to_nat n.
Proof.
  intros o d w n l H R S. pose proof (descriptor_accepted_one_key _ _ _ H) as OK. unfold one_key in OK.
  unfold is_range in R. destruct (ki_ext w) as [e|] eqn:E; [|discriminate].
  destruct (ki_pub w) eqn:P; [destruct (ki_wif w); contradiction|]. destruct (ki_wif w) eqn:W; [contradiction|].
  unfold script, script_gen, is_range in S. rewrite E, R, P, W in S.
  destruct (negb _); [discriminate|]. exact (range_scripts_length _ _ _ _ _ _ S).
Qed.

(* ---------- witnesses ---------- *)
Definition is_ok (r : presult) : bool := match r with POk _ => true | _ => false end.
Definition is_err (r : presult) : bool := match r with PErr => true | _ => false end.

Module DescEx3.
Import Coq.Strings.String.

(* the literal clause "no strict prefix of a valid encoding is accepted" fails by format: the checksum is optional *)
Example strict_prefix_literal_refuted :
  exists o s p, strict_prefix p s /\ accepted o s /\ accepted o p.
Proof.
  exists o_none, (txt "elwpkh(xpub/1/*)#12345678"), (txt "elwpkh(xpub/1/*)"). split; [|split].
  - exists (txt "#12345678"). split; [discriminate | reflexivity].
  - eexists. vm_compute. reflexivity.
  - eexists. vm_compute. reflexivity.
Qed.

(* white space inside or behind the checksum counts towards its length: the same descriptor with a line feed behind
   it is accepted without checksum and refused with one *)
Example whitespace_in_checksum_matters :
  is_ok (parse o_none (txt "elwpkh(xpub)#12345678")) = true /\
  is_err (parse o_none (txt "elwpkh(xpub)#12345678" ++ [x0a])) = true /\
  is_ok (parse o_none (txt "elwpkh(xpub)" ++ [x0a])) = true /\
  is_err (parse o_none (txt "elwpkh(xpub)#1234 5678")) = true /\
  is_ok (parse o_none (txt "elwpkh(xpub)#        ")) = true.
Proof. vm_compute. repeat split. Qed.

(* the expression is searched for (FindStringSubmatch): text around it is ignored, the inner text runs to the LAST
   closing parenthesis, and an extended key is recognised by its first four characters only *)
Example unanchored_and_prefix_only :
  is_ok (parse o_none (txt "!!elwpkh(xpubgarbage)zz")) = true /\
  is_ok (parse o_none (txt "elwpkh(xpubAAA)/1)")) = true /\
  is_err (parse o_none (txt "a(b)elwpkh(xpub)")) = true /\
  is_err (parse o_none (txt "xelwpkh(xpub)")) = true.
Proof. vm_compute. repeat split. Qed.

(* Script before commit 84bb833: zero-value options on a range wallet dereferenced a nil pointer *)
Example script_zero_options_before_84bb833 :
  exists w, parse o_none (txt "elwpkh(xpub/1/*)") = POk w /\ script_before_84bb833 o_none w OZero = Panic /\
            script o_none w OZero <> Panic.
Proof. eexists. split; [vm_compute; reflexivity | split; [vm_compute; reflexivity | apply descriptor_script_no_panic]]. Qed.

(* number syntax of path components (math/big SetString with base 0), answers of the Go library recorded by hand *)
Example number_syntax :
  map (fun s => int_set_string0 (txt s))
      [""; "0"; "00"; "08"; "0_7"; "0_"; "0x"; "0x_1"; "0X1F"; "0b101"; "0o17"; "0O17"; "017"; "1_000"; "1__0"; "_1"; "1_";
       "-0"; "-1"; "+5"; "--5"; "+"; "0x1g"; "1e3"; "0B"; "0_x1"; "0b_1"; "0__1"; "00_1"; "0_0"]%string =
  [None; Some 0; Some 0; None; Some 7; None; None; Some 1; Some 31; Some 5; Some 15; Some 15; Some 15; Some 1000; None; None; None;
   Some 0; Some (-1); Some 5; None; None; None; None; None; None; Some 1; None; Some 1; Some 0]%Z.
Proof. vm_compute. reflexivity. Qed.

Example path_bounds :
  map (fun s => parse_component (txt s))
      ["4294967295"; "4294967296"; "2147483647'"; "2147483648'"; "2147483647h"; "13'"; "0x10"; "-0"; "-1"; "1'h"; ""]%string =
  [Ok 4294967295; Err; Ok 4294967295; Err; Ok 4294967295; Ok 2147483661; Ok 16; Ok 0; Err; Err; Err].
Proof. vm_compute. reflexivity. Qed.

(* the hypotheses of the theorems above are satisfiable: an accepted range descriptor with origin, and its scripts *)
Definition o_fixed : oracles :=
  mk_oracles (fun _ => false) (fun _ => None) (fun _ _ => true) (fun _ p => Some (x03 :: map (fun v => b8 v) p)).
Example accepted_example :
  exists w, parse o_fixed (txt "elwpkh([d34db33f/44'/0h] xpub/1/0x2/*)#abcdefgh") = POk w /\ is_range w = true /\
            ki_origin w = Some (mk_origin 0x3fb34dd3 [0x8000002c; 0x80000000]) /\
            (exists l, script o_fixed w (ORange 3) = Ok l /\
                       map fst l = [[0x3fb34dd3; 0x8000002c; 0x80000000; 1; 2; 0]; [0x3fb34dd3; 0x8000002c; 0x80000000; 1; 2; 1];
                                    [0x3fb34dd3; 0x8000002c; 0x80000000; 1; 2; 2]]).
Proof.
  eexists. split; [vm_compute; reflexivity|]. split; [reflexivity|]. split; [reflexivity|].
  eexists. split; [vm_compute; reflexivity | reflexivity].
Qed.
End DescEx3.

End DescP.
