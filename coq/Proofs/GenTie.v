(* Proofs/GenTie.v — the constants the hand-written models use are the constants the
   Go source declares today (Gen/*.v is regenerated from /repo on every run). *)
From GE Require Import Lib.Bytes Model.Tx Gen.TxConsts.
Open Scope N_scope.

Lemma tie_MinusOne : Z.of_N MinusOne = g_MinusOne. Proof. reflexivity. Qed.
Lemma tie_OutpointIndexMask : Z.of_N OutpointIndexMask = g_OutpointIndexMask. Proof. reflexivity. Qed.
Lemma tie_OutpointIssuanceFlag : Z.of_N OutpointIssuanceFlag = g_OutpointIssuanceFlag. Proof. reflexivity. Qed.
Lemma tie_OutpointPeginFlag : Z.of_N OutpointPeginFlag = g_OutpointPeginFlag. Proof. reflexivity. Qed.
Lemma tie_WitnessScaleFactor : Z.of_N WitnessScaleFactor = g_WitnessScaleFactor. Proof. reflexivity. Qed.
Lemma tie_marker_flag : g_advancedTransactionMarker = 0%Z /\ g_advancedTransactionFlag = 1%Z. Proof. split; reflexivity. Qed.

(* the flag bits are disjoint from each other and from the index mask, and together
   with the mask they fill exactly 32 bits *)
Lemma tie_flag_bits_disjoint :
  Z.land g_OutpointIssuanceFlag g_OutpointPeginFlag = 0%Z /\
  Z.land g_OutpointIssuanceFlag g_OutpointIndexMask = 0%Z /\
  Z.land g_OutpointPeginFlag g_OutpointIndexMask = 0%Z /\
  (g_OutpointIssuanceFlag + g_OutpointPeginFlag + g_OutpointIndexMask = g_MinusOne)%Z.
Proof. repeat split; reflexivity. Qed.

Definition tx_consts_tied : Prop :=
  Z.of_N MinusOne = g_MinusOne /\ Z.of_N OutpointIndexMask = g_OutpointIndexMask /\
  Z.of_N OutpointIssuanceFlag = g_OutpointIssuanceFlag /\ Z.of_N OutpointPeginFlag = g_OutpointPeginFlag /\
  Z.of_N WitnessScaleFactor = g_WitnessScaleFactor.
Lemma tx_consts_tied_holds : tx_consts_tied.
Proof. repeat split; reflexivity. Qed.
