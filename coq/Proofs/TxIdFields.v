(* Proofs/TxIdFields.v — C04 field by field: which single fields of which input / output the id and the
   witness hash cover, stated on positions of the input and output lists (corollaries of Proofs/TxId.v). *)
From GE Require Import Lib.Bytes Lib.Varint Lib.Sha256 Model.Tx Model.TxHash Proofs.TxCodec Proofs.TxId.
Open Scope N_scope.

(* replace the element at position n (no effect past the end) *)
Fixpoint upd_nth {A} (l : list A) (n : nat) (f : A -> A) : list A :=
  match l, n with
  | [], _ => []
  | x :: r, O => f x :: r
  | x :: r, S m => x :: upd_nth r m f
  end.

Lemma map_upd_nth_fix {A B} (g : A -> B) (f : A -> A) l n :
  (forall x, g (f x) = g x) -> map g (upd_nth l n f) = map g l.
Proof.
  intro H. revert n. induction l as [|x r IH]; intros [|m]; cbn [upd_nth map]; try reflexivity.
  - rewrite H. reflexivity.
  - rewrite IH. reflexivity.
Qed.

(* the four witness fields of an input, and the two proofs of an output, set to arbitrary values *)
Definition set_in_witness_fields (w pw : list bytes) (irp inrp : bytes) (i : txin) : txin :=
  mk_in (in_hash i) (in_index i) (in_seq i) (in_script i) w (in_pegin i) pw (in_iss i) irp inrp.
Definition set_out_proofs (rp sp : bytes) (o : txout) : txout :=
  mk_out (o_asset o) (o_value o) (o_script o) (o_nonce o) rp sp.

(* exactly which fields the witness-free part keeps *)
Lemma strip_in_eq_iff i i' : strip_in i = strip_in i' <->
  in_hash i = in_hash i' /\ in_index i = in_index i' /\ in_seq i = in_seq i' /\ in_script i = in_script i' /\
  in_pegin i = in_pegin i' /\ in_iss i = in_iss i'.
Proof.
  unfold strip_in. split.
  - intro E. injection E as A B C D F G. repeat split; assumption.
  - intros (A & B & C & D & F & G). rewrite A, B, C, D, F, G. reflexivity.
Qed.

Lemma strip_out_eq_iff o o' : strip_out o = strip_out o' <->
  o_asset o = o_asset o' /\ o_value o = o_value o' /\ o_script o = o_script o' /\ o_nonce o = o_nonce o'.
Proof.
  unfold strip_out. split.
  - intro E. injection E as A B C D. repeat split; assumption.
  - intros (A & B & C & D). rewrite A, B, C, D. reflexivity.
Qed.

(* FRAME, per position: rewriting the script witness, peg-in witness and both issuance range proofs of any
   input, the range and surjection proof of any output, and the flag, leaves the id unchanged (no hypothesis) *)
Theorem txid_ignores_input_witness t n w pw irp inrp flag :
  txid (mk_tx (t_version t) flag (t_locktime t) (upd_nth (t_ins t) n (set_in_witness_fields w pw irp inrp)) (t_outs t))
  = txid t.
Proof.
  apply txid_frame_digest. unfold same_base. cbn [t_version t_locktime t_ins t_outs].
  repeat split. apply map_upd_nth_fix. intro x. reflexivity.
Qed.

Theorem txid_ignores_output_proofs t n rp sp flag :
  txid (mk_tx (t_version t) flag (t_locktime t) (t_ins t) (upd_nth (t_outs t) n (set_out_proofs rp sp)))
  = txid t.
Proof.
  apply txid_frame_digest. unfold same_base. cbn [t_version t_locktime t_ins t_outs].
  repeat split. apply map_upd_nth_fix. intro x. reflexivity.
Qed.

(* SENSITIVITY, per position *)
Lemma map_eq_nth_error {A B} (g : A -> B) l l' n x x' :
  map g l = map g l' -> nth_error l n = Some x -> nth_error l' n = Some x' -> g x = g x'.
Proof.
  intros E Hx Hx'. apply (map_nth_error g) in Hx. apply (map_nth_error g) in Hx'.
  rewrite E in Hx. rewrite Hx in Hx'. injection Hx' as E'. exact E'.
Qed.

Theorem txid_iff t t' : wf_tx t = true -> wf_tx t' = true ->
  (ser_txid t = ser_txid t' <-> same_base t t').
Proof. intros W W'. split; [apply txid_sensitive; assumption | apply txid_frame]. Qed.

Theorem txid_covers_version_locktime t t' : wf_tx t = true -> wf_tx t' = true ->
  (t_version t <> t_version t' \/ t_locktime t <> t_locktime t') -> ser_txid t <> ser_txid t'.
Proof.
  intros W W' D E. destruct (txid_sensitive t t' W W' E) as (A & B & _). destruct D as [D|D]; contradiction.
Qed.

Theorem txid_covers_counts t t' : wf_tx t = true -> wf_tx t' = true ->
  (length (t_ins t) <> length (t_ins t') \/ length (t_outs t) <> length (t_outs t')) -> ser_txid t <> ser_txid t'.
Proof.
  intros W W' D E. destruct (txid_sensitive t t' W W' E) as (_ & _ & A & B).
  apply (f_equal (@length _)) in A, B. rewrite !map_length in A, B. destruct D as [D|D]; contradiction.
Qed.

Theorem txid_covers_input_field t t' n i i' : wf_tx t = true -> wf_tx t' = true ->
  nth_error (t_ins t) n = Some i -> nth_error (t_ins t') n = Some i' ->
  (in_hash i <> in_hash i' \/ in_index i <> in_index i' \/ in_seq i <> in_seq i' \/ in_script i <> in_script i' \/
   in_pegin i <> in_pegin i' \/ in_iss i <> in_iss i') ->
  ser_txid t <> ser_txid t'.
Proof.
  intros W W' Hi Hi' D E. destruct (txid_sensitive t t' W W' E) as (_ & _ & A & _).
  pose proof (map_eq_nth_error strip_in _ _ n i i' A Hi Hi') as S.
  apply strip_in_eq_iff in S as (S1 & S2 & S3 & S4 & S5 & S6).
  destruct D as [D|[D|[D|[D|[D|D]]]]]; contradiction.
Qed.

Theorem txid_covers_output_field t t' n o o' : wf_tx t = true -> wf_tx t' = true ->
  nth_error (t_outs t) n = Some o -> nth_error (t_outs t') n = Some o' ->
  (o_asset o <> o_asset o' \/ o_value o <> o_value o' \/ o_script o <> o_script o' \/ o_nonce o <> o_nonce o') ->
  ser_txid t <> ser_txid t'.
Proof.
  intros W W' Ho Ho' D E. destruct (txid_sensitive t t' W W' E) as (_ & _ & _ & A).
  pose proof (map_eq_nth_error strip_out _ _ n o o' A Ho Ho') as S.
  apply strip_out_eq_iff in S as (S1 & S2 & S3 & S4).
  destruct D as [D|[D|[D|D]]]; contradiction.
Qed.

(* the witness hash covers every field of every input and output, witness fields included *)
Theorem wtxid_covers_input t t' n i i' : wf_tx t = true -> wf_tx t' = true ->
  nth_error (t_ins t) n = Some i -> nth_error (t_ins t') n = Some i' -> i <> i' -> ser_wtxid t <> ser_wtxid t'.
Proof.
  intros W W' Hi Hi' D E. destruct (wtxid_sensitive t t' W W' E) as (_ & _ & A & _).
  rewrite A in Hi. rewrite Hi in Hi'. injection Hi' as X. contradiction.
Qed.

Theorem wtxid_covers_output t t' n o o' : wf_tx t = true -> wf_tx t' = true ->
  nth_error (t_outs t) n = Some o -> nth_error (t_outs t') n = Some o' -> o <> o' -> ser_wtxid t <> ser_wtxid t'.
Proof.
  intros W W' Ho Ho' D E. destruct (wtxid_sensitive t t' W W' E) as (_ & _ & _ & A).
  rewrite A in Ho. rewrite Ho in Ho'. injection Ho' as X. contradiction.
Qed.

(* in particular each single witness field *)
Theorem wtxid_covers_witness_field t t' n i i' : wf_tx t = true -> wf_tx t' = true ->
  nth_error (t_ins t) n = Some i -> nth_error (t_ins t') n = Some i' ->
  (in_witness i <> in_witness i' \/ in_pegwit i <> in_pegwit i' \/ in_irp i <> in_irp i' \/ in_inrp i <> in_inrp i') ->
  ser_wtxid t <> ser_wtxid t'.
Proof.
  intros W W' Hi Hi' D. apply (wtxid_covers_input t t' n i i' W W' Hi Hi').
  intro X. rewrite X in D. destruct D as [D|[D|[D|D]]]; apply D; reflexivity.
Qed.

Theorem wtxid_covers_output_proofs t t' n o o' : wf_tx t = true -> wf_tx t' = true ->
  nth_error (t_outs t) n = Some o -> nth_error (t_outs t') n = Some o' ->
  (o_rp o <> o_rp o' \/ o_sp o <> o_sp o') -> ser_wtxid t <> ser_wtxid t'.
Proof.
  intros W W' Ho Ho' D. apply (wtxid_covers_output t t' n o o' W W' Ho Ho').
  intro X. rewrite X in D. destruct D as [D|D]; apply D; reflexivity.
Qed.

(* non-vacuity: a well-formed transaction with one input, and the same with another sequence number / witness *)
Definition ex_in (sq : N) (w : list bytes) : txin :=
  mk_in (repeat (b8 7) 32) 1 sq [] w false [] None [] [].
Example covers_input_field_applies :
  let t  := mk_tx 2 0 0 [ex_in 5 []] [] in
  let t' := mk_tx 2 0 0 [ex_in 6 []] [] in
  wf_tx t = true /\ wf_tx t' = true /\ ser_txid t <> ser_txid t'.
Proof.
  cbv zeta. split; [vm_compute; reflexivity|]. split; [vm_compute; reflexivity|].
  apply (txid_covers_input_field _ _ 0%nat (ex_in 5 []) (ex_in 6 [])); try reflexivity.
  right. right. left. discriminate.
Qed.

Example covers_witness_field_applies :
  let t  := mk_tx 2 1 0 [ex_in 5 [[b8 1]]] [] in
  let t' := mk_tx 2 1 0 [ex_in 5 [[b8 2]]] [] in
  wf_tx t = true /\ wf_tx t' = true /\ txid t = txid t' /\ ser_wtxid t <> ser_wtxid t'.
Proof.
  cbv zeta. split; [vm_compute; reflexivity|]. split; [vm_compute; reflexivity|]. split.
  - apply txid_frame_digest. repeat split.
  - apply (wtxid_covers_witness_field _ _ 0%nat (ex_in 5 [[b8 1]]) (ex_in 5 [[b8 2]])); try reflexivity.
    left. discriminate.
Qed.
